/-
Helper lemmas for C28 (metadata API); model in GrpcModel/Model/MD.lean.
-/
import GrpcModel.Model.MD
namespace GrpcProofs.Lemmas.MD
open GrpcModel.MD

theorem lowerC_idem (n : Nat) : lowerC (lowerC n) = lowerC n := by
  unfold lowerC
  by_cases h : 65 ≤ n ∧ n ≤ 90
  · simp [h]; omega
  · simp [h]

theorem lower_idem (k : Key) : lower (lower k) = lower k := by
  simp [lower, lowerC_idem]

/-! ### map primitives -/

theorem mget_mset (md : MD) (k k' : Key) (v : List Val) :
    mget (mset md k v) k' = if k = k' then some v else mget md k' := by
  induction md with
  | nil => simp [mset, mget]
  | cons e t ih =>
    obtain ⟨a, b⟩ := e
    by_cases h : a = k
    · subst h
      by_cases h2 : a = k' <;> simp [mset, mget, h2]
    · simp only [mset, h, if_false, mget]
      by_cases h2 : a = k'
      · subst h2; simp [h, Ne.symm h]
      · simp [h2, ih]

theorem mgetD_mset (md : MD) (k k' : Key) (v : List Val) :
    mgetD (mset md k v) k' = if k = k' then v else mgetD md k' := by
  unfold mgetD; rw [mget_mset]; split <;> rfl

theorem mget_mdel (md : MD) (k k' : Key) :
    mget (mdel md k) k' = if k = k' then none else mget md k' := by
  induction md with
  | nil => simp [mdel, mget]
  | cons e t ih =>
    obtain ⟨a, b⟩ := e
    unfold mdel at ih ⊢
    by_cases h : a = k
    · subst h
      by_cases h2 : a = k'
      · subst h2; simpa [mget] using ih
      · simp [mget, ih, h2]
    · by_cases h2 : a = k'
      · subst h2; simp [List.filter_cons, mget, h, Ne.symm h]
      · simp [List.filter_cons, mget, h, h2, ih]

theorem mem_of_mget {md : MD} {k : Key} {v : List Val} (h : mget md k = some v) : (k, v) ∈ md := by
  induction md with
  | nil => simp [mget] at h
  | cons e t ih =>
    obtain ⟨a, b⟩ := e
    simp only [mget] at h
    by_cases h2 : a = k
    · simp [h2] at h; subst h2; subst h; simp
    · simp [h2] at h; exact List.mem_cons_of_mem _ (ih h)

/-- keys of a map -/
def keys (md : MD) : List Key := md.map (·.1)

theorem keys_mset (md : MD) (k : Key) (v : List Val) :
    ∀ x, x ∈ keys (mset md k v) ↔ x = k ∨ x ∈ keys md := by
  induction md with
  | nil => simp [mset, keys]
  | cons e t ih =>
    obtain ⟨a, b⟩ := e
    intro x
    by_cases h : a = k
    · subst h; simp [mset, keys]
    · simp only [mset, h, if_false]
      have := ih x
      simp only [keys, List.map_cons, List.mem_cons] at this ⊢
      rw [this]
      constructor
      · rintro (h1 | h1 | h1) <;> simp [h1]
      · rintro (h1 | h1 | h1) <;> simp [h1]



theorem mgetD_foldl_addPair (kv : List (Key × Val)) (acc : MD) (k : Key) :
    mgetD (kv.foldl addPair acc) (lower k) = mgetD acc (lower k) ++ pairVals kv k := by
  induction kv generalizing acc with
  | nil => simp [pairVals]
  | cons p t ih =>
    simp only [List.foldl_cons, ih]
    unfold addPair
    rw [mgetD_mset]
    by_cases h : lower p.1 = lower k
    · simp [pairVals, h]
    · simp [pairVals, h]

/-- keys of a fold of `addPair` are lower-case when the accumulator's are -/
theorem keys_lower_foldl_addPair (kv : List (Key × Val)) (acc : MD)
    (h : ∀ x ∈ keys acc, lower x = x) : ∀ x ∈ keys (kv.foldl addPair acc), lower x = x := by
  induction kv generalizing acc with
  | nil => simpa using h
  | cons p t ih =>
    simp only [List.foldl_cons]
    apply ih
    intro x hx
    unfold addPair at hx
    rcases (keys_mset _ _ _ x).1 hx with rfl | hx
    · exact lower_idem _
    · exact h x hx

/-- last entry (in iteration order) whose key folds to `key` -/
def lastFold : MD → Key → Option (List Val)
  | [], _ => none
  | (k', v) :: t, key => match lastFold t key with
    | some w => some w
    | none => if lower k' = lower key then some v else none

theorem mget_foldl_fromIncoming (md acc : MD) (k : Key) :
    mget (md.foldl (fun out e => mset out (lower e.1) e.2) acc) (lower k)
      = match lastFold md k with | some w => some w | none => mget acc (lower k) := by
  induction md generalizing acc with
  | nil => simp [lastFold]
  | cons e t ih =>
    obtain ⟨a, b⟩ := e
    simp only [List.foldl_cons, ih, lastFold]
    cases hl : lastFold t k with
    | some w => simp
    | none =>
      simp only [mget_mset]
      by_cases h : lower a = lower k <;> simp [h]

theorem noFold_cons {e : Key × List Val} {t : MD} (h : NoFoldCollision (e :: t)) :
    (∀ b ∈ t, lower e.1 ≠ lower b.1) ∧ NoFoldCollision t := by
  unfold NoFoldCollision at h ⊢
  exact List.pairwise_cons.1 h

theorem filter_fold_nil {t : MD} {k : Key} (h : ∀ b ∈ t, lower k ≠ lower b.1) :
    t.filter (fun e => lower e.1 = lower k) = [] := by
  rw [List.filter_eq_nil_iff]
  intro b hb hc
  simp at hc
  exact h b hb hc.symm

theorem lastFold_none {t : MD} {k : Key} (h : ∀ b ∈ t, lower k ≠ lower b.1) : lastFold t k = none := by
  induction t with
  | nil => rfl
  | cons e t ih =>
    obtain ⟨a, b⟩ := e
    have h1 := h (a, b) (by simp)
    have h2 := ih (fun b hb => h b (List.mem_cons_of_mem _ hb))
    simp [lastFold, h2, Ne.symm h1]

theorem findFold_none {t : MD} {k : Key} (h : ∀ b ∈ t, lower k ≠ lower b.1) : findFold t k = none := by
  induction t with
  | nil => rfl
  | cons e t ih =>
    obtain ⟨a, b⟩ := e
    have h1 := h (a, b) (by simp)
    have h2 := ih (fun b hb => h b (List.mem_cons_of_mem _ hb))
    simp [findFold, h2, Ne.symm h1]

/-- Under NoFoldCollision first match = last match = the multimap value. -/
theorem fold_unique (md : MD) (k : Key) (h : NoFoldCollision md) :
    (lastFold md k).getD [] = foldLookup md k ∧ (findFold md k).getD [] = foldLookup md k
    ∧ lastFold md k = findFold md k := by
  induction md with
  | nil => simp [lastFold, findFold, foldLookup]
  | cons e t ih =>
    obtain ⟨a, b⟩ := e
    obtain ⟨h1, h2⟩ := noFold_cons h
    obtain ⟨i1, i2, i3⟩ := ih h2
    by_cases hk : lower a = lower k
    · have hn : ∀ b ∈ t, lower k ≠ lower b.1 := fun b hb => by rw [← hk]; exact h1 b hb
      simp [lastFold, findFold, foldLookup, hk, lastFold_none hn, filter_fold_nil hn]
    · unfold foldLookup at i1 i2 ⊢
      simp only [lastFold, findFold, hk, if_false, List.filter_cons, decide_false]
      refine ⟨?_, by simpa using i2, ?_⟩
      · cases hl : lastFold t k with
        | some w => simpa [hl] using i1
        | none => simpa [hl] using i1
      · cases hl : lastFold t k with
        | some w => simp [← i3, hl]
        | none => simp [← i3, hl]

theorem mgetD_fromIncoming (md : MD) (k : Key) (h : NoFoldCollision md) :
    mgetD (fromIncoming md) (lower k) = foldLookup md k := by
  unfold fromIncoming mgetD
  rw [mget_foldl_fromIncoming]
  obtain ⟨h1, _, _⟩ := fold_unique md k h
  cases hl : lastFold md k with
  | some w => simpa [hl] using h1
  | none => simpa [hl, mget] using h1



theorem foldLookup_lower (md : MD) (k : Key) : foldLookup md (lower k) = foldLookup md k := by
  simp [foldLookup, lower_idem]

theorem findFold_lower (md : MD) (k : Key) : findFold md (lower k) = findFold md k := by
  induction md with
  | nil => rfl
  | cons e t ih => obtain ⟨a, b⟩ := e; simp [findFold, lower_idem, ih]

theorem findFold_of_mget {md : MD} {k : Key} {v : List Val} (h : NoFoldCollision md)
    (hm : mget md k = some v) : findFold md k = some v := by
  induction md with
  | nil => simp [mget] at hm
  | cons e t ih =>
    obtain ⟨a, b⟩ := e
    obtain ⟨h1, h2⟩ := noFold_cons h
    simp only [mget] at hm
    by_cases hk : a = k
    · subst hk; simp at hm; subst hm; simp [findFold]
    · simp [hk] at hm
      have hmem := mem_of_mget hm
      have := h1 (k, v) hmem
      simp at this
      simp [findFold, this, ih h2 hm]

/-- exact-or-fold lookup used by both ValueFromX functions -/
theorem exact_or_fold (md : MD) (k : Key) (h : NoFoldCollision md) :
    exactOrFold md k = foldLookup md k := by
  unfold exactOrFold
  obtain ⟨_, h2, _⟩ := fold_unique md k h
  cases hm : mget md k with
  | some v => simp [← h2, findFold_of_mget h hm]
  | none => simpa using h2

theorem valueFromIncoming_eq (md : MD) (k : Key) (h : NoFoldCollision md) :
    valueFromIncoming md k = foldLookup md k := by
  unfold valueFromIncoming; exact exact_or_fold md k h

theorem addedVals_lower (added : List (List (Key × Val))) (k : Key) :
    addedVals added (lower k) = addedVals added k := by
  simp [addedVals, lower_idem]

theorem valueFromOutgoing_eq (raw : RawMD) (k : Key) (h : NoFoldCollision (raw.md.getD [])) :
    valueFromOutgoing raw k = specOutgoing raw k := by
  unfold valueFromOutgoing specOutgoing
  simp only []
  rw [exact_or_fold _ _ h, foldLookup_lower, addedVals_lower]

theorem addedVals_cons (kv : List (Key × Val)) (t : List (List (Key × Val))) (k : Key) :
    addedVals (kv :: t) k = pairVals kv k ++ addedVals t k := by
  simp [addedVals, pairVals]

theorem mgetD_foldl_added (added : List (List (Key × Val))) (acc : MD) (k : Key) :
    mgetD (added.foldl (fun out kv => kv.foldl addPair out) acc) (lower k)
      = mgetD acc (lower k) ++ addedVals added k := by
  induction added generalizing acc with
  | nil => simp [addedVals]
  | cons kv t ih =>
    simp only [List.foldl_cons, ih, mgetD_foldl_addPair, addedVals_cons, List.append_assoc]

theorem mgetD_fromOutgoing (raw : RawMD) (k : Key) (h : NoFoldCollision (raw.md.getD [])) :
    mgetD (fromOutgoing raw) (lower k) = specOutgoing raw k := by
  unfold fromOutgoing specOutgoing
  rw [mgetD_foldl_added, mgetD_fromIncoming _ _ h]

theorem keys_lower_fromIncoming_aux (md acc : MD) (h : ∀ x ∈ keys acc, lower x = x) :
    ∀ x ∈ keys (md.foldl (fun out e => mset out (lower e.1) e.2) acc), lower x = x := by
  induction md generalizing acc with
  | nil => simpa using h
  | cons e t ih =>
    simp only [List.foldl_cons]
    apply ih
    intro x hx
    rcases (keys_mset _ _ _ x).1 hx with rfl | hx
    · exact lower_idem _
    · exact h x hx

theorem keys_lower_fromIncoming (md : MD) : ∀ x ∈ keys (fromIncoming md), lower x = x :=
  keys_lower_fromIncoming_aux md [] (by simp [keys])

theorem keys_lower_fromOutgoing (raw : RawMD) : ∀ x ∈ keys (fromOutgoing raw), lower x = x := by
  unfold fromOutgoing
  generalize hb : fromIncoming (raw.md.getD []) = base
  have hbase : ∀ x ∈ keys base, lower x = x := by rw [← hb]; exact keys_lower_fromIncoming _
  clear hb
  induction raw.added generalizing base with
  | nil => simpa using hbase
  | cons kv t ih =>
    simp only [List.foldl_cons]
    exact ih _ (keys_lower_foldl_addPair kv base hbase)

theorem mget_none_of_not_key {md : MD} {k : Key} (h : k ∉ keys md) : mget md k = none := by
  induction md with
  | nil => rfl
  | cons e t ih =>
    obtain ⟨a, b⟩ := e
    simp [keys] at h
    simp only [mget]
    rw [if_neg (fun hh => h.1 hh.symm)]
    exact ih (by simpa [keys] using h.2)



theorem mgetD_of_not_lower {md : MD} {k : Key} (hk : ∀ x ∈ keys md, lower x = x) (h : lower k ≠ k) :
    mgetD md k = [] := by
  unfold mgetD
  rw [mget_none_of_not_key]; rfl
  intro hin; exact h (hk k hin)

theorem mgetD_fromIncoming_any (md : MD) (k : Key) (h : NoFoldCollision md) :
    mgetD (fromIncoming md) k = if lower k = k then foldLookup md k else [] := by
  by_cases hk : lower k = k
  · rw [if_pos hk, ← mgetD_fromIncoming md k h, hk]
  · rw [if_neg hk]; exact mgetD_of_not_lower (keys_lower_fromIncoming md) hk

theorem mgetD_fromOutgoing_any (raw : RawMD) (k : Key) (h : NoFoldCollision (raw.md.getD [])) :
    mgetD (fromOutgoing raw) k = if lower k = k then specOutgoing raw k else [] := by
  by_cases hk : lower k = k
  · rw [if_pos hk, ← mgetD_fromOutgoing raw k h, hk]
  · rw [if_neg hk]; exact mgetD_of_not_lower (keys_lower_fromOutgoing raw) hk

theorem filter_fold_length_le_one (md : MD) (k : Key) (h : NoFoldCollision md) :
    (md.filter fun e => lower e.1 = lower k).length ≤ 1 := by
  induction md with
  | nil => simp
  | cons e t ih =>
    obtain ⟨h1, h2⟩ := noFold_cons h
    by_cases hk : lower e.1 = lower k
    · have hn : ∀ b ∈ t, lower k ≠ lower b.1 := fun b hb => by rw [← hk]; exact h1 b hb
      simp [List.filter_cons, hk, filter_fold_nil hn]
    · simpa [List.filter_cons, hk] using ih h2

theorem noFold_perm {md md' : MD} (hp : md'.Perm md) (h : NoFoldCollision md) : NoFoldCollision md' := by
  unfold NoFoldCollision at *
  exact (hp.pairwise_iff (fun hab => Ne.symm hab)).2 h

theorem foldLookup_perm {md md' : MD} (hp : md'.Perm md) (h : NoFoldCollision md) (k : Key) :
    foldLookup md' k = foldLookup md k := by
  unfold foldLookup
  have hpf := hp.filter (fun e => decide (lower e.1 = lower k))
  have hl := filter_fold_length_le_one md k h
  have : md'.filter (fun e => decide (lower e.1 = lower k)) = md.filter (fun e => decide (lower e.1 = lower k)) := by
    generalize md.filter (fun e => decide (lower e.1 = lower k)) = l at hpf hl
    match l, hl with
    | [], _ => exact List.perm_nil.1 hpf
    | [a], _ => exact List.perm_singleton.1 hpf
  rw [this]

/-! ### MD methods -/

theorem get_set (md : MD) (k k' : Key) (vs : List Val) (hv : vs ≠ []) :
    mdGet (mdSet md k vs) k' = if lower k = lower k' then vs else mdGet md k' := by
  unfold mdGet mdSet
  have : vs.isEmpty = false := by cases vs <;> simp_all
  simp only [this, Bool.false_eq_true, if_false]
  exact mgetD_mset _ _ _ _

theorem get_append (md : MD) (k k' : Key) (vs : List Val) :
    mdGet (mdAppend md k vs) k' = if lower k = lower k' then mdGet md k' ++ vs else mdGet md k' := by
  unfold mdGet mdAppend
  cases vs with
  | nil => simp
  | cons a t =>
    simp only [List.isEmpty_cons, Bool.false_eq_true, if_false]
    rw [mgetD_mset]
    by_cases h : lower k = lower k' <;> simp [h]

theorem get_delete (md : MD) (k k' : Key) :
    mdGet (mdDelete md k) k' = if lower k = lower k' then [] else mdGet md k' := by
  unfold mdGet mdDelete mgetD
  rw [mget_mdel]
  by_cases h : lower k = lower k' <;> simp [h]

theorem get_pairs (kv : List (Key × Val)) (k : Key) : mdGet (mdPairs kv) k = pairVals kv k := by
  unfold mdGet mdPairs
  rw [mgetD_foldl_addPair]; simp [mgetD, mget]

/-! ### Join -/

/-- values stored under exactly `k` (a single entry for a well-formed map) -/
def exactVals (md : MD) (k : Key) : List Val := (md.filter fun e => e.1 = k).flatMap (·.2)

theorem mgetD_joinOne (md out : MD) (k : Key) :
    mgetD (joinOne out md) k = mgetD out k ++ exactVals md k := by
  unfold joinOne
  induction md generalizing out with
  | nil => simp [exactVals]
  | cons e t ih =>
    simp only [List.foldl_cons, ih, mgetD_mset]
    by_cases h : e.1 = k
    · subst h; simp [exactVals]
    · simp [exactVals, h]

theorem mgetD_join_aux (mds : List MD) (out : MD) (k : Key) :
    mgetD (mds.foldl joinOne out) k = mgetD out k ++ mds.flatMap (exactVals · k) := by
  induction mds generalizing out with
  | nil => simp
  | cons md t ih => simp [ih, mgetD_joinOne]

/-- well-formed Go map: exact keys are unique -/
def WF (md : MD) : Prop := md.Pairwise fun a b => a.1 ≠ b.1

theorem exactVals_eq_mgetD {md : MD} (h : WF md) (k : Key) : exactVals md k = mgetD md k := by
  induction md with
  | nil => rfl
  | cons e t ih =>
    obtain ⟨a, b⟩ := e
    unfold WF at h ih
    obtain ⟨h1, h2⟩ := List.pairwise_cons.1 h
    by_cases hk : a = k
    · subst hk
      have : t.filter (fun e => decide (e.1 = a)) = [] := by
        rw [List.filter_eq_nil_iff]; intro x hx hc; simp at hc; exact h1 x hx hc.symm
      simp [exactVals, mgetD, mget, this]
    · have := ih h2
      simp only [exactVals, mgetD, mget, hk, List.filter_cons, decide_false, if_false] at this ⊢
      simpa using this

theorem mgetD_join (mds : List MD) (k : Key) (h : ∀ md ∈ mds, WF md) :
    mgetD (mdJoin mds) k = (mds.map (mgetD · k)).flatten := by
  unfold mdJoin
  rw [mgetD_join_aux]
  simp only [mgetD, mget, Option.getD_none, List.nil_append]
  induction mds with
  | nil => rfl
  | cons md t ih =>
    simp only [List.flatMap_cons, List.map_cons, List.flatten_cons]
    rw [ih (fun m hm => h m (List.mem_cons_of_mem _ hm)), exactVals_eq_mgetD (h md (by simp))]
    rfl

/-! ### Copy -/

theorem mset_not_key {md : MD} {k : Key} (v : List Val) (h : k ∉ keys md) : mset md k v = md ++ [(k, v)] := by
  induction md with
  | nil => rfl
  | cons e t ih =>
    obtain ⟨a, b⟩ := e
    simp [keys] at h
    simp only [mset]
    rw [if_neg (fun hh => h.1 hh.symm), ih (by simpa [keys] using h.2)]
    rfl

theorem copy_aux (md acc : MD) (h : WF (acc ++ md)) :
    md.foldl (fun out e => mset out e.1 e.2) acc = acc ++ md := by
  induction md generalizing acc with
  | nil => simp
  | cons e t ih =>
    simp only [List.foldl_cons]
    have hk : e.1 ∉ keys acc := by
      intro hin
      unfold WF at h
      rw [List.pairwise_append] at h
      obtain ⟨x, hx, hxe⟩ := List.mem_map.1 hin
      exact h.2.2 x hx e (by simp) hxe
    rw [mset_not_key _ hk, ih]
    · simp
    · simpa using h

theorem copy_eq (md : MD) (h : WF md) : mdCopy md = md := by
  unfold mdCopy
  simpa using copy_aux md [] (by simpa using h)



/-! ### histories of outgoing-context calls -/

def specOpt (raw : Option RawMD) (k : Key) : List Val := raw.elim [] (specOutgoing · k)

theorem pairVals_lowerKV (kv : List (Key × Val)) (k : Key) :
    pairVals (kv.map fun p => (lower p.1, p.2)) k = pairVals kv k := by
  induction kv with
  | nil => rfl
  | cons p t ih =>
    unfold pairVals at ih ⊢
    simp only [List.map_cons, List.filter_cons, lower_idem]
    by_cases h : lower p.1 = lower k <;> simp [h, ih]

theorem addedVals_append_one (added : List (List (Key × Val))) (kv : List (Key × Val)) (k : Key) :
    addedVals (added ++ [kv]) k = addedVals added k ++ pairVals kv k := by
  simp [addedVals, pairVals]

theorem specOpt_stepOut (raw : Option RawMD) (op : OutOp) (f : Key → List Val)
    (h : ∀ k, specOpt raw k = f k) : ∀ k, specOpt (stepOut raw op) k = stepSpec f op k := by
  intro k
  cases op with
  | newOut md => simp [stepOut, stepSpec, specOpt, newOutgoing, specOutgoing, addedVals]
  | appendOut kv =>
    simp only [stepOut, stepSpec, specOpt, Option.elim, appendToOutgoing, specOutgoing]
    rw [addedVals_append_one, pairVals_lowerKV, ← List.append_assoc]
    congr 1
    have := h k
    cases raw with
    | none => simpa [specOpt, foldLookup, addedVals] using this
    | some r => simpa [specOpt, specOutgoing] using this

def rawNoFold (raw : Option RawMD) : Prop := raw.elim True (fun r => NoFoldCollision (r.md.getD []))

theorem rawNoFold_stepOut (raw : Option RawMD) (op : OutOp) (h : rawNoFold raw)
    (hop : ∀ md, op = .newOut md → NoFoldCollision md) : rawNoFold (stepOut raw op) := by
  cases op with
  | newOut md => simpa [stepOut, rawNoFold, newOutgoing] using hop md rfl
  | appendOut kv =>
    cases raw with
    | none => simp [stepOut, rawNoFold, appendToOutgoing, NoFoldCollision]
    | some r => simpa [stepOut, rawNoFold, appendToOutgoing] using h

theorem history_aux (ops : List OutOp) (raw : Option RawMD) (f : Key → List Val)
    (h : ∀ k, specOpt raw k = f k) (hn : rawNoFold raw)
    (hops : ∀ md, OutOp.newOut md ∈ ops → NoFoldCollision md) :
    (∀ k, specOpt (ops.foldl stepOut raw) k = ops.foldl stepSpec f k) ∧ rawNoFold (ops.foldl stepOut raw) := by
  induction ops generalizing raw f with
  | nil => exact ⟨h, hn⟩
  | cons op t ih =>
    simp only [List.foldl_cons]
    apply ih
    · exact specOpt_stepOut raw op f h
    · exact rawNoFold_stepOut raw op hn (fun md hmd => hops md (by simp [hmd]))
    · exact fun md hmd => hops md (List.mem_cons_of_mem _ hmd)

theorem runOut_isSome (ops : List OutOp) (h : ops ≠ []) : (runOut ops).isSome := by
  unfold runOut
  have : ∀ (t : List OutOp) (r : Option RawMD), r.isSome → (t.foldl stepOut r).isSome := by
    intro t
    induction t with
    | nil => exact fun r hr => hr
    | cons op t ih => intro r _; simp only [List.foldl_cons]; apply ih; cases op <;> rfl
  cases ops with
  | nil => exact absurd rfl h
  | cons op t => simp only [List.foldl_cons]; apply this; cases op <;> rfl

theorem fromOutgoing_history (ops : List OutOp)
    (hops : ∀ md, OutOp.newOut md ∈ ops → NoFoldCollision md) :
    match runOut ops with
    | none => ops = []
    | some raw => ∀ k, mgetD (fromOutgoing raw) k = if lower k = k then histSpec ops k else [] := by
  obtain ⟨h1, h2⟩ := history_aux ops none (fun _ => []) (fun _ => rfl) trivial hops
  cases hr : runOut ops with
  | none =>
    by_cases he : ops = []
    · exact he
    · have := runOut_isSome ops he; rw [hr] at this; cases this
  | some raw =>
    intro k
    unfold runOut at hr
    rw [hr] at h1 h2
    rw [mgetD_fromOutgoing_any raw k (by simpa [rawNoFold] using h2)]
    have := h1 k
    simp only [specOpt, Option.elim] at this
    rw [this]; rfl





/-! ### the reference machine: aliasing -/

/-- object ids a context refers to -/
def refs (x : Ctx) : List Nat := x.inc.toList ++ (x.out.bind (·.1)).toList

/-- every context refers to existing objects only -/
def RefsOK (st : St) : Prop := ∀ c x, (c, x) ∈ st.ctxs → ∀ i ∈ refs x, (getObj st i).isSome = true

def creates : Op → Option Nat
  | .lit d _ | .new d _ | .pairs d _ | .copy d _ | .join d _ | .fromin d _ | .fromout d _ => some d
  | _ => none

def mutates : Op → Option Nat
  | .set m _ _ | .append m _ _ | .delete m _ | .scribble m => some m
  | _ => none

theorem lookup_putObjs (l : List (Nat × MD)) (i j : Nat) (md : MD) :
    (putObjs l i md).lookup j = if i = j then some md else l.lookup j := by
  induction l with
  | nil =>
    by_cases h : i = j
    · subst h; simp [putObjs, List.lookup]
    · have : (j == i) = false := by simp; exact fun hh => h hh.symm
      simp [putObjs, List.lookup, h, this]
  | cons e t ih =>
    obtain ⟨a, b⟩ := e
    by_cases ha : a = i
    · subst ha
      by_cases h : a = j
      · subst h; simp [putObjs, List.lookup]
      · have : (j == a) = false := by simp; exact fun hh => h hh.symm
        simp [putObjs, List.lookup, h, this]
    · simp only [putObjs, ha, if_false, List.lookup]
      cases hja : (j == a)
      · simp only [ih]
      · have : j = a := by simpa using hja
        subst this
        simp [Ne.symm ha]

theorem getObj_putObj (st : St) (i j : Nat) (md : MD) :
    getObj (putObj st i md) j = if i = j then some md else getObj st j := by
  unfold getObj putObj; exact lookup_putObjs _ _ _ _

theorem ctxs_putObj (st : St) (i : Nat) (md : MD) : (putObj st i md).ctxs = st.ctxs := rfl

theorem rawOf_putObj {st : St} {x : Ctx} {i : Nat} (md : MD) (h : i ∉ refs x) :
    rawOf (putObj st i md) x = rawOf st x := by
  unfold rawOf
  cases ho : x.out with
  | none => rfl
  | some o =>
    obtain ⟨mid, added⟩ := o
    cases mid with
    | none => rfl
    | some j =>
      have : i ≠ j := by
        intro hij; apply h; subst hij; simp [refs, ho]
      simp [getObj_putObj, this]

theorem incOf_putObj {st : St} {x : Ctx} {i : Nat} (md : MD) (h : i ∉ refs x) :
    incOf (putObj st i md) x = incOf st x := by
  unfold incOf
  cases hi : x.inc with
  | none => rfl
  | some j =>
    have : i ≠ j := by
      intro hij; apply h; subst hij; simp [refs, hi]
    simp [getObj_putObj, this]

theorem create_spec {st st1 : St} {d : Nat} {md m : MD} (h : create st d md = (st1, .md m)) :
    getObj st d = none ∧ st1 = putObj st d md ∧ m = md := by
  unfold create at h
  cases hg : getObj st d with
  | some x => simp [hg] at h
  | none =>
    simp [hg] at h
    exact ⟨rfl, h.1.symm, h.2.symm⟩

theorem mutate_fst (st : St) (m : Nat) (f : MD → MD) :
    (mutate st m f).1 = st ∨ ∃ md', (mutate st m f).1 = putObj st m md' := by
  unfold mutate
  cases getObj st m with
  | none => exact Or.inl rfl
  | some md => exact Or.inr ⟨f md, rfl⟩

theorem step_creates {st st1 : St} {op : Op} {d : Nat} {m : MD} (hc : creates op = some d)
    (h : step st op = (st1, .md m)) : getObj st d = none ∧ st1 = putObj st d m := by
  cases op <;> simp only [creates, Option.some.injEq, reduceCtorEq] at hc <;> subst hc <;> simp only [step] at h
  case lit md => obtain ⟨a, b, c⟩ := create_spec h; exact ⟨a, c ▸ b⟩
  case new mm => obtain ⟨a, b, c⟩ := create_spec h; exact ⟨a, c ▸ b⟩
  case pairs kv => obtain ⟨a, b, c⟩ := create_spec h; exact ⟨a, c ▸ b⟩
  case copy s =>
    cases hs : getObj st s with
    | none => simp [hs] at h
    | some md => rw [hs] at h; obtain ⟨a, b, c⟩ := create_spec h; exact ⟨a, c ▸ b⟩
  case join srcs =>
    cases hs : srcs.mapM (getObj st) with
    | none => simp [hs] at h
    | some mds => rw [hs] at h; obtain ⟨a, b, c⟩ := create_spec h; exact ⟨a, c ▸ b⟩
  case fromin c =>
    cases hx : getCtx st c with
    | none => simp [hx] at h
    | some x =>
      rw [hx] at h
      cases hi : incOf st x with
      | none => simp [hi] at h
      | some md => simp only [hi] at h; obtain ⟨a, b, c⟩ := create_spec h; exact ⟨a, c ▸ b⟩
  case fromout c =>
    cases hx : getCtx st c with
    | none => simp [hx] at h
    | some x =>
      rw [hx] at h
      cases hi : rawOf st x with
      | none => simp [hi] at h
      | some md => simp only [hi] at h; obtain ⟨a, b, c⟩ := create_spec h; exact ⟨a, c ▸ b⟩

theorem step_mutates (st : St) {op : Op} {d : Nat} (hm : mutates op = some d) :
    (step st op).1 = st ∨ ∃ md', (step st op).1 = putObj st d md' := by
  cases op <;> simp only [mutates, Option.some.injEq, reduceCtorEq] at hm <;> subst hm <;> simp only [step] <;>
    exact mutate_fst _ _ _

/-- An object just returned by Copy / FromXContext / Join / New / Pairs is referenced by no context,
    so whatever the caller then does to it (Set/Append/Delete/scribbling) changes no context read and
    no other object. -/
theorem copies_are_fresh (st : St) (hR : RefsOK st) (op mu : Op) (d : Nat) (st1 : St) (m : MD)
    (hc : creates op = some d) (h1 : step st op = (st1, .md m)) (hm : mutates mu = some d) :
    (step st1 mu).1.ctxs = st.ctxs ∧
    (∀ c x, (c, x) ∈ st.ctxs →
      rawOf (step st1 mu).1 x = rawOf st x ∧ incOf (step st1 mu).1 x = incOf st x) ∧
    (∀ j, j ≠ d → getObj (step st1 mu).1 j = getObj st j) := by
  obtain ⟨hnone, rfl⟩ := step_creates hc h1
  have hunref : ∀ c x, (c, x) ∈ st.ctxs → d ∉ refs x := by
    intro c x hx hin
    have := hR c x hx d hin
    rw [hnone] at this; cases this
  rcases step_mutates (putObj st d m) hm with h2 | ⟨md', h2⟩ <;> rw [h2]
  · refine ⟨rfl, fun c x hx => ⟨rawOf_putObj _ (hunref c x hx), incOf_putObj _ (hunref c x hx)⟩, fun j hj => ?_⟩
    simp [getObj_putObj, Ne.symm hj]
  · refine ⟨rfl, fun c x hx => ?_, fun j hj => ?_⟩
    · rw [rawOf_putObj _ (hunref c x hx), rawOf_putObj _ (hunref c x hx),
        incOf_putObj _ (hunref c x hx), incOf_putObj _ (hunref c x hx)]
      exact ⟨rfl, rfl⟩
    · simp [getObj_putObj, Ne.symm hj]



theorem refsOK_putObj {st : St} (h : RefsOK st) (i : Nat) (md : MD) : RefsOK (putObj st i md) := by
  intro c x hx j hj
  rw [getObj_putObj]
  by_cases hij : i = j
  · simp [hij]
  · simp only [hij, if_false]; exact h c x hx j hj

theorem refsOK_create {st : St} (h : RefsOK st) (d : Nat) (md : MD) : RefsOK (create st d md).1 := by
  unfold create
  cases getObj st d with
  | some _ => exact h
  | none => exact refsOK_putObj h d md

theorem refsOK_mutate {st : St} (h : RefsOK st) (m : Nat) (f : MD → MD) : RefsOK (mutate st m f).1 := by
  rcases mutate_fst st m f with h2 | ⟨md', h2⟩ <;> rw [h2]
  · exact h
  · exact refsOK_putObj h m md'

theorem refsOK_addCtx {st : St} (h : RefsOK st) (c : Nat) (x : Ctx)
    (hx : ∀ i ∈ refs x, (getObj st i).isSome = true) : RefsOK (addCtx st c x).1 := by
  unfold addCtx
  cases getCtx st c with
  | some _ => exact h
  | none =>
    intro c' x' hm j hj
    simp only [List.mem_append, List.mem_singleton, Prod.mk.injEq] at hm
    rcases hm with hm | ⟨_, rfl⟩
    · exact h c' x' hm j hj
    · exact hx j hj

theorem refs_of_getCtx {st : St} (h : RefsOK st) {p : Nat} {pc : Ctx} (hp : getCtx st p = some pc) :
    ∀ i ∈ refs pc, (getObj st i).isSome = true := by
  have : (p, pc) ∈ st.ctxs := by
    unfold getCtx at hp
    generalize st.ctxs = l at hp
    induction l with
    | nil => simp [List.lookup] at hp
    | cons e t ih =>
      obtain ⟨a, b⟩ := e
      simp only [List.lookup] at hp
      cases hpa : (p == a)
      · rw [hpa] at hp; exact List.mem_cons_of_mem _ (ih hp)
      · rw [hpa] at hp
        have : p = a := by simpa using hpa
        subst this; simp at hp; subst hp; simp
  exact h p pc this

theorem refsOK_step {st : St} (h : RefsOK st) (op : Op) : RefsOK (step st op).1 := by
  cases op <;> simp only [step]
  case lit d md => exact refsOK_create h _ _
  case new d m => exact refsOK_create h _ _
  case pairs d kv => exact refsOK_create h _ _
  case copy d s => cases getObj st s <;> first | exact h | exact refsOK_create h _ _
  case join d srcs => cases srcs.mapM (getObj st) <;> first | exact h | exact refsOK_create h _ _
  case get m k => cases getObj st m <;> exact h
  case set m k vs => exact refsOK_mutate h _ _
  case append m k vs => exact refsOK_mutate h _ _
  case delete m k => exact refsOK_mutate h _ _
  case len m => cases getObj st m <;> exact h
  case dump m => cases getObj st m <;> exact h
  case scribble m => exact refsOK_mutate h _ _
  case bg c => exact refsOK_addCtx h _ _ (by simp [refs])
  case newin c p m =>
    cases hp : getCtx st p with
    | none => exact h
    | some pc =>
      cases hm : getObj st m with
      | none => exact h
      | some md =>
        apply refsOK_addCtx h
        intro i hi
        have hpc := refs_of_getCtx h hp
        simp only [refs, Option.toList_some, List.mem_append, List.mem_cons, List.not_mem_nil, or_false] at hi
        rcases hi with rfl | hi
        · simp [hm]
        · exact hpc i (by simp [refs, hi])
  case newout c p m =>
    cases hp : getCtx st p with
    | none => exact h
    | some pc =>
      cases hm : getObj st m with
      | none => exact h
      | some md =>
        apply refsOK_addCtx h
        intro i hi
        have hpc := refs_of_getCtx h hp
        simp only [refs, Option.bind_some, Option.toList_some, List.mem_append, List.mem_cons, List.not_mem_nil, or_false] at hi
        rcases hi with hi | rfl
        · exact hpc i (by simp [refs, hi])
        · simp [hm]
  case appendout c p kv =>
    cases hp : getCtx st p with
    | none => exact h
    | some pc =>
      apply refsOK_addCtx h
      intro i hi
      have hpc := refs_of_getCtx h hp
      apply hpc i
      cases ho : pc.out with
      | none => simpa [refs, ho] using hi
      | some o => simpa [refs, ho] using hi
  case fromin d c =>
    cases getCtx st c with
    | none => exact h
    | some x =>
      simp only []
      cases incOf st x <;> first | exact h | exact refsOK_create h _ _
  case fromout d c =>
    cases getCtx st c with
    | none => exact h
    | some x =>
      simp only []
      cases rawOf st x <;> first | exact h | exact refsOK_create h _ _
  case valin c k => cases getCtx st c <;> exact h
  case valout c k => cases getCtx st c <;> exact h

def runOps (ops : List Op) : St := ops.foldl (fun st op => (step st op).1) {}

theorem refsOK_reachable (ops : List Op) : RefsOK (runOps ops) := by
  unfold runOps
  have : ∀ (l : List Op) (st : St), RefsOK st → RefsOK (l.foldl (fun st op => (step st op).1) st) := by
    intro l
    induction l with
    | nil => exact fun st h => h
    | cons op t ih => exact fun st h => ih _ (refsOK_step h op)
  exact this ops {} (by intro c x hx; simp at hx)



end GrpcProofs.Lemmas.MD
