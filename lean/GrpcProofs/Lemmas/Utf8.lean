/-
Helper lemmas about the model of Go's unicode/utf8 (GrpcModel/Prim/Utf8.lean): an arithmetic,
table-free description of `decodeRune`, and `encodeRune (decodeRune s) = s.take size` for every
position that is not reported as (RuneError, 1).
-/
import GrpcModel.Prim.Utf8
namespace GrpcProofs.Lemmas.Utf8
open GrpcModel.Utf8

def lo2 (b0 : Nat) : Nat := if b0 = 0xE0 then 0xA0 else if b0 = 0xF0 then 0x90 else 0x80
def hi2 (b0 : Nat) : Nat := if b0 = 0xED then 0x9F else if b0 = 0xF4 then 0x8F else 0xBF
abbrev cont (b : Nat) : Prop := 0x80 ≤ b ∧ b ≤ 0xBF

/-- Arithmetic, table-free description of `decodeRune`. -/
def decodeSpec : List UInt8 → Nat × Nat
  | [] => (runeError, 0)
  | b0 :: t =>
    if b0.toNat < 0x80 then (b0.toNat, 1)
    else if 0xC2 ≤ b0.toNat ∧ b0.toNat ≤ 0xDF then
      match t with
      | b1 :: _ => if cont b1.toNat then (b0.toNat % 32 * 64 + b1.toNat % 64, 2) else (runeError, 1)
      | [] => (runeError, 1)
    else if 0xE0 ≤ b0.toNat ∧ b0.toNat ≤ 0xEF then
      match t with
      | b1 :: b2 :: _ =>
        if lo2 b0.toNat ≤ b1.toNat ∧ b1.toNat ≤ hi2 b0.toNat ∧ cont b2.toNat then
          (b0.toNat % 16 * 4096 + b1.toNat % 64 * 64 + b2.toNat % 64, 3)
        else (runeError, 1)
      | _ => (runeError, 1)
    else if 0xF0 ≤ b0.toNat ∧ b0.toNat ≤ 0xF4 then
      match t with
      | b1 :: b2 :: b3 :: _ =>
        if lo2 b0.toNat ≤ b1.toNat ∧ b1.toNat ≤ hi2 b0.toNat ∧ cont b2.toNat ∧ cont b3.toNat then
          (b0.toNat % 8 * 262144 + b1.toNat % 64 * 4096 + b2.toNat % 64 * 64 + b3.toNat % 64, 4)
        else (runeError, 1)
      | _ => (runeError, 1)
    else (runeError, 1)

theorem and_mask (a n : Nat) : a &&& (2 ^ n - 1) = a % 2 ^ n := Nat.and_two_pow_sub_one_eq_mod a n
theorem and63 (a : Nat) : a &&& 63 = a % 64 := and_mask a 6
theorem and31 (a : Nat) : a &&& 31 = a % 32 := and_mask a 5
theorem and15 (a : Nat) : a &&& 15 = a % 16 := and_mask a 4
theorem and7 (a : Nat) : a &&& 7 = a % 8 := and_mask a 3

theorem or_add (i a b : Nat) (h : b < 2 ^ i) : (a * 2 ^ i) ||| b = a * 2 ^ i + b := by
  rw [Nat.mul_comm, ← Nat.two_pow_add_eq_or_of_lt h]

theorem rune2 (a b : Nat) : ((a &&& 31) <<< 6) ||| (b &&& 63) = a % 32 * 64 + b % 64 := by
  rw [and31, and63, Nat.shiftLeft_eq]; exact or_add 6 _ _ (Nat.mod_lt _ (by decide))

theorem rune3 (a b c : Nat) :
    (((a &&& 15) <<< 12) ||| ((b &&& 63) <<< 6)) ||| (c &&& 63) = a % 16 * 4096 + b % 64 * 64 + c % 64 := by
  rw [and15, and63, and63, Nat.shiftLeft_eq, Nat.shiftLeft_eq]
  have h1 : a % 16 * 2 ^ 12 ||| b % 64 * 2 ^ 6 = (a % 16 * 64 + b % 64) * 2 ^ 6 := by
    rw [or_add 12 _ _ (by omega)]; omega
  rw [h1, or_add 6 _ _ (by omega)]; omega

theorem rune4 (a b c d : Nat) :
    ((((a &&& 7) <<< 18) ||| ((b &&& 63) <<< 12)) ||| ((c &&& 63) <<< 6)) ||| (d &&& 63)
      = a % 8 * 262144 + b % 64 * 4096 + c % 64 * 64 + d % 64 := by
  rw [and7, and63, and63, and63, Nat.shiftLeft_eq, Nat.shiftLeft_eq, Nat.shiftLeft_eq]
  have h1 : a % 8 * 2 ^ 18 ||| b % 64 * 2 ^ 12 = (a % 8 * 64 + b % 64) * 2 ^ 12 := by
    rw [or_add 18 _ _ (by omega)]; omega
  have h2 : (a % 8 * 64 + b % 64) * 2 ^ 12 ||| c % 64 * 2 ^ 6 = ((a % 8 * 64 + b % 64) * 64 + c % 64) * 2 ^ 6 := by
    rw [or_add 12 _ _ (by omega)]; omega
  rw [h1, h2, or_add 6 _ _ (by omega)]; omega



theorem first_as {b : Nat} (h : b < 0x80) : first b = 0xF0 := by
  unfold first; repeat' split
  all_goals first | rfl | omega
theorem first_xx {b : Nat} (h : (0x80 ≤ b ∧ b < 0xC2) ∨ 0xF5 ≤ b) : first b = 0xF1 := by
  unfold first; repeat' split
  all_goals first | rfl | omega
theorem first_s1 {b : Nat} (h : 0xC2 ≤ b ∧ b ≤ 0xDF) : first b = 0x02 := by
  unfold first; repeat' split
  all_goals first | rfl | omega
theorem first_s2 {b : Nat} (h : b = 0xE0) : first b = 0x13 := by subst h; rfl
theorem first_s3 {b : Nat} (h : (0xE1 ≤ b ∧ b ≤ 0xEC) ∨ b = 0xEE ∨ b = 0xEF) : first b = 0x03 := by
  unfold first; repeat' split
  all_goals first | rfl | omega
theorem first_s4 {b : Nat} (h : b = 0xED) : first b = 0x23 := by subst h; rfl
theorem first_s5 {b : Nat} (h : b = 0xF0) : first b = 0x34 := by subst h; rfl
theorem first_s6 {b : Nat} (h : 0xF1 ≤ b ∧ b ≤ 0xF3) : first b = 0x04 := by
  unfold first; repeat' split
  all_goals first | rfl | omega
theorem first_s7 {b : Nat} (h : b = 0xF4) : first b = 0x44 := by subst h; rfl


macro "fin_cases_if" : tactic => `(tactic| (repeat' split) <;> first | rfl | omega | (exfalso; omega) | simp_all <;> omega)

theorem decodeRune_eq_spec (s : List UInt8) : decodeRune s = decodeSpec s := by
  match s with
  | [] => rfl
  | b0 :: t =>
    by_cases h1 : b0.toNat < 0x80
    · simp [decodeRune, decodeSpec, as, first_as h1, h1]
    by_cases h2 : (0x80 ≤ b0.toNat ∧ b0.toNat < 0xC2) ∨ 0xF5 ≤ b0.toNat
    · have : ¬ (0xC2 ≤ b0.toNat ∧ b0.toNat ≤ 0xDF) := by omega
      have : ¬ (0xE0 ≤ b0.toNat ∧ b0.toNat ≤ 0xEF) := by omega
      have : ¬ (0xF0 ≤ b0.toNat ∧ b0.toNat ≤ 0xF4) := by omega
      simp [decodeRune, decodeSpec, as, first_xx h2, *]
    by_cases h3 : 0xC2 ≤ b0.toNat ∧ b0.toNat ≤ 0xDF
    · match t with
      | [] => simp [decodeRune, decodeSpec, as, first_s1 h3, *]
      | b1 :: t1 =>
        simp [decodeRune, decodeSpec, as, first_s1 h3, *, acceptRange, cont, rune2]
        fin_cases_if
    by_cases h4 : 0xE0 ≤ b0.toNat ∧ b0.toNat ≤ 0xEF
    · have hf : ∃ x l h, first b0.toNat = x ∧ lo2 b0.toNat = l ∧ hi2 b0.toNat = h ∧
          (x = 0x13 ∧ l = 0xA0 ∧ h = 0xBF ∨ x = 0x23 ∧ l = 0x80 ∧ h = 0x9F ∨ x = 0x03 ∧ l = 0x80 ∧ h = 0xBF) := by
        by_cases e1 : b0.toNat = 0xE0
        · exact ⟨0x13, 0xA0, 0xBF, first_s2 e1, by simp [lo2, e1], by simp [hi2, e1], by simp⟩
        by_cases e2 : b0.toNat = 0xED
        · exact ⟨0x23, 0x80, 0x9F, first_s4 e2, by simp [lo2, e2], by simp [hi2, e2], by simp⟩
        · exact ⟨0x03, 0x80, 0xBF, first_s3 (by omega), by simp [lo2, e1]; omega, by simp [hi2, e2]; omega, by simp⟩
      obtain ⟨x, l, h, hx, hl, hh, hc⟩ := hf
      match t with
      | [] => rcases hc with ⟨rfl, rfl, rfl⟩ | ⟨rfl, rfl, rfl⟩ | ⟨rfl, rfl, rfl⟩ <;> simp [decodeRune, decodeSpec, as, hx, h1, h3, h4]
      | [b1] =>
        rcases hc with ⟨rfl, rfl, rfl⟩ | ⟨rfl, rfl, rfl⟩ | ⟨rfl, rfl, rfl⟩ <;> simp [decodeRune, decodeSpec, as, hx, h1, h3, h4]
      | b1 :: b2 :: t2 =>
        rcases hc with ⟨rfl, rfl, rfl⟩ | ⟨rfl, rfl, rfl⟩ | ⟨rfl, rfl, rfl⟩ <;>
          simp [decodeRune, decodeSpec, as, hx, hl, hh, h1, h3, h4, acceptRange, cont, rune3] <;>
          fin_cases_if
    by_cases h5 : 0xF0 ≤ b0.toNat ∧ b0.toNat ≤ 0xF4
    · have hf : ∃ x l h, first b0.toNat = x ∧ lo2 b0.toNat = l ∧ hi2 b0.toNat = h ∧
          (x = 0x34 ∧ l = 0x90 ∧ h = 0xBF ∨ x = 0x44 ∧ l = 0x80 ∧ h = 0x8F ∨ x = 0x04 ∧ l = 0x80 ∧ h = 0xBF) := by
        by_cases e1 : b0.toNat = 0xF0
        · exact ⟨0x34, 0x90, 0xBF, first_s5 e1, by simp [lo2, e1], by simp [hi2, e1], by simp⟩
        by_cases e2 : b0.toNat = 0xF4
        · exact ⟨0x44, 0x80, 0x8F, first_s7 e2, by simp [lo2, e2], by simp [hi2, e2], by simp⟩
        · exact ⟨0x04, 0x80, 0xBF, first_s6 (by omega), by simp [lo2, e1]; omega, by simp [hi2, e2]; omega, by simp⟩
      obtain ⟨x, l, h, hx, hl, hh, hc⟩ := hf
      match t with
      | [] => rcases hc with ⟨rfl, rfl, rfl⟩ | ⟨rfl, rfl, rfl⟩ | ⟨rfl, rfl, rfl⟩ <;> simp [decodeRune, decodeSpec, as, hx, h1, h3, h4, h5]
      | [b1] => rcases hc with ⟨rfl, rfl, rfl⟩ | ⟨rfl, rfl, rfl⟩ | ⟨rfl, rfl, rfl⟩ <;> simp [decodeRune, decodeSpec, as, hx, h1, h3, h4, h5]
      | [b1, b2] => rcases hc with ⟨rfl, rfl, rfl⟩ | ⟨rfl, rfl, rfl⟩ | ⟨rfl, rfl, rfl⟩ <;> simp [decodeRune, decodeSpec, as, hx, h1, h3, h4, h5]
      | b1 :: b2 :: b3 :: t3 =>
        rcases hc with ⟨rfl, rfl, rfl⟩ | ⟨rfl, rfl, rfl⟩ | ⟨rfl, rfl, rfl⟩ <;>
          simp [decodeRune, decodeSpec, as, hx, hl, hh, h1, h3, h4, h5, acceptRange, cont, rune4] <;>
          fin_cases_if
    · exfalso
      have := b0.toNat_lt
      omega


theorem byte_toNat (b : UInt8) : byte b.toNat = b := by
  simp [byte, Nat.mod_eq_of_lt b.toNat_lt]

theorem or192 (x : Nat) (h : x < 64) : 192 ||| x = 192 + x := or_add 6 3 x h
theorem or128 (x : Nat) (h : x < 64) : 128 ||| x = 128 + x := or_add 6 2 x h
theorem or224 (x : Nat) (h : x < 16) : 224 ||| x = 224 + x := or_add 4 14 x h
theorem or240 (x : Nat) (h : x < 8) : 240 ||| x = 240 + x := or_add 3 30 x h

theorem encodeRune_1 (r : Nat) (h : r ≤ 0x7F) : encodeRune r = [byte r] := by
  simp [encodeRune, h]

theorem encodeRune_2 (r : Nat) (h1 : 0x80 ≤ r) (h2 : r ≤ 0x7FF) :
    encodeRune r = [byte (192 + r / 64), byte (128 + r % 64)] := by
  have a : ¬ r ≤ 0x7F := by omega
  simp only [encodeRune, a, h2, if_true, if_false, and63, Nat.shiftRight_eq_div_pow]
  rw [or192 _ (by omega), or128 _ (by omega)]
  congr 3 <;> omega


theorem encodeRune_3 (r : Nat) (h1 : 0x800 ≤ r) (h2 : r ≤ 0xFFFF) (h3 : r < 0xD800 ∨ 0xDFFF < r) :
    encodeRune r = [byte (224 + r / 4096), byte (128 + r / 64 % 64), byte (128 + r % 64)] := by
  have a : ¬ r ≤ 0x7F := by omega
  have b : ¬ r ≤ 0x7FF := by omega
  have c : ¬ (r > 0x10FFFF ∨ (0xD800 ≤ r ∧ r ≤ 0xDFFF)) := by omega
  simp only [encodeRune, a, b, c, h2, if_true, if_false, and63, Nat.shiftRight_eq_div_pow]
  rw [or224 _ (by omega), or128 _ (by omega), or128 _ (by omega)]
  have e1 : r / 2 ^ 12 % 256 = r / 4096 := by omega
  have e2 : r / 2 ^ 6 % 256 % 64 = r / 64 % 64 := by omega
  have e3 : r % 256 % 64 = r % 64 := by omega
  rw [e1, e2, e3]

theorem encodeRune_4 (r : Nat) (h1 : 0x10000 ≤ r) (h2 : r ≤ 0x10FFFF) :
    encodeRune r = [byte (240 + r / 262144), byte (128 + r / 4096 % 64), byte (128 + r / 64 % 64), byte (128 + r % 64)] := by
  have a : ¬ r ≤ 0x7F := by omega
  have b : ¬ r ≤ 0x7FF := by omega
  have c : ¬ (r > 0x10FFFF ∨ (0xD800 ≤ r ∧ r ≤ 0xDFFF)) := by omega
  have d : ¬ r ≤ 0xFFFF := by omega
  simp only [encodeRune, a, b, c, d, if_false, and63, Nat.shiftRight_eq_div_pow]
  rw [or240 _ (by omega), or128 _ (by omega), or128 _ (by omega), or128 _ (by omega)]
  have e0 : r / 2 ^ 18 % 256 = r / 262144 := by omega
  have e1 : r / 2 ^ 12 % 256 % 64 = r / 4096 % 64 := by omega
  have e2 : r / 2 ^ 6 % 256 % 64 = r / 64 % 64 := by omega
  have e3 : r % 256 % 64 = r % 64 := by omega
  rw [e0, e1, e2, e3]

theorem encodeRune_err (r : Nat) (h : r > 0x10FFFF ∨ (0xD800 ≤ r ∧ r ≤ 0xDFFF)) : encodeRune r = replacement := by
  have a : ¬ r ≤ 0x7F := by omega
  have b : ¬ r ≤ 0x7FF := by omega
  simp only [encodeRune, a, b, h, if_true, if_false]
  decide

theorem encodeRune_runeError : encodeRune runeError = replacement := by decide



theorem encode_decode_spec (s : List UInt8) (hne : s ≠ []) (hv : isInvalid (decodeSpec s) = false) :
    encodeRune (decodeSpec s).1 = s.take (decodeSpec s).2 := by
  match s with
  | [] => exact absurd rfl hne
  | b0 :: t =>
    have hb0 := b0.toNat_lt
    by_cases h1 : b0.toNat < 0x80
    · simp only [decodeSpec, h1, if_true, List.take_succ_cons, List.take_zero]
      rw [encodeRune_1 _ (by omega), byte_toNat]
    by_cases h3 : 0xC2 ≤ b0.toNat ∧ b0.toNat ≤ 0xDF
    · match t with
      | [] => simp [decodeSpec, h1, h3, isInvalid] at hv
      | b1 :: t1 =>
        by_cases hc : 0x80 ≤ b1.toNat ∧ b1.toNat ≤ 0xBF
        · have hd : decodeSpec (b0 :: b1 :: t1) = (b0.toNat % 32 * 64 + b1.toNat % 64, 2) := by
            simp [decodeSpec, h1, h3, hc]
          simp only [hd, List.take_succ_cons, List.take_zero]
          rw [encodeRune_2 _ (by omega) (by omega)]
          have e0 : 192 + (b0.toNat % 32 * 64 + b1.toNat % 64) / 64 = b0.toNat := by omega
          have e1 : 128 + (b0.toNat % 32 * 64 + b1.toNat % 64) % 64 = b1.toNat := by omega
          rw [e0, e1, byte_toNat, byte_toNat]
        · simp [decodeSpec, h1, h3, hc, isInvalid] at hv
    by_cases h4 : 0xE0 ≤ b0.toNat ∧ b0.toNat ≤ 0xEF
    · match t with
      | [] => simp [decodeSpec, h1, h3, h4, isInvalid] at hv
      | [b1] => simp [decodeSpec, h1, h3, h4, isInvalid] at hv
      | b1 :: b2 :: t2 =>
        by_cases hc : lo2 b0.toNat ≤ b1.toNat ∧ b1.toNat ≤ hi2 b0.toNat ∧ 0x80 ≤ b2.toNat ∧ b2.toNat ≤ 0xBF
        · have hd : decodeSpec (b0 :: b1 :: b2 :: t2) =
              (b0.toNat % 16 * 4096 + b1.toNat % 64 * 64 + b2.toNat % 64, 3) := by
            simp [decodeSpec, h1, h3, h4, hc]
          simp only [hd, List.take_succ_cons, List.take_zero]
          have hl : (b0.toNat = 0xE0 → 0xA0 ≤ b1.toNat) ∧ (b0.toNat = 0xED → b1.toNat ≤ 0x9F) ∧
              0x80 ≤ b1.toNat ∧ b1.toNat ≤ 0xBF := by
            have := hc.1; have := hc.2.1
            unfold lo2 hi2 at *
            refine ⟨?_, ?_, ?_, ?_⟩ <;> intros <;> (repeat' split at *) <;> omega
          rw [encodeRune_3 _ (by omega) (by omega) (by omega)]
          have e0 : 224 + (b0.toNat % 16 * 4096 + b1.toNat % 64 * 64 + b2.toNat % 64) / 4096 = b0.toNat := by omega
          have e1 : 128 + (b0.toNat % 16 * 4096 + b1.toNat % 64 * 64 + b2.toNat % 64) / 64 % 64 = b1.toNat := by omega
          have e2 : 128 + (b0.toNat % 16 * 4096 + b1.toNat % 64 * 64 + b2.toNat % 64) % 64 = b2.toNat := by omega
          rw [e0, e1, e2, byte_toNat, byte_toNat, byte_toNat]
        · simp [decodeSpec, h1, h3, h4, hc, isInvalid] at hv
    by_cases h5 : 0xF0 ≤ b0.toNat ∧ b0.toNat ≤ 0xF4
    · match t with
      | [] => simp [decodeSpec, h1, h3, h4, h5, isInvalid] at hv
      | [b1] => simp [decodeSpec, h1, h3, h4, h5, isInvalid] at hv
      | [b1, b2] => simp [decodeSpec, h1, h3, h4, h5, isInvalid] at hv
      | b1 :: b2 :: b3 :: t3 =>
        by_cases hc : lo2 b0.toNat ≤ b1.toNat ∧ b1.toNat ≤ hi2 b0.toNat ∧ (0x80 ≤ b2.toNat ∧ b2.toNat ≤ 0xBF) ∧
            0x80 ≤ b3.toNat ∧ b3.toNat ≤ 0xBF
        · have hd : decodeSpec (b0 :: b1 :: b2 :: b3 :: t3) =
              (b0.toNat % 8 * 262144 + b1.toNat % 64 * 4096 + b2.toNat % 64 * 64 + b3.toNat % 64, 4) := by
            simp [decodeSpec, h1, h3, h4, h5, hc]
          simp only [hd, List.take_succ_cons, List.take_zero]
          have hl : (b0.toNat = 0xF0 → 0x90 ≤ b1.toNat) ∧ (b0.toNat = 0xF4 → b1.toNat ≤ 0x8F) ∧
              0x80 ≤ b1.toNat ∧ b1.toNat ≤ 0xBF := by
            have := hc.1; have := hc.2.1
            unfold lo2 hi2 at *
            refine ⟨?_, ?_, ?_, ?_⟩ <;> intros <;> (repeat' split at *) <;> omega
          rw [encodeRune_4 _ (by omega) (by omega)]
          have e0 : 240 + (b0.toNat % 8 * 262144 + b1.toNat % 64 * 4096 + b2.toNat % 64 * 64 + b3.toNat % 64) / 262144
              = b0.toNat := by omega
          have e1 : 128 + (b0.toNat % 8 * 262144 + b1.toNat % 64 * 4096 + b2.toNat % 64 * 64 + b3.toNat % 64) / 4096 % 64
              = b1.toNat := by omega
          have e2 : 128 + (b0.toNat % 8 * 262144 + b1.toNat % 64 * 4096 + b2.toNat % 64 * 64 + b3.toNat % 64) / 64 % 64
              = b2.toNat := by omega
          have e3 : 128 + (b0.toNat % 8 * 262144 + b1.toNat % 64 * 4096 + b2.toNat % 64 * 64 + b3.toNat % 64) % 64
              = b3.toNat := by omega
          rw [e0, e1, e2, e3, byte_toNat, byte_toNat, byte_toNat, byte_toNat]
        · simp [decodeSpec, h1, h3, h4, h5, hc, isInvalid] at hv
    · simp [decodeSpec, h1, h3, h4, h5, isInvalid] at hv


theorem decodeSpec_size (s : List UInt8) (hne : s ≠ []) :
    1 ≤ (decodeSpec s).2 ∧ (decodeSpec s).2 ≤ s.length := by
  match s with
  | [] => exact absurd rfl hne
  | b0 :: t =>
    simp only [decodeSpec]
    repeat' split
    all_goals simp

theorem decodeRune_size (s : List UInt8) (hne : s ≠ []) :
    1 ≤ (decodeRune s).2 ∧ (decodeRune s).2 ≤ s.length := by
  rw [decodeRune_eq_spec]; exact decodeSpec_size s hne

theorem encode_decode (s : List UInt8) (hne : s ≠ []) (hv : isInvalid (decodeRune s) = false) :
    encodeRune (decodeRune s).1 = s.take (decodeRune s).2 := by
  rw [decodeRune_eq_spec] at hv ⊢; exact encode_decode_spec s hne hv

theorem encode_invalid (s : List UInt8) (hv : isInvalid (decodeRune s) = true) :
    encodeRune (decodeRune s).1 = replacement ∧ (decodeRune s).2 = 1 := by
  simp only [isInvalid, Bool.and_eq_true, beq_iff_eq] at hv
  rw [hv.1]; exact ⟨encodeRune_runeError, hv.2⟩

theorem decodeRune_ascii (b0 : UInt8) (t : List UInt8) (h : b0.toNat < 0x80) :
    decodeRune (b0 :: t) = (b0.toNat, 1) := by
  rw [decodeRune_eq_spec]; simp [decodeSpec, h]

end GrpcProofs.Lemmas.Utf8