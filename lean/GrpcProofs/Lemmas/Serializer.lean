import GrpcModel.Model.Serializer
import GrpcProofs.Lemmas.Unbounded
/-! Helper lemmas for C31 (callback serializer): the reachable-state invariant of the interleaving
model, FIFO refinement, coupling with the trace monitor, progress work. -/
namespace GrpcProofs.Lemmas.Serializer
open GrpcModel GrpcModel.Serializer

variable {α : Type}

/-- Case-split on everything the buffer's step functions branch on (slot, backlog, the two
    independent flags), then evaluate. -/
syntax "ucases " ident ident ident ident : tactic
macro_rules
  | `(tactic| ucases $chan $backlog $a $b) =>
    `(tactic| (rcases $chan:ident with _ | cv) <;> (rcases $backlog:ident with _ | ⟨bx, brest⟩) <;>
        cases $a:ident <;> cases $b:ident)

/-- Invariant of every reachable state (any interleaving). The last clause is the
    close-while-draining / lost-item invariant: except between the receive and the `Load` that
    follows it, an empty channel slot means an empty backlog and a carried-out close. -/
def SInv (s : St α) : Prop :=
  Lemmas.Unbounded.Inv s.buf ∧
  s.buf.closing = s.fired ∧
  (s.fired = true → s.cancelled = true ∧ s.registered = true) ∧
  (s.registered = false ↔ s.pc = .start) ∧
  (s.done = true ↔ s.pc = .exited) ∧
  (s.pc = .exited → s.buf.chanClosed = true ∧ s.buf.chan = none) ∧
  ((∀ cb, s.pc ≠ .load cb) → s.buf.chan = none →
      s.buf.backlog = [] ∧ (s.buf.closing = true → s.buf.closed = true))

theorem sinv_init : SInv (init : St α) := by
  simp [SInv, init, Lemmas.Unbounded.Inv, Unbounded.init]

theorem step_sinv (s : St α) (a : Act α) (h : SInv s) : SInv (step s a).1 := by
  obtain ⟨⟨chan, chanClosed, backlog, closing, closed⟩, cancelled, registered, fired, pc, done⟩ := s
  obtain ⟨⟨h1, h2⟩, h3, h4, h5, h6, h7, h8⟩ := h
  simp only at h1 h2 h3 h4 h5 h6 h7 h8
  subst h1 h3
  cases a
  case sched cb =>
    ucases chan backlog closed closing <;>
      simp [step, Unbounded.step, SInv, Lemmas.Unbounded.Inv] at * <;> simp_all
  case cancel =>
    simp [step, SInv, Lemmas.Unbounded.Inv] at * <;> simp_all
  case fire =>
    cases cancelled <;> cases registered <;> ucases chan backlog closed closing <;>
      simp [step, Unbounded.step, SInv, Lemmas.Unbounded.Inv] at * <;> simp_all
  case run =>
    cases pc <;> ucases chan backlog closed closing <;>
      simp [step, Unbounded.step, SInv, Lemmas.Unbounded.Inv] at * <;> simp_all
  case ret =>
    cases pc <;> simp [step, SInv, Lemmas.Unbounded.Inv] at * <;> simp_all

theorem run_sinv (as : List (Act α)) (s : St α) (h : SInv s) : SInv (run s as).1 := by
  induction as generalizing s with
  | nil => simpa [run]
  | cons a as ih => simpa [run] using ih _ (step_sinv s a h)

theorem step_no_panic (s : St α) (a : Act α) (h : SInv s) : (step s a).2 ≠ .panic := by
  obtain ⟨⟨chan, chanClosed, backlog, closing, closed⟩, cancelled, registered, fired, pc, done⟩ := s
  obtain ⟨⟨h1, h2⟩, h3, h4, h5, h6, h7, h8⟩ := h
  simp only at h1 h2 h3 h4 h5 h6 h7 h8
  subst h1 h3
  cases a
  case sched cb =>
    ucases chan backlog closed closing <;> simp [step, Unbounded.step] at * <;> simp_all
  case cancel => simp [step]
  case fire =>
    cases cancelled <;> cases registered <;> ucases chan backlog closed closing <;>
      simp [step, Unbounded.step] at * <;> simp_all
  case run =>
    cases pc <;> ucases chan backlog closed closing <;> simp [step, Unbounded.step] at * <;> simp_all
  case ret =>
    cases pc <;> simp [step]

/-- One step of the FIFO refinement. -/
theorem step_fifo (s : St α) (a : Act α) :
    startedOf [(step s a).2] ++ pending (step s a).1 = pending s ++ acceptedOf [(step s a).2] := by
  obtain ⟨⟨chan, chanClosed, backlog, closing, closed⟩, cancelled, registered, fired, pc, done⟩ := s
  cases a
  case sched cb =>
    ucases chan backlog chanClosed closing <;>
      simp [step, Unbounded.step, pending, startedOf, acceptedOf, Unbounded.abs]
  case cancel => simp [step, pending, startedOf, acceptedOf]
  case fire =>
    cases cancelled <;> cases registered <;> cases fired <;> ucases chan backlog chanClosed closing <;>
      simp [step, Unbounded.step, pending, startedOf, acceptedOf, Unbounded.abs]
  case run =>
    cases pc <;> cases closed <;> ucases chan backlog chanClosed closing <;>
      simp [step, Unbounded.step, pending, startedOf, acceptedOf, Unbounded.abs, inflight]
  case ret =>
    cases pc <;> simp [step, pending, startedOf, acceptedOf, inflight]

theorem startedOf_cons (e : Ev α) (t : List (Ev α)) : startedOf (e :: t) = startedOf [e] ++ startedOf t := by
  cases e <;> simp [startedOf]

theorem acceptedOf_cons (e : Ev α) (t : List (Ev α)) : acceptedOf (e :: t) = acceptedOf [e] ++ acceptedOf t := by
  cases e <;> simp [acceptedOf]

theorem fifo (as : List (Act α)) (s : St α) :
    startedOf (run s as).2 ++ pending (run s as).1 = pending s ++ acceptedOf (run s as).2 := by
  induction as generalizing s with
  | nil => simp [run, startedOf, acceptedOf]
  | cons a as ih =>
    simp only [run]
    have h1 := step_fifo s a
    have h2 := ih (step s a).1
    rw [startedOf_cons, acceptedOf_cons]
    simp only [List.append_assoc]
    rw [h2, ← List.append_assoc, h1]
    simp [List.append_assoc]

/-- Model state ↔ trace-monitor state. -/
def curOf : Pc α → Option α
  | .running cb => some cb
  | _ => none

def MC (s : St α) (m : Mon α) : Prop :=
  m.acc = pending s ∧ m.cur = curOf s.pc ∧ m.cancelSeen = s.cancelled ∧ m.doneSeen = s.done ∧
  (m.rejSeen = true → s.fired = true)

/-- Every started callback has ended, except the one running now. -/
theorem step_ended (s : St α) (a : Act α) :
    endedOf [(step s a).2] ++ (curOf (step s a).1.pc).toList = (curOf s.pc).toList ++ startedOf [(step s a).2] := by
  obtain ⟨⟨chan, chanClosed, backlog, closing, closed⟩, cancelled, registered, fired, pc, done⟩ := s
  cases a
  case sched cb =>
    ucases chan backlog chanClosed closing <;>
      simp [step, Unbounded.step, endedOf, startedOf]
  case cancel => simp [step, endedOf, startedOf]
  case fire =>
    cases cancelled <;> cases registered <;> cases fired <;> ucases chan backlog chanClosed closing <;>
      simp [step, Unbounded.step, endedOf, startedOf]
  case run =>
    cases pc <;> cases closed <;> ucases chan backlog chanClosed closing <;>
      simp [step, Unbounded.step, endedOf, startedOf, curOf]
  case ret =>
    cases pc <;> simp [step, endedOf, startedOf, curOf]

theorem endedOf_cons (e : Ev α) (t : List (Ev α)) : endedOf (e :: t) = endedOf [e] ++ endedOf t := by
  cases e <;> simp [endedOf]

theorem ended_fifo (as : List (Act α)) (s : St α) :
    endedOf (run s as).2 ++ (curOf (run s as).1.pc).toList = (curOf s.pc).toList ++ startedOf (run s as).2 := by
  induction as generalizing s with
  | nil => simp [run, startedOf, endedOf]
  | cons a as ih =>
    simp only [run]
    have h1 := step_ended s a
    have h2 := ih (step s a).1
    rw [startedOf_cons, endedOf_cons]
    simp only [List.append_assoc]
    rw [h2, ← List.append_assoc, h1]
    simp [List.append_assoc]

theorem mc_init : MC (init : St α) Mon.init := by
  simp [MC, init, Mon.init, pending, inflight, Unbounded.abs, Unbounded.init, curOf]

theorem step_mc [DecidableEq α] (s : St α) (m : Mon α) (a : Act α) (hi : SInv s) (h : MC s m) :
    MC (step s a).1 (Mon.step m (step s a).2).1 ∧ ∀ c, (Mon.step m (step s a).2).2 ≠ .viol c := by
  obtain ⟨⟨chan, chanClosed, backlog, closing, closed⟩, cancelled, registered, fired, pc, done⟩ := s
  obtain ⟨acc, cur, cancelSeen, rejSeen, doneSeen⟩ := m
  obtain ⟨⟨h1, h2⟩, h3, h4, h5, h6, h7, h8⟩ := hi
  obtain ⟨m1, m2, m3, m4, m5⟩ := h
  simp only at h1 h2 h3 h4 h5 h6 h7 h8 m1 m2 m3 m4 m5
  subst h1 h3 m1 m2 m3 m4
  cases a
  case sched cb =>
    cases pc <;> cases rejSeen <;> ucases chan backlog closed closing <;>
      simp [step, Unbounded.step, MC, Mon.step, pending, Unbounded.abs, curOf, inflight] at * <;> simp_all
  case cancel =>
    simp [step, MC, Mon.step, pending, Unbounded.abs] at * <;> simp_all
  case fire =>
    cases cancelSeen <;> cases registered <;> ucases chan backlog closed closing <;>
      simp [step, Unbounded.step, MC, Mon.step, pending, Unbounded.abs] at * <;> simp_all
  case run =>
    cases pc <;> cases cancelSeen <;> ucases chan backlog closed closing <;>
      simp [step, Unbounded.step, MC, Mon.step, pending, Unbounded.abs, inflight, curOf] at * <;> simp_all
  case ret =>
    cases pc <;> simp [step, MC, Mon.step, pending, inflight, curOf] at * <;> simp_all

theorem monitor_ok [DecidableEq α] (as : List (Act α)) (s : St α) (m : Mon α) (hi : SInv s) (h : MC s m) :
    ∀ v ∈ (Mon.run m (run s as).2).2, ∀ c, v ≠ .viol c := by
  induction as generalizing s m with
  | nil => simp [run, Mon.run]
  | cons a as ih =>
    have hs := step_mc s m a hi h
    intro v hv
    simp only [run, Mon.run, List.mem_cons] at hv
    rcases hv with rfl | hv
    · exact hs.2
    · exact ih _ _ (step_sinv s a hi) hs.1 v hv

theorem run_mc [DecidableEq α] (as : List (Act α)) (s : St α) (m : Mon α) (hi : SInv s) (h : MC s m) :
    MC (run s as).1 (Mon.run m (run s as).2).1 := by
  induction as generalizing s m with
  | nil => simpa [run, Mon.run]
  | cons a as ih =>
    have hs := step_mc s m a hi h
    simpa [run, Mon.run] using ih _ _ (step_sinv s a hi) hs.1

/-- Progress: one step of the run goroutine strictly decreases the measure unless it is
    legitimately idle (nothing pending, Close has not run) or has exited. -/
theorem tick_progress (s : St α) (h : SInv s) :
    work (tick s) < work s ∨
    (s.pc = .recv ∧ pending s = [] ∧ s.fired = false) ∨ s.done = true := by
  obtain ⟨⟨chan, chanClosed, backlog, closing, closed⟩, cancelled, registered, fired, pc, done⟩ := s
  obtain ⟨⟨h1, h2⟩, h3, h4, h5, h6, h7, h8⟩ := h
  simp only at h1 h2 h3 h4 h5 h6 h7 h8
  subst h1 h3
  cases pc <;> ucases chan backlog closed closing <;>
    simp [tick, step, Unbounded.step, work, Unbounded.abs, pending, inflight] at * <;>
    first | omega | simp_all

theorem tick_sinv (s : St α) (h : SInv s) : SInv (tick s) := by
  unfold tick
  split <;> exact step_sinv _ _ h

theorem tick_fired (s : St α) (h : s.fired = true) : (tick s).fired = true := by
  obtain ⟨⟨chan, chanClosed, backlog, closing, closed⟩, cancelled, registered, fired, pc, done⟩ := s
  cases pc <;> ucases chan backlog chanClosed closing <;> cases closed <;>
    simp [tick, step, Unbounded.step] at * <;> simp_all

theorem tick_done (s : St α) (h : s.done = true) : (tick s).done = true := by
  obtain ⟨⟨chan, chanClosed, backlog, closing, closed⟩, cancelled, registered, fired, pc, done⟩ := s
  cases pc <;> ucases chan backlog chanClosed closing <;> cases closed <;>
    simp [tick, step, Unbounded.step] at * <;> simp_all

theorem ticks_done (n : Nat) (s : St α) (h : s.done = true) : (ticks n s).done = true := by
  induction n generalizing s with
  | zero => simpa [ticks]
  | succ n ih => exact ih _ (tick_done s h)

/-- After Close has run, the run goroutine reaches `done` within `work s` of its own steps. -/
theorem terminates (n : Nat) (s : St α) (h : SInv s) (hf : s.fired = true) (hn : work s ≤ n) :
    (ticks n s).done = true := by
  induction n generalizing s with
  | zero =>
    rcases tick_progress s h with hp | ⟨_, _, hp⟩ | hp
    · omega
    · simp_all
    · simpa [ticks]
  | succ n ih =>
    rcases tick_progress s h with hp | ⟨_, _, hp⟩ | hp
    · exact ih (tick s) (tick_sinv s h) (tick_fired s hf) (by omega)
    · simp_all
    · exact ticks_done (n + 1) s hp

end GrpcProofs.Lemmas.Serializer
