/-
Helper lemmas for C18 / C23 about GrpcModel.RetryLoop (withRetry, replay buffer, attempts).
-/
import GrpcModel.Model.RetryLoop
import GrpcProofs.Lemmas.Retry
namespace GrpcProofs.Lemmas.RetryLoop
open GrpcModel.Retry GrpcModel.RetryLoop GrpcProofs.Lemmas.Retry

/-! ### lists -/

theorem getLast?_eq_some_split {α} (l : List α) (a : α) (h : l.getLast? = some a) : l = l.dropLast ++ [a] := by
  have := List.dropLast_append_getLast? (l := l) a (by simpa using h)
  exact this.symm

/-! ### updCur -/

theorem updCur_none (st : St) (f : Att → Att) (h : st.cur = none) : st.updCur f = st := by
  unfold St.updCur; unfold St.cur at h; rw [h]

theorem updCur_some (st : St) (f : Att → Att) (a : Att) (h : st.cur = some a) :
    st.updCur f = { st with atts := st.atts.dropLast ++ [f a] } := by
  unfold St.updCur; unfold St.cur at h; rw [h]

theorem updCur_cur (st : St) (f : Att → Att) (a : Att) (h : st.cur = some a) : (st.updCur f).cur = some (f a) := by
  rw [updCur_some st f a h]; simp [St.cur]

theorem updCur_length (st : St) (f : Att → Att) : (st.updCur f).atts.length = st.atts.length := by
  cases h : st.cur with
  | none => rw [updCur_none st f h]
  | some a =>
    rw [updCur_some st f a h]
    have := getLast?_eq_some_split st.atts a h
    conv_rhs => rw [this]
    simp

/-- membership after updating the current attempt -/
theorem mem_updCur (st : St) (f : Att → Att) (x : Att) (hx : x ∈ (st.updCur f).atts) :
    x ∈ st.atts ∨ ∃ a, st.cur = some a ∧ x = f a := by
  cases h : st.cur with
  | none => rw [updCur_none st f h] at hx; exact Or.inl hx
  | some a =>
    rw [updCur_some st f a h] at hx
    simp only [List.mem_append, List.mem_singleton] at hx
    rcases hx with hx | hx
    · exact Or.inl (List.mem_of_mem_dropLast hx)
    · exact Or.inr ⟨a, rfl, hx⟩

theorem cur_mem (st : St) (a : Att) (h : st.cur = some a) : a ∈ st.atts :=
  List.mem_of_getLast? h

/-! ### replay invariant -/

/-- replay invariant with the current op's item still pending: `pb` not yet in the buffer, `pc` not yet
    written on the (live) current attempt. -/
structure RInv (st : St) (pb pc : List Wire) : Prop where
  buf : st.cs.committed = false → wireOf st.clientStreams st.replay ++ pb = st.hist
  pre : ∀ a ∈ st.atts, a.log <+: st.hist
  cur : ∀ a, st.cur = some a → a.dead = false → a.log ++ pc = st.hist
  once : st.cs.committed = false → st.started = true → startsOnce st.replay = true

theorem wireOf_append (c : Bool) (r1 r2 : List ROp) : wireOf c (r1 ++ r2) = wireOf c r1 ++ wireOf c r2 := by
  induction r1 with
  | nil => rfl
  | cons o r ih => cases o <;> simp [wireOf, ih]

theorem commit_rinv (st : St) (pb pc : List Wire) (h : RInv st pb pc) (pb' : List Wire := pb) : RInv st.commit pb' pc := by
  refine ⟨?_, h.pre, h.cur, ?_⟩
  · intro hc; simp [St.commit] at hc
  · intro hc; simp [St.commit] at hc

theorem commit_committed (st : St) : st.commit.cs.committed = true := rfl

/-- any change of the current attempt that keeps its log and can only kill it -/
theorem updCur_rinv (st : St) (f : Att → Att) (pb pc : List Wire) (h : RInv st pb pc)
    (hlog : ∀ a, (f a).log = a.log) (hdead : ∀ a, a.dead = true → (f a).dead = true) :
    RInv (st.updCur f) pb pc := by
  cases hc : st.cur with
  | none => rw [updCur_none st f hc]; exact h
  | some a =>
    have hcur := updCur_cur st f a hc
    rw [updCur_some st f a hc] at hcur ⊢
    refine ⟨h.buf, ?_, ?_, h.once⟩
    · intro x hx
      simp only [List.mem_append, List.mem_singleton] at hx
      rcases hx with hx | hx
      · exact h.pre x (List.mem_of_mem_dropLast hx)
      · subst hx; rw [hlog]; exact h.pre a (cur_mem st a hc)
    · intro x hx hd
      rw [hcur] at hx; injection hx with hx; subst hx
      rw [hlog]
      apply h.cur a hc
      cases hda : a.dead with
      | false => rfl
      | true => rw [hdead a hda] at hd; cases hd

theorem finishAttempt_rinv (st : St) (code : Nat) (pb pc : List Wire) (h : RInv st pb pc) :
    RInv (st.finishAttempt code) pb pc := by
  unfold St.finishAttempt
  apply updCur_rinv st _ pb pc h
  · intro a; split_ifs <;> rfl
  · intro a hd
    split_ifs
    · exact hd
    · simpa [Att.dead] using hd

theorem mapAtts_rinv (st : St) (g : Att → Att) (pb pc : List Wire) (h : RInv st pb pc)
    (hlog : ∀ a, (g a).log = a.log) (hdead : ∀ a, a.dead = true → (g a).dead = true) :
    RInv { st with atts := st.atts.map g } pb pc := by
  refine ⟨h.buf, ?_, ?_, h.once⟩
  · intro x hx
    simp only [List.mem_map] at hx
    obtain ⟨a, ha, rfl⟩ := hx
    rw [hlog]; exact h.pre a ha
  · intro x hx hd
    simp only [St.cur, List.getLast?_map] at hx
    cases hc : st.atts.getLast? with
    | none => rw [hc] at hx; cases hx
    | some a =>
      rw [hc] at hx; simp only [Option.map_some, Option.some.injEq] at hx; subst hx
      rw [hlog]
      apply h.cur a hc
      cases hda : a.dead with
      | false => rfl
      | true => rw [hdead a hda] at hd; cases hd

theorem react_rinv (st : St) (pb pc : List Wire) (h : RInv st pb pc) :
    RInv { st with atts := react st.atts } pb pc := by
  unfold react
  apply mapAtts_rinv st _ pb pc h
  · intro a; split_ifs <;> rfl
  · intro a hd
    split_ifs with hc
    · simp only [Att.dead, Bool.or_eq_true, Bool.and_eq_true] at hd ⊢
      simp only [Bool.and_eq_true, Bool.not_eq_true', bne_iff_ne, ne_eq] at hc
      right; exact ⟨trivial, by simpa using hc.1.2⟩
    · exact hd

theorem settle_rinv (st : St) (pb pc : List Wire) (h : RInv st pb pc) : RInv st.settle pb pc :=
  react_rinv st pb pc h

theorem write_dead (st : St) (w : Wire) (h : st.curDead = true) : st.write w = (st, false, []) := by
  simp [St.write, h]

theorem write_alive (st : St) (w : Wire) (h : st.curDead = false) :
    (st.write w).1 = st.updCur (fun a => { a with log := a.log ++ [w] }) ∧ (st.write w).2.1 = true := by
  simp [St.write, h]

theorem curDead_false_iff (st : St) : st.curDead = false ↔ ∃ a, st.cur = some a ∧ a.dead = false := by
  unfold St.curDead
  cases st.cur with
  | none => simp
  | some a => simp

/-- facts every primitive below keeps -/
structure Same (st st' : St) : Prop where
  cs : st'.cs = st.cs
  replay : st'.replay = st.replay
  hist : st'.hist = st.hist
  cstr : st'.clientStreams = st.clientStreams
  started : st'.started = st.started
  seq : st'.seq = st.seq
  pol : st'.pol = st.pol
  dis : st'.disableRetry = st.disableRetry
  maxBuf : st'.maxBuf = st.maxBuf
  rsize : st'.replaySize = st.replaySize
  len : st'.atts.length = st.atts.length

theorem Same.rfl' (st : St) : Same st st := ⟨rfl, rfl, rfl, rfl, rfl, rfl, rfl, rfl, rfl, rfl, rfl⟩

theorem Same.trans {a b c : St} (h1 : Same a b) (h2 : Same b c) : Same a c :=
  ⟨h2.cs.trans h1.cs, h2.replay.trans h1.replay, h2.hist.trans h1.hist, h2.cstr.trans h1.cstr,
   h2.started.trans h1.started, h2.seq.trans h1.seq, h2.pol.trans h1.pol, h2.dis.trans h1.dis,
   h2.maxBuf.trans h1.maxBuf, h2.rsize.trans h1.rsize, h2.len.trans h1.len⟩

theorem updCur_same (st : St) (f : Att → Att) : Same st (st.updCur f) := by
  have hl := updCur_length st f
  cases h : st.cur with
  | none => rw [updCur_none st f h]; exact Same.rfl' st
  | some a => rw [updCur_some st f a h] at hl ⊢; exact ⟨rfl, rfl, rfl, rfl, rfl, rfl, rfl, rfl, rfl, rfl, hl⟩

theorem write_alive_rinv (st : St) (w : Wire) (pb pc : List Wire) (hd : st.curDead = false)
    (h : RInv st pb (w :: pc)) :
    RInv (st.write w).1 pb pc ∧ (st.write w).1.curDead = false ∧ Same st (st.write w).1 := by
  obtain ⟨a, hc, had⟩ := (curDead_false_iff st).mp hd
  have hsame : Same st (st.write w).1 := by rw [(write_alive st w hd).1]; exact updCur_same st _
  rw [(write_alive st w hd).1, updCur_some st _ a hc]
  have hlog : a.log ++ w :: pc = st.hist := h.cur a hc had
  refine ⟨⟨h.buf, ?_, ?_, h.once⟩, ?_, ?_⟩
  · intro x hx
    simp only [List.mem_append, List.mem_singleton] at hx
    rcases hx with hx | hx
    · exact h.pre x (List.mem_of_mem_dropLast hx)
    · subst hx
      simp only
      rw [← hlog]
      exact ⟨pc, by simp⟩
  · intro x hx _
    simp only [St.cur, List.getLast?_append, List.getLast?_singleton, Option.some_or, Option.some.injEq] at hx
    subst hx
    simp only
    rw [← hlog]; simp
  · simp only [St.curDead, St.cur, List.getLast?_append, List.getLast?_singleton, Option.some_or]
    simpa [Att.dead] using had
  · rw [(write_alive st w hd).1, updCur_some st _ a hc] at hsame; exact hsame

theorem startsOnce_append (r : List ROp) (op : ROp) (h : startsOnce r = true) (hop : op ≠ .start) :
    startsOnce (r ++ [op]) = true := by
  cases r with
  | nil => simp [startsOnce] at h
  | cons o r =>
    cases o with
    | start =>
      simp only [startsOnce, Bool.not_eq_true', List.cons_append] at h ⊢
      simp only [List.contains_eq_mem, List.mem_append, List.mem_singleton, decide_eq_false_iff_not] at h ⊢
      intro hc; rcases hc with hc | hc
      · exact h hc
      · exact hop hc.symm
    | msg q z => simp [startsOnce] at h
    | half => simp [startsOnce] at h

theorem buffer_rinv (st : St) (sz : Int) (op : ROp) (pc : List Wire) (hop : op ≠ .start)
    (h : RInv st (wireOf st.clientStreams [op]) pc) : RInv (st.buffer sz op) [] pc := by
  simp only [St.buffer]
  split_ifs with hc hsz
  · exact ⟨fun hf => by simp [hc] at hf, h.pre, h.cur, fun hf => by simp [hc] at hf⟩
  · exact commit_rinv { st with replaySize := st.replaySize + sz } _ pc ⟨h.buf, h.pre, h.cur, h.once⟩ []
  · have hc' : st.cs.committed = false := by simpa using hc
    refine ⟨?_, h.pre, h.cur, ?_⟩
    · intro _
      simp only [List.append_nil]
      rw [wireOf_append]; exact h.buf hc'
    · intro _ hs
      exact startsOnce_append _ _ (h.once hc' hs) hop

/-- the state after appending `ws` to the log of the current attempt `a` -/
def withLog (s : St) (a : Att) (ws : List Wire) : St :=
  { s with atts := s.atts.dropLast ++ [{ a with log := a.log ++ ws }] }

theorem withLog_cur (s : St) (a : Att) (ws : List Wire) : (withLog s a ws).cur = some { a with log := a.log ++ ws } := by
  simp [withLog, St.cur]

theorem withLog_withLog (s : St) (a : Att) (w1 w2 : List Wire) :
    withLog (withLog s a w1) { a with log := a.log ++ w1 } w2 = withLog s a (w1 ++ w2) := by
  simp [withLog, List.append_assoc]

theorem write_withLog (s : St) (a : Att) (ws : List Wire) (w : Wire) (had : a.dead = false) :
    ((withLog s a ws).write w).1 = withLog s a (ws ++ [w]) := by
  have hc := withLog_cur s a ws
  have hd : (withLog s a ws).curDead = false := by
    rw [curDead_false_iff]; exact ⟨_, hc, by simpa [Att.dead] using had⟩
  rw [(write_alive _ w hd).1, updCur_some _ _ _ hc]
  simp [withLog, List.append_assoc]

theorem replayFold_rest (rest : List ROp) (hns : rest.contains .start = false) (s : St) (a : Att) (ws : List Wire)
    (had : a.dead = false) (evs : List Ev) :
    (rest.foldl (fun (acc : St × List Ev) op =>
      let (s, evs) := acc
      match op with
      | .start => let (s', e) := s.newAttempt; (s', evs ++ e)
      | .msg q z =>
        let (s', _, e) := s.write (.msg q z)
        if s.clientStreams then (s', evs ++ e)
        else let (s'', _, e2) := s'.write .half; (s'', evs ++ e ++ e2)
      | .half => let (s', _, e) := s.write .half; (s', evs ++ e)) (withLog s a ws, evs)).1
    = withLog s a (ws ++ wireOf s.clientStreams rest) := by
  induction rest generalizing ws evs with
  | nil => simp [wireOf]
  | cons o rest ih =>
    have hns' : rest.contains .start = false := by
      simp only [List.contains_cons, Bool.or_eq_false_iff] at hns; exact hns.2
    cases o with
    | start => simp at hns
    | msg q z =>
      simp only [List.foldl_cons]
      have hcs : (withLog s a ws).clientStreams = s.clientStreams := rfl
      cases hk : s.clientStreams with
      | true =>
        simp only [hcs, hk, if_true]
        have h1 := write_withLog s a ws (.msg q z) had
        have := ih hns' (ws ++ [.msg q z]) (evs ++ ((withLog s a ws).write (.msg q z)).2.2)
        rw [← h1] at this
        simp only [hk] at this
        rw [this]; simp [wireOf, List.append_assoc]
      | false =>
        simp only [hcs, hk, Bool.false_eq_true, if_false]
        have h1 := write_withLog s a ws (.msg q z) had
        have h2 := write_withLog s a (ws ++ [.msg q z]) .half had
        rw [← h1] at h2
        have := ih hns' (ws ++ [.msg q z] ++ [.half])
          (evs ++ ((withLog s a ws).write (.msg q z)).2.2 ++ (((withLog s a ws).write (.msg q z)).1.write .half).2.2)
        rw [← h2] at this
        simp only [hk] at this
        rw [this]; simp [wireOf, List.append_assoc]
    | half =>
      simp only [List.foldl_cons]
      have h1 := write_withLog s a ws .half had
      have := ih hns' (ws ++ [.half]) (evs ++ ((withLog s a ws).write .half).2.2)
      rw [← h1] at this
      rw [this]; simp [wireOf, List.append_assoc]

/-- the attempt a retry creates -/
def freshAtt (st : St) : Att :=
  { beh := (st.script.drop st.atts.length).headD Beh.dflt, prev := st.cs.numRetries, log := [] }

theorem freshAtt_alive (st : St) : (freshAtt st).dead = false := by simp [freshAtt, Att.dead]

theorem replayAll_spec (st : St) (rest : List ROp) (hr : st.replay = .start :: rest)
    (hns : rest.contains .start = false) :
    st.replayAll.1 =
      { st with atts := st.atts ++ [{ freshAtt st with log := wireOf st.clientStreams rest }] } := by
  unfold St.replayAll
  rw [hr, List.foldl_cons]
  have h0 : (st.newAttempt).1 = withLog { st with atts := st.atts ++ [freshAtt st] } (freshAtt st) [] := by
    simp [St.newAttempt, withLog, freshAtt]
  have := replayFold_rest rest hns { st with atts := st.atts ++ [freshAtt st] } (freshAtt st) [] (freshAtt_alive st)
    ([] ++ (st.newAttempt).2)
  rw [← h0] at this
  simp only at this ⊢
  refine this.trans ?_
  simp [withLog, freshAtt, hr]

/-! ### op(a) -/

theorem react_same (st : St) : Same st { st with atts := react st.atts } :=
  ⟨rfl, rfl, rfl, rfl, rfl, rfl, rfl, rfl, rfl, rfl, by simp [react]⟩

theorem react_cur_dead (st : St) (a : Att) (h : ({ st with atts := react st.atts } : St).cur = some a) (hd : a.dead = true) :
    ({ st with atts := react st.atts } : St).curDead = true := by
  simp [St.curDead, h, hd]

/-- `op(a)`: either the op's item reached a live attempt, or the attempt was dead and nothing
    moved, or (recv/header) only reactions / read counters changed. -/
theorem applyOp_rinv (st : St) (op : COp) (h : RInv st (st.pendOf op) (st.pendOf op)) :
    Same st (st.applyOp op).1 ∧
    ((st.applyOp op).2.1.isFail = true → (st.applyOp op).1.curDead = true ∧ RInv (st.applyOp op).1 (st.pendOf op) (st.pendOf op)) ∧
    ((st.applyOp op).2.1.isFail = false → RInv (st.applyOp op).1 (st.pendOf op) []) := by
  cases op with
  | send size =>
    simp only [St.applyOp]
    cases hd : st.curDead with
    | true =>
      rw [write_dead st _ hd]
      exact ⟨Same.rfl' st, fun _ => ⟨hd, h⟩, fun hne => by simp [Raw.isFail] at hne⟩
    | false =>
      cases hk : st.clientStreams with
      | true =>
        have h' : RInv st (st.pendOf (.send size)) (Wire.msg (if size = 0 then 0 else st.seq) size :: []) := by
          simpa [St.pendOf, hk] using h
        obtain ⟨hi, _, hs⟩ := write_alive_rinv st _ _ [] hd h'
        have hw := (write_alive st (Wire.msg (if size = 0 then 0 else st.seq) size) hd).2
        simp only [hw, Bool.not_true, Bool.false_eq_true, if_false, if_true]
        exact ⟨hs, fun hc => by simp [Raw.isFail] at hc, fun _ => hi⟩
      | false =>
        have h' : RInv st (st.pendOf (.send size)) (Wire.msg (if size = 0 then 0 else st.seq) size :: [Wire.half]) := by
          simpa [St.pendOf, hk] using h
        obtain ⟨hi, hd1, hs1⟩ := write_alive_rinv st _ _ [Wire.half] hd h'
        obtain ⟨hi2, _, hs2⟩ := write_alive_rinv _ Wire.half _ [] hd1 hi
        have hw := (write_alive st (Wire.msg (if size = 0 then 0 else st.seq) size) hd).2
        simp only [hw, Bool.not_true, Bool.false_eq_true, if_false]
        exact ⟨hs1.trans hs2, fun hc => by simp [Raw.isFail] at hc, fun _ => hi2⟩
  | half =>
    simp only [St.applyOp]
    cases hd : st.curDead with
    | true =>
      rw [write_dead st _ hd]
      refine ⟨Same.rfl' st, fun hc => by simp [Raw.isFail] at hc, fun _ => ?_⟩
      refine ⟨h.buf, h.pre, ?_, h.once⟩
      intro a hc had
      have : st.curDead = false := (curDead_false_iff st).mpr ⟨a, hc, had⟩
      rw [hd] at this; cases this
    | false =>
      have h' : RInv st (st.pendOf .half) (Wire.half :: []) := by simpa [St.pendOf] using h
      obtain ⟨hi, _, hs⟩ := write_alive_rinv st _ _ [] hd h'
      exact ⟨hs, fun hc => by simp [Raw.isFail] at hc, fun _ => hi⟩
  | recv =>
    have hr := react_rinv st _ _ h
    have hsr := react_same st
    simp only [St.applyOp]
    cases hc : ({ st with atts := react st.atts } : St).cur with
    | none => exact ⟨hsr, fun hf => by simp [Raw.isFail] at hf, fun _ => ⟨hr.buf, hr.pre, hr.cur, hr.once⟩⟩
    | some a =>
      simp only
      cases had : a.dead with
      | false => exact ⟨hsr, fun hf => by simp [Raw.isFail] at hf, fun _ => ⟨hr.buf, hr.pre, hr.cur, hr.once⟩⟩
      | true =>
        have hcd := react_cur_dead st a hc had
        have hupd := updCur_rinv _ (fun a => { a with respRead := 1 }) _ _ hr (fun _ => rfl)
          (fun a hd => by simpa [Att.dead] using hd)
        have hupds := hsr.trans (updCur_same _ (fun a => { a with respRead := 1 }))
        simp only [Bool.not_true, Bool.false_eq_true, if_false]
        repeat' (first | split_ifs | split)
        all_goals
          refine ⟨?_, ?_, ?_⟩
          · first
              | exact hsr
              | exact hupds.trans ⟨rfl, rfl, rfl, rfl, rfl, rfl, rfl, rfl, rfl, rfl, rfl⟩
          · intro hf
            first
              | (simp [Raw.isFail] at hf; done)
              | exact ⟨hcd, hr⟩
          · intro hf
            first
              | (simp [Raw.isFail] at hf; done)
              | exact ⟨hr.buf, hr.pre, hr.cur, hr.once⟩
              | exact ⟨hupd.buf, hupd.pre, hupd.cur, hupd.once⟩
  | header =>
    have hr := react_rinv st _ _ h
    have hsr := react_same st
    simp only [St.applyOp]
    cases hc : ({ st with atts := react st.atts } : St).cur with
    | none => exact ⟨hsr, fun hf => by simp [Raw.isFail] at hf, fun _ => ⟨hr.buf, hr.pre, hr.cur, hr.once⟩⟩
    | some a =>
      simp only
      cases had : a.dead with
      | false => exact ⟨hsr, fun hf => by simp [Raw.isFail] at hf, fun _ => ⟨hr.buf, hr.pre, hr.cur, hr.once⟩⟩
      | true =>
        have hcd := react_cur_dead st a hc had
        simp only [Bool.not_true, Bool.false_eq_true, if_false]
        repeat' (first | split_ifs | split)
        all_goals
          refine ⟨hsr, ?_, ?_⟩
          · intro hf
            first
              | (simp [Raw.isFail] at hf; done)
              | exact ⟨hcd, hr⟩
          · intro hf
            first
              | (simp [Raw.isFail] at hf; done)
              | exact ⟨hr.buf, hr.pre, hr.cur, hr.once⟩

/-! ### retryLocked pieces -/

theorem rinv_dead_pc (st : St) (pb pc pc' : List Wire) (hd : st.curDead = true) (h : RInv st pb pc) : RInv st pb pc' := by
  refine ⟨h.buf, h.pre, ?_, h.once⟩
  intro a hc had
  have : st.curDead = false := (curDead_false_iff st).mpr ⟨a, hc, had⟩
  rw [hd] at this; cases this

theorem rinv_committed_pb (st : St) (pb pb' pc : List Wire) (hc : st.cs.committed = true) (h : RInv st pb pc) : RInv st pb' pc := by
  refine ⟨?_, h.pre, h.cur, ?_⟩
  · intro hf; rw [hc] at hf; cases hf
  · intro hf; rw [hc] at hf; cases hf

/-- `onSuccess` after the op's item went out (or was refused by an OK-closed stream). -/
theorem onSuccess_rinv (st st1 : St) (op : COp) (pc : List Wire) (hs : Same st st1)
    (h : RInv st1 (st.pendOf op) pc) : RInv (st1.onSuccess op) [] pc := by
  cases op with
  | send size =>
    simp only [St.onSuccess]
    apply buffer_rinv _ _ _ _ (by simp)
    simpa [wireOf, St.pendOf, hs.seq, hs.cstr] using h
  | half =>
    simp only [St.onSuccess]
    apply buffer_rinv _ _ _ _ (by simp)
    simpa [wireOf, St.pendOf] using h
  | recv => exact commit_rinv _ _ _ h []
  | header => exact commit_rinv _ _ _ h []

theorem finishAttempt_same (st : St) (code : Nat) : Same st (st.finishAttempt code) := updCur_same st _

theorem curDead_true_iff (st : St) : st.curDead = true ↔ ∀ a, st.cur = some a → a.dead = true := by
  unfold St.curDead
  cases st.cur with
  | none => simp
  | some a => simp

theorem finishAttempt_keeps_dead (st : St) (code : Nat) (h : st.curDead = true) : (st.finishAttempt code).curDead = true := by
  unfold St.finishAttempt
  cases hc : st.cur with
  | none => rw [updCur_none st _ hc]; exact h
  | some a =>
    have had := (curDead_true_iff st).mp h a hc
    simp only [St.curDead, updCur_cur st _ a hc]
    split_ifs
    · exact had
    · simpa [Att.dead] using had

theorem cs_swap_rinv (st : St) (cs' : CS) (pb pc : List Wire) (h : RInv st pb pc) (hc : cs'.committed = st.cs.committed) :
    RInv { st with cs := cs' } pb pc :=
  ⟨fun hf => h.buf (hc ▸ hf), h.pre, h.cur, fun hf hs => h.once (hc ▸ hf) hs⟩

/-- everything but `cs` and the attempts' bookkeeping is kept by the decision step -/
structure SameD (st st' : St) : Prop where
  committed : st'.cs.committed = st.cs.committed
  replay : st'.replay = st.replay
  hist : st'.hist = st.hist
  cstr : st'.clientStreams = st.clientStreams
  started : st'.started = st.started
  seq : st'.seq = st.seq
  pol : st'.pol = st.pol
  dis : st'.disableRetry = st.disableRetry
  maxBuf : st'.maxBuf = st.maxBuf
  rsize : st'.replaySize = st.replaySize
  len : st'.atts.length = st.atts.length

theorem decideRetry_rinv (st : St) (raw : Raw) (pb pc : List Wire) (h : RInv st pb pc) (hd : st.curDead = true) :
    RInv (st.decideRetry raw).1 pb pc ∧ (st.decideRetry raw).1.curDead = true ∧ SameD st (st.decideRetry raw).1 := by
  have h2 := finishAttempt_rinv st raw.code pb pc h
  have hd2 := finishAttempt_keeps_dead st raw.code hd
  have hs2 := finishAttempt_same st raw.code
  simp only [St.decideRetry]
  split
  · exact ⟨h2, hd2, ⟨by rw [hs2.cs], hs2.replay, hs2.hist, hs2.cstr, hs2.started, hs2.seq, hs2.pol, hs2.dis, hs2.maxBuf, hs2.rsize, hs2.len⟩⟩
  next a hc =>
    have hf := sr_other_fields (st.finishAttempt raw.code).disableRetry
      (st.finishAttempt raw.code).pol
      (st.finishAttempt raw.code).cs (attemptView a) 0
    refine ⟨cs_swap_rinv _ _ pb pc h2 hf.2.2.1, ?_, ⟨?_, hs2.replay, hs2.hist, hs2.cstr, hs2.started, hs2.seq, hs2.pol, hs2.dis, hs2.maxBuf, hs2.rsize, hs2.len⟩⟩
    · simpa [St.curDead, St.cur] using hd2
    · simp only; rw [hf.2.2.1, hs2.cs]

theorem afterDecision_committed (cs : CS) (d : Decision) : (afterDecision cs d).committed = cs.committed := by
  cases d <;> rfl

theorem wireOf_start (c : Bool) (r : List ROp) : wireOf c (.start :: r) = wireOf c r := rfl

theorem startsOnce_split (r : List ROp) (h : startsOnce r = true) : ∃ rest, r = .start :: rest ∧ rest.contains .start = false := by
  cases r with
  | nil => simp [startsOnce] at h
  | cons o r =>
    cases o with
    | start => exact ⟨r, rfl, by simpa [startsOnce] using h⟩
    | msg q z => simp [startsOnce] at h
    | half => simp [startsOnce] at h

/-- a retry: the new attempt carries exactly the buffer, i.e. the application's history before the op. -/
theorem startRetry_rinv (st : St) (d : Decision) (pb pc : List Wire) (h : RInv st pb pc)
    (hu : st.cs.committed = false) (hst : st.started = true) :
    RInv (st.startRetry d).1 pb pb ∧ (st.startRetry d).1.curDead = false ∧
    (∃ a, (st.startRetry d).1.atts = st.atts ++ [a] ∧ a.log = wireOf st.clientStreams st.replay ∧ a.prev = (afterDecision st.cs d).numRetries) ∧
    (st.startRetry d).1.cs = afterDecision st.cs d ∧
    (st.startRetry d).1.replay = st.replay ∧ (st.startRetry d).1.hist = st.hist ∧
    (st.startRetry d).1.clientStreams = st.clientStreams ∧ (st.startRetry d).1.started = st.started ∧
    (st.startRetry d).1.seq = st.seq ∧ (st.startRetry d).1.pol = st.pol ∧ (st.startRetry d).1.disableRetry = st.disableRetry ∧
    (st.startRetry d).1.maxBuf = st.maxBuf ∧ (st.startRetry d).1.replaySize = st.replaySize := by
  obtain ⟨rest, hr, hns⟩ := startsOnce_split st.replay (h.once hu hst)
  unfold St.startRetry
  have hspec := replayAll_spec { st with cs := afterDecision st.cs d } rest hr hns
  rw [hspec]
  have hbuf := h.buf hu
  refine ⟨⟨?_, ?_, ?_, ?_⟩, ?_, ⟨_, rfl, ?_, rfl⟩, rfl, rfl, rfl, rfl, rfl, rfl, rfl, rfl, rfl, rfl⟩
  · intro _; exact hbuf
  · intro x hx
    simp only [List.mem_append, List.mem_singleton] at hx
    rcases hx with hx | hx
    · exact h.pre x hx
    · subst hx
      simp only
      rw [← hbuf, hr, wireOf_start]
      exact ⟨pb, rfl⟩
  · intro x hx _
    simp only [St.cur, List.getLast?_append, List.getLast?_singleton, Option.some_or, Option.some.injEq] at hx
    subst hx
    simp only
    rw [← hbuf, hr, wireOf_start]
  · intro hf hs; simp only at hf hs; exact h.once hu hst
  · simp [St.curDead, St.cur, Att.dead, freshAtt]
  · simp only; rw [hr, wireOf_start]


end GrpcProofs.Lemmas.RetryLoop
