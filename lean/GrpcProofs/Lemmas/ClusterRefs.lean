import GrpcModel.Model.ClusterRefs
/-! Helper lemmas for C51 (model: GrpcModel/Model/ClusterRefs.lean). -/
namespace GrpcProofs.Lemmas.ClusterRefs
open GrpcModel.ClusterRefs

/-! ### the active-cluster table -/

def names (a : List Info) : List Name := a.map (·.name)
def rc (a : List Info) (c : Name) : Nat := ((findInfo a c).map (·.refCount)).getD 0

theorem findInfo_nil (c : Name) : findInfo [] c = none := rfl

theorem findInfo_cons (i : Info) (a : List Info) (c : Name) :
    findInfo (i :: a) c = if i.name = c then some i else findInfo a c := by
  unfold findInfo
  rw [List.find?_cons]
  by_cases h : i.name = c
  · have : (i.name == c) = true := by simp [h]
    rw [this]; simp [h]
  · have : (i.name == c) = false := by simp [h]
    rw [this]; simp [h]

theorem findInfo_none_iff (a : List Info) (c : Name) : findInfo a c = none ↔ c ∉ names a := by
  induction a with
  | nil => simp [findInfo_nil, names]
  | cons i a ih =>
    rw [findInfo_cons]
    by_cases h : i.name = c
    · simp [h, names]
    · have h' : ¬ c = i.name := fun e => h e.symm
      simp only [h, if_false, ih, names, List.map_cons, List.mem_cons, h', false_or]

theorem findInfo_some_name {a : List Info} {c : Name} {i : Info} (h : findInfo a c = some i) : i.name = c ∧ i ∈ a := by
  induction a with
  | nil => simp [findInfo_nil] at h
  | cons x a ih =>
    rw [findInfo_cons] at h
    by_cases hx : x.name = c
    · simp [hx] at h; subst h; exact ⟨hx, by simp⟩
    · simp [hx] at h
      exact ⟨(ih h).1, by simp [(ih h).2]⟩

theorem names_modify (a : List Info) (c : Name) (f : Info → Info) (hf : ∀ i, (f i).name = i.name) :
    names (modifyInfo a c f) = names a := by
  unfold names modifyInfo
  rw [List.map_map]
  apply List.map_congr_left
  intro i _
  simp only [Function.comp]
  split <;> simp [hf]

theorem findInfo_modify (a : List Info) (c x : Name) (f : Info → Info) (hf : ∀ i, (f i).name = i.name) :
    findInfo (modifyInfo a c f) x = if x = c then (findInfo a c).map f else findInfo a x := by
  induction a with
  | nil => simp [modifyInfo, findInfo_nil]
  | cons i a ih =>
    have hm : modifyInfo (i :: a) c f = (if i.name = c then f i else i) :: modifyInfo a c f := by simp [modifyInfo]
    rw [hm, findInfo_cons, ih]
    by_cases hic : i.name = c
    · simp only [hic, if_true, hf]
      by_cases hx : x = c
      · subst hx; simp [findInfo_cons, hic]
      · have : ¬ c = x := fun e => hx e.symm
        simp [hx, this, findInfo_cons, hic]
    · simp only [hic, if_false]
      by_cases hx : x = c
      · subst hx; simp [findInfo_cons, hic]
      · by_cases hix : i.name = x
        · simp [hix, hx, findInfo_cons]
        · simp [hix, hx, findInfo_cons]

theorem rc_modify (a : List Info) (c x : Name) (f : Info → Info) (hf : ∀ i, (f i).name = i.name) :
    rc (modifyInfo a c f) x = if x = c then ((findInfo a c).map (fun i => (f i).refCount)).getD 0 else rc a x := by
  unfold rc
  rw [findInfo_modify a c x f hf]
  split
  · cases findInfo a c <;> simp
  · rfl

theorem rc_incr (a : List Info) (c x : Name) (h : c ∈ names a) :
    rc (modifyInfo a c incr) x = if x = c then rc a c + 1 else rc a x := by
  rw [rc_modify a c x incr (fun _ => rfl)]
  split
  · cases hf : findInfo a c with
    | none => exact absurd h ((findInfo_none_iff a c).mp hf)
    | some i => simp [rc, hf, incr]
  · rfl

theorem rc_decr (a : List Info) (c x : Name) :
    rc (modifyInfo a c decr) x = if x = c then rc a c - 1 else rc a x := by
  rw [rc_modify a c x decr (fun _ => rfl)]
  split
  · cases hf : findInfo a c with
    | none => simp [rc, hf]
    | some i => simp [rc, hf, decr]
  · rfl

theorem rc_markSpent (a : List Info) (c x : Name) : rc (modifyInfo a c markSpent) x = rc a x := by
  rw [rc_modify a c x markSpent (fun _ => rfl)]
  split
  · rename_i h; subst h
    cases hf : findInfo a x with
    | none => simp [rc, hf]
    | some i => simp [rc, hf, markSpent]
  · rfl

theorem rc_of_not_mem (a : List Info) (c : Name) (h : c ∉ names a) : rc a c = 0 := by
  simp [rc, (findInfo_none_iff a c).mpr h]

theorem findInfo_append (a : List Info) (i : Info) (x : Name) :
    findInfo (a ++ [i]) x = match findInfo a x with
      | some j => some j
      | none => if i.name = x then some i else none := by
  induction a with
  | nil => simp [findInfo_cons, findInfo_nil]
  | cons y a ih =>
    simp only [List.cons_append, findInfo_cons]
    by_cases h : y.name = x <;> simp [h, ih]

theorem rc_append_new (a : List Info) (c x : Name) (h : c ∉ names a) :
    rc (a ++ [{ name := c, refCount := 1, spent := false }]) x = if x = c then 1 else rc a x := by
  unfold rc
  rw [findInfo_append]
  by_cases hx : x = c
  · subst hx
    simp [(findInfo_none_iff a x).mpr h]
  · have : ¬ c = x := fun e => hx e.symm
    cases findInfo a x <;> simp [hx, this]

theorem rc_filter (a : List Info) (x : Name) (hnd : (names a).Nodup) :
    rc (a.filter (fun i => i.refCount ≠ 0)) x = rc a x := by
  induction a with
  | nil => rfl
  | cons i a ih =>
    have hnd' : (names a).Nodup := by simp [names] at hnd ⊢; exact hnd.2
    have hni : i.name ∉ names a := by simp [names] at hnd ⊢; exact hnd.1
    rw [List.filter_cons]
    by_cases hr : i.refCount = 0
    · simp only [hr, ne_eq, not_true_eq_false, decide_false, Bool.false_eq_true, if_false]
      rw [ih hnd']
      unfold rc
      rw [findInfo_cons]
      by_cases hx : i.name = x
      · subst hx
        simp [(findInfo_none_iff a i.name).mpr hni, hr]
      · simp [hx]
    · simp only [hr, ne_eq, not_false_eq_true, decide_true, if_true]
      unfold rc at ih ⊢
      rw [findInfo_cons, findInfo_cons]
      by_cases hx : i.name = x
      · simp [hx]
      · simp only [hx, if_false]; exact ih hnd'

theorem names_filter_mem (a : List Info) (x : Name) (hnd : (names a).Nodup) :
    x ∈ names (a.filter (fun i => i.refCount ≠ 0)) ↔ x ∈ names a ∧ rc a x ≠ 0 := by
  induction a with
  | nil => simp [names]
  | cons i a ih =>
    have hnd' : (names a).Nodup := by simp [names] at hnd ⊢; exact hnd.2
    have hni : i.name ∉ names a := by simp [names] at hnd ⊢; exact hnd.1
    rw [List.filter_cons]
    unfold rc
    rw [findInfo_cons]
    by_cases hr : i.refCount = 0
    · simp only [hr, ne_eq, not_true_eq_false, decide_false, Bool.false_eq_true, if_false]
      rw [ih hnd']
      by_cases hx : i.name = x
      · subst hx
        simp only [if_true, Option.map_some, Option.getD_some, hr, ne_eq, not_true_eq_false, and_false, iff_false]
        exact fun h => hni h.1
      · have : ¬ x = i.name := fun e => hx e.symm
        simp [names, hx, this, rc]
    · simp only [hr, ne_eq, not_false_eq_true, decide_true, if_true]
      by_cases hx : i.name = x
      · subst hx; simp [names, hr]
      · have : ¬ x = i.name := fun e => hx e.symm
        have ih' := ih hnd'
        simp only [names, List.map_cons, List.mem_cons, this, false_or, hx, if_false] at ih' ⊢
        simpa [rc] using ih'

theorem nodup_filter (a : List Info) (p : Info → Bool) (hnd : (names a).Nodup) : (names (a.filter p)).Nodup := by
  unfold names at *
  exact (List.Nodup.sublist (List.Sublist.map _ List.filter_sublist) hnd)


/-! ### frames: what the helper functions leave alone -/

/-- the fields the dependency-manager side never touches -/
structure Same (s s' : State) : Prop where
  cur : s'.cur = s.cur
  rpcs : s'.rpcs = s.rpcs
  commits : s'.commits = s.commits
  sc : s'.pushedSC = s.pushedSC
  static : s'.static = s.static

theorem Same.refl (s : State) : Same s s := ⟨rfl, rfl, rfl, rfl, rfl⟩
theorem Same.trans {a b c : State} (h1 : Same a b) (h2 : Same b c) : Same a c :=
  ⟨h2.cur.trans h1.cur, h2.rpcs.trans h1.rpcs, h2.commits.trans h1.commits, h2.sc.trans h1.sc, h2.static.trans h1.static⟩

theorem sendUpdate_frame (s : State) : (sendUpdate s).active = s.active ∧ Same s (sendUpdate s) :=
  ⟨rfl, ⟨rfl, rfl, rfl, rfl, rfl⟩⟩

theorem unsubscribeDM_frame (s : State) (c : Name) : (unsubscribeDM s c).active = s.active ∧ Same s (unsubscribeDM s c) := by
  unfold unsubscribeDM
  dsimp only
  split
  · exact ⟨rfl, ⟨rfl, rfl, rfl, rfl, rfl⟩⟩
  · exact ⟨rfl, ⟨rfl, rfl, rfl, rfl, rfl⟩⟩

theorem subscribe_frame (s : State) (c : Name) : (subscribe s c).active = s.active ∧ Same s (subscribe s c) := by
  unfold subscribe
  dsimp only
  split
  · exact ⟨rfl, ⟨rfl, rfl, rfl, rfl, rfl⟩⟩
  · exact ⟨rfl, ⟨rfl, rfl, rfl, rfl, rfl⟩⟩

theorem unsubscribe_frame (s : State) (c : Name) :
    names (unsubscribe s c).active = names s.active ∧ (∀ x, rc (unsubscribe s c).active x = rc s.active x) ∧
    Same s (unsubscribe s c) := by
  unfold unsubscribe
  split
  · exact ⟨rfl, fun _ => rfl, Same.refl s⟩
  · split
    · exact ⟨rfl, fun _ => rfl, Same.refl s⟩
    · obtain ⟨ha, hs⟩ := unsubscribeDM_frame { s with active := modifyInfo s.active c markSpent } c
      refine ⟨?_, ?_, ?_⟩
      · rw [ha]; exact names_modify _ _ _ (fun _ => rfl)
      · intro x; rw [ha]; exact rc_markSpent _ _ _
      · exact Same.trans (a := s) (b := { s with active := modifyInfo s.active c markSpent }) ⟨rfl, rfl, rfl, rfl, rfl⟩ hs

theorem release_frame (s : State) (c : Name) :
    names (release s c).active = names s.active ∧
    (∀ x, rc (release s c).active x = if x = c then rc s.active c - 1 else rc s.active x) ∧
    Same s (release s c) := by
  unfold release
  split
  · rename_i hf
    refine ⟨rfl, ?_, Same.refl s⟩
    intro x
    split
    · rename_i hx; subst hx; simp [rc, hf]
    · rfl
  · dsimp only
    have hn : names (modifyInfo s.active c decr) = names s.active := names_modify _ _ _ (fun _ => rfl)
    split
    · obtain ⟨h1, h2, h3⟩ := unsubscribe_frame { s with active := modifyInfo s.active c decr } c
      refine ⟨h1.trans hn, ?_, Same.trans (a := s) (b := { s with active := modifyInfo s.active c decr }) ⟨rfl, rfl, rfl, rfl, rfl⟩ h3⟩
      intro x; rw [h2]; exact rc_decr _ _ _
    · exact ⟨hn, fun x => rc_decr _ _ _, ⟨rfl, rfl, rfl, rfl, rfl⟩⟩

theorem acquireCS_frame (s : State) (c : Name) :
    names (acquireCS s c).active = (if c ∈ names s.active then names s.active else names s.active ++ [c]) ∧
    (∀ x, rc (acquireCS s c).active x = if x = c then rc s.active c + 1 else rc s.active x) ∧
    Same s (acquireCS s c) := by
  unfold acquireCS
  split
  · rename_i i hf
    have hm : c ∈ names s.active := by
      by_cases h : c ∈ names s.active
      · exact h
      · have := (findInfo_none_iff s.active c).mpr h
        rw [hf] at this; cases this
    refine ⟨?_, ?_, ⟨rfl, rfl, rfl, rfl, rfl⟩⟩
    · simp only [hm, if_true]; exact names_modify _ _ _ (fun _ => rfl)
    · intro x; exact rc_incr _ _ _ hm
  · rename_i hf
    have hm : c ∉ names s.active := (findInfo_none_iff s.active c).mp hf
    obtain ⟨ha, hs⟩ := subscribe_frame s c
    dsimp only
    refine ⟨?_, ?_, Same.trans hs ⟨rfl, rfl, rfl, rfl, rfl⟩⟩
    · rw [if_neg hm, ha]; simp [names]
    · intro x
      rw [ha, rc_append_new _ _ _ hm]
      split
      · rw [rc_of_not_mem _ _ hm]
      · rfl

/-! ### folds over lists of clusters -/

def ind (b : Bool) : Nat := if b then 1 else 0

theorem foldl_unsubscribe_frame (l : List Name) (s : State) :
    names (l.foldl unsubscribe s).active = names s.active ∧ (∀ x, rc (l.foldl unsubscribe s).active x = rc s.active x) ∧
    Same s (l.foldl unsubscribe s) := by
  induction l generalizing s with
  | nil => exact ⟨rfl, fun _ => rfl, Same.refl s⟩
  | cons c l ih =>
    obtain ⟨a1, a2, a3⟩ := unsubscribe_frame s c
    obtain ⟨b1, b2, b3⟩ := ih (unsubscribe s c)
    exact ⟨b1.trans a1, fun x => (b2 x).trans (a2 x), Same.trans a3 b3⟩

theorem foldl_release_frame (l : List Name) (hl : l.Nodup) (s : State) :
    names (l.foldl release s).active = names s.active ∧
    (∀ x, rc (l.foldl release s).active x = rc s.active x - ind ((l).contains x)) ∧
    Same s (l.foldl release s) := by
  induction l generalizing s with
  | nil => exact ⟨rfl, fun x => by simp [ind], Same.refl s⟩
  | cons c l ih =>
    rw [List.nodup_cons] at hl
    obtain ⟨a1, a2, a3⟩ := release_frame s c
    obtain ⟨b1, b2, b3⟩ := ih hl.2 (release s c)
    refine ⟨b1.trans a1, ?_, Same.trans a3 b3⟩
    intro x
    simp only [List.foldl_cons]
    rw [b2 x, a2 x]
    by_cases hx : x = c
    · subst hx
      simp [ind, hl.1]
    · simp [ind, hx]

theorem foldl_acquire_frame (l : List Name) (hl : l.Nodup) (s : State) (hnd : (names s.active).Nodup) :
    (names (l.foldl acquireCS s).active).Nodup ∧
    (∀ x, x ∈ names (l.foldl acquireCS s).active ↔ x ∈ names s.active ∨ x ∈ l) ∧
    (∀ x, rc (l.foldl acquireCS s).active x = rc s.active x + ind ((l).contains x)) ∧
    Same s (l.foldl acquireCS s) := by
  induction l generalizing s with
  | nil => exact ⟨hnd, fun x => by simp, fun x => by simp [ind], Same.refl s⟩
  | cons c l ih =>
    rw [List.nodup_cons] at hl
    obtain ⟨a1, a2, a3⟩ := acquireCS_frame s c
    have hnd1 : (names (acquireCS s c).active).Nodup := by
      rw [a1]
      split
      · exact hnd
      · rename_i hm
        rw [List.nodup_append]
        refine ⟨hnd, by simp, ?_⟩
        intro x hx y hy
        simp at hy; subst hy
        exact fun e => hm (e ▸ hx)
    obtain ⟨b0, b1, b2, b3⟩ := ih hl.2 (acquireCS s c) hnd1
    refine ⟨b0, ?_, ?_, Same.trans a3 b3⟩
    · intro x
      simp only [List.foldl_cons]
      rw [b1 x, a1]
      split
      · rename_i hm
        simp only [List.mem_cons]
        constructor
        · rintro (h | h)
          · exact Or.inl h
          · exact Or.inr (Or.inr h)
        · rintro (h | h | h)
          · exact Or.inl h
          · subst h; exact Or.inl hm
          · exact Or.inr h
      · simp only [List.mem_append, List.mem_cons, List.not_mem_nil, or_false]
        constructor
        · rintro ((h | h) | h)
          · exact Or.inl h
          · exact Or.inr (Or.inl h)
          · exact Or.inr (Or.inr h)
        · rintro (h | h | h)
          · exact Or.inl (Or.inl h)
          · exact Or.inl (Or.inr h)
          · exact Or.inr h
    · intro x
      simp only [List.foldl_cons]
      rw [b2 x, a2 x]
      by_cases hx : x = c
      · subst hx
        simp [ind, hl.1]
      · simp [ind, hx]


theorem mem_dedup (l : List Name) (x : Name) : x ∈ dedup l ↔ x ∈ l := by
  induction l with
  | nil => simp [dedup]
  | cons a l ih =>
    simp only [dedup]
    split
    · rename_i h
      rw [ih]
      constructor
      · intro hx; exact List.mem_cons_of_mem _ hx
      · intro hx
        rcases List.mem_cons.mp hx with rfl | hx
        · exact h
        · exact hx
    · simp [ih]

theorem nodup_dedup (l : List Name) : (dedup l).Nodup := by
  induction l with
  | nil => simp [dedup]
  | cons a l ih =>
    simp only [dedup]
    split
    · exact ih
    · rename_i h
      rw [List.nodup_cons]
      exact ⟨fun hm => h ((mem_dedup l a).mp hm), ih⟩

/-! ### the reference-count invariant -/

def inflightCount (s : State) (c : Name) : Nat := (s.rpcs.filter (fun r => !r.committed && r.cluster == c)).length
def curList (s : State) : List Name := s.cur.getD []

structure Inv1 (s : State) : Prop where
  nd : (names s.active).Nodup
  eq : ∀ c, rc s.active c = ind ((curList s).contains c) + inflightCount s c
  curNd : (curList s).Nodup
  sc : ∀ c, rc s.active c ≠ 0 → c ∈ s.pushedSC
  idsNd : (s.rpcs.map (·.id)).Nodup
  commitsNd : s.commits.Nodup
  commitsOk : ∀ id ∈ s.commits, ∃ r ∈ s.rpcs, r.id = id ∧ r.committed = true

theorem inv1_init : Inv1 init := by
  constructor <;> simp [init, names, rc, findInfo_nil, ind, curList, inflightCount]

theorem inflightCount_same {s s' : State} (h : s'.rpcs = s.rpcs) (c : Name) : inflightCount s' c = inflightCount s c := by
  unfold inflightCount; rw [h]

theorem prune_frame (s : State) (hnd : (names s.active).Nodup) :
    (names (prune s).active).Nodup ∧
    (∀ x, x ∈ names (prune s).active ↔ x ∈ names s.active ∧ rc s.active x ≠ 0) ∧
    (∀ x, rc (prune s).active x = rc s.active x) ∧ Same s (prune s) := by
  unfold prune
  dsimp only
  obtain ⟨h1, h2, h3⟩ := foldl_unsubscribe_frame ((s.active.filter (·.refCount = 0)).map (·.name)) s
  have hnd' : (names (List.foldl unsubscribe s ((s.active.filter (·.refCount = 0)).map (·.name))).active).Nodup := by rw [h1]; exact hnd
  refine ⟨nodup_filter _ _ hnd', ?_, ?_, Same.trans h3 ⟨rfl, rfl, rfl, rfl, rfl⟩⟩
  · intro x
    have := names_filter_mem _ x hnd'
    simp only [ne_eq, decide_not] at this ⊢
    rw [this, h1, h2]
  · intro x
    have := rc_filter _ x hnd'
    simp only [ne_eq, decide_not] at this ⊢
    rw [this, h2]

theorem stopOld_frame (s : State) (hc : (curList s).Nodup) :
    names (stopOld s).active = names s.active ∧
    (∀ x, rc (stopOld s).active x = rc s.active x - ind ((curList s).contains x)) ∧ Same s (stopOld s) := by
  unfold stopOld
  cases h : s.cur with
  | none => exact ⟨rfl, fun x => by simp [curList, h, ind], Same.refl s⟩
  | some old =>
    have : curList s = old := by simp [curList, h]
    rw [this] at hc ⊢
    exact foldl_release_frame old hc s

theorem deliver_inv1 (s : State) (hi : Inv1 s) : Inv1 (deliver s) := by
  unfold deliver
  split
  · exact hi
  · rename_i u rest hq
    dsimp only
    have hr := nodup_dedup u.route
    obtain ⟨a0, a1, a2, a3⟩ := foldl_acquire_frame (dedup u.route) hr { s with queue := rest } hi.nd
    generalize List.foldl acquireCS { s with queue := rest } (dedup u.route) = s1 at a0 a1 a2 a3
    obtain ⟨b0, b1, b2, b3⟩ := prune_frame s1 a0
    generalize prune s1 = s2 at b0 b1 b2 b3
    have hcur : s2.cur = s.cur := by rw [b3.cur, a3.cur]
    have hrpcs : s2.rpcs = s.rpcs := by rw [b3.rpcs, a3.rpcs]
    have hcommits : s2.commits = s.commits := by rw [b3.commits, a3.commits]
    have hrc2 : ∀ x, rc s2.active x = rc s.active x + ind ((dedup u.route).contains x) := by
      intro x; rw [b2, a2]
    have hcl3 : curList (pushConfig s2 u) = curList s := by simp [curList, pushConfig, hcur]
    obtain ⟨c1, c2, c3⟩ := stopOld_frame (pushConfig s2 u) (by rw [hcl3]; exact hi.curNd)
    generalize stopOld (pushConfig s2 u) = s4 at c1 c2 c3
    have e1 : (pushConfig s2 u).active = s2.active := rfl
    have e2 : (pushConfig s2 u).rpcs = s2.rpcs := rfl
    have e3 : (pushConfig s2 u).commits = s2.commits := rfl
    have e4 : (pushConfig s2 u).pushedSC = names s2.active := rfl
    rw [e1] at c1 c2
    rw [hcl3] at c2
    constructor
    · simp only; rw [c1]; exact b0
    · intro c
      simp only [curList, Option.getD_some, inflightCount]
      rw [c2 c, hrc2 c, c3.rpcs, e2, hrpcs]
      have := hi.eq c
      simp only [inflightCount] at this ⊢
      by_cases h1 : c ∈ dedup u.route <;> by_cases h2 : c ∈ curList s <;> simp only [ind, h1, h2, if_true, if_false] at this ⊢ <;> omega
    · simpa [curList] using hr
    · intro c hne
      simp only at hne ⊢
      rw [c3.sc, e4]
      rw [c2 c] at hne
      have hne2 : rc s2.active c ≠ 0 := by omega
      by_cases h : c ∈ names s2.active
      · exact h
      · exact absurd (rc_of_not_mem _ _ h) hne2
    · simp only; rw [c3.rpcs, e2, hrpcs]; exact hi.idsNd
    · simp only; rw [c3.commits, e3, hcommits]; exact hi.commitsNd
    · simp only; rw [c3.commits, c3.rpcs, e2, e3, hcommits, hrpcs]; exact hi.commitsOk


/-! ### select / commit -/

def markCommitted (id : Nat) (x : Rpc) : Rpc := if x.id == id then { x with committed := true } else x

theorem ids_markCommitted (rpcs : List Rpc) (id : Nat) : (rpcs.map (markCommitted id)).map (·.id) = rpcs.map (·.id) := by
  rw [List.map_map]
  apply List.map_congr_left
  intro x _
  simp only [Function.comp, markCommitted]
  split <;> rfl

theorem find_mem {rpcs : List Rpc} {id : Nat} {r : Rpc} (h : rpcs.find? (·.id == id) = some r) : r ∈ rpcs ∧ r.id = id := by
  have h1 := List.mem_of_find?_eq_some h
  have h2 := List.find?_some h
  exact ⟨h1, by simpa using h2⟩

theorem count_markCommitted (rpcs : List Rpc) (r : Rpc) (x : Name) (hnd : (rpcs.map (·.id)).Nodup)
    (hm : r ∈ rpcs) (hu : r.committed = false) :
    ((rpcs.map (markCommitted r.id)).filter (fun q => !q.committed && q.cluster == x)).length + ind (r.cluster == x)
      = (rpcs.filter (fun q => !q.committed && q.cluster == x)).length := by
  induction rpcs with
  | nil => simp at hm
  | cons a rpcs ih =>
    simp only [List.map_cons, List.nodup_cons] at hnd
    rcases List.mem_cons.mp hm with rfl | hm'
    · -- the head is r; the tail has no rpc with this id
      have htail : rpcs.map (markCommitted r.id) = rpcs := by
        have hq : ∀ q ∈ rpcs, markCommitted r.id q = id q := by
          intro q hq
          have : q.id ≠ r.id := fun e => hnd.1 (by rw [← e]; exact List.mem_map_of_mem hq)
          have hb : (q.id == r.id) = false := by simp [this]
          unfold markCommitted
          rw [hb]; rfl
        rw [List.map_congr_left hq, List.map_id]
      simp only [List.map_cons, htail, List.filter_cons, markCommitted, beq_self_eq_true, if_true, hu]
      by_cases hx : r.cluster = x <;> simp [ind, hx]
    · have hne : a.id ≠ r.id := fun e => hnd.1 (by rw [e]; exact List.mem_map_of_mem hm')
      have ha : markCommitted r.id a = a := by simp [markCommitted, hne]
      have := ih hnd.2 hm'
      simp only [List.map_cons, ha, List.filter_cons]
      split <;> (try simp only [List.length_cons]) <;> omega

theorem rpc_unique (l : List Rpc) (hnd : (l.map (·.id)).Nodup) (q r : Rpc) (hq : q ∈ l) (hr : r ∈ l) (h : q.id = r.id) : q = r := by
  induction l with
  | nil => simp at hq
  | cons z zs ih =>
    simp only [List.map_cons, List.nodup_cons] at hnd
    rcases List.mem_cons.mp hq with rfl | hq'
    · rcases List.mem_cons.mp hr with h' | hr'
      · exact h'.symm
      · exact absurd (by rw [h]; exact List.mem_map_of_mem hr') hnd.1
    · rcases List.mem_cons.mp hr with rfl | hr'
      · exact absurd (by rw [← h]; exact List.mem_map_of_mem hq') hnd.1
      · exact ih hnd.2 hq' hr'

theorem step_inv1 (s : State) (o : Op) (hi : Inv1 s) : Inv1 (step s o) := by
  cases o with
  | rds r =>
    simp only [step]
    obtain ⟨ha, hs⟩ := sendUpdate_frame { s with static := dedup r }
    constructor
    · rw [ha]; exact hi.nd
    · intro c; rw [ha]; simp only [curList, inflightCount, hs.cur, hs.rpcs]; exact hi.eq c
    · simp only [curList, hs.cur]; exact hi.curNd
    · intro c h; rw [ha] at h; rw [hs.sc]; exact hi.sc c h
    · rw [hs.rpcs]; exact hi.idsNd
    · rw [hs.commits]; exact hi.commitsNd
    · rw [hs.commits, hs.rpcs]; exact hi.commitsOk
  | deliver => exact deliver_inv1 s hi
  | regen =>
    simp only [step]
    obtain ⟨b0, b1, b2, b3⟩ := prune_frame s hi.nd
    generalize prune s = s2 at b0 b1 b2 b3
    constructor
    · exact b0
    · intro c
      simp only [curList, inflightCount, b3.cur, b3.rpcs]
      rw [b2 c]; exact hi.eq c
    · simp only [curList, b3.cur]; exact hi.curNd
    · intro c hne
      simp only at hne ⊢
      by_cases h : c ∈ names s2.active
      · exact h
      · exact absurd (rc_of_not_mem _ _ h) hne
    · simp only; rw [b3.rpcs]; exact hi.idsNd
    · simp only; rw [b3.commits]; exact hi.commitsNd
    · simp only; rw [b3.commits, b3.rpcs]; exact hi.commitsOk
  | select id c =>
    simp only [step]
    split
    · exact hi
    · rename_i hid
      cases hc : s.cur with
      | none => exact hi
      | some cl =>
        simp only
        split
        · rename_i hcc
          cases hf : findInfo s.active c with
          | none => exact hi
          | some i =>
            simp only
            have hcm : c ∈ names s.active := by
              by_cases h : c ∈ names s.active
              · exact h
              · have := (findInfo_none_iff s.active c).mpr h
                rw [hf] at this; cases this
            have hccur : c ∈ curList s := by simpa [curList, hc] using hcc
            constructor
            · simp only; rw [names_modify s.active c incr (fun _ => rfl)]; exact hi.nd
            · intro x
              simp only [curList, inflightCount, hc, Option.getD_some, List.filter_append, List.length_append]
              rw [rc_incr _ _ _ hcm]
              have := hi.eq x
              simp only [curList, inflightCount, hc, Option.getD_some] at this
              by_cases hcl : x ∈ cl <;> by_cases hx : x = c
              · subst hx; simp [List.filter, ind, hcl] at this ⊢; omega
              · have hx' : (c == x) = false := by simp; exact fun e => hx e.symm
                simp [List.filter, hx, hx', ind, hcl] at this ⊢; omega
              · subst hx; simp [List.filter, ind, hcl] at this ⊢; omega
              · have hx' : (c == x) = false := by simp; exact fun e => hx e.symm
                simp [List.filter, hx, hx', ind, hcl] at this ⊢; omega
            · simp only [curList, hc]; simpa [curList, hc] using hi.curNd
            · intro x hne
              simp only at hne ⊢
              rw [rc_incr _ _ _ hcm] at hne
              by_cases hx : x = c
              · subst hx
                apply hi.sc
                have := hi.eq x
                have hcb : (curList s).contains x = true := by simpa using hccur
                simp only [ind, hcb, if_true] at this
                omega
              · simp only [hx, if_false] at hne
                exact hi.sc x hne
            · simp only [List.map_append, List.map_cons, List.map_nil]
              rw [List.nodup_append]
              refine ⟨hi.idsNd, by simp, ?_⟩
              intro a ha b hb
              simp at hb; subst hb
              intro e; subst e
              apply hid
              simp only [List.any_eq_true, beq_iff_eq]
              obtain ⟨q, hq, hqe⟩ := List.mem_map.mp ha
              exact ⟨q, hq, hqe⟩
            · exact hi.commitsNd
            · intro id' hid'
              obtain ⟨q, hq, h1, h2⟩ := hi.commitsOk id' hid'
              exact ⟨q, by simp [hq], h1, h2⟩
        · exact hi
  | commit id =>
    simp only [step]
    cases hf : s.rpcs.find? (·.id == id) with
    | none => exact hi
    | some r =>
      simp only
      split
      · exact hi
      · rename_i hu
        have hu' : r.committed = false := by simpa using hu
        obtain ⟨hrm, hrid⟩ := find_mem hf
        subst hrid
        have hmap : (s.rpcs.map fun x => if (x.id == r.id) = true then { x with committed := true } else x) = s.rpcs.map (markCommitted r.id) := rfl
        rw [hmap]
        obtain ⟨c1, c2, c3⟩ := release_frame { s with rpcs := s.rpcs.map (markCommitted r.id), commits := s.commits ++ [r.id] } r.cluster
        generalize release { s with rpcs := s.rpcs.map (markCommitted r.id), commits := s.commits ++ [r.id] } r.cluster = s' at c1 c2 c3
        simp only at c1 c2
        have hcur : s'.cur = s.cur := c3.cur
        have hrp : s'.rpcs = s.rpcs.map (markCommitted r.id) := c3.rpcs
        have hco : s'.commits = s.commits ++ [r.id] := c3.commits
        have hsc : s'.pushedSC = s.pushedSC := c3.sc
        constructor
        · rw [c1]; exact hi.nd
        · intro x
          rw [c2 x]
          simp only [curList, hcur, inflightCount, hrp]
          have h1 := count_markCommitted s.rpcs r x hi.idsNd hrm hu'
          have h2 := hi.eq x
          simp only [curList, inflightCount] at h2
          by_cases hx : x = r.cluster
          · subst hx
            have h0 : ind (r.cluster == r.cluster) = 1 := by simp [ind]
            rw [h0] at h1
            rw [if_pos rfl]
            omega
          · have hx' : (r.cluster == x) = false := by simp; exact fun e => hx e.symm
            rw [hx'] at h1
            simp only [ind, Bool.false_eq_true, if_false, Nat.add_zero] at h1
            rw [if_neg hx, h1]
            exact h2
        · simp only [curList, hcur]; exact hi.curNd
        · intro x hne
          rw [hsc]
          apply hi.sc
          rw [c2 x] at hne
          split at hne
          · rename_i hx; subst hx; omega
          · exact hne
        · rw [hrp, ids_markCommitted]; exact hi.idsNd
        · rw [hco, List.nodup_append]
          refine ⟨hi.commitsNd, by simp, ?_⟩
          intro a ha b hb
          simp at hb; subst hb
          intro e; subst e
          obtain ⟨q, hq, h1, h2⟩ := hi.commitsOk _ ha
          -- q and r have the same id, hence are the same rpc
          have : q = r := rpc_unique s.rpcs hi.idsNd q r hq hrm h1
          rw [this, hu'] at h2
          cases h2
        · intro id' hid'
          rw [hco] at hid'
          rw [hrp]
          simp only [List.mem_append, List.mem_singleton] at hid'
          rcases hid' with h | rfl
          · obtain ⟨q, hq, h1, h2⟩ := hi.commitsOk id' h
            refine ⟨markCommitted r.id q, List.mem_map_of_mem hq, ?_, ?_⟩
            · unfold markCommitted; split <;> exact h1
            · unfold markCommitted; split
              · rfl
              · exact h2
          · refine ⟨markCommitted r.id r, List.mem_map_of_mem hrm, ?_, ?_⟩ <;> simp [markCommitted]

theorem run_inv1 (ops : List Op) : Inv1 (run ops) := by
  unfold run
  suffices ∀ s, Inv1 s → Inv1 (ops.foldl step s) from this init inv1_init
  induction ops with
  | nil => intro s h; exact h
  | cons o ops ih => intro s h; exact ih _ (step_inv1 s o h)

end GrpcProofs.Lemmas.ClusterRefs
