import GrpcModel.Model.StreamQuota
/-!
Invariants of the stream-admission model (C13) and their preservation by every rule.
-/
namespace GrpcProofs.StreamQuota
open GrpcModel.StreamQuota GrpcModel.Generated

/-! ### setPhase: touches only the caller list -/

@[simp] theorem setPhase_quota (s : State) (c : Nat) (p : Phase) : (setPhase s c p).quota = s.quota := by
  unfold setPhase; split <;> rfl
@[simp] theorem setPhase_maxC (s : State) (c : Nat) (p : Phase) : (setPhase s c p).maxC = s.maxC := by
  unfold setPhase; split <;> rfl
@[simp] theorem setPhase_waiting (s : State) (c : Nat) (p : Phase) : (setPhase s c p).waiting = s.waiting := by
  unfold setPhase; split <;> rfl
@[simp] theorem setPhase_token (s : State) (c : Nat) (p : Phase) : (setPhase s c p).token = s.token := by
  unfold setPhase; split <;> rfl
@[simp] theorem setPhase_gen (s : State) (c : Nat) (p : Phase) : (setPhase s c p).gen = s.gen := by
  unfold setPhase; split <;> rfl
@[simp] theorem setPhase_nextID (s : State) (c : Nat) (p : Phase) : (setPhase s c p).nextID = s.nextID := by
  unfold setPhase; split <;> rfl
@[simp] theorem setPhase_hdrLimit (s : State) (c : Nat) (p : Phase) : (setPhase s c p).hdrLimit = s.hdrLimit := by
  unfold setPhase; split <;> rfl
@[simp] theorem setPhase_openS (s : State) (c : Nat) (p : Phase) : (setPhase s c p).openS = s.openS := by
  unfold setPhase; split <;> rfl
@[simp] theorem setPhase_draining (s : State) (c : Nat) (p : Phase) : (setPhase s c p).draining = s.draining := by
  unfold setPhase; split <;> rfl
@[simp] theorem setPhase_goAwayClosed (s : State) (c : Nat) (p : Phase) : (setPhase s c p).goAwayClosed = s.goAwayClosed := by
  unfold setPhase; split <;> rfl
@[simp] theorem setPhase_maxSID (s : State) (c : Nat) (p : Phase) : (setPhase s c p).maxSID = s.maxSID := by
  unfold setPhase; split <;> rfl
@[simp] theorem setPhase_leaked (s : State) (c : Nat) (p : Phase) : (setPhase s c p).leaked = s.leaked := by
  unfold setPhase; split <;> rfl
@[simp] theorem setPhase_flagged (s : State) (c : Nat) (p : Phase) : (setPhase s c p).flagged = s.flagged := by
  unfold setPhase; split <;> rfl

theorem setPhase_callers {s : State} {c : Nat} {cal : Caller} (p : Phase) (h : s.callers[c]? = some cal) :
    (setPhase s c p).callers = s.callers.set c { cal with phase := p } := by
  unfold setPhase; rw [h]

/-- lookup after setPhase -/
theorem setPhase_get {s : State} {c : Nat} {cal : Caller} (p : Phase) (h : s.callers[c]? = some cal) (j : Nat) :
    (setPhase s c p).callers[j]? = if c = j then some { cal with phase := p } else s.callers[j]? := by
  rw [setPhase_callers p h, List.getElem?_set]
  have hlt : c < s.callers.length := by
    rcases List.getElem?_eq_some_iff.mp h with ⟨hl, _⟩; exact hl
  simp [hlt]

/-- counting callers by a predicate on the phase, across setPhase -/
theorem countP_setPhase {s : State} {c : Nat} {cal : Caller} (p : Phase) (f : Phase → Bool)
    (h : s.callers[c]? = some cal) :
    (setPhase s c p).callers.countP (fun x => f x.phase) + (if f cal.phase then 1 else 0)
      = s.callers.countP (fun x => f x.phase) + (if f p then 1 else 0) := by
  rcases List.getElem?_eq_some_iff.mp h with ⟨hl, hc⟩
  rw [setPhase_callers p h, List.countP_set hl]
  simp only [hc]
  by_cases hf : f cal.phase = true
  · have : 0 < s.callers.countP (fun x => f x.phase) := by
      apply List.countP_pos_iff.mpr
      exact ⟨s.callers[c], List.getElem_mem hl, by simpa [hc] using hf⟩
    simp [hf]; omega
  · simp [hf]


/-! ### the safety invariant -/

structure Inv (s : State) : Prop where
  /-- ledger: quota = max − open − leaked -/
  ledger : s.quota = (s.maxC : Int) - (s.openS.length : Int) - (s.leaked : Int)
  odd : s.nextID % 2 = 1
  /-- `waitingStreams` counts at least the callers that are parked or woken, so `waitingStreams--` never underflows -/
  waiters : nWaiters s ≤ s.waiting
  gens : ∀ (j : Nat) (cal : Caller) (g : Nat), s.callers[j]? = some cal → cal.phase = Phase.blocked g → g ≤ s.gen
  leak : s.leaked > 0 → s.draining = true
  idb : s.nextID ≤ max s.maxSID 1 + 2 * s.flagged

theorem inv_init0 : Inv init0 := by
  constructor <;> simp [init0, nWaiters, defaultMaxStreamsClient]
  exact Nat.le_max_right _ _

theorem signal_fields (s : State) :
    (signal s).quota = s.quota ∧ (signal s).maxC = s.maxC ∧ (signal s).waiting = s.waiting ∧
    (signal s).gen = s.gen ∧ (signal s).nextID = s.nextID ∧ (signal s).hdrLimit = s.hdrLimit ∧
    (signal s).openS = s.openS ∧ (signal s).callers = s.callers ∧ (signal s).draining = s.draining ∧
    (signal s).goAwayClosed = s.goAwayClosed ∧ (signal s).maxSID = s.maxSID ∧ (signal s).leaked = s.leaked ∧
    (signal s).flagged = s.flagged := by
  unfold signal; split <;> simp

theorem inv_signal {s : State} (h : Inv s) : Inv (signal s) := by
  obtain ⟨h1, h2, h3, h4, h5, h6, h7, h8, h9, h10, h11, h12, h13⟩ := signal_fields s
  constructor
  · rw [h1, h2, h7, h12]; exact h.ledger
  · rw [h5]; exact h.odd
  · unfold nWaiters; rw [h8, h3]; exact h.waiters
  · rw [h8, h4]; exact h.gens
  · rw [h12, h9]; exact h.leak
  · rw [h5, h11, h13]; exact h.idb

theorem inv_setPhase_gens {s : State} {c : Nat} {cal : Caller} {p : Phase} (h : Inv s)
    (hc : s.callers[c]? = some cal) (hp : ∀ g, p = .blocked g → g ≤ s.gen) :
    ∀ (j : Nat) (cal' : Caller) (g : Nat), (setPhase s c p).callers[j]? = some cal' → cal'.phase = Phase.blocked g → g ≤ (setPhase s c p).gen := by
  intro j cal' g hj hg
  rw [setPhase_get p hc] at hj
  simp only [setPhase_gen]
  split at hj
  · cases hj; exact hp g hg
  · exact h.gens j cal' g hj hg

/-- changing the phase of a caller to one that is not counted as a waiter, or keeping it a waiter -/
theorem nWaiters_setPhase {s : State} {c : Nat} {cal : Caller} (p : Phase) (hc : s.callers[c]? = some cal) :
    nWaiters (setPhase s c p) + (if isWaiter cal.phase then 1 else 0) = nWaiters s + (if isWaiter p then 1 else 0) :=
  countP_setPhase p isWaiter hc


/-- re-establishing the invariant after a phase change of caller `c` in a state whose other fields satisfy it -/
theorem inv_setPhase {s : State} {c : Nat} {cal : Caller} {p : Phase} (hc : s.callers[c]? = some cal)
    (ledger : s.quota = (s.maxC : Int) - (s.openS.length : Int) - (s.leaked : Int))
    (odd : s.nextID % 2 = 1)
    (gens : ∀ (j : Nat) (cal : Caller) (g : Nat), s.callers[j]? = some cal → cal.phase = Phase.blocked g → g ≤ s.gen)
    (leak : s.leaked > 0 → s.draining = true)
    (idb : s.nextID ≤ max s.maxSID 1 + 2 * s.flagged)
    (hg : ∀ g, p = Phase.blocked g → g ≤ s.gen)
    (hw : nWaiters s + (if isWaiter p then 1 else 0) ≤ s.waiting + (if isWaiter cal.phase then 1 else 0)) :
    Inv (setPhase s c p) := by
  have hn := nWaiters_setPhase p hc
  constructor
  · simpa using ledger
  · simpa using odd
  · simp only [setPhase_waiting]; omega
  · intro j cal' g hj hg'
    rw [setPhase_get p hc] at hj
    simp only [setPhase_gen]
    split at hj
    · cases hj; exact hg g hg'
    · exact gens j cal' g hj hg'
  · simpa using leak
  · simpa using idb

theorem isWaiter_fresh : isWaiter Phase.fresh = false := rfl
theorem isWaiter_woken : isWaiter Phase.woken = true := rfl
theorem isWaiter_blocked (g : Nat) : isWaiter (Phase.blocked g) = true := rfl
theorem isWaiter_failed (w : Fail) : isWaiter (Phase.failed w) = false := rfl
theorem isWaiter_stuck : isWaiter Phase.stuck = false := rfl
theorem isWaiter_admitted (a : Nat) (b : Bool) : isWaiter (Phase.admitted a b) = false := rfl

theorem nWaiters_pos {s : State} {c : Nat} {cal : Caller} (hc : s.callers[c]? = some cal)
    (hw : isWaiter cal.phase = true) : 0 < nWaiters s := by
  rcases List.getElem?_eq_some_iff.mp hc with ⟨hl, hcc⟩
  apply List.countP_pos_iff.mpr
  exact ⟨s.callers[c], List.getElem_mem hl, by simpa [hcc] using hw⟩

theorem nWaiters_signal (s : State) : nWaiters (signal s) = nWaiters s := by
  unfold nWaiters; rw [(signal_fields s).2.2.2.2.2.2.2.1]

/-- `inv_setPhase` through `signal` (which only sets the token) -/
theorem inv_setPhase_signal {s : State} {c : Nat} {cal : Caller} {p : Phase} (hc : s.callers[c]? = some cal)
    (ledger : s.quota = (s.maxC : Int) - (s.openS.length : Int) - (s.leaked : Int))
    (odd : s.nextID % 2 = 1)
    (gens : ∀ (j : Nat) (cal : Caller) (g : Nat), s.callers[j]? = some cal → cal.phase = Phase.blocked g → g ≤ s.gen)
    (leak : s.leaked > 0 → s.draining = true)
    (idb : s.nextID ≤ max s.maxSID 1 + 2 * s.flagged)
    (hg : ∀ g, p = Phase.blocked g → g ≤ s.gen)
    (hw : nWaiters s + (if isWaiter p then 1 else 0) ≤ s.waiting + (if isWaiter cal.phase then 1 else 0)) :
    Inv (setPhase (signal s) c p) := by
  obtain ⟨h1, h2, h3, h4, h5, h6, h7, h8, h9, h10, h11, h12, h13⟩ := signal_fields s
  apply inv_setPhase (cal := cal)
  · rw [h8]; exact hc
  · rw [h1, h2, h7, h12]; exact ledger
  · rw [h5]; exact odd
  · rw [h8, h4]; exact gens
  · rw [h12, h9]; exact leak
  · rw [h5, h11, h13]; exact idb
  · rw [h4]; exact hg
  · rw [nWaiters_signal, h3]; exact hw

/-- the admission branch of the closure: quota taken, id assigned, HEADERS enqueued, token passed on -/
theorem inv_admit {s : State} {c : Nat} {cal : Caller} (w' : Nat) (h : Inv s) (hc : s.callers[c]? = some cal)
    (hw : nWaiters s ≤ w' + (if isWaiter cal.phase then 1 else 0)) :
    Inv (setPhase (signal
        (if decide (s.nextID + 2 > s.maxSID) = true
          then ({ s with waiting := w', quota := s.quota - 1, nextID := s.nextID + 2,
                         openS := s.openS ++ [⟨s.nextID, false⟩], flagged := s.flagged + 1 } : State)
          else ({ s with waiting := w', quota := s.quota - 1, nextID := s.nextID + 2,
                         openS := s.openS ++ [⟨s.nextID, false⟩] } : State)))
      c (Phase.admitted s.nextID (decide (s.nextID + 2 > s.maxSID)))) := by
  have hl := h.ledger
  have ho := h.odd
  have hi := h.idb
  by_cases hd : s.nextID + 2 > s.maxSID
  · simp only [hd, decide_true, ↓reduceIte]
    apply inv_setPhase_signal (cal := cal)
    · exact hc
    · simp only [List.length_append, List.length_cons, List.length_nil]; push_cast; omega
    · show (s.nextID + 2) % 2 = 1; omega
    · exact h.gens
    · exact h.leak
    · show s.nextID + 2 ≤ max s.maxSID 1 + 2 * (s.flagged + 1); omega
    · intro g hg; cases hg
    · rw [isWaiter_admitted]; show nWaiters s + 0 ≤ w' + _; omega
  · simp only [hd, decide_false, Bool.false_eq_true, ↓reduceIte]
    apply inv_setPhase_signal (cal := cal)
    · exact hc
    · simp only [List.length_append, List.length_cons, List.length_nil]; push_cast; omega
    · show (s.nextID + 2) % 2 = 1; omega
    · exact h.gens
    · exact h.leak
    · show s.nextID + 2 ≤ max s.maxSID 1 + 2 * s.flagged
      have : s.nextID + 2 ≤ s.maxSID := by omega
      have : s.maxSID ≤ max s.maxSID 1 := Nat.le_max_left _ _
      omega
    · intro g hg; cases hg
    · rw [isWaiter_admitted]; show nWaiters s + 0 ≤ w' + _; omega

/-- the closure preserves the invariant, for a fresh caller (firstTry) and for a woken one -/
theorem inv_closure {s : State} {c : Nat} {cal : Caller} {ft : Bool} (h : Inv s)
    (hc : s.callers[c]? = some cal)
    (hph : (ft = true ∧ cal.phase = .fresh) ∨ (ft = false ∧ cal.phase = .woken)) :
    Inv (closure s c cal ft).1 := by
  have hwt := h.waiters
  unfold closure
  split
  · -- header list too big: the caller leaves
    apply inv_setPhase hc h.ledger h.odd h.gens h.leak h.idb (by intro g hg; cases hg)
    rw [isWaiter_failed]; simp; omega
  · split
    · -- no quota: park on the current channel
      rcases hph with ⟨h1, h2⟩ | ⟨h1, h2⟩
      · subst h1
        apply inv_setPhase (s := { s with waiting := s.waiting + 1 }) hc h.ledger h.odd h.gens h.leak h.idb
          (by intro g hg; cases hg; exact Nat.le_refl _)
        rw [h2, isWaiter_fresh, isWaiter_blocked]
        show nWaiters s + 1 ≤ s.waiting + 1 + 0
        omega
      · subst h1
        apply inv_setPhase (s := s) hc h.ledger h.odd h.gens h.leak h.idb
          (by intro g hg; cases hg; exact Nat.le_refl _)
        rw [h2, isWaiter_woken, isWaiter_blocked]
        simp; omega
    · -- quota available
      rename_i hq
      have hq : s.quota > 0 := by omega
      rcases hph with ⟨h1, h2⟩ | ⟨h1, h2⟩
      · subst h1
        simp only [↓reduceIte]
        split
        · -- draining: the unit is taken and never returned
          apply inv_setPhase (s := { s with quota := s.quota - 1, leaked := s.leaked + 1 }) hc
          · show s.quota - 1 = (s.maxC : Int) - (s.openS.length : Int) - ((s.leaked + 1 : Nat) : Int)
            have := h.ledger; omega
          · exact h.odd
          · exact h.gens
          · intro _; assumption
          · exact h.idb
          · intro g hg; split at hg <;> cases hg
          · rw [h2, isWaiter_fresh]
            have : isWaiter (if s.goAwayClosed = true then Phase.failed Fail.drain else Phase.stuck) = false := by
              split <;> rfl
            show nWaiters s + (if isWaiter (if s.goAwayClosed = true then Phase.failed Fail.drain else Phase.stuck) = true then 1 else 0) ≤ s.waiting + 0
            rw [this]; simp; omega
        · -- admitted
          exact inv_admit (c := c) (cal := cal) s.waiting h hc (by rw [h2, isWaiter_fresh]; simp; omega)
      · subst h1
        have hpos := nWaiters_pos hc (by rw [h2]; rfl)
        simp only [Bool.false_eq_true, ↓reduceIte]
        split
        · apply inv_setPhase (s := { s with waiting := s.waiting - 1, quota := s.quota - 1, leaked := s.leaked + 1 }) hc
          · show s.quota - 1 = (s.maxC : Int) - (s.openS.length : Int) - ((s.leaked + 1 : Nat) : Int)
            have := h.ledger; omega
          · exact h.odd
          · exact h.gens
          · intro _; assumption
          · exact h.idb
          · intro g hg; split at hg <;> cases hg
          · rw [h2, isWaiter_woken]
            have : isWaiter (if s.goAwayClosed = true then Phase.failed Fail.drain else Phase.stuck) = false := by
              split <;> rfl
            show nWaiters s + (if isWaiter (if s.goAwayClosed = true then Phase.failed Fail.drain else Phase.stuck) = true then 1 else 0) ≤ s.waiting - 1 + 1
            rw [this]; simp; omega
        · exact inv_admit (c := c) (cal := cal) (s.waiting - 1) h hc (by rw [h2, isWaiter_woken]; simp; omega)


theorem nWaiters_append_fresh (s : State) (hsz : Nat) :
    nWaiters { s with callers := s.callers ++ [⟨hsz, Phase.fresh⟩] } = nWaiters s := by
  simp [nWaiters, List.countP_append, isWaiter, isParked, isWoken]

/-- every rule preserves the invariant -/
theorem step_inv (s : State) (r : Rule) (h : Inv s) : Inv (step s r).1 := by
  cases r with
  | call hsz =>
    refine ⟨h.ledger, h.odd, ?_, ?_, h.leak, h.idb⟩
    · show nWaiters { s with callers := s.callers ++ [⟨hsz, Phase.fresh⟩] } ≤ s.waiting
      rw [nWaiters_append_fresh]; exact h.waiters
    · intro j cal g hj hg
      show g ≤ s.gen
      have hj' : (s.callers ++ [⟨hsz, Phase.fresh⟩])[j]? = some cal := hj
      rw [List.getElem?_append] at hj'
      split at hj'
      · exact h.gens j cal g hj' hg
      · rcases Nat.lt_or_ge (j - s.callers.length) 1 with hlt | hge
        · have : j - s.callers.length = 0 := by omega
          rw [this] at hj'; simp at hj'; subst hj'; cases hg
        · rw [List.getElem?_eq_none (by simpa using hge)] at hj'; cases hj'
  | tryNew c =>
    simp only [step]
    split
    · rename_i cal hc
      split
      · rename_i hp; exact inv_closure h hc (Or.inl ⟨rfl, hp⟩)
      · exact h
    · exact h
  | retry c =>
    simp only [step]
    split
    · rename_i cal hc
      split
      · rename_i hp; exact inv_closure h hc (Or.inr ⟨rfl, hp⟩)
      · exact h
    · exact h
  | wake c =>
    simp only [step]
    split
    · rename_i cal hc
      split
      · rename_i g hp
        split
        · apply inv_setPhase hc h.ledger h.odd h.gens h.leak h.idb (by intro g hg; cases hg)
          rw [hp, isWaiter_blocked, isWaiter_woken]; have := h.waiters; omega
        · split
          · apply inv_setPhase (s := { s with token := false }) hc h.ledger h.odd h.gens h.leak h.idb (by intro g hg; cases hg)
            rw [hp, isWaiter_blocked, isWaiter_woken]; have := h.waiters
            show nWaiters s + _ ≤ s.waiting + _; omega
          · exact h
      all_goals exact h
    · exact h
  | abandon c =>
    simp only [step]
    split
    · rename_i cal hc
      split
      · rename_i g hp
        apply inv_setPhase hc h.ledger h.odd h.gens h.leak h.idb (by intro g hg; cases hg)
        rw [hp, isWaiter_blocked, isWaiter_failed]; have := h.waiters; simp; omega
      · rename_i hp
        apply inv_setPhase hc h.ledger h.odd h.gens h.leak h.idb (by intro g hg; cases hg)
        rw [hp, isWaiter_stuck, isWaiter_failed]; have := h.waiters; simp; omega
      · exact h
    · exact h
  | failDrain c =>
    simp only [step]
    split
    · rename_i cal hc
      split
      · rename_i g hp
        split
        · apply inv_setPhase hc h.ledger h.odd h.gens h.leak h.idb (by intro g hg; cases hg)
          rw [hp, isWaiter_blocked, isWaiter_failed]; have := h.waiters; simp; omega
        · exact h
      · exact h
    · exact h
  | closeStream sid rst =>
    simp only [step]
    split
    · rename_i hs
      apply inv_signal
      refine ⟨?_, h.odd, h.waiters, h.gens, h.leak, h.idb⟩
      show s.quota + 1 = (s.maxC : Int) - ((s.openS.eraseP (·.id == sid)).length : Int) - (s.leaked : Int)
      have hany : s.openS.any (·.id == sid) = true := hs
      rw [List.length_eraseP, hany]
      have hpos : 0 < s.openS.length := by
        rcases List.any_eq_true.mp hany with ⟨x, hx, _⟩
        exact List.length_pos_of_mem hx
      have := h.ledger
      simp only [↓reduceIte]
      omega
    · exact h
  | halfClose sid =>
    simp only [step]
    split
    · refine ⟨?_, h.odd, h.waiters, h.gens, h.leak, h.idb⟩
      show s.quota = (s.maxC : Int) - ((s.openS.map _).length : Int) - (s.leaked : Int)
      rw [List.length_map]; exact h.ledger
    · exact h
  | settings n =>
    simp only [step]
    split
    · refine ⟨?_, h.odd, h.waiters, ?_, h.leak, h.idb⟩
      · show s.quota + ((n : Int) - (s.maxC : Int)) = (n : Int) - (s.openS.length : Int) - (s.leaked : Int)
        have := h.ledger; omega
      · intro j cal g hj hg
        have := h.gens j cal g hj hg
        show g ≤ s.gen + 1; omega
    · refine ⟨?_, h.odd, h.waiters, h.gens, h.leak, h.idb⟩
      show s.quota + ((n : Int) - (s.maxC : Int)) = (n : Int) - (s.openS.length : Int) - (s.leaked : Int)
      have := h.ledger; omega
  | hls n => exact ⟨h.ledger, h.odd, h.waiters, h.gens, h.leak, h.idb⟩
  | goAway => exact ⟨h.ledger, h.odd, h.waiters, h.gens, fun _ => rfl, h.idb⟩
  | gracefulClose c =>
    simp only [step]
    split
    · rename_i cal hc
      split
      · rename_i sid hp
        apply inv_setPhase (s := { s with draining := true }) hc h.ledger h.odd h.gens (fun _ => rfl) h.idb (by intro g hg; cases hg)
        rw [hp, isWaiter_admitted, isWaiter_admitted]; have := h.waiters
        show nWaiters s + _ ≤ s.waiting + _; omega
      all_goals exact h
    · exact h

theorem run_inv (s : State) (rs : List Rule) (h : Inv s) : Inv (run s rs) := by
  induction rs generalizing s with
  | nil => exact h
  | cons r rs ih => exact ih _ (step_inv s r h)

theorem inv_initAfterPreface (mcs hl : Option Nat) : Inv (initAfterPreface mcs hl) := by
  unfold initAfterPreface
  cases hl with
  | none => exact step_inv _ _ inv_init0
  | some l => exact step_inv _ _ (step_inv _ _ inv_init0)


/-! ### what a single rule can put on the wire -/

/-- Either the rule emits no HEADERS and leaves `nextID` alone, or it is an admission: exactly one
HEADERS, with id = the old `nextID`, taken with positive quota on a transport that is not draining,
and the new stream is appended to the open list. -/
def Emits (s : State) (r : Rule) : Prop :=
  (hdrIds (step s r).2 = [] ∧ (step s r).1.nextID = s.nextID) ∨
  (hdrIds (step s r).2 = [s.nextID] ∧ (step s r).1.nextID = s.nextID + 2 ∧ s.quota > 0 ∧ s.draining = false ∧
    (step s r).1.openS = s.openS ++ [⟨s.nextID, false⟩] ∧ (step s r).1.maxC = s.maxC ∧ (step s r).1.leaked = s.leaked)

theorem closure_emits (s : State) (c : Nat) (cal : Caller) (ft : Bool) :
    (hdrIds (closure s c cal ft).2 = [] ∧ (closure s c cal ft).1.nextID = s.nextID) ∨
    (hdrIds (closure s c cal ft).2 = [s.nextID] ∧ (closure s c cal ft).1.nextID = s.nextID + 2 ∧ s.quota > 0 ∧
      s.draining = false ∧ (closure s c cal ft).1.openS = s.openS ++ [⟨s.nextID, false⟩] ∧
      (closure s c cal ft).1.maxC = s.maxC ∧ (closure s c cal ft).1.leaked = s.leaked) := by
  unfold closure
  split
  · left; simp [hdrIds]
  · split
    · left; cases ft <;> simp [hdrIds]
    · rename_i hq
      have hq : s.quota > 0 := by omega
      cases ft
      · simp only [Bool.false_eq_true, ↓reduceIte]
        split
        · left; simp [hdrIds]
        · rename_i hd
          right
          have hnd : s.draining = false := by
            cases hs : s.draining
            · rfl
            · exact absurd hs hd
          obtain ⟨h1, h2, h3, h4, h5, h6, h7, h8, h9, h10, h11, h12, h13⟩ := signal_fields
            (if decide (s.nextID + 2 > s.maxSID) = true
              then ({ s with waiting := s.waiting - 1, quota := s.quota - 1, nextID := s.nextID + 2,
                             openS := s.openS ++ [⟨s.nextID, false⟩], flagged := s.flagged + 1 } : State)
              else ({ s with waiting := s.waiting - 1, quota := s.quota - 1, nextID := s.nextID + 2,
                             openS := s.openS ++ [⟨s.nextID, false⟩] } : State))
          refine ⟨by simp [hdrIds], ?_, hq, hnd, ?_, ?_, ?_⟩
          · simp only [setPhase_nextID]; rw [h5]; split <;> rfl
          · simp only [setPhase_openS]; rw [h7]; split <;> rfl
          · simp only [setPhase_maxC]; rw [h2]; split <;> rfl
          · simp only [setPhase_leaked]; rw [h12]; split <;> rfl
      · simp only [↓reduceIte]
        split
        · left; simp [hdrIds]
        · rename_i hd
          right
          have hnd : s.draining = false := by
            cases hs : s.draining
            · rfl
            · exact absurd hs hd
          obtain ⟨h1, h2, h3, h4, h5, h6, h7, h8, h9, h10, h11, h12, h13⟩ := signal_fields
            (if decide (s.nextID + 2 > s.maxSID) = true
              then ({ s with quota := s.quota - 1, nextID := s.nextID + 2,
                             openS := s.openS ++ [⟨s.nextID, false⟩], flagged := s.flagged + 1 } : State)
              else ({ s with quota := s.quota - 1, nextID := s.nextID + 2,
                             openS := s.openS ++ [⟨s.nextID, false⟩] } : State))
          refine ⟨by simp [hdrIds], ?_, hq, hnd, ?_, ?_, ?_⟩
          · simp only [setPhase_nextID]; rw [h5]; split <;> rfl
          · simp only [setPhase_openS]; rw [h7]; split <;> rfl
          · simp only [setPhase_maxC]; rw [h2]; split <;> rfl
          · simp only [setPhase_leaked]; rw [h12]; split <;> rfl

theorem step_emits (s : State) (r : Rule) : Emits s r := by
  unfold Emits
  cases r with
  | call hsz => left; exact ⟨rfl, rfl⟩
  | tryNew c =>
    simp only [step]
    split
    · split
      · exact closure_emits s c _ true
      · left; exact ⟨rfl, rfl⟩
    · left; exact ⟨rfl, rfl⟩
  | retry c =>
    simp only [step]
    split
    · split
      · exact closure_emits s c _ false
      · left; exact ⟨rfl, rfl⟩
    · left; exact ⟨rfl, rfl⟩
  | wake c =>
    left; simp only [step]
    split
    · split
      · split
        · simp [hdrIds]
        · split <;> simp [hdrIds]
      all_goals simp [hdrIds]
    · simp [hdrIds]
  | abandon c =>
    left; simp only [step]
    split
    · split <;> simp [hdrIds]
    · simp [hdrIds]
  | failDrain c =>
    left; simp only [step]
    split
    · split
      · split <;> simp [hdrIds]
      · simp [hdrIds]
    · simp [hdrIds]
  | closeStream sid rst =>
    left; simp only [step]
    split
    · refine ⟨?_, ?_⟩
      · cases rst <;> simp [hdrIds]
      · rw [(signal_fields _).2.2.2.2.1]
    · simp [hdrIds]
  | halfClose sid =>
    left; simp only [step]
    split <;> simp [hdrIds]
  | settings n =>
    left; simp only [step]
    split <;> simp [hdrIds]
  | hls n => left; exact ⟨rfl, rfl⟩
  | goAway => left; exact ⟨rfl, rfl⟩
  | gracefulClose c =>
    left; simp only [step]
    split
    · split <;> simp [hdrIds]
    · simp [hdrIds]


/-! ### traces -/

theorem hdrIds_append (a b : List Ev) : hdrIds (a ++ b) = hdrIds a ++ hdrIds b := by
  induction a with
  | nil => rfl
  | cons e t ih => cases e <;> simp [hdrIds, ih]

/-- ids on the wire: odd, at least the current `nextID`, strictly increasing, below the final `nextID` -/
theorem trace_ids (s : State) (rs : List Rule) (ho : s.nextID % 2 = 1) :
    (hdrIds (trace s rs)).Pairwise (· < ·) ∧
    (∀ id ∈ hdrIds (trace s rs), s.nextID ≤ id ∧ id % 2 = 1 ∧ id + 2 ≤ (run s rs).nextID) ∧
    s.nextID ≤ (run s rs).nextID ∧ (run s rs).nextID % 2 = 1 := by
  induction rs generalizing s with
  | nil => simp [trace, run, hdrIds, ho]
  | cons r rs ih =>
    simp only [trace, run, hdrIds_append]
    rcases step_emits s r with ⟨he, hn⟩ | ⟨he, hn, _⟩
    · have ih' := ih (step s r).1 (by rw [hn]; exact ho)
      rw [he, hn] at *
      simpa using ih'
    · have ih' := ih (step s r).1 (by rw [hn]; omega)
      rw [he]
      obtain ⟨p, q, m, o⟩ := ih'
      refine ⟨?_, ?_, by omega, o⟩
      · simp only [List.singleton_append, List.pairwise_cons]
        exact ⟨fun id hid => by have := (q id hid).1; omega, p⟩
      · intro id hid
        simp only [List.singleton_append, List.mem_cons] at hid
        rcases hid with rfl | hid
        · exact ⟨Nat.le_refl _, ho, by omega⟩
        · have := q id hid; omega

def isSettings : Rule → Bool
  | .settings _ => true
  | _ => false

def isClose : Rule → Bool
  | .closeStream _ _ => true
  | _ => false

theorem closure_maxC_open (s : State) (c : Nat) (cal : Caller) (ft : Bool) :
    (closure s c cal ft).1.maxC = s.maxC ∧ s.openS.length ≤ (closure s c cal ft).1.openS.length := by
  rcases closure_emits s c cal ft with ⟨_, _⟩ | ⟨_, _, _, _, ho, hm, _⟩
  · unfold closure
    split
    · simp
    · split
      · cases ft <;> simp
      · cases ft
        · simp only [Bool.false_eq_true, ↓reduceIte]
          split
          · simp
          · simp only [setPhase_maxC, setPhase_openS]
            rw [(signal_fields _).2.1, (signal_fields _).2.2.2.2.2.2.1]
            split <;> simp
        · simp only [↓reduceIte]
          split
          · simp
          · simp only [setPhase_maxC, setPhase_openS]
            rw [(signal_fields _).2.1, (signal_fields _).2.2.2.2.2.2.1]
            split <;> simp
  · rw [ho, hm]; simp

/-- a rule other than SETTINGS keeps the limit; only closeStream shrinks the open list, by at most one -/
theorem step_maxC_open (s : State) (r : Rule) (hs : isSettings r = false) :
    (step s r).1.maxC = s.maxC ∧ s.openS.length ≤ (step s r).1.openS.length + (if isClose r then 1 else 0) := by
  cases r with
  | call hsz => exact ⟨rfl, by simp [step]⟩
  | tryNew c =>
    simp only [step]
    split
    · rename_i cal _
      split
      · have := closure_maxC_open s c cal true; exact ⟨this.1, by have := this.2; omega⟩
      · simp
    · simp
  | retry c =>
    simp only [step]
    split
    · rename_i cal _
      split
      · have := closure_maxC_open s c cal false; exact ⟨this.1, by have := this.2; omega⟩
      · simp
    · simp
  | wake c =>
    simp only [step]
    split
    · split
      · split
        · simp
        · split <;> simp
      all_goals simp
    · simp
  | abandon c =>
    simp only [step]
    split
    · split <;> simp
    · simp
  | failDrain c =>
    simp only [step]
    split
    · split
      · split <;> simp
      · simp
    · simp
  | closeStream sid rst =>
    simp only [step]
    split
    · rw [(signal_fields _).2.1, (signal_fields _).2.2.2.2.2.2.1]
      refine ⟨rfl, ?_⟩
      show s.openS.length ≤ (s.openS.eraseP _).length + _
      rw [List.length_eraseP]
      simp only [isClose, ↓reduceIte]
      split <;> omega
    · simp
  | halfClose sid =>
    simp only [step]
    split <;> simp
  | settings n => simp [isSettings] at hs
  | hls n => simp [step]
  | goAway => simp [step]
  | gracefulClose c =>
    simp only [step]
    split
    · split <;> simp
    · simp

/-- With the limit at or below the open count, nothing is admitted until more streams have closed
than the excess, as long as no SETTINGS intervenes. -/
theorem no_hdr_until_enough_close (s : State) (rs : List Rule) (h : Inv s)
    (hns : ∀ r ∈ rs, isSettings r = false)
    (hk : s.maxC + rs.countP isClose ≤ s.openS.length) :
    hdrIds (trace s rs) = [] := by
  induction rs generalizing s with
  | nil => rfl
  | cons r rs ih =>
    have hr := hns r (List.mem_cons_self ..)
    have hmo := step_maxC_open s r hr
    simp only [trace, hdrIds_append]
    have hcount : (r :: rs).countP isClose = rs.countP isClose + (if isClose r then 1 else 0) := by
      rw [List.countP_cons]
    rcases step_emits s r with ⟨he, _⟩ | ⟨_, _, hq, _⟩
    · rw [he, List.nil_append]
      apply ih _ (step_inv s r h) (fun r' hr' => hns r' (List.mem_cons_of_mem _ hr'))
      rw [hmo.1]; have := hmo.2; omega
    · exfalso
      have := h.ledger
      omega


/-! ### no lost wake-up (for schedules in which the header-list limit does not change) -/

/-- some caller's phase satisfies `Q` -/
def HasP (l : List Caller) (Q : Phase → Prop) : Prop := ∃ (j : Nat) (cal : Caller), l[j]? = some cal ∧ Q cal.phase

theorem hasP_set_intro {l : List Caller} {c : Nat} {cal : Caller} {p : Phase} {Q : Phase → Prop}
    (hc : l[c]? = some cal) (hq : Q p) : HasP (l.set c { cal with phase := p }) Q := by
  rcases List.getElem?_eq_some_iff.mp hc with ⟨hl, _⟩
  exact ⟨c, { cal with phase := p }, by simp [hl], hq⟩

/-- a witness other than the changed caller survives -/
theorem hasP_set_mono {l : List Caller} {c : Nat} {cal : Caller} {p : Phase} {Q : Phase → Prop}
    (hc : l[c]? = some cal) (hold : ¬ Q cal.phase) (h : HasP l Q) : HasP (l.set c { cal with phase := p }) Q := by
  obtain ⟨j, cj, hj, hq⟩ := h
  by_cases hjc : c = j
  · subst hjc; rw [hc] at hj; cases hj; exact absurd hq hold
  · exact ⟨j, cj, by rw [List.getElem?_set]; simp [hjc, hj], hq⟩

/-- if the new phase does not satisfy `Q`, a witness after the change was one before -/
theorem hasP_set_elim {l : List Caller} {c : Nat} {cal : Caller} {p : Phase} {Q : Phase → Prop}
    (hnew : ¬ Q p) (h : HasP (l.set c { cal with phase := p }) Q) : HasP l Q := by
  obtain ⟨j, cj, hj, hq⟩ := h
  rw [List.getElem?_set] at hj
  by_cases hjc : c = j
  · subst hjc
    simp only [↓reduceIte] at hj
    split at hj
    · cases hj; exact absurd hq hnew
    · cases hj
  · simp only [hjc, ↓reduceIte] at hj; exact ⟨j, cj, hj, hq⟩

theorem hasP_waiter_pos {s : State} {Q : Phase → Prop} (hQ : ∀ p, Q p → isWaiter p = true)
    (h : HasP s.callers Q) : 0 < nWaiters s := by
  obtain ⟨j, cj, hj, hq⟩ := h
  exact nWaiters_pos hj (hQ _ hq)

structure LW (s : State) : Prop where
  /-- every parked or woken caller passed the header-list check against the current limit -/
  fits : ∀ (j : Nat) (cal : Caller), s.callers[j]? = some cal → isWaiter cal.phase = true → tooBig s cal = false
  /-- quota free and a caller parked on the current channel ⇒ a token is in the channel or a woken caller is about to retry -/
  lw : s.draining = false → s.quota > 0 → HasP s.callers (· = Phase.blocked s.gen) →
    s.token = true ∨ HasP s.callers (· = Phase.woken)

theorem signal_token (s : State) : (signal s).quota > 0 → (signal s).waiting > 0 → (signal s).token = true := by
  unfold signal
  split
  · intros; rfl
  · rename_i h; intro h1 h2; exact absurd ⟨h1, h2⟩ h

theorem signal_token_mono (s : State) : s.token = true → (signal s).token = true := by
  unfold signal; split <;> simp

/-- what the closure does to the caller list and to the fields the wake-up argument needs -/
theorem closure_spec {s : State} {c : Nat} {cal : Caller} (ft : Bool) (hc : s.callers[c]? = some cal) :
    ∃ p : Phase, (closure s c cal ft).1.callers = s.callers.set c { cal with phase := p } ∧
      (closure s c cal ft).1.gen = s.gen ∧ (closure s c cal ft).1.hdrLimit = s.hdrLimit ∧
      ((p = Phase.failed Fail.hdrsize ∧ tooBig s cal = true ∧ (closure s c cal ft).1.quota = s.quota ∧
          (closure s c cal ft).1.token = s.token ∧ (closure s c cal ft).1.draining = s.draining) ∨
       (p = Phase.blocked s.gen ∧ tooBig s cal = false ∧ s.quota ≤ 0 ∧ (closure s c cal ft).1.quota = s.quota) ∨
       (isWaiter p = false ∧ tooBig s cal = false ∧ (closure s c cal ft).1.draining = true) ∨
       (isWaiter p = false ∧ tooBig s cal = false ∧
          ((closure s c cal ft).1.quota > 0 → (closure s c cal ft).1.waiting > 0 → (closure s c cal ft).1.token = true) ∧
          (s.token = true → (closure s c cal ft).1.token = true))) := by
  unfold closure
  split
  · rename_i hb
    exact ⟨_, setPhase_callers _ hc, by simp, by simp, Or.inl ⟨rfl, hb, by simp, by simp, by simp⟩⟩
  · rename_i hb
    have hb : tooBig s cal = false := by simpa using hb
    split
    · rename_i hq
      refine ⟨Phase.blocked s.gen, ?_, ?_, ?_, Or.inr (Or.inl ⟨rfl, hb, hq, ?_⟩)⟩
      · cases ft
        · exact setPhase_callers _ hc
        · exact setPhase_callers (s := { s with waiting := s.waiting + 1 }) _ hc
      · cases ft <;> simp
      · cases ft <;> simp
      · cases ft <;> simp
    · cases ft
      · simp only [Bool.false_eq_true, ↓reduceIte]
        split
        · refine ⟨_, setPhase_callers (s := { s with waiting := s.waiting - 1, quota := s.quota - 1, leaked := s.leaked + 1 }) _ hc,
            by simp, by simp, Or.inr (Or.inr (Or.inl ⟨?_, hb, ?_⟩))⟩
          · split <;> rfl
          · simpa
        · obtain ⟨h1, h2, h3, h4, h5, h6, h7, h8, h9, h10, h11, h12, h13⟩ := signal_fields
            (if decide (s.nextID + 2 > s.maxSID) = true
              then ({ s with waiting := s.waiting - 1, quota := s.quota - 1, nextID := s.nextID + 2,
                             openS := s.openS ++ [⟨s.nextID, false⟩], flagged := s.flagged + 1 } : State)
              else ({ s with waiting := s.waiting - 1, quota := s.quota - 1, nextID := s.nextID + 2,
                             openS := s.openS ++ [⟨s.nextID, false⟩] } : State))
          refine ⟨Phase.admitted s.nextID (decide (s.nextID + 2 > s.maxSID)), ?_, ?_, ?_, Or.inr (Or.inr (Or.inr ⟨rfl, hb, ?_, ?_⟩))⟩
          · rw [setPhase_callers (cal := cal) _ (by rw [h8]; split <;> exact hc), h8]; split <;> rfl
          · simp only [setPhase_gen]; rw [h4]; split <;> rfl
          · simp only [setPhase_hdrLimit]; rw [h6]; split <;> rfl
          · simp only [setPhase_quota, setPhase_waiting, setPhase_token]; exact signal_token _
          · simp only [setPhase_token]; intro ht; apply signal_token_mono; split <;> exact ht
      · simp only [↓reduceIte]
        split
        · refine ⟨_, setPhase_callers (s := { s with quota := s.quota - 1, leaked := s.leaked + 1 }) _ hc,
            by simp, by simp, Or.inr (Or.inr (Or.inl ⟨?_, hb, ?_⟩))⟩
          · split <;> rfl
          · simpa
        · obtain ⟨h1, h2, h3, h4, h5, h6, h7, h8, h9, h10, h11, h12, h13⟩ := signal_fields
            (if decide (s.nextID + 2 > s.maxSID) = true
              then ({ s with quota := s.quota - 1, nextID := s.nextID + 2,
                             openS := s.openS ++ [⟨s.nextID, false⟩], flagged := s.flagged + 1 } : State)
              else ({ s with quota := s.quota - 1, nextID := s.nextID + 2,
                             openS := s.openS ++ [⟨s.nextID, false⟩] } : State))
          refine ⟨Phase.admitted s.nextID (decide (s.nextID + 2 > s.maxSID)), ?_, ?_, ?_, Or.inr (Or.inr (Or.inr ⟨rfl, hb, ?_, ?_⟩))⟩
          · rw [setPhase_callers (cal := cal) _ (by rw [h8]; split <;> exact hc), h8]; split <;> rfl
          · simp only [setPhase_gen]; rw [h4]; split <;> rfl
          · simp only [setPhase_hdrLimit]; rw [h6]; split <;> rfl
          · simp only [setPhase_quota, setPhase_waiting, setPhase_token]; exact signal_token _
          · simp only [setPhase_token]; intro ht; apply signal_token_mono; split <;> exact ht


theorem tooBig_congr {s t : State} (h : t.hdrLimit = s.hdrLimit) (x : Caller) : tooBig t x = tooBig s x := by
  unfold tooBig; rw [h]

theorem blocked_isWaiter (g : Nat) : ∀ p, p = Phase.blocked g → isWaiter p = true := by
  intro p hp; subst hp; rfl

theorem lw_closure {s : State} {c : Nat} {cal : Caller} {ft : Bool} (hI : Inv s) (hL : LW s)
    (hc : s.callers[c]? = some cal)
    (hph : (ft = true ∧ cal.phase = .fresh) ∨ (ft = false ∧ cal.phase = .woken)) :
    LW (closure s c cal ft).1 := by
  have hIt := inv_closure hI hc hph
  obtain ⟨p, hcal, hgen, hlim, hcases⟩ := closure_spec ft hc
  have hnotwoken_of_fresh : ft = true → ¬ (cal.phase = Phase.woken) := by
    intro hft hw
    rcases hph with ⟨_, h2⟩ | ⟨h1, _⟩
    · rw [h2] at hw; cases hw
    · rw [hft] at h1; cases h1
  constructor
  · intro j cj hj hw
    rw [tooBig_congr hlim]
    rw [hcal, List.getElem?_set] at hj
    by_cases hjc : c = j
    · subst hjc
      simp only [↓reduceIte] at hj
      split at hj
      · cases hj
        rcases hcases with ⟨hp, _⟩ | ⟨_, hb, _⟩ | ⟨hp, _⟩ | ⟨hp, _⟩
        · subst hp; cases hw
        · exact hb
        · simp [hp] at hw
        · simp [hp] at hw
      · cases hj
    · simp only [hjc, ↓reduceIte] at hj
      exact hL.fits j cj hj hw
  · intro hd hq hpark
    rcases hcases with ⟨hp, hb, hq', ht', hd'⟩ | ⟨_, _, hq0, hq'⟩ | ⟨_, _, hd'⟩ | ⟨hp, _, hsig, _⟩
    · -- header list too big: only a fresh caller can get here
      rcases hph with ⟨h1, h2⟩ | ⟨h1, h2⟩
      · rw [hgen, hcal] at hpark
        have hpark' := hasP_set_elim (by subst hp; intro h; cases h) hpark
        rcases hL.lw (by rw [← hd']; exact hd) (by rw [← hq']; exact hq) hpark' with ht | hwk
        · left; rw [ht']; exact ht
        · right; rw [hcal]; exact hasP_set_mono hc (by rw [h2]; intro h; cases h) hwk
      · have := hL.fits c cal hc (by rw [h2]; rfl)
        rw [this] at hb; cases hb
    · rw [hq'] at hq; omega
    · rw [hd'] at hd; cases hd
    · left
      apply hsig hq
      have := hasP_waiter_pos (s := (closure s c cal ft).1) (blocked_isWaiter _) hpark
      have := hIt.waiters
      omega

def isHls : Rule → Bool
  | .hls _ => true
  | _ => false

theorem hasP_append_fresh {l : List Caller} {hsz : Nat} {Q : Phase → Prop} (hq : ¬ Q Phase.fresh) :
    HasP (l ++ [⟨hsz, Phase.fresh⟩]) Q ↔ HasP l Q := by
  constructor
  · rintro ⟨j, cj, hj, hqj⟩
    rw [List.getElem?_append] at hj
    split at hj
    · exact ⟨j, cj, hj, hqj⟩
    · rcases Nat.lt_or_ge (j - l.length) 1 with hlt | hge
      · have : j - l.length = 0 := by omega
        rw [this] at hj; simp at hj; subst hj; exact absurd hqj hq
      · rw [List.getElem?_eq_none (by simpa using hge)] at hj; cases hj
  · rintro ⟨j, cj, hj, hqj⟩
    have hl : j < l.length := (List.getElem?_eq_some_iff.mp hj).1
    exact ⟨j, cj, by rw [List.getElem?_append_left hl]; exact hj, hqj⟩

/-- every rule except a change of the header-list limit preserves the wake-up invariant -/
theorem step_lw (s : State) (r : Rule) (hr : isHls r = false) (hI : Inv s) (hL : LW s) : LW (step s r).1 := by
  cases r with
  | hls n => simp [isHls] at hr
  | call hsz =>
    constructor
    · intro j cj hj hw
      have hj' : (s.callers ++ [⟨hsz, Phase.fresh⟩])[j]? = some cj := hj
      rw [List.getElem?_append] at hj'
      split at hj'
      · exact hL.fits j cj hj' hw
      · rcases Nat.lt_or_ge (j - s.callers.length) 1 with hlt | hge
        · have : j - s.callers.length = 0 := by omega
          rw [this] at hj'; simp at hj'; subst hj'; cases hw
        · rw [List.getElem?_eq_none (by simpa using hge)] at hj'; cases hj'
    · intro hd hq hpark
      have hpark' : HasP (s.callers ++ [⟨hsz, Phase.fresh⟩]) (· = Phase.blocked s.gen) := hpark
      rw [hasP_append_fresh (by intro h; cases h)] at hpark'
      rcases hL.lw hd hq hpark' with ht | hwk
      · left; exact ht
      · right
        show HasP (s.callers ++ [⟨hsz, Phase.fresh⟩]) (· = Phase.woken)
        rw [hasP_append_fresh (by intro h; cases h)]; exact hwk
  | tryNew c =>
    simp only [step]
    split
    · rename_i cal hc
      split
      · rename_i hp; exact lw_closure hI hL hc (Or.inl ⟨rfl, hp⟩)
      · exact hL
    · exact hL
  | retry c =>
    simp only [step]
    split
    · rename_i cal hc
      split
      · rename_i hp; exact lw_closure hI hL hc (Or.inr ⟨rfl, hp⟩)
      · exact hL
    · exact hL
  | wake c =>
    simp only [step]
    split
    · rename_i cal hc
      split
      · rename_i g hp
        have hfit := hL.fits c cal hc (by rw [hp]; rfl)
        split
        · constructor
          · intro j cj hj hw
            rw [setPhase_get _ hc] at hj
            rw [tooBig_congr (s := s) (by simp)]
            split at hj
            · cases hj; exact hfit
            · exact hL.fits j cj hj hw
          · intro _ _ _
            right; rw [setPhase_callers _ hc]; exact hasP_set_intro hc rfl
        · split
          · constructor
            · intro j cj hj hw
              rw [setPhase_get (s := { s with token := false }) _ hc] at hj
              rw [tooBig_congr (s := s) (by simp)]
              split at hj
              · cases hj; exact hfit
              · exact hL.fits j cj hj hw
            · intro _ _ _
              right; rw [setPhase_callers (s := { s with token := false }) _ hc]; exact hasP_set_intro hc rfl
          · exact hL
      all_goals exact hL
    · exact hL
  | abandon c =>
    simp only [step]
    have key : ∀ (cal : Caller), s.callers[c]? = some cal → cal.phase ≠ Phase.woken →
        LW (setPhase s c (Phase.failed Fail.ctx)) := by
      intro cal hc hnw
      constructor
      · intro j cj hj hw
        rw [setPhase_get _ hc] at hj
        rw [tooBig_congr (s := s) (by simp)]
        split at hj
        · cases hj; cases hw
        · exact hL.fits j cj hj hw
      · intro hd hq hpark
        simp only [setPhase_draining, setPhase_quota, setPhase_gen, setPhase_token] at *
        rw [setPhase_callers _ hc] at hpark ⊢
        have hpark' := hasP_set_elim (by intro h; cases h) hpark
        rcases hL.lw hd hq hpark' with ht | hwk
        · left; exact ht
        · right; exact hasP_set_mono hc hnw hwk
    split
    · rename_i cal hc
      split
      · rename_i g hp; exact key cal hc (by rw [hp]; intro h; cases h)
      · rename_i hp; exact key cal hc (by rw [hp]; intro h; cases h)
      · exact hL
    · exact hL
  | failDrain c =>
    simp only [step]
    split
    · rename_i cal hc
      split
      · rename_i g hp
        split
        · constructor
          · intro j cj hj hw
            rw [setPhase_get _ hc] at hj
            rw [tooBig_congr (s := s) (by simp)]
            split at hj
            · cases hj; cases hw
            · exact hL.fits j cj hj hw
          · intro hd hq hpark
            simp only [setPhase_draining, setPhase_quota, setPhase_gen, setPhase_token] at *
            rw [setPhase_callers _ hc] at hpark ⊢
            have hpark' := hasP_set_elim (by intro h; cases h) hpark
            rcases hL.lw hd hq hpark' with ht | hwk
            · left; exact ht
            · right; exact hasP_set_mono hc (by rw [hp]; intro h; cases h) hwk
        · exact hL
      · exact hL
    · exact hL
  | closeStream sid rst =>
    simp only [step]
    split
    · obtain ⟨h1, h2, h3, h4, h5, h6, h7, h8, h9, h10, h11, h12, h13⟩ := signal_fields
        ({ s with openS := s.openS.eraseP (·.id == sid), quota := s.quota + 1 } : State)
      constructor
      · intro j cj hj hw
        rw [h8] at hj
        rw [tooBig_congr (s := s) (by rw [h6])]
        exact hL.fits j cj hj hw
      · intro _ hq hpark
        left
        apply signal_token _ hq
        rw [h8, h4] at hpark
        rw [h3]
        have := hasP_waiter_pos (s := s) (blocked_isWaiter _) hpark
        have := hI.waiters
        show s.waiting > 0
        omega
    · exact hL
  | halfClose sid =>
    simp only [step]
    split
    · exact ⟨hL.fits, hL.lw⟩
    · exact hL
  | settings n =>
    simp only [step]
    split
    · constructor
      · exact hL.fits
      · intro _ _ hpark
        exfalso
        obtain ⟨j, cj, hj, hq⟩ := hpark
        have := hI.gens j cj (s.gen + 1) hj hq
        omega
    · rename_i hcond
      constructor
      · exact hL.fits
      · intro hd hq hpark
        have hq' : s.quota + ((n : Int) - (s.maxC : Int)) > 0 := hq
        have hpos := hasP_waiter_pos (s := s) (blocked_isWaiter _) hpark
        have hw := hI.waiters
        have hdelta : ¬ ((n : Int) - (s.maxC : Int) > 0) := by
          intro hpos'; exact hcond ⟨hpos', by omega⟩
        exact hL.lw hd (by omega) hpark
  | goAway =>
    constructor
    · exact hL.fits
    · intro hd; cases hd
  | gracefulClose c =>
    simp only [step]
    split
    · rename_i cal hc
      split
      · rename_i sid hp
        constructor
        · intro j cj hj hw
          rw [setPhase_get (s := { s with draining := true }) _ hc] at hj
          rw [tooBig_congr (s := s) (by simp)]
          split at hj
          · cases hj; cases hw
          · exact hL.fits j cj hj hw
        · intro hd; simp at hd
      all_goals exact hL
    · exact hL

theorem lw_init0 : LW init0 := by
  constructor
  · intro j cj hj; simp [init0] at hj
  · intro _ _ h; obtain ⟨j, cj, hj, _⟩ := h; simp [init0] at hj

/-- hls while nobody waits (the preface) is harmless -/
theorem lw_hls_no_callers (s : State) (n : Nat) (hs : s.callers = []) : LW (step s (.hls n)).1 := by
  constructor
  · intro j cj hj; rw [show (step s (.hls n)).1.callers = s.callers from rfl, hs] at hj; simp at hj
  · intro _ _ h; obtain ⟨j, cj, hj, _⟩ := h
    rw [show (step s (.hls n)).1.callers = s.callers from rfl, hs] at hj; simp at hj

theorem lw_initAfterPreface (mcs hl : Option Nat) : LW (initAfterPreface mcs hl) := by
  unfold initAfterPreface
  have h1 : LW (step init0 (.settings (mcs.getD 4294967295))).1 := step_lw _ _ rfl inv_init0 lw_init0
  cases hl with
  | none => exact h1
  | some l =>
    apply lw_hls_no_callers _ _ _
    simp only [step]; split <;> rfl

theorem run_lw (s : State) (rs : List Rule) (hr : ∀ r ∈ rs, isHls r = false) (hI : Inv s) (hL : LW s) :
    LW (run s rs) := by
  induction rs generalizing s with
  | nil => exact hL
  | cons r rs ih =>
    exact ih _ (fun r' hr' => hr r' (List.mem_cons_of_mem _ hr')) (step_inv s r hI)
      (step_lw s r (hr r (List.mem_cons_self ..)) hI hL)


/-! ### `MaxStreamID` is a constant of the run -/

theorem closure_maxSID (s : State) (c : Nat) (cal : Caller) (ft : Bool) : (closure s c cal ft).1.maxSID = s.maxSID := by
  unfold closure
  split
  · simp
  · split
    · cases ft <;> simp
    · cases ft
      · simp only [Bool.false_eq_true, ↓reduceIte]
        split
        · simp
        · simp only [setPhase_maxSID]; rw [(signal_fields _).2.2.2.2.2.2.2.2.2.2.1]; split <;> rfl
      · simp only [↓reduceIte]
        split
        · simp
        · simp only [setPhase_maxSID]; rw [(signal_fields _).2.2.2.2.2.2.2.2.2.2.1]; split <;> rfl

theorem step_maxSID (s : State) (r : Rule) : (step s r).1.maxSID = s.maxSID := by
  cases r with
  | call hsz => rfl
  | tryNew c =>
    simp only [step]
    split
    · split
      · exact closure_maxSID ..
      · rfl
    · rfl
  | retry c =>
    simp only [step]
    split
    · split
      · exact closure_maxSID ..
      · rfl
    · rfl
  | wake c =>
    simp only [step]
    split
    · split
      · split
        · simp
        · split <;> simp
      all_goals rfl
    · rfl
  | abandon c =>
    simp only [step]
    split
    · split <;> simp
    · rfl
  | failDrain c =>
    simp only [step]
    split
    · split
      · split <;> simp
      · rfl
    · rfl
  | closeStream sid rst =>
    simp only [step]
    split
    · rw [(signal_fields _).2.2.2.2.2.2.2.2.2.2.1]
    · rfl
  | halfClose sid => simp only [step]; split <;> rfl
  | settings n => simp only [step]; split <;> rfl
  | hls n => rfl
  | goAway => rfl
  | gracefulClose c =>
    simp only [step]
    split
    · split <;> simp
    · rfl

theorem run_maxSID (s : State) (rs : List Rule) : (run s rs).maxSID = s.maxSID := by
  induction rs generalizing s with
  | nil => rfl
  | cons r rs ih => simp only [run]; rw [ih, step_maxSID]

theorem initAfterPreface_maxSID (mcs hl : Option Nat) : (initAfterPreface mcs hl).maxSID = maxStreamID := by
  unfold initAfterPreface
  cases hl with
  | none => simp only; rw [step_maxSID]; rfl
  | some l => simp only; rw [step_maxSID, step_maxSID]; rfl

end GrpcProofs.StreamQuota
