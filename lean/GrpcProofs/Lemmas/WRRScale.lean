/-
Helper lemmas for C36 (rational part): `picker.newScheduler` over exact arithmetic, and the
`endpointWeight` state machine.
-/
import GrpcModel.Model.WRRStride
import Mathlib.Data.Rat.Floor
import Mathlib.Tactic.Linarith
import Mathlib.Tactic.FieldSimp
import Mathlib.Tactic.Positivity
import Mathlib.Tactic.NormNum
import Mathlib.Tactic.Ring
namespace GrpcProofs.Lemmas.WRRScale
open GrpcModel.WRRStride GrpcModel.Generated

/-! ### the `Rat` instance, unfolded -/

theorem add_rat (a b : ℚ) : Arith.add a b = a + b := rfl
theorem mul_rat (a b : ℚ) : Arith.mul a b = a * b := rfl
theorem div_rat (a b : ℚ) : Arith.div a b = a / b := rfl
theorem zero_rat : (Arith.zero : ℚ) = 0 := rfl
theorem ofNat_rat (n : ℕ) : (Arith.ofNat n : ℚ) = (n : ℚ) := rfl
theorem lt_rat (a b : ℚ) : Arith.lt a b = decide (a < b) := rfl
theorem eq_rat (a b : ℚ) : Arith.eq a b = decide (a = b) := rfl
theorem round_rat (x : ℚ) : Arith.roundU16 x = ⌊x + 1 / 2⌋.toNat := rfl

/-- round half away from zero of a non-negative rational, as the code's `uint16(math.Round(x))` -/
def rnd (x : ℚ) : ℕ := ⌊x + 1 / 2⌋.toNat

theorem rnd_bounds (x : ℚ) (hx : 0 ≤ x) : ((rnd x : ℕ) : ℚ) ≤ x + 1 / 2 ∧ x - 1 / 2 < ((rnd x : ℕ) : ℚ) := by
  have h0 : 0 ≤ ⌊x + 1 / 2⌋ := Int.floor_nonneg.mpr (by linarith)
  have hc : ((rnd x : ℕ) : ℚ) = ((⌊x + 1 / 2⌋ : ℤ) : ℚ) := by
    unfold rnd
    have : ((⌊x + 1 / 2⌋.toNat : ℕ) : ℤ) = ⌊x + 1 / 2⌋ := Int.toNat_of_nonneg h0
    exact_mod_cast this
  rw [hc]
  constructor
  · exact Int.floor_le _
  · have := Int.lt_floor_add_one (x + 1 / 2)
    linarith

theorem rnd_nat (k : ℕ) : rnd (k : ℚ) = k := by
  unfold rnd
  have : ⌊(k : ℚ) + 1 / 2⌋ = (k : ℤ) := by
    rw [Int.floor_eq_iff]; constructor <;> push_cast <;> linarith
  rw [this]; simp

theorem rnd_val (x : ℚ) (k : ℕ) (h1 : (k : ℚ) ≤ x + 1 / 2) (h2 : x + 1 / 2 < k + 1) : rnd x = k := by
  unfold rnd
  have : ⌊x + 1 / 2⌋ = (k : ℤ) := by
    rw [Int.floor_eq_iff]; constructor <;> push_cast <;> linarith
  rw [this]; simp

theorem rnd_le (x : ℚ) (k : ℕ) (h : x ≤ k) : rnd x ≤ k := by
  unfold rnd
  rw [Int.toNat_le]
  have : ⌊x + 1 / 2⌋ < (k : ℤ) + 1 := by
    rw [Int.floor_lt]; push_cast; linarith
  omega

/-! ### sum, max, zero count -/

theorem sumW_eq (ep : List ℚ) : sumW ep = ep.sum := by
  unfold sumW
  have : (Arith.add : ℚ → ℚ → ℚ) = (· + ·) := rfl
  rw [this, zero_rat]; exact List.sum_eq_foldl.symm

/-- the fold step of `maxW` -/
def mstep (m w : ℚ) : ℚ := if Arith.lt m w then w else m

theorem mstep_eq (m w : ℚ) : mstep m w = max m w := by
  unfold mstep; rw [lt_rat]
  by_cases h : m < w
  · simp [h, max_eq_right (le_of_lt h)]
  · simp [h, max_eq_left (not_lt.mp h)]

theorem foldl_mstep_ge (l : List ℚ) : ∀ m, m ≤ l.foldl mstep m ∧ ∀ w ∈ l, w ≤ l.foldl mstep m := by
  induction l with
  | nil => intro m; simp
  | cons a l ih =>
    intro m
    obtain ⟨h1, h2⟩ := ih (mstep m a)
    have hm : m ≤ mstep m a := by rw [mstep_eq]; exact le_max_left _ _
    have ha : a ≤ mstep m a := by rw [mstep_eq]; exact le_max_right _ _
    refine ⟨le_trans hm h1, ?_⟩
    intro w hw
    rcases List.mem_cons.mp hw with rfl | hw
    · exact le_trans ha h1
    · exact h2 w hw

theorem foldl_mstep_mem (l : List ℚ) : ∀ m, l.foldl mstep m = m ∨ l.foldl mstep m ∈ l := by
  induction l with
  | nil => intro m; simp
  | cons a l ih =>
    intro m
    rcases ih (mstep m a) with h | h
    · rw [List.foldl_cons, h, mstep_eq]
      rcases max_choice m a with h' | h'
      · left; exact h'
      · right; rw [h']; exact List.mem_cons_self
    · right; exact List.mem_cons_of_mem _ h

theorem maxW_eq (ep : List ℚ) : maxW ep = ep.foldl mstep 0 := rfl

theorem maxW_ge (ep : List ℚ) : ∀ w ∈ ep, w ≤ maxW ep := (foldl_mstep_ge ep 0).2
theorem maxW_nonneg (ep : List ℚ) : 0 ≤ maxW ep := (foldl_mstep_ge ep 0).1
theorem maxW_mem (ep : List ℚ) : maxW ep = 0 ∨ maxW ep ∈ ep := foldl_mstep_mem ep 0

theorem numZero_eq (ep : List ℚ) : numZero ep = ep.countP (fun w => decide (w = 0)) := rfl

theorem exists_nonzero (ep : List ℚ) (h : numZero ep < ep.length) : ∃ w ∈ ep, w ≠ 0 := by
  by_contra hc
  push_neg at hc
  have : ep.countP (fun w => decide (w = 0)) = ep.length := by
    rw [List.countP_eq_length]; intro a ha; simp [hc a ha]
  rw [numZero_eq] at h; omega

theorem maxW_pos (ep : List ℚ) (h0 : ∀ w ∈ ep, 0 ≤ w) (h : numZero ep < ep.length) : 0 < maxW ep := by
  obtain ⟨w, hw, hne⟩ := exists_nonzero ep h
  have := maxW_ge ep w hw
  have := h0 w hw
  rcases lt_or_eq_of_le this with h1 | h1
  · linarith
  · exact absurd h1.symm hne

theorem count_nonzero_add (ep : List ℚ) :
    ep.countP (fun w => decide (w ≠ 0)) + numZero ep = ep.length := by
  rw [numZero_eq]
  induction ep with
  | nil => rfl
  | cons a l ih =>
    by_cases hz : a = 0
    · simp [List.countP_cons, hz] at ih ⊢; omega
    · simp [List.countP_cons, hz] at ih ⊢; omega

theorem numZero_le (ep : List ℚ) : numZero ep ≤ ep.length := List.countP_le_length

/-- sum ≤ (#non-zero) · m when all weights are in [0, m] -/
theorem sum_le (m : ℚ) : ∀ l : List ℚ, (∀ w ∈ l, 0 ≤ w ∧ w ≤ m) →
    l.sum ≤ ((l.length - l.countP (fun w => decide (w = 0)) : ℕ) : ℚ) * m := by
  intro l
  induction l with
  | nil => intro _; simp
  | cons a l ih =>
    intro h
    have hl := ih (fun w hw => h w (List.mem_cons_of_mem _ hw))
    have ha := h a List.mem_cons_self
    have hc : l.countP (fun w => decide (w = 0)) ≤ l.length := List.countP_le_length
    by_cases hz : a = 0
    · subst hz
      have e : (0 :: l).length - (0 :: l).countP (fun w => decide (w = 0)) =
          l.length - l.countP (fun w => decide (w = 0)) := by
        simp [List.countP_cons]
      rw [e]; simpa using hl
    · have e : (a :: l).length - (a :: l).countP (fun w => decide (w = 0)) =
          (l.length - l.countP (fun w => decide (w = 0))) + 1 := by
        simp [List.countP_cons, hz]; omega
      rw [e, List.sum_cons]; push_cast
      linarith [ha.2]

/-- sum = (#non-zero) · c when all weights are 0 or c -/
theorem sum_eq_of_two_valued (c : ℚ) : ∀ l : List ℚ, (∀ w ∈ l, w = 0 ∨ w = c) →
    l.sum = ((l.length - l.countP (fun w => decide (w = 0)) : ℕ) : ℚ) * c := by
  intro l
  induction l with
  | nil => intro _; simp
  | cons a l ih =>
    intro h
    have hl := ih (fun w hw => h w (List.mem_cons_of_mem _ hw))
    have hc : l.countP (fun w => decide (w = 0)) ≤ l.length := List.countP_le_length
    by_cases hz : a = 0
    · subst hz
      have e : (0 :: l).length - (0 :: l).countP (fun w => decide (w = 0)) =
          l.length - l.countP (fun w => decide (w = 0)) := by
        simp [List.countP_cons]
      rw [e]; simpa using hl
    · have hac : a = c := by
        rcases h a List.mem_cons_self with h1 | h1
        · exact absurd h1 hz
        · exact h1
      have e : (a :: l).length - (a :: l).countP (fun w => decide (w = 0)) =
          (l.length - l.countP (fun w => decide (w = 0))) + 1 := by
        simp [List.countP_cons, hz]; omega
      rw [e, List.sum_cons, hl, hac]; push_cast; ring

/-! ### scaled weights -/

theorem scaled_eq (ep : List ℚ) (w : ℚ) : scaled ep w = rnd ((maxWeight : ℚ) / maxW ep * w) := rfl

theorem meanW_eq (ep : List ℚ) :
    meanW ep = rnd ((maxWeight : ℚ) / maxW ep * (ep.sum / ((ep.length - numZero ep : ℕ) : ℚ))) := by
  unfold meanW scalingFactor
  rw [round_rat, mul_rat, div_rat, div_rat, ofNat_rat, ofNat_rat, sumW_eq]; rfl

theorem maxWeight_cast : (maxWeight : ℚ) = 65535 := by
  have : maxWeight = 65535 := rfl
  rw [this]; norm_num

theorem scaled_max (ep : List ℚ) (hpos : 0 < maxW ep) : scaled ep (maxW ep) = 65535 := by
  rw [scaled_eq, maxWeight_cast]
  have : (65535 : ℚ) / maxW ep * maxW ep = ((65535 : ℕ) : ℚ) := by
    field_simp; norm_num
  rw [this, rnd_nat]

theorem scaled_le (ep : List ℚ) (w : ℚ) (hpos : 0 < maxW ep) (hw : w ≤ maxW ep) :
    scaled ep w ≤ 65535 := by
  rw [scaled_eq, maxWeight_cast]
  apply rnd_le
  have : (65535 : ℚ) / maxW ep * w ≤ 65535 / maxW ep * maxW ep :=
    mul_le_mul_of_nonneg_left hw (by positivity)
  have e : (65535 : ℚ) / maxW ep * maxW ep = 65535 := by field_simp
  push_cast; linarith

theorem mean_arg_le (ep : List ℚ) (h0 : ∀ w ∈ ep, 0 ≤ w) (h : numZero ep < ep.length) :
    ep.sum / ((ep.length - numZero ep : ℕ) : ℚ) ≤ maxW ep := by
  have hs := sum_le (maxW ep) ep (fun w hw => ⟨h0 w hw, maxW_ge ep w hw⟩)
  rw [← numZero_eq] at hs
  have hk : (0 : ℚ) < ((ep.length - numZero ep : ℕ) : ℚ) := by
    have : 0 < ep.length - numZero ep := by omega
    exact_mod_cast this
  rw [div_le_iff₀ hk]; linarith

theorem meanW_le (ep : List ℚ) (h0 : ∀ w ∈ ep, 0 ≤ w) (h : numZero ep < ep.length) :
    meanW ep ≤ 65535 := by
  have hpos := maxW_pos ep h0 h
  rw [meanW_eq, maxWeight_cast]
  apply rnd_le
  have h1 := mean_arg_le ep h0 h
  have : (65535 : ℚ) / maxW ep * (ep.sum / ((ep.length - numZero ep : ℕ) : ℚ)) ≤ 65535 / maxW ep * maxW ep :=
    mul_le_mul_of_nonneg_left h1 (by positivity)
  have e : (65535 : ℚ) / maxW ep * maxW ep = 65535 := by field_simp
  push_cast; linarith

/-! ### newScheduler, case analysis -/

theorem newScheduler_edf {α : Type} [Arith α] (ep : List α) (ws : List Nat)
    (h : newScheduler ep = some (.edf ws)) :
    ws = scaledWeights ep ∧ 2 ≤ ep.length ∧ numZero ep < ep.length - 1 ∧ allEqual ep = false := by
  unfold newScheduler at h
  simp only at h
  split at h
  · cases h
  · split at h
    · cases h
    · split at h
      · cases h
      · split at h
        · cases h
        · rename_i h1 h2 h3 h4
          simp only [Option.some.injEq, Sched.edf.injEq] at h
          refine ⟨h.symm, by omega, by omega, by simpa using h4⟩

theorem newScheduler_rr_iff {α : Type} [Arith α] (ep : List α) (k : Nat) :
    newScheduler ep = some (.rr k) ↔
      ep ≠ [] ∧ k = ep.length ∧ (ep.length = 1 ∨ numZero ep ≥ ep.length - 1 ∨ allEqual ep = true) := by
  unfold newScheduler
  simp only
  have hl : ep.length = 0 ↔ ep = [] := List.length_eq_zero_iff
  split
  · rename_i h; simp [hl.mp h]
  · rename_i h
    have hne : ep ≠ [] := fun e => h (hl.mpr e)
    split
    · rename_i h1; simp [hne, h1]; exact eq_comm
    · rename_i h1
      split
      · rename_i h2; simp [hne, h1, h2]; exact eq_comm
      · rename_i h2
        split
        · rename_i h3; simp [hne, h1, h2, h3]; exact eq_comm
        · rename_i h3; simp [hne, h1, h2, h3]

theorem newScheduler_none_iff {α : Type} [Arith α] (ep : List α) :
    newScheduler ep = none ↔ ep = [] := by
  unfold newScheduler
  simp only
  have hl : ep.length = 0 ↔ ep = [] := List.length_eq_zero_iff
  split
  · rename_i h; simp [hl.mp h]
  · rename_i h
    have hne : ep ≠ [] := fun e => h (hl.mpr e)
    split <;> [skip; split <;> [skip; split]] <;> simp [hne]

theorem scaledWeights_get (ep : List ℚ) (i : ℕ) (w : ℚ) (hw : ep[i]? = some w) :
    (scaledWeights ep)[i]? = some (if w = 0 then meanW ep else scaled ep w) := by
  unfold scaledWeights
  rw [List.getElem?_map, hw]
  simp [eq_rat, zero_rat]

theorem allEqual_of_two_valued (ep : List ℚ) (c : ℚ) (hc : 0 < c) (h : ∀ w ∈ ep, w = 0 ∨ w = c)
    (hz : numZero ep < ep.length) : allEqual ep = true := by
  have h0 : ∀ w ∈ ep, 0 ≤ w := by
    intro w hw; rcases h w hw with h1 | h1 <;> rw [h1]; exact le_of_lt hc
  have hpos := maxW_pos ep h0 hz
  have hmax : maxW ep = c := by
    rcases maxW_mem ep with h1 | h1
    · linarith
    · rcases h _ h1 with h2 | h2
      · linarith
      · exact h2
  have hk : (0 : ℚ) < ((ep.length - numZero ep : ℕ) : ℚ) := by
    have : 0 < ep.length - numZero ep := by omega
    exact_mod_cast this
  have hmean : meanW ep = scaled ep c := by
    rw [meanW_eq, scaled_eq, sum_eq_of_two_valued c ep h, ← numZero_eq]
    congr 2
    field_simp
  unfold allEqual
  rw [List.all_eq_true]
  intro w hw
  rcases h w hw with h1 | h1
  · simp [h1, eq_rat, zero_rat]
  · simp [h1, hmean]

/-! ### endpointWeight -/

section EW
variable {α : Type} [Arith α]

/-- the history of an endpoint: load reports and weight queries, each with its clock reading -/
inductive Ev (α : Type) where
  | report (now : Int) (r : Report α)
  | query (now exp blackout : Int)

def applyEv (penalty : α) (w : EW α) : Ev α → EW α
  | .report now r => onLoadReport penalty now w r
  | .query now exp blackout => (weight now exp blackout w).1

def runEv (penalty : α) (w : EW α) (evs : List (Ev α)) : EW α := evs.foldl (applyEv penalty) w

/-- the event is a load report that `OnLoadReport` does not ignore -/
def Ev.nonEmptyReport : Ev α → Bool
  | .report _ r => !r.empty
  | .query .. => false

theorem weight_state (now exp b : Int) (w : EW α) :
    (weight now exp b w).1.lastUpdated = w.lastUpdated ∧ (weight now exp b w).1.weightVal = w.weightVal := by
  unfold weight
  cases h : w.lastUpdated with
  | none => simp [h]
  | some lu =>
    simp only
    (repeat' split) <;> simp [h]

theorem weight_since (now exp b : Int) (w : EW α) :
    (weight now exp b w).1.nonEmptySince = w.nonEmptySince ∨ (weight now exp b w).1.nonEmptySince = none := by
  unfold weight
  cases h : w.lastUpdated with
  | none => simp
  | some lu =>
    simp only
    (repeat' split) <;> simp

theorem runEv_append (p : α) (w : EW α) (a b : List (Ev α)) :
    runEv p w (a ++ b) = runEv p (runEv p w a) b := by
  unfold runEv; rw [List.foldl_append]

/-- events that are not non-empty reports keep `lastUpdated` and `weightVal` -/
theorem runEv_quiet (p : α) (evs : List (Ev α)) : ∀ (w : EW α), (∀ e ∈ evs, e.nonEmptyReport = false) →
    (runEv p w evs).lastUpdated = w.lastUpdated ∧ (runEv p w evs).weightVal = w.weightVal := by
  induction evs with
  | nil => intro w _; exact ⟨rfl, rfl⟩
  | cons e evs ih =>
    intro w h
    have he := h e List.mem_cons_self
    have ht := ih (applyEv p w e) (fun e' he' => h e' (List.mem_cons_of_mem _ he'))
    have hstep : (applyEv p w e).lastUpdated = w.lastUpdated ∧ (applyEv p w e).weightVal = w.weightVal := by
      cases e with
      | report now r =>
        simp only [Ev.nonEmptyReport, Bool.not_eq_false'] at he
        simp [applyEv, onLoadReport, he]
      | query now exp b => exact weight_state now exp b w
    show (runEv p (applyEv p w e) evs).lastUpdated = _ ∧ (runEv p (applyEv p w e) evs).weightVal = _
    rw [ht.1, ht.2]; exact hstep

/-- `nonEmptySince`, when set, is the time of a non-empty report of the history (or the initial value) -/
theorem runEv_since (p : α) (evs : List (Ev α)) : ∀ (w : EW α) (t : Int),
    (runEv p w evs).nonEmptySince = some t →
      w.nonEmptySince = some t ∨ ∃ r, Ev.report t r ∈ evs ∧ r.empty = false := by
  induction evs with
  | nil => intro w t h; exact Or.inl h
  | cons e evs ih =>
    intro w t h
    rcases ih (applyEv p w e) t h with h1 | ⟨r, hr, hre⟩
    · cases e with
      | report now r =>
        simp only [applyEv, onLoadReport] at h1
        by_cases he : r.empty
        · simp [he] at h1; exact Or.inl h1
        · simp only [he] at h1
          cases hs : w.nonEmptySince with
          | none =>
            simp [hs] at h1
            subst h1
            exact Or.inr ⟨r, List.mem_cons_self, by simpa using he⟩
          | some t' =>
            simp [hs] at h1
            subst h1; exact Or.inl rfl
      | query now exp b =>
        rcases weight_since now exp b w with h2 | h2
        · simp only [applyEv] at h1; rw [h2] at h1; exact Or.inl h1
        · simp only [applyEv] at h1; rw [h2] at h1; cases h1
    · exact Or.inr ⟨r, List.mem_cons_of_mem _ hr, hre⟩

end EW

end GrpcProofs.Lemmas.WRRScale
