import GrpcModel.Model.RLSAdaptive
namespace GrpcProofs.Lemmas.RLSAdaptive
open GrpcModel.RLSAdaptive

theorem S_congr (H : List (Nat × Int)) (P Q : Nat → Bool) (h : ∀ x ∈ H, P x.1 = Q x.1) : S H P = S H Q := by
  induction H with
  | nil => rfl
  | cons x t ih =>
    obtain ⟨p, v⟩ := x
    simp only [S]
    rw [ih (fun y hy => h y (List.mem_cons_of_mem _ hy))]
    have := h (p, v) (List.mem_cons_self)
    simp only at this
    rw [this]

theorem S_false (H : List (Nat × Int)) (P : Nat → Bool) (h : ∀ x ∈ H, P x.1 = false) : S H P = 0 := by
  induction H with
  | nil => rfl
  | cons x t ih =>
    obtain ⟨p, v⟩ := x
    simp only [S]
    rw [ih (fun y hy => h y (List.mem_cons_of_mem _ hy))]
    have := h (p, v) (List.mem_cons_self)
    simp only at this
    simp [this]

theorem S_split (H : List (Nat × Int)) (P R : Nat → Bool) :
    S H P = S H (fun p => P p && R p) + S H (fun p => P p && !R p) := by
  induction H with
  | nil => rfl
  | cons x t ih =>
    obtain ⟨p, v⟩ := x
    simp only [S]
    rw [ih]
    by_cases hp : P p = true <;> by_cases hr : R p = true <;> simp [hp, hr] <;> omega

theorem mod_window {b p q : Nat} (h : p % b = q % b) (h1 : p ≤ q) (h2 : q < p + b) : p = q := by
  have h3 : (q - p) % b = 0 := Nat.sub_mod_eq_zero_of_mod_eq h.symm
  have h4 : (q - p) % b = q - p := Nat.mod_eq_of_lt (by omega)
  omega

/-- the representation invariant w.r.t. a (virtual) head `h` -/
def Inv' (l : LB) (H : List (Nat × Int)) (h : Nat) : Prop :=
  (∀ i, i < l.bins → l.buf i = S H (fun p => decide (p % l.bins = i) && inWindow h l.bins p)) ∧
  l.total = S H (inWindow h l.bins)

/-- moving the window one bin forward, for bins of recorded adds (all ≤ h) -/
theorem window_succ {b h p : Nat} (hp : p ≤ h) :
    inWindow (h + 1) b p = (inWindow h b p && !decide (p % b = (h + 1) % b)) := by
  unfold inWindow
  by_cases c1 : h + 1 < p + b
  · have c2 : h < p + b := by omega
    have c3 : ¬ p % b = (h + 1) % b := by
      intro e
      have := mod_window e (by omega) c1
      omega
    simp [c1, c2, c3, hp]; omega
  · by_cases c2 : h < p + b
    · have e : h + 1 = p + b := by omega
      have c3 : p % b = (h + 1) % b := by rw [e, Nat.add_mod_right]
      simp [c1, c2, c3]
    · simp [c1, c2]

theorem clear_step {l : LB} {H : List (Nat × Int)} {h : Nat} (hb : 0 < l.bins) (inv : Inv' l H h)
    (hL : ∀ x ∈ H, x.1 ≤ h) : Inv' (clearBin l ((h + 1) % l.bins)) H (h + 1) := by
  obtain ⟨hB, hT⟩ := inv
  have hi0 : (h + 1) % l.bins < l.bins := Nat.mod_lt _ hb
  constructor
  · intro i hi
    simp only [clearBin, setBuf]
    by_cases e : i = (h + 1) % l.bins
    · rw [if_pos e]
      symm
      apply S_false
      intro x hx
      rw [window_succ (hL x hx)]
      subst e
      by_cases c : x.1 % l.bins = (h + 1) % l.bins <;> simp [c]
    · rw [if_neg e, hB i hi]
      apply S_congr
      intro x hx
      rw [window_succ (hL x hx)]
      by_cases c : x.1 % l.bins = i
      · simp [c, e]
      · simp [c]
  · simp only [clearBin]
    rw [hT, hB _ hi0, S_split H (inWindow h l.bins) (fun p => decide (p % l.bins = (h + 1) % l.bins))]
    have e1 : S H (fun p => decide (p % l.bins = (h + 1) % l.bins) && inWindow h l.bins p) =
        S H (fun p => inWindow h l.bins p && decide (p % l.bins = (h + 1) % l.bins)) :=
      S_congr _ _ _ (fun x _ => Bool.and_comm _ _)
    have e2 : S H (inWindow (h + 1) l.bins) =
        S H (fun p => inWindow h l.bins p && !decide (p % l.bins = (h + 1) % l.bins)) :=
      S_congr _ _ _ (fun x hx => window_succ (hL x hx))
    rw [e1, e2]; omega

theorem clearBin_bins (l : LB) (i : Nat) : (clearBin l i).bins = l.bins := rfl

theorem clearLoop_bins (l : LB) (ch j n : Nat) : (clearLoop l ch j n).bins = l.bins ∧
    (clearLoop l ch j n).width = l.width ∧ (clearLoop l ch j n).head = l.head := by
  induction n generalizing l j with
  | zero => exact ⟨rfl, rfl, rfl⟩
  | succ n ih => simp only [clearLoop]; have := ih (clearBin l ((ch + j + 1) % l.bins)) (j + 1); exact this

theorem clearLoop_inv {l : LB} {H : List (Nat × Int)} (ch : Nat) (hb : 0 < l.bins) (hL : ∀ x ∈ H, x.1 ≤ ch)
    (j n : Nat) (inv : Inv' l H (ch + j)) : Inv' (clearLoop l ch j n) H (ch + j + n) := by
  induction n generalizing l j with
  | zero => simpa [clearLoop] using inv
  | succ n ih =>
    simp only [clearLoop]
    have st := clear_step hb inv (fun x hx => by have := hL x hx; omega)
    have := ih (l := clearBin l ((ch + j + 1) % l.bins)) hb (j + 1) (by simpa [Nat.add_assoc] using st)
    simpa [Nat.add_assoc, Nat.add_comm 1 n] using this

/-- once every recorded bin is at least `bins` behind, the head may jump -/
theorem jump_inv {l : LB} {H : List (Nat × Int)} {h h' : Nat} (inv : Inv' l H h)
    (hOld : ∀ x ∈ H, x.1 + l.bins ≤ h) (hh : h ≤ h') : Inv' l H h' := by
  obtain ⟨hB, hT⟩ := inv
  have z : ∀ g, h ≤ g → ∀ x ∈ H, inWindow g l.bins x.1 = false := by
    intro g hg x hx
    have := hOld x hx
    simp [inWindow]; omega
  constructor
  · intro i hi
    rw [hB i hi, S_false, S_false]
    · intro x hx; simp [z h' hh x hx]
    · intro x hx; simp [z h (Nat.le_refl _) x hx]
  · rw [hT, S_false _ _ (z h (Nat.le_refl _)), S_false _ _ (z h' hh)]

/-- full invariant: representation w.r.t. the real head, and every recorded bin is ≤ head -/
structure Inv (l : LB) (H : List (Nat × Int)) : Prop where
  rep : Inv' l H l.head
  le  : ∀ x ∈ H, x.1 ≤ l.head

theorem advance_inv {l : LB} {H : List (Nat × Int)} (t : Nat) (hb : 0 < l.bins) (inv : Inv l H) :
    Inv (advance l t).1 H ∧ (advance l t).2 = t / l.width ∧ (advance l t).1.head = max l.head (t / l.width) ∧
    (advance l t).1.bins = l.bins ∧ (advance l t).1.width = l.width := by
  by_cases hle : t / l.width ≤ l.head
  · have e : advance l t = (l, t / l.width) := by simp [advance, hle]
    rw [e]
    exact ⟨inv, rfl, by simp only; omega, rfl, rfl⟩
  · have e : advance l t =
        ({ clearLoop l l.head 0 (min l.bins (t / l.width - l.head)) with head := t / l.width }, t / l.width) := by
      simp [advance, hle]
    rw [e]
    have hcl := clearLoop_bins l l.head 0 (min l.bins (t / l.width - l.head))
    refine ⟨⟨?_, ?_⟩, rfl, by simp only; omega, hcl.1, hcl.2.1⟩
    · show Inv' { clearLoop l l.head 0 (min l.bins (t / l.width - l.head)) with head := t / l.width } H (t / l.width)
      have base : Inv' l H (l.head + 0) := by simpa using inv.rep
      have lp := clearLoop_inv l.head hb inv.le 0 (min l.bins (t / l.width - l.head)) base
      have lp' : Inv' (clearLoop l l.head 0 (min l.bins (t / l.width - l.head))) H
          (l.head + min l.bins (t / l.width - l.head)) := by simpa using lp
      -- the record update only changes `head`, which Inv' does not mention
      have tr : ∀ (m : LB) (g nh : Nat), Inv' m H g → Inv' { m with head := nh } H g := fun m g nh h => h
      apply tr
      by_cases c : t / l.width - l.head ≤ l.bins
      · have : l.head + min l.bins (t / l.width - l.head) = t / l.width := by omega
        rw [this] at lp'; exact lp'
      · have e : min l.bins (t / l.width - l.head) = l.bins := by omega
        rw [e] at lp' ⊢
        refine jump_inv lp' ?_ (by omega)
        intro x hx
        have := inv.le x hx
        have hb' := (clearLoop_bins l l.head 0 l.bins).1
        rw [hb']; omega
    · intro x hx; have := inv.le x hx; simp only; omega

theorem add_inv {l : LB} {H : List (Nat × Int)} (t : Nat) (v : Int) (hb : 0 < l.bins) (inv : Inv l H) :
    Inv (add l t v) ((t / l.width, v) :: H) ∧ (add l t v).head = max l.head (t / l.width) ∧
    (add l t v).bins = l.bins ∧ (add l t v).width = l.width := by
  obtain ⟨ai, apos, ahead, abins, awidth⟩ := advance_inv t hb inv
  unfold add
  simp only
  generalize advance l t = r at ai apos ahead abins awidth
  obtain ⟨l1, pos⟩ := r
  simp only at ai apos ahead abins awidth ⊢
  subst apos
  have hpos : t / l.width ≤ l1.head := by omega
  obtain ⟨⟨hB, hT⟩, hL⟩ := ai
  split
  · rename_i hold
    refine ⟨⟨⟨?_, ?_⟩, ?_⟩, ahead, abins, awidth⟩
    · intro i hi
      rw [hB i hi]; simp only [S]
      have : inWindow l1.head l1.bins (t / l.width) = false := by simp [inWindow]; omega
      simp [this]
    · rw [hT]; simp only [S]
      have : inWindow l1.head l1.bins (t / l.width) = false := by simp [inWindow]; omega
      simp [this]
    · intro x hx
      rcases List.mem_cons.mp hx with rfl | hx
      · exact hpos
      · exact hL x hx
  · rename_i hnew
    have win : inWindow l1.head l1.bins (t / l.width) = true := by simp [inWindow]; omega
    refine ⟨⟨⟨?_, ?_⟩, ?_⟩, ahead, abins, awidth⟩
    · intro i hi
      simp only [setBuf, S]
      by_cases e : i = t / l.width % l1.bins
      · subst e; simp [win, hB _ hi]; omega
      · have : ¬ (t / l.width % l1.bins = i) := fun h => e h.symm
        simp [e, this, hB i hi]
    · simp only [S, win]; rw [hT]; simp; omega
    · intro x hx
      rcases List.mem_cons.mp hx with rfl | hx
      · exact hpos
      · exact hL x hx

theorem inv_new (bins duration : Nat) : Inv (newLookback bins duration) [] := by
  constructor
  · constructor
    · intro i _; simp [newLookback, S]
    · simp [newLookback, S]
  · intro x hx; cases hx

end GrpcProofs.Lemmas.RLSAdaptive

namespace GrpcProofs.Lemmas.RLSAdaptive
open GrpcModel.RLSAdaptive

theorem step_inv {l : LB} {H : List (Nat × Int)} (o : Op) (hb : 0 < l.bins) (inv : Inv l H) :
    Inv (step l o) (histStep l.width H o) ∧ (step l o).head = maxStep l.width l.head o ∧
    (step l o).bins = l.bins ∧ (step l o).width = l.width := by
  cases o with
  | add t v => exact add_inv t v hb inv
  | sum t =>
    obtain ⟨ai, _, ahead, abins, awidth⟩ := advance_inv t hb inv
    exact ⟨ai, ahead, abins, awidth⟩

theorem run_inv (ops : List Op) {l : LB} {H : List (Nat × Int)} (hb : 0 < l.bins) (inv : Inv l H) :
    Inv (ops.foldl step l) (ops.foldl (histStep l.width) H) ∧
    (ops.foldl step l).head = ops.foldl (maxStep l.width) l.head ∧
    (ops.foldl step l).bins = l.bins ∧ (ops.foldl step l).width = l.width := by
  induction ops generalizing l H with
  | nil => exact ⟨inv, rfl, rfl, rfl⟩
  | cons o t ih =>
    simp only [List.foldl]
    obtain ⟨i1, h1, b1, w1⟩ := step_inv o hb inv
    have := ih (l := step l o) (H := histStep l.width H o) (by rw [b1]; exact hb) i1
    rw [w1, h1, b1] at this
    exact this

/-- everything about a lookback reached from newLookback by any sequence of add / sum calls -/
theorem run_new (bins duration : Nat) (hb : 0 < bins) (ops : List Op) :
    let l := run (newLookback bins duration) ops
    let w := duration / bins
    l.total = windowSum (hist w ops) (maxBin w ops) bins ∧ l.head = maxBin w ops ∧ l.bins = bins ∧ l.width = w ∧
    (∀ i, i < bins → l.buf i = S (hist w ops) (fun p => decide (p % bins = i) && inWindow (maxBin w ops) bins p)) := by
  have h := run_inv ops (l := newLookback bins duration) (H := []) hb (inv_new bins duration)
  obtain ⟨⟨⟨hB, hT⟩, _⟩, hh, hbn, hw⟩ := h
  have e1 : (newLookback bins duration).width = duration / bins := rfl
  have e2 : (newLookback bins duration).head = 0 := rfl
  have e3 : (newLookback bins duration).bins = bins := rfl
  rw [e1] at hh hw
  rw [e2] at hh
  rw [e3] at hbn
  simp only [run, hist, maxBin, windowSum]
  rw [e1] at hB hT
  refine ⟨?_, hh, hbn, hw, ?_⟩
  · rw [hT, hh, hbn]
  · intro i hi
    have := hB i (by rw [hbn]; exact hi)
    rw [this, hh, hbn]

end GrpcProofs.Lemmas.RLSAdaptive
