import GrpcModel.Model.Alts
namespace GrpcProofs.Lemmas.Alts
open GrpcModel.Alts GrpcModel.Generated

/-! ### safety: whatever the network does, only the sender's bytes come out, in order -/

theorem aeadOpen_some (sent : List (List UInt8)) (c : Nat) (b : List Cell) (p : List UInt8)
    (h : aeadOpen sent c b = some p) : sent[c]? = some p := by
  unfold aeadOpen at h
  split at h
  · simp at h
  · rename_i q hq; split at h <;> simp at h; subst h; exact hq

theorem take_succ_flatten (sent : List (List UInt8)) (c : Nat) (p : List UInt8) (h : sent[c]? = some p) :
    (sent.take (c + 1)).flatten = (sent.take c).flatten ++ p := by
  rw [List.take_succ, h]; simp

/-- the five ways a Read can go -/
theorem read_cases (r : R) (n : Nat) :
    (∃ e, r.err = some e ∧ GrpcModel.Alts.read r n = (r, .fail e)) ∨
    (r.err = none ∧ r.buf ≠ [] ∧ GrpcModel.Alts.read r n = ({ r with buf := r.buf.drop n }, .data (r.buf.take n))) ∨
    (r.err = none ∧ r.buf = [] ∧ parseFramed r.pending = .incomplete ∧ GrpcModel.Alts.read r n = (r, .block)) ∨
    (r.err = none ∧ r.buf = [] ∧ ∃ e, (parseFramed r.pending = .err e ∨ ∃ msg rest, parseFramed r.pending = .frame msg rest ∧ openFrame r msg = .error e) ∧
      GrpcModel.Alts.read r n = ({ r with err := some e }, .fail e)) ∨
    (r.err = none ∧ r.buf = [] ∧ ∃ msg rest p, parseFramed r.pending = .frame msg rest ∧ openFrame r msg = .ok p ∧
      GrpcModel.Alts.read r n = ({ r with pending := rest, ctr := r.ctr + 1, buf := p.drop n }, .data (p.take n))) := by
  cases he : r.err with
  | some e => exact Or.inl ⟨e, rfl, by simp [GrpcModel.Alts.read, he]⟩
  | none =>
    refine Or.inr ?_
    by_cases hb : r.buf = []
    · refine Or.inr ?_
      cases hp : parseFramed r.pending with
      | incomplete => exact Or.inl ⟨rfl, hb, rfl, by simp [GrpcModel.Alts.read, he, hb, hp]⟩
      | err e => exact Or.inr (Or.inl ⟨rfl, hb, e, Or.inl rfl, by simp [GrpcModel.Alts.read, he, hb, hp]⟩)
      | frame msg rest =>
        refine Or.inr ?_
        cases ho : openFrame r msg with
        | error e => exact Or.inl ⟨rfl, hb, e, Or.inr ⟨msg, rest, rfl, ho⟩, by simp [GrpcModel.Alts.read, he, hb, hp, ho]⟩
        | ok p => exact Or.inr ⟨rfl, hb, msg, rest, p, rfl, ho, by simp [GrpcModel.Alts.read, he, hb, hp, ho]⟩
    · exact Or.inl ⟨rfl, hb, by simp [GrpcModel.Alts.read, he, hb]⟩

theorem openFrame_ok (r : R) (msg : List Cell) (p : List UInt8) (ho : openFrame r msg = .ok p) :
    r.sent[r.ctr]? = some p ∧ r.ctr < r.ctrMax := by
  unfold openFrame at ho
  split at ho
  · simp at ho
  · split at ho
    · simp at ho
    · split at ho
      · simp at ho
      · split at ho
        · simp at ho
        · rename_i hc
          split at ho
          · simp at ho
          · rename_i q hq
            have : q = p := by simpa using ho
            subst this
            exact ⟨aeadOpen_some _ _ _ _ hq, by omega⟩

theorem read_sent (r : R) (n : Nat) : (GrpcModel.Alts.read r n).1.sent = r.sent := by
  rcases read_cases r n with ⟨e, _, h⟩ | ⟨_, _, h⟩ | ⟨_, _, _, h⟩ | ⟨_, _, e, _, h⟩ | ⟨_, _, _, _, _, _, _, h⟩ <;> rw [h]

/-- one Read: (delivered so far) ++ buf stays equal to the concatenation of the first `ctr` payloads -/
theorem read_safe (r : R) (n : Nat) (d : List UInt8)
    (h : d ++ r.buf = (r.sent.take r.ctr).flatten) :
    (d ++ (GrpcModel.Alts.read r n).2.bytes) ++ (GrpcModel.Alts.read r n).1.buf
      = ((GrpcModel.Alts.read r n).1.sent.take (GrpcModel.Alts.read r n).1.ctr).flatten := by
  rcases read_cases r n with ⟨e, _, hr⟩ | ⟨_, _, hr⟩ | ⟨_, _, _, hr⟩ | ⟨_, _, e, _, hr⟩ | ⟨_, hb, msg, rest, p, _, ho, hr⟩ <;> rw [hr]
  · simpa [ROut.bytes] using h
  · simp only [ROut.bytes]
    rw [List.append_assoc, List.take_append_drop]; exact h
  · simpa [ROut.bytes] using h
  · simpa [ROut.bytes] using h
  · have hs := (openFrame_ok r msg p ho).1
    simp only [ROut.bytes]
    rw [take_succ_flatten r.sent r.ctr p hs, List.append_assoc, List.take_append_drop]
    rw [hb] at h; simp at h; rw [h]

theorem run_safe (ops : List Op) (r : R) (d : List UInt8)
    (h : d ++ r.buf = (r.sent.take r.ctr).flatten) :
    (d ++ (run r ops).2) ++ (run r ops).1.buf = ((run r ops).1.sent.take (run r ops).1.ctr).flatten
    ∧ (run r ops).1.sent = r.sent := by
  induction ops generalizing r d with
  | nil => simp [run, h]
  | cons o ops ih =>
    cases o with
    | feed cs =>
      simp only [run]
      exact ih (feed r cs) d (by simpa [feed] using h)
    | read n =>
      simp only [run]
      have s := read_safe r n d h
      have e := read_sent r n
      have := ih (GrpcModel.Alts.read r n).1 (d ++ (GrpcModel.Alts.read r n).2.bytes) s
      constructor
      · rw [← List.append_assoc]; exact this.1
      · rw [this.2, e]

/-! ### clean streams: framing round trip -/

theorem le32val_le32 (n : Nat) (h : n < 4294967296) : le32val? ((le32 n).map .known) = some n := by
  simp only [le32, List.map, le32val?, Cell.val?, bind, Option.bind, pure]
  congr 1
  omega

theorem recordCells_length (k : Nat) (p : List UInt8) : (recordCells k p).length = 24 + p.length := by
  simp [recordCells, le32, tagSize, gcmTagSize]; omega

/-- the frame body of a record: type field + sealed block -/
def body (k : Nat) (p : List UInt8) : List Cell :=
  (le32 altsRecordMsgType).map .known ++ (List.range (p.length + tagSize)).map (.ct k)

theorem recordCells_eq (k : Nat) (p : List UInt8) :
    recordCells k p = (le32 (msgTypeFieldSize + p.length + tagSize)).map .known ++ body k p := by
  simp [recordCells, body]

theorem body_length (k : Nat) (p : List UInt8) : (body k p).length = 20 + p.length := by
  simp [body, le32, tagSize, gcmTagSize]; omega

/-- a buffer that starts with a whole record parses to that record's body -/
theorem parse_complete (k : Nat) (p : List UInt8) (rest : List Cell)
    (hl : p.length + 20 ≤ altsRecordLengthLimit) :
    parseFramed (recordCells k p ++ rest) = .frame (body k p) rest := by
  have hlim : altsRecordLengthLimit = 1048576 := rfl
  have hlen : msgTypeFieldSize + p.length + tagSize = 20 + p.length := by
    simp [msgTypeFieldSize, tagSize, gcmTagSize]; omega
  unfold parseFramed
  have e1 : (recordCells k p ++ rest).length = 24 + p.length + rest.length := by
    simp [recordCells_length]
  have t4 : (recordCells k p ++ rest).take 4 = (le32 (msgTypeFieldSize + p.length + tagSize)).map .known := by
    rw [recordCells_eq]; simp [le32]
  rw [if_neg (by rw [e1]; simp [msgLenFieldSize]; omega)]
  rw [t4, le32val_le32 _ (by omega)]
  simp only []
  rw [if_neg (by omega), if_neg (by rw [e1]; omega)]
  have d4 : (recordCells k p ++ rest).drop 4 = body k p ++ rest := by
    rw [recordCells_eq]; simp [le32]
  have d24 : (recordCells k p ++ rest).drop (4 + (msgTypeFieldSize + p.length + tagSize)) = rest := by
    rw [hlen, show 4 + (20 + p.length) = (recordCells k p).length by rw [recordCells_length]; omega]
    simp
  rw [d4, d24, hlen]
  have : (body k p ++ rest).take (20 + p.length) = body k p := by
    rw [← body_length k p]; simp
  rw [this]

/-- a strict prefix of a record is an incomplete frame -/
theorem parse_prefix (k : Nat) (p : List UInt8) (rest pend : List Cell)
    (hl : p.length + 20 ≤ altsRecordLengthLimit)
    (hp : pend <+: recordCells k p ++ rest) (hs : pend.length < 24 + p.length) :
    parseFramed pend = .incomplete := by
  have hlim : altsRecordLengthLimit = 1048576 := rfl
  have hlen : msgTypeFieldSize + p.length + tagSize = 20 + p.length := by
    simp [msgTypeFieldSize, tagSize, gcmTagSize]; omega
  unfold parseFramed
  by_cases h4 : pend.length < msgLenFieldSize
  · rw [if_pos h4]
  · rw [if_neg h4]
    have h4' : 4 ≤ pend.length := by simp [msgLenFieldSize] at h4; omega
    have t4 : pend.take 4 = (le32 (msgTypeFieldSize + p.length + tagSize)).map .known := by
      obtain ⟨t, ht⟩ := hp
      have : (pend ++ t).take 4 = pend.take 4 := by
        rw [List.take_append_of_le_length h4']
      rw [← this, ht, recordCells_eq]; simp [le32]
    rw [t4, le32val_le32 _ (by omega)]
    simp only []
    rw [if_neg (by omega), if_pos (by omega)]

theorem open_body (r : R) (p : List UInt8) (hs : r.sent[r.ctr]? = some p) (hc : r.ctr < r.ctrMax) :
    openFrame r (body r.ctr p) = .ok p := by
  unfold openFrame
  have bl := body_length r.ctr p
  rw [if_neg (by rw [bl]; simp [msgTypeFieldSize]; omega)]
  have h0 : ((body r.ctr p).take 4).head? >>= Cell.val? = some 6 := by
    simp [body, le32, altsRecordMsgType, Cell.val?]
  rw [h0]
  simp only []
  rw [if_neg (by simp [altsRecordMsgType]), if_neg (by omega)]
  have d4 : (body r.ctr p).drop 4 = (List.range (p.length + tagSize)).map (.ct r.ctr) := by
    simp [body, le32]
  rw [d4]
  simp [aeadOpen, hs]

/-- Clean: no error so far, and what is pending plus what the network still holds (`unfed`) is
    exactly the peer's records from number `ctr` on. -/
structure Clean (r : R) (unfed : List Cell) : Prop where
  noErr : r.err = none
  wire  : r.pending ++ unfed = cellsFrom r.ctr (r.sent.drop r.ctr)
  small : ∀ p ∈ r.sent, p.length + 20 ≤ altsRecordLengthLimit
  ctrOk : r.sent.length ≤ r.ctrMax

theorem clean_feed (r : R) (a b : List Cell) (h : Clean r (a ++ b)) : Clean (feed r a) b := by
  obtain ⟨h1, h2, h3, h4⟩ := h
  exact ⟨h1, by simpa [feed, List.append_assoc] using h2, h3, h4⟩

theorem drop_cons_of_getElem? {α} (l : List α) (k : Nat) (x : α) (h : l[k]? = some x) :
    l.drop k = x :: l.drop (k + 1) := by
  have hk : k < l.length := by
    rcases Nat.lt_or_ge k l.length with h' | h'
    · exact h'
    · rw [List.getElem?_eq_none h'] at h; simp at h
  rw [List.drop_eq_getElem_cons hk]
  rw [List.getElem?_eq_getElem hk] at h
  simp at h; rw [h]

/-- what a clean pending buffer parses to -/
theorem clean_parse (r : R) (unfed : List Cell) (h : Clean r unfed) :
    parseFramed r.pending = .incomplete ∨
    ∃ p rest, r.sent[r.ctr]? = some p ∧ r.ctr < r.ctrMax ∧ parseFramed r.pending = .frame (body r.ctr p) rest ∧
      rest ++ unfed = cellsFrom (r.ctr + 1) (r.sent.drop (r.ctr + 1)) := by
  obtain ⟨h1, h2, h3, h4⟩ := h
  rcases Nat.lt_or_ge r.ctr r.sent.length with hk | hk
  · have hq : r.sent[r.ctr]? = some r.sent[r.ctr] := List.getElem?_eq_getElem hk
    have hd := drop_cons_of_getElem? r.sent r.ctr _ hq
    rw [hd, cellsFrom] at h2
    have hs := h3 _ (List.getElem_mem hk)
    generalize r.sent[r.ctr] = p at *
    have al := recordCells_length r.ctr p
    rcases Nat.lt_or_ge r.pending.length (24 + p.length) with hl | hl
    · left
      exact parse_prefix r.ctr p _ r.pending hs ⟨unfed, h2⟩ hl
    · right
      have ht : r.pending.take (24 + p.length) = recordCells r.ctr p := by
        have := congrArg (List.take (24 + p.length)) h2
        rw [List.take_append_of_le_length hl] at this
        rw [this, ← al]; simp
      have hdp : r.pending.drop (24 + p.length) ++ unfed = cellsFrom (r.ctr + 1) (r.sent.drop (r.ctr + 1)) := by
        have := congrArg (List.drop (24 + p.length)) h2
        rw [List.drop_append_of_le_length hl] at this
        rw [this, ← al]; simp
      refine ⟨p, r.pending.drop (24 + p.length), hq, by omega, ?_, hdp⟩
      have : r.pending = recordCells r.ctr p ++ r.pending.drop (24 + p.length) := by
        rw [← ht, List.take_append_drop]
      rw [this]
      have pc := parse_complete r.ctr p (r.pending.drop (24 + p.length)) hs
      rw [← this] at pc ⊢
      exact pc
  · left
    rw [List.drop_eq_nil_of_le hk, cellsFrom] at h2
    have : r.pending = [] := by
      cases hpnd : r.pending with
      | nil => rfl
      | cons x xs => rw [hpnd] at h2; simp at h2
    rw [this]; rfl

/-- In a clean state a Read never fails, stays clean, and blocks only when the next record has not
    arrived completely (so, once everything was fed, only when every record has been opened). -/
theorem clean_read (r : R) (unfed : List Cell) (n : Nat) (h : Clean r unfed) :
    Clean (GrpcModel.Alts.read r n).1 unfed ∧ (∀ e, (GrpcModel.Alts.read r n).2 ≠ .fail e) ∧
    ((GrpcModel.Alts.read r n).2 = .block → unfed = [] → r.buf = [] ∧ r.sent.length ≤ r.ctr) := by
  have cp := clean_parse r unfed h
  obtain ⟨h1, h2, h3, h4⟩ := h
  rcases read_cases r n with ⟨e, he, _⟩ | ⟨_, hb, hr⟩ | ⟨_, hb, hp, hr⟩ | ⟨_, hb, e, hw, hr⟩ | ⟨_, hb, msg, rest, p, hp, ho, hr⟩
  · rw [h1] at he; simp at he
  · rw [hr]; exact ⟨⟨h1, h2, h3, h4⟩, by simp, by simp⟩
  · rw [hr]
    refine ⟨⟨h1, h2, h3, h4⟩, by simp, ?_⟩
    intro _ hu
    refine ⟨hb, ?_⟩
    subst hu
    rcases Nat.lt_or_ge r.ctr r.sent.length with hk | hk
    · exfalso
      have hq : r.sent[r.ctr]? = some r.sent[r.ctr] := List.getElem?_eq_getElem hk
      have hd := drop_cons_of_getElem? r.sent r.ctr _ hq
      rw [hd, cellsFrom] at h2
      simp at h2
      have := parse_complete r.ctr r.sent[r.ctr] (cellsFrom (r.ctr + 1) (r.sent.drop (r.ctr + 1)))
        (h3 _ (List.getElem_mem hk))
      rw [← h2] at this
      rw [this] at hp; simp at hp
    · exact hk
  · exfalso
    rcases cp with cp | ⟨p, rest, hs, hc, hpf, _⟩
    · rcases hw with hw | ⟨m, rs, hw, _⟩ <;> (rw [cp] at hw; simp at hw)
    · rcases hw with hw | ⟨m, rs, hw, ho⟩
      · rw [hpf] at hw; simp at hw
      · rw [hpf] at hw
        simp at hw
        obtain ⟨hm, _⟩ := hw
        rw [← hm, open_body r p hs hc] at ho; simp at ho
  · rcases cp with cp | ⟨q, rest', hs, hc, hpf, hrest⟩
    · rw [cp] at hp; simp at hp
    · rw [hpf] at hp
      simp at hp
      obtain ⟨hm, hrs⟩ := hp
      rw [hr]
      refine ⟨⟨h1, ?_, h3, h4⟩, by simp, by simp⟩
      simp only []
      rw [← hrs]; exact hrest

/-! ### counter and chunking -/

theorem incBytes_spec (bs : List Nat) (n : Nat) (hb : ∀ b ∈ bs, b < 256) (hn : n ≤ bs.length) :
    ((incBytes bs n).2 = false → leVal (incBytes bs n).1 n = leVal bs n + 1) ∧
    ((incBytes bs n).2 = true ↔ leVal bs n + 1 = 256 ^ n) ∧
    (incBytes bs n).1.drop n = bs.drop n ∧ (incBytes bs n).1.length = bs.length ∧
    leVal bs n < 256 ^ n := by
  induction n generalizing bs with
  | zero => simp [incBytes, leVal]
  | succ n ih =>
    cases bs with
    | nil => simp at hn
    | cons b bs =>
      have hb0 : b < 256 := hb b (by simp)
      have ih' := ih bs (fun x hx => hb x (by simp [hx])) (by simpa using hn)
      obtain ⟨i1, i2, i3, i4, i5⟩ := ih'
      simp only [incBytes]
      by_cases hw : (b + 1) % 256 ≠ 0
      · rw [if_pos hw]
        have : (b + 1) % 256 = b + 1 := by omega
        simp only [leVal, List.drop_succ_cons, List.length_cons, Nat.pow_succ]
        refine ⟨fun _ => by omega, ?_, trivial, trivial, by omega⟩
        constructor
        · intro h; simp at h
        · intro h; exfalso; omega
      · rw [if_neg hw]
        have hb255 : b = 255 := by omega
        simp only [leVal, List.drop_succ_cons, List.length_cons, Nat.pow_succ]
        refine ⟨fun h => ?_, ?_, i3, by simpa using i4, by omega⟩
        · have := i1 h; omega
        · constructor
          · intro h; have := i2.1 h; omega
          · intro h; apply i2.2; omega

theorem chunks_spec (limit : Nat) (hl : 0 < limit) (fuel : Nat) (b : List UInt8) (hf : b.length ≤ fuel) :
    (chunks limit fuel b).flatten = b ∧ ∀ c ∈ chunks limit fuel b, c.length ≤ limit ∧ c ≠ [] := by
  induction fuel generalizing b with
  | zero =>
    have : b = [] := by cases b <;> simp at hf ⊢
    subst this; simp [chunks]
  | succ f ih =>
    simp only [chunks]
    by_cases hb : b = []
    · simp [hb]
    · rw [if_neg hb]
      have hlen : 0 < b.length := by cases b <;> simp at hb ⊢
      have := ih (b.drop limit) (by simp; omega)
      refine ⟨by simp [this.1], ?_⟩
      intro c hc
      simp at hc
      rcases hc with hc | hc
      · subst hc
        refine ⟨List.length_take_le _ _, ?_⟩
        intro h
        have := congrArg List.length h
        simp only [List.length_take, List.length_nil] at this; omega
      · exact this.2 c hc

end GrpcProofs.Lemmas.Alts
