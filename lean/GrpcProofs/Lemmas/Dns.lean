import GrpcModel.Model.Dns
namespace GrpcProofs.Lemmas.Dns
open GrpcModel.Dns

def countOk : List (Nat × Bool) → Nat
  | [] => 0
  | (_, ok) :: t => (if ok then 1 else 0) + countOk t

/-- delay parameter of an event (none for events that carry none) -/
def evDelayOk (D : Nat) : Ev → Prop
  | .build _ d _ => D ≤ d
  | .tick _ _ d _ => D ≤ d
  | _ => True

/-- Invariant of the watcher, for backoff delays that are all ≥ D. -/
structure Inv (D : Nat) (w : W) : Prop where
  tokens : w.consumed + (if w.rn then 1 else 0) ≤ w.rnCalls
  okCnt  : countOk w.lookups ≤ w.consumed + 1
  tailOk : countOk w.lookups.tail ≤ w.consumed
  okWaitT : ∀ a, w.mode = .waitT a → countOk w.lookups = w.consumed
  okWaitRN : ∀ n, w.mode = .waitRN n → countOk w.lookups = w.consumed + 1 ∧ w.rn = false
  idleEmpty : w.mode = .idle → w.lookups = [] ∧ w.consumed = 0
  times  : ∀ t b, w.lookups.head? = some (t, b) → t ≤ w.now
  dueOk  : ∀ a t, w.mode = .waitT a → w.lookups.head? = some (t, true) → t + w.minI ≤ a
  dueFail : ∀ a t, w.mode = .waitT a → w.lookups.head? = some (t, false) → t + D ≤ a
  dueRN  : ∀ n, w.mode = .waitRN n → ∃ t, w.lookups.head? = some (t, true) ∧ t + w.minI ≤ n ∧ n = w.lastDone + w.minI
  doneOk : ∀ a t, w.mode = .waitT a → w.lookups.head? = some (t, true) → w.lastDone + w.minI ≤ a
  doneFail : ∀ a t, w.mode = .waitT a → w.lookups.head? = some (t, false) → w.lastDone + D ≤ a
  doneLe : w.lastDone ≤ w.now

theorem inv_init (D m : Nat) : Inv D (W.init m) := by
  constructor <;> simp [W.init, countOk]

theorem doLookup_inv (D : Nat) (w : W) (ok : Bool) (d dur : Nat) (hd : D ≤ d)
    (h1 : w.consumed + (if w.rn then 1 else 0) ≤ w.rnCalls)
    (h2 : countOk w.lookups = w.consumed) :
    Inv D (doLookup w ok d dur) := by
  unfold doLookup
  cases ok
  · constructor <;> simp_all [countOk] <;> omega
  · cases hr : w.rn <;> constructor <;> simp_all [countOk] <;> omega

theorem step_inv (D : Nat) (w : W) (e : Ev) (h : Inv D w) (hd : evDelayOk D e) : Inv D (step w e) := by
  cases e with
  | build ok d dur =>
    simp only [evDelayOk] at hd
    simp only [step]
    split
    · rename_i hm
      have := h.idleEmpty hm
      exact doLookup_inv D w ok d dur hd h.tokens (by simp [this, countOk])
    all_goals exact h
  | resolveNow =>
    obtain ⟨h1, h2, h2t, h3, h4, h5, h6, h7, h8, h9, h10, h11, h12⟩ := h
    simp only [step]
    split
    · rename_i n hm
      have a := h4 n hm
      have b := h9 n hm
      obtain ⟨t, b1, b2⟩ := b
      constructor <;> simp_all [countOk] <;> omega
    · rename_i hm
      constructor <;> simp_all [countOk] <;> omega
    · rename_i hm1 hm2
      constructor <;> simp_all [countOk] <;> (try omega)
      all_goals (split <;> omega)
  | tick to ok d dur =>
    simp only [evDelayOk] at hd
    simp only [step]
    split
    · rename_i due hm
      split
      · exact h
      · split
        · obtain ⟨h1, h2, h2t, h3, h4, h5, h6, h7, h8, h9, h10, h11, h12⟩ := h
          constructor <;> simp_all <;> (try omega)
          all_goals (intro t; constructor <;> (intro hb; first | (have := (h6 t).1 hb; omega) | (have := (h6 t).2 hb; omega)))
        · have i := doLookup_inv D { w with now := max w.now due } ok d dur hd h.tokens (h.okWaitT due hm)
          exact i
    · rename_i hm
      split
      · exact h
      · obtain ⟨h1, h2, h2t, h3, h4, h5, h6, h7, h8, h9, h10, h11, h12⟩ := h
        constructor <;> simp_all <;> (try omega)
        all_goals first | (intro t; constructor <;> (intro hb; first | (have := (h6 t).1 hb; omega) | (have := (h6 t).2 hb; omega))) | assumption | omega
  | close =>
    obtain ⟨h1, h2, h2t, h3, h4, h5, h6, h7, h8, h9, h10, h11, h12⟩ := h
    constructor <;> simp_all [step]
    all_goals first | assumption | omega

/-! ### Part A: net.SplitHostPort on the shapes parseTarget cares about -/

theorem lastSplit_none (c : UInt8) (s : List UInt8) (h : c ∉ s) : lastSplit c s = none := by
  induction s with
  | nil => rfl
  | cons x xs ih =>
    simp only [List.mem_cons, not_or] at h
    simp only [lastSplit, ih h.2]
    rw [if_neg (Ne.symm h.1)]

theorem lastSplit_append (c : UInt8) (a p : List UInt8) (h : c ∉ p) :
    lastSplit c (a ++ c :: p) = some (a, p) := by
  induction a with
  | nil => simp [lastSplit, lastSplit_none c p h]
  | cons x xs ih => simp [lastSplit, ih]

theorem firstSplit_append (c : UInt8) (a r : List UInt8) (h : c ∉ a) :
    firstSplit c (a ++ c :: r) = some (a, r) := by
  induction a with
  | nil => simp [firstSplit]
  | cons x xs ih =>
    simp only [List.mem_cons, not_or] at h
    simp [firstSplit, ih h.2, Ne.symm h.1]

/-- host:port without brackets -/
theorem split_plain (hst p : List UInt8) (h1 : colon ∉ hst) (h2 : lbr ∉ hst) (h3 : rbr ∉ hst)
    (p1 : colon ∉ p) (p2 : lbr ∉ p) (p3 : rbr ∉ p) :
    splitHostPort (hst ++ colon :: p) = .ok (hst, p) := by
  unfold splitHostPort
  rw [lastSplit_append colon hst p p1]
  have hh : (hst ++ colon :: p).head? ≠ some lbr := by
    cases hst with
    | nil => simp; decide
    | cons x xs => simp only [List.mem_cons, not_or] at h2; simp [Ne.symm h2.1]
  simp only [hh, if_false]
  have n1 : lbr ≠ colon := by decide
  have n2 : rbr ≠ colon := by decide
  simp [h1, h2, h3, p2, p3, n1, n2]

/-- [host]:port — host may contain colons -/
theorem split_bracket (hst p : List UInt8) (h2 : lbr ∉ hst) (h3 : rbr ∉ hst)
    (p1 : colon ∉ p) (p2 : lbr ∉ p) (p3 : rbr ∉ p) :
    splitHostPort (lbr :: (hst ++ rbr :: colon :: p)) = .ok (hst, p) := by
  unfold splitHostPort
  have e : lbr :: (hst ++ rbr :: colon :: p) = (lbr :: hst ++ [rbr]) ++ colon :: p := by simp
  rw [e, lastSplit_append colon _ p p1, ← e]
  have n0 : rbr ≠ lbr := by decide
  have n1 : lbr ≠ colon := by decide
  have n2 : rbr ≠ colon := by decide
  have hb : rbr ∉ lbr :: hst := by simp [n0, h3]
  have f : firstSplit rbr (lbr :: (hst ++ rbr :: colon :: p)) = some (lbr :: hst, colon :: p) := by
    have := firstSplit_append rbr (lbr :: hst) (colon :: p) hb
    simpa using this
  simp [f, h2, p2, p3, n1, n2, Ne.symm n0]

/-- [host] without a port: missing port -/
theorem split_bracket_noport (hst : List UInt8) (h3 : rbr ∉ hst) :
    ∃ e, splitHostPort (lbr :: (hst ++ [rbr])) = .error e := by
  unfold splitHostPort
  cases hl : lastSplit colon (lbr :: (hst ++ [rbr])) with
  | none => exact ⟨_, rfl⟩
  | some pp =>
    obtain ⟨pre, port⟩ := pp
    have n0 : rbr ≠ lbr := by decide
    have hb : rbr ∉ lbr :: hst := by simp [n0, h3]
    have f : firstSplit rbr (lbr :: (hst ++ [rbr])) = some (lbr :: hst, []) := by
      have := firstSplit_append rbr (lbr :: hst) [] hb
      simpa using this
    simp [f]

/-- no colon at all: missing port -/
theorem split_nocolon (t : List UInt8) (h : colon ∉ t) : splitHostPort t = .error .missingPort := by
  unfold splitHostPort
  rw [lastSplit_none colon t h]



end GrpcProofs.Lemmas.Dns
