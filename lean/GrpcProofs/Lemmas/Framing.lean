/-
Helper lemmas for C06 (message framing), about lean/GrpcModel/Model/Framing.lean.
-/
import GrpcModel.Model.Framing
namespace GrpcProofs.Lemmas.Framing
open GrpcModel.Framing GrpcModel.Generated

theorem be32_length (n : Nat) : (be32 n).length = 4 := rfl

theorem toNat_ofNat_mod (x : Nat) : (UInt8.ofNat (x % 256)).toNat = x % 256 := by
  simp [UInt8.toNat_ofNat']

theorem u32_be32 (n : Nat) (h : n < 4294967296) (rest : Bytes) : u32 (be32 n ++ rest) = n := by
  simp only [be32, List.cons_append, List.nil_append, u32, toNat_ofNat_mod]
  omega

theorem be32_u32 (a b c d : UInt8) : be32 (u32 [a, b, c, d]) = [a, b, c, d] := by
  have ha := a.toNat_lt; have hb := b.toNat_lt; have hc := c.toNat_lt; have hd := d.toNat_lt
  simp only [be32, u32]
  have e1 : (a.toNat * 16777216 + b.toNat * 65536 + c.toNat * 256 + d.toNat) / 16777216 % 256 = a.toNat := by omega
  have e2 : (a.toNat * 16777216 + b.toNat * 65536 + c.toNat * 256 + d.toNat) / 65536 % 256 = b.toNat := by omega
  have e3 : (a.toNat * 16777216 + b.toNat * 65536 + c.toNat * 256 + d.toNat) / 256 % 256 = c.toNat := by omega
  have e4 : (a.toNat * 16777216 + b.toNat * 65536 + c.toNat * 256 + d.toNat) % 256 = d.toNat := by omega
  rw [e1, e2, e3, e4]; simp

theorem u32_lt (l : Bytes) : u32 l < 4294967296 := by
  match l with
  | [] | [_] | [_, _] | [_, _, _] => simp [u32]
  | a :: b :: c :: d :: _ =>
    have ha := a.toNat_lt; have hb := b.toNat_lt; have hc := c.toNat_lt; have hd := d.toNat_lt
    simp only [u32]; omega


/-- `recvMsg` on a stream that starts with a complete header. -/
theorem recvMsg_header (limit : Nat) (b0 : UInt8) (L : Nat) (hL : L < 4294967296) (tail : Bytes) :
    recvMsg limit (b0 :: (be32 L ++ tail)) =
      if L > limit then (.error .resourceExhausted, tail)
      else if tail.length < L then (.error .unexpectedEOF, [])
      else (.ok (b0.toNat, tail.take L), tail.drop L) := by
  have h5 : (b0 :: (be32 L ++ tail)).length = 5 + tail.length := by
    simp [be32_length]; omega
  have ht : (b0 :: (be32 L ++ tail)).take msgHeaderLen = b0 :: be32 L := by
    simp [msgHeaderLen, be32]
  have hd : (b0 :: (be32 L ++ tail)).drop msgHeaderLen = tail := by
    simp [msgHeaderLen, be32]
  unfold recvMsg
  rw [ht, hd, h5]
  have hu : u32 ((b0 :: be32 L).drop msgPayloadLen) = L := by
    have := u32_be32 L hL []
    simpa [msgPayloadLen] using this
  simp only [hu, List.headD_cons]
  have h1 : ¬ (5 + tail.length = 0) := by omega
  have h2 : ¬ (5 + tail.length < msgHeaderLen) := by simp [msgHeaderLen]
  have h3 : ¬ (L > maxInt) := by simp [maxInt]; omega
  simp only [h1, h2, h3, if_false]

theorem recvMsg_nil (limit : Nat) : recvMsg limit [] = (.error .eof, []) := by
  simp [recvMsg]

theorem recvMsg_short (limit : Nat) (s : Bytes) (h0 : s ≠ []) (h : s.length < 5) :
    recvMsg limit s = (.error .unexpectedEOF, []) := by
  have : s.length ≠ 0 := by
    intro hl; exact h0 (List.eq_nil_of_length_eq_zero hl)
  simp [recvMsg, this, msgHeaderLen, h]

/-- every stream of at least five bytes is `b0 :: be32 L ++ tail` for `L` = its big-endian length field. -/
theorem stream_header (s : Bytes) (h : 5 ≤ s.length) :
    ∃ b0 L tail, L < 4294967296 ∧ s = b0 :: (be32 L ++ tail) := by
  match s with
  | b0 :: a :: b :: c :: d :: tail =>
    refine ⟨b0, u32 [a, b, c, d], tail, u32_lt _, ?_⟩
    rw [be32_u32]; rfl
  | [] | [_] | [_, _] | [_, _, _] | [_, _, _, _] => simp at h


/-! ### decompress -/

/-- a usable decompressor: one is configured and the peer announced a real encoding -/
def Usable (cfg : Cfg) : Prop := cfg.path ≠ .none ∧ cfg.rc = .named

theorem check_none (rc : RecvCompress) (h s : Bool) : checkRecvPayload 0 rc h s = none := by
  simp [checkRecvPayload, compressionNone]

theorem check_made_usable (s : Bool) : checkRecvPayload 1 .named true s = none := by
  simp [checkRecvPayload, compressionNone, compressionMade]

theorem check_made_unusable (rc : RecvCompress) (h s : Bool) (hu : rc ≠ .named ∨ h = false) :
    (checkRecvPayload 1 rc h s).isSome = true := by
  simp only [checkRecvPayload, compressionNone, compressionMade]
  cases rc <;> cases h <;> cases s <;> simp_all

theorem check_unknown (pf : Nat) (rc : RecvCompress) (h s : Bool) (h0 : pf ≠ 0) (h1 : pf ≠ 1) :
    checkRecvPayload pf rc h s = some .internal := by
  simp [checkRecvPayload, compressionNone, compressionMade, h0, h1]

theorem decompress_ok (path : Path) (dec : Decomp) (limit : Nat) (d data : Bytes) (hp : path ≠ .none)
    (hd : dec d = some (data, false)) (hl : data.length ≤ limit) :
    (decompress path dec limit d).1 = .ok data := by
  cases path with
  | none => exact absurd rfl hp
  | legacyCustom => simp [decompress, hd, Nat.not_lt.mpr hl]
  | legacyGzip | newApi =>
    simp only [decompress, hd, limitedRead]
    split
    · have : data.take (limit + 1) = data := List.take_of_length_le (by omega)
      simp [this, Nat.not_lt.mpr hl]
    · simp [Nat.not_lt.mpr hl]

/-- anything `decompress` returns is the decompressor's complete, error-free output, within the limit -/
theorem decompress_ok_inv (path : Path) (dec : Decomp) (limit : Nat) (d out : Bytes)
    (h : (decompress path dec limit d).1 = .ok out) :
    path ≠ .none ∧ dec d = some (out, false) ∧ out.length ≤ limit := by
  cases path with
  | none => simp [decompress] at h
  | legacyCustom =>
    simp only [decompress] at h
    cases hd : dec d with
    | none => simp [hd] at h
    | some p =>
      obtain ⟨data, bad⟩ := p
      simp only [hd] at h
      cases bad with
      | true => simp at h
      | false =>
        by_cases hl : data.length > limit
        · simp [hl] at h
        · simp [hl] at h; subst h; exact ⟨by simp, rfl, by omega⟩
  | legacyGzip | newApi =>
    simp only [decompress] at h
    cases hd : dec d with
    | none => simp [hd] at h
    | some p =>
      obtain ⟨data, bad⟩ := p
      simp only [hd, limitedRead] at h
      by_cases hm : limit < maxInt64
      · simp only [hm, if_true] at h
        by_cases hl : data.length ≤ limit
        · have ht : data.take (limit + 1) = data := List.take_of_length_le (by omega)
          cases bad with
          | true => simp [hl] at h
          | false =>
            simp [ht, Nat.not_lt.mpr hl] at h; subst h; exact ⟨by simp, rfl, hl⟩
        · have hlen : (data.take (limit + 1)).length = limit + 1 := by
            rw [List.length_take]; omega
          simp [hl, hlen] at h
      · simp only [hm, if_false] at h
        cases bad with
        | true => simp at h
        | false =>
          by_cases hl : data.length > limit
          · simp [hl] at h
          · simp [hl] at h; subst h; exact ⟨by simp, rfl, by omega⟩

theorem decompress_oversize (path : Path) (dec : Decomp) (limit : Nat) (d data : Bytes) (bad : Bool)
    (hp : path ≠ .none) (hm : limit < maxInt64) (hd : dec d = some (data, bad)) (hl : limit < data.length)
    (hb : path = .legacyCustom → bad = false) :
    (decompress path dec limit d).1 = .error .resourceExhausted := by
  cases path with
  | none => exact absurd rfl hp
  | legacyCustom => simp [decompress, hd, hb rfl, hl]
  | legacyGzip | newApi =>
    have hlen : (data.take (limit + 1)).length = limit + 1 := by rw [List.length_take]; omega
    simp [decompress, hd, limitedRead, hm, Nat.not_le.mpr hl, hlen]

theorem decompress_mat (path : Path) (dec : Decomp) (limit : Nat) (d : Bytes)
    (hp : path = .newApi ∨ path = .legacyGzip) (hm : limit < maxInt64) :
    (decompress path dec limit d).2 ≤ limit + 1 := by
  rcases hp with rfl | rfl <;>
  · simp only [decompress]
    cases dec d with
    | none => simp
    | some p =>
      obtain ⟨data, bad⟩ := p
      have hlen : (data.take (limit + 1)).length ≤ limit + 1 := by rw [List.length_take]; omega
      simp only [limitedRead, hm, if_true]
      repeat' split
      all_goals exact hlen


/-! ### recvAndDecompress -/

/-- `recvAndDecompress` as a function of what `recvMsg` returned. -/
def afterRecv (cfg : Cfg) (dec : Decomp) : Except Err (Nat × Bytes) × Bytes → Out
  | (.error e, rest) => ⟨.error e, rest, 0⟩
  | (.ok (pf, compressed), rest) =>
    match checkRecvPayload pf cfg.rc (cfg.path != .none) cfg.isServer with
    | some e => ⟨.error e, rest, 0⟩
    | none =>
      if pf = compressionMade then
        ⟨(decompress cfg.path dec cfg.limit compressed).1, rest, (decompress cfg.path dec cfg.limit compressed).2⟩
      else ⟨.ok compressed, rest, 0⟩

theorem recvAD_def (cfg : Cfg) (dec : Decomp) (s : Bytes) :
    recvAndDecompress cfg dec s = afterRecv cfg dec (recvMsg cfg.limit s) := by
  unfold recvAndDecompress afterRecv
  rfl

theorem recv_header (cfg : Cfg) (dec : Decomp) (b0 : UInt8) (L : Nat) (hL : L < 4294967296) (tail : Bytes) :
    recvAndDecompress cfg dec (b0 :: (be32 L ++ tail)) =
      if L > cfg.limit then ⟨.error .resourceExhausted, tail, 0⟩
      else if tail.length < L then ⟨.error .unexpectedEOF, [], 0⟩
      else match checkRecvPayload b0.toNat cfg.rc (cfg.path != .none) cfg.isServer with
        | some e => ⟨.error e, tail.drop L, 0⟩
        | none =>
          if b0.toNat = compressionMade then
            ⟨(decompress cfg.path dec cfg.limit (tail.take L)).1, tail.drop L,
              (decompress cfg.path dec cfg.limit (tail.take L)).2⟩
          else ⟨.ok (tail.take L), tail.drop L, 0⟩ := by
  rw [recvAD_def, recvMsg_header cfg.limit b0 L hL tail]
  by_cases h1 : L > cfg.limit
  · simp only [h1, if_true, afterRecv]
  · by_cases h2 : tail.length < L
    · simp only [h1, h2, if_true, if_false, afterRecv]
    · simp only [h1, h2, if_false, afterRecv]


theorem path_bne (p : Path) : (p != Path.none) = true ↔ p ≠ .none := by
  cases p <;> simp


/-- One well-formed frame at the head of the stream is delivered and exactly its bytes are consumed. -/
theorem recv_frame (cfg : Cfg) (dec : Decomp) (comp : Option (Bytes → Bytes)) (m rest : Bytes)
    (hinv : ∀ f, comp = some f → dec (f m) = some (m, false))
    (huse : ∀ f, comp = some f → m ≠ [] → Usable cfg)
    (hm : m.length ≤ cfg.limit)
    (hw : ∀ f, comp = some f → (f m).length ≤ cfg.limit)
    (h32 : m.length < 4294967296 ∧ ∀ f, comp = some f → (f m).length < 4294967296) :
    (recvAndDecompress cfg dec (frame comp m ++ rest)).res = .ok m ∧
    (recvAndDecompress cfg dec (frame comp m ++ rest)).rest = rest := by
  -- the uncompressed shape
  have plain : ∀ (hfr : frame comp m = (0 : UInt8) :: (be32 m.length ++ m)),
      (recvAndDecompress cfg dec (frame comp m ++ rest)).res = .ok m ∧
      (recvAndDecompress cfg dec (frame comp m ++ rest)).rest = rest := by
    intro hfr
    rw [hfr, show (0 : UInt8) :: (be32 m.length ++ m) ++ rest = (0 : UInt8) :: (be32 m.length ++ (m ++ rest)) by simp,
      recv_header cfg dec 0 m.length h32.1 (m ++ rest)]
    have a : ¬ m.length > cfg.limit := by omega
    have b : ¬ (m ++ rest).length < m.length := by simp
    simp only [a, b, if_false, show (0 : UInt8).toNat = 0 from rfl, check_none]
    simp [compressionMade]
  cases comp with
  | none => exact plain (by simp [frame, compress, msgHeader, compressionNone, compressionMade])
  | some f =>
    by_cases he : m.length = 0
    · exact plain (by simp [frame, compress, msgHeader, compressionNone, compressionMade, he])
    · have hne : m ≠ [] := by intro h; exact he (by simp [h])
      have hu := huse f rfl hne
      have hfr : frame (some f) m = (1 : UInt8) :: (be32 (f m).length ++ f m) := by
        simp [frame, compress, msgHeader, compressionMade, he]
      rw [hfr, show (1 : UInt8) :: (be32 (f m).length ++ f m) ++ rest = (1 : UInt8) :: (be32 (f m).length ++ (f m ++ rest)) by simp,
        recv_header cfg dec 1 (f m).length (h32.2 f rfl) (f m ++ rest)]
      have a : ¬ (f m).length > cfg.limit := by have := hw f rfl; omega
      have b : ¬ (f m ++ rest).length < (f m).length := by simp
      have hp : (cfg.path != Path.none) = true := (path_bne _).mpr hu.1
      simp only [a, b, if_false, show (1 : UInt8).toNat = 1 from rfl, hu.2, hp, check_made_usable]
      simp only [compressionMade, if_true, List.take_left', List.drop_left']
      exact ⟨decompress_ok cfg.path dec cfg.limit (f m) m hu.1 (hinv f rfl) hm, trivial⟩

end GrpcProofs.Lemmas.Framing
