/-
Helper lemmas for C35 (ConnectivityStateEvaluator part): the four uint64 counters track the
multiset of child states along every legal history.
-/
import GrpcModel.Model.LbConnState
namespace GrpcProofs.Lemmas.LbConnState
open GrpcModel.LbConnState

/-- counter of a state (`shutdown` has none) -/
def get (c : CSE) : ConnState → BitVec 64
  | .ready => c.numReady | .connecting => c.numConnecting | .tf => c.numTransientFailure
  | .idle => c.numIdle | .shutdown => 0

/-- the counters are the multiset counts modulo 2^64, and no child is `shutdown` -/
def Tracks (c : CSE) (l : List ConnState) : Prop :=
  (∀ s, s ≠ .shutdown → get c s = BitVec.ofNat 64 (l.count s)) ∧ .shutdown ∉ l

theorem get_bump (c : CSE) (s s' : ConnState) (v : BitVec 64) :
    get (c.bump s v) s' = if s = s' ∧ s ≠ .shutdown then get c s' + v else get c s' := by
  cases s <;> cases s' <;> simp [CSE.bump, get]

theorem updateVal_zero : updateVal 0 = BitVec.ofNat 64 18446744073709551615 := by decide
theorem updateVal_one : updateVal 1 = BitVec.ofNat 64 1 := by decide

theorem get_rt (c : CSE) (old new s' : ConnState) (hs : s' ≠ .shutdown) :
    get (c.recordTransition old new).1 s'
      = get c s' + (if old = s' then BitVec.ofNat 64 18446744073709551615 else 0) + (if new = s' then 1 else 0) := by
  simp only [CSE.recordTransition, get_bump, updateVal_zero, updateVal_one]
  by_cases h1 : old = s' <;> by_cases h2 : new = s' <;> simp [h1, h2, hs]
  all_goals (subst_vars; simp_all)

theorem count_eraseIdx (l : List ConnState) (i : Nat) (h : i < l.length) (a : ConnState) :
    (l.eraseIdx i).count a = l.count a - if l[i] = a then 1 else 0 := by
  induction l generalizing i with
  | nil => simp at h
  | cons x t ih =>
    cases i with
    | zero => by_cases hx : x = a <;> simp [hx]
    | succ j =>
      have hj : j < t.length := by simpa using h
      simp only [List.eraseIdx_cons_succ, List.count_cons, List.getElem_cons_succ, ih j hj]
      by_cases h1 : t[j] = a
      · have hp : 0 < t.count a := List.count_pos_iff.mpr (h1 ▸ List.getElem_mem hj)
        by_cases h2 : x = a <;> simp [h1, h2] <;> omega
      · by_cases h2 : x = a <;> simp [h1, h2]

theorem getElem_count_pos (l : List ConnState) (i : Nat) (h : i < l.length) : 0 < l.count l[i] :=
  List.count_pos_iff.mpr (List.getElem_mem h)

/- (omega is avoided on goals with `% 2^64`: it does not return on them) -/
theorem bv_pred' (m : Nat) :
    BitVec.ofNat 64 (m + 1) + BitVec.ofNat 64 18446744073709551615 = BitVec.ofNat 64 m := by
  rw [← BitVec.ofNat_add]
  apply BitVec.eq_of_toNat_eq
  simp only [BitVec.toNat_ofNat, Nat.reducePow, Nat.add_assoc, Nat.reduceAdd, Nat.add_mod_right]

theorem bv_pred (n : Nat) (h : 0 < n) :
    BitVec.ofNat 64 n + BitVec.ofNat 64 18446744073709551615 = BitVec.ofNat 64 (n - 1) := by
  cases n with
  | zero => exact absurd h (Nat.lt_irrefl 0)
  | succ m => exact bv_pred' m

theorem bv_succ (n : Nat) : BitVec.ofNat 64 n + 1#64 = BitVec.ofNat 64 (n + 1) := by
  rw [BitVec.ofNat_add]

theorem tracks_init : Tracks {} [] := by
  constructor
  · intro s _; cases s <;> simp [get]
  · simp

theorem tracks_step (c : CSE) (l : List ConnState) (h : Tracks c l) (e : Ev) :
    Tracks (track (c, l) e).1 (track (c, l) e).2 := by
  obtain ⟨hc, hn⟩ := h
  cases e with
  | add s =>
    simp only [track]
    split
    · exact ⟨hc, hn⟩
    · next hs =>
      refine ⟨?_, ?_⟩
      · intro s' hs'
        simp only [get_rt _ _ _ _ hs', hc s' hs', List.count_cons]
        have : ConnState.shutdown ≠ s' := fun h => hs' h.symm
        by_cases h2 : s = s' <;> simp [this, h2, bv_succ]
      · simp only [List.mem_cons, not_or]; exact ⟨fun h => hs h.symm, hn⟩
  | change i s =>
    simp only [track]
    split
    · next old hold =>
      split
      · exact ⟨hc, hn⟩
      · next hs =>
        have hi : i < l.length := by
          rcases Nat.lt_or_ge i l.length with h | h
          · exact h
          · simp [List.getElem?_eq_none h] at hold
        have hold' : l[i] = old := by simpa [List.getElem?_eq_getElem hi] using hold
        refine ⟨?_, ?_⟩
        · intro s' hs'
          simp only [get_rt _ _ _ _ hs', hc s' hs', List.count_set hi, beq_iff_eq, hold']
          have hpos := getElem_count_pos l i hi
          rw [hold'] at hpos
          by_cases h1 : old = s' <;> by_cases h2 : s = s' <;> simp [h1, h2]
          · subst h1; rw [bv_pred _ hpos, bv_succ]
          · subst h1; rw [bv_pred _ hpos]
          · rw [bv_succ]
        · intro hm
          rcases List.mem_or_eq_of_mem_set hm with h | h
          · exact hn h
          · exact hs h.symm
    · exact ⟨hc, hn⟩
  | remove i =>
    simp only [track]
    split
    · next old hold =>
      have hi : i < l.length := by
        rcases Nat.lt_or_ge i l.length with h | h
        · exact h
        · simp [List.getElem?_eq_none h] at hold
      have hold' : l[i] = old := by simpa [List.getElem?_eq_getElem hi] using hold
      refine ⟨?_, ?_⟩
      · intro s' hs'
        simp only [get_rt _ _ _ _ hs', hc s' hs', count_eraseIdx l i hi, hold']
        have hpos := getElem_count_pos l i hi
        rw [hold'] at hpos
        have : ConnState.shutdown ≠ s' := fun h => hs' h.symm
        by_cases h1 : old = s' <;> simp [h1, this]
        subst h1; rw [bv_pred _ hpos]
      · intro hm; exact hn (List.mem_of_mem_eraseIdx hm)
    · exact ⟨hc, hn⟩

theorem tracks_run (evs : List Ev) : Tracks (runTrack evs).1 (runTrack evs).2 := by
  unfold runTrack
  suffices ∀ (p : CSE × List ConnState), Tracks p.1 p.2 → Tracks (evs.foldl track p).1 (evs.foldl track p).2 from
    this _ tracks_init
  induction evs with
  | nil => intro p h; exact h
  | cons e t ih => intro p h; exact ih _ (tracks_step p.1 p.2 h e)

theorem pos_iff_mem (l : List ConnState) (s : ConnState) (hl : l.length < 2 ^ 64) :
    BitVec.ofNat 64 (l.count s) > 0 ↔ s ∈ l := by
  have h1 : l.count s < 2 ^ 64 := Nat.lt_of_le_of_lt List.count_le_length hl
  rw [← List.count_pos_iff]
  simp only [GT.gt, BitVec.lt_def, BitVec.toNat_ofNat, Nat.mod_eq_of_lt h1]
  simp

theorem current_of_tracks (c : CSE) (l : List ConnState) (h : Tracks c l) (hl : l.length < 2 ^ 64) :
    c.currentState = prec l := by
  obtain ⟨hc, _⟩ := h
  have hr := hc .ready (by decide)
  have hcn := hc .connecting (by decide)
  have hi := hc .idle (by decide)
  simp only [get] at hr hcn hi
  simp only [CSE.currentState, prec, hr, hcn, hi, pos_iff_mem l _ hl]

end GrpcProofs.Lemmas.LbConnState
