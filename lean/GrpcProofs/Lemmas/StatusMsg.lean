/-
Lemmas about GrpcModel/Model/StatusMsg.lean: the grpc-message percent-encoding round trip
`decode (encode m) = sanitize m` for every byte string, and `sanitize m = m` on valid UTF-8.
-/
import GrpcModel.Model.StatusMsg
namespace GrpcProofs.Lemmas.StatusMsg
open GrpcModel.StatusMsg
open GrpcModel.Base64 (Bytes)

theorem hexVal_hexUpper : ∀ n, n < 16 → hexVal (hexUpper n) = some n := by decide

theorem dec_pct (b : UInt8) (tail : Bytes) : decodeUnchecked (pct b ++ tail) = b :: decodeUnchecked tail := by
  have hb := b.toNat_lt
  have h1 := hexVal_hexUpper (b.toNat / 16) (by omega)
  have h2 := hexVal_hexUpper (b.toNat % 16) (by omega)
  have e : b.toNat / 16 * 16 + b.toNat % 16 = b.toNat := by omega
  simp [pct, decodeUnchecked, h1, h2, e]

theorem dec_notpct (c : UInt8) (hc : (c == 0x25) = false) (tail : Bytes) :
    decodeUnchecked (c :: tail) = c :: decodeUnchecked tail := by
  match tail with
  | [] => simp [decodeUnchecked]
  | [x] => simp [decodeUnchecked]
  | x :: y :: t => simp [decodeUnchecked, hc]

theorem dec_flatMap_pct (l : Bytes) (tail : Bytes) : decodeUnchecked (l.flatMap pct ++ tail) = l ++ decodeUnchecked tail := by
  induction l with
  | nil => simp
  | cons b t ih => simp only [List.flatMap_cons, List.append_assoc, dec_pct, ih, List.cons_append]

theorem isSafe_notpct (c : UInt8) (h : isSafe c = true) : (c == 0x25) = false := by
  simp [isSafe] at h; simp [h.2]

theorem dec_flatMap_safe (l : Bytes) (tail : Bytes) :
    decodeUnchecked (l.flatMap (fun b => if isSafe b then [b] else pct b) ++ tail) = l ++ decodeUnchecked tail := by
  induction l with
  | nil => simp
  | cons b t ih =>
    simp only [List.flatMap_cons, List.append_assoc, List.cons_append]
    by_cases hs : isSafe b = true
    · simp only [hs, if_true, List.cons_append, List.nil_append]
      rw [dec_notpct b (isSafe_notpct b hs), ih]
    · simp only [hs, Bool.false_eq_true, if_false]
      rw [dec_pct, ih]

/-- What a rune contributes to the sanitised message. -/
def san (r : Bool × Bytes) : Bytes := if r.1 then r.2 else replacement

theorem dec_encRune (r : Bool × Bytes) (tail : Bytes) :
    decodeUnchecked (encRune r ++ tail) = san r ++ decodeUnchecked tail := by
  unfold encRune san
  by_cases h1 : r.1 = true
  · simp only [h1, Bool.not_true, Bool.false_eq_true, if_false, if_true]
    split
    · exact dec_flatMap_pct _ _
    · exact dec_flatMap_safe _ _
  · simp only [Bool.not_eq_true] at h1
    simp only [h1, Bool.not_false, if_true, Bool.false_eq_true, if_false]
    exact dec_flatMap_pct _ _

theorem dec_runes (L : List (Bool × Bytes)) : decodeUnchecked (L.flatMap encRune) = L.flatMap san := by
  induction L with
  | nil => simp [decodeUnchecked]
  | cons r t ih => simp only [List.flatMap_cons, dec_encRune, ih]

theorem decodeUnchecked_encodeUnchecked (m : Bytes) : decodeUnchecked (encodeUnchecked m) = sanitize m := by
  unfold encodeUnchecked sanitize
  exact dec_runes _

theorem no_escape (e : Bytes) (h : hasEscape e = false) : decodeUnchecked e = e := by
  match e with
  | [] => simp [decodeUnchecked]
  | [c] => simp [decodeUnchecked]
  | [c, x] => simp [decodeUnchecked]
  | c :: x :: y :: t =>
    rw [hasEscape, Bool.or_eq_false_iff, Bool.and_eq_false_iff] at h
    have hc : (c == 0x25) = false := by
      rcases h.1 with h | h
      · exact h
      · simp at h
    rw [dec_notpct c hc, no_escape (x :: y :: t) h.2]

/-- `decodeGrpcMessage` is `decodeGrpcMessageUnchecked` (its fast path changes nothing). -/
theorem decode_eq (e : Bytes) : decode e = decodeUnchecked e := by
  unfold decode
  split
  · rename_i h; simp at h; subst h; simp [decodeUnchecked]
  · split
    · rfl
    · rename_i h; simp only [Bool.not_eq_true] at h; exact (no_escape e h).symm

theorem runeLen_pos (bs : Bytes) (n : Nat) (h : runeLen bs = some n) : 1 ≤ n := by
  unfold runeLen at h
  split at h
  · simp at h
  · repeat' split at h
    all_goals first | (simp at h; omega) | simp at h

theorem runes_concat (fuel : Nat) (bs : Bytes) (h : bs.length ≤ fuel) : (runesAux fuel bs).flatMap (·.2) = bs := by
  induction fuel generalizing bs with
  | zero => cases bs <;> simp_all [runesAux]
  | succ f ih =>
    cases bs with
    | nil => simp [runesAux]
    | cons b rest =>
      unfold runesAux
      split
      · rename_i n hn
        have := runeLen_pos _ _ hn
        simp only [List.flatMap_cons]
        rw [ih _ (by simp at h ⊢; omega)]
        exact List.take_append_drop _ _
      · simp only [List.flatMap_cons]
        rw [ih _ (by simp at h ⊢; omega)]
        simp

theorem flatMap_congr' {α β : Type} (l : List α) (f g : α → List β) (h : ∀ a ∈ l, f a = g a) :
    l.flatMap f = l.flatMap g := by
  induction l with
  | nil => rfl
  | cons a t ih =>
    simp only [List.flatMap_cons]
    rw [h a (by simp), ih (fun x hx => h x (by simp [hx]))]

/-- On valid UTF-8 sanitising changes nothing. -/
theorem sanitize_valid (m : Bytes) (h : validUtf8 m = true) : sanitize m = m := by
  unfold sanitize
  unfold validUtf8 at h
  rw [List.all_eq_true] at h
  have : (runes m).flatMap (fun r => if r.1 then r.2 else replacement) = (runes m).flatMap (·.2) := by
    apply flatMap_congr'
    intro r hr; simp [h r hr]
  rw [this]; exact runes_concat _ _ (Nat.le_refl _)

theorem safe_runes (fuel : Nat) (m : Bytes) (h : m.all isSafe = true) : (runesAux fuel m).all (·.1) = true := by
  induction fuel generalizing m with
  | zero => simp [runesAux]
  | succ f ih =>
    cases m with
    | nil => simp [runesAux]
    | cons b rest =>
      simp only [List.all_cons, Bool.and_eq_true] at h
      have hb : b < 0x80 := by
        have := h.1; simp only [isSafe, Bool.and_eq_true, decide_eq_true_eq] at this
        exact UInt8.lt_of_le_of_lt this.1.2 (by decide)
      unfold runesAux
      simp only [runeLen, hb, if_true]
      simp only [List.all_cons, Bool.true_and, List.drop_succ_cons, List.drop_zero]
      exact ih rest h.2

theorem safe_valid (m : Bytes) (h : m.all isSafe = true) : validUtf8 m = true := safe_runes _ m h

theorem safe_noEscape (m : Bytes) (h : m.all isSafe = true) : hasEscape m = false := by
  induction m with
  | nil => rfl
  | cons c t ih =>
    simp only [List.all_cons, Bool.and_eq_true] at h
    simp [hasEscape, isSafe_notpct c h.1, ih h.2]

/-- The message the client decodes is the message the handler gave, with every invalid UTF-8 byte
    replaced by U+FFFD — for every byte string. -/
theorem decode_encode (m : Bytes) : decode (encode m) = sanitize m := by
  rw [decode_eq]
  unfold encode
  split
  · rename_i h; simp at h; subst h; simp [decodeUnchecked, sanitize, runes, runesAux]
  · split
    · rename_i h
      rw [no_escape m (safe_noEscape m h), sanitize_valid m (safe_valid m h)]
    · exact decodeUnchecked_encodeUnchecked m

end GrpcProofs.Lemmas.StatusMsg
