/-
Helper lemmas for C37 (ring hash): sorting, ring.pick, the picker walks, and newRing over exact
rationals.
-/
import GrpcModel.Model.Ring
import GrpcProofs.Lemmas.SortSearch
import Mathlib.Data.Rat.Floor
import Mathlib.Data.List.Sort
import Mathlib.Data.String.Basic
import Mathlib.Tactic.Linarith
import Mathlib.Tactic.FieldSimp
import Mathlib.Tactic.Positivity
import Mathlib.Tactic.NormNum
import Mathlib.Tactic.Ring
namespace GrpcProofs.Lemmas.Ring
open GrpcModel.Ring GrpcModel.SortSearch GrpcProofs.Lemmas.SortSearch

/-! ### sort by hash, ring.pick -/

theorem insertByHash_perm (e : RingEntry) (l : List RingEntry) : (insertByHash e l).Perm (e :: l) := by
  induction l with
  | nil => exact List.Perm.refl _
  | cons x xs ih =>
    simp only [insertByHash]
    split
    · exact List.Perm.refl _
    · exact (List.Perm.cons x ih).trans (List.Perm.swap e x xs)

theorem sortByHash_perm (l : List RingEntry) : (sortByHash l).Perm l := by
  induction l with
  | nil => exact List.Perm.refl _
  | cons e es ih => exact (insertByHash_perm e _).trans (List.Perm.cons e ih)

theorem insertByHash_sorted (e : RingEntry) (l : List RingEntry)
    (h : l.Pairwise (fun a b => a.hash ≤ b.hash)) : (insertByHash e l).Pairwise (fun a b => a.hash ≤ b.hash) := by
  induction l with
  | nil => simp [insertByHash]
  | cons x xs ih =>
    simp only [insertByHash]
    have hx := List.pairwise_cons.mp h
    split
    · rename_i hlt
      refine List.pairwise_cons.mpr ⟨?_, h⟩
      intro b hb
      rcases List.mem_cons.mp hb with rfl | hb
      · omega
      · have := hx.1 b hb; omega
    · rename_i hge
      refine List.pairwise_cons.mpr ⟨?_, ih hx.2⟩
      intro b hb
      have hb' := (insertByHash_perm e xs).subset hb
      rcases List.mem_cons.mp hb' with rfl | hb'
      · omega
      · exact hx.1 b hb'

theorem sortByHash_sorted (l : List RingEntry) : (sortByHash l).Pairwise (fun a b => a.hash ≤ b.hash) := by
  induction l with
  | nil => exact List.Pairwise.nil
  | cons e es ih => exact insertByHash_sorted e _ ih

theorem pairwise_getD (items : List RingEntry) (h : items.Pairwise (fun a b => a.hash ≤ b.hash))
    (i j : Nat) (hij : i ≤ j) (hj : j < items.length) :
    (items.getD i ⟨0, 0, 0⟩).hash ≤ (items.getD j ⟨0, 0, 0⟩).hash := by
  rcases Nat.lt_or_ge i j with hlt | hge
  · have := List.pairwise_iff_getElem.mp h i j (by omega) hj hlt
    simpa [List.getD_eq_getElem?_getD, List.getElem?_eq_getElem hj,
      List.getElem?_eq_getElem (show i < items.length by omega)] using this
  · have : i = j := by omega
    subst this; exact Nat.le_refl _

/-- the predicate of ring.pick, extended monotonically beyond the ring -/
def geq (items : List RingEntry) (h : Nat) : Nat → Bool :=
  fun i => decide ((items.getD i ⟨0, 0, 0⟩).hash ≥ h)

theorem search_ext (n : Nat) (f g : Nat → Bool) (hfg : ∀ i, i < n → f i = g i) :
    search n f = search n g := by
  unfold search
  have : ∀ fuel a b, b ≤ n → searchLoop f fuel a b = searchLoop g fuel a b := by
    intro fuel
    induction fuel with
    | zero => intro a b _; rfl
    | succ fuel ih =>
      intro a b hb
      unfold searchLoop
      by_cases hab : a < b
      · have hh : (a + b) / 2 < n := by omega
        simp only [hab, if_true, hfg _ hh]
        rw [ih _ _ hb, ih _ _ (by omega)]
      · simp [hab]
  exact this _ _ _ (Nat.le_refl _)

/-- `geq`, extended monotonically beyond the ring -/
def gext (items : List RingEntry) (h : Nat) : Nat → Bool :=
  fun i => geq items h i && decide (i < items.length) || decide (items.length ≤ i)

theorem gext_in (items : List RingEntry) (h i : Nat) (hi : i < items.length) :
    gext items h i = decide ((items.getD i ⟨0, 0, 0⟩).hash ≥ h) := by
  simp [gext, geq, hi, show ¬ items.length ≤ i by omega]

theorem gext_out (items : List RingEntry) (h i : Nat) (hi : items.length ≤ i) : gext items h i = true := by
  simp [gext, hi]

theorem gext_mono (items : List RingEntry) (hs : items.Pairwise (fun a b => a.hash ≤ b.hash)) (h : Nat) :
    Mono (gext items h) := by
  intro a b hab ha
  by_cases hb : b < items.length
  · have ha' : a < items.length := by omega
    rw [gext_in items h a ha'] at ha
    rw [gext_in items h b hb]
    simp only [decide_eq_true_eq] at ha ⊢
    have := pairwise_getD items hs a b hab hb
    omega
  · exact gext_out items h b (by omega)

/-- ring.pick on a ring sorted by hash: the first entry with hash ≥ h, or entry 0 if none. -/
theorem ringPick_spec (items : List RingEntry) (hs : items.Pairwise (fun a b => a.hash ≤ b.hash)) (h : Nat) :
    (∀ i, i < items.length → (items.getD i ⟨0, 0, 0⟩).hash < h) ∧ ringPick items h = 0 ∨
    (ringPick items h < items.length ∧ (items.getD (ringPick items h) ⟨0, 0, 0⟩).hash ≥ h ∧
      ∀ i, i < ringPick items h → (items.getD i ⟨0, 0, 0⟩).hash < h) := by
  have hext : search items.length (geq items h) = search items.length (gext items h) := by
    apply search_ext
    intro i hi
    rw [gext_in items h i hi]; rfl
  obtain ⟨hle, hlo, hhi⟩ := search_spec items.length (gext items h) (gext_mono items hs h)
  have hunf : ringPick items h =
      if search items.length (gext items h) = items.length then 0 else search items.length (gext items h) := by
    unfold ringPick; simp only; rw [← hext]; rfl
  generalize search items.length (gext items h) = k at *
  have hlo' : ∀ i, i < k → (items.getD i ⟨0, 0, 0⟩).hash < h := by
    intro i hi
    have := hlo i hi
    rw [gext_in items h i (by omega)] at this
    simp only [decide_eq_false_iff_not] at this
    omega
  by_cases hend : k = items.length
  · left
    rw [hunf, if_pos hend]
    exact ⟨fun i hi => hlo' i (by omega), rfl⟩
  · right
    rw [hunf, if_neg hend]
    have hlt : k < items.length := by omega
    refine ⟨hlt, ?_, hlo'⟩
    have := hhi k (Nat.le_refl _) hlt
    rw [gext_in items h k hlt] at this
    simpa using this

/-! ### the walks -/

/-- request-hash walk: generalised over the position i already reached -/
theorem walkHash_spec (st : Nat → CState) (n start : Nat) (hns : ∀ k, st k ≠ .shutdown) :
    ∀ fuel i, i + fuel = n →
      (∀ j, j < i → st ((start + j) % n) = .transientFailure) →
      ((∃ j, i ≤ j ∧ j < n ∧ st ((start + j) % n) ≠ .transientFailure ∧
          (∀ j', j' < j → st ((start + j') % n) = .transientFailure) ∧
          walkHash st n start fuel i = .delegate ((start + j) % n)) ∨
       ((∀ j, j < n → st ((start + j) % n) = .transientFailure) ∧
          walkHash st n start fuel i = .delegate start)) := by
  intro fuel
  induction fuel with
  | zero =>
    intro i hi hbefore
    right
    exact ⟨fun j hj => hbefore j (by omega), rfl⟩
  | succ fuel ih =>
    intro i hi hbefore
    simp only [walkHash]
    cases hst : st ((start + i) % n) with
    | transientFailure =>
      simp only
      have hb' : ∀ j, j < i + 1 → st ((start + j) % n) = .transientFailure := by
        intro j hj
        rcases Nat.lt_or_ge j i with h | h
        · exact hbefore j h
        · have : j = i := by omega
          subst this; exact hst
      rcases ih (i + 1) (by omega) hb' with ⟨j, h1, h2, h3, h4, h5⟩ | h
      · exact Or.inl ⟨j, by omega, h2, h3, h4, h5⟩
      · exact Or.inr h
    | shutdown => exact absurd hst (hns _)
    | idle => left; exact ⟨i, Nat.le_refl _, by omega, by rw [hst]; simp, hbefore, rfl⟩
    | connecting => left; exact ⟨i, Nat.le_refl _, by omega, by rw [hst]; simp, hbefore, rfl⟩
    | ready => left; exact ⟨i, Nat.le_refl _, by omega, by rw [hst]; simp, hbefore, rfl⟩

/-- random-hash walk -/
theorem walkRandom_spec (st : Nat → CState) (n start : Nat) :
    ∀ fuel i requested ex, i + fuel = n →
      (∀ j, j < i → st ((start + j) % n) ≠ .ready) →
      let r := walkRandom st n start fuel i requested ex
      -- at most one more exitIdle, none if a connection was already requested
      (r.2 = ex ∨ (requested = false ∧ ∃ j, i ≤ j ∧ j < n ∧ st ((start + j) % n) = .idle ∧
          (∀ j', i ≤ j' → j' < j → st ((start + j') % n) ≠ .idle) ∧ r.2 = ex ++ [(start + j) % n])) ∧
      ((∃ j, i ≤ j ∧ j < n ∧ st ((start + j) % n) = .ready ∧
          (∀ j', j' < j → st ((start + j') % n) ≠ .ready) ∧ r.1 = .delegate ((start + j) % n) ∧
          -- an exitIdle, if any, hit an entry before the READY one
          (r.2 = ex ∨ ∃ j', j' < j ∧ r.2 = ex ++ [(start + j') % n])) ∨
       ((∀ j, j < n → st ((start + j) % n) ≠ .ready) ∧
          (r.1 = .queue ∧ (requested = true ∨ r.2 ≠ ex) ∨
           r.1 = .delegate start ∧ requested = false ∧ r.2 = ex ∧
             ∀ j, i ≤ j → j < n → st ((start + j) % n) ≠ .idle))) := by
  intro fuel
  induction fuel with
  | zero =>
    intro i requested ex hi hbefore
    have hw : walkRandom st n start 0 i requested ex = (if requested then .queue else .delegate start, ex) := rfl
    rw [hw]
    refine ⟨Or.inl rfl, Or.inr ⟨fun j hj => hbefore j (by omega), ?_⟩⟩
    cases requested
    · right; exact ⟨rfl, rfl, rfl, fun j h1 h2 => by omega⟩
    · left; exact ⟨rfl, Or.inl rfl⟩
  | succ fuel ih =>
    intro i requested ex hi hbefore
    by_cases hr : st ((start + i) % n) = .ready
    · have hw : walkRandom st n start (fuel + 1) i requested ex = (.delegate ((start + i) % n), ex) := by
        simp only [walkRandom, hr, if_true]
      rw [hw]
      exact ⟨Or.inl rfl, Or.inl ⟨i, Nat.le_refl _, by omega, hr, hbefore, rfl, Or.inl rfl⟩⟩
    · have hbefore' : ∀ j, j < i + 1 → st ((start + j) % n) ≠ .ready := by
        intro j hj
        rcases Nat.lt_or_ge j i with h | h
        · exact hbefore j h
        · have : j = i := by omega
          subst this; exact hr
      by_cases hidle : (!requested && decide (st ((start + i) % n) = .idle)) = true
      · have hreq : requested = false := by
          cases requested <;> simp at hidle ⊢
        have hid : st ((start + i) % n) = .idle := by
          subst hreq; simpa using hidle
        have hw : walkRandom st n start (fuel + 1) i requested ex =
            walkRandom st n start fuel (i + 1) true (ex ++ [(start + i) % n]) := by
          simp only [walkRandom, hr, if_false, hidle, if_true]
        rw [hw]
        obtain ⟨h1, h2⟩ := ih (i + 1) true (ex ++ [(start + i) % n]) (by omega) hbefore'
        have hsame : (walkRandom st n start fuel (i + 1) true (ex ++ [(start + i) % n])).2 = ex ++ [(start + i) % n] := by
          rcases h1 with h | ⟨h, _⟩
          · exact h
          · cases h
        refine ⟨Or.inr ⟨hreq, i, Nat.le_refl _, by omega, hid, fun j' a b => by omega, hsame⟩, ?_⟩
        rcases h2 with ⟨j, hj1, hj2, hj3, hj4, hj5, _⟩ | ⟨hall, hres⟩
        · exact Or.inl ⟨j, by omega, hj2, hj3, hj4, hj5, Or.inr ⟨i, by omega, hsame⟩⟩
        · refine Or.inr ⟨hall, Or.inl ?_⟩
          rcases hres with ⟨hq, _⟩ | ⟨_, hf, _⟩
          · refine ⟨hq, Or.inr ?_⟩
            rw [hsame]; intro hc
            have := congrArg List.length hc
            simp at this
          · cases hf
      · have hw : walkRandom st n start (fuel + 1) i requested ex =
            walkRandom st n start fuel (i + 1) requested ex := by
          simp only [walkRandom, hr, if_false, hidle, Bool.false_eq_true]
        rw [hw]
        obtain ⟨h1, h2⟩ := ih (i + 1) requested ex (by omega) hbefore'
        have hnotidle : requested = false → st ((start + i) % n) ≠ .idle := by
          intro hreq hid
          subst hreq
          simp [hid] at hidle
        refine ⟨?_, ?_⟩
        · rcases h1 with h | ⟨hreq, j, hj1, hj2, hj3, hj4, hj5⟩
          · exact Or.inl h
          · refine Or.inr ⟨hreq, j, by omega, hj2, hj3, ?_, hj5⟩
            intro j' a b
            rcases Nat.lt_or_ge i j' with h | h
            · exact hj4 j' (by omega) b
            · have : j' = i := by omega
              subst this; exact hnotidle hreq
        · rcases h2 with ⟨j, hj1, hj2, hj3, hj4, hj5, hj6⟩ | ⟨hall, hres⟩
          · exact Or.inl ⟨j, by omega, hj2, hj3, hj4, hj5, hj6⟩
          · refine Or.inr ⟨hall, ?_⟩
            rcases hres with hq | ⟨hd, hf, he, hni⟩
            · exact Or.inl hq
            · refine Or.inr ⟨hd, hf, he, ?_⟩
              intro j a b
              rcases Nat.lt_or_ge i j with h | h
              · exact hni j (by omega) b
              · have : j = i := by omega
                subst this; exact hnotidle hf

/-! ### the `Rat` instance -/

theorem ofNat_q (n : ℕ) : (RingArith.ofNat n : ℚ) = (n : ℚ) := rfl
theorem add_q (a b : ℚ) : RingArith.add a b = a + b := rfl
theorem mul_q (a b : ℚ) : RingArith.mul a b = a * b := rfl
theorem div_q (a b : ℚ) : RingArith.div a b = a / b := rfl
theorem lt_q (a b : ℚ) : RingArith.lt a b = decide (a < b) := rfl
theorem min_q (a b : ℚ) : RingArith.min a b = min a b := by
  show (if a ≤ b then a else b) = min a b
  rw [min_def]

theorem rat_ceil_eq (x : ℚ) : x.ceil = ⌈x⌉ := by
  apply le_antisymm
  · rw [Rat.ceil_le_iff]; exact Int.le_ceil x
  · rw [Int.ceil_le]; exact Rat.le_ceil

theorem ceil_q (x : ℚ) : RingArith.ceil x = ((⌈x⌉ : ℤ) : ℚ) := by
  show ((x.ceil : ℤ) : ℚ) = _
  rw [rat_ceil_eq]

/-! ### the fill loop: running ceilings -/

theorem fillLoop_q (t : ℚ) (maxSize : ℕ) (hmax : ⌈t⌉₊ ≤ maxSize) : ∀ (fuel c n : ℕ), ⌈t⌉₊ - c ≤ fuel →
    fillLoop t maxSize fuel (c : ℚ) n c = (n + (⌈t⌉₊ - c), ((max c ⌈t⌉₊ : ℕ) : ℚ)) := by
  intro fuel
  induction fuel with
  | zero =>
    intro c n h
    have : ⌈t⌉₊ ≤ c := by omega
    simp [fillLoop, Nat.sub_eq_zero_of_le this, max_eq_left this]
  | succ fuel ih =>
    intro c n h
    simp only [fillLoop, lt_q]
    by_cases hlt : (c : ℚ) < t
    · have hc : c < ⌈t⌉₊ := Nat.lt_ceil.mpr hlt
      have hcm : c < maxSize := by omega
      simp only [hlt, decide_true, hcm, Bool.and_self, if_true]
      have e : RingArith.add (c : ℚ) (RingArith.ofNat 1) = ((c + 1 : ℕ) : ℚ) := by
        rw [add_q, ofNat_q]; push_cast; ring
      rw [e, ih (c + 1) (n + 1) (by omega)]
      have h1 : n + 1 + (⌈t⌉₊ - (c + 1)) = n + (⌈t⌉₊ - c) := by omega
      have h2 : max (c + 1) ⌈t⌉₊ = max c ⌈t⌉₊ := by
        rw [max_eq_right (by omega), max_eq_right (by omega)]
      rw [h1, h2]
    · have hc : ⌈t⌉₊ ≤ c := by
        by_contra hcc
        exact hlt (Nat.lt_ceil.mp (by omega))
      simp [hlt, Nat.sub_eq_zero_of_le hc, max_eq_left hc]

/-- whatever the arithmetic (exact or float64): the fill loop never pushes `len(items)` above
    maxRingSize (the repair of F14) -/
theorem fillLoop_le {α : Type} [RingArith α] (t : α) (maxSize : ℕ) : ∀ (fuel : ℕ) (cur : α) (n len : ℕ),
    n ≤ (fillLoop t maxSize fuel cur n len).1 ∧
    len + ((fillLoop t maxSize fuel cur n len).1 - n) ≤ max len maxSize := by
  intro fuel
  induction fuel with
  | zero => intro cur n len; simp [fillLoop]
  | succ fuel ih =>
    intro cur n len
    simp only [fillLoop]
    by_cases hc : (RingArith.lt cur t && decide (len < maxSize)) = true
    · simp only [hc, if_true]
      have hl : len < maxSize := by
        simp only [Bool.and_eq_true, decide_eq_true_eq] at hc; exact hc.2
      obtain ⟨h1, h2⟩ := ih (RingArith.add cur (RingArith.ofNat 1)) (n + 1) (len + 1)
      refine ⟨by omega, ?_⟩
      have : max (len + 1) maxSize = maxSize := max_eq_right (by omega)
      rw [this] at h2
      have : max len maxSize = maxSize := max_eq_right (by omega)
      rw [this]; omega
    · simp only [hc, Bool.false_eq_true, if_false]
      exact ⟨Nat.le_refl _, by simp⟩

theorem countsLoop_le {α : Type} [RingArith α] (scale : α) (sum maxSize fuel : ℕ) :
    ∀ (es : List Endpoint) (cur target : α) (len : ℕ),
      len + (countsLoop scale sum maxSize fuel es cur target len).sum ≤ max len maxSize := by
  intro es
  induction es with
  | nil => intro cur target len; simp [countsLoop]
  | cons e es ih =>
    intro cur target len
    simp only [countsLoop, List.sum_cons]
    obtain ⟨h1, h2⟩ := fillLoop_le (RingArith.add target (RingArith.mul scale (normWeight sum e))) maxSize fuel cur 0 len
    generalize fillLoop (RingArith.add target (RingArith.mul scale (normWeight sum e))) maxSize fuel cur 0 len = r at *
    have h3 := ih r.2 (RingArith.add target (RingArith.mul scale (normWeight sum e))) (len + r.1)
    have : max (len + r.1) maxSize ≤ max len maxSize := by
      simp only [Nat.sub_zero] at h2
      exact max_le h2 (le_max_right _ _)
    omega

/-- exact normalized weight -/
def nw (sum : ℕ) (e : Endpoint) : ℚ := (e.weight : ℚ) / (sum : ℚ)

theorem normWeight_q (sum : ℕ) (e : Endpoint) : (normWeight sum e : ℚ) = nw sum e := rfl

/-- closed form of the per-endpoint counts: differences of running ceilings -/
def countsSpec (scale : ℚ) (sum : ℕ) : List Endpoint → ℚ → List ℕ
  | [], _ => []
  | e :: es, T => (⌈T + scale * nw sum e⌉₊ - ⌈T⌉₊) :: countsSpec scale sum es (T + scale * nw sum e)

theorem nw_nonneg (sum : ℕ) (e : Endpoint) : 0 ≤ nw sum e := by unfold nw; positivity

theorem countsLoop_q (scale : ℚ) (hs : 0 ≤ scale) (sum maxSize fuel : ℕ) :
    ∀ (es : List Endpoint) (T : ℚ), 0 ≤ T →
      ⌈T + scale * (es.map (nw sum)).sum⌉₊ ≤ fuel → ⌈T + scale * (es.map (nw sum)).sum⌉₊ ≤ maxSize →
      countsLoop scale sum maxSize fuel es ((⌈T⌉₊ : ℕ) : ℚ) T ⌈T⌉₊ = countsSpec scale sum es T := by
  intro es
  induction es with
  | nil => intro T _ _ _; rfl
  | cons e es ih =>
    intro T hT hf hm
    simp only [List.map_cons, List.sum_cons] at hf hm
    have hx : 0 ≤ scale * nw sum e := mul_nonneg hs (nw_nonneg sum e)
    have hrest : 0 ≤ scale * (es.map (nw sum)).sum :=
      mul_nonneg hs (List.sum_nonneg (by intro x hx; obtain ⟨e', _, rfl⟩ := List.mem_map.mp hx; exact nw_nonneg sum e'))
    have hmono : ⌈T⌉₊ ≤ ⌈T + scale * nw sum e⌉₊ := Nat.ceil_mono (by linarith)
    have hstep : ⌈T + scale * nw sum e⌉₊ ≤ ⌈T + scale * (nw sum e + (es.map (nw sum)).sum)⌉₊ := by
      apply Nat.ceil_mono
      have : scale * (nw sum e + (es.map (nw sum)).sum) = scale * nw sum e + scale * (es.map (nw sum)).sum := by ring
      linarith
    have hle : ⌈T + scale * nw sum e⌉₊ ≤ fuel := le_trans hstep hf
    have hlm : ⌈T + scale * nw sum e⌉₊ ≤ maxSize := le_trans hstep hm
    simp only [countsLoop, countsSpec, add_q, mul_q, normWeight_q]
    rw [fillLoop_q _ maxSize hlm fuel ⌈T⌉₊ 0 (by omega)]
    simp only [Nat.zero_add, max_eq_right hmono]
    have hlen : ⌈T⌉₊ + (⌈T + scale * nw sum e⌉₊ - ⌈T⌉₊) = ⌈T + scale * nw sum e⌉₊ := by omega
    have e2 : T + scale * nw sum e + scale * (es.map (nw sum)).sum =
        T + scale * (nw sum e + (es.map (nw sum)).sum) := by ring
    rw [hlen, ih (T + scale * nw sum e) (by linarith) (by rw [e2]; exact hf) (by rw [e2]; exact hm)]

theorem countsSpec_length (scale : ℚ) (sum : ℕ) : ∀ (es : List Endpoint) (T : ℚ),
    (countsSpec scale sum es T).length = es.length := by
  intro es
  induction es with
  | nil => intro T; rfl
  | cons e es ih => intro T; simp [countsSpec, ih]

theorem countsSpec_sum (scale : ℚ) (hs : 0 ≤ scale) (sum : ℕ) : ∀ (es : List Endpoint) (T : ℚ), 0 ≤ T →
    (countsSpec scale sum es T).sum + ⌈T⌉₊ = ⌈T + scale * (es.map (nw sum)).sum⌉₊ := by
  intro es
  induction es with
  | nil => intro T _; simp [countsSpec]
  | cons e es ih =>
    intro T hT
    have hx : 0 ≤ scale * nw sum e := mul_nonneg hs (nw_nonneg sum e)
    have hmono : ⌈T⌉₊ ≤ ⌈T + scale * nw sum e⌉₊ := Nat.ceil_mono (by linarith)
    have := ih (T + scale * nw sum e) (by linarith)
    simp only [countsSpec, List.sum_cons, List.map_cons]
    have e2 : T + scale * (nw sum e + (es.map (nw sum)).sum) =
        T + scale * nw sum e + scale * (es.map (nw sum)).sum := by ring
    rw [e2, ← this]; omega

/-- the i-th count is within 1 of scale·nw_i -/
theorem countsSpec_prop (scale : ℚ) (hs : 0 ≤ scale) (sum : ℕ) : ∀ (es : List Endpoint) (T : ℚ), 0 ≤ T →
    ∀ i, i < es.length →
      scale * nw sum (es.getD i ⟨"", 0⟩) - 1 < (((countsSpec scale sum es T).getD i 0 : ℕ) : ℚ) ∧
      (((countsSpec scale sum es T).getD i 0 : ℕ) : ℚ) < scale * nw sum (es.getD i ⟨"", 0⟩) + 1 := by
  intro es
  induction es with
  | nil => intro T _ i hi; simp at hi
  | cons e es ih =>
    intro T hT i hi
    have hx : 0 ≤ scale * nw sum e := mul_nonneg hs (nw_nonneg sum e)
    cases i with
    | zero =>
      simp only [countsSpec, List.getD_cons_zero]
      have hmono : ⌈T⌉₊ ≤ ⌈T + scale * nw sum e⌉₊ := Nat.ceil_mono (by linarith)
      have h1 : ((⌈T + scale * nw sum e⌉₊ - ⌈T⌉₊ : ℕ) : ℚ) = (⌈T + scale * nw sum e⌉₊ : ℚ) - (⌈T⌉₊ : ℚ) := by
        push_cast [Nat.cast_sub hmono]; ring
      rw [h1]
      have a1 := Nat.le_ceil (T + scale * nw sum e)
      have a2 := Nat.ceil_lt_add_one (show 0 ≤ T + scale * nw sum e by linarith)
      have b1 := Nat.le_ceil T
      have b2 := Nat.ceil_lt_add_one hT
      constructor <;> linarith
    | succ i =>
      simp only [countsSpec, List.getD_cons_succ]
      exact ih (T + scale * nw sum e) (by linarith) i (by simpa using hi)

/-! ### sort by key, permutation invariance -/

theorem insertByKey_perm (e : Endpoint) (l : List Endpoint) : (insertByKey e l).Perm (e :: l) := by
  induction l with
  | nil => exact List.Perm.refl _
  | cons x xs ih =>
    simp only [insertByKey]
    split
    · exact List.Perm.refl _
    · exact (List.Perm.cons x ih).trans (List.Perm.swap e x xs)

theorem sortByKey_perm (l : List Endpoint) : (sortByKey l).Perm l := by
  induction l with
  | nil => exact List.Perm.refl _
  | cons e es ih => exact (insertByKey_perm e _).trans (List.Perm.cons e ih)

theorem insertByKey_sorted (e : Endpoint) (l : List Endpoint)
    (h : l.Pairwise (fun a b => a.hashKey ≤ b.hashKey)) :
    (insertByKey e l).Pairwise (fun a b => a.hashKey ≤ b.hashKey) := by
  induction l with
  | nil => simp [insertByKey]
  | cons x xs ih =>
    simp only [insertByKey]
    have hx := List.pairwise_cons.mp h
    split
    · rename_i hlt
      refine List.pairwise_cons.mpr ⟨?_, h⟩
      intro b hb
      rcases List.mem_cons.mp hb with rfl | hb
      · exact le_of_lt hlt
      · exact le_trans (le_of_lt hlt) (hx.1 b hb)
    · rename_i hge
      refine List.pairwise_cons.mpr ⟨?_, ih hx.2⟩
      intro b hb
      have hb' := (insertByKey_perm e xs).subset hb
      rcases List.mem_cons.mp hb' with rfl | hb'
      · exact not_lt.mp hge
      · exact hx.1 b hb'

theorem sortByKey_sorted (l : List Endpoint) : (sortByKey l).Pairwise (fun a b => a.hashKey ≤ b.hashKey) := by
  induction l with
  | nil => exact List.Pairwise.nil
  | cons e es ih => exact insertByKey_sorted e _ ih

/-- endpoints with distinct hash keys: the key-sorted list depends only on the set -/
theorem sortByKey_perm_eq (l₁ l₂ : List Endpoint) (hp : l₁.Perm l₂)
    (hinj : ∀ a ∈ l₁, ∀ b ∈ l₁, a.hashKey = b.hashKey → a = b) : sortByKey l₁ = sortByKey l₂ := by
  apply List.Perm.eq_of_pairwise (le := fun a b => a.hashKey ≤ b.hashKey) _ (sortByKey_sorted l₁) (sortByKey_sorted l₂)
  · exact (sortByKey_perm l₁).trans (hp.trans (sortByKey_perm l₂).symm)
  · intro a b ha hb hab hba
    have ha' : a ∈ l₁ := (sortByKey_perm l₁).subset ha
    have hb' : b ∈ l₁ := hp.symm.subset ((sortByKey_perm l₂).subset hb)
    exact hinj a ha' b hb' (le_antisymm hab hba)

theorem weightSum_perm (l₁ l₂ : List Endpoint) (hp : l₁.Perm l₂) : weightSum l₁ = weightSum l₂ := by
  unfold weightSum
  have : RightCommutative (fun (s : ℕ) (e : Endpoint) => s + e.weight) := ⟨fun a b c => by omega⟩
  rw [hp.foldl_eq]

theorem minWeight_perm (l₁ l₂ : List Endpoint) (hp : l₁.Perm l₂) :
    (minWeight l₁ : ℚ) = minWeight l₂ := by
  unfold minWeight
  rw [weightSum_perm l₁ l₂ hp]
  have : RightCommutative (fun (m : ℚ) (e : Endpoint) => RingArith.min m (normWeight (weightSum l₂) e)) :=
    ⟨fun a b c => by simp only [min_q]; exact min_right_comm a _ _⟩
  rw [hp.foldl_eq]

/-! ### scale -/

theorem weightSum_eq (eps : List Endpoint) : eps.foldl (fun s e => s + e.weight) 0 = (eps.map (·.weight)).sum := by
  have : ∀ (l : List Endpoint) (a : ℕ), l.foldl (fun s e => s + e.weight) a = a + (l.map (·.weight)).sum := by
    intro l
    induction l with
    | nil => intro a; simp
    | cons e es ih => intro a; simp [ih]; omega
  simpa using this eps 0

theorem foldl_min_bounds (sum : ℕ) (es : List Endpoint) (hpos : ∀ e ∈ es, 0 < nw sum e) :
    ∀ m : ℚ, 0 < m → 0 < es.foldl (fun m e => RingArith.min m (normWeight sum e)) m ∧
      es.foldl (fun m e => RingArith.min m (normWeight sum e)) m ≤ m := by
  induction es with
  | nil => intro m hm; exact ⟨hm, le_refl _⟩
  | cons e es ih =>
    intro m hm
    simp only [List.foldl_cons, min_q, normWeight_q]
    have he := hpos e List.mem_cons_self
    obtain ⟨h1, h2⟩ := ih (fun e' he' => hpos e' (List.mem_cons_of_mem _ he')) (min m (nw sum e)) (lt_min hm he)
    exact ⟨h1, le_trans h2 (min_le_left _ _)⟩

theorem scale_bounds (eps : List Endpoint) (minSize maxSize : ℕ) (hmm : minSize ≤ maxSize)
    (hpos : ∀ e ∈ eps, 0 < nw (weightSum eps) e) :
    (minSize : ℚ) ≤ scaleOf eps minSize maxSize ∧ (scaleOf eps minSize maxSize : ℚ) ≤ maxSize := by
  obtain ⟨hm0, _⟩ := foldl_min_bounds (weightSum eps) eps hpos (RingArith.ofNat 1) (by rw [ofNat_q]; norm_num)
  have hmw : (minWeight eps : ℚ) = eps.foldl (fun m e => RingArith.min m (normWeight (weightSum eps) e)) (RingArith.ofNat 1) := rfl
  rw [← hmw] at hm0
  unfold scaleOf
  rw [min_q, div_q, ceil_q, mul_q, ofNat_q, ofNat_q]
  constructor
  · apply le_min
    · rw [le_div_iff₀ hm0]
      have := Int.le_ceil ((minWeight eps : ℚ) * (minSize : ℚ))
      linarith
    · exact_mod_cast hmm
  · exact min_le_right _ _

/-! ### the whole ring -/

/-- the domain of newRing: weights ≥ 1 whose uint32 sum does not wrap -/
structure Valid (eps : List Endpoint) : Prop where
  nonempty : eps ≠ []
  weights : ∀ e ∈ eps, 1 ≤ e.weight
  nowrap : (eps.map (·.weight)).sum < 4294967296

theorem weightSum_valid (eps : List Endpoint) (h : Valid eps) :
    weightSum eps = (eps.map (·.weight)).sum ∧ 0 < weightSum eps := by
  have e : weightSum eps = (eps.map (·.weight)).sum := by
    unfold weightSum; rw [weightSum_eq, Nat.mod_eq_of_lt h.nowrap]
  refine ⟨e, ?_⟩
  rw [e]
  cases heps : eps with
  | nil => exact absurd heps h.nonempty
  | cons a l =>
    have := h.weights a (by rw [heps]; exact List.mem_cons_self)
    simp; omega

theorem nw_pos (eps : List Endpoint) (h : Valid eps) : ∀ e ∈ eps, 0 < nw (weightSum eps) e := by
  intro e he
  have hw := h.weights e he
  have hs := (weightSum_valid eps h).2
  unfold nw
  have : (0 : ℚ) < (e.weight : ℚ) := by exact_mod_cast hw
  have : (0 : ℚ) < (weightSum eps : ℚ) := by exact_mod_cast hs
  positivity

theorem sum_nw (sum : ℕ) (l : List Endpoint) :
    (l.map (nw sum)).sum = ((List.sum (l.map (·.weight)) : ℕ) : ℚ) / (sum : ℚ) := by
  induction l with
  | nil => simp
  | cons e es ih =>
    simp only [List.map_cons, List.sum_cons, ih, nw]
    push_cast; ring

theorem sum_nw_one (eps : List Endpoint) (h : Valid eps) :
    ((sortByKey eps).map (nw (weightSum eps))).sum = 1 := by
  have hp := sortByKey_perm eps
  rw [sum_nw]
  have e1 : ((sortByKey eps).map (·.weight)).sum = (eps.map (·.weight)).sum := (hp.map _).sum_eq
  obtain ⟨e2, hpos⟩ := weightSum_valid eps h
  rw [e1, ← e2]
  have : (0 : ℚ) < (weightSum eps : ℚ) := by exact_mod_cast hpos
  field_simp

/-- over exact rationals the counts are the running-ceiling closed form -/
theorem ringCounts_q (eps : List Endpoint) (h : Valid eps) (minSize maxSize : ℕ) (hmm : minSize ≤ maxSize) :
    (ringCounts (α := ℚ) eps minSize maxSize) =
      countsSpec (scaleOf eps minSize maxSize) (weightSum eps) (sortByKey eps) 0 := by
  obtain ⟨hlo, hhi⟩ := scale_bounds eps minSize maxSize hmm (nw_pos eps h)
  have hs : (0 : ℚ) ≤ scaleOf eps minSize maxSize := le_trans (by positivity) hlo
  have hceil : ⌈(scaleOf eps minSize maxSize : ℚ)⌉₊ ≤ maxSize := Nat.ceil_le.mpr hhi
  unfold ringCounts
  have h0' : (RingArith.ofNat 0 : ℚ) = 0 := by rw [ofNat_q]; simp
  rw [h0']
  have := countsLoop_q (scaleOf eps minSize maxSize) hs (weightSum eps) maxSize (maxSize + 2) (sortByKey eps) 0 (le_refl _)
    (by rw [sum_nw_one eps h, mul_one, zero_add]; omega)
    (by rw [sum_nw_one eps h, mul_one, zero_add]; exact hceil)
  simpa using this

theorem entriesOf_length (hashOf : Nat → Nat → Nat) : ∀ (cs : List Nat) (k : Nat),
    (entriesOf hashOf cs k).length = cs.sum := by
  intro cs
  induction cs with
  | nil => intro k; rfl
  | cons c cs ih => intro k; simp [entriesOf, ih]

theorem newRing_length (hashOf : Nat → Nat → Nat) (eps : List Endpoint) (h : Valid eps)
    (minSize maxSize : ℕ) (hmm : minSize ≤ maxSize) :
    (newRing (α := ℚ) hashOf eps minSize maxSize).length = ⌈(scaleOf eps minSize maxSize : ℚ)⌉₊ := by
  obtain ⟨hlo, _⟩ := scale_bounds eps minSize maxSize hmm (nw_pos eps h)
  have hs : (0 : ℚ) ≤ scaleOf eps minSize maxSize := le_trans (by positivity) hlo
  unfold newRing
  rw [(sortByHash_perm _).length_eq, entriesOf_length, ringCounts_q eps h minSize maxSize hmm]
  have := countsSpec_sum (scaleOf eps minSize maxSize) hs (weightSum eps) (sortByKey eps) 0 (le_refl _)
  rw [sum_nw_one eps h, mul_one, zero_add] at this
  simpa using this

/-- for EVERY arithmetic (in particular float64): the ring never has more than max_ring_size entries -/
theorem newRing_length_le {α : Type} [RingArith α] (hashOf : Nat → Nat → Nat) (eps : List Endpoint)
    (minSize maxSize : ℕ) : (newRing (α := α) hashOf eps minSize maxSize).length ≤ maxSize := by
  unfold newRing ringCounts
  rw [(sortByHash_perm _).length_eq, entriesOf_length]
  have := countsLoop_le (scaleOf (α := α) eps minSize maxSize) (weightSum eps) maxSize (maxSize + 2) (sortByKey eps)
    (RingArith.ofNat 0) (RingArith.ofNat 0) 0
  simpa using this

/-! ### the balancer keeps its ring in sync with the current endpoints and bounds -/

/-- the ring is the one `F` (= newRing) builds for the state's endpoints and bounds -/
def BalInv (F : List Endpoint → ℕ → ℕ → List RingEntry) (s : BalState) : Prop :=
  ∀ a b, s.cfg = some (a, b) → s.eps ≠ [] → s.ring = F s.eps a b

theorem sortByKey_ne_nil (l : List Endpoint) (h : l ≠ []) : sortByKey l ≠ [] := by
  intro hc
  have := (sortByKey_perm l).length_eq
  rw [hc] at this
  exact h (List.length_eq_zero_iff.mp this.symm)

theorem balUpdate_inv (F : List Endpoint → ℕ → ℕ → List RingEntry)
    (hF : ∀ e1 e2 a b, sortByKey e1 = sortByKey e2 → F e1 a b = F e2 a b)
    (s : BalState) (hs : BalInv F s) (eps : List Endpoint) (hne : eps ≠ []) (a b : ℕ) :
    (balUpdate s eps a b (F eps a b)).cfg = some (a, b) ∧ (balUpdate s eps a b (F eps a b)).eps = eps ∧
    (balUpdate s eps a b (F eps a b)).ring = F eps a b := by
  unfold balUpdate
  have hemp : eps.isEmpty = false := by cases eps with
    | nil => exact absurd rfl hne
    | cons _ _ => rfl
  simp only [hemp, Bool.not_false, Bool.true_and]
  cases hc : s.cfg with
  | none => simp
  | some ab =>
    obtain ⟨a', b'⟩ := ab
    simp only
    by_cases hreg : (decide (sortByKey s.eps ≠ sortByKey eps) || (a' != a || b' != b)) = true
    · rw [if_pos hreg]; exact ⟨rfl, rfl, rfl⟩
    · rw [if_neg hreg]
      refine ⟨rfl, rfl, ?_⟩
      simp only [Bool.or_eq_true, decide_eq_true_eq, bne_iff_ne, ne_eq, not_or, not_not] at hreg
      obtain ⟨hsame, rfl, rfl⟩ := hreg
      have hsne : s.eps ≠ [] := by
        intro he
        rw [he] at hsame
        exact sortByKey_ne_nil eps hne hsame.symm
      rw [hs a' b' hc hsne]
      exact hF _ _ _ _ hsame

end GrpcProofs.Lemmas.Ring


