/-
Helper lemmas for C55 (binary-log truncation); model in GrpcModel/Model/Binlog.lean.
-/
import GrpcModel.Model.Binlog
namespace GrpcProofs.Lemmas.Binlog
open GrpcModel.Binlog

theorem counted_of_ne {e : Entry} (h : ¬ e.key = traceBin) : counted e = true := by
  simp [counted, h]

theorem not_counted_of_eq {e : Entry} (h : e.key = traceBin) : counted e = false := by
  simp [counted, h]

theorem counted_iff {e : Entry} : counted e = true ↔ e.key ≠ traceBin := by
  simp [counted]

theorem truncIndex_le (h : Nat) (es : List Entry) : truncIndex h es ≤ es.length := by
  induction es generalizing h with
  | nil => simp [truncIndex]
  | cons e es ih =>
    unfold truncIndex
    split
    · have := ih h; simp; omega
    · split
      · simp
      · have := ih (h - entryLen e); simp; omega

theorem csize_append (a b : List Entry) : csize (a ++ b) = csize a + csize b := by
  induction a with
  | nil => simp [csize]
  | cons e a ih => simp [csize, ih]; omega

/-- A: what the loop keeps fits. -/
theorem csize_take_truncIndex (h : Nat) (es : List Entry) : csize (es.take (truncIndex h es)) ≤ h := by
  induction es generalizing h with
  | nil => simp [truncIndex, csize]
  | cons e es ih =>
    unfold truncIndex
    split
    · rename_i hk
      simp [List.take_succ_cons, csize, not_counted_of_eq hk]
      exact ih h
    · rename_i hk
      split
      · simp [csize]
      · rename_i hl
        simp [List.take_succ_cons, csize, counted_of_ne hk]
        have := ih (h - entryLen e)
        omega

/-- B: no longer prefix fits. -/
theorem le_truncIndex (h : Nat) (es : List Entry) (n : Nat) (hn : n ≤ es.length)
    (hc : csize (es.take n) ≤ h) : n ≤ truncIndex h es := by
  induction es generalizing h n with
  | nil => simp at hn; omega
  | cons e es ih =>
    cases n with
    | zero => omega
    | succ n =>
      simp [List.take_succ_cons, csize] at hc hn
      unfold truncIndex
      split
      · rename_i hk
        simp [not_counted_of_eq hk] at hc
        have := ih h n hn hc
        omega
      · rename_i hk
        simp [counted_of_ne hk] at hc
        split
        · omega
        · have := ih (h - entryLen e) n hn (by omega)
          omega

/-- C: the entry the loop stops at is counted and does not fit. -/
theorem next_not_fit (h : Nat) (es : List Entry) (hlt : truncIndex h es < es.length) :
    ∃ nxt rest, es.drop (truncIndex h es) = nxt :: rest ∧ counted nxt = true ∧
      h < csize (es.take (truncIndex h es)) + entryLen nxt := by
  induction es generalizing h with
  | nil => simp at hlt
  | cons e es ih =>
    unfold truncIndex at hlt ⊢
    split
    · rename_i hk
      simp [hk] at hlt
      obtain ⟨nxt, rest, h1, h2, h3⟩ := ih h hlt
      refine ⟨nxt, rest, ?_, h2, ?_⟩
      · simpa using h1
      · simpa [List.take_succ_cons, csize, not_counted_of_eq hk] using h3
    · rename_i hk
      split
      · rename_i hl
        exact ⟨e, es, by simp, counted_of_ne hk, by simp [csize]; omega⟩
      · rename_i hl
        simp [hk, hl] at hlt
        obtain ⟨nxt, rest, h1, h2, h3⟩ := ih (h - entryLen e) hlt
        refine ⟨nxt, rest, ?_, h2, ?_⟩
        · simpa using h1
        · simp [List.take_succ_cons, csize, counted_of_ne hk]
          omega


/-! ## main results (restated in Properties/C55.lean) -/


theorem take_eq_self_iff' {α} (l : List α) (n : Nat) : l.take n = l ↔ l.length ≤ n :=
  ⟨fun h => by have := congrArg List.length h; simp at this; omega, List.take_of_length_le⟩

theorem csize_filter_counted (l : List Entry) : csize (l.filter counted) = csize l := by
  induction l with
  | nil => rfl
  | cons e l ih =>
    by_cases hc : counted e = true
    · simp [hc, csize, ih]
    · simp [hc, csize, ih]

theorem keepFirst_zero (l : List Entry) : keepFirst 0 l = l.filter (fun e => !(counted e)) := by
  induction l with
  | nil => rfl
  | cons e l ih =>
    by_cases hc : counted e = true
    · simp [keepFirst, hc, ih]
    · simp [keepFirst, hc, ih]

/-- K: keeping the counted entries of the first `n` and all trace-bin entries. -/
theorem keepFirst_take (n : Nat) (l : List Entry) :
    keepFirst ((l.take n).filter counted).length l
      = l.take n ++ (l.drop n).filter (fun e => !(counted e)) := by
  induction l generalizing n with
  | nil => simp [keepFirst]
  | cons e l ih =>
    cases n with
    | zero => simp [keepFirst_zero]
    | succ n =>
      by_cases hc : counted e = true
      · simp [List.take_succ_cons, hc, keepFirst, ih n]
      · simp [List.take_succ_cons, hc, keepFirst, ih n]

theorem filter_counted_filter_not (l : List Entry) : (l.filter (fun e => !(counted e))).filter counted = [] := by
  induction l with
  | nil => rfl
  | cons e l ih =>
    by_cases hc : counted e = true
    · simp [hc, ih]
    · simp [hc, ih]

theorem drop_filter_take (n : Nat) (l : List Entry) :
    (l.filter counted).drop ((l.take n).filter counted).length = (l.drop n).filter counted := by
  conv => lhs; arg 2; rw [← List.take_append_drop n l]
  rw [List.filter_append]
  simp

/-- conditions 1–3 of the statement hold for anything whose counted part is that of the loop's prefix -/
theorem loop_conds (h : Nat) (es : List Entry) :
    (es.take (truncIndex h es)).filter counted <+: es.filter counted ∧
    csize (es.take (truncIndex h es)) ≤ h ∧
    ∀ nxt rest, (es.filter counted).drop ((es.take (truncIndex h es)).filter counted).length = nxt :: rest →
      h < csize (es.take (truncIndex h es)) + entryLen nxt := by
  refine ⟨(List.take_prefix _ _).filter _, csize_take_truncIndex h es, fun nxt rest hd => ?_⟩
  rw [drop_filter_take] at hd
  by_cases hlt : truncIndex h es < es.length
  · obtain ⟨n', r', h1, h2, h3⟩ := next_not_fit h es hlt
    rw [h1] at hd
    simp [h2] at hd
    rw [← hd.1]; exact h3
  · have : es.drop (truncIndex h es) = [] := by simp; omega
    rw [this] at hd; simp at hd




theorem csize_prefix_le {p l : List Entry} (hp : p <+: l) : csize p ≤ csize l := by
  obtain ⟨t, rfl⟩ := hp
  rw [csize_append]; omega

theorem mem_keepFirst_of_not_counted (k : Nat) (l : List Entry) (e : Entry) (he : e ∈ l)
    (hc : counted e = false) : e ∈ keepFirst k l := by
  induction l generalizing k with
  | nil => cases he
  | cons x l ih =>
    rcases List.mem_cons.1 he with rfl | hm
    · simp [keepFirst, hc]
    · by_cases hx : counted x = true
      · cases k with
        | zero => simp [keepFirst, hx]; exact ih 0 hm
        | succ k => simp [keepFirst, hx]; exact Or.inr (ih k hm)
      · simp [keepFirst, hx]; exact Or.inr (ih k hm)

theorem holds_longest {h : Nat} {inp out : List Entry} {flag : Bool} (H : Holds h inp out flag) :
    ∀ q, q <+: inp.filter counted → csize q ≤ h → q.length ≤ (out.filter counted).length := by
  obtain ⟨h1, h2, h3, _, _⟩ := H
  intro q hq hc
  apply Nat.le_of_not_lt
  intro hlt
  have hql := hq.length_le
  cases hd : (inp.filter counted).drop (out.filter counted).length with
  | nil =>
    have := congrArg List.length hd
    simp at this
    omega
  | cons nxt rest =>
    have hfit := h3 nxt rest hd
    have hcin : inp.filter counted = out.filter counted ++ nxt :: rest := by
      obtain ⟨t, ht⟩ := h1
      rw [← ht] at hd ⊢
      simp at hd
      rw [hd]
    have hp : out.filter counted ++ [nxt] <+: inp.filter counted := ⟨rest, by simp [hcin]⟩
    have hpq : out.filter counted ++ [nxt] <+: q :=
      List.prefix_of_prefix_length_le hp hq (by simp; omega)
    have hnc : counted nxt = true := by
      have : nxt ∈ inp.filter counted := by rw [hcin]; simp
      exact (List.mem_filter.1 this).2
    have := csize_prefix_le hpq
    rw [csize_append, csize_filter_counted] at this
    simp [csize, hnc] at this
    omega

theorem holds_trace_bin_kept {h : Nat} {inp out : List Entry} {flag : Bool} (H : Holds h inp out flag) :
    ∀ e ∈ inp, e.key = traceBin → e ∈ out := by
  intro e he hk
  rw [H.2.2.2.1]
  exact mem_keepFirst_of_not_counted _ _ _ he (not_counted_of_eq hk)

theorem holds_self (h : Nat) (es : List Entry) (hfit : csize es ≤ h) : Holds h es es false := by
  refine ⟨List.prefix_refl _, hfit, ?_, ?_, by simp⟩
  · intro nxt rest hd; simp at hd
  · have := keepFirst_take es.length es
    simpa using this.symm

theorem csize_filter_not (l : List Entry) : csize (l.filter (fun e => !(counted e))) = 0 := by
  rw [← csize_filter_counted, filter_counted_filter_not]; rfl

theorem statement_holds (h : Nat) (es : List Entry) (hfit : h = maxUInt → csize es ≤ h) :
    Holds h es (truncateMetadata h es).1 (truncateMetadata h es).2 := by
  unfold truncateMetadata
  split
  · rename_i hm; exact holds_self h es (hfit hm)
  · obtain ⟨l1, l2, l3⟩ := loop_conds h es
    simp only []
    have hf : (es.take (truncIndex h es) ++ (es.drop (truncIndex h es)).filter (fun e => !(counted e))).filter counted
        = (es.take (truncIndex h es)).filter counted := by
      rw [List.filter_append, filter_counted_filter_not]; simp
    refine ⟨by rw [hf]; exact l1, by rw [csize_append, csize_filter_not]; exact l2, ?_, ?_, ?_⟩
    · intro nxt rest hd
      rw [hf] at hd
      rw [csize_append, csize_filter_not]
      exact l3 nxt rest hd
    · rw [hf, keepFirst_take]
    · have hle := List.length_filter_le (fun e => !(counted e)) (es.drop (truncIndex h es))
      have hidx := truncIndex_le h es
      simp only [decide_eq_true_eq, List.length_append, List.length_take, ne_eq]
      constructor
      · intro hlt heq
        have := congrArg List.length heq
        simp at this
        omega
      · intro hne
        apply Nat.lt_of_le_of_ne
        · simp at hle ⊢; omega
        · intro heq
          apply hne
          have hl : ((es.drop (truncIndex h es)).filter (fun e => !(counted e))).length = (es.drop (truncIndex h es)).length := by
            simp at heq ⊢; omega
          have := List.length_filter_eq_length_iff.1 hl
          have hfe : (es.drop (truncIndex h es)).filter (fun e => !(counted e)) = es.drop (truncIndex h es) :=
            List.filter_eq_self.2 this
          rw [hfe, List.take_append_drop]

theorem prefixShapeVerdict_ne_ok (inp out : List Entry) (flag : Bool) : prefixShapeVerdict inp out flag ≠ .ok := by
  unfold prefixShapeVerdict
  split
  · simp
  · split
    · split <;> simp
    · simp

theorem nextFits_false_iff (h : Nat) (inp out : List Entry) :
    nextFits h inp out = false ↔
    ∀ nxt rest, (inp.filter counted).drop (out.filter counted).length = nxt :: rest → h < csize out + entryLen nxt := by
  unfold nextFits
  split
  · rename_i hd; simp [hd]
  · rename_i nxt rest hd
    simp [hd]

theorem metaVerdict_ok_iff (h : Nat) (inp out : List Entry) (flag : Bool) :
    metaVerdict h inp out flag = .ok ↔ Holds h inp out flag := by
  unfold metaVerdict Holds
  rw [← nextFits_false_iff]
  generalize keepFirst (out.filter counted).length inp = K
  by_cases c1 : (out.filter counted).isPrefixOf (inp.filter counted) = false
  · rw [if_pos c1]
    have : ¬ (out.filter counted <+: inp.filter counted) := by
      intro hp; rw [List.isPrefixOf_iff_prefix.2 hp] at c1; cases c1
    simp [this]
  · rw [if_neg c1]
    have h1 : out.filter counted <+: inp.filter counted := List.isPrefixOf_iff_prefix.1 (by simpa using c1)
    by_cases c2 : csize out > h
    · rw [if_pos c2]
      have : ¬ csize out ≤ h := by omega
      simp [this]
    · rw [if_neg c2]
      by_cases c3 : nextFits h inp out = true
      · rw [if_pos c3]; simp [c3]
      · rw [if_neg c3]
        have c3' : nextFits h inp out = false := by simpa using c3
        by_cases c4 : out = K
        · rw [if_pos c4]
          by_cases c5 : flag = (out != inp)
          · rw [if_pos c5]
            have : (flag = true ↔ out ≠ inp) := by rw [c5]; simp
            simp only [true_iff]
            exact ⟨h1, by omega, c3', c4, this⟩
          · rw [if_neg c5]
            have : ¬ (flag = true ↔ out ≠ inp) := by
              intro hh; apply c5
              cases flag <;> simp_all
            simp [this]
        · rw [if_neg c4]
          have : (if out.isPrefixOf inp = true then prefixShapeVerdict inp out flag else MetaVerdict.notInOrder) ≠ .ok := by
            split
            · exact prefixShapeVerdict_ne_ok _ _ _
            · simp
          constructor
          · intro hv; exact absurd hv this
          · intro hh; exact absurd hh.2.2.2.1 c4


theorem code_verdict (h : Nat) (es : List Entry) (hfit : h = maxUInt → csize es ≤ h) :
    metaVerdict h es (truncateMetadata h es).1 (truncateMetadata h es).2 = .ok :=
  (metaVerdict_ok_iff _ _ _ _).2 (statement_holds h es hfit)

/-- the shape of the result: the longest fitting prefix of the entry list, plus the grpc-trace-bin
    entries behind it -/
theorem result_is_longest_fitting_prefix (h : Nat) (es : List Entry) (hfit : h = maxUInt → csize es ≤ h) :
    ∃ n, (truncateMetadata h es).1 = es.take n ++ (es.drop n).filter (fun e => !(counted e)) ∧
      csize (es.take n) ≤ h ∧ ∀ p, p <+: es → csize p ≤ h → p.length ≤ n := by
  unfold truncateMetadata
  split
  · rename_i hm
    exact ⟨es.length, by simp, by simpa using hfit hm, fun p hp _ => hp.length_le⟩
  · refine ⟨truncIndex h es, rfl, csize_take_truncIndex h es, fun p hp hc => ?_⟩
    have hlen := hp.length_le
    have : p = es.take p.length := by
      obtain ⟨t, rfl⟩ := hp
      simp
    rw [this] at hc
    exact le_truncIndex h es p.length hlen hc

theorem truncated_flag_iff_dropped (h : Nat) (es : List Entry) (hfit : h = maxUInt → csize es ≤ h) :
    ((truncateMetadata h es).2 = true ↔ (truncateMetadata h es).1 ≠ es) ∧
    ((truncateMetadata h es).2 = true ↔ (truncateMetadata h es).1.length < es.length) := by
  refine ⟨(statement_holds h es hfit).2.2.2.2, ?_⟩
  unfold truncateMetadata
  split <;> simp

theorem exists_prefix_of_filter_prefix {α} (f : α → Bool) (es q : List α) (hq : q <+: es.filter f) :
    ∃ p, p <+: es ∧ p.filter f = q := by
  induction es generalizing q with
  | nil => simp at hq; exact ⟨[], by simp, by simp [hq]⟩
  | cons e es ih =>
    by_cases hf : f e = true
    · simp [hf] at hq
      rw [List.prefix_cons_iff] at hq
      rcases hq with rfl | ⟨t, rfl, ht⟩
      · exact ⟨[], by simp, by simp⟩
      · obtain ⟨p, hp, hpf⟩ := ih t ht
        exact ⟨e :: p, by simpa using hp, by simp [hf, hpf]⟩
    · simp [hf] at hq
      obtain ⟨p, hp, hpf⟩ := ih q hq
      exact ⟨e :: p, by simpa using hp, by simp [hf, hpf]⟩


theorem counted_entries_longest_fitting_prefix (h : Nat) (es : List Entry) (hfit : h = maxUInt → csize es ≤ h) :
    (truncateMetadata h es).1.filter counted <+: es.filter counted ∧
    csize ((truncateMetadata h es).1.filter counted) ≤ h ∧
    ∀ q, q <+: es.filter counted → csize q ≤ h → q.length ≤ ((truncateMetadata h es).1.filter counted).length := by
  have H := statement_holds h es hfit
  exact ⟨H.1, by rw [csize_filter_counted]; exact H.2.1, holds_longest H⟩

theorem take_truncIndex_filter (h : Nat) (es : List Entry) :
    (es.take (truncIndex h es)).filter counted
      = (es.filter counted).take (truncIndex h (es.filter counted)) := by
  induction es generalizing h with
  | nil => simp [truncIndex]
  | cons e es ih =>
    by_cases hk : e.key = traceBin
    · simp [truncIndex, hk, not_counted_of_eq hk, ih h]
    · by_cases hl : entryLen e > h
      · simp [truncIndex, hk, hl, counted_of_ne hk]
      · simp [truncIndex, hk, hl, counted_of_ne hk, ih (h - entryLen e)]

theorem filter_not_of_all_counted (l : List Entry) (hl : ∀ e ∈ l, counted e = true) :
    l.filter (fun e => !(counted e)) = [] := by
  rw [List.filter_eq_nil_iff]
  intro e he hc
  simp [hl e he] at hc

theorem trace_bin_not_counted (h : Nat) (es : List Entry) :
    (truncateMetadata h es).1.filter counted = (truncateMetadata h (es.filter counted)).1 := by
  unfold truncateMetadata
  split
  · rfl
  · simp only []
    rw [List.filter_append, filter_counted_filter_not, List.append_nil, take_truncIndex_filter,
      filter_not_of_all_counted ((es.filter counted).drop _) (fun e he => (List.mem_filter.1 (List.mem_of_mem_drop he)).2),
      List.append_nil]

theorem trace_bin_always_kept (h : Nat) (es : List Entry) (hfit : h = maxUInt → csize es ≤ h)
    (e : Entry) (he : e ∈ es) (hk : e.key = traceBin) : e ∈ (truncateMetadata h es).1 :=
  holds_trace_bin_kept (statement_holds h es hfit) e he hk

theorem message_le_limit (m : Nat) (data : Bytes) (hlen : data.length ≤ maxUInt) :
    (truncateMessage m data).1 = data.take m ∧ (truncateMessage m data).1.length ≤ m ∧
    ((truncateMessage m data).2 = true ↔ (truncateMessage m data).1 ≠ data) ∧
    ((truncateMessage m data).2 = true ↔ m < data.length) := by
  unfold truncateMessage
  split
  · rename_i hm
    subst hm
    simp [List.take_of_length_le hlen]
    omega
  · split
    · rename_i hge
      simp [List.take_of_length_le hge]
      omega
    · rename_i hlt
      simp [take_eq_self_iff']
      omega




def omitLits : List Bytes :=
  [asciiBytes "lb-token", asciiBytes ":path", asciiBytes ":authority", asciiBytes "content-encoding",
   asciiBytes "content-type", asciiBytes "user-agent", asciiBytes "te"]

theorem omitCases_eq : omitCases = omitLits ++ [traceBin] := by decide

theorem metadataKeyOmit_spec (k : Bytes) :
    metadataKeyOmit k = true ↔ (k ∈ omitLits ∨ (grpcPrefix <+: k ∧ k ≠ traceBin)) := by
  unfold metadataKeyOmit
  have htb : traceBin ∉ omitLits := by decide
  have hnp : ∀ x ∈ omitLits, ¬ grpcPrefix <+: x ∨ True := fun _ _ => Or.inr trivial
  by_cases hk : k = traceBin
  · subst hk; simp [htb]
  · simp only [hk, if_false, omitCases_eq]
    by_cases hc : (omitLits ++ [traceBin]).contains k = true
    · simp only [hc, if_true, true_iff]
      simp [hk] at hc
      exact Or.inl hc
    · simp only [hc]
      simp [hk] at hc
      simp [hc, hk]

theorem mustOmit_imp_omit (k : Bytes) (h : mustOmit k = true) : metadataKeyOmit k = true := by
  rw [metadataKeyOmit_spec]
  unfold mustOmit at h
  simp only [Bool.or_eq_true, Bool.and_eq_true, List.contains_iff_mem, List.isPrefixOf_iff_prefix, bne_iff_ne] at h
  rcases h with h | h
  · left
    simp only [omitLits, List.mem_cons] at h ⊢
    rcases h with h | h | h | h | h | h | h <;> simp_all
  · exact Or.inr h

theorem mem_mdToMetadataProto (md : MD) (e : Entry) :
    e ∈ mdToMetadataProto md ↔ metadataKeyOmit e.key = false ∧ ∃ vs, (e.key, vs) ∈ md ∧ e.value ∈ vs := by
  unfold mdToMetadataProto
  simp only [List.mem_flatMap]
  constructor
  · rintro ⟨⟨k, vv⟩, hg, he⟩
    by_cases ho : metadataKeyOmit k = true
    · simp [ho] at he
    · simp [ho] at he
      obtain ⟨v, hv, rfl⟩ := he
      simp at ho
      exact ⟨ho, vv, hg, hv⟩
  · rintro ⟨ho, vs, hg, hv⟩
    refine ⟨(e.key, vs), hg, ?_⟩
    simp [ho]
    exact ⟨e.value, hv, rfl⟩

theorem omitted_never_appear (md : MD) (e : Entry) (he : e ∈ mdToMetadataProto md) :
    mustOmit e.key = false ∧
    e.key ∉ [asciiBytes ":path", asciiBytes ":authority", asciiBytes "content-type", asciiBytes "user-agent",
             asciiBytes "te", asciiBytes "lb-token"] ∧
    ¬ (grpcPrefix <+: e.key ∧ e.key ≠ traceBin) := by
  have ho := ((mem_mdToMetadataProto md e).1 he).1
  have hm : mustOmit e.key = false := by
    cases hmo : mustOmit e.key
    · rfl
    · rw [mustOmit_imp_omit _ hmo] at ho; cases ho
  refine ⟨hm, ?_, ?_⟩
  · intro hin
    have : mustOmit e.key = true := by
      unfold mustOmit
      simp only [Bool.or_eq_true, List.contains_iff_mem]
      exact Or.inl hin
    rw [hm] at this; cases this
  · intro hp
    have : mustOmit e.key = true := by
      unfold mustOmit
      simp only [Bool.or_eq_true, Bool.and_eq_true, List.isPrefixOf_iff_prefix, bne_iff_ne]
      exact Or.inr hp
    rw [hm] at this; cases this

theorem loggable_all_appear_in_order :
    (∀ a b : MD, mdToMetadataProto (a ++ b) = mdToMetadataProto a ++ mdToMetadataProto b) ∧
    (∀ (k : Bytes) (vs : List Bytes), mdToMetadataProto [(k, vs)]
        = if metadataKeyOmit k then [] else vs.map (fun v => ⟨k, v⟩)) ∧
    (∀ (md : MD) (e : Entry), e ∈ mdToMetadataProto md ↔
        metadataKeyOmit e.key = false ∧ ∃ vs, (e.key, vs) ∈ md ∧ e.value ∈ vs) := by
  refine ⟨fun a b => by simp [mdToMetadataProto], fun k vs => by simp [mdToMetadataProto], mem_mdToMetadataProto⟩


end GrpcProofs.Lemmas.Binlog
