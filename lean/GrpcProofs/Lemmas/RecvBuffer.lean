/-
Helper lemmas for C05 (recvBuffer / recvBufferReader).  The property theorems are in
GrpcProofs/Properties/C05.lean.
-/
import GrpcModel.Model.RecvBuffer
namespace GrpcProofs.Lemmas.RecvBuffer
open GrpcModel.RecvBuffer GrpcModel.Generated

/-- concatenated payloads of a message list (`err` messages carry none) -/
def bytesOf (q : List Msg) : Bytes := q.flatMap Msg.bytes

def AllData (q : List Msg) : Prop := ∀ m ∈ q, m.isData = true

/-- The compaction ledger is exact: the last `sufLen` backlog entries are data messages whose
    payload sizes add up to `sufBytes`; with compaction disabled the ledger stays (0, 0). -/
def Ledger (b : RB) : Prop :=
  ∃ pre suf, b.backlog = pre ++ suf ∧ suf.length = b.sufLen ∧ AllData suf
    ∧ b.sufBytes = ((bytesOf suf).length : Int) ∧ (b.compaction = false → b.sufLen = 0)

theorem bytesOf_append (a b : List Msg) : bytesOf (a ++ b) = bytesOf a ++ bytesOf b := by
  simp [bytesOf]

theorem bytesOf_nil : bytesOf [] = [] := rfl

theorem bytesOf_cons (m : Msg) (t : List Msg) : bytesOf (m :: t) = m.bytes ++ bytesOf t := by
  simp [bytesOf]

theorem allData_nil : AllData [] := by intro m h; cases h

theorem allData_append {a b : List Msg} (ha : AllData a) (hb : AllData b) : AllData (a ++ b) := by
  intro m h
  rcases List.mem_append.mp h with h | h
  · exact ha m h
  · exact hb m h

theorem allData_single (d : Bytes) : AllData [Msg.data d] := by
  intro m hm; simp at hm; subst hm; rfl

theorem fillBuf_exact (cat : Bytes) : fillBuf cat cat.length = cat := by
  simp [fillBuf]

/-- closes the trivial field-equality side goals whatever `simp only` left of them -/
local macro "side" : tactic => `(tactic| first | rfl | trivial | assumption | (simp_all; done))

/-- What `compactBacklogLocked` does to a backlog `bl ++ [data d]` whose ledger was exact before the
    append: the ledger stays exact, and the backlog either stays as it is or a non-empty all-data
    suffix `suf` is replaced by the single message `data (bytesOf suf)` — `fillBuf` neither truncates
    nor leaves pool bytes. Other fields are untouched. -/
theorem compact_spec (b : RB) (bl : List Msg) (d : Bytes)
    (h : Ledger { b with backlog := bl }) :
    ∀ b', b' = compactBacklog { b with backlog := bl ++ [.data d] } (.data d) →
    Ledger b'
    ∧ (∃ pre suf, bl ++ [.data d] = pre ++ suf ∧ AllData suf ∧ suf ≠ []
        ∧ (b'.backlog = pre ++ suf ∨ b'.backlog = pre ++ [.data (bytesOf suf)]))
    ∧ b'.chan = b.chan ∧ b'.err = b.err ∧ b'.compaction = b.compaction := by
  obtain ⟨pre, suf, hbl, hlen, hdata, hbytes, hoff⟩ := h
  simp only at hbl hlen hbytes hoff
  have hshape : ∀ bl' : List Msg, bl' = bl ++ [.data d] →
      ∃ pre suf, bl ++ [Msg.data d] = pre ++ suf ∧ AllData suf ∧ suf ≠ []
        ∧ (bl' = pre ++ suf ∨ bl' = pre ++ [.data (bytesOf suf)]) := by
    intro bl' hbl'
    exact ⟨bl, [.data d], rfl, allData_single d, by simp, Or.inl hbl'⟩
  intro b' hb'
  subst hb'
  unfold compactBacklog
  by_cases hc : b.compaction
  · simp only [hc, Bool.not_true, Bool.false_eq_true, ↓reduceIte]
    split
    · exact ⟨⟨bl ++ [.data d], [], by simp, rfl, allData_nil, by simp [bytesOf], fun _ => rfl⟩,
        hshape _ rfl, by side, by side, by side⟩
    · split
      · refine ⟨⟨pre, suf ++ [.data d], ?_, ?_, ?_, ?_, ?_⟩, hshape _ rfl, by side, by side, by side⟩
        · simp [hbl]
        · simp [hlen]
        · exact allData_append hdata (allData_single d)
        · simp [bytesOf_append, bytesOf_cons, bytesOf_nil, Msg.bytes, hbytes]
        · simp
      · -- the compaction branch
        have hsl : (bl ++ [Msg.data d]).length - (b.sufLen + 1) = pre.length := by
          simp [hbl, ← hlen]
        have hdrop : (bl ++ [Msg.data d]).drop pre.length = suf ++ [.data d] := by
          simp [hbl]
        have htake : (bl ++ [Msg.data d]).take pre.length = pre := by
          simp [hbl]
        have hn : (b.sufBytes + (d.length : Int)).toNat = (bytesOf (suf ++ [.data d])).length := by
          simp [bytesOf_append, bytesOf_cons, bytesOf_nil, Msg.bytes, hbytes]; omega
        simp only [hsl, hdrop, htake, hn]
        have hcat : (suf ++ [Msg.data d]).flatMap Msg.bytes = bytesOf (suf ++ [.data d]) := rfl
        rw [hcat, fillBuf_exact]
        refine ⟨⟨pre ++ [.data (bytesOf (suf ++ [.data d]))], [], by simp, rfl, allData_nil,
          by simp [bytesOf], fun _ => rfl⟩, ?_, by side, by side, by side⟩
        exact ⟨pre, suf ++ [.data d], by simp [hbl], allData_append hdata (allData_single d),
          by simp, Or.inr rfl⟩
  · simp only [hc, Bool.not_false, ↓reduceIte]
    have hc' : b.compaction = false := by simpa using hc
    have h0 := hoff hc'
    have hs : suf = [] := by
      cases suf with
      | nil => rfl
      | cons a t => simp at hlen; omega
    subst hs
    refine ⟨⟨bl ++ [.data d], [], by simp, by simp [h0], allData_nil, ?_, fun _ => h0⟩,
      hshape _ rfl, by side, by side, by side⟩
    simpa [bytesOf] using hbytes

/-- the same for an error message: only the ledger is reset -/
theorem compact_err_spec (b : RB) (bl : List Msg) (e : Nat)
    (h : Ledger { b with backlog := bl }) :
    ∀ b', b' = compactBacklog { b with backlog := bl ++ [.err e] } (.err e) →
    Ledger b' ∧ b'.backlog = bl ++ [.err e] ∧ b'.chan = b.chan ∧ b'.err = b.err
      ∧ b'.compaction = b.compaction := by
  obtain ⟨pre, suf, hbl, hlen, hdata, hbytes, hoff⟩ := h
  simp only at hbl hlen hbytes hoff
  intro b' hb'
  subst hb'
  unfold compactBacklog
  by_cases hc : b.compaction
  · simp only [hc, Bool.not_true, Bool.false_eq_true, ↓reduceIte]
    exact ⟨⟨bl ++ [.err e], [], by simp, rfl, allData_nil, by simp [bytesOf], fun _ => rfl⟩,
      by side, by side, by side, by side⟩
  · simp only [hc, Bool.not_false, ↓reduceIte]
    have hc' : b.compaction = false := by simpa using hc
    have h0 := hoff hc'
    have hs : suf = [] := by
      cases suf with
      | nil => rfl
      | cons a t => simp at hlen; omega
    subst hs
    refine ⟨⟨bl ++ [.err e], [], by simp, by simp [h0], allData_nil, ?_, fun _ => h0⟩,
      by side, by side, by side, by side⟩
    simpa [bytesOf] using hbytes

/-- `load` keeps the ledger exact. -/
theorem load_ledger (b : RB) (h : Ledger b) : Ledger (load b) := by
  obtain ⟨pre, suf, hbl, hlen, hdata, hbytes, hoff⟩ := h
  unfold load
  split
  · rename_i m rest hb hch
    rw [hb] at hbl
    by_cases hcond : (b.compaction && b.sufLen == b.backlog.length) = true
    · simp only [hcond, ↓reduceIte]
      simp only [Bool.and_eq_true, beq_iff_eq] at hcond
      have hpre : pre = [] := by
        have : (pre ++ suf).length = (m :: rest).length := by rw [hbl]
        rw [hb] at hcond
        simp at this
        cases pre with
        | nil => rfl
        | cons a t => simp at this; have := hcond.2; simp at this; omega
      subst hpre
      simp only [List.nil_append] at hbl
      subst hbl
      refine ⟨[], rest, by simp, ?_, ?_, ?_, ?_⟩
      · simp at hlen ⊢; omega
      · intro x hx; exact hdata x (List.mem_cons_of_mem _ hx)
      · simp [bytesOf_cons, Msg.len] at hbytes ⊢; omega
      · intro hc; have h1 := hcond.1; simp at hc; rw [hc] at h1; cases h1
    · simp only [hcond, Bool.false_eq_true, ↓reduceIte]
      have hne : pre ≠ [] := by
        intro hp
        subst hp
        simp only [List.nil_append] at hbl
        apply hcond
        simp only [Bool.and_eq_true, beq_iff_eq]
        constructor
        · cases hcc : b.compaction with
          | true => rfl
          | false =>
            have := hoff hcc
            rw [← hlen, ← hbl] at this
            simp at this
        · rw [hb, hbl, ← hlen]
      cases pre with
      | nil => exact absurd rfl hne
      | cons a t =>
        simp only [List.cons_append, List.cons.injEq] at hbl
        exact ⟨t, suf, hbl.2, hlen, hdata, hbytes, hoff⟩
  · exact ⟨pre, suf, hbl, hlen, hdata, hbytes, hoff⟩

/-- `load` only moves the backlog head into the empty channel. -/
theorem load_queue (b : RB) :
    (load b).chan.toList ++ (load b).backlog = b.chan.toList ++ b.backlog
    ∧ (load b).err = b.err ∧ (load b).compaction = b.compaction
    ∧ ((load b).chan = none → (load b).backlog = []) := by
  unfold load
  split
  · rename_i m rest hb hch
    refine ⟨?_, ?_, ?_, ?_⟩
    · simp [hb, hch]
    · split <;> rfl
    · split <;> rfl
    · intro h; split at h <;> simp at h
  · rename_i hno
    refine ⟨rfl, rfl, rfl, ?_⟩
    intro hch
    cases hb : b.backlog with
    | nil => rfl
    | cons m rest => exact absurd hch (by intro hch; exact hno m rest hb hch)

/-! ### abstraction of the message queue -/

/-- data bytes in front of the first error message, and that error -/
def absQ : List Msg → Bytes × Option Nat
  | [] => ([], none)
  | .data b :: t => (b ++ (absQ t).1, (absQ t).2)
  | .err e :: _ => ([], some e)

def isEmptyData : Msg → Bool
  | .data [] => true
  | _ => false

/-- number of zero-length data messages -/
def emptiesIn (q : List Msg) : Nat := q.countP isEmptyData

theorem absQ_snoc (x : List Msg) (r : Msg) (h : (absQ x).2 = none) :
    absQ (x ++ [r]) = ((absQ x).1 ++ r.bytes, r.errOf) := by
  induction x with
  | nil => cases r <;> simp [absQ, Msg.bytes, Msg.errOf]
  | cons m t ih =>
    cases m with
    | data b => simp only [absQ] at h; simp [absQ, ih h]
    | err e => simp [absQ] at h

theorem absQ_compact (x suf : List Msg) (h : AllData suf) :
    absQ (x ++ [.data (bytesOf suf)]) = absQ (x ++ suf) := by
  induction x with
  | nil =>
    induction suf with
    | nil => simp [absQ, bytesOf]
    | cons m t ih =>
      have hm := h m (by simp)
      have ht : AllData t := fun y hy => h y (List.mem_cons_of_mem _ hy)
      cases m with
      | data b =>
        have := ih ht
        simp only [List.nil_append, absQ, bytesOf_cons, Msg.bytes] at this ⊢
        rw [← this]; simp
      | err e => simp [Msg.isData] at hm
  | cons m t ih =>
    cases m with
    | data b => simp only [List.cons_append, absQ, ih]
    | err e => simp [absQ]

theorem empties_compact (x suf : List Msg) (h : AllData suf) (hne : suf ≠ []) :
    emptiesIn (x ++ [.data (bytesOf suf)]) ≤ emptiesIn (x ++ suf) := by
  simp only [emptiesIn, List.countP_append]
  have : List.countP isEmptyData [Msg.data (bytesOf suf)] ≤ List.countP isEmptyData suf := by
    cases hb : bytesOf suf with
    | cons a t => simp [isEmptyData]
    | nil =>
      -- all payloads are empty, so every message of `suf` counts
      cases suf with
      | nil => exact absurd rfl hne
      | cons m t =>
        have hm := h m (by simp)
        cases m with
        | err e => simp [Msg.isData] at hm
        | data b =>
          simp only [bytesOf_cons, Msg.bytes, List.append_eq_nil_iff] at hb
          simp [List.countP_cons, isEmptyData, hb.1]
  omega

/-- the queue of messages not yet seen by the reader logic, oldest first -/
def qOf (s : State) : List Msg := s.held.toList ++ (s.rb.chan.toList ++ s.rb.backlog)

/-- Simulation relation between (the relevant parts of) a state and the FIFO specification. -/
structure Rel (last : Option Bytes) (rerr berr : Option Nat) (q : List Msg) (sp : Spec) : Prop where
  perr : sp.perr = berr
  done : sp.done = rerr
  live : rerr = none →
    sp.queue = last.getD [] ++ (absQ q).1 ∧ (absQ q).2 = berr ∧ emptiesIn q ≤ sp.empties

def R (s : State) (sp : Spec) : Prop := Rel s.rd.last s.rd.err s.rb.err (qOf s) sp

structure Inv (s : State) : Prop where
  ledger : Ledger s.rb
  chanFull : s.held = none → s.rb.chan = none → s.rb.backlog = []
  lastNe : ∀ l, s.rd.last = some l → l ≠ []
  heldOk : s.held.isSome → s.rd.last = none ∧ s.rd.err = none

/-- `put` on a buffer that has not seen an error: ledger, queue abstraction, channel. -/
theorem put_spec (b : RB) (r : Msg) (x : List Msg) (hl : Ledger b) (he : b.err = none) :
    Ledger (put b r)
    ∧ absQ (x ++ ((put b r).chan.toList ++ (put b r).backlog))
        = absQ (x ++ (b.chan.toList ++ b.backlog) ++ [r])
    ∧ emptiesIn (x ++ ((put b r).chan.toList ++ (put b r).backlog))
        ≤ emptiesIn (x ++ (b.chan.toList ++ b.backlog) ++ [r])
    ∧ (put b r).err = r.errOf
    ∧ (put b r).compaction = b.compaction
    ∧ ((put b r).chan = none → b.chan = none ∧ b.backlog ≠ []) := by
  unfold put
  simp only [he, Option.isSome_none, Bool.false_eq_true, ↓reduceIte]
  by_cases hdirect : (b.backlog.isEmpty && b.chan.isNone) = true
  · simp only [hdirect, ↓reduceIte]
    simp only [Bool.and_eq_true, List.isEmpty_iff, Option.isNone_iff_eq_none] at hdirect
    refine ⟨?_, ?_, ?_, by side, by side, ?_⟩
    · obtain ⟨pre, suf, h1, h2, h3, h4, h5⟩ := hl
      exact ⟨pre, suf, h1, h2, h3, h4, h5⟩
    · simp [hdirect.1, hdirect.2]
    · simp [hdirect.1, hdirect.2]
    · intro h; simp at h
  · simp only [hdirect, Bool.false_eq_true, ↓reduceIte]
    have hch : b.chan = none → b.backlog ≠ [] := by
      intro hc hb
      apply hdirect
      simp [hc, hb]
    cases r with
    | data d =>
      have hl' : Ledger { { b with err := (Msg.data d).errOf } with backlog := b.backlog } := by
        obtain ⟨pre, suf, h1, h2, h3, h4, h5⟩ := hl
        exact ⟨pre, suf, h1, h2, h3, h4, h5⟩
      obtain ⟨h1, ⟨pre, suf, hsplit, hsd, hsne, hbl⟩, h3, h4, h5⟩ :=
        compact_spec { b with err := (Msg.data d).errOf } b.backlog d hl' _ rfl
      refine ⟨h1, ?_, ?_, h4, h5, ?_⟩
      · rw [h3]
        rcases hbl with hbl | hbl
        · rw [hbl, ← hsplit]; simp
        · rw [hbl]
          have := absQ_compact (x ++ b.chan.toList ++ pre) suf hsd
          simp only [List.append_assoc] at this ⊢
          rw [this, ← hsplit]
      · rw [h3]
        rcases hbl with hbl | hbl
        · rw [hbl, ← hsplit]; simp
        · rw [hbl]
          have := empties_compact (x ++ b.chan.toList ++ pre) suf hsd hsne
          simp only [List.append_assoc] at this ⊢
          rw [hsplit]
          exact this
      · rw [h3]; intro hc; exact ⟨hc, hch hc⟩
    | err e =>
      have hl' : Ledger { { b with err := (Msg.err e).errOf } with backlog := b.backlog } := by
        obtain ⟨pre, suf, h1, h2, h3, h4, h5⟩ := hl
        exact ⟨pre, suf, h1, h2, h3, h4, h5⟩
      obtain ⟨h1, h2, h3, h4, h5⟩ :=
        compact_err_spec { b with err := (Msg.err e).errOf } b.backlog e hl' _ rfl
      refine ⟨h1, ?_, ?_, h4, h5, ?_⟩
      · rw [h3, h2]; simp
      · rw [h3, h2]; simp
      · rw [h3]; intro hc; exact ⟨hc, hch hc⟩

theorem put_closed (b : RB) (r : Msg) (he : b.err.isSome) : put b r = b := by
  unfold put; simp [he]

/-! ### the reader side -/

/-- How a reader call splits the bytes `l` it looks at (its `last`, or the payload of the message it
    received) into what it returns (`out`) and what it keeps in `last` (`rest`). -/
structure SplitOK (n : Nat) (l out : Bytes) (rest : Option Bytes) : Prop where
  cat : out ++ rest.getD [] = l
  le : out.length ≤ n
  restNe : ∀ r, rest = some r → r ≠ []
  prog : out = [] → n = 0 ∨ l = []

theorem split_read (n : Nat) (l : Bytes) :
    SplitOK n l (if l.length > n then l.take n else l) (if l.length > n then some (l.drop n) else none) := by
  by_cases h : l.length > n
  · simp only [h, ↓reduceIte]
    refine ⟨by simp, by simp; omega, ?_, ?_⟩
    · intro r hr; simp at hr; subst hr; simp; omega
    · intro ho; simp at ho; rcases ho with ho | ho
      · exact Or.inl ho
      · exact Or.inr ho
  · simp only [h, ↓reduceIte]
    refine ⟨by simp, by omega, (by intro r hr; cases hr), fun ho => Or.inr ho⟩

theorem split_hdr (k : Nat) (l : Bytes) : SplitOK k l (readUnsafe k l).1 (readUnsafe k l).2 := by
  unfold readUnsafe
  simp only
  by_cases h : min k l.length = l.length
  · simp only [h, ↓reduceIte]
    refine ⟨by simp, by simp; omega, (by intro r hr; cases hr), ?_⟩
    intro ho
    simp at ho; exact Or.inr ho
  · simp only [h, ↓reduceIte]
    refine ⟨by simp, by simp; omega, ?_, ?_⟩
    · intro r hr; simp at hr; subst hr; simp; omega
    · intro ho; simp at ho; rcases ho with ho | ho
      · exact Or.inl (by omega)
      · exact Or.inr ho

theorem readCheck_bytes (sp : Spec) (n : Nat) (l out tail : Bytes) (rest : Option Bytes)
    (hd : sp.done = none) (hq : sp.queue = l ++ tail) (hs : SplitOK n l out rest)
    (he : l = [] → 0 < n → 0 < sp.empties) :
    ∃ sp', sp.readCheck n (.bytes out) = .ok sp' ∧ sp'.queue = rest.getD [] ++ tail
      ∧ sp'.perr = sp.perr ∧ sp'.done = sp.done
      ∧ sp.empties - (if l = [] then 1 else 0) ≤ sp'.empties := by
  obtain ⟨hcat, hle, _, hprog⟩ := hs
  have hpre : out.isPrefixOf sp.queue = true := by
    rw [hq, ← hcat]; simp [List.isPrefixOf_iff_prefix]
  unfold Spec.readCheck
  simp only [hd, Option.isSome_none, Bool.false_eq_true, ↓reduceIte, hpre, Bool.not_true]
  have hle' : ¬ out.length > n := by omega
  simp only [hle', ↓reduceIte]
  by_cases hb : (out.isEmpty && decide (n > 0)) = true
  · simp only [hb, ↓reduceIte]
    simp only [Bool.and_eq_true, List.isEmpty_iff, decide_eq_true_eq] at hb
    have hl : l = [] := by
      rcases hprog hb.1 with h | h
      · omega
      · exact h
    have hpos := he hl hb.2
    have : ¬ sp.empties = 0 := by omega
    simp only [this, ↓reduceIte]
    refine ⟨_, rfl, ?_, rfl, rfl, by simp [hl]⟩
    have hr : rest.getD [] = [] := by
      have := hcat; rw [hb.1, hl] at this; simpa using this
    simp [hq, hl, hr]
  · simp only [hb, Bool.false_eq_true, ↓reduceIte]
    refine ⟨_, rfl, ?_, rfl, rfl, by simp⟩
    simp [hq, ← hcat]

/-- a read served from `last` -/
theorem rel_from_last (sp : Spec) (n : Nat) (l out : Bytes) (rest : Option Bytes) (berr : Option Nat)
    (q : List Msg) (hr : Rel (some l) none berr q sp) (hne : l ≠ []) (hs : SplitOK n l out rest) :
    ∃ sp', sp.readCheck n (.bytes out) = .ok sp' ∧ Rel rest none berr q sp' := by
  obtain ⟨hp, hd, hl⟩ := hr
  obtain ⟨hq, he, hem⟩ := hl rfl
  obtain ⟨sp', h1, h2, h3, h4, h5⟩ := readCheck_bytes sp n l out (absQ q).1 rest hd hq hs
    (fun h => absurd h hne)
  refine ⟨sp', h1, ⟨by rw [h3, hp], by rw [h4, hd], fun _ => ⟨h2, he, ?_⟩⟩⟩
  simp [hne] at h5; omega

/-- a read that consumes the data message at the head of the queue -/
theorem rel_consume_data (sp : Spec) (n : Nat) (d out : Bytes) (rest : Option Bytes)
    (berr : Option Nat) (q : List Msg) (hr : Rel none none berr (.data d :: q) sp)
    (hs : SplitOK n d out rest) :
    ∃ sp', sp.readCheck n (.bytes out) = .ok sp' ∧ Rel rest none berr q sp' := by
  obtain ⟨hp, hd, hl⟩ := hr
  obtain ⟨hq, he, hem⟩ := hl rfl
  simp only [absQ, Option.getD_none, List.nil_append] at hq he
  have hcount : emptiesIn (.data d :: q) = (if d = [] then 1 else 0) + emptiesIn q := by
    simp only [emptiesIn, List.countP_cons]
    cases d with
    | nil => simp [isEmptyData]; omega
    | cons a t => simp [isEmptyData]
  obtain ⟨sp', h1, h2, h3, h4, h5⟩ := readCheck_bytes sp n d out (absQ q).1 rest hd hq hs
    (by intro h _; rw [hcount, h] at hem; simp at hem; omega)
  refine ⟨sp', h1, ⟨by rw [h3, hp], by rw [h4, hd], fun _ => ⟨h2, he, ?_⟩⟩⟩
  rw [hcount] at hem
  split at h5 <;> rename_i hdd <;> simp [hdd] at hem <;> omega

/-- a read that consumes the error message at the head of the queue -/
theorem rel_consume_err (sp : Spec) (n e : Nat) (berr : Option Nat) (q : List Msg)
    (hr : Rel none none berr (.err e :: q) sp) :
    ∃ sp', sp.readCheck n (.err e) = .ok sp' ∧ Rel none (some e) berr q sp' := by
  obtain ⟨hp, hd, hl⟩ := hr
  obtain ⟨hq, he, hem⟩ := hl rfl
  simp only [absQ, Option.getD_none, List.nil_append] at hq he
  unfold Spec.readCheck
  simp only [hd, hq, List.isEmpty_nil, Bool.not_true, Bool.false_eq_true, ↓reduceIte]
  have : ¬ sp.perr ≠ some e := by rw [hp, ← he]; simp
  simp only [this, ↓reduceIte]
  exact ⟨_, rfl, ⟨hp, rfl, fun h => by cases h⟩⟩

/-- a read that would block -/
theorem rel_blocked (sp : Spec) (n : Nat) (berr : Option Nat)
    (hr : Rel none none berr [] sp) : sp.readCheck n .blocked = .ok sp := by
  obtain ⟨hp, hd, hl⟩ := hr
  obtain ⟨hq, he, hem⟩ := hl rfl
  simp only [absQ, Option.getD_none, List.nil_append] at hq he
  unfold Spec.readCheck
  simp [hd, hq, hp, ← he]

theorem ledger_chan (b : RB) (c : Option Msg) (h : Ledger b) : Ledger { b with chan := c } := by
  obtain ⟨pre, suf, h1, h2, h3, h4, h5⟩ := h
  exact ⟨pre, suf, h1, h2, h3, h4, h5⟩

/-- the producer's `put` of a message -/
theorem sim_put (s : State) (sp : Spec) (r : Msg) (hi : Inv s) (hr : R s sp) :
    ∃ sp', (match r with
            | .data b => sp.check (.putD b) .ok
            | .err e => sp.check (.putE e) .ok) = .ok sp'
      ∧ R { s with rb := put s.rb r } sp' ∧ Inv { s with rb := put s.rb r } := by
  obtain ⟨hled, hfull, hlast, hheld⟩ := hi
  obtain ⟨hp, hd, hl⟩ := hr
  cases hbe : s.rb.err with
  | some e0 =>
    have hclosed : put s.rb r = s.rb := put_closed _ _ (by simp [hbe])
    rw [hclosed]
    have hsp : sp.perr.isSome = true := by rw [hp, hbe]; rfl
    refine ⟨sp, ?_, ⟨hp, hd, hl⟩, ⟨hled, hfull, hlast, hheld⟩⟩
    cases r with
    | data b => simp [Spec.check, hsp]
    | err e => simp [Spec.check, hsp]
  | none =>
    obtain ⟨p1, p2, p3, p4, p5, p6⟩ := put_spec s.rb r s.held.toList hled hbe
    have hspn : sp.perr = none := by rw [hp, hbe]
    have hinv : Inv { s with rb := put s.rb r } := by
      refine ⟨p1, ?_, hlast, hheld⟩
      intro hh hc
      obtain ⟨c1, c2⟩ := p6 hc
      exact absurd (hfull hh c1) c2
    cases r with
    | data b =>
      refine ⟨{ sp with queue := sp.queue ++ b, empties := if b.isEmpty then sp.empties + 1 else sp.empties },
        by simp [Spec.check, hspn], ⟨?_, hd, ?_⟩, hinv⟩
      · show sp.perr = (put s.rb (.data b)).err
        rw [p4, hspn]; rfl
      · intro hre
        obtain ⟨hq, he, hem⟩ := hl hre
        have he' : (absQ (qOf s)).2 = none := by rw [he, hbe]
        show sp.queue ++ b = s.rd.last.getD [] ++ (absQ (s.held.toList ++ ((put s.rb (.data b)).chan.toList ++ (put s.rb (.data b)).backlog))).1
          ∧ (absQ (s.held.toList ++ ((put s.rb (.data b)).chan.toList ++ (put s.rb (.data b)).backlog))).2 = (put s.rb (.data b)).err
          ∧ emptiesIn (s.held.toList ++ ((put s.rb (.data b)).chan.toList ++ (put s.rb (.data b)).backlog)) ≤ (if b.isEmpty then sp.empties + 1 else sp.empties)
        rw [p2, p4]
        have hsn := absQ_snoc (qOf s) (.data b) he'
        simp only [qOf] at hsn hq hem he'
        rw [hsn]
        refine ⟨by simp [hq, Msg.bytes], rfl, ?_⟩
        refine Nat.le_trans p3 ?_
        simp only [emptiesIn, List.countP_append] at hem ⊢
        cases b with
        | nil => simp [isEmptyData]; omega
        | cons a t => simp [isEmptyData]; omega
    | err e =>
      refine ⟨{ sp with perr := some e }, by simp [Spec.check, hspn], ⟨?_, hd, ?_⟩, hinv⟩
      · show some e = (put s.rb (.err e)).err
        rw [p4]; rfl
      · intro hre
        obtain ⟨hq, he, hem⟩ := hl hre
        have he' : (absQ (qOf s)).2 = none := by rw [he, hbe]
        show sp.queue = s.rd.last.getD [] ++ (absQ (s.held.toList ++ ((put s.rb (.err e)).chan.toList ++ (put s.rb (.err e)).backlog))).1
          ∧ (absQ (s.held.toList ++ ((put s.rb (.err e)).chan.toList ++ (put s.rb (.err e)).backlog))).2 = (put s.rb (.err e)).err
          ∧ emptiesIn (s.held.toList ++ ((put s.rb (.err e)).chan.toList ++ (put s.rb (.err e)).backlog)) ≤ sp.empties
        rw [p2, p4]
        have hsn := absQ_snoc (qOf s) (.err e) he'
        simp only [qOf] at hsn hq hem he'
        rw [hsn]
        refine ⟨by simp [hq, Msg.bytes], rfl, ?_⟩
        refine Nat.le_trans p3 ?_
        simp only [emptiesIn, List.countP_append] at hem ⊢
        simp [isEmptyData]; omega

/-- what both `readAdditional` and `readMessageHeaderAdditional` do with the received message -/
def Consumes (f : Reader → Msg → Nat → Reader × Out) : Prop :=
  ∀ (rd : Reader) (m : Msg) (n : Nat), rd.last = none →
    match m with
    | .err e => f rd m n = ({ rd with err := some e }, .err e)
    | .data d => ∃ out rest, f rd m n = ({ rd with last := rest }, .bytes out) ∧ SplitOK n d out rest

theorem consumes_read : Consumes readAdditional := by
  intro rd m n hl
  cases m with
  | err e => rfl
  | data d =>
    refine ⟨_, _, ?_, split_read n d⟩
    unfold readAdditional
    by_cases h : d.length > n
    · simp [h]
    · simp only [h, ↓reduceIte]
      cases rd; simp_all

theorem consumes_hdr : Consumes readHeaderAdditional := by
  intro rd m n hl
  cases m with
  | err e => rfl
  | data d => exact ⟨_, _, rfl, split_hdr n d⟩

/-- The reader consumes message `m` (taken from the channel now, or held since `rbegin`), after
    which the buffer is `rb'` with the rest of the queue. -/
theorem sim_consume (f : Reader → Msg → Nat → Reader × Out) (hf : Consumes f)
    (s : State) (sp : Spec) (m : Msg) (n : Nat) (rb' : RB) (q' : List Msg)
    (hr : Rel none none s.rb.err (m :: q') sp)
    (hlast : s.rd.last = none) (herr : s.rd.err = none)
    (hq' : rb'.chan.toList ++ rb'.backlog = q') (hbe : rb'.err = s.rb.err)
    (hled : Ledger rb') (hfull : rb'.chan = none → rb'.backlog = []) :
    ∃ sp', sp.readCheck n (f s.rd m n).2 = .ok sp'
      ∧ R { s with rb := rb', rd := (f s.rd m n).1, held := none } sp'
      ∧ Inv { s with rb := rb', rd := (f s.rd m n).1, held := none } := by
  have h := hf s.rd m n hlast
  cases m with
  | err e =>
    simp only at h
    rw [h]
    obtain ⟨sp', h1, h2⟩ := rel_consume_err sp n e s.rb.err q' hr
    refine ⟨sp', h1, ?_, ⟨hled, fun _ => hfull, ?_, ?_⟩⟩
    · show Rel s.rd.last (some e) rb'.err ([] ++ (rb'.chan.toList ++ rb'.backlog)) sp'
      rw [hlast, hbe, hq']; exact h2
    · intro l hl; exact absurd (hlast ▸ hl) (by simp)
    · intro hh; cases hh
  | data d =>
    obtain ⟨out, rest, h1, h2⟩ := h
    rw [h1]
    obtain ⟨sp', c1, c2⟩ := rel_consume_data sp n d out rest s.rb.err q' hr h2
    refine ⟨sp', c1, ?_, ⟨hled, fun _ => hfull, ?_, ?_⟩⟩
    · show Rel rest s.rd.err rb'.err ([] ++ (rb'.chan.toList ++ rb'.backlog)) sp'
      rw [herr, hbe, hq']; exact c2
    · intro l hl; exact h2.restNe l hl
    · intro hh; cases hh

/-- the two unsplit reader calls share everything but how bytes are cut -/
theorem sim_call (f : Reader → Msg → Nat → Reader × Out) (hf : Consumes f)
    (cut : Nat → Bytes → Bytes × Option Bytes) (hcut : ∀ n l, SplitOK n l (cut n l).1 (cut n l).2)
    (s : State) (sp : Spec) (n : Nat) (hi : Inv s) (hr : R s sp) :
    let res : State × Out :=
      if s.held.isSome then (s, .busy) else
      match s.rd.err with
      | some e => (s, .err e)
      | none =>
        match s.rd.last with
        | some l => ({ s with rd := { s.rd with last := (cut n l).2 } }, .bytes (cut n l).1)
        | none =>
          match s.rb.chan with
          | none => (s, .blocked)
          | some m =>
            ({ s with rb := load { s.rb with chan := none }, rd := (f s.rd m n).1 }, (f s.rd m n).2)
    ∃ sp', sp.readCheck n res.2 = .ok sp' ∧ R res.1 sp' ∧ Inv res.1 := by
  intro res
  obtain ⟨hled, hfull, hlastNe, hheld⟩ := hi
  have hr' := hr
  obtain ⟨hp, hd, hl⟩ := hr
  cases hh : s.held with
  | some m0 =>
    have : res = (s, .busy) := by simp [res, hh]
    rw [this]
    exact ⟨sp, rfl, hr', ⟨hled, hfull, hlastNe, hheld⟩⟩
  | none =>
    cases he : s.rd.err with
    | some e =>
      have : res = (s, .err e) := by simp [res, hh, he]
      rw [this]
      refine ⟨sp, ?_, hr', ⟨hled, hfull, hlastNe, hheld⟩⟩
      simp [Spec.readCheck, hd, he]
    | none =>
      cases hla : s.rd.last with
      | some l =>
        have : res = ({ s with rd := { s.rd with last := (cut n l).2 } }, .bytes (cut n l).1) := by
          simp [res, hh, he, hla]
        rw [this]
        have hne := hlastNe l hla
        have hrel : Rel (some l) none s.rb.err (qOf s) sp := by
          have := hr'; unfold R at this; rw [hla, he] at this; exact this
        obtain ⟨sp', c1, c2⟩ := rel_from_last sp n l _ _ s.rb.err (qOf s) hrel hne (hcut n l)
        refine ⟨sp', c1, ?_, ⟨hled, hfull, ?_, ?_⟩⟩
        · show Rel (cut n l).2 s.rd.err s.rb.err (qOf s) sp'
          rw [he]; exact c2
        · intro l' hl'; exact (hcut n l).restNe l' hl'
        · intro h; rw [hh] at h; cases h
      | none =>
        cases hc : s.rb.chan with
        | none =>
          have : res = (s, .blocked) := by simp [res, hh, he, hla, hc]
          rw [this]
          refine ⟨sp, ?_, hr', ⟨hled, hfull, hlastNe, hheld⟩⟩
          have hb := hfull hh hc
          have hrel : Rel none none s.rb.err [] sp := by
            have := hr'; unfold R qOf at this; rw [hla, he, hh, hc, hb] at this; exact this
          exact rel_blocked sp n s.rb.err hrel
        | some m =>
          have : res = ({ s with rb := load { s.rb with chan := none }, rd := (f s.rd m n).1 }, (f s.rd m n).2) := by
            simp [res, hh, he, hla, hc]
          rw [this]
          obtain ⟨l1, l2, l3, l4⟩ := load_queue { s.rb with chan := none }
          have hrel : Rel none none s.rb.err (m :: s.rb.backlog) sp := by
            have := hr'; unfold R qOf at this; rw [hla, he, hh, hc] at this; exact this
          obtain ⟨sp', c1, c2, c3⟩ := sim_consume f hf s sp m n (load { s.rb with chan := none }) s.rb.backlog
            hrel hla he (by rw [l1]; rfl) l2 (load_ledger _ (ledger_chan _ _ hled)) l4
          refine ⟨sp', c1, ?_, ?_⟩
          · have : ({ s with rb := load { s.rb with chan := none }, rd := (f s.rd m n).1 } : State)
                = { s with rb := load { s.rb with chan := none }, rd := (f s.rd m n).1, held := none } := by
              cases s; simp_all
            rw [this]; exact c2
          · have : ({ s with rb := load { s.rb with chan := none }, rd := (f s.rd m n).1 } : State)
                = { s with rb := load { s.rb with chan := none }, rd := (f s.rd m n).1, held := none } := by
              cases s; simp_all
            rw [this]; exact c3

def cutRead (n : Nat) (l : Bytes) : Bytes × Option Bytes :=
  (if l.length > n then l.take n else l, if l.length > n then some (l.drop n) else none)

theorem step_read_eq (s : State) (n : Nat) :
    step s (.read n) =
      (if s.held.isSome then (s, .busy) else
      match s.rd.err with
      | some e => (s, .err e)
      | none =>
        match s.rd.last with
        | some l => ({ s with rd := { s.rd with last := (cutRead n l).2 } }, .bytes (cutRead n l).1)
        | none =>
          match s.rb.chan with
          | none => (s, .blocked)
          | some m =>
            ({ s with rb := load { s.rb with chan := none }, rd := (readAdditional s.rd m n).1 },
              (readAdditional s.rd m n).2)) := by
  simp only [step]
  by_cases hh : s.held.isSome = true
  · simp [hh]
  · simp only [hh, Bool.false_eq_true, ↓reduceIte]
    cases he : s.rd.err with
    | some e => rfl
    | none =>
      cases hl : s.rd.last with
      | some l => unfold cutRead; by_cases h : l.length > n <;> simp [h]
      | none => cases hc : s.rb.chan <;> rfl

theorem step_hdr_eq (s : State) (n : Nat) :
    step s (.hdr n) =
      (if s.held.isSome then (s, .busy) else
      match s.rd.err with
      | some e => (s, .err e)
      | none =>
        match s.rd.last with
        | some l => ({ s with rd := { s.rd with last := (readUnsafe n l).2 } }, .bytes (readUnsafe n l).1)
        | none =>
          match s.rb.chan with
          | none => (s, .blocked)
          | some m =>
            ({ s with rb := load { s.rb with chan := none }, rd := (readHeaderAdditional s.rd m n).1 },
              (readHeaderAdditional s.rd m n).2)) := by
  simp only [step]
  by_cases hh : s.held.isSome = true
  · simp [hh]
  · simp only [hh, Bool.false_eq_true, ↓reduceIte]
    cases he : s.rd.err with
    | some e => rfl
    | none =>
      cases hl : s.rd.last with
      | some l => rfl
      | none => cases hc : s.rb.chan <;> rfl

/-- One step of the ported code is allowed by the FIFO specification, and the simulation relation
    and the invariants are re-established. -/
theorem sim_step (s : State) (sp : Spec) (op : Op) (hi : Inv s) (hr : R s sp) :
    ∃ sp', sp.check op (step s op).2 = .ok sp' ∧ R (step s op).1 sp' ∧ Inv (step s op).1 := by
  cases op with
  | putD b =>
    exact sim_put s sp (.data b) hi hr
  | putE e =>
    exact sim_put s sp (.err e) hi hr
  | load =>
    obtain ⟨hled, hfull, hlastNe, hheld⟩ := hi
    obtain ⟨l1, l2, l3, l4⟩ := load_queue s.rb
    refine ⟨sp, rfl, ?_, ⟨load_ledger _ hled, fun _ => l4, hlastNe, hheld⟩⟩
    show Rel s.rd.last s.rd.err (load s.rb).err (s.held.toList ++ ((load s.rb).chan.toList ++ (load s.rb).backlog)) sp
    rw [l1, l2]; exact hr
  | read n =>
    rw [step_read_eq]
    exact sim_call readAdditional consumes_read cutRead (fun n l => split_read n l) s sp n hi hr
  | hdr n =>
    rw [step_hdr_eq]
    exact sim_call readHeaderAdditional consumes_hdr readUnsafe split_hdr s sp n hi hr
  | rbegin =>
    obtain ⟨hled, hfull, hlastNe, hheld⟩ := hi
    have hr' := hr
    obtain ⟨hp, hd, hl⟩ := hr
    simp only [step]
    split
    · exact ⟨sp, rfl, hr', ⟨hled, hfull, hlastNe, hheld⟩⟩
    · rename_i hh
      split
      · exact ⟨sp, rfl, hr', ⟨hled, hfull, hlastNe, hheld⟩⟩
      · rename_i hel
        simp only [Bool.or_eq_true, not_or, Bool.not_eq_true, Option.isSome_eq_false_iff,
          Option.isNone_iff_eq_none] at hel hh
        split
        · rename_i hc
          refine ⟨sp, ?_, hr', ⟨hled, hfull, hlastNe, hheld⟩⟩
          have hb := hfull hh hc
          have hrel : Rel none none s.rb.err [] sp := by
            have := hr'; unfold R qOf at this; rw [hel.2, hel.1, hh, hc, hb] at this; exact this
          exact rel_blocked sp 0 s.rb.err hrel
        · rename_i m hc
          refine ⟨sp, rfl, ?_, ⟨ledger_chan _ _ hled, ?_, hlastNe, fun _ => ⟨hel.2, hel.1⟩⟩⟩
          · have := hr'; unfold R qOf at this ⊢; rw [hh, hc] at this; exact this
          · intro h; cases h
  | fin n =>
    obtain ⟨hled, hfull, hlastNe, hheld⟩ := hi
    have hr' := hr
    simp only [step]
    split
    · exact ⟨sp, rfl, hr', ⟨hled, hfull, hlastNe, hheld⟩⟩
    · rename_i m hh
      obtain ⟨h1, h2⟩ := hheld (by rw [hh]; rfl)
      obtain ⟨l1, l2, l3, l4⟩ := load_queue s.rb
      have hrel : Rel none none s.rb.err (m :: (s.rb.chan.toList ++ s.rb.backlog)) sp := by
        have := hr'; unfold R qOf at this; rw [h1, h2, hh] at this; exact this
      exact sim_consume readAdditional consumes_read s sp m n (load s.rb) _ hrel h1 h2 l1 l2
        (load_ledger _ hled) l4
  | finh n =>
    obtain ⟨hled, hfull, hlastNe, hheld⟩ := hi
    have hr' := hr
    simp only [step]
    split
    · exact ⟨sp, rfl, hr', ⟨hled, hfull, hlastNe, hheld⟩⟩
    · rename_i m hh
      obtain ⟨h1, h2⟩ := hheld (by rw [hh]; rfl)
      obtain ⟨l1, l2, l3, l4⟩ := load_queue s.rb
      have hrel : Rel none none s.rb.err (m :: (s.rb.chan.toList ++ s.rb.backlog)) sp := by
        have := hr'; unfold R qOf at this; rw [h1, h2, hh] at this; exact this
      exact sim_consume readHeaderAdditional consumes_hdr s sp m n (load s.rb) _ hrel h1 h2 l1 l2
        (load_ledger _ hled) l4

/-! ### whole runs -/

theorem run_nil (s : State) : run s [] = (s, []) := rfl
theorem run_cons (s : State) (o : Op) (os : List Op) :
    run s (o :: os) = ((run (step s o).1 os).1, (step s o).2 :: (run (step s o).1 os).2) := rfl

theorem run_length (s : State) (ops : List Op) : (run s ops).2.length = ops.length := by
  induction ops generalizing s with
  | nil => rfl
  | cons o os ih => rw [run_cons]; simp [ih]

theorem run_append (s : State) (a b : List Op) :
    run s (a ++ b) = ((run (run s a).1 b).1, (run s a).2 ++ (run (run s a).1 b).2) := by
  induction a generalizing s with
  | nil => rfl
  | cons o os ih => simp only [List.cons_append, run_cons, ih, List.cons_append]

/-- reachable-state invariant: the structural invariants plus a specification state it simulates -/
def Good (s : State) : Prop := Inv s ∧ ∃ sp, R s sp

theorem inv_init (c : Bool) : Inv (init c) :=
  ⟨⟨[], [], rfl, rfl, allData_nil, rfl, fun _ => rfl⟩, fun _ _ => rfl, (by intro l h; cases h),
    (by intro h; cases h)⟩

theorem rel_init (c : Bool) : R (init c) {} :=
  ⟨rfl, rfl, fun _ => ⟨rfl, rfl, Nat.le_refl _⟩⟩

theorem good_init (c : Bool) : Good (init c) := ⟨inv_init c, _, rel_init c⟩

theorem good_step (s : State) (op : Op) (h : Good s) : Good (step s op).1 := by
  obtain ⟨hi, sp, hr⟩ := h
  obtain ⟨sp', _, h2, h3⟩ := sim_step s sp op hi hr
  exact ⟨h3, sp', h2⟩

theorem good_run (s : State) (ops : List Op) (h : Good s) : Good (run s ops).1 := by
  induction ops generalizing s with
  | nil => exact h
  | cons o os ih => rw [run_cons]; exact ih _ (good_step s o h)

/-- every run is accepted by the specification automaton -/
theorem sim_run (s : State) (sp : Spec) (ops : List Op) (hi : Inv s) (hr : R s sp) :
    ∃ sp', sp.checkAll ops (run s ops).2 = .ok sp' ∧ R (run s ops).1 sp' ∧ Inv (run s ops).1 := by
  induction ops generalizing s sp with
  | nil => exact ⟨sp, rfl, hr, hi⟩
  | cons o os ih =>
    rw [run_cons]
    obtain ⟨sp1, h1, h2, h3⟩ := sim_step s sp o hi hr
    obtain ⟨sp2, g1, g2, g3⟩ := ih _ sp1 h3 h2
    exact ⟨sp2, by simp only [Spec.checkAll, h1]; exact g1, g2, g3⟩

/-! ### what acceptance by the specification automaton means for a trace -/

def opBytes : Op → Bytes
  | .putD b => b
  | _ => []

def opErr : Op → Option Nat
  | .putE e => some e
  | _ => none

def outBytes : Out → Bytes
  | .bytes b => b
  | _ => []

/-- DATA payload accepted by the stream: everything put before the first error/end-of-stream -/
def accepted : List Op → Bytes
  | [] => []
  | op :: t => opBytes op ++ (if (opErr op).isSome then [] else accepted t)

/-- the first error / end-of-stream that was put -/
def firstErr : List Op → Option Nat
  | [] => none
  | op :: t => (opErr op).or (firstErr t)

/-- bytes handed to the application -/
def delivered : List Out → Bytes
  | [] => []
  | x :: t => outBytes x ++ delivered t

/-- specification-state invariant: once the error is reported the queue is empty -/
def SI (sp : Spec) : Prop := sp.done.isSome → sp.queue = [] ∧ sp.perr = sp.done

theorem readCheck_trace (sp sp' : Spec) (n : Nat) (out : Out) (hsi : SI sp)
    (h : sp.readCheck n out = .ok sp') :
    outBytes out ++ sp'.queue = sp.queue ∧ sp'.perr = sp.perr ∧ SI sp' := by
  unfold Spec.readCheck at h
  cases out with
  | bytes b =>
    simp only at h
    split at h
    · cases h
    · rename_i hd
      split at h
      · cases h
      · split at h
        · cases h
        · rename_i hpre
          simp only [Bool.not_eq_true, Bool.not_eq_false'] at hpre
          have hpre' : b <+: sp.queue := List.isPrefixOf_iff_prefix.mp (by simpa using hpre)
          have hsi' : ∀ sp'' : Spec, sp''.done = sp.done → SI sp'' := by
            intro sp'' hd'' hs; rw [hd''] at hs; exact absurd hs hd
          split at h
          · rename_i hb
            simp only [Bool.and_eq_true, List.isEmpty_iff] at hb
            split at h
            · cases h
            · cases h; exact ⟨by simp [outBytes, hb.1], rfl, hsi' _ rfl⟩
          · cases h
            refine ⟨?_, rfl, hsi' _ rfl⟩
            obtain ⟨t, ht⟩ := hpre'
            simp [outBytes, ← ht]
  | err e =>
    simp only at h
    split at h
    · split at h
      · cases h; exact ⟨rfl, rfl, hsi⟩
      · cases h
    · split at h
      · cases h
      · split at h
        · cases h
        · rename_i hq hpe
          cases h
          simp only [Bool.not_eq_true, Bool.not_eq_false', List.isEmpty_iff] at hq
          refine ⟨by simp [outBytes], rfl, fun _ => ⟨by simpa using hq, by simpa using hpe⟩⟩
  | blocked =>
    simp only at h
    split at h
    · cases h
    · split at h
      · cases h
      · split at h
        · cases h
        · cases h; exact ⟨rfl, rfl, hsi⟩
  | busy => cases h; exact ⟨rfl, rfl, hsi⟩
  | skip => cases h; exact ⟨rfl, rfl, hsi⟩
  | ok => cases h
  | took => cases h
  | panic => cases h

theorem check_trace (sp sp' : Spec) (op : Op) (out : Out) (hsi : SI sp)
    (h : sp.check op out = .ok sp') :
    outBytes out ++ sp'.queue = sp.queue ++ (if sp.perr.isSome then [] else opBytes op)
    ∧ sp'.perr = sp.perr.or (opErr op) ∧ SI sp' := by
  have hread : ∀ n, sp.readCheck n out = .ok sp' → (opBytes op = [] ∧ opErr op = none) →
      outBytes out ++ sp'.queue = sp.queue ++ (if sp.perr.isSome then [] else opBytes op)
      ∧ sp'.perr = sp.perr.or (opErr op) ∧ SI sp' := by
    intro n hn ⟨h1, h2⟩
    obtain ⟨a, b, c⟩ := readCheck_trace sp sp' n out hsi hn
    refine ⟨by rw [a, h1]; simp, by rw [b, h2]; simp, c⟩
  cases op with
  | putD b =>
    cases out <;> simp only [Spec.check] at h <;> try cases h
    split at h
    · rename_i hp; cases h; exact ⟨by simp [outBytes, hp], by
        cases hpe : sp.perr <;> simp_all [opErr], hsi⟩
    · rename_i hp; cases h
      refine ⟨by simp [outBytes, hp, opBytes], by simp [opErr], ?_⟩
      intro hd
      have := (hsi hd).2
      rw [this] at hp; exact absurd hd hp
  | putE e =>
    cases out <;> simp only [Spec.check] at h <;> try cases h
    split at h
    · rename_i hp; cases h; exact ⟨by simp [outBytes, hp], by
        cases hpe : sp.perr <;> simp_all [opErr], hsi⟩
    · rename_i hp; cases h
      refine ⟨by simp [outBytes, hp, opBytes], ?_, ?_⟩
      · simp only [Bool.not_eq_true, Option.isSome_eq_false_iff, Option.isNone_iff_eq_none] at hp
        simp [opErr, hp]
      · intro hd
        have := (hsi hd).2
        rw [this] at hp; exact absurd hd hp
  | load =>
    cases out <;> simp only [Spec.check] at h <;> try cases h
    exact ⟨by simp [outBytes, opBytes], by simp [opErr], hsi⟩
  | read n => exact hread n h ⟨rfl, rfl⟩
  | hdr n => exact hread n h ⟨rfl, rfl⟩
  | fin n => exact hread n h ⟨rfl, rfl⟩
  | finh n => exact hread n h ⟨rfl, rfl⟩
  | rbegin =>
    cases out <;> simp only [Spec.check] at h <;> try cases h
    · exact hread 0 h ⟨rfl, rfl⟩
    all_goals exact ⟨by simp [outBytes, opBytes], by simp [opErr], hsi⟩

theorem checkAll_trace (sp sp' : Spec) (ops : List Op) (outs : List Out)
    (hlen : ops.length = outs.length) (hsi : SI sp) (h : sp.checkAll ops outs = .ok sp') :
    delivered outs ++ sp'.queue = sp.queue ++ (if sp.perr.isSome then [] else accepted ops)
    ∧ sp'.perr = sp.perr.or (firstErr ops) ∧ SI sp' := by
  induction ops generalizing sp outs with
  | nil =>
    cases outs with
    | nil => cases h; exact ⟨by simp [delivered, accepted], by simp [firstErr], hsi⟩
    | cons x xs => simp at hlen
  | cons o os ih =>
    cases outs with
    | nil => simp at hlen
    | cons x xs =>
      simp only [Spec.checkAll] at h
      cases hc : sp.check o x with
      | error e => rw [hc] at h; cases h
      | ok sp1 =>
        rw [hc] at h
        obtain ⟨a1, a2, a3⟩ := check_trace sp sp1 o x hsi hc
        obtain ⟨b1, b2, b3⟩ := ih sp1 xs (by simpa using hlen) a3 h
        refine ⟨?_, ?_, b3⟩
        · simp only [delivered, accepted, List.append_assoc]
          rw [b1, ← List.append_assoc, a1, a2]
          cases hp : sp.perr with
          | some e => simp
          | none =>
            cases he : opErr o with
            | some e => simp
            | none => simp
        · rw [b2, a2]
          simp only [firstErr]
          cases sp.perr <;> simp

/-- bytes received and not yet handed to the application -/
def pending (s : State) : Bytes :=
  match s.rd.err with
  | some _ => []
  | none => s.rd.last.getD [] ++ (absQ (qOf s)).1

/-- everything the monitor knows at the end of a run from the initial state -/
theorem run_summary (c : Bool) (ops : List Op) :
    ∃ sp, ({} : Spec).checkAll ops (run (init c) ops).2 = .ok sp
      ∧ R (run (init c) ops).1 sp ∧ Inv (run (init c) ops).1 ∧ SI sp
      ∧ delivered (run (init c) ops).2 ++ sp.queue = accepted ops
      ∧ sp.perr = firstErr ops
      ∧ sp.queue = pending (run (init c) ops).1 := by
  obtain ⟨sp, h1, h2, h3⟩ := sim_run (init c) {} ops (inv_init c) (rel_init c)
  have hsi0 : SI ({} : Spec) := by intro h; cases h
  obtain ⟨t1, t2, t3⟩ := checkAll_trace {} sp ops _ (run_length _ _).symm hsi0 h1
  refine ⟨sp, h1, h2, h3, t3, by simpa using t1, by simpa using t2, ?_⟩
  obtain ⟨_, hd, hl⟩ := h2
  unfold pending
  cases he : (run (init c) ops).1.rd.err with
  | some e => exact (t3 (by rw [hd, he]; rfl)).1
  | none => exact (hl he).1

/-- after the reader has reported error `e` (and holds no message) every call answers the same -/
def Sticky (e : Nat) (s : State) : Prop := s.rd.err = some e ∧ s.held = none

/-- what an op may answer once the error has been reported -/
def afterErr (e : Nat) : Op → Out → Prop
  | .read _, o => o = .err e
  | .hdr _, o => o = .err e
  | .rbegin, o => o = .skip
  | .fin _, o => o = .skip
  | .finh _, o => o = .skip
  | .load, o => o = .ok
  | .putD _, o => o = .ok
  | .putE _, o => o = .ok

theorem sticky_step (e : Nat) (s : State) (op : Op) (h : Sticky e s) :
    Sticky e (step s op).1 ∧ afterErr e op (step s op).2 := by
  obtain ⟨he, hh⟩ := h
  cases op with
  | putD b => exact ⟨⟨he, hh⟩, rfl⟩
  | putE x => exact ⟨⟨he, hh⟩, rfl⟩
  | load => exact ⟨⟨he, hh⟩, rfl⟩
  | read n => simp [step, hh, he, Sticky, afterErr]
  | hdr n => simp [step, hh, he, Sticky, afterErr]
  | rbegin => simp [step, hh, he, Sticky, afterErr]
  | fin n => simp [step, hh, he, Sticky, afterErr]
  | finh n => simp [step, hh, he, Sticky, afterErr]

theorem afterErr_noBytes (e : Nat) (op : Op) (o : Out) (h : afterErr e op o) : outBytes o = [] := by
  cases op <;> simp only [afterErr] at h <;>
    first | (subst h; rfl) | (rcases h with h | h <;> subst h <;> rfl)


/-- the shape shared by `step s (.read n)` and `step s (.hdr n)` -/
def callRes (f : Reader → Msg → Nat → Reader × Out) (cut : Nat → Bytes → Bytes × Option Bytes)
    (s : State) (n : Nat) : State × Out :=
  if s.held.isSome then (s, .busy) else
  match s.rd.err with
  | some e => (s, .err e)
  | none =>
    match s.rd.last with
    | some l => ({ s with rd := { s.rd with last := (cut n l).2 } }, .bytes (cut n l).1)
    | none =>
      match s.rb.chan with
      | none => (s, .blocked)
      | some m =>
        ({ s with rb := load { s.rb with chan := none }, rd := (f s.rd m n).1 }, (f s.rd m n).2)

theorem callRes_cases (f : Reader → Msg → Nat → Reader × Out) (cut : Nat → Bytes → Bytes × Option Bytes)
    (s : State) (n : Nat) :
    (s.held.isSome = true ∧ callRes f cut s n = (s, .busy))
    ∨ (s.held = none ∧ ∃ e, s.rd.err = some e ∧ callRes f cut s n = (s, .err e))
    ∨ (s.held = none ∧ s.rd.err = none ∧ ∃ l, s.rd.last = some l
        ∧ callRes f cut s n = ({ s with rd := { s.rd with last := (cut n l).2 } }, .bytes (cut n l).1))
    ∨ (s.held = none ∧ s.rd.err = none ∧ s.rd.last = none ∧ s.rb.chan = none
        ∧ callRes f cut s n = (s, .blocked))
    ∨ (s.held = none ∧ s.rd.err = none ∧ s.rd.last = none ∧ ∃ m, s.rb.chan = some m
        ∧ callRes f cut s n
          = ({ s with rb := load { s.rb with chan := none }, rd := (f s.rd m n).1 }, (f s.rd m n).2)) := by
  unfold callRes
  by_cases hh : s.held.isSome = true
  · exact Or.inl ⟨hh, by simp [hh]⟩
  · have hh' : s.held = none := by simpa using hh
    simp only [hh, Bool.false_eq_true, ↓reduceIte]
    cases he : s.rd.err with
    | some e => exact Or.inr (Or.inl ⟨hh', e, rfl, rfl⟩)
    | none =>
      cases hl : s.rd.last with
      | some l => exact Or.inr (Or.inr (Or.inl ⟨hh', rfl, l, rfl, rfl⟩))
      | none =>
        cases hc : s.rb.chan with
        | none => exact Or.inr (Or.inr (Or.inr (Or.inl ⟨hh', rfl, rfl, rfl, rfl⟩)))
        | some m => exact Or.inr (Or.inr (Or.inr (Or.inr ⟨hh', rfl, rfl, m, rfl, rfl⟩)))

theorem step_read_callRes (s : State) (n : Nat) :
    step s (.read n) = callRes readAdditional cutRead s n := step_read_eq s n

theorem step_hdr_callRes (s : State) (n : Nat) :
    step s (.hdr n) = callRes readHeaderAdditional readUnsafe s n := step_hdr_eq s n

theorem callRes_err_sticky (f : Reader → Msg → Nat → Reader × Out) (hf : Consumes f)
    (cut : Nat → Bytes → Bytes × Option Bytes) (s : State) (n e : Nat)
    (h : (callRes f cut s n).2 = .err e) : Sticky e (callRes f cut s n).1 := by
  rcases callRes_cases f cut s n with ⟨_, hr⟩ | ⟨hh, x, he, hr⟩ | ⟨_, _, l, _, hr⟩ | ⟨_, _, _, _, hr⟩
      | ⟨hh, he, hl, m, hc, hr⟩
  · rw [hr] at h; cases h
  · rw [hr] at h ⊢; cases h; exact ⟨he, hh⟩
  · rw [hr] at h; cases h
  · rw [hr] at h; cases h
  · rw [hr] at h ⊢
    simp only at h ⊢
    refine ⟨?_, hh⟩
    have := hf s.rd m n hl
    cases m with
    | err x => simp only at this; rw [this] at h ⊢; cases h; rfl
    | data d => obtain ⟨out, rest, h1, _⟩ := this; rw [h1] at h; cases h

theorem step_fin_cases (s : State) (n : Nat) :
    (s.held = none ∧ step s (.fin n) = (s, .skip))
    ∨ (∃ m, s.held = some m ∧ step s (.fin n)
        = ({ s with rb := load s.rb, rd := (readAdditional s.rd m n).1, held := none },
           (readAdditional s.rd m n).2)) := by
  simp only [step]
  cases hh : s.held with
  | none => exact Or.inl ⟨rfl, rfl⟩
  | some m => exact Or.inr ⟨m, rfl, rfl⟩

theorem step_finh_cases (s : State) (n : Nat) :
    (s.held = none ∧ step s (.finh n) = (s, .skip))
    ∨ (∃ m, s.held = some m ∧ step s (.finh n)
        = ({ s with rb := load s.rb, rd := (readHeaderAdditional s.rd m n).1, held := none },
           (readHeaderAdditional s.rd m n).2)) := by
  simp only [step]
  cases hh : s.held with
  | none => exact Or.inl ⟨rfl, rfl⟩
  | some m => exact Or.inr ⟨m, rfl, rfl⟩

/-- a step that answers `err e` leaves the reader in the sticky state -/
theorem err_sticky (s : State) (op : Op) (e : Nat) (h : (step s op).2 = .err e) :
    Sticky e (step s op).1 := by
  cases op with
  | putD b => cases h
  | putE x => cases h
  | load => cases h
  | read n =>
    rw [step_read_callRes] at h ⊢
    exact callRes_err_sticky _ consumes_read _ s n e h
  | hdr n =>
    rw [step_hdr_callRes] at h ⊢
    exact callRes_err_sticky _ consumes_hdr _ s n e h
  | rbegin =>
    simp only [step] at h
    split at h
    · cases h
    · split at h
      · cases h
      · split at h <;> cases h
  | fin n =>
    rcases step_fin_cases s n with ⟨_, hr⟩ | ⟨m, hh, hr⟩
    · rw [hr] at h; cases h
    · rw [hr] at h ⊢
      simp only at h ⊢
      cases m with
      | err x => simp only [readAdditional] at h ⊢; cases h; exact ⟨rfl, rfl⟩
      | data d => simp only [readAdditional] at h; split at h <;> cases h
  | finh n =>
    rcases step_finh_cases s n with ⟨_, hr⟩ | ⟨m, hh, hr⟩
    · rw [hr] at h; cases h
    · rw [hr] at h ⊢
      simp only at h ⊢
      cases m with
      | err x => simp only [readHeaderAdditional] at h ⊢; cases h; exact ⟨rfl, rfl⟩
      | data d => simp only [readHeaderAdditional] at h; cases h

theorem sticky_run (e : Nat) (s : State) (ops : List Op) (h : Sticky e s) :
    (∀ p ∈ List.zip ops (run s ops).2, afterErr e p.1 p.2) ∧ delivered (run s ops).2 = [] := by
  induction ops generalizing s with
  | nil => exact ⟨(by intro p hp; cases hp), rfl⟩
  | cons o os ih =>
    obtain ⟨h1, h2⟩ := sticky_step e s o h
    obtain ⟨i1, i2⟩ := ih _ h1
    rw [run_cons]
    refine ⟨?_, ?_⟩
    · intro p hp
      simp only [List.zip_cons_cons, List.mem_cons] at hp
      rcases hp with hp | hp
      · subst hp; exact h2
      · exact i1 p hp
    · simp only [delivered, i2, afterErr_noBytes e o _ h2, List.append_nil]

/-- number of error/end-of-stream puts -/
def errPuts : List Op → Nat
  | [] => 0
  | .putE _ :: t => errPuts t + 1
  | _ :: t => errPuts t

theorem compact_err (b : RB) (r : Msg) : (compactBacklog b r).err = b.err := by
  unfold compactBacklog
  split
  · rfl
  · split
    · rfl
    · simp only
      split
      · rfl
      · split <;> rfl

theorem put_err (b : RB) (r : Msg) (h : (put b r).err.isSome) : b.err.isSome ∨ r.errOf.isSome := by
  unfold put at h
  by_cases hb : b.err.isSome = true
  · exact Or.inl hb
  · simp only [hb, Bool.false_eq_true, ↓reduceIte] at h
    by_cases hd : (b.backlog.isEmpty && b.chan.isNone) = true
    · simp only [hd, ↓reduceIte] at h; exact Or.inr h
    · simp only [hd, Bool.false_eq_true, ↓reduceIte, compact_err] at h; exact Or.inr h

/-- the ported code never panics (`Out.panic` only ever describes the implementation) -/
theorem step_noPanic (s : State) (op : Op) : (step s op).2 ≠ .panic := by
  intro h
  have hcons : ∀ (f : Reader → Msg → Nat → Reader × Out), Consumes f → ∀ rd m n, rd.last = none →
      (f rd m n).2 ≠ .panic := by
    intro f hf rd m n hl ho
    have := hf rd m n hl
    cases m with
    | err x => simp only at this; rw [this] at ho; cases ho
    | data d => obtain ⟨out, rest, h1, _⟩ := this; rw [h1] at ho; cases ho
  have hcall : ∀ f, Consumes f → ∀ cut n, (callRes f cut s n).2 ≠ .panic := by
    intro f hf cut n ho
    rcases callRes_cases f cut s n with ⟨_, hr⟩ | ⟨hh, x, he, hr⟩ | ⟨_, _, l, _, hr⟩ | ⟨_, _, _, _, hr⟩
        | ⟨hh, he, hl, m, hc, hr⟩
    · rw [hr] at ho; cases ho
    · rw [hr] at ho; cases ho
    · rw [hr] at ho; cases ho
    · rw [hr] at ho; cases ho
    · rw [hr] at ho; exact hcons f hf _ _ _ hl ho
  cases op with
  | putD b => cases h
  | putE e => cases h
  | load => cases h
  | read n => rw [step_read_callRes] at h; exact absurd h (hcall _ consumes_read _ n)
  | hdr n => rw [step_hdr_callRes] at h; exact absurd h (hcall _ consumes_hdr _ n)
  | rbegin =>
    simp only [step] at h
    split at h
    · cases h
    · split at h
      · cases h
      · split at h <;> cases h
  | fin n =>
    rcases step_fin_cases s n with ⟨_, hr⟩ | ⟨m, hh, hr⟩
    · rw [hr] at h; cases h
    · rw [hr] at h
      cases m with
      | err x => simp [readAdditional] at h
      | data d => simp only [readAdditional] at h; split at h <;> cases h
  | finh n =>
    rcases step_finh_cases s n with ⟨_, hr⟩ | ⟨m, hh, hr⟩
    · rw [hr] at h; cases h
    · rw [hr] at h
      cases m with
      | err x => simp [readHeaderAdditional] at h
      | data d => simp [readHeaderAdditional] at h

theorem step_err_mono (s : State) (op : Op) (h : (step s op).1.rb.err.isSome) :
    s.rb.err.isSome ∨ (opErr op).isSome := by
  have hload : ∀ b : RB, (load b).err = b.err := fun b => (load_queue b).2.1
  have hcall : ∀ f cut n, (callRes f cut s n).1.rb.err.isSome → s.rb.err.isSome := by
    intro f cut n ho
    rcases callRes_cases f cut s n with ⟨_, hr⟩ | ⟨hh, x, he, hr⟩ | ⟨_, _, l, _, hr⟩ | ⟨_, _, _, _, hr⟩
        | ⟨hh, he, hl, m, hc, hr⟩
    · rw [hr] at ho; exact ho
    · rw [hr] at ho; exact ho
    · rw [hr] at ho; exact ho
    · rw [hr] at ho; exact ho
    · rw [hr] at ho; simp only [hload] at ho; exact ho
  cases op with
  | putD b =>
    rcases put_err _ _ h with h | h
    · exact Or.inl h
    · cases h
  | putE e => exact Or.inr rfl
  | load => simp only [step, hload] at h; exact Or.inl h
  | read n => rw [step_read_callRes] at h; exact Or.inl (hcall _ _ _ h)
  | hdr n => rw [step_hdr_callRes] at h; exact Or.inl (hcall _ _ _ h)
  | rbegin =>
    left
    simp only [step] at h
    split at h
    · exact h
    · split at h
      · exact h
      · split at h <;> exact h
  | fin n =>
    left
    rcases step_fin_cases s n with ⟨_, hr⟩ | ⟨m, hh, hr⟩
    · rw [hr] at h; exact h
    · rw [hr] at h; simp only [hload] at h; exact h
  | finh n =>
    left
    rcases step_finh_cases s n with ⟨_, hr⟩ | ⟨m, hh, hr⟩
    · rw [hr] at h; exact h
    · rw [hr] at h; simp only [hload] at h; exact h

theorem readCheck_err (sp sp' : Spec) (n e : Nat) (hsi : SI sp)
    (h : sp.readCheck n (.err e) = .ok sp') : sp.queue = [] ∧ sp.perr = some e := by
  unfold Spec.readCheck at h
  simp only at h
  split at h
  · rename_i e' hd
    split at h
    · rename_i hee
      obtain ⟨h1, h2⟩ := hsi (by rw [hd]; rfl)
      exact ⟨h1, by rw [h2, hd, hee]⟩
    · cases h
  · split at h
    · cases h
    · split at h
      · cases h
      · rename_i hq hpe
        simp only [Bool.not_eq_true, Bool.not_eq_false', List.isEmpty_iff] at hq
        exact ⟨by simpa using hq, by simpa using hpe⟩

theorem check_err (sp sp' : Spec) (op : Op) (e : Nat) (hsi : SI sp)
    (h : sp.check op (.err e) = .ok sp') : sp.queue = [] ∧ sp.perr = some e := by
  cases op <;> simp only [Spec.check] at h <;> first | cases h | exact readCheck_err sp sp' _ e hsi h

theorem readCheck_blocked (sp sp' : Spec) (n : Nat)
    (h : sp.readCheck n .blocked = .ok sp') : sp.queue = [] ∧ sp.perr = none := by
  unfold Spec.readCheck at h
  simp only at h
  split at h
  · cases h
  · split at h
    · cases h
    · split at h
      · cases h
      · rename_i hq hpe
        simp only [Bool.not_eq_true, Bool.not_eq_false', List.isEmpty_iff] at hq
        exact ⟨by simpa using hq, by simpa using hpe⟩

theorem check_blocked (sp sp' : Spec) (op : Op)
    (h : sp.check op .blocked = .ok sp') : sp.queue = [] ∧ sp.perr = none := by
  cases op <;> simp only [Spec.check] at h <;> first | cases h | exact readCheck_blocked sp sp' _ h

theorem compact_comp (b : RB) (r : Msg) : (compactBacklog b r).compaction = b.compaction := by
  unfold compactBacklog
  split
  · rfl
  · split
    · rfl
    · simp only
      split
      · rfl
      · split <;> rfl

theorem put_comp (b : RB) (r : Msg) : (put b r).compaction = b.compaction := by
  unfold put
  by_cases hb : b.err.isSome = true
  · simp [hb]
  · simp only [hb, Bool.false_eq_true, ↓reduceIte]
    by_cases hd : (b.backlog.isEmpty && b.chan.isNone) = true
    · simp only [hd, ↓reduceIte]
    · simp only [hd, Bool.false_eq_true, ↓reduceIte, compact_comp]

theorem step_comp (s : State) (op : Op) : (step s op).1.rb.compaction = s.rb.compaction := by
  have hload : ∀ b : RB, (load b).compaction = b.compaction := fun b => (load_queue b).2.2.1
  have hcall : ∀ f cut n, (callRes f cut s n).1.rb.compaction = s.rb.compaction := by
    intro f cut n
    rcases callRes_cases f cut s n with ⟨_, hr⟩ | ⟨hh, x, he, hr⟩ | ⟨_, _, l, _, hr⟩ | ⟨_, _, _, _, hr⟩
        | ⟨hh, he, hl, m, hc, hr⟩
    · rw [hr]
    · rw [hr]
    · rw [hr]
    · rw [hr]
    · rw [hr]; simp only [hload]
  cases op with
  | putD b => exact put_comp _ _
  | putE e => exact put_comp _ _
  | load => exact hload _
  | read n => rw [step_read_callRes]; exact hcall _ _ _
  | hdr n => rw [step_hdr_callRes]; exact hcall _ _ _
  | rbegin =>
    simp only [step]
    split
    · rfl
    · split
      · rfl
      · split <;> rfl
  | fin n =>
    rcases step_fin_cases s n with ⟨_, hr⟩ | ⟨m, hh, hr⟩
    · rw [hr]
    · rw [hr]; simp only [hload]
  | finh n =>
    rcases step_finh_cases s n with ⟨_, hr⟩ | ⟨m, hh, hr⟩
    · rw [hr]
    · rw [hr]; simp only [hload]

theorem comp_run (s : State) (ops : List Op) : (run s ops).1.rb.compaction = s.rb.compaction := by
  induction ops generalizing s with
  | nil => rfl
  | cons o os ih => rw [run_cons, ih, step_comp]

end GrpcProofs.Lemmas.RecvBuffer
