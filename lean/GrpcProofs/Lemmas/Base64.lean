/-
Lemmas about GrpcModel/Prim/Base64.lean (used by C09 and C10): decoding inverts encoding for the
raw and the padded alphabet, and `decodeBinHeader` accepts both.
-/
import GrpcModel.Prim.Base64
namespace GrpcProofs.Lemmas.Base64
open GrpcModel.Base64

theorem decEnc : ∀ n, n < 64 → decChar (encChar n) = some n := by decide

theorem decQ4 (pad : Bool) (a b c d : Nat) (ha : a < 64) (hb : b < 64) (hc : c < 64) (hd : d < 64) (rest : Bytes) :
    decQ pad [] (encChar a :: encChar b :: encChar c :: encChar d :: rest) = .done (finish [a, b, c, d]) rest := by
  simp [decQ, decEnc a ha, decEnc b hb, decEnc c hc, decEnc d hd]

theorem finish4 (x y z : UInt8) :
    finish [x.toNat / 4, x.toNat % 4 * 16 + y.toNat / 16, y.toNat % 16 * 4 + z.toNat / 64, z.toNat % 64] = [x, y, z] := by
  have hx := x.toNat_lt; have hy := y.toNat_lt; have hz := z.toNat_lt
  have e : x.toNat / 4 * 262144 + (x.toNat % 4 * 16 + y.toNat / 16) * 4096 + (y.toNat % 16 * 4 + z.toNat / 64) * 64 + z.toNat % 64
      = x.toNat * 65536 + y.toNat * 256 + z.toNat := by omega
  simp only [finish, List.getD_cons_zero, List.getD_cons_succ, List.length_cons, List.length_nil, e]
  have e1 : (x.toNat * 65536 + y.toNat * 256 + z.toNat) / 65536 % 256 = x.toNat := by omega
  have e2 : (x.toNat * 65536 + y.toNat * 256 + z.toNat) / 256 % 256 = y.toNat := by omega
  have e3 : (x.toNat * 65536 + y.toNat * 256 + z.toNat) % 256 = z.toNat := by omega
  simp [e1, e2, e3]

theorem finish3 (x y : UInt8) :
    finish [x.toNat / 4, x.toNat % 4 * 16 + y.toNat / 16, y.toNat % 16 * 4] = [x, y] := by
  have hx := x.toNat_lt; have hy := y.toNat_lt
  have e : x.toNat / 4 * 262144 + (x.toNat % 4 * 16 + y.toNat / 16) * 4096 + (y.toNat % 16 * 4) * 64 + 0
      = x.toNat * 65536 + y.toNat * 256 := by omega
  simp only [finish, List.getD_cons_zero, List.getD_cons_succ, List.length_cons, List.length_nil, List.getD_nil, e]
  have e1 : (x.toNat * 65536 + y.toNat * 256) / 65536 % 256 = x.toNat := by omega
  have e2 : (x.toNat * 65536 + y.toNat * 256) / 256 % 256 = y.toNat := by omega
  simp [e1, e2]

theorem finish2 (x : UInt8) :
    finish [x.toNat / 4, x.toNat % 4 * 16] = [x] := by
  have hx := x.toNat_lt
  have e : x.toNat / 4 * 262144 + (x.toNat % 4 * 16) * 4096 + 0 * 64 + 0 = x.toNat * 65536 := by omega
  simp only [finish, List.getD_cons_zero, List.getD_cons_succ, List.length_cons, List.length_nil, List.getD_nil, e]
  simp

theorem decPad : decChar padByte = none := by decide
theorem padNotNL : isNL padByte = false := by decide

/-- Decoding inverts encoding, padded or raw, given enough fuel (one unit per quantum). -/
theorem decodeLoop_encode (pad : Bool) (bs : Bytes) : ∀ fuel, bs.length < fuel → decodeLoop pad fuel (encode pad bs) = some bs := by
  induction bs using encode.induct with
  | case1 a b c rest ih =>
    intro fuel hf
    have ha := a.toNat_lt; have hb := b.toNat_lt; have hc := c.toNat_lt
    cases fuel with
    | zero => simp at hf
    | succ f =>
      rw [encode, decodeLoop]
      · rw [decQ4 pad _ _ _ _ (by omega) (by omega) (by omega) (by omega), finish4]
        simp only
        rw [ih f (by simp at hf; omega)]
        simp
      · simp
  | case2 a b =>
    intro fuel hf
    have ha := a.toNat_lt; have hb := b.toNat_lt
    cases fuel with
    | zero => simp at hf
    | succ f =>
      cases pad <;>
        simp [encode, decodeLoop, decQ, decEnc _ (show a.toNat / 4 < 64 by omega),
          decEnc _ (show a.toNat % 4 * 16 + b.toNat / 16 < 64 by omega), decEnc _ (show b.toNat % 16 * 4 < 64 by omega),
          finish3, decPad, padNotNL, skipNL]
  | case3 a =>
    intro fuel hf
    have ha := a.toNat_lt
    cases fuel with
    | zero => simp at hf
    | succ f =>
      cases pad <;>
        simp [encode, decodeLoop, decQ, decEnc _ (show a.toNat / 4 < 64 by omega),
          decEnc _ (show a.toNat % 4 * 16 < 64 by omega), finish2, decPad, padNotNL, skipNL]
  | case4 => intro fuel _; cases fuel <;> simp [encode, decodeLoop]

theorem encode_len (pad : Bool) (bs : Bytes) : bs.length ≤ (encode pad bs).length := by
  induction bs using encode.induct with
  | case1 a b c rest ih => simp [encode]; omega
  | case2 a b => cases pad <;> simp [encode]
  | case3 a => cases pad <;> simp [encode]
  | case4 => simp [encode]

theorem decode_encode (pad : Bool) (bs : Bytes) : decode pad (encode pad bs) = some bs :=
  decodeLoop_encode pad bs _ (by have := encode_len pad bs; omega)

theorem encode_std_len (bs : Bytes) : (encode true bs).length % 4 = 0 := by
  induction bs using encode.induct with
  | case1 a b c rest ih => simp [encode]; omega
  | case2 a b => simp [encode]
  | case3 a => simp [encode]
  | case4 => simp [encode]

theorem encode_raw_eq_std (bs : Bytes) (h : (encode false bs).length % 4 = 0) : encode false bs = encode true bs := by
  induction bs using encode.induct with
  | case1 a b c rest ih =>
    simp only [encode, List.length_cons] at h ⊢
    rw [ih (by omega)]
  | case2 a b => simp [encode] at h
  | case3 a => simp [encode] at h
  | case4 => simp [encode]

/-- `decodeBinHeader(encodeBinHeader(v)) = v` for every byte string. -/
theorem decodeBinHeader_encodeBinHeader (bs : Bytes) : decodeBinHeader (encodeBinHeader bs) = some bs := by
  unfold decodeBinHeader encodeBinHeader encodeRaw
  split
  · rename_i h
    rw [decodeStd, encode_raw_eq_std bs h]; exact decode_encode true bs
  · exact decode_encode false bs

/-- A peer that pads (`base64.StdEncoding`) is understood as well. -/
theorem decodeBinHeader_encodeStd (bs : Bytes) : decodeBinHeader (encodeStd bs) = some bs := by
  unfold decodeBinHeader encodeStd
  rw [if_pos (encode_std_len bs)]; exact decode_encode true bs

end GrpcProofs.Lemmas.Base64
