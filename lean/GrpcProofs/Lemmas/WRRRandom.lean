/-
Helper lemmas for C38: randomWRR (prefix sums + binary search), droppers, circuit breaking.
-/
import GrpcModel.Model.WRRRandom
import GrpcProofs.Lemmas.SortSearch
import Mathlib.Data.List.Basic
import Mathlib.Data.List.Induction
import Mathlib.Algebra.BigOperators.Group.List.Basic
import Mathlib.Tactic.Linarith
import Mathlib.Tactic.Ring
import Mathlib.Tactic.NormNum
namespace GrpcProofs.Lemmas.WRRRandom
open GrpcModel.WRRRandom GrpcModel.SortSearch GrpcProofs.Lemmas.SortSearch

/-- all weights equal -/
def AllEqual (ws : List Nat) : Prop := ∀ a ∈ ws, ∀ b ∈ ws, a = b

/-- prefix sum S_k = w_0 + … + w_{k-1} -/
def pre (ws : List Nat) (k : Nat) : Nat := (ws.take k).sum

theorem pre_zero (ws : List Nat) : pre ws 0 = 0 := by simp [pre]

theorem pre_succ (ws : List Nat) (k : Nat) (hk : k < ws.length) :
    pre ws (k + 1) = pre ws k + ws.getD k 0 := by
  unfold pre
  rw [List.take_add_one, List.sum_append]
  simp [List.getD_eq_getElem?_getD, List.getElem?_eq_getElem hk]

theorem pre_mono (ws : List Nat) : ∀ a b, a ≤ b → pre ws a ≤ pre ws b := by
  intro a b hab
  induction b with
  | zero => have : a = 0 := by omega
            subst this; exact Nat.le_refl _
  | succ b ih =>
    rcases Nat.lt_or_ge a (b + 1) with h | h
    · have h1 := ih (by omega)
      by_cases hb : b < ws.length
      · rw [pre_succ ws b hb]; omega
      · have : pre ws (b + 1) = pre ws b := by
          unfold pre
          rw [List.take_of_length_le (by omega), List.take_of_length_le (by omega)]
        omega
    · have : a = b + 1 := by omega
      subst this; exact Nat.le_refl _

theorem pre_length (ws : List Nat) : pre ws ws.length = ws.sum := by simp [pre]

/-- what `ofWeights` builds -/
structure Built (ws : List Nat) (rw : RW) : Prop where
  len : rw.items.length = ws.length
  item : ∀ i, i < ws.length → rw.items.getD i ⟨0, 0⟩ = ⟨ws.getD i 0, pre ws (i + 1)⟩
  last : rw.items.getLast? = ws.getLast?.map (fun w => ⟨w, ws.sum⟩)
  eqw : ws ≠ [] → (rw.equalWeights = true ↔ AllEqual ws)

theorem ofWeights_snoc (ws : List Nat) (w : Nat) :
    RW.ofWeights (ws ++ [w]) = (RW.ofWeights ws).add w := by
  simp [RW.ofWeights, List.foldl_append]

theorem allEqual_snoc (ws : List Nat) (w l : Nat) (hl : ws.getLast? = some l) :
    AllEqual (ws ++ [w]) ↔ (AllEqual ws ∧ w = l) := by
  have hlm : l ∈ ws := List.mem_of_getLast? hl
  constructor
  · intro h
    refine ⟨fun a ha b hb => h a (List.mem_append_left _ ha) b (List.mem_append_left _ hb), ?_⟩
    exact h w (by simp) l (List.mem_append_left _ hlm)
  · rintro ⟨h, rfl⟩ a ha b hb
    have ha' : a ∈ ws := by
      rcases List.mem_append.mp ha with h1 | h1
      · exact h1
      · simp at h1; rw [h1]; exact hlm
    have hb' : b ∈ ws := by
      rcases List.mem_append.mp hb with h1 | h1
      · exact h1
      · simp at h1; rw [h1]; exact hlm
    exact h a ha' b hb'

theorem built (ws : List Nat) : Built ws (RW.ofWeights ws) := by
  induction ws using List.reverseRecOn with
  | nil =>
    refine ⟨rfl, by intro i hi; simp at hi, rfl, by intro h; exact absurd rfl h⟩
  | append_singleton ws w ih =>
    rw [ofWeights_snoc]
    cases hl : ws.getLast? with
    | none =>
      have hws : ws = [] := List.getLast?_eq_none_iff.mp hl
      subst hws
      have hi : (RW.ofWeights []).items.getLast? = none := rfl
      refine ⟨by simp [RW.add, hi], ?_, by simp [RW.add, hi], ?_⟩
      · intro i hi'
        have : i = 0 := by simpa using hi'
        subst this
        simp [RW.add, hi, pre]
      · intro _
        simp [RW.add, hi, AllEqual]
    | some l =>
      have hlast := ih.last
      rw [hl] at hlast
      simp only [Option.map_some] at hlast
      have hne : ws ≠ [] := by intro h; subst h; simp at hl
      refine ⟨?_, ?_, ?_, ?_⟩
      · simp [RW.add, hlast, ih.len]
      · intro i hi'
        simp only [RW.add, hlast]
        rcases Nat.lt_or_ge i ws.length with h | h
        · have e1 : (ws ++ [w]).getD i 0 = ws.getD i 0 := by
            simp [List.getD_eq_getElem?_getD, List.getElem?_append_left h]
          have e2 : pre (ws ++ [w]) (i + 1) = pre ws (i + 1) := by
            unfold pre; rw [List.take_append_of_le_length (by omega)]
          rw [e1, e2, ← ih.item i h]
          simp [List.getD_eq_getElem?_getD, List.getElem?_append_left (by rw [ih.len]; exact h)]
        · have : i = ws.length := by simp at hi'; omega
          subst this
          have e1 : (ws ++ [w]).getD ws.length 0 = w := by
            simp [List.getD_eq_getElem?_getD]
          have e2 : pre (ws ++ [w]) (ws.length + 1) = ws.sum + w := by
            unfold pre; simp
          rw [e1, e2]
          simp [List.getD_eq_getElem?_getD, ← ih.len]
      · simp [RW.add, hlast]
      · intro _
        simp only [RW.add, hlast, Bool.and_eq_true, beq_iff_eq]
        rw [allEqual_snoc ws w l hl, ih.eqw hne]

/-! ### the binary search over accumulated weights -/

/-- the predicate handed to `sort.Search` -/
def gt (rw : RW) (r : Nat) : Nat → Bool :=
  fun i => decide ((rw.items.getD i ⟨0, 0⟩).accumulatedWeight > r)

theorem gt_eq (ws : List Nat) (r i : Nat) (hi : i < ws.length) :
    gt (RW.ofWeights ws) r i = decide (pre ws (i + 1) > r) := by
  unfold gt; rw [(built ws).item i hi]

theorem gt_mono (ws : List Nat) (r : Nat) (hr : r < ws.sum) : Mono (fun i => gt (RW.ofWeights ws) r i && decide (i < ws.length) || decide (ws.length ≤ i)) := by
  intro a b hab ha
  by_cases hb : b < ws.length
  · have ha' : a < ws.length := by omega
    simp only [gt_eq ws r a ha', gt_eq ws r b hb, ha', hb, decide_true, Bool.and_true,
      show ¬ (ws.length ≤ a) by omega, show ¬ (ws.length ≤ b) by omega, decide_false, Bool.or_false,
      decide_eq_true_eq] at ha ⊢
    have := pre_mono ws (a + 1) (b + 1) (by omega)
    omega
  · simp [show ws.length ≤ b by omega]

/-- `Next` with random value r < Σw (weights not all equal) returns the item i whose slice
    [S_i, S_{i+1}) of the random range contains r. -/
theorem search_slice (ws : List Nat) (r i : Nat) (hi : i < ws.length)
    (hlo : pre ws i ≤ r) (hhi : r < pre ws (i + 1)) :
    search ws.length (gt (RW.ofWeights ws) r) = i := by
  have hr : r < ws.sum := by
    have := pre_mono ws (i + 1) ws.length (by omega)
    rw [pre_length] at this; omega
  -- `search` only evaluates the predicate below n, where it coincides with the monotone extension
  have hext : search ws.length (gt (RW.ofWeights ws) r) =
      search ws.length (fun i => gt (RW.ofWeights ws) r i && decide (i < ws.length) || decide (ws.length ≤ i)) := by
    unfold search
    have : ∀ fuel a b, b ≤ ws.length →
        searchLoop (gt (RW.ofWeights ws) r) fuel a b =
        searchLoop (fun i => gt (RW.ofWeights ws) r i && decide (i < ws.length) || decide (ws.length ≤ i)) fuel a b := by
      intro fuel
      induction fuel with
      | zero => intro a b _; rfl
      | succ fuel ih =>
        intro a b hb
        unfold searchLoop
        by_cases hab : a < b
        · have hh : (a + b) / 2 < ws.length := by omega
          simp only [hab, if_true, hh, decide_true, Bool.and_true,
            show ¬ (ws.length ≤ (a + b) / 2) by omega, decide_false, Bool.or_false]
          rw [ih _ _ hb, ih _ _ (by omega)]
        · simp [hab]
    exact this _ _ _ (Nat.le_refl _)
  rw [hext]
  apply search_eq _ _ (gt_mono ws r hr) i (by omega)
  · intro k hk
    have hk' : k < ws.length := by omega
    simp only [gt_eq ws r k hk', hk', decide_true, Bool.and_true, show ¬ (ws.length ≤ k) by omega,
      decide_false, Bool.or_false, decide_eq_false_iff_not]
    have := pre_mono ws (k + 1) i (by omega)
    omega
  · intro k hk hkn
    simp only [gt_eq ws r k hkn, hkn, decide_true, Bool.and_true, show ¬ (ws.length ≤ k) by omega,
      decide_false, Bool.or_false, decide_eq_true_eq]
    have := pre_mono ws (i + 1) (k + 1) (by omega)
    omega

/-- every r < Σw lies in exactly one slice -/
theorem slice_exists (ws : List Nat) (r : Nat) (hr : r < ws.sum) :
    ∃ i, i < ws.length ∧ pre ws i ≤ r ∧ r < pre ws (i + 1) := by
  -- smallest k with r < S_{k+1}
  have hex : ∃ k, k < ws.length ∧ r < pre ws (k + 1) := by
    have hn : 0 < ws.length := by
      rcases Nat.eq_zero_or_pos ws.length with h | h
      · have : ws = [] := List.length_eq_zero_iff.mp h
        subst this; simp at hr
      · exact h
    exact ⟨ws.length - 1, by omega, by
      have : ws.length - 1 + 1 = ws.length := by omega
      rw [this, pre_length]; exact hr⟩
  classical
  let k := Nat.find hex
  have hk := Nat.find_spec hex
  refine ⟨k, hk.1, ?_, hk.2⟩
  rcases Nat.eq_zero_or_pos k with h0 | hpos
  · rw [h0, pre_zero]; exact Nat.zero_le _
  · by_contra hc
    have : r < pre ws (k - 1 + 1) := by
      have e : k - 1 + 1 = k := by omega
      rw [e]; omega
    have := Nat.find_min hex (m := k - 1) (by omega) ⟨by omega, this⟩
    exact this

theorem countP_interval (a N : Nat) : ∀ b, a ≤ b → b ≤ N →
    (List.range N).countP (fun r => decide (a ≤ r ∧ r < b)) = b - a := by
  induction N with
  | zero => intro b hab hb; simp; omega
  | succ N ih =>
    intro b hab hb
    rw [List.range_succ, List.countP_append]
    rcases Nat.lt_or_ge N b with h | h
    · have hbN : b = N + 1 := by omega
      subst hbN
      rcases Nat.lt_or_ge N a with h2 | h2
      · have : a = N + 1 := by omega
        subst this
        have : (List.range N).countP (fun r => decide (N + 1 ≤ r ∧ r < N + 1)) = 0 := by
          rw [List.countP_eq_zero]; intro x _; simp
        rw [this]; simp
      · have e : (List.range N).countP (fun r => decide (a ≤ r ∧ r < N + 1)) =
            (List.range N).countP (fun r => decide (a ≤ r ∧ r < N)) := by
          apply List.countP_congr
          intro x hx
          have := List.mem_range.mp hx
          simp; omega
        rw [e, ih N h2 (Nat.le_refl _)]
        simp [h2]; omega
    · rw [ih b hab h]
      have : ¬ (a ≤ N ∧ N < b) := by omega
      simp [this]

/-! ### Next over the whole random source -/

theorem items_ne (ws : List Nat) (hne : ws ≠ []) : (RW.ofWeights ws).items.isEmpty = false := by
  have := (built ws).len
  cases h : (RW.ofWeights ws).items with
  | nil => rw [h] at this; simp at this; exact absurd this.symm (by simpa using hne)
  | cons a l => rfl

theorem range_noneq (ws : List Nat) (hne : ws ≠ []) (h : ¬ AllEqual ws) :
    (RW.ofWeights ws).range = some ws.sum := by
  have hb := built ws
  have he : (RW.ofWeights ws).equalWeights = false := by
    cases hq : (RW.ofWeights ws).equalWeights with
    | false => rfl
    | true => exact absurd ((hb.eqw hne).mp hq) h
  unfold RW.range
  rw [hb.last]
  cases hl : ws.getLast? with
  | none => exact absurd (List.getLast?_eq_none_iff.mp hl) hne
  | some l => simp [he]

theorem range_eq (ws : List Nat) (hne : ws ≠ []) (h : AllEqual ws) :
    (RW.ofWeights ws).range = some ws.length := by
  have hb := built ws
  have he : (RW.ofWeights ws).equalWeights = true := (hb.eqw hne).mpr h
  unfold RW.range
  rw [hb.last]
  cases hl : ws.getLast? with
  | none => exact absurd (List.getLast?_eq_none_iff.mp hl) hne
  | some l => simp [he, hb.len]

theorem pick_noneq (ws : List Nat) (hne : ws ≠ []) (h : ¬ AllEqual ws) (r : Nat) :
    (RW.ofWeights ws).pick r = some (search ws.length (gt (RW.ofWeights ws) r)) := by
  have hb := built ws
  have he : (RW.ofWeights ws).equalWeights = false := by
    cases hq : (RW.ofWeights ws).equalWeights with
    | false => rfl
    | true => exact absurd ((hb.eqw hne).mp hq) h
  unfold RW.pick
  rw [items_ne ws hne, he, hb.len]
  rfl

theorem pick_eq (ws : List Nat) (hne : ws ≠ []) (h : AllEqual ws) (r : Nat) :
    (RW.ofWeights ws).pick r = some r := by
  have hb := built ws
  have he : (RW.ofWeights ws).equalWeights = true := (hb.eqw hne).mpr h
  unfold RW.pick
  rw [items_ne ws hne, he]
  rfl

/-- weights not all equal: `Next` returns item i exactly for r ∈ [S_i, S_{i+1}) -/
theorem pick_iff_slice (ws : List Nat) (hne : ws ≠ []) (h : ¬ AllEqual ws) (r i : Nat)
    (hr : r < ws.sum) (hi : i < ws.length) :
    (RW.ofWeights ws).pick r = some i ↔ (pre ws i ≤ r ∧ r < pre ws (i + 1)) := by
  rw [pick_noneq ws hne h]
  constructor
  · intro hs
    obtain ⟨i', hi', hlo, hhi⟩ := slice_exists ws r hr
    rw [search_slice ws r i' hi' hlo hhi] at hs
    have : i' = i := Option.some.inj hs
    subst this; exact ⟨hlo, hhi⟩
  · rintro ⟨hlo, hhi⟩
    rw [search_slice ws r i hi hlo hhi]

theorem next_counts (ws : List Nat) (hne : ws ≠ []) (h : ¬ AllEqual ws) (i : Nat) (hi : i < ws.length) :
    (List.range ws.sum).countP (fun r => (RW.ofWeights ws).pick r == some i) = ws.getD i 0 := by
  have hc : (List.range ws.sum).countP (fun r => (RW.ofWeights ws).pick r == some i) =
      (List.range ws.sum).countP (fun r => decide (pre ws i ≤ r ∧ r < pre ws (i + 1))) := by
    apply List.countP_congr
    intro r hr
    have hr' := List.mem_range.mp hr
    have := pick_iff_slice ws hne h r i hr' hi
    simp only [beq_iff_eq, decide_eq_true_eq]
    exact this
  rw [hc, countP_interval _ _ _ (pre_mono ws i (i + 1) (by omega))
    (by have := pre_mono ws (i + 1) ws.length (by omega); rw [pre_length] at this; exact this),
    pre_succ ws i hi]
  omega

theorem next_counts_equal (ws : List Nat) (hne : ws ≠ []) (h : AllEqual ws) (i : Nat) (hi : i < ws.length) :
    (List.range ws.length).countP (fun r => (RW.ofWeights ws).pick r == some i) = 1 := by
  have hc : (List.range ws.length).countP (fun r => (RW.ofWeights ws).pick r == some i) =
      (List.range ws.length).countP (fun r => decide (i ≤ r ∧ r < i + 1)) := by
    apply List.countP_congr
    intro r _
    rw [pick_eq ws hne h]
    simp only [beq_iff_eq, Option.some.injEq, decide_eq_true_eq]
    omega
  rw [hc, countP_interval _ _ _ (by omega) (by omega)]
  omega

/-! ### gcd, droppers -/

theorem gcdLoop_eq : ∀ fuel a b, b < fuel → gcdLoop fuel a b = Nat.gcd a b := by
  intro fuel
  induction fuel with
  | zero => intro a b h; omega
  | succ fuel ih =>
    intro a b h
    unfold gcdLoop
    by_cases hb : b = 0
    · subst hb; simp
    · simp only [ne_eq, hb, not_false_eq_true, if_true]
      have hlt : a % b < b := Nat.mod_lt _ (Nat.pos_of_ne_zero hb)
      rw [ih b (a % b) (by omega)]
      rw [Nat.gcd_comm a b, Nat.gcd_rec b a, Nat.gcd_comm]

theorem gcd32_eq (a b : Nat) : gcd32 a b = Nat.gcd a b := gcdLoop_eq (b + 1) a b (by omega)

theorem million_eq : million = 1000000 := rfl

/-- the two weights of a dropper for rpm ≤ 10^6 -/
theorem newDropper_eq (rpm : Nat) (h : rpm ≤ 1000000) :
    newDropper rpm = RW.ofWeights [rpm / Nat.gcd rpm 1000000, (1000000 - rpm) / Nat.gcd rpm 1000000] := by
  unfold newDropper
  simp only [gcd32_eq, million_eq]
  have : (1000000 + 4294967296 - rpm) % 4294967296 = 1000000 - rpm := by omega
  rw [this]

theorem allEqual_pair (p q : Nat) : AllEqual [p, q] ↔ p = q := by
  constructor
  · intro h; exact h p (by simp) q (by simp)
  · rintro rfl a ha b hb
    simp at ha hb
    rcases ha with rfl | rfl <;> rcases hb with rfl | rfl <;> rfl

/-- A dropper built for `rpm` requests per million fires for exactly the fraction rpm / 10^6 of
    its random source. -/
theorem dropper_fraction (rpm : Nat) (h : rpm ≤ 1000000) :
    ∃ N, (newDropper rpm).range = some N ∧ 0 < N ∧
      (List.range N).countP (fun r => dropOf (newDropper rpm) r) * 1000000 = rpm * N := by
  rw [newDropper_eq rpm h]
  have hg : 0 < Nat.gcd rpm 1000000 := Nat.gcd_pos_of_pos_right _ (by norm_num)
  obtain ⟨a, ha⟩ := Nat.gcd_dvd_left rpm 1000000
  obtain ⟨b, hb⟩ := Nat.gcd_dvd_right rpm 1000000
  generalize Nat.gcd rpm 1000000 = g at *
  have hp : rpm / g = a := by rw [ha]; exact Nat.mul_div_cancel_left a hg
  have hab : a ≤ b := by
    have : g * a ≤ g * b := by omega
    exact Nat.le_of_mul_le_mul_left this hg
  have hq : (1000000 - rpm) / g = b - a := by
    have : 1000000 - rpm = g * (b - a) := by rw [Nat.mul_sub, ← ha, ← hb]
    rw [this]; exact Nat.mul_div_cancel_left _ hg
  rw [hp, hq]
  unfold dropOf
  by_cases heq : a = b - a
  · have hall : AllEqual [a, b - a] := (allEqual_pair _ _).mpr heq
    refine ⟨2, range_eq _ (by simp) hall, by norm_num, ?_⟩
    have hc := next_counts_equal _ (by simp) hall 0 (by simp)
    simp only [List.length_cons, List.length_nil] at hc
    rw [hc]
    have : g * b = 2 * (g * a) := by
      have : b = 2 * a := by omega
      rw [this]; ring
    omega
  · have hall : ¬ AllEqual [a, b - a] := fun hh => heq ((allEqual_pair _ _).mp hh)
    have hsum : [a, b - a].sum = b := by simp; omega
    refine ⟨b, by rw [range_noneq _ (by simp) hall, hsum], ?_, ?_⟩
    · rcases Nat.eq_zero_or_pos b with h0 | h0
      · subst h0; simp at hb
      · exact h0
    · have := next_counts _ (by simp) hall 0 (by simp)
      rw [hsum] at this
      rw [this]
      simp only [List.getD_cons_zero]
      rw [ha, hb]; ring

/-- requests-per-million for the three denominators EDS can carry -/
theorem dropRPM_exact (num den : Nat) (hden : den = 100 ∨ den = 10000 ∨ den = 1000000) :
    dropRequestsPerMillion num den * den = min num den * 1000000 ∧ dropRequestsPerMillion num den ≤ 1000000 := by
  have hm : million = 1000000 := rfl
  unfold dropRequestsPerMillion
  simp only [hm]
  rcases hden with rfl | rfl | rfl
  · generalize hx : num * 1000000 / 100 = x
    have : x = num * 10000 := by omega
    subst this
    split <;> omega
  · generalize hx : num * 1000000 / 10000 = x
    have : x = num * 100 := by omega
    subst this
    split <;> omega
  · generalize hx : num * 1000000 / 1000000 = x
    have : x = num := by omega
    subst this
    split <;> omega

/-! ### the drop loop and circuit breaking -/

theorem firstDrop_spec : ∀ (ds : List RW) (rs : List Nat) (base k : Nat), ds.length ≤ rs.length →
    (firstDrop ds rs base = some k ↔
      ∃ j, k = base + j ∧ j < ds.length ∧ dropOf (ds.getD j {}) (rs.getD j 0) = true ∧
        ∀ j', j' < j → dropOf (ds.getD j' {}) (rs.getD j' 0) = false) := by
  intro ds
  induction ds with
  | nil => intro rs base k _; simp [firstDrop]
  | cons d ds ih =>
    intro rs base k hlen
    cases rs with
    | nil => simp at hlen
    | cons r rs =>
      simp only [firstDrop]
      by_cases hd : dropOf d r = true
      · simp only [hd, if_true, Option.some.injEq]
        constructor
        · intro h; exact ⟨0, by omega, by simp, by simpa using hd, by intro j' hj'; omega⟩
        · rintro ⟨j, hk, _, hj, hbefore⟩
          rcases Nat.eq_zero_or_pos j with h0 | hpos
          · omega
          · have := hbefore 0 hpos
            simp at this; rw [this] at hd; cases hd
      · simp only [hd, Bool.false_eq_true, if_false]
        rw [ih rs (base + 1) k (by simpa using hlen)]
        constructor
        · rintro ⟨j, hk, hj, hdj, hbefore⟩
          refine ⟨j + 1, by omega, by simp; omega, by simpa using hdj, ?_⟩
          intro j' hj'
          cases j' with
          | zero => simpa using hd
          | succ j' => simpa using hbefore j' (by omega)
        · rintro ⟨j, hk, hj, hdj, hbefore⟩
          cases j with
          | zero => simp at hdj; exact absurd hdj hd
          | succ j =>
            refine ⟨j, by omega, by simpa using hj, by simpa using hdj, ?_⟩
            intro j' hj'
            simpa using hbefore (j' + 1) (by omega)

/-- one event on a cluster's request counter -/
inductive CBOp where
  | pick (ready : Bool) (drops : List RW) (rs : List Nat) (max : Nat) (childOK : Bool)
  | done   -- `Done` of some admitted, unfinished RPC

/-- numRequests, and the number of admitted RPCs whose Done has not run yet -/
structure CB where
  count : Nat := 0
  unfinished : Nat := 0

def cbStep (s : CB) : CBOp → CB
  | .pick ready drops rs max childOK =>
    let (res, c) := pick ready drops rs (some max) childOK s.count
    { count := c, unfinished := if res = .ok then s.unfinished + 1 else s.unfinished }
  | .done => if s.unfinished = 0 then s else { count := endRequest s.count, unfinished := s.unfinished - 1 }

def cbRun (s : CB) (ops : List CBOp) : CB := ops.foldl cbStep s

theorem endRequest_succ (c : Nat) (h : c + 1 < 4294967296) : endRequest (c + 1) = c := by
  unfold endRequest; omega

/-- what a pick does to the request counter -/
theorem pick_counter (ready : Bool) (drops : List RW) (rs : List Nat) (max : Nat) (childOK : Bool)
    (count : Nat) (hb : count + 1 < 4294967296) :
    ((pick ready drops rs (some max) childOK count).1 = .ok ∧
        (pick ready drops rs (some max) childOK count).2 = count + 1 ∧ count < max) ∨
    ((pick ready drops rs (some max) childOK count).1 ≠ .ok ∧
        (pick ready drops rs (some max) childOK count).2 = count) := by
  unfold pick
  cases hfd : (if ready = true then firstDrop drops rs 0 else none) with
  | some k => right; simp
  | none =>
    simp only [startRequest]
    by_cases hm : count ≥ max
    · right; simp [hm]
    · cases childOK
      · right; simp [hm, endRequest_succ count hb]
      · left; simp [hm]; omega

theorem cbStep_inv (s : CB) (op : CBOp) (h : s.count = s.unfinished) (hb : s.count + 1 < 4294967296) :
    (cbStep s op).count = (cbStep s op).unfinished := by
  cases op with
  | pick ready drops rs max childOK =>
    simp only [cbStep]
    rcases pick_counter ready drops rs max childOK s.count hb with ⟨h1, h2, _⟩ | ⟨h1, h2⟩
    · rw [h2, if_pos h1]; omega
    · rw [h2, if_neg h1]; exact h
  | done =>
    simp only [cbStep]
    split
    · exact h
    · rename_i hne
      have : s.count = (s.count - 1) + 1 := by omega
      rw [this, endRequest_succ _ (by omega)]
      simp; omega

theorem cbStep_done_le (s : CB) (h : s.count = s.unfinished) (hb : s.count < 4294967296) :
    (cbStep s .done).count ≤ s.count := by
  simp only [cbStep]
  split
  · exact Nat.le_refl _
  · rename_i hne
    obtain ⟨c, hc⟩ : ∃ c, s.count = c + 1 := ⟨s.count - 1, by omega⟩
    show endRequest s.count ≤ s.count
    rw [hc, endRequest_succ c (by omega)]; omega

/-! ### droppers across EDS updates -/

/-- the droppers a drop configuration asks for -/
def droppersOf (ovs : List (String × Nat × Nat)) : List RW :=
  ovs.map fun (_, n, d) => newDropper (dropRequestsPerMillion n d)

theorem handleDrops_inv (s : DropState) (h : s.drops = s.cats.map fun c => newDropper c.rpm)
    (ovs : List (String × Nat × Nat)) :
    (handleDrops s ovs).cats = ovs.map (fun (c, n, d) => (⟨c, dropRequestsPerMillion n d⟩ : DropCfg)) ∧
    (handleDrops s ovs).drops = droppersOf ovs := by
  unfold handleDrops
  simp only
  by_cases hc : s.cats ≠ ovs.map (fun (c, n, d) => (⟨c, dropRequestsPerMillion n d⟩ : DropCfg))
  · rw [if_pos hc]
    refine ⟨rfl, ?_⟩
    simp [droppersOf, List.map_map, Function.comp_def]
  · rw [if_neg hc]
    have hc' := not_not.mp hc
    refine ⟨hc', ?_⟩
    rw [h, hc']
    simp [droppersOf, List.map_map, Function.comp_def]

end GrpcProofs.Lemmas.WRRRandom

