/-
Helper lemmas for C15: the inductive invariant of the keepalive timed automaton and the algebra of
the ping-strike ledger.
-/
import GrpcModel.Model.Keepalive
namespace GrpcProofs.Lemmas.Keepalive
open GrpcModel.Keepalive GrpcModel.Generated

/-- The inductive invariant of the client automaton (the server automaton is the instance
    `permit = true`). -/
structure Inv (c : Cfg) (s : KA) : Prop where
  prev_le : s.prevNano ≤ s.lastRead
  read_le : s.lastRead ≤ s.now
  ping_le : s.pingAt ≤ s.now
  app_le : s.appSince ≤ s.now
  timer_ge : s.closed = false → s.dormant = false → s.now ≤ s.timerAt
  timer_le : s.dormant = false → s.timerAt ≤ s.now + c.time
  quiet : s.dormant = false → s.outstanding = false → s.prevNano + c.time ≤ s.timerAt
  pingq : s.outstanding = true → s.prevNano + c.time ≤ s.pingAt ∧ s.timerAt + s.timeoutLeft = s.pingAt + c.timeout
  dorm : s.dormant = true → s.prevNano + c.time ≤ s.now ∧ s.outstanding = false ∧ (s.streams = 0 ∨ 0 < s.pendingInit) ∧ c.permit = false
  j3 : s.outstanding = true → s.pingAt ≤ max (s.lastRead + c.time) s.appSince + slack c s
  j4 : s.dormant = false → s.outstanding = false → s.timerAt ≤ max (s.lastRead + c.time) s.appSince + slack c s
  j5 : s.dormant = false → s.lastRead > s.prevNano →
        s.timerAt ≤ s.lastRead + c.time ∨ (s.lateWake = true ∧ s.timerAt ≤ s.appSince + min c.time c.timeout)
  shut : s.closed = true → s.lastRead + c.time + c.timeout ≤ s.now
  late_np : s.lateWake = true → c.permit = false

theorem inv_init (c : Cfg) : Inv c (KA.init c) := by
  constructor <;> simp [KA.init, slack]

theorem inv_delay {c : Cfg} {s : KA} (h : Inv c s) (d : Nat) (hok : Ev.ok s (.delay d) = true) :
    Inv c (step c s (.delay d)).1 := by
  obtain ⟨h1, h2, h3, h4, h5, h6, h7, h8, h9, h10, h11, h12, h13, h14⟩ := h
  simp [Ev.ok] at hok
  constructor <;> simp only [step, stepG, slack] at * <;> grind

theorem inv_read {c : Cfg} {s : KA} (h : Inv c s) : Inv c (step c s .read).1 := by
  obtain ⟨h1, h2, h3, h4, h5, h6, h7, h8, h9, h10, h11, h12, h13, h14⟩ := h
  by_cases hc : s.closed = true
  · simp only [step, stepG, hc, if_true]; exact ⟨h1, h2, h3, h4, h5, h6, h7, h8, h9, h10, h11, h12, h13, h14⟩
  · simp only [step, stepG, hc]
    constructor <;> simp only [slack] at * <;> grind

theorem inv_done {c : Cfg} {s : KA} (h : Inv c s) : Inv c (step c s .doneS).1 := by
  obtain ⟨h1, h2, h3, h4, h5, h6, h7, h8, h9, h10, h11, h12, h13, h14⟩ := h
  by_cases hc : s.closed = true
  · simp only [step, stepG, hc, if_true]; exact ⟨h1, h2, h3, h4, h5, h6, h7, h8, h9, h10, h11, h12, h13, h14⟩
  · simp only [step, stepG, hc]
    constructor <;> simp only [slack] at * <;> grind

theorem inv_open {c : Cfg} {s : KA} (h : Inv c s) : Inv c (step c s .openS).1 := by
  obtain ⟨h1, h2, h3, h4, h5, h6, h7, h8, h9, h10, h11, h12, h13, h14⟩ := h
  by_cases hc : s.closed = true
  · simp only [step, stepG, hc, if_true]; exact ⟨h1, h2, h3, h4, h5, h6, h7, h8, h9, h10, h11, h12, h13, h14⟩
  · by_cases hd : s.dormant = true
    · simp only [step, stepG, hc, hd, sendAndSleep]
      constructor <;> simp only [slack] at * <;> grind
    · simp only [step, stepG, hc, hd]
      constructor <;> simp only [slack] at * <;> grind

theorem inv_fire {c : Cfg} {s : KA} (h : Inv c s) (hok : Ev.ok s .fire = true) : Inv c (step c s .fire).1 := by
  obtain ⟨h1, h2, h3, h4, h5, h6, h7, h8, h9, h10, h11, h12, h13, h14⟩ := h
  simp [Ev.ok] at hok
  obtain ⟨⟨hc, hd⟩, hn⟩ := hok
  by_cases hr : s.lastRead > s.prevNano
  · simp only [step, stepG, hc, fire, hr, if_true]
    constructor <;> simp only [slack] at * <;> grind
  · by_cases hb : (s.outstanding && s.timeoutLeft == 0) = true
    · simp only [step, stepG, hc, fire, hr, if_false, hb, if_true]
      simp at hb
      constructor <;> simp only [slack] at * <;> grind
    · by_cases hs : (decide (s.streams < 1) && !c.permit) = true
      · simp only [step, stepG, hc, fire, hr, if_false, hb, hs, if_true]
        simp at hb hs
        constructor <;> simp only [slack] at * <;> grind
      · by_cases ho : s.outstanding = true
        · simp only [step, stepG, hc, fire, hr, if_false, hs, sendAndSleep, ho, if_true]
          simp at hb hs
          constructor <;> simp only [slack] at * <;> grind
        · simp only [step, stepG, hc, fire, hr, if_false, hs, sendAndSleep, ho]
          simp at hb hs
          constructor <;> simp only [slack] at * <;> grind

theorem inv_reg {c : Cfg} {s : KA} (h : Inv c s) : Inv c (step c s .regS).1 := by
  obtain ⟨h1, h2, h3, h4, h5, h6, h7, h8, h9, h10, h11, h12, h13, h14⟩ := h
  by_cases hc : s.closed = true
  · simp only [step, stepG, hc, if_true]; exact ⟨h1, h2, h3, h4, h5, h6, h7, h8, h9, h10, h11, h12, h13, h14⟩
  · simp only [step, stepG, hc]
    constructor <;> simp only [slack] at * <;> grind

theorem inv_initS {c : Cfg} {s : KA} (h : Inv c s) : Inv c (step c s .initS).1 := by
  obtain ⟨h1, h2, h3, h4, h5, h6, h7, h8, h9, h10, h11, h12, h13, h14⟩ := h
  by_cases hc : s.closed = true
  · simp only [step, stepG, hc, if_true]; exact ⟨h1, h2, h3, h4, h5, h6, h7, h8, h9, h10, h11, h12, h13, h14⟩
  · by_cases hd : s.dormant = true
    · simp only [step, stepG, hc, hd, sendAndSleep]
      constructor <;> simp only [slack] at * <;> grind
    · simp only [step, stepG, hc, hd]
      constructor <;> simp only [slack] at * <;> grind

/-- Every enabled event preserves the invariant. -/
theorem inv_step {c : Cfg} {s : KA} (h : Inv c s) (e : Ev) (hok : e.ok s = true) : Inv c (step c s e).1 := by
  cases e with
  | delay d => exact inv_delay h d hok
  | fire => exact inv_fire h hok
  | read => exact inv_read h
  | openS => exact inv_open h
  | doneS => exact inv_done h
  | regS => exact inv_reg h
  | initS => exact inv_initS h

theorem run_nil (c : Cfg) (s : KA) : run c s [] = (s, []) := rfl

theorem run_cons (c : Cfg) (s : KA) (e : Ev) (es : List Ev) :
    run c s (e :: es) = ((run c (step c s e).1 es).1, (step c s e).2 ++ (run c (step c s e).1 es).2) := rfl

/-- The invariant holds after every valid run. -/
theorem inv_run {c : Cfg} : ∀ (es : List Ev) {s : KA}, Inv c s → Valid c s es = true → Inv c (run c s es).1
  | [], _, h, _ => h
  | e :: es, s, h, hv => by
    simp only [Valid, Bool.and_eq_true] at hv
    rw [run_cons]
    exact inv_run es (inv_step h e hv.1) hv.2

/-! ### The four branches of `fire` as rewrite rules -/

theorem fire_reset {c : Cfg} {s : KA} (h : s.lastRead > s.prevNano) :
    fire c s = ({ s with outstanding := false, timerAt := max s.now (s.lastRead + c.time), prevNano := s.lastRead }, []) := by
  simp [fire, h]

theorem fire_close {c : Cfg} {s : KA} (h : ¬ s.lastRead > s.prevNano) (ho : s.outstanding = true) (ht : s.timeoutLeft = 0) :
    fire c s = ({ s with closed := true }, [Out.close s.now]) := by
  simp [fire, h, ho, ht]

theorem fire_dormant {c : Cfg} {s : KA} (h : ¬ s.lastRead > s.prevNano) (hb : ¬ (s.outstanding = true ∧ s.timeoutLeft = 0))
    (hs : s.streams = 0) (hp : c.permit = false) :
    fire c s = ({ s with outstanding := false, dormant := true }, []) := by
  have : (s.outstanding && s.timeoutLeft == 0) = false := by
    cases ho : s.outstanding <;> simp_all
  simp [fire, h, this, hs, hp]

theorem fire_send {c : Cfg} {s : KA} (h : ¬ s.lastRead > s.prevNano) (hb : ¬ (s.outstanding = true ∧ s.timeoutLeft = 0))
    (hs : ¬ (s.streams = 0 ∧ c.permit = false)) : fire c s = sendAndSleep c s := by
  have h1 : (s.outstanding && s.timeoutLeft == 0) = false := by
    cases ho : s.outstanding <;> simp_all
  simp only [fire, h, h1, if_false, Bool.false_eq_true]
  by_cases hs0 : s.streams = 0
  · have hp : c.permit = true := by
      cases hp : c.permit with
      | true => rfl
      | false => exact absurd ⟨hs0, hp⟩ hs
    simp [hp]
  · have : ¬ s.streams < 1 := by omega
    simp [this]

/-- Case analysis on an expiry. -/
theorem fire_cases {c : Cfg} {s : KA} (P : KA × List Out → Prop)
    (h1 : s.lastRead > s.prevNano →
      P ({ s with outstanding := false, timerAt := max s.now (s.lastRead + c.time), prevNano := s.lastRead }, []))
    (h2 : s.lastRead ≤ s.prevNano → s.outstanding = true → s.timeoutLeft = 0 → P ({ s with closed := true }, [Out.close s.now]))
    (h3 : s.lastRead ≤ s.prevNano → ¬ (s.outstanding = true ∧ s.timeoutLeft = 0) → s.streams = 0 → c.permit = false →
      P ({ s with outstanding := false, dormant := true }, []))
    (h4 : s.lastRead ≤ s.prevNano → ¬ (s.outstanding = true ∧ s.timeoutLeft = 0) → ¬ (s.streams = 0 ∧ c.permit = false) →
      P (sendAndSleep c s)) : P (fire c s) := by
  by_cases hr : s.lastRead > s.prevNano
  · rw [fire_reset hr]; exact h1 hr
  · by_cases hb : s.outstanding = true ∧ s.timeoutLeft = 0
    · rw [fire_close hr hb.1 hb.2]; exact h2 (by omega) hb.1 hb.2
    · by_cases hs : s.streams = 0 ∧ c.permit = false
      · rw [fire_dormant hr hb hs.1 hs.2]; exact h3 (by omega) hb hs.1 hs.2
      · rw [fire_send hr hb hs]; exact h4 (by omega) hb hs

/-- The dead-peer bound is a consequence of the invariant. -/
theorem bound_of_inv {c : Cfg} {s : KA} (h : Inv c s) (hc : s.closed = false) (ha : s.applicable c = true)
    (hcu : s.pendingInit = 0) :
    s.now ≤ deadBound c s.lastRead s.appSince + slack c s := by
  obtain ⟨h1, h2, h3, h4, h5, h6, h7, h8, h9, h10, h11, h12, h13, h14⟩ := h
  simp only [KA.applicable, Bool.or_eq_true, decide_eq_true_eq] at ha
  simp only [deadBound, slack] at *
  have hd : s.dormant = false := by
    cases hd : s.dormant with
    | false => rfl
    | true =>
      obtain ⟨_, _, hs, hp⟩ := h9 hd
      rcases ha with ha | ha
      · simp [hp] at ha
      · rcases hs with hs | hs <;> omega
  have hn := h5 hc hd
  cases ho : s.outstanding with
  | true =>
    have := h8 ho
    have := h10 ho
    omega
  | false =>
    have := h11 hd ho
    omega

theorem step_fire_eq {c : Cfg} {s : KA} (hc : s.closed = false) : step c s .fire = fire c s := by
  simp [step, stepG, hc]

/-- Invariant behind the exact bound: without reads during dormancy a wake-up is never late. -/
def NoLate (s : KA) : Prop := s.lateWake = false ∧ (s.dormant = true → s.lastRead ≤ s.prevNano)

theorem noLate_step {c : Cfg} {s : KA} (e : Ev) (hok : e.ok s = true) (hk : NoLate s)
    (hr : e = Ev.read → s.dormant = false) : NoLate (step c s e).1 := by
  obtain ⟨hk1, hk2⟩ := hk
  cases e with
  | delay d => exact ⟨hk1, hk2⟩
  | read =>
    have hd := hr rfl
    cases hc : s.closed with
    | true => simpa [NoLate, step, stepG, hc] using ⟨hk1, hk2⟩
    | false => simp [NoLate, step, stepG, hc, hd]
  | doneS =>
    cases hc : s.closed with
    | true => simpa [NoLate, step, stepG, hc] using ⟨hk1, hk2⟩
    | false => simpa [NoLate, step, stepG, hc] using ⟨hk1, hk2⟩
  | openS =>
    cases hc : s.closed with
    | true => simpa [NoLate, step, stepG, hc] using ⟨hk1, hk2⟩
    | false =>
      cases hd : s.dormant with
      | true =>
        have := hk2 hd
        simp [NoLate, step, stepG, hc, hd, sendAndSleep]; omega
      | false => simpa [NoLate, step, stepG, hc, hd] using hk1
  | regS =>
    cases hc : s.closed with
    | true => simpa [NoLate, step, stepG, hc] using ⟨hk1, hk2⟩
    | false => simpa [NoLate, step, stepG, hc] using ⟨hk1, hk2⟩
  | initS =>
    cases hc : s.closed with
    | true => simpa [NoLate, step, stepG, hc] using ⟨hk1, hk2⟩
    | false =>
      cases hd : s.dormant with
      | true =>
        have := hk2 hd
        simp [NoLate, step, stepG, hc, hd, sendAndSleep]; omega
      | false => simpa [NoLate, step, stepG, hc, hd] using hk1
  | fire =>
    simp [Ev.ok] at hok
    obtain ⟨⟨hc, hd⟩, hn⟩ := hok
    rw [step_fire_eq hc]
    apply fire_cases (c := c) (s := s) (P := fun r => NoLate r.1)
    · intro _; exact ⟨hk1, fun h => by simp [hd] at h⟩
    · intro _ _ _; exact ⟨hk1, hk2⟩
    · intro hle _ _ _; exact ⟨hk1, fun _ => hle⟩
    · intro _ _ _; exact ⟨by simp [sendAndSleep, hk1], fun h => by simp [sendAndSleep] at h⟩

theorem noLate_run {c : Cfg} : ∀ (es : List Ev) (s : KA), Valid c s es = true →
    (∀ (pre : List Ev) (post : List Ev), es = pre ++ Ev.read :: post → (run c s pre).1.dormant = false) →
    NoLate s → (run c s es).1.lateWake = false
  | [], _, _, _, hk => hk.1
  | e :: es, s, hv, hn, hk => by
    simp only [Valid, Bool.and_eq_true] at hv
    rw [run_cons]
    apply noLate_run es _ hv.2
    · intro pre post he
      have := hn (e :: pre) post (by simp [he])
      rw [run_cons] at this
      exact this
    · apply noLate_step e hv.1 hk
      intro he
      exact hn [] es (by simp [he])

/-- now / lastRead of the model follow the input clock as long as the transport is open. -/
def clockStep (k : Nat × Nat) : Ev → Nat × Nat
  | .delay d => (k.1 + d, k.2)
  | .read => (k.1, k.1)
  | _ => k

theorem clock_agree {c : Cfg} {s : KA} (e : Ev) (hc : s.closed = false) :
    ((step c s e).1.now, (step c s e).1.lastRead) = clockStep (s.now, s.lastRead) e := by
  cases e with
  | delay d => simp [step, stepG, clockStep]
  | read => simp [step, stepG, clockStep, hc]
  | openS =>
    by_cases hd : s.dormant = true <;> simp [step, stepG, clockStep, hc, hd, sendAndSleep]
  | doneS => simp [step, stepG, clockStep, hc]
  | regS => simp [step, stepG, clockStep, hc]
  | initS =>
    by_cases hd : s.dormant = true <;> simp [step, stepG, clockStep, hc, hd, sendAndSleep]
  | fire =>
    rw [step_fire_eq hc]
    apply fire_cases (c := c) (s := s) (P := fun r => (r.1.now, r.1.lastRead) = clockStep (s.now, s.lastRead) .fire)
    all_goals (intros; simp [clockStep, sendAndSleep])

/-- With PermitWithoutStream the ghost `appSince` stays 0 (applicable from the start). -/
theorem appSince_zero {c : Cfg} (hp : c.permit = true) : ∀ (es : List Ev) (s : KA), s.appSince = 0 → (run c s es).1.appSince = 0
  | [], _, h => h
  | e :: es, s, h => by
    rw [run_cons]
    apply appSince_zero hp es
    cases e with
    | delay d => exact h
    | read => by_cases hc : s.closed = true <;> simp [step, stepG, hc, h]
    | doneS => by_cases hc : s.closed = true <;> simp [step, stepG, hc, h]
    | openS =>
      by_cases hc : s.closed = true
      · simp [step, stepG, hc, h]
      · by_cases hd : s.dormant = true <;> simp [step, stepG, hc, hd, hp, h, sendAndSleep]
    | regS => by_cases hc : s.closed = true <;> simp [step, stepG, hc, hp, h]
    | initS =>
      by_cases hc : s.closed = true
      · simp [step, stepG, hc, h]
      · by_cases hd : s.dormant = true <;> simp [step, stepG, hc, hd, hp, h, sendAndSleep]
    | fire =>
      by_cases hc : s.closed = true
      · simp [step, stepG, hc, h]
      · have hc' : s.closed = false := by simpa using hc
        rw [step_fire_eq hc']
        apply fire_cases (c := c) (s := s) (P := fun r => r.1.appSince = 0)
        all_goals (intros; simp [sendAndSleep, h])


/-- After at most two expiries at one instant, time can pass (or the loop is closed / dormant). -/
theorem fire_progress {c : Cfg} {s : KA} (ht : 1 ≤ c.time) (hto : 1 ≤ c.timeout)
    (hok : Ev.ok s .fire = true) :
    ((fire c s).1.closed = true ∨ (fire c s).1.dormant = true ∨ (fire c s).1.now < (fire c s).1.timerAt) ∨
    (Ev.ok (fire c s).1 .fire = true ∧
      ((fire c (fire c s).1).1.closed = true ∨ (fire c (fire c s).1).1.dormant = true ∨
        (fire c (fire c s).1).1.now < (fire c (fire c s).1).1.timerAt)) := by
  simp [Ev.ok] at hok
  obtain ⟨⟨hc, hd⟩, hn⟩ := hok
  have send_progress : ∀ (t : KA), ¬ (t.outstanding = true ∧ t.timeoutLeft = 0) →
      (sendAndSleep c t).1.now < (sendAndSleep c t).1.timerAt := by
    intro t hb
    simp only [sendAndSleep]
    cases ho : t.outstanding with
    | true => have : t.timeoutLeft ≠ 0 := fun h0 => hb ⟨ho, h0⟩; simp; omega
    | false => simp; omega
  apply fire_cases (c := c) (s := s) (P := fun r =>
    (r.1.closed = true ∨ r.1.dormant = true ∨ r.1.now < r.1.timerAt) ∨
    (Ev.ok r.1 .fire = true ∧ ((fire c r.1).1.closed = true ∨ (fire c r.1).1.dormant = true ∨ (fire c r.1).1.now < (fire c r.1).1.timerAt)))
  · intro hr
    by_cases hlt : s.now < s.lastRead + c.time
    · left; right; right; simp; omega
    · right
      refine ⟨by simp [Ev.ok, hc, hd]; omega, ?_⟩
      apply fire_cases (c := c) (P := fun r => r.1.closed = true ∨ r.1.dormant = true ∨ r.1.now < r.1.timerAt)
      · intro h; simp at h
      · intro _ h; simp at h
      · intro _ _ _ _; right; left; rfl
      · intro _ hb _; right; right; exact send_progress _ hb
  · intro _ _ _; left; left; rfl
  · intro _ _ _ _; left; right; left; rfl
  · intro _ hb _; left; right; right; exact send_progress _ hb


theorem fire_timer_ge {c : Cfg} {s : KA} :
    (fire c s).1.closed = false → (fire c s).1.dormant = false → (fire c s).1.now ≤ (fire c s).1.timerAt := by
  apply fire_cases (c := c) (s := s) (P := fun r => r.1.closed = false → r.1.dormant = false → r.1.now ≤ r.1.timerAt)
  · intro _ _ _; simp; omega
  · intro _ _ _ h; simp at h
  · intro _ _ _ _ _ h; simp at h
  · intro _ _ _ _ _; simp [sendAndSleep]

/-- The driver's big step `adv d` executes a valid (urgent) run of the automaton. -/
theorem schedule_valid (c : Cfg) : ∀ (fuel : Nat) (s : KA) (d : Nat) (es : List Ev),
    (s.closed = false → s.dormant = false → s.now ≤ s.timerAt) →
    schedule fire c s d fuel = some es → Valid c s es = true
  | 0, _, _, _, _, h => by simp [schedule] at h
  | fuel + 1, s, d, es, hs, h => by
    unfold schedule at h
    by_cases hq : (s.closed || s.dormant || decide (s.now + d < s.timerAt)) = true
    · simp only [hq, if_true, Option.some.injEq] at h
      subst h
      simp only [Valid, Ev.ok, Bool.and_true]
      simp only [Bool.or_eq_true, decide_eq_true_eq] at hq ⊢
      rcases hq with (hq | hq) | hq
      · left; left; exact hq
      · left; right; exact hq
      · right; omega
    · simp only [hq] at h
      simp only [Bool.or_eq_true, decide_eq_true_eq, not_or, Bool.not_eq_true] at hq
      obtain ⟨⟨hc, hd⟩, hlt⟩ := hq
      have hn := hs hc hd
      generalize hw : s.timerAt - s.now = w at h
      cases hr : schedule fire c (stepG fire c { s with now := s.now + w } .fire).1 (d - w) fuel with
      | none => simp [hr] at h
      | some es' =>
        simp [hr] at h
        subst h
        have hs1 : ({ s with now := s.now + w } : KA).now = s.timerAt := by simp; omega
        simp only [Valid, Ev.ok, Bool.and_eq_true, Bool.or_eq_true, decide_eq_true_eq]
        refine ⟨by right; omega, ?_, ?_⟩
        · simp [step, stepG, hc, hd]; omega
        · have hstep : (step c (step c s (.delay w)).1 .fire) = fire c { s with now := s.now + w } := by
            simp [step, stepG, hc]
          rw [hstep]
          have hstep2 : stepG fire c { s with now := s.now + w } .fire = fire c { s with now := s.now + w } := by
            simp [stepG, hc]
          rw [hstep2] at hr
          exact schedule_valid c fuel _ _ _ fire_timer_ge hr


end GrpcProofs.Lemmas.Keepalive
