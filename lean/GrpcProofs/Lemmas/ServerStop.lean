/-
Lemmas about the server stop / handler limit model (GrpcModel/Model/ServerStop.lean), C25.
-/
import GrpcModel.Model.ServerStop
namespace GrpcProofs.Lemmas.ServerStop
open GrpcModel.ServerStop

/-- on every connection at most cap handlers run -/
def Bounded (s : St) : Prop := ∀ c, (runningOn s c).length ≤ s.cap

@[simp] theorem updConn_run (s : St) (c : Nat) (f : Conn → Conn) : (updConn s c f).run = s.run := rfl
@[simp] theorem updConn_cap (s : St) (c : Nat) (f : Conn → Conn) : (updConn s c f).cap = s.cap := rfl
@[simp] theorem updRpc_run (s : St) (r : Nat) (f : Rpc → Rpc) : (updRpc s r f).run = s.run := rfl
@[simp] theorem updRpc_cap (s : St) (r : Nat) (f : Rpc → Rpc) : (updRpc s r f).cap = s.cap := rfl
@[simp] theorem updConn_phase (s : St) (c : Nat) (f : Conn → Conn) : (updConn s c f).phase = s.phase := rfl
@[simp] theorem updRpc_phase (s : St) (r : Nat) (f : Rpc → Rpc) : (updRpc s r f).phase = s.phase := rfl
@[simp] theorem updRpc_conns (s : St) (r : Nat) (f : Rpc → Rpc) : (updRpc s r f).conns = s.conns := rfl
@[simp] theorem updConn_rpcs (s : St) (c : Nat) (f : Conn → Conn) : (updConn s c f).rpcs = s.rpcs := rfl

theorem runningOn_congr {s t : St} (h : t.run = s.run) (c : Nat) : runningOn t c = runningOn s c := by
  simp [runningOn, h]

theorem bounded_congr {s t : St} (hr : t.run = s.run) (hc : t.cap = s.cap) (h : Bounded s) : Bounded t := by
  intro c; rw [runningOn_congr hr c, hc]; exact h c

theorem bounded_updConn (s : St) (c : Nat) (f : Conn → Conn) (h : Bounded s) : Bounded (updConn s c f) :=
  bounded_congr rfl rfl h
theorem bounded_updRpc (s : St) (r : Nat) (f : Rpc → Rpc) (h : Bounded s) : Bounded (updRpc s r f) :=
  bounded_congr rfl rfl h

theorem enter_cap (s : St) (c r : Nat) : (enter s c r).cap = s.cap := rfl

theorem enter_bounded (s : St) (c r : Nat) (h : Bounded s) (hg : (runningOn s c).length < s.cap) :
    Bounded (enter s c r) := by
  intro c'
  simp only [enter, runningOn, updRpc_run, List.filter_append, List.length_append]
  have h1 := h c'
  simp only [runningOn] at h1 hg
  by_cases hc : c = c'
  · subst hc; simp; omega
  · simp [hc]; exact h1

theorem pump_bounded (fuel : Nat) (s : St) (c : Nat) (h : Bounded s) :
    Bounded (pump fuel s c) ∧ (pump fuel s c).cap = s.cap := by
  induction fuel generalizing s with
  | zero => exact ⟨h, rfl⟩
  | succ n ih =>
    simp only [pump]
    split
    · exact ⟨h, rfl⟩
    · rename_i conn _
      split
      · rename_i r _
        split
        · rename_i hg
          have hb : Bounded (updConn s c fun x => { x with blocked := none }) := bounded_congr rfl rfl h
          have := ih (enter (updConn s c fun x => { x with blocked := none }) c r)
            (enter_bounded _ c r hb (by simpa [runningOn] using hg))
          exact ⟨this.1, by rw [this.2]; rfl⟩
        · exact ⟨h, rfl⟩
      · split
        · exact ⟨h, rfl⟩
        · rename_i r rest _
          split
          · have := ih _ (bounded_updConn s c (fun x => { x with fifo := rest }) h)
            exact ⟨this.1, by rw [this.2]; rfl⟩
          split
          · rename_i hg
            have hb : Bounded (updConn s c fun x => { x with fifo := rest, active := x.active ++ [r] }) :=
              bounded_congr rfl rfl h
            have := ih (enter (updConn s c fun x => { x with fifo := rest, active := x.active ++ [r] }) c r)
              (enter_bounded _ c r hb (by simpa [runningOn] using hg))
            exact ⟨this.1, by rw [this.2]; rfl⟩
          · exact ⟨bounded_congr rfl rfl h, rfl⟩
        · rename_i r rest _
          have hb : Bounded (updRpc (updConn s c fun x => { x with fifo := rest, active := x.active.erase r }) r
              fun x => { x with ctxCancelled := true }) := bounded_congr rfl rfl h
          have := ih _ hb
          exact ⟨this.1, by rw [this.2]; rfl⟩

theorem pumpConn_bounded (s : St) (c : Nat) (h : Bounded s) : Bounded (pumpConn s c) ∧ (pumpConn s c).cap = s.cap := by
  unfold pumpConn
  split
  · exact pump_bounded _ s c h
  · exact ⟨h, rfl⟩

theorem send_bounded (s : St) (c r : Nat) (h : Bounded s) : Bounded (send s c r) ∧ (send s c r).cap = s.cap := by
  unfold send
  have hb : Bounded (updConn (updRpc s r fun x => { x with sent := true }) c
      fun x => { x with cliActive := x.cliActive + 1, fifo := x.fifo ++ [.arrive r] }) := bounded_congr rfl rfl h
  have := pumpConn_bounded _ c hb
  exact ⟨this.1, by rw [this.2]; rfl⟩

theorem wakeWaiter_bounded (s : St) (c : Nat) (h : Bounded s) :
    Bounded (wakeWaiter s c) ∧ (wakeWaiter s c).cap = s.cap := by
  unfold wakeWaiter
  split
  · split
    · split
      · rename_i r rest _ _
        have := send_bounded (updConn s c fun x => { x with cliWaiting := rest }) c r (bounded_updConn s c _ h)
        exact ⟨this.1, by rw [this.2]; rfl⟩
      · exact ⟨h, rfl⟩
    · exact ⟨h, rfl⟩
  · exact ⟨h, rfl⟩

theorem settleStop_run (s : St) : (settleStop s).run = s.run ∧ (settleStop s).cap = s.cap := by
  unfold settleStop
  split <;> simp

theorem settleStop_bounded (s : St) (h : Bounded s) : Bounded (settleStop s) ∧ (settleStop s).cap = s.cap :=
  ⟨bounded_congr (settleStop_run s).1 (settleStop_run s).2 h, (settleStop_run s).2⟩

theorem failWaiters_run (s : St) : (failWaiters s).run = s.run ∧ (failWaiters s).cap = s.cap := by
  simp [failWaiters]

theorem filter_filter_le {α} (l : List α) (p q : α → Bool) : ((l.filter p).filter q).length ≤ (l.filter q).length := by
  induction l with
  | nil => simp
  | cons a t ih =>
    by_cases hp : p a <;> by_cases hq : q a
    · simp only [List.filter_cons, hp, hq, if_true, List.length_cons]; omega
    · simp only [List.filter_cons, hp, hq, if_true]; simpa using ih
    · simp only [List.filter_cons, hp, hq, if_true, List.length_cons]; simp only [Bool.false_eq_true, if_false]; omega
    · simp only [List.filter_cons, hp, hq]; simpa using ih

/-- every operation keeps every connection within its handler quota -/
theorem apply_bounded (s : St) (o : Op) (h : Bounded s) : Bounded (apply s o) ∧ (apply s o).cap = s.cap := by
  cases o with
  | dial c =>
    simp only [apply, dial]
    split
    · exact ⟨h, rfl⟩
    · exact ⟨bounded_congr rfl rfl h, rfl⟩
  | start c r =>
    simp only [apply, start]
    split
    · exact ⟨h, rfl⟩
    · split
      · exact ⟨h, rfl⟩
      · have hb : Bounded { s with rpcs := s.rpcs ++ [⟨r, c, false, none, false, false, false, s.phase = .serving⟩] } :=
          bounded_congr rfl rfl h
        split
        · exact ⟨bounded_congr rfl rfl hb, rfl⟩
        · split
          · exact ⟨bounded_congr rfl rfl hb, rfl⟩
          · have := send_bounded _ c r hb
            exact ⟨this.1, by rw [this.2]⟩
  | cancel r =>
    simp only [apply, cancel]
    split
    · exact ⟨h, rfl⟩
    · rename_i x _
      split
      · exact ⟨h, rfl⟩
      · split
        · have hb : Bounded (updConn (updRpc s r fun y => { y with cli := some codeCancelled }) x.conn
              fun y => { y with cliActive := y.cliActive - 1, fifo := y.fifo ++ [.reset r] }) := bounded_congr rfl rfl h
          have h1 := pumpConn_bounded _ x.conn hb
          have h2 := wakeWaiter_bounded _ x.conn h1.1
          have h3 := settleStop_bounded _ h2.1
          exact ⟨h3.1, by rw [h3.2, h2.2, h1.2]; rfl⟩
        · exact ⟨bounded_congr rfl rfl h, rfl⟩
  | finish r code =>
    simp only [apply, finish]
    split
    · exact ⟨h, rfl⟩
    · rename_i x _
      split
      · exact ⟨h, rfl⟩
      · have hb0 : Bounded { s with run := s.run.filter fun y => y.1 ≠ r } := by
          intro c
          have := h c
          simp only [runningOn] at this ⊢
          exact Nat.le_trans (filter_filter_le s.run _ _) this
        have hb1 : Bounded (updRpc { s with run := s.run.filter fun y => y.1 ≠ r } r fun y => { y with running := false }) :=
          bounded_congr rfl rfl hb0
        split
        · have hb2 := bounded_congr (t := updConn (updRpc (updRpc { s with run := s.run.filter fun y => y.1 ≠ r } r
              fun y => { y with running := false }) r fun y => { y with cli := some code }) x.conn
              fun y => { y with cliActive := y.cliActive - 1, active := y.active.erase r }) rfl rfl hb1
          have h1 := pumpConn_bounded _ x.conn hb2
          have h2 := wakeWaiter_bounded _ x.conn h1.1
          have h3 := settleStop_bounded _ h2.1
          exact ⟨h3.1, by rw [h3.2, h2.2, h1.2]; rfl⟩
        · have h1 := pumpConn_bounded _ x.conn hb1
          have h2 := wakeWaiter_bounded _ x.conn h1.1
          have h3 := settleStop_bounded _ h2.1
          exact ⟨h3.1, by rw [h3.2, h2.2, h1.2]; rfl⟩
  | gstop =>
    simp only [apply, gstop]
    split
    · exact ⟨h, rfl⟩
    · have hb : Bounded (failWaiters { s with phase := .graceful, conns := s.conns.map fun (x : Conn) => { x with usable := false, draining := true } }) :=
        bounded_congr (failWaiters_run _).1 (failWaiters_run _).2 h
      have h3 := settleStop_bounded _ hb
      exact ⟨h3.1, by rw [h3.2, (failWaiters_run _).2]⟩
  | stop =>
    simp only [apply, stop]
    split
    · exact ⟨h, rfl⟩
    · refine ⟨bounded_congr ?_ ?_ h, ?_⟩
      · rw [(settleStop_run _).1]; simp [failWaiters]
      · rw [(settleStop_run _).2]; simp [failWaiters]
      · rw [(settleStop_run _).2]; simp [failWaiters]

  | rawdial c =>
    simp only [apply, rawdial]
    split
    · exact ⟨h, rfl⟩
    · exact ⟨bounded_congr rfl rfl h, rfl⟩
  | rawstart c r =>
    simp only [apply, rawstart]
    split
    · exact ⟨h, rfl⟩
    · split
      · exact ⟨h, rfl⟩
      · have hb : Bounded { s with rpcs := s.rpcs ++ [⟨r, c, false, none, false, false, false, s.phase = .serving⟩] } :=
          bounded_congr rfl rfl h
        split
        · exact ⟨bounded_congr rfl rfl hb, rfl⟩
        · have h1 := send_bounded _ c r hb
          have h3 := settleStop_bounded _ h1.1
          exact ⟨h3.1, by rw [h3.2, h1.2]⟩

theorem init_bounded (cap : Nat) (w : Bool) : Bounded (init cap w) := by
  intro c; simp [init, runningOn]

theorem runOps_bounded (s : St) (ops : List Op) (h : Bounded s) : Bounded (runOps s ops) ∧ (runOps s ops).cap = s.cap := by
  induction ops generalizing s with
  | nil => exact ⟨h, rfl⟩
  | cons o t ih =>
    have h1 := apply_bounded s o h
    have := ih (apply s o) h1.1
    have e : runOps s (o :: t) = runOps (apply s o) t := rfl
    rw [e]
    exact ⟨this.1, by rw [this.2, h1.2]⟩


/-! ### what the client may still use: (id, usable, cliWaiting) of every connection -/

def cview (s : St) : List (Nat × Bool × List Nat) := s.conns.map fun x => (x.id, x.usable, x.cliWaiting)

theorem updConn_cview (s : St) (c : Nat) (f : Conn → Conn)
    (hf : ∀ x, (f x).id = x.id ∧ (f x).usable = x.usable ∧ (f x).cliWaiting = x.cliWaiting) :
    cview (updConn s c f) = cview s := by
  simp only [cview, updConn, List.map_map]
  apply List.map_congr_left
  intro x _
  simp only [Function.comp]
  split
  · obtain ⟨a, b, d⟩ := hf x; rw [a, b, d]
  · rfl

theorem updRpc_cview (s : St) (r : Nat) (f : Rpc → Rpc) : cview (updRpc s r f) = cview s := rfl

theorem enter_cview (s : St) (c r : Nat) : cview (enter s c r) = cview s := rfl

theorem pump_cview (fuel : Nat) (s : St) (c : Nat) : cview (pump fuel s c) = cview s ∧ (pump fuel s c).phase = s.phase := by
  induction fuel generalizing s with
  | zero => exact ⟨rfl, rfl⟩
  | succ n ih =>
    simp only [pump]
    split
    · exact ⟨rfl, rfl⟩
    · split
      · split
        · constructor
          · rw [(ih _).1, enter_cview, updConn_cview _ _ _ (by intro x; simp)]
          · rw [(ih _).2]; rfl
        · exact ⟨rfl, rfl⟩
      · split
        · exact ⟨rfl, rfl⟩
        · split
          · constructor
            · rw [(ih _).1, updConn_cview _ _ _ (by intro x; simp)]
            · rw [(ih _).2]; rfl
          split
          · constructor
            · rw [(ih _).1, enter_cview, updConn_cview _ _ _ (by intro x; simp)]
            · rw [(ih _).2]; rfl
          · constructor
            · rw [updConn_cview _ _ _ (by intro x; simp), updConn_cview _ _ _ (by intro x; simp)]
            · rfl
        · constructor
          · rw [(ih _).1, updRpc_cview, updConn_cview _ _ _ (by intro x; simp)]
          · rw [(ih _).2]; rfl

theorem pumpConn_cview (s : St) (c : Nat) : cview (pumpConn s c) = cview s ∧ (pumpConn s c).phase = s.phase := by
  unfold pumpConn; split
  · exact pump_cview _ s c
  · exact ⟨rfl, rfl⟩

theorem settleStop_cview (s : St) : cview (settleStop s) = cview s ∧ (settleStop s).phase = s.phase := by
  unfold settleStop
  split
  · exact ⟨rfl, rfl⟩
  · refine ⟨?_, by simp⟩
    simp only [cview, List.map_map]
    apply List.map_congr_left
    intro x _
    simp only [Function.comp]
    split <;> rfl

/-- after Stop / GracefulStop was called no connection can start a stream and nobody waits for quota -/
def Closed (s : St) : Prop := s.phase ≠ .serving → ∀ v ∈ cview s, v.2.1 = false ∧ v.2.2 = []

theorem getConn_cview {s : St} {c : Nat} {conn : Conn} (h : getConn s c = some conn) :
    (conn.id, conn.usable, conn.cliWaiting) ∈ cview s := by
  simp only [getConn] at h
  have := List.mem_of_find?_eq_some h
  simp only [cview, List.mem_map]
  exact ⟨conn, this, rfl⟩

theorem wakeWaiter_closed (s : St) (c : Nat) (hc : Closed s) (hp : s.phase ≠ .serving) : wakeWaiter s c = s := by
  unfold wakeWaiter
  split
  · rename_i conn hg
    have := hc hp _ (getConn_cview hg)
    simp only at this
    rw [this.2]
  · rfl


theorem closed_of_cview {s t : St} (hv : cview t = cview s) (hp : t.phase = s.phase) (h : Closed s) : Closed t := by
  intro hne v hv'
  rw [hv] at hv'; rw [hp] at hne
  exact h hne v hv'

theorem closed_of_serving (t : St) (ht : t.phase = .serving) : Closed t := fun hne => absurd ht hne

theorem init_closed (cap : Nat) (w : Bool) : Closed (init cap w) := closed_of_serving _ rfl

theorem failWaiters_cview (s : St) : cview (failWaiters s) = (cview s).map fun v => (v.1, v.2.1, []) := by
  simp [failWaiters, cview, List.map_map, Function.comp]

theorem send_phase (s : St) (c r : Nat) : (send s c r).phase = s.phase := by
  unfold send; rw [(pumpConn_cview _ _).2]; rfl

theorem wakeWaiter_phase (s : St) (c : Nat) : (wakeWaiter s c).phase = s.phase := by
  unfold wakeWaiter
  split
  · split
    · split
      · rw [send_phase]; rfl
      · rfl
    · rfl
  · rfl

/-- only gstop / stop change the phase -/
theorem apply_phase (s : St) (o : Op) (ho : o ≠ .gstop ∧ o ≠ .stop) : (apply s o).phase = s.phase := by
  cases o with
  | dial c => simp only [apply, dial]; split <;> rfl
  | start c r =>
    simp only [apply, start]
    split
    · rfl
    · split
      · rfl
      · split
        · rfl
        · split
          · rfl
          · rw [send_phase]
  | cancel r =>
    simp only [apply, cancel]
    split
    · rfl
    · split
      · rfl
      · split
        · rw [(settleStop_cview _).2, wakeWaiter_phase, (pumpConn_cview _ _).2]; rfl
        · rfl
  | finish r code =>
    simp only [apply, finish]
    split
    · rfl
    · split
      · rfl
      · rw [(settleStop_cview _).2, wakeWaiter_phase, (pumpConn_cview _ _).2]
        split <;> rfl
  | gstop => exact absurd rfl ho.1
  | stop => exact absurd rfl ho.2
  | rawdial c => simp only [apply, rawdial]; split <;> rfl
  | rawstart c r =>
    simp only [apply, rawstart]
    split
    · rfl
    · split
      · rfl
      · split
        · rfl
        · rw [(settleStop_cview _).2, send_phase]

theorem mem_cview_erase {s : St} {c r : Nat} {v : Nat × Bool × List Nat}
    (hv : v ∈ cview (updConn s c fun y => { y with cliWaiting := y.cliWaiting.erase r })) :
    ∃ w ∈ cview s, v.1 = w.1 ∧ v.2.1 = w.2.1 ∧ (w.2.2 = [] → v.2.2 = []) := by
  simp only [cview, updConn, List.map_map, List.mem_map, Function.comp] at hv
  obtain ⟨x, hx, hv⟩ := hv
  refine ⟨(x.id, x.usable, x.cliWaiting), by simp only [cview, List.mem_map]; exact ⟨x, hx, rfl⟩, ?_⟩
  subst hv
  split <;> simp_all

/-- every operation keeps "closed for new work" once a stop was called -/
theorem apply_closed (s : St) (o : Op) (h : Closed s) : Closed (apply s o) := by
  by_cases hstop : o = .gstop ∨ o = .stop
  · -- the stop calls themselves: every connection becomes unusable, every waiter fails
    rcases hstop with rfl | rfl
    · simp only [apply, gstop]
      split
      · exact h
      · intro _ v hv
        rw [(settleStop_cview _).1, failWaiters_cview] at hv
        simp only [cview, List.map_map, List.mem_map, Function.comp] at hv
        obtain ⟨x, _, rfl⟩ := hv
        exact ⟨rfl, rfl⟩
    · simp only [apply, stop]
      split
      · exact h
      · intro _ v hv
        rw [(settleStop_cview _).1] at hv
        simp only [cview, failWaiters, List.map_map, List.mem_map, Function.comp] at hv
        obtain ⟨x, _, rfl⟩ := hv
        exact ⟨rfl, rfl⟩
  · have ho : o ≠ .gstop ∧ o ≠ .stop := ⟨fun e => hstop (Or.inl e), fun e => hstop (Or.inr e)⟩
    have hph := apply_phase s o ho
    by_cases hp : s.phase = .serving
    · exact closed_of_serving _ (by rw [hph]; exact hp)
    · -- a stop was already called: nothing the client does changes (usable, waiting) except emptying
      cases o with
      | dial c =>
        simp only [apply, dial]
        split
        · exact h
        · intro hne v hv
          simp only [cview, List.map_append, List.mem_append, List.map_cons, List.map_nil, List.mem_singleton] at hv
          rcases hv with hv | hv
          · exact h hp v (by simpa [cview] using hv)
          · subst hv; simp [hp]
      | start c r =>
        simp only [apply, start]
        split
        · exact h
        · rename_i conn hg
          split
          · exact h
          · have hu := (h hp _ (getConn_cview hg)).1
            simp only at hu
            simp only [hu, Bool.not_false, if_true]
            exact closed_of_cview rfl rfl h
      | cancel r =>
        simp only [apply, cancel]
        split
        · exact h
        · rename_i x _
          split
          · exact h
          · split
            · have hc1 : Closed (pumpConn (updConn (updRpc s r fun y => { y with cli := some codeCancelled }) x.conn
                  fun y => { y with cliActive := y.cliActive - 1, fifo := y.fifo ++ [.reset r] }) x.conn) := by
                apply closed_of_cview (s := s) _ _ h
                · rw [(pumpConn_cview _ _).1, updConn_cview _ _ _ (by intro y; simp)]; rfl
                · rw [(pumpConn_cview _ _).2]; rfl
              have hp1 : (pumpConn (updConn (updRpc s r fun y => { y with cli := some codeCancelled }) x.conn
                  fun y => { y with cliActive := y.cliActive - 1, fifo := y.fifo ++ [.reset r] }) x.conn).phase ≠ .serving := by
                rw [(pumpConn_cview _ _).2]; exact hp
              rw [wakeWaiter_closed _ _ hc1 hp1]
              exact closed_of_cview (settleStop_cview _).1 (settleStop_cview _).2 hc1
            · intro hne v hv
              obtain ⟨w, hw, _, h2, h3⟩ := mem_cview_erase hv
              have := h hp w (by simpa [cview] using hw)
              exact ⟨by rw [h2]; exact this.1, h3 this.2⟩
      | finish r code =>
        simp only [apply, finish]
        split
        · exact h
        · rename_i x _
          split
          · exact h
          · have key : ∀ t : St, cview t = cview s → t.phase = s.phase →
                Closed (settleStop (wakeWaiter (pumpConn t x.conn) x.conn)) := by
              intro t hv hph'
              have hc1 : Closed (pumpConn t x.conn) := by
                apply closed_of_cview (s := s) _ _ h
                · rw [(pumpConn_cview _ _).1, hv]
                · rw [(pumpConn_cview _ _).2, hph']
              have hp1 : (pumpConn t x.conn).phase ≠ .serving := by rw [(pumpConn_cview _ _).2, hph']; exact hp
              rw [wakeWaiter_closed _ _ hc1 hp1]
              exact closed_of_cview (settleStop_cview _).1 (settleStop_cview _).2 hc1
            split
            · apply key
              · rw [updConn_cview _ _ _ (by intro y; simp)]; rfl
              · rfl
            · apply key <;> rfl
      | gstop => exact absurd rfl ho.1
      | stop => exact absurd rfl ho.2
      | rawdial c =>
        simp only [apply, rawdial]
        split
        · exact h
        · intro hne v hv
          simp only [cview, List.map_append, List.mem_append, List.map_cons, List.map_nil, List.mem_singleton] at hv
          rcases hv with hv | hv
          · exact h hp v (by simpa [cview] using hv)
          · subst hv; simp
      | rawstart c r =>
        simp only [apply, rawstart]
        split
        · exact h
        · split
          · exact h
          · split
            · exact closed_of_cview rfl rfl h
            · apply closed_of_cview (s := s) _ _ h
              · rw [(settleStop_cview _).1]
                unfold send
                rw [(pumpConn_cview _ _).1, updConn_cview _ _ _ (by intro y; simp)]; rfl
              · rw [(settleStop_cview _).2, send_phase]


/-- the status the client of r has seen -/
def cliOf (s : St) (r : Nat) : Option Nat := (getRpc s r).bind (·.cli)

theorem find_map_id (l : List Rpc) (r r' : Nat) (f : Rpc → Rpc) (hid : ∀ y, (f y).id = y.id) :
    (l.map fun x => if x.id = r then f x else x).find? (·.id = r') =
      (l.find? (·.id = r')).map fun x => if x.id = r then f x else x := by
  induction l with
  | nil => rfl
  | cons a t ih =>
    have hg : (if a.id = r then f a else a).id = a.id := by split <;> simp [hid]
    simp only [List.map_cons, List.find?_cons, hg]
    by_cases h2 : a.id = r'
    · simp only [h2, decide_true, Option.map_some]
    · simp only [h2, decide_false]; exact ih

theorem updRpc_cliOf (s : St) (r r' : Nat) (f : Rpc → Rpc) (hid : ∀ y, (f y).id = y.id)
    (hcli : ∀ y, (f y).cli = y.cli) : cliOf (updRpc s r f) r' = cliOf s r' := by
  simp only [cliOf, getRpc, updRpc, find_map_id _ _ _ _ hid]
  cases s.rpcs.find? (·.id = r') with
  | none => rfl
  | some x => simp only [Option.map_some, Option.bind_some]; split <;> simp [hcli]

theorem updRpc_cliOf_set (s : St) (r : Nat) (f : Rpc → Rpc) (hid : ∀ y, (f y).id = y.id) (x : Rpc)
    (hx : getRpc s r = some x) : cliOf (updRpc s r f) r = (f x).cli := by
  have hxid : x.id = r := by
    have := List.find?_some hx; simpa using this
  simp only [cliOf, getRpc, updRpc, find_map_id _ _ _ _ hid]
  simp only [getRpc] at hx
  rw [hx]; simp [hxid]

theorem updConn_cliOf (s : St) (c r : Nat) (f : Conn → Conn) : cliOf (updConn s c f) r = cliOf s r := rfl

theorem enter_cliOf (s : St) (c r r' : Nat) : cliOf (enter s c r) r' = cliOf s r' := by
  simp only [enter]
  exact updRpc_cliOf s r r' _ (by intro y; rfl) (by intro y; rfl)

theorem pump_cliOf (fuel : Nat) (s : St) (c r' : Nat) : cliOf (pump fuel s c) r' = cliOf s r' := by
  induction fuel generalizing s with
  | zero => rfl
  | succ n ih =>
    simp only [pump]
    split
    · rfl
    · split
      · split
        · rw [ih, enter_cliOf]; rfl
        · rfl
      · split
        · rfl
        · split
          · rw [ih]; rfl
          split
          · rw [ih, enter_cliOf]; rfl
          · rfl
        · rw [ih, updRpc_cliOf _ _ _ _ (by intro y; rfl) (by intro y; rfl)]; rfl

theorem pumpConn_cliOf (s : St) (c r' : Nat) : cliOf (pumpConn s c) r' = cliOf s r' := by
  unfold pumpConn; split
  · exact pump_cliOf _ s c r'
  · rfl

theorem send_cliOf (s : St) (c r r' : Nat) : cliOf (send s c r) r' = cliOf s r' := by
  unfold send
  rw [pumpConn_cliOf, updConn_cliOf, updRpc_cliOf _ _ _ _ (by intro y; rfl) (by intro y; rfl)]

theorem wakeWaiter_cliOf (s : St) (c r' : Nat) : cliOf (wakeWaiter s c) r' = cliOf s r' := by
  unfold wakeWaiter
  split
  · split
    · split
      · rw [send_cliOf]; rfl
      · rfl
    · rfl
  · rfl

theorem settleStop_cliOf (s : St) (r' : Nat) : cliOf (settleStop s) r' = cliOf s r' := by
  unfold settleStop; split <;> rfl

/-- a handler that runs, whose stream was neither cancelled nor torn down, and whose client has no
    result yet: when it returns `code`, that is what the client gets — in every phase -/
theorem finish_delivers (s : St) (r code : Nat) (x : Rpc) (hx : getRpc s r = some x)
    (hrun : x.running = true) (hctx : x.ctxCancelled = false) (hcli : x.cli = none) :
    cliOf (apply s (.finish r code)) r = some code := by
  simp only [apply, finish, hx, hrun, Bool.not_true, Bool.false_eq_true, if_false, hctx, hcli,
    Option.isNone_none]
  rw [settleStop_cliOf, wakeWaiter_cliOf, pumpConn_cliOf]
  rw [if_pos (by simp)]
  rw [updConn_cliOf]
  have h1 : getRpc (updRpc { s with run := s.run.filter fun y => y.1 ≠ r } r fun y => { y with running := false }) r
      = some { x with running := false } := by
    have hxid : x.id = r := by have := List.find?_some hx; simpa using this
    have hf := find_map_id s.rpcs r r (fun y => { y with running := false }) (fun y => rfl)
    simp only [getRpc] at hx
    rw [hx] at hf
    subst hxid
    simp only [Option.map_some, if_true] at hf
    exact hf
  rw [updRpc_cliOf_set _ _ _ (by intro y; rfl) _ h1]



/-! ### `returned` changes only in settleStop -/

theorem pump_returned (fuel : Nat) (s : St) (c : Nat) : (pump fuel s c).returned = s.returned := by
  induction fuel generalizing s with
  | zero => rfl
  | succ n ih =>
    simp only [pump]
    split
    · rfl
    · split
      · split
        · rw [ih]; rfl
        · rfl
      · split
        · rfl
        · split
          · rw [ih]; rfl
          split
          · rw [ih]; rfl
          · rfl
        · rw [ih]; rfl

theorem pumpConn_returned (s : St) (c : Nat) : (pumpConn s c).returned = s.returned := by
  unfold pumpConn; split
  · exact pump_returned _ s c
  · rfl

theorem send_returned (s : St) (c r : Nat) : (send s c r).returned = s.returned := by
  unfold send; rw [pumpConn_returned]; rfl

theorem wakeWaiter_returned (s : St) (c : Nat) : (wakeWaiter s c).returned = s.returned := by
  unfold wakeWaiter
  split
  · split
    · split
      · rw [send_returned]; rfl
      · rfl
    · rfl
  · rfl

/-- the only place where a stop call is marked as returned: in graceful mode that requires that no
    handler runs and no stream waits in a handler quota -/
theorem settleStop_returns (s : St) (hp : s.phase = .graceful) (h0 : s.returned = false)
    (h1 : (settleStop s).returned = true) :
    s.run = [] ∧ ∀ x ∈ s.conns, x.blocked = none := by
  unfold settleStop at h1
  rw [hp] at h1
  simp only [h0, Bool.false_or, Bool.and_eq_true, Bool.or_eq_true, Bool.not_eq_true',
    List.all_eq_true] at h1
  obtain ⟨_, h2⟩ := h1
  rcases h2 with h2 | h2
  · simp at h2
  · obtain ⟨hr, hb⟩ := h2
    refine ⟨by simpa using hr, ?_⟩
    intro x hx
    have := hb _ (List.mem_map.2 ⟨x, hx, rfl⟩)
    split at this <;> simpa using this

/-- every operation either leaves `returned` alone or ends in settleStop -/
theorem apply_settle (s : St) (o : Op) :
    (apply s o).returned = s.returned ∨
    ∃ u, apply s o = settleStop u ∧ (u.returned = s.returned ∨ u.phase = .hard) := by
  cases o with
  | dial c => left; simp only [apply, dial]; split <;> rfl
  | start c r =>
    left
    simp only [apply, start]
    split
    · rfl
    · split
      · rfl
      · split
        · rfl
        · split
          · rfl
          · rw [send_returned]
  | cancel r =>
    simp only [apply, cancel]
    split
    · left; rfl
    · split
      · left; rfl
      · split
        · right; exact ⟨_, rfl, Or.inl (by rw [wakeWaiter_returned, pumpConn_returned]; rfl)⟩
        · left; rfl
  | finish r code =>
    simp only [apply, finish]
    split
    · left; rfl
    · split
      · left; rfl
      · right
        refine ⟨_, rfl, Or.inl ?_⟩
        rw [wakeWaiter_returned, pumpConn_returned]
        split <;> rfl
  | gstop =>
    simp only [apply, gstop]
    split
    · left; rfl
    · right; exact ⟨_, rfl, Or.inl (by simp [failWaiters])⟩
  | stop =>
    simp only [apply, stop]
    split
    · left; rfl
    · right; exact ⟨_, rfl, Or.inr (by simp [failWaiters])⟩
  | rawdial c => left; simp only [apply, rawdial]; split <;> rfl
  | rawstart c r =>
    simp only [apply, rawstart]
    split
    · left; rfl
    · split
      · left; rfl
      · split
        · left; rfl
        · right; exact ⟨_, rfl, Or.inl (by rw [send_returned])⟩

/-- op level: if an operation makes a pending GracefulStop return, then afterwards no handler runs
    and no stream waits in a handler quota -/
theorem graceful_return_no_handlers (s : St) (o : Op) (hp : (apply s o).phase = .graceful)
    (h0 : s.returned = false) (h1 : (apply s o).returned = true) :
    (apply s o).run = [] ∧ ∀ x ∈ (apply s o).conns, x.blocked = none := by
  rcases apply_settle s o with h | ⟨u, hu, hr⟩
  · rw [h, h0] at h1; cases h1
  · rw [hu] at hp h1 ⊢
    rw [(settleStop_cview _).2] at hp
    have hret : u.returned = false := by
      rcases hr with hr | hr
      · rw [hr]; exact h0
      · rw [hp] at hr; cases hr
    have := settleStop_returns u hp hret h1
    refine ⟨by rw [(settleStop_run _).1]; exact this.1, ?_⟩
    intro x hx
    unfold settleStop at hx
    rw [hp] at hx
    simp only [List.mem_map] at hx
    obtain ⟨y, hy, rfl⟩ := hx
    split
    · exact this.2 y hy
    · exact this.2 y hy

/-! ### Stop -/

theorem settleStop_rpcs (s : St) : (settleStop s).rpcs = s.rpcs := by
  unfold settleStop; split <;> rfl

/-- after Stop: every RPC that had been sent has a cancelled handler context and a result at its client -/
theorem stop_all (s : St) (hp : s.phase ≠ .hard) :
    ∀ x ∈ (apply s .stop).rpcs, x.sent = true → x.ctxCancelled = true ∧ x.cli.isSome = true := by
  intro x hx hs
  simp only [apply, stop, hp, if_false, settleStop_rpcs] at hx
  simp only [failWaiters, List.mem_map] at hx
  obtain ⟨y, _, rfl⟩ := hx
  simp only at hs ⊢
  simp only [hs, Bool.or_true, true_and]
  split
  · simp
  · rename_i hne
    cases hc : y.cli with
    | none => simp [hc] at hne
    | some v => simp

/-- …and that result is OK only if the client had seen OK before Stop was called -/
theorem stop_ok_only_if_done (s : St) (hp : s.phase ≠ .hard) :
    ∀ x ∈ (apply s .stop).rpcs, x.cli = some 0 → ∃ y ∈ s.rpcs, y.id = x.id ∧ y.cli = some 0 := by
  intro x hx h0
  simp only [apply, stop, hp, if_false, settleStop_rpcs] at hx
  simp only [failWaiters, List.mem_map] at hx
  obtain ⟨y, ⟨z, hz, rfl⟩, rfl⟩ := hx
  refine ⟨z, hz, ?_⟩
  simp only at h0 ⊢
  split at h0
  · simp [codeUnavailable] at h0
  · split at h0
    · simp [codeUnavailable] at h0
    · split <;> simp_all

/-! ### nothing is accepted after a stop call -/

theorem start_after_stop (s : St) (c r : Nat) (hc : Closed s) (hp : s.phase ≠ .serving) :
    (apply s (.start c r)).run = s.run ∧ (apply s (.start c r)).conns = s.conns ∧
    (∀ x ∈ (apply s (.start c r)).rpcs, x ∈ s.rpcs ∨ (x.id = r ∧ x.sent = false ∧ x.cli = some codeUnavailable)) := by
  simp only [apply, start]
  split
  · exact ⟨rfl, rfl, fun x hx => Or.inl hx⟩
  · rename_i conn hg
    split
    · exact ⟨rfl, rfl, fun x hx => Or.inl hx⟩
    · rename_i hnew
      have hu := (hc hp _ (getConn_cview hg)).1
      simp only at hu
      simp only [hu, Bool.not_false, if_true]
      refine ⟨rfl, rfl, ?_⟩
      intro x hx
      simp only [updRpc, List.map_append, List.mem_append, List.mem_map, List.map_cons, List.map_nil,
        List.mem_singleton] at hx
      rcases hx with ⟨y, hy, rfl⟩ | hx
      · left
        have : y.id ≠ r := by
          intro e
          apply hnew
          simp only [getRpc, Option.isSome_iff_exists]
          exact List.find?_isSome.2 ⟨y, hy, by simp [e]⟩ |> Option.isSome_iff_exists.1
        simp [this, hy]
      · right; subst hx; simp

/-! ### after the final GOAWAY -/
theorem find_map_conn (l : List Conn) (c c' : Nat) (f : Conn → Conn) (hid : ∀ y, (f y).id = y.id) :
    (l.map fun x => if x.id = c then f x else x).find? (·.id = c') =
      (l.find? (·.id = c')).map fun x => if x.id = c then f x else x := by
  induction l with
  | nil => rfl
  | cons a t ih =>
    have hg : (if a.id = c then f a else a).id = a.id := by split <;> simp [hid]
    simp only [List.map_cons, List.find?_cons, hg]
    by_cases h2 : a.id = c'
    · simp only [h2, decide_true, Option.map_some]
    · simp only [h2, decide_false]; exact ih

theorem getConn_updConn (s : St) (c : Nat) (f : Conn → Conn) (hid : ∀ y, (f y).id = y.id) (conn : Conn)
    (h : getConn s c = some conn) : getConn (updConn s c f) c = some (f conn) := by
  have hcid : conn.id = c := by have := List.find?_some h; simpa using this
  have hf := find_map_conn s.conns c c f hid
  simp only [getConn] at h
  rw [h] at hf
  simp only [Option.map_some, hcid, if_true] at hf
  exact hf

theorem getConn_updRpc (s : St) (r c : Nat) (f : Rpc → Rpc) : getConn (updRpc s r f) c = getConn s c := rfl
theorem getConn_enter (s : St) (c r c' : Nat) : getConn (enter s c r) c' = getConn s c' := rfl

/-- On a connection whose final GOAWAY has been written the reader never dispatches a stream it reads:
    whatever runs afterwards ran before or is the one stream that was already parked in the quota. -/
theorem pump_draining (fuel : Nat) (s : St) (c : Nat) (conn : Conn) (hg : getConn s c = some conn)
    (hd : conn.draining = true) :
    ∀ x ∈ (pump fuel s c).run, x ∈ s.run ∨ conn.blocked = some x.1 := by
  induction fuel generalizing s conn with
  | zero => intro x hx; exact Or.inl hx
  | succ n ih =>
    simp only [pump, hg]
    split
    · rename_i r hb
      split
      · intro x hx
        have hg' : getConn (enter (updConn s c fun y => { y with blocked := none }) c r) c
            = some { conn with blocked := none } := by
          rw [getConn_enter]; exact getConn_updConn s c _ (by intro y; rfl) conn hg
        rcases ih _ _ hg' hd x hx with h1 | h1
        · simp only [enter, updRpc_run, updConn_run, List.mem_append, List.mem_singleton] at h1
          rcases h1 with h1 | h1
          · exact Or.inl h1
          · right; rw [hb, h1]
        · cases h1
      · intro x hx; exact Or.inl hx
    · rename_i hb
      split
      · intro x hx; exact Or.inl hx
      · rename_i r rest hf
        simp only [hd, if_true]
        intro x hx
        have hg' := getConn_updConn s c (fun y => { y with fifo := rest }) (by intro y; rfl) conn hg
        rcases ih _ _ hg' hd x hx with h1 | h1
        · exact Or.inl h1
        · simp only [hb] at h1; cases h1
      · rename_i r rest hf
        intro x hx
        have hg' : getConn (updRpc (updConn s c fun y => { y with fifo := rest, active := y.active.erase r }) r
            fun y => { y with ctxCancelled := true }) c = some { conn with fifo := rest, active := conn.active.erase r } := by
          rw [getConn_updRpc]; exact getConn_updConn s c _ (by intro y; rfl) conn hg
        rcases ih _ _ hg' hd x hx with h1 | h1
        · exact Or.inl h1
        · simp only [hb] at h1; cases h1

/-- a stream that a peer opens on a connection whose final GOAWAY has been written never gets a handler -/
theorem rawstart_draining (s : St) (c r : Nat) (conn : Conn) (hg : getConn s c = some conn)
    (hd : conn.draining = true) :
    ∀ x ∈ (apply s (.rawstart c r)).run, x ∈ s.run ∨ conn.blocked = some x.1 := by
  simp only [apply, rawstart, hg]
  split
  · intro x hx; exact Or.inl hx
  · split
    · intro x hx; exact Or.inl hx
    · intro x hx
      rw [(settleStop_run _).1] at hx
      unfold send pumpConn at hx
      simp only [] at hx
      have hg1 : getConn (updConn (updRpc { s with rpcs := s.rpcs ++ [⟨r, c, false, none, false, false, false, s.phase = .serving⟩] } r
            fun y => { y with sent := true }) c
            fun y => { y with cliActive := y.cliActive + 1, fifo := y.fifo ++ [.arrive r] }) c
          = some { conn with cliActive := conn.cliActive + 1, fifo := conn.fifo ++ [.arrive r] } :=
        getConn_updConn _ c _ (by intro y; rfl) conn hg
      rw [hg1] at hx
      exact pump_draining _ _ c _ hg1 hd x hx

/-- GracefulStop marks every connection as draining -/
theorem gstop_drains (s : St) (hp : s.phase = .serving) : ∀ x ∈ (apply s .gstop).conns, x.draining = true := by
  intro x hx
  simp only [apply, gstop, hp] at hx
  simp only [ne_eq, not_true_eq_false, if_false] at hx
  unfold settleStop failWaiters at hx
  simp only [List.mem_map] at hx
  obtain ⟨y, ⟨z, ⟨w, _, rfl⟩, rfl⟩, rfl⟩ := hx
  split <;> rfl

end GrpcProofs.Lemmas.ServerStop
