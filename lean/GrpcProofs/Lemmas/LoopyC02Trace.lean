import GrpcProofs.Lemmas.LoopyC02
/-! What a clean C02 monitor run means for the DATA frames of one stream, for ANY trace (facts about the monitor itself):
they carry consecutive byte ranges starting at offset 0, and only the last one may carry END_STREAM. -/
namespace GrpcProofs.Loopy
open GrpcModel.Loopy GrpcModel.Loopy.C02

/-- `(offset, size, END_STREAM)` of the DATA frames of stream `id`, in wire order. -/
def dataOf (id : Nat) : List Out → List (Nat × Nat × Bool)
  | [] => []
  | .data i off size es :: t => if i = id then (off, size, es) :: dataOf id t else dataOf id t
  | _ :: t => dataOf id t

/-- … over a whole trace (steps of items outside the model, `Op.outside`, are not part of it: the spec does not look at them and
the model writes nothing in them). -/
def wire (id : Nat) (tr : List (Op × List Out)) : List (Nat × Nat × Bool) :=
  tr.flatMap fun x => if x.1.outside then [] else dataOf id x.2

/-- Consecutive ranges starting at `k`; END_STREAM only on the last frame. -/
def Seq (k : Nat) : List (Nat × Nat × Bool) → Prop
  | [] => True
  | (o, n, es) :: t => o = k ∧ (es = true → t = []) ∧ Seq (k + n) t

/-- What the DATA frames still to come on a stream must look like, given the spec's record of it. -/
def Exp (y : SS) (fr : List (Nat × Nat × Bool)) : Prop :=
  match y.phase with
  | .idle => Seq 0 fr
  | .open => if y.esSent then fr = [] else Seq y.sent fr
  | .closed => fr = []

theorem exp_nil (y : SS) : Exp y [] := by
  unfold Exp; split
  · trivial
  · split <;> trivial
  · rfl

theorem exp_congr {y y' : SS} {fr : List (Nat × Nat × Bool)} (h : Exp y' fr) (h1 : y'.phase = y.phase) (h2 : y'.sent = y.sent)
    (h3 : y'.esSent = y.esSent) : Exp y fr := by
  unfold Exp at h ⊢; rw [h1, h2, h3] at h; exact h

theorem dataOf_append (id : Nat) (a b : List Out) : dataOf id (a ++ b) = dataOf id a ++ dataOf id b := by
  induction a with
  | nil => rfl
  | cons o t ih =>
    cases o <;> simp only [List.cons_append, dataOf, ih]
    split <;> simp

/-! ### one frame -/

theorem frame_exp {m m1 : Mon} {op : Op} {o : Out} {id : Nat} {rest : List (Nat × Nat × Bool)}
    (h : m.frame op o = (m1, none)) (hw : (m1.str id).wild = false) (he : Exp (m1.str id) rest) :
    (m.str id).wild = false ∧ Exp (m.str id) (dataOf id [o] ++ rest) := by
  cases o with
  | data i off size es =>
    simp only [Mon.frame] at h
    by_cases hi : i = id
    · subst hi
      simp only [dataOf, if_true, List.cons_append, List.nil_append]
      by_cases hwi : (m.str i).wild = true
      · simp only [hwi, if_true, Prod.mk.injEq] at h
        rw [← h.1] at hw; simp only at hw; rw [hwi] at hw; cases hw
      · simp only [hwi, Bool.false_eq_true, if_false] at h
        repeat' split at h
        all_goals (try (simp at h; done))
        rename_i hp hs ho hle hes
        simp only [Prod.mk.injEq, and_true] at h
        subst h
        simp only [ne_eq, Decidable.not_not] at hp ho
        simp only [set_str_same] at he hw
        refine ⟨by simpa using hwi, ?_⟩
        unfold Exp at he ⊢
        simp only [hp] at he ⊢
        have hsf : (m.str i).esSent = false := by simpa using hs
        simp only [hsf, Bool.false_eq_true, if_false]
        cases es with
        | true => simp only [if_true] at he; subst he; exact ⟨ho, fun _ => rfl, trivial⟩
        | false => simp only [Bool.false_eq_true, if_false] at he; exact ⟨ho, fun hh => Bool.noConfusion hh, he⟩
    · simp only [dataOf, hi, if_false, List.nil_append]
      have : m1.str id = m.str id := by
        repeat' split at h
        all_goals (simp only [Prod.mk.injEq] at h; try (obtain ⟨rfl, _⟩ := h))
        all_goals first
          | rfl
          | (exact set_str_ne _ _ (fun e => hi e.symm))
          | (simp at h)
      rw [this] at hw he; exact ⟨hw, he⟩
  | headers i es fr =>
    simp only [dataOf, List.nil_append]
    simp only [Mon.frame] at h
    by_cases hi : i = id
    · subst hi
      by_cases hwi : (m.str i).wild = true
      · simp only [hwi, if_true, Prod.mk.injEq] at h
        rw [← h.1] at hw; simp only at hw; rw [hwi] at hw; cases hw
      · refine ⟨by simpa using hwi, ?_⟩
        simp only [hwi, Bool.false_eq_true, if_false] at h
        repeat' split at h
        all_goals (try (simp at h; done))
        all_goals (simp only [Prod.mk.injEq, and_true] at h; subst h)
        · exact he
        · simp only [set_str_same, Exp] at he; subst he; exact exp_nil _
        · simp only [set_str_same, Exp] at he; subst he; exact exp_nil _
    · have : m1.str id = m.str id := by
        repeat' split at h
        all_goals (simp only [Prod.mk.injEq] at h; try (obtain ⟨rfl, _⟩ := h))
        all_goals first
          | rfl
          | (exact set_str_ne _ _ (fun e => hi e.symm))
          | (simp at h)
      rw [this] at hw he; exact ⟨hw, he⟩
  | rst i c =>
    simp only [dataOf, List.nil_append]
    simp only [Mon.frame] at h
    have : m1.str id = m.str id := by
      repeat' split at h
      all_goals (simp only [Prod.mk.injEq] at h; try (obtain ⟨rfl, _⟩ := h))
      all_goals first
        | rfl
        | (simp at h)
    rw [this] at hw he; exact ⟨hw, he⟩
  | cb k i =>
    simp only [Mon.frame, Prod.mk.injEq, and_true] at h; subst h
    exact ⟨hw, he⟩
  | _ =>
    simp only [Mon.frame, Prod.mk.injEq, and_true] at h; subst h
    exact ⟨hw, he⟩


theorem frames_exp {m m1 : Mon} {op : Op} {os : List Out} {id : Nat} {rest : List (Nat × Nat × Bool)}
    (h : m.frames op os = (m1, none)) (hw : (m1.str id).wild = false) (he : Exp (m1.str id) rest) :
    (m.str id).wild = false ∧ Exp (m.str id) (dataOf id os ++ rest) := by
  induction os generalizing m with
  | nil => simp only [Mon.frames, Prod.mk.injEq, and_true] at h; subst h; exact ⟨hw, he⟩
  | cons o os ih =>
    simp only [Mon.frames] at h
    rcases hf : m.frame op o with ⟨m2, _ | e⟩
    · rw [hf] at h; simp only at h
      obtain ⟨hw2, he2⟩ := ih h
      have := frame_exp hf hw2 he2
      rw [← List.append_assoc, ← dataOf_append] at this
      exact this
    · rw [hf] at h; simp at h

/-! ### the parts of a step around the frames -/

theorem openStream_str_ne (m : Mon) {i id : Nat} (h : id ≠ i) : (openStream m i).str id = m.str id := by
  unfold openStream; simp only
  split
  · rfl
  · split <;> exact set_str_ne _ _ h

theorem pre_str_ne (m : Mon) (op : Op) (outs : List Out) {id : Nat}
    (h : match op with
      | .register i | .clientHeaders i _ _ | .data i _ _ _ | .serverHeaders i _ _ _ _ | .cleanup i _ _ | .earlyAbort i _ _ => id ≠ i
      | _ => True) : (m.pre op outs).str id = m.str id := by
  cases op <;> simp only [Mon.pre] <;> try rfl
  · exact openStream_str_ne m h
  · split
    · exact openStream_str_ne m h
    · rfl
  · rename_i i es hb rst code
    cases es
    · rfl
    · simp only
      split
      · split <;> exact set_str_ne _ _ h
      · rfl
  · split
    · split <;> exact set_str_ne _ _ h
    · rfl
  · split
    · rfl
    · split
      · exact set_str_ne _ _ h
      · rfl
  · split
    · rfl
    · exact set_str_ne _ _ h

theorem pre_exp {m : Mon} {op : Op} {outs : List Out} {id : Nat} {fr : List (Nat × Nat × Bool)}
    (hw : ((m.pre op outs).str id).wild = false) (he : Exp ((m.pre op outs).str id) fr) :
    (m.str id).wild = false ∧ Exp (m.str id) fr := by
  have hopen : ((openStream m id).str id).wild = false → Exp ((openStream m id).str id) fr →
      (m.str id).wild = false ∧ Exp (m.str id) fr := by
    intro hw he
    unfold openStream at hw he
    simp only at hw he
    by_cases hwi : (m.str id).wild = true
    · simp only [hwi, if_true] at hw; cases hw
    · simp only [hwi, Bool.false_eq_true, if_false] at hw he
      by_cases hp : (m.str id).phase = .idle
      · simp only [hp, if_true, set_str_same] at he
        refine ⟨by simpa using hwi, ?_⟩
        unfold Exp at he ⊢; simp only [hp]; simpa using he
      · simp only [hp, if_false, set_str_same] at hw; cases hw
  cases op with
  | register i =>
    by_cases hi : id = i
    · subst hi; exact hopen hw he
    · rw [pre_str_ne m (.register i) outs (id := id) hi] at hw he; exact ⟨hw, he⟩
  | clientHeaders i hb ie =>
    by_cases hi : id = i
    · subst hi
      simp only [Mon.pre] at hw he
      by_cases hh : hasHeadersFor id outs = true
      · simp only [hh, if_true] at hw he; exact hopen hw he
      · simp only [hh, Bool.false_eq_true, if_false] at hw he; exact ⟨hw, he⟩
    · rw [pre_str_ne m (.clientHeaders i hb ie) outs (id := id) hi] at hw he; exact ⟨hw, he⟩
  | data i hl d es =>
    by_cases hi : id = i
    · subst hi
      simp only [Mon.pre] at hw he
      by_cases hp : (m.str id).phase = .open
      · simp only [hp, if_true] at hw he
        by_cases hs : (m.str id).esAt.isSome = true
        · simp only [hs, if_true, set_str_same] at hw; cases hw
        · simp only [hs, Bool.false_eq_true, if_false, set_str_same] at hw he
          exact ⟨hw, exp_congr he hp.symm rfl rfl⟩
      · simp only [hp, if_false] at hw he; exact ⟨hw, he⟩
    · rw [pre_str_ne m (.data i hl d es) outs (id := id) hi] at hw he; exact ⟨hw, he⟩
  | serverHeaders i es hb rst code =>
    by_cases hi : id = i
    · subst hi
      cases es with
      | false => exact ⟨hw, he⟩
      | true =>
        simp only [Mon.pre] at hw he
        by_cases hp : (m.str id).phase = .open
        · simp only [hp, if_true] at hw he
          by_cases hs : (m.str id).trailersAt.isSome = true
          · simp only [hs, if_true, set_str_same] at hw; cases hw
          · simp only [hs, Bool.false_eq_true, if_false, set_str_same] at hw he
            exact ⟨hw, exp_congr he hp.symm rfl rfl⟩
        · simp only [hp, if_false] at hw he; exact ⟨hw, he⟩
    · rw [pre_str_ne m (.serverHeaders i es hb rst code) outs (id := id) hi] at hw he; exact ⟨hw, he⟩
  | cleanup i rst code =>
    by_cases hi : id = i
    · subst hi
      simp only [Mon.pre] at hw he
      by_cases hp : (m.str id).phase = .open
      · simp only [hp, if_true] at hw he; exact ⟨hw, he⟩
      · cases rst
        · simp only [hp, if_false, Bool.false_eq_true] at hw he; exact ⟨hw, he⟩
        · simp only [hp, if_false, if_true, set_str_same] at hw; cases hw
    · rw [pre_str_ne m (.cleanup i rst code) outs (id := id) hi] at hw he; exact ⟨hw, he⟩
  | earlyAbort i rst hb =>
    by_cases hi : id = i
    · subst hi
      simp only [Mon.pre] at hw he
      by_cases hp : (m.str id).phase = .idle
      · simp only [hp, if_true] at hw he; exact ⟨hw, he⟩
      · simp only [hp, if_false, set_str_same] at hw; cases hw
    · rw [pre_str_ne m (.earlyAbort i rst hb) outs (id := id) hi] at hw he; exact ⟨hw, he⟩
  | _ => exact ⟨hw, he⟩

theorem post_exp {m : Mon} {op : Op} {id : Nat} {fr : List (Nat × Nat × Bool)}
    (hw : ((m.post op).str id).wild = false) (he : Exp ((m.post op).str id) fr) :
    (m.str id).wild = false ∧ Exp (m.str id) fr := by
  cases op with
  | cleanup i rst code =>
    simp only [Mon.post] at hw he
    by_cases hp : (m.str i).phase = .open
    · simp only [hp, if_true] at hw he
      by_cases hi : id = i
      · subst hi
        simp only [set_str_same] at hw he
        have hnil : fr = [] := by simpa [Exp] using he
        subst hnil
        exact ⟨hw, exp_nil _⟩
      · rw [set_str_ne _ _ hi] at hw he; exact ⟨hw, he⟩
    · simp only [hp, if_false] at hw he; exact ⟨hw, he⟩
  | _ => exact ⟨hw, he⟩

theorem mstep_exp {m m1 : Mon} {op : Op} {outs : List Out} {id : Nat} {rest : List (Nat × Nat × Bool)}
    (h : mstep m op outs = (m1, none)) (hout : op.outside = false) (hw : (m1.str id).wild = false) (he : Exp (m1.str id) rest) :
    (m.str id).wild = false ∧ Exp (m.str id) (dataOf id outs ++ rest) := by
  rw [mstep_unfold _ _ hout] at h
  rcases hf : (clr (m.pre op outs)).frames op outs with ⟨m2, _ | e⟩
  · rw [hf] at h
    simp only [Prod.mk.injEq, and_true] at h
    subst h
    obtain ⟨hw2, he2⟩ := post_exp hw he
    obtain ⟨hw3, he3⟩ := frames_exp hf hw2 he2
    exact pre_exp (by simpa using hw3) (by simpa using he3)
  · rw [hf] at h; simp at h


/-! ### a whole trace -/

theorem runMon_exp {m : Mon} {tr : List (Op × List Out)} {id : Nat} (h : (runMon m tr).2 = none)
    (hw : ((runMon m tr).1.str id).wild = false) : (m.str id).wild = false ∧ Exp (m.str id) (wire id tr) := by
  induction tr generalizing m with
  | nil => exact ⟨hw, exp_nil _⟩
  | cons a t ih =>
    obtain ⟨op, outs⟩ := a
    simp only [runMon] at h hw
    rcases hm : mstep m op outs with ⟨m1, _ | e⟩
    · rw [hm] at h hw
      simp only at h hw
      obtain ⟨hw1, he1⟩ := ih h hw
      simp only [wire, List.flatMap_cons]
      by_cases ho : op.outside = true
      · simp only [mstep, ho, if_true, Prod.mk.injEq, and_true] at hm
        subst hm
        simp only [ho, if_true, List.nil_append]
        exact ⟨hw1, he1⟩
      · have ho' : op.outside = false := by simpa using ho
        simp only [ho', Bool.false_eq_true, if_false]
        exact mstep_exp hm ho' hw1 he1
    · rw [hm] at h; simp at h

/-! ### from offsets to bytes -/

/-- The payload bytes of a sequence of DATA frames when the stream's application byte stream is `c`. -/
def payload {α : Type} (c : List α) (fr : List (Nat × Nat × Bool)) : List α :=
  fr.flatMap fun f => (c.drop f.1).take f.2.1

def total (fr : List (Nat × Nat × Bool)) : Nat := (fr.map fun f => f.2.1).sum

theorem seq_payload {α : Type} (c : List α) {k : Nat} {fr : List (Nat × Nat × Bool)} (h : Seq k fr) :
    payload c fr = (c.drop k).take (total fr) := by
  induction fr generalizing k with
  | nil => simp [payload, total]
  | cons f t ih =>
    obtain ⟨o, n, es⟩ := f
    simp only [Seq] at h
    obtain ⟨rfl, _, h3⟩ := h
    have := ih h3
    simp only [payload, List.flatMap_cons, total, List.map_cons, List.sum_cons] at this ⊢
    rw [this, List.take_add, List.drop_drop]

/-- END_STREAM appears at most once and only on the last DATA frame. -/
theorem seq_es_last {k : Nat} {fr : List (Nat × Nat × Bool)} (h : Seq k fr) :
    ∀ a b o n, fr = a ++ (o, n, true) :: b → b = [] := by
  induction fr generalizing k with
  | nil => intro a b o n e; simp at e
  | cons f t ih =>
    obtain ⟨o', n', es'⟩ := f
    simp only [Seq] at h
    intro a b o n e
    cases a with
    | nil =>
      simp only [List.nil_append, List.cons.injEq, Prod.mk.injEq] at e
      obtain ⟨⟨_, _, rfl⟩, rfl⟩ := e
      exact h.2.1 rfl
    | cons x a' =>
      simp only [List.cons_append, List.cons.injEq] at e
      exact ih h.2.2 a' b o n e.2

end GrpcProofs.Loopy
