/-
Helper lemmas for C36 (integer part): the stride argument for `edfScheduler.nextIndex`.
-/
import GrpcModel.Model.WRRStride
namespace GrpcProofs.Lemmas.WRRStride
open GrpcModel.WRRStride GrpcModel.Generated

/-! ### one backend: the accumulator telescopes (from the calibration prototype Cal/Stride.lean) -/

/-- generation g of a backend with weight w and phase c is a *pick* iff (w*g + c) % M ≥ M - w. -/
def acc (M w c g : Nat) : Nat := (w * g + c) % M

def picked (M w c g : Nat) : Bool := decide (acc M w c g ≥ M - w)

/-- number of picks among generations start, …, start+n-1 -/
def picks (M w c start : Nat) : Nat → Nat
  | 0 => 0
  | n + 1 => picks M w c start n + (if picked M w c (start + n) then 1 else 0)

theorem acc_lt (M w c g : Nat) (hM : 0 < M) : acc M w c g < M := Nat.mod_lt _ hM

theorem acc_succ (M w c g : Nat) : acc M w c (g + 1) = (acc M w c g + w) % M := by
  unfold acc
  have e : w * (g + 1) + c = (w * g + c) + w := by rw [Nat.mul_add]; omega
  have h1 := Nat.add_mod (w * g + c) w M
  have h2 := Nat.add_mod ((w * g + c) % M) w M
  rw [Nat.mod_mod] at h2
  rw [e, h1, h2]

theorem acc_period (M w c g : Nat) : acc M w c (g + M) = acc M w c g := by
  unfold acc
  have : w * (g + M) + c = (w * g + c) + M * w := by rw [Nat.mul_add, Nat.mul_comm M w]; omega
  rw [this, Nat.add_mul_mod_self_left]

theorem picked_period (M w c g : Nat) : picked M w c (g + M) = picked M w c g := by
  unfold picked; rw [acc_period]

/-- Telescoping: the accumulator wraps exactly when a pick happens. -/
theorem telescope (M w c start n : Nat) (hM : 0 < M) (hw : w ≤ M) :
    acc M w c (start + n) + M * picks M w c start n = acc M w c start + w * n := by
  induction n with
  | zero => simp [picks]
  | succ n ih =>
    have hlt := acc_lt M w c (start + n) hM
    have hs := acc_succ M w c (start + n)
    have e1 : w * (n + 1) = w * n + w := Nat.mul_succ w n
    rw [show start + (n + 1) = start + n + 1 from rfl, hs, e1]
    simp only [picks, picked]
    by_cases hp : acc M w c (start + n) ≥ M - w
    · have hge : acc M w c (start + n) + w ≥ M := by omega
      have hm : (acc M w c (start + n) + w) % M = acc M w c (start + n) + w - M := by
        rw [Nat.mod_eq_sub_mod hge, Nat.mod_eq_of_lt (by omega)]
      have e2 : M * (picks M w c start n + 1) = M * picks M w c start n + M := by
        rw [Nat.mul_add, Nat.mul_one]
      simp only [hp, decide_true, if_true]
      rw [hm, e2]
      omega
    · have hlt2 : acc M w c (start + n) + w < M := by omega
      simp only [hp, decide_false, Bool.false_eq_true, if_false]
      rw [Nat.mod_eq_of_lt hlt2, Nat.add_zero]
      omega

/-- Over M consecutive generations a backend of weight w ≤ M is picked exactly w times. -/
theorem picks_full (M w c start : Nat) (hM : 0 < M) (hw : w ≤ M) :
    picks M w c start M = w := by
  have h := telescope M w c start M hM hw
  rw [acc_period] at h
  have h2 : M * picks M w c start M = M * w := by rw [Nat.mul_comm M w]; omega
  exact Nat.eq_of_mul_eq_mul_left hM h2

theorem max_weight_always_picked (M c g : Nat) : picked M M c g = true := by
  simp [picked]

/-! ### the whole weight vector -/

theorem maxWeight_eq : maxWeight = 65535 := rfl
theorem offset_eq : offset = 32767 := rfl
theorem maxWeight_pos : 0 < maxWeight := by decide

/-- `edfTry` in terms of the one-backend predicate. -/
theorem edfTry_eq (ws : List Nat) (idx : Nat) :
    edfTry ws idx =
      if picked maxWeight (ws.getD (idx % ws.length) 0) ((idx % ws.length) * offset) (idx / ws.length)
      then some (idx % ws.length) else none := by
  unfold edfTry picked acc
  simp only []
  generalize ws.getD (idx % ws.length) 0 = w
  generalize (w * (idx / ws.length) + idx % ws.length * offset) % maxWeight = m
  by_cases h : m < maxWeight - w
  · have h' : ¬ (m ≥ maxWeight - w) := by omega
    rw [if_pos h, decide_eq_false h']; rfl
  · have h' : m ≥ maxWeight - w := by omega
    rw [if_neg h, decide_eq_true h']; rfl

theorem edfTry_some_index (ws : List Nat) (idx i : Nat) (h : edfTry ws idx = some i) :
    i = idx % ws.length := by
  rw [edfTry_eq] at h
  split at h
  · exact (Option.some.inj h).symm
  · cases h

/-- A backend whose weight is `maxWeight` is chosen at each of its sequence numbers. -/
theorem edfTry_max (ws : List Nat) (idx : Nat) (h : ws.getD (idx % ws.length) 0 = maxWeight) :
    edfTry ws idx = some (idx % ws.length) := by
  rw [edfTry_eq, h, max_weight_always_picked]; rfl

/-- `edfTry` has period `maxWeight * n` in the sequence number. -/
theorem edfTry_period (ws : List Nat) (hn : 0 < ws.length) (idx : Nat) :
    edfTry ws (idx + maxWeight * ws.length) = edfTry ws idx := by
  have hm : (idx + maxWeight * ws.length) % ws.length = idx % ws.length := Nat.add_mul_mod_self_right _ _ _
  have hd : (idx + maxWeight * ws.length) / ws.length = idx / ws.length + maxWeight :=
    Nat.add_mul_div_right _ _ hn
  rw [edfTry_eq, edfTry_eq, hm, hd, picked_period]

/-- number of sequence numbers in [s, s+len) at which backend i is chosen -/
def chosenCount (ws : List Nat) (i s : Nat) : Nat → Nat
  | 0 => 0
  | len + 1 => chosenCount ws i s len + (if edfTry ws (s + len) = some i then 1 else 0)

theorem chosenCount_add (ws : List Nat) (i s a b : Nat) :
    chosenCount ws i s (a + b) = chosenCount ws i s a + chosenCount ws i (s + a) b := by
  induction b with
  | zero => simp [chosenCount]
  | succ b ih =>
    rw [← Nat.add_assoc]
    simp only [chosenCount, ih, Nat.add_assoc]

theorem chosenCount_period (ws : List Nat) (hn : 0 < ws.length) (i s len : Nat) :
    chosenCount ws i (s + maxWeight * ws.length) len = chosenCount ws i s len := by
  induction len with
  | zero => simp [chosenCount]
  | succ len ih =>
    simp only [chosenCount, ih]
    have : s + maxWeight * ws.length + len = (s + len) + maxWeight * ws.length := by omega
    rw [this, edfTry_period ws hn]

/-- within the aligned block of generation g, only the slot r = i can choose backend i -/
theorem chosenCount_block_prefix (ws : List Nat) (i g m : Nat) (hm : m ≤ ws.length) :
    chosenCount ws i (g * ws.length) m =
      if i < m ∧ picked maxWeight (ws.getD i 0) (i * offset) g then 1 else 0 := by
  induction m with
  | zero => simp [chosenCount]
  | succ m ih =>
    have hm' : m < ws.length := hm
    have hmod : (g * ws.length + m) % ws.length = m := by
      rw [Nat.mul_comm, Nat.mul_add_mod]; exact Nat.mod_eq_of_lt hm'
    have hdiv : (g * ws.length + m) / ws.length = g := by
      rw [Nat.mul_comm, Nat.mul_add_div (by omega), Nat.div_eq_of_lt hm']; rfl
    simp only [chosenCount, ih (by omega), edfTry_eq, hmod, hdiv]
    by_cases hie : i = m
    · subst hie
      generalize picked maxWeight (ws.getD i 0) (i * offset) g = pi
      cases pi <;> simp
    · generalize picked maxWeight (ws.getD i 0) (i * offset) g = pi
      generalize picked maxWeight (ws.getD m 0) (m * offset) g = pm
      have hne : m ≠ i := fun h => hie h.symm
      by_cases him : i < m
      · have : i < m + 1 := by omega
        cases pi <;> cases pm <;> simp [him, hne, this]
      · have h1 : ¬ i < m + 1 := by omega
        cases pm <;> simp [him, h1, hne]

theorem chosenCount_block (ws : List Nat) (i g : Nat) (hi : i < ws.length) :
    chosenCount ws i (g * ws.length) ws.length =
      if picked maxWeight (ws.getD i 0) (i * offset) g then 1 else 0 := by
  rw [chosenCount_block_prefix ws i g ws.length (Nat.le_refl _)]
  simp [hi]

/-- k aligned blocks = k generations of backend i -/
theorem chosenCount_blocks (ws : List Nat) (i g k : Nat) (hi : i < ws.length) :
    chosenCount ws i (g * ws.length) (k * ws.length) =
      picks maxWeight (ws.getD i 0) (i * offset) g k := by
  induction k with
  | zero => simp [chosenCount, picks]
  | succ k ih =>
    rw [Nat.succ_mul, chosenCount_add, ih]
    have : g * ws.length + k * ws.length = (g + k) * ws.length := by rw [Nat.add_mul]
    rw [this, chosenCount_block ws i (g + k) hi]
    simp [picks]

/-- Exact stride property: in ANY window of maxWeight·n consecutive sequence numbers backend i is
    chosen exactly `ws[i]` times. -/
theorem chosenCount_window (ws : List Nat) (i s : Nat) (hi : i < ws.length)
    (hw : ws.getD i 0 ≤ maxWeight) :
    chosenCount ws i s (maxWeight * ws.length) = ws.getD i 0 := by
  have hn : 0 < ws.length := by omega
  -- s = g*n + r
  have hs : s = (s / ws.length) * ws.length + s % ws.length := by
    have := Nat.div_add_mod s ws.length
    rw [Nat.mul_comm] at this; omega
  generalize hg : s / ws.length = g at hs
  generalize hr : s % ws.length = r at hs
  have h1 := chosenCount_add ws i (g * ws.length) r (maxWeight * ws.length)
  have h2 := chosenCount_add ws i (g * ws.length) (maxWeight * ws.length) r
  rw [chosenCount_period ws hn] at h2
  have h3 := chosenCount_blocks ws i g maxWeight hi
  rw [picks_full _ _ _ _ maxWeight_pos hw] at h3
  have hc : r + maxWeight * ws.length = maxWeight * ws.length + r := Nat.add_comm _ _
  rw [hc, h2, h3] at h1
  rw [hs]
  omega

/-- total number of chosen sequence numbers in [s, s+len) -/
def chosenTotal (ws : List Nat) (s : Nat) : Nat → Nat
  | 0 => 0
  | len + 1 => chosenTotal ws s len + (if (edfTry ws (s + len)).isSome then 1 else 0)

/-- sum over backends 0..m-1 of their counts -/
def sumCounts (ws : List Nat) (s len : Nat) : Nat → Nat
  | 0 => 0
  | m + 1 => sumCounts ws s len m + chosenCount ws (m) s len

theorem sumCounts_succ_len (ws : List Nat) (s len m : Nat) :
    sumCounts ws s (len + 1) m = sumCounts ws s len m +
      (match edfTry ws (s + len) with | some j => if j < m then 1 else 0 | none => 0) := by
  induction m with
  | zero => cases h : edfTry ws (s + len) <;> simp [sumCounts]
  | succ m ih =>
    simp only [sumCounts, ih, chosenCount]
    cases h : edfTry ws (s + len) with
    | none => simp
    | some j =>
      simp only [Option.some.injEq]
      by_cases h1 : j < m
      · have : j ≠ m := by omega
        have h2 : j < m + 1 := by omega
        simp [h1, h2, this]; omega
      · by_cases h2 : j = m
        · subst h2; simp; omega
        · have h3 : ¬ j < m + 1 := by omega
          simp [h1, h2, h3]

theorem chosenTotal_eq_sum (ws : List Nat) (hn : 0 < ws.length) (s len : Nat) :
    chosenTotal ws s len = sumCounts ws s len ws.length := by
  induction len with
  | zero =>
    have : ∀ m, sumCounts ws s 0 m = 0 := by
      intro m; induction m with
      | zero => rfl
      | succ m ih => simp [sumCounts, ih, chosenCount]
    simp [chosenTotal, this]
  | succ len ih =>
    rw [sumCounts_succ_len, chosenTotal, ih]
    cases h : edfTry ws (s + len) with
    | none => simp
    | some j =>
      have := edfTry_some_index ws _ _ h
      have hj : j < ws.length := by rw [this]; exact Nat.mod_lt _ hn
      simp [hj]

/-- sum of the first m weights -/
def sumFirst (ws : List Nat) : Nat → Nat
  | 0 => 0
  | m + 1 => sumFirst ws m + ws.getD m 0

theorem sumCounts_window (ws : List Nat) (s m : Nat) (hm : m ≤ ws.length)
    (hw : ∀ i, i < ws.length → ws.getD i 0 ≤ maxWeight) :
    sumCounts ws s (maxWeight * ws.length) m = sumFirst ws m := by
  induction m with
  | zero => rfl
  | succ m ih =>
    simp only [sumCounts, sumFirst, ih (by omega)]
    rw [chosenCount_window ws m s (by omega) (hw m (by omega))]

/-! ### the loop -/

theorem inc_mod (v k : Nat) : inc ((v + k) % seqMod) = (v + (k + 1)) % seqMod := by
  unfold inc; simp only [seqMod]; omega

/-- `edfNext` stops at the first chosen sequence number after `v` (in the wrapping uint32 order),
    provided one exists within the fuel. -/
theorem edfNext_first (ws : List Nat) :
    ∀ (k0 : Nat), 1 ≤ k0 → ∀ (v fuel : Nat), k0 ≤ fuel →
      (edfTry ws ((v + k0) % seqMod)).isSome →
      ∃ j k, 1 ≤ k ∧ k ≤ k0 ∧ edfNext fuel ws v = some (j, (v + k) % seqMod)
        ∧ edfTry ws ((v + k) % seqMod) = some j
        ∧ ∀ k', 1 ≤ k' → k' < k → edfTry ws ((v + k') % seqMod) = none := by
  intro k0
  induction k0 with
  | zero => intro h; omega
  | succ k0 ih =>
    intro _ v fuel hf hsome
    obtain ⟨fuel, rfl⟩ : ∃ f, fuel = f + 1 := ⟨fuel - 1, by omega⟩
    have hinc : inc v = (v + 1) % seqMod := rfl
    cases htry : edfTry ws ((v + 1) % seqMod) with
    | some j =>
      refine ⟨j, 1, Nat.le_refl _, by omega, ?_, htry, ?_⟩
      · simp [edfNext, hinc, htry]
      · intro k' h1 h2; omega
    | none =>
      have hk0 : 1 ≤ k0 := by
        rcases Nat.eq_zero_or_pos k0 with h | h
        · subst h; rw [htry] at hsome; cases hsome
        · exact h
      have hshift : ∀ m, ((v + 1) % seqMod + m) % seqMod = (v + (m + 1)) % seqMod := by
        intro m; simp only [seqMod]; omega
      have hsome' : (edfTry ws (((v + 1) % seqMod + k0) % seqMod)).isSome := by
        rw [hshift]; exact hsome
      obtain ⟨j, k, hk1, hk2, hres, htryk, hbefore⟩ := ih hk0 ((v + 1) % seqMod) fuel (by omega) hsome'
      refine ⟨j, k + 1, by omega, by omega, ?_, ?_, ?_⟩
      · simp only [edfNext, hinc, htry]
        rw [hres, hshift]
      · rw [← hshift]; exact htryk
      · intro k' h1 h2
        rcases Nat.lt_or_ge 1 k' with h | h
        · have := hbefore (k' - 1) (by omega) (by omega)
          rw [hshift] at this
          have e : k' - 1 + 1 = k' := by omega
          rw [e] at this; exact this
        · have : k' = 1 := by omega
          subst this; exact htry

/-- for every residue i there is a d < n with (a + d) % n = i -/
theorem exists_residue (a n i : Nat) (hi : i < n) : ∃ d, d < n ∧ (a + d) % n = i := by
  have hn : 0 < n := by omega
  have hr := Nat.mod_lt a hn
  have ha := Nat.div_add_mod a n
  by_cases h : a % n ≤ i
  · refine ⟨i - a % n, by omega, ?_⟩
    have : a + (i - a % n) = n * (a / n) + i := by omega
    rw [this, Nat.mul_add_mod, Nat.mod_eq_of_lt hi]
  · refine ⟨i + n - a % n, by omega, ?_⟩
    have : a + (i + n - a % n) = n * (a / n + 1) + i := by rw [Nat.mul_add]; omega
    rw [this, Nat.mul_add_mod, Nat.mod_eq_of_lt hi]

/-- none of the uint64 products in `nextIndex` can wrap: idx comes from a uint32, weights are uint16 -/
theorem no_uint64_overflow (ws : List Nat) (idx : Nat) (hidx : idx < seqMod)
    (hw : ∀ i, ws.getD i 0 ≤ 65535) :
    ws.getD (idx % ws.length) 0 * (idx / ws.length) + (idx % ws.length) * offset < 2 ^ 64 := by
  have h1 : idx / ws.length ≤ idx := Nat.div_le_self _ _
  have h2 : idx % ws.length ≤ idx := Nat.mod_le _ _
  have h3 := hw (idx % ws.length)
  have hS : seqMod = 4294967296 := rfl
  have h4 : ws.getD (idx % ws.length) 0 * (idx / ws.length) ≤ 65535 * 4294967296 :=
    Nat.mul_le_mul h3 (by omega)
  have h5 : (idx % ws.length) * offset ≤ 4294967296 * 32767 := by
    rw [offset_eq]; exact Nat.mul_le_mul (by omega) (Nat.le_refl _)
  omega

/-! ### sequences of calls -/

/-- converse of `edfNext_first`: whatever `edfNext` returns is the first chosen sequence number. -/
theorem edfNext_sound (ws : List Nat) :
    ∀ (fuel v i v' : Nat), edfNext fuel ws v = some (i, v') →
      ∃ k, 1 ≤ k ∧ k ≤ fuel ∧ v' = (v + k) % seqMod ∧ edfTry ws ((v + k) % seqMod) = some i
        ∧ ∀ k', 1 ≤ k' → k' < k → edfTry ws ((v + k') % seqMod) = none := by
  intro fuel
  induction fuel with
  | zero => intro v i v' h; cases h
  | succ fuel ih =>
    intro v i v' h
    have hinc : inc v = (v + 1) % seqMod := rfl
    simp only [edfNext, hinc] at h
    cases htry : edfTry ws ((v + 1) % seqMod) with
    | some j =>
      rw [htry] at h
      simp only [Option.some.injEq, Prod.mk.injEq] at h
      obtain ⟨rfl, rfl⟩ := h
      exact ⟨1, Nat.le_refl _, by omega, rfl, htry, by intro k' h1 h2; omega⟩
    | none =>
      rw [htry] at h
      have hshift : ∀ m, ((v + 1) % seqMod + m) % seqMod = (v + (m + 1)) % seqMod := by
        intro m; simp only [seqMod]; omega
      obtain ⟨k, hk1, hk2, hv', hsome, hbefore⟩ := ih _ _ _ h
      refine ⟨k + 1, by omega, by omega, ?_, ?_, ?_⟩
      · rw [hv', hshift]
      · rw [← hshift]; exact hsome
      · intro k' h1 h2
        rcases Nat.lt_or_ge 1 k' with h3 | h3
        · have := hbefore (k' - 1) (by omega) (by omega)
          rw [hshift] at this
          have e : k' - 1 + 1 = k' := by omega
          rw [e] at this; exact this
        · have : k' = 1 := by omega
          subst this; exact htry

/-- k consecutive calls of `nextIndex`: the returned indices and the final counter. -/
def edfCalls (fuel : Nat) (ws : List Nat) : Nat → Nat → Option (List Nat × Nat)
  | 0, v => some ([], v)
  | k + 1, v =>
    match edfNext fuel ws v with
    | none => none
    | some (i, v') =>
      match edfCalls fuel ws k v' with
      | none => none
      | some (is, v'') => some (i :: is, v'')

/-- the backends chosen at the L sequence numbers following counter value v (wrapping uint32 order) -/
def chosenSeq (ws : List Nat) (v : Nat) : Nat → List Nat
  | 0 => []
  | L + 1 => chosenSeq ws v L ++ (edfTry ws ((v + (L + 1)) % seqMod)).toList

theorem chosenSeq_add (ws : List Nat) (v a b : Nat) :
    chosenSeq ws v (a + b) = chosenSeq ws v a ++ chosenSeq ws ((v + a) % seqMod) b := by
  induction b with
  | zero => simp [chosenSeq]
  | succ b ih =>
    have e : ((v + a) % seqMod + (b + 1)) % seqMod = (v + (a + b + 1)) % seqMod := by
      simp only [seqMod]; omega
    rw [← Nat.add_assoc]
    simp only [chosenSeq, ih, e, List.append_assoc]

/-- a stretch whose only chosen number is the last one -/
theorem chosenSeq_single (ws : List Nat) (v i : Nat) :
    ∀ k, 1 ≤ k → edfTry ws ((v + k) % seqMod) = some i →
      (∀ k', 1 ≤ k' → k' < k → edfTry ws ((v + k') % seqMod) = none) →
      chosenSeq ws v k = [i] := by
  intro k hk hsome hnone
  obtain ⟨k, rfl⟩ : ∃ m, k = m + 1 := ⟨k - 1, by omega⟩
  have hpre : ∀ m, m ≤ k → chosenSeq ws v m = [] := by
    intro m
    induction m with
    | zero => intro _; rfl
    | succ m ih =>
      intro hm
      simp [chosenSeq, ih (by omega), hnone (m + 1) (by omega) (by omega)]
  simp [chosenSeq, hpre k (Nat.le_refl _), hsome]

theorem edfCalls_sound (fuel : Nat) (ws : List Nat) :
    ∀ (k v : Nat) (is : List Nat) (v' : Nat), v < seqMod → edfCalls fuel ws k v = some (is, v') →
      ∃ L, k ≤ L ∧ v' = (v + L) % seqMod ∧ is = chosenSeq ws v L ∧ is.length = k := by
  intro k
  induction k with
  | zero =>
    intro v is v' hv h
    simp only [edfCalls, Option.some.injEq, Prod.mk.injEq] at h
    obtain ⟨rfl, rfl⟩ := h
    exact ⟨0, Nat.le_refl _, by simp [Nat.mod_eq_of_lt hv], rfl, rfl⟩
  | succ k ih =>
    intro v is v' hv h
    simp only [edfCalls] at h
    cases h1 : edfNext fuel ws v with
    | none => rw [h1] at h; cases h
    | some r =>
      obtain ⟨i, v1⟩ := r
      rw [h1] at h
      simp only at h
      cases h2 : edfCalls fuel ws k v1 with
      | none => rw [h2] at h; cases h
      | some r2 =>
        obtain ⟨is2, v2⟩ := r2
        rw [h2] at h
        simp only [Option.some.injEq, Prod.mk.injEq] at h
        obtain ⟨rfl, rfl⟩ := h
        obtain ⟨k1, hk1, _, hv1, hsome, hbefore⟩ := edfNext_sound ws fuel v i v1 h1
        have hv1lt : v1 < seqMod := by rw [hv1]; exact Nat.mod_lt _ (by decide)
        obtain ⟨L, hkL, hv2, his2, hlen⟩ := ih v1 is2 v2 hv1lt h2
        refine ⟨k1 + L, by omega, ?_, ?_, by simp [hlen]⟩
        · rw [hv2, hv1]; simp only [seqMod]; omega
        · rw [chosenSeq_add, chosenSeq_single ws v i k1 hk1 hsome hbefore, ← hv1, ← his2]; rfl

/-- without a wrap inside the stretch, counting in `chosenSeq` is `chosenCount` -/
theorem chosenSeq_count (ws : List Nat) (v i : Nat) :
    ∀ L, v + L < seqMod → (chosenSeq ws v L).count i = chosenCount ws i (v + 1) L := by
  intro L
  induction L with
  | zero => intro _; rfl
  | succ L ih =>
    intro h
    have hm : (v + (L + 1)) % seqMod = v + 1 + L := by
      rw [Nat.mod_eq_of_lt h]; omega
    simp only [chosenSeq, chosenCount, List.count_append, ih (by omega), hm]
    cases h2 : edfTry ws (v + 1 + L) with
    | none => simp
    | some j =>
      by_cases hj : j = i
      · subst hj; simp
      · simp [hj]

end GrpcProofs.Lemmas.WRRStride
