/-
Helper lemmas about GrpcModel.RetryLoop, part F: SendMsg and RecvMsg used concurrently
(`St.opSendRecv`): the receiver runs — and may replace the attempt — while the sender sits between
its transport write and its return into `withRetry`; the replay invariant survives because the
sender re-runs its op when it finds `a != cs.attempt`.
-/
import GrpcProofs.Lemmas.RetryLoopE
namespace GrpcProofs.Lemmas.RetryLoop
open GrpcModel.Retry GrpcModel.RetryLoop GrpcProofs.Lemmas.Retry

/-- a receiving op (`RecvMsg` / `Header`) has nothing of its own to put on the wire -/
def COp.receives : COp → Bool
  | .recv => true
  | .header => true
  | _ => false

/-- `op(a)` for a receiving op under an ambient pending item (somebody else's message that is
    written or not on the current attempt and not yet in the buffer) -/
theorem applyOp_rinv_amb (st : St) (op : COp) (hop : COp.receives op = true) (pb pc : List Wire) (h : RInv st pb pc) :
    RInv (st.applyOp op).1 pb pc ∧ ((st.applyOp op).2.1.isFail = true → (st.applyOp op).1.curDead = true) := by
  have hr := react_rinv st _ _ h
  cases op with
  | send size => simp [COp.receives] at hop
  | half => simp [COp.receives] at hop
  | recv =>
    simp only [St.applyOp]
    cases hc : ({ st with atts := react st.atts } : St).cur with
    | none => exact ⟨hr, fun hf => by simp [Raw.isFail] at hf⟩
    | some a =>
      simp only
      cases had : a.dead with
      | false => exact ⟨hr, fun hf => by simp [Raw.isFail] at hf⟩
      | true =>
        have hcd := react_cur_dead st a hc had
        have hupd := updCur_rinv _ (fun a => { a with respRead := 1 }) _ _ hr (fun _ => rfl)
          (fun a hd => by simpa [Att.dead] using hd)
        simp only [Bool.not_true, Bool.false_eq_true, if_false]
        repeat' (first | split_ifs | split)
        all_goals
          refine ⟨?_, ?_⟩
          · first
              | exact hr
              | exact ⟨hupd.buf, hupd.pre, hupd.cur, hupd.once⟩
          · intro hf
            first
              | (simp [Raw.isFail] at hf; done)
              | exact hcd
  | header =>
    simp only [St.applyOp]
    cases hc : ({ st with atts := react st.atts } : St).cur with
    | none => exact ⟨hr, fun hf => by simp [Raw.isFail] at hf⟩
    | some a =>
      simp only
      cases had : a.dead with
      | false => exact ⟨hr, fun hf => by simp [Raw.isFail] at hf⟩
      | true =>
        have hcd := react_cur_dead st a hc had
        simp only [Bool.not_true, Bool.false_eq_true, if_false]
        repeat' (first | split_ifs | split)
        all_goals
          refine ⟨hr, ?_⟩
          intro hf
          first
            | (simp [Raw.isFail] at hf; done)
            | exact hcd

theorem onSuccess_receives (st : St) (op : COp) (hop : COp.receives op = true) : st.onSuccess op = st.commit := by
  cases op <;> simp [COp.receives] at hop <;> rfl

/-- the three ways a receiving `withRetry` can leave the replay invariant under an ambient pending
    item: out of fuel; no new attempt (nothing moved); or at least one new attempt, in which case
    the current attempt carries exactly the buffer, i.e. everything but the pending item -/
def AmbOut (st res : St) (out : Res) (pb pc : List Wire) : Prop :=
  out = .outOfFuel ∨ (RInv res pb pc ∧ res.atts.length = st.atts.length) ∨
  (RInv res pb pb ∧ st.atts.length < res.atts.length)

theorem withRetry_rinv_amb (fuel : Nat) (st : St) (op : COp) (hop : COp.receives op = true) (hst : st.started = true)
    (pb pc : List Wire) (h : RInv st pb pc) :
    AmbOut st (St.withRetry fuel st op).1 (St.withRetry fuel st op).2.1 pb pc ∧
    (St.withRetry fuel st op).1.started = true := by
  refine ⟨?_, (withRetry_frame fuel st op).started.trans hst⟩
  induction fuel generalizing st pc with
  | zero =>
    obtain ⟨hi1, hdead⟩ := applyOp_rinv_amb st op hop pb pc h
    have hlen1 := (applyOp_rsize st op).2
    rw [withRetry_unfold]
    split_ifs
    · exact Or.inr (Or.inl ⟨hi1, hlen1⟩)
    · cases hcl : (st.applyOp op).1.classify (st.applyOp op).2.1 with
      | blocked => exact Or.inr (Or.inl ⟨hi1, hlen1⟩)
      | success =>
        simp only
        rw [onSuccess_receives _ op hop]
        exact Or.inr (Or.inl ⟨commit_rinv _ _ _ hi1, hlen1⟩)
      | failure =>
        simp only
        have hd1 := hdead (classify_failure _ _ hcl)
        obtain ⟨hi3, hd3, hs3⟩ := decideRetry_rinv (st.applyOp op).1 (st.applyOp op).2.1 _ _ hi1 hd1
        have hlen3 : ((st.applyOp op).1.decideRetry (st.applyOp op).2.1).1.atts.length = st.atts.length := hs3.len.trans hlen1
        cases hdd : ((st.applyOp op).1.decideRetry (st.applyOp op).2.1).2 with
        | noRetry => exact Or.inr (Or.inl ⟨commit_rinv _ _ _ hi3, hlen3⟩)
        | exhausted => exact Or.inr (Or.inl ⟨commit_rinv _ _ _ hi3, hlen3⟩)
        | transparent => exact Or.inl rfl
        | backoff dur fp => exact Or.inl rfl
  | succ n ih =>
    obtain ⟨hi1, hdead⟩ := applyOp_rinv_amb st op hop pb pc h
    have hlen1 := (applyOp_rsize st op).2
    have hfr1 := applyOp_frame st op
    rw [withRetry_unfold]
    split_ifs with hcm
    · exact Or.inr (Or.inl ⟨hi1, hlen1⟩)
    · have hu : st.cs.committed = false := by simpa using hcm
      cases hcl : (st.applyOp op).1.classify (st.applyOp op).2.1 with
      | blocked => exact Or.inr (Or.inl ⟨hi1, hlen1⟩)
      | success =>
        simp only
        rw [onSuccess_receives _ op hop]
        exact Or.inr (Or.inl ⟨commit_rinv _ _ _ hi1, hlen1⟩)
      | failure =>
        simp only
        have hd1 := hdead (classify_failure _ _ hcl)
        obtain ⟨hi3, hd3, hs3⟩ := decideRetry_rinv (st.applyOp op).1 (st.applyOp op).2.1 _ _ hi1 hd1
        have hlen3 : ((st.applyOp op).1.decideRetry (st.applyOp op).2.1).1.atts.length = st.atts.length := hs3.len.trans hlen1
        have hu3 : ((st.applyOp op).1.decideRetry (st.applyOp op).2.1).1.cs.committed = false := by
          rw [hs3.committed, applyOp_cs]; exact hu
        have hst3 : ((st.applyOp op).1.decideRetry (st.applyOp op).2.1).1.started = true := by
          rw [hs3.started, hfr1.started]; exact hst
        have key : ∀ D : Decision,
            AmbOut st (contK (n + 1) op (st.applyOp op).2.2 ((st.applyOp op).1.decideRetry (st.applyOp op).2.1).1 D).1
              (contK (n + 1) op (st.applyOp op).2.2 ((st.applyOp op).1.decideRetry (st.applyOp op).2.1).1 D).2.1 pb pc := by
          intro D
          have hcore := failLoop_core n ((st.applyOp op).1.decideRetry (st.applyOp op).2.1).1 D
          simp only [contK]
          cases hna : (((st.applyOp op).1.decideRetry (st.applyOp op).2.1).1.nextAttempt n D).2.1 with
          | some r =>
            simp only
            rw [(nextAttempt_some n _ D r hna).2]
            refine Or.inr (Or.inl ⟨commit_rinv _ _ _ (rinv_core hcore _ _ hi3), ?_⟩)
            show (((st.applyOp op).1.decideRetry (st.applyOp op).2.1).1.failLoop n D).1.atts.length = _
            rw [hcore.atts]; exact hlen3
          | none =>
            simp only
            rw [(nextAttempt_none n _ D hna).2]
            have hi4 := rinv_core hcore _ _ hi3
            have hu4 : (((st.applyOp op).1.decideRetry (st.applyOp op).2.1).1.failLoop n D).1.cs.committed = false := by
              rw [hcore.committed]; exact hu3
            have hs4 : (((st.applyOp op).1.decideRetry (st.applyOp op).2.1).1.failLoop n D).1.started = true := by
              rw [hcore.started]; exact hst3
            obtain ⟨hi5, _, ⟨a5, ha5, _, _⟩, _, _, _, _, hst5, _⟩ := startRetry_rinv _
              (((st.applyOp op).1.decideRetry (st.applyOp op).2.1).1.failLoop n D).2.2.1 _ _ hi4 hu4 hs4
            have hlen5 : st.atts.length <
                ((((st.applyOp op).1.decideRetry (st.applyOp op).2.1).1.failLoop n D).1.startRetry
                  (((st.applyOp op).1.decideRetry (st.applyOp op).2.1).1.failLoop n D).2.2.1).1.atts.length := by
              rw [ha5, List.length_append, hcore.atts, hlen3]; simp
            rcases ih _ (hst5.trans hs4) pb hi5 with h6 | ⟨h6, hl6⟩ | ⟨h6, hl6⟩
            · exact Or.inl h6
            · exact Or.inr (Or.inr ⟨h6, by omega⟩)
            · exact Or.inr (Or.inr ⟨h6, by omega⟩)
        cases hdd : ((st.applyOp op).1.decideRetry (st.applyOp op).2.1).2 with
        | noRetry => exact Or.inr (Or.inl ⟨commit_rinv _ _ _ hi3, hlen3⟩)
        | exhausted => exact Or.inr (Or.inl ⟨commit_rinv _ _ _ hi3, hlen3⟩)
        | transparent => exact key _
        | backoff dur fp => exact key _

theorem endRecv_started (st : St) (res : Res) : (st.endRecv res).started = st.started := by
  unfold St.endRecv
  split <;> first
    | exact ((finish_frame _ _).trans (settle_frame _)).started
    | exact (settle_frame _).started

theorem endRecv_rinv (st : St) (res : Res) (pb pc : List Wire) (h : RInv st pb pc) :
    RInv (st.endRecv res) pb pc ∧ (st.endRecv res).atts.length = st.atts.length := by
  refine ⟨?_, (end_len st res).2.1.1⟩
  unfold St.endRecv
  split <;> first
    | exact settle_rinv _ _ _ (finish_rinv _ _ _ _ h)
    | exact settle_rinv _ _ _ h

theorem opRecv_rinv_amb (fuel : Nat) (st : St) (hst : st.started = true) (pb pc : List Wire) (h : RInv st pb pc) :
    AmbOut st (st.opRecv fuel).1 (st.opRecv fuel).2.1 pb pc ∧ (st.opRecv fuel).1.started = true := by
  obtain ⟨hw, hs⟩ := withRetry_rinv_amb fuel st .recv rfl hst pb pc h
  simp only [St.opRecv]
  refine ⟨?_, (endRecv_started _ _).trans hs⟩
  rcases hw with h1 | ⟨h1, hl⟩ | ⟨h1, hl⟩
  · exact Or.inl h1
  · obtain ⟨e1, e2⟩ := endRecv_rinv _ (St.withRetry fuel st .recv).2.1 _ _ h1
    exact Or.inr (Or.inl ⟨e1, e2.trans hl⟩)
  · obtain ⟨e1, e2⟩ := endRecv_rinv _ (St.withRetry fuel st .recv).2.1 _ _ h1
    exact Or.inr (Or.inr ⟨e1, by omega⟩)

/-- the wrapper's second RecvMsg (non-server-streaming RPCs) keeps the trichotomy -/
theorem opRecvW_rinv_amb (fuel : Nat) (st : St) (hst : st.started = true) (pb pc : List Wire) (h : RInv st pb pc) :
    AmbOut st (st.opRecvW fuel).1 (st.opRecvW fuel).2.1 pb pc ∧ (st.opRecvW fuel).1.started = true := by
  obtain ⟨h1, hs1⟩ := opRecv_rinv_amb fuel st hst pb pc h
  simp only [St.opRecvW]
  split_ifs
  · exact ⟨h1, hs1⟩
  · cases hres : (st.opRecv fuel).2.1 with
    | msg n =>
      simp only
      rcases h1 with hf | ⟨hi, hl⟩ | ⟨hi, hl⟩
      · rw [hres] at hf; cases hf
      · obtain ⟨h2, hs2⟩ := opRecv_rinv_amb fuel (st.opRecv fuel).1 hs1 pb pc hi
        refine ⟨?_, hs2⟩
        rcases h2 with hf | ⟨hi2, hl2⟩ | ⟨hi2, hl2⟩
        · left
          rw [hf]
        · exact Or.inr (Or.inl ⟨hi2, hl2.trans hl⟩)
        · exact Or.inr (Or.inr ⟨hi2, by omega⟩)
      · obtain ⟨h2, hs2⟩ := opRecv_rinv_amb fuel (st.opRecv fuel).1 hs1 pb pb hi
        refine ⟨?_, hs2⟩
        rcases h2 with hf | ⟨hi2, hl2⟩ | ⟨hi2, hl2⟩
        · left
          rw [hf]
        · exact Or.inr (Or.inr ⟨hi2, by omega⟩)
        · exact Or.inr (Or.inr ⟨hi2, by omega⟩)
    | _ => simp only [hres]; rw [← hres]; exact ⟨h1, hs1⟩

/-- the sender's write on a live attempt succeeds -/
theorem applyOp_send_alive (st : St) (size : Nat) (hd : st.curDead = false) :
    (st.applyOp (.send size)).2.1.isFail = false := by
  simp only [St.applyOp]
  have hw := (write_alive st (Wire.msg (if size = 0 then 0 else st.seq) size) hd).2
  simp only [hw, Bool.not_true, Bool.false_eq_true, if_false]
  split_ifs <;> rfl

theorem endSend_started (st : St) (res : Res) : (st.endSend res).started = st.started := by
  unfold St.endSend
  split <;> first
    | exact ((finish_frame _ _).trans (settle_frame _)).started
    | exact (settle_frame _).started

theorem opRecv_frame (fuel : Nat) (st : St) : Frame st (st.opRecv fuel).1 := by
  simp only [St.opRecv]
  refine (withRetry_frame fuel st .recv).trans ?_
  unfold St.endRecv
  split <;> first
    | exact (finish_frame _ _).trans (settle_frame _)
    | exact settle_frame _

theorem opRecvW_frame (fuel : Nat) (st : St) : Frame st (st.opRecvW fuel).1 := by
  simp only [St.opRecvW]
  split_ifs
  · exact opRecv_frame fuel st
  · split
    · exact (opRecv_frame fuel st).trans (opRecv_frame fuel _)
    · exact opRecv_frame fuel st

/-- a receiving op from an operation boundary -/
theorem opRecvW_good (fuel : Nat) (st : St) (h : Good st) :
    (st.opRecvW fuel).2.1 = .outOfFuel ∨ Good (st.opRecvW fuel).1 := by
  obtain ⟨h1, hs⟩ := opRecvW_rinv_amb fuel st h.2 [] [] h.1
  rcases h1 with hf | ⟨hi, _⟩ | ⟨hi, _⟩
  · exact Or.inl hf
  · exact Or.inr ⟨hi, hs⟩
  · exact Or.inr ⟨hi, hs⟩

/-- the sender after it re-acquired the lock, given what the receiver left behind -/
theorem resumeSend_good (fuel : Nat) (s0 s1 r1 : St) (size : Nat) (out : Res) (hcs : s0.clientStreams = true)
    (hamb : AmbOut s1 r1 out (s0.pendOf (.send size)) []) (hstr : r1.started = true)
    (hseqr : r1.seq = s0.seq) (hcsr : r1.clientStreams = s0.clientStreams) :
    out = .outOfFuel ∨ (r1.resumeSend fuel s1.curIdx size).2.1 = .outOfFuel ∨ Good (r1.resumeSend fuel s1.curIdx size).1 := by
  unfold St.resumeSend
  rcases hamb with hf | ⟨hi, hl⟩ | ⟨hi, hl⟩
  · exact Or.inl hf
  · right; right
    have hidx : ¬ (r1.curIdx ≠ s1.curIdx) := by simp only [St.curIdx, ne_eq, not_not]; exact hl
    simp only [hidx, if_false]
    refine ⟨?_, by rw [(onSuccess_frame _ _).started]; exact hstr⟩
    simp only [St.onSuccess]
    apply buffer_rinv _ _ _ _ (by simp)
    have hP : s0.pendOf (.send size) = wireOf r1.clientStreams [ROp.msg (if size = 0 then 0 else r1.seq) size] := by
      simp only [St.pendOf, wireOf, hseqr, hcsr, hcs, if_true, List.append_nil]
    rw [← hP]; exact hi
  · right
    have hidx : r1.curIdx ≠ s1.curIdx := by simp only [St.curIdx, ne_eq]; omega
    rw [if_pos hidx]
    have hp : r1.pendOf (.send size) = s0.pendOf (.send size) := pendOf_congr s0 _ _ hseqr hcsr
    rcases withRetry_good fuel r1 (.send size) hstr (by rw [hp]; exact hi) with hf | hg
    · exact Or.inl hf
    · exact Or.inr hg

theorem recvAgain_good (fuel : Nat) (s4 : St) (rR : Res) (h : Good s4) :
    (s4.recvAgain fuel rR).2.1 = .outOfFuel ∨ Good (s4.recvAgain fuel rR).1 := by
  unfold St.recvAgain
  split_ifs
  · exact opRecvW_good fuel s4 h
  · exact Or.inr h

theorem recvAgain_fuel (fuel : Nat) (s4 : St) (rR : Res) (h : rR = .outOfFuel) : (s4.recvAgain fuel rR).2.1 = .outOfFuel := by
  unfold St.recvAgain
  subst h
  simp

theorem opSendRecvWindow_good (fuel : Nat) (s0 : St) (size : Nat) (hcs : s0.clientStreams = true) (hd : s0.curDead = false)
    (hi0 : RInv s0 (s0.pendOf (.send size)) (s0.pendOf (.send size))) (hs0 : s0.started = true) :
    (s0.opSendRecvWindow fuel size).2.1 = .outOfFuel ∨ (s0.opSendRecvWindow fuel size).2.2.1 = .outOfFuel ∨
    Good (s0.opSendRecvWindow fuel size).1 := by
  obtain ⟨hsame, _, hok⟩ := applyOp_rinv s0 (.send size) hi0
  have hi1 := settle_rinv _ _ _ (hok (applyOp_send_alive _ size hd))
  have hst1 : (s0.applyOp (.send size)).1.settle.started = true := by
    rw [(settle_frame _).started, hsame.started]; exact hs0
  obtain ⟨hamb, hstr⟩ := opRecvW_rinv_amb fuel _ hst1 _ [] hi1
  have hfr := opRecvW_frame fuel (s0.applyOp (.send size)).1.settle
  have hseqr : ((s0.applyOp (.send size)).1.settle.opRecvW fuel).1.seq = s0.seq := by
    rw [hfr.seq, (settle_frame _).seq, hsame.seq]
  have hcsr : ((s0.applyOp (.send size)).1.settle.opRecvW fuel).1.clientStreams = s0.clientStreams := by
    rw [hfr.cstr, (settle_frame _).cstr, hsame.cstr]
  have hres := resumeSend_good fuel s0 (s0.applyOp (.send size)).1.settle _ size _ hcs hamb hstr hseqr hcsr
  simp only [St.opSendRecvWindow]
  rcases hres with hf | hf | hg
  · exact Or.inr (Or.inl (recvAgain_fuel fuel _ _ hf))
  · exact Or.inl hf
  · rcases recvAgain_good fuel _ ((s0.applyOp (.send size)).1.settle.opRecvW fuel).2.1 (endSend_good _ _ hg) with hf2 | hg2
    · exact Or.inr (Or.inl hf2)
    · exact Or.inr (Or.inr hg2)

/-- **Concurrent SendMsg / RecvMsg keeps replay exactness.**  From a state at an operation boundary,
    the schedule in which the receiver runs (and possibly retries the RPC) inside the sender's window
    between transport write and re-locking ends again in a state where the buffer (while uncommitted)
    spells the application's history, every attempt's wire log is a prefix of it and a live current
    attempt carries all of it — in particular the message written to the replaced attempt is sent
    again on the current one. -/
theorem opSendRecv_good (fuel : Nat) (st : St) (size : Nat) (h : Good st) :
    (st.opSendRecv fuel size).2.1 = .outOfFuel ∨ (st.opSendRecv fuel size).2.2.1 = .outOfFuel ∨
    Good (st.opSendRecv fuel size).1 := by
  by_cases hseq : (st.sentLast ∨ !st.clientStreams ∨ (st.beginSend size).cs.committed ∨ (st.beginSend size).curDead)
  · -- nothing interleaves: SendMsg, then RecvMsg
    simp only [St.opSendRecv, hseq, if_true]
    have hsw := opSendW_fst fuel st size
    rcases opSend_good fuel st size h with hf | hg
    · left
      revert hf
      unfold St.opSendW
      simp only
      split_ifs
      · exact id
      · intro hf; simp only; rw [hf]
    · rw [← hsw.1] at hg
      rcases opRecvW_good fuel _ hg with hf | hg2
      · exact Or.inr (Or.inl hf)
      · exact Or.inr (Or.inr hg2)
  · simp only [St.opSendRecv, hseq, if_false]
    have hcond : st.clientStreams = true ∧ (st.beginSend size).curDead = false := by
      simp only [not_or, Bool.not_eq_true', Bool.not_eq_false] at hseq
      refine ⟨?_, by simpa using hseq.2.2.2⟩
      simpa using hseq.2.1
    obtain ⟨hi0, hs0⟩ := beginSend_rinv st size h
    exact opSendRecvWindow_good fuel _ size hcond.1 hcond.2 hi0 hs0

end GrpcProofs.Lemmas.RetryLoop
