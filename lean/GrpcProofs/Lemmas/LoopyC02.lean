import GrpcProofs.Lemmas.LoopyWf
/-! Refinement invariant for C02: the writer's per-stream item queue against the byte-stream spec `Loopy.C02`. -/
namespace GrpcProofs.Loopy
open GrpcModel.Loopy GrpcModel.Loopy.C02

/-! ### functions of a stream's item queue -/

/-- bytes still queued -/
def pend : List Item → Nat
  | [] => 0
  | .data _ h d _ :: t => h + d + pend t
  | .trailers .. :: t => pend t

/-- the ghost offsets of the data items are consecutive, starting at `o` -/
def offsOk (o : Nat) : List Item → Prop
  | [] => True
  | .data off h d _ :: t => off = o ∧ offsOk (o + h + d) t
  | .trailers .. :: t => offsOk o t

/-- stream position at which the first queued trailers sit -/
def tPos (o : Nat) : List Item → Option Nat
  | [] => none
  | .data _ h d _ :: t => tPos (o + h + d) t
  | .trailers .. :: _ => some o

/-- stream position of the end of the first queued data item that carries endStream -/
def ePos (o : Nat) : List Item → Option Nat
  | [] => none
  | .data _ h d es :: t => if es then some (o + h + d) else ePos (o + h + d) t
  | .trailers .. :: t => ePos o t

def noData : List Item → Prop
  | [] => True
  | .data .. :: _ => False
  | .trailers .. :: t => noData t

/-- a data item with endStream is the last data item of the queue -/
def esLast : List Item → Prop
  | [] => True
  | .data _ _ _ es :: t => (es = true → noData t) ∧ esLast t
  | .trailers .. :: t => esLast t

theorem pend_append (l : List Item) (x : Item) : pend (l ++ [x]) = pend l + pend [x] := by
  induction l with
  | nil => simp [pend]
  | cons a t ih => cases a <;> simp [pend, ih] <;> omega

theorem offsOk_append_data (o : Nat) (l : List Item) (off h d : Nat) (es : Bool) :
    offsOk o (l ++ [.data off h d es]) ↔ offsOk o l ∧ off = o + pend l := by
  induction l generalizing o with
  | nil => simp [offsOk, pend]
  | cons a t ih =>
    cases a with
    | data off' h' d' es' =>
      simp only [List.cons_append, offsOk, pend, ih]
      constructor
      · rintro ⟨h1, h2, h3⟩; exact ⟨⟨h1, h2⟩, by omega⟩
      · rintro ⟨⟨h1, h2⟩, h3⟩; exact ⟨h1, h2, by omega⟩
    | trailers r c => simp only [List.cons_append, offsOk, pend, ih]

theorem offsOk_append_trailers (o : Nat) (l : List Item) (r : Bool) (c : Nat) :
    offsOk o (l ++ [.trailers r c]) ↔ offsOk o l := by
  induction l generalizing o with
  | nil => simp [offsOk]
  | cons a t ih => cases a <;> simp [offsOk, ih]

theorem tPos_append_data (o : Nat) (l : List Item) (off h d : Nat) (es : Bool) :
    tPos o (l ++ [.data off h d es]) = tPos o l := by
  induction l generalizing o with
  | nil => simp [tPos]
  | cons a t ih => cases a <;> simp [tPos, ih]

theorem tPos_append_trailers (o : Nat) (l : List Item) (r : Bool) (c : Nat) :
    tPos o (l ++ [.trailers r c]) = (tPos o l).or (some (o + pend l)) := by
  induction l generalizing o with
  | nil => simp [tPos, pend]
  | cons a t ih =>
    cases a with
    | data off' h' d' es' => simp only [List.cons_append, tPos, pend, ih]; congr 2; omega
    | trailers r' c' => simp [tPos]

theorem ePos_append_data (o : Nat) (l : List Item) (off h d : Nat) (es : Bool) :
    ePos o (l ++ [.data off h d es]) = (ePos o l).or (if es then some (o + pend l + h + d) else none) := by
  induction l generalizing o with
  | nil => cases es <;> simp [ePos, pend]
  | cons a t ih =>
    cases a with
    | data off' h' d' es' =>
      simp only [List.cons_append, ePos, pend]
      cases es' with
      | true => simp
      | false => simp only [Bool.false_eq_true, if_false, ih]; congr 2; cases es <;> simp <;> omega
    | trailers r' c' => simp only [List.cons_append, ePos, pend, ih]

theorem ePos_append_trailers (o : Nat) (l : List Item) (r : Bool) (c : Nat) :
    ePos o (l ++ [.trailers r c]) = ePos o l := by
  induction l generalizing o with
  | nil => simp [ePos]
  | cons a t ih => cases a <;> simp [ePos, ih]

theorem noData_append_trailers (l : List Item) (r : Bool) (c : Nat) : noData (l ++ [.trailers r c]) ↔ noData l := by
  induction l with
  | nil => simp [noData]
  | cons a t ih => cases a <;> simp [noData, ih]

theorem esLast_append_trailers (l : List Item) (r : Bool) (c : Nat) : esLast (l ++ [.trailers r c]) ↔ esLast l := by
  induction l with
  | nil => simp [esLast]
  | cons a t ih => cases a <;> simp [esLast, ih, noData_append_trailers]

theorem ePos_none_of_noData (o : Nat) {l : List Item} (h : noData l) : ePos o l = none := by
  induction l generalizing o with
  | nil => rfl
  | cons a t ih => cases a <;> simp_all [noData, ePos]

theorem noData_append_data (l : List Item) (off h d : Nat) (es : Bool) : ¬ noData (l ++ [.data off h d es]) := by
  induction l with
  | nil => simp [noData]
  | cons a t ih => cases a <;> simp [noData, ih]

/-- with no endStream item queued, appending any data item keeps `esLast` -/
theorem esLast_append_data {l : List Item} (o : Nat) (h1 : esLast l) (h2 : ePos o l = none) (off h d : Nat) (es : Bool) :
    esLast (l ++ [.data off h d es]) := by
  induction l generalizing o with
  | nil => simp [esLast, noData]
  | cons a t ih =>
    cases a with
    | data off' h' d' es' =>
      simp only [ePos] at h2
      cases es' with
      | true => simp at h2
      | false =>
        simp only [Bool.false_eq_true, if_false] at h2
        simp only [List.cons_append, esLast] at h1 ⊢
        exact ⟨by simp, ih _ h1.2 h2⟩
    | trailers r' c' =>
      simp only [ePos] at h2
      simp only [List.cons_append, esLast] at h1 ⊢
      exact ih _ h1 h2


/-! ### the refinement relation -/

/-- The spec's view `y` of a stream agrees with the writer's queue `x`. -/
structure QInv (x : OutStream) (y : SS) : Prop where
  wr : y.written = x.wr
  offs : offsOk y.sent x.items
  len : y.sent + pend x.items = x.wr
  tr : y.trailersAt = tPos y.sent x.items
  es : y.esAt = if y.esSent then some y.sent else ePos y.sent x.items
  last : esLast x.items
  done : y.esSent = true → noData x.items

theorem QInv.congr {x x' : OutStream} {y : SS} (h : QInv x y) (hi : x'.items = x.items) (hw : x'.wr = x.wr) : QInv x' y := by
  obtain ⟨a, b, c, d, e, f, g⟩ := h
  exact ⟨by rw [hw]; exact a, by rw [hi]; exact b, by rw [hi, hw]; exact c, by rw [hi]; exact d,
    by rw [hi]; exact e, by rw [hi]; exact f, by rw [hi]; exact g⟩

/-- `inKeys`: the stream is established in the writer. -/
def GoodAt (inKeys : Prop) (x : OutStream) (y : SS) : Prop :=
  (y.phase = .open ↔ inKeys) ∧ (inKeys → QInv x y)

/-- Every stream is either no longer judged (`wild`) or in agreement. -/
def OrdS (s : St) (ms : Nat → SS) : Prop := ∀ i, (ms i).wild = true ∨ GoodAt (i ∈ s.keys) (s.str i) (ms i)

theorem OrdS.congr {s s' : St} {ms : Nat → SS} (h : OrdS s ms) (hk : ∀ i, i ∈ s'.keys ↔ i ∈ s.keys)
    (hq : ∀ i, (s'.str i).items = (s.str i).items ∧ (s'.str i).wr = (s.str i).wr) : OrdS s' ms := by
  intro i
  rcases h i with hw | ⟨h1, h2⟩
  · exact Or.inl hw
  · refine Or.inr ⟨by rw [hk]; exact h1, fun hi => (h2 ((hk i).mp hi)).congr (hq i).1 (hq i).2⟩

theorem OrdS.update {s s' : St} {ms ms' : Nat → SS} (h : OrdS s ms) (id : Nat)
    (hk : ∀ i, i ≠ id → (i ∈ s'.keys ↔ i ∈ s.keys)) (hs : ∀ i, i ≠ id → s'.str i = s.str i)
    (hm : ∀ i, i ≠ id → ms' i = ms i)
    (hid : (ms' id).wild = true ∨ GoodAt (id ∈ s'.keys) (s'.str id) (ms' id)) : OrdS s' ms' := by
  intro i
  by_cases hi : i = id
  · subst hi; exact hid
  · rw [hm i hi, hs i hi]
    rcases h i with hw | ⟨h1, h2⟩
    · exact Or.inl hw
    · exact Or.inr ⟨by rw [hk i hi]; exact h1, fun hh => h2 ((hk i hi).mp hh)⟩

/-! ### evaluating the monitor -/

/-- Frames the C02 spec does not judge. -/
def Inert2 : Out → Prop
  | .data .. | .headers .. | .rst .. => False
  | _ => True

theorem frames_inert (m : Mon) (op : Op) {os : List Out} (h : ∀ o ∈ os, Inert2 o) :
    ∃ jt, m.frames op os = ({ m with justTrailers := jt }, none) := by
  induction os generalizing m with
  | nil => exact ⟨m.justTrailers, rfl⟩
  | cons o os ih =>
    have ho := h o (List.mem_cons_self)
    have hrest := fun o' ho' => h o' (List.mem_cons_of_mem _ ho')
    cases o <;> simp only [Inert2] at ho <;> simp only [Mon.frames, Mon.frame]
    all_goals first
      | exact ih m hrest
      | (obtain ⟨jt, hj⟩ := ih { m with justTrailers := none } hrest; exact ⟨jt, hj⟩)

theorem set_str_same (m : Mon) (id : Nat) (x : SS) : (m.set id x).str id = x := by simp [Mon.set]
theorem set_str_ne (m : Mon) {id i : Nat} (x : SS) (h : i ≠ id) : (m.set id x).str i = m.str i := by simp [Mon.set, h]


theorem post_jt (m : Mon) (jt : Option Nat) (op : Op) :
    (({ m with justTrailers := jt } : Mon).post op).str = (m.post op).str := by
  cases op <;> simp only [Mon.post]
  split <;> rfl

/-- A step all of whose outputs are inert for the spec. -/
theorem mstep_inert (m : Mon) {op : Op} {outs : List Out} (hout : op.outside = false) (hin : ∀ o ∈ outs, Inert2 o) :
    ∃ m', mstep m op outs = (m', none) ∧ m'.str = ((m.pre op outs).post op).str := by
  obtain ⟨jt, hj⟩ := frames_inert ({ m.pre op outs with justTrailers := none }) op hin
  refine ⟨({ m.pre op outs with justTrailers := jt } : Mon).post op, ?_, post_jt _ _ _⟩
  simp only [mstep, hout, Bool.false_eq_true, if_false, hj]

theorem qinv_fresh : QInv {} { phase := .open } := by
  refine ⟨rfl, trivial, rfl, rfl, rfl, trivial, ?_⟩
  intro h; cases h

/-- Opening a stream in the spec while the writer (a) leaves an established stream alone or (b) establishes a fresh one. -/
theorem ord_open {s : St} {m : Mon} (h : OrdS s m.str) (id : Nat) (s' : St)
    (hs' : (id ∈ s.keys ∧ s' = s) ∨ (id ∉ s.keys ∧ s' = { s with keys := s.keys ++ [id] }.setStr id {})) :
    OrdS s' (openStream m id).str := by
  have hms : ∀ i, i ≠ id → (openStream m id).str i = m.str i := by
    intro i hi; unfold openStream; simp only; split
    · rfl
    · split <;> exact set_str_ne _ _ hi
  rcases hs' with ⟨hk, rfl⟩ | ⟨hk, rfl⟩
  · refine h.update id (fun _ _ => Iff.rfl) (fun _ _ => rfl) hms ?_
    unfold openStream; simp only
    rcases h id with hw | ⟨h1, _⟩
    · simp [hw]
    · by_cases hw : (m.str id).wild = true
      · simp [hw]
      · have : (m.str id).phase ≠ .idle := by rw [h1.mpr hk]; decide
        simp [hw, this, set_str_same]
  · refine h.update id ?_ ?_ hms ?_
    · intro i hi; simp [hi]
    · intro i hi; exact setStr_str_ne _ _ hi
    · unfold openStream; simp only
      rcases h id with hw | ⟨h1, _⟩
      · simp [hw]
      · by_cases hw : (m.str id).wild = true
        · simp [hw]
        · simp only [hw, Bool.false_eq_true, if_false]
          by_cases hp : (m.str id).phase = .idle
          · simp only [hp, if_true, set_str_same]
            refine Or.inr ⟨by simp, fun _ => ?_⟩
            simp only [setStr_str_same]; exact qinv_fresh
          · simp [hp, set_str_same]

theorem registerStream_ord {s : St} {m : Mon} (h : OrdS s m.str) (id : Nat) (hout : (Op.register id).outside = false) :
    ∃ m', mstep m (.register id) (registerStream s id).outs = (m', none) ∧ OrdS (registerStream s id).st m'.str := by
  have hin : ∀ o ∈ (registerStream s id).outs, Inert2 o := by
    unfold registerStream; split <;> simp [Inert2]
  obtain ⟨m', h1, h2⟩ := mstep_inert m hout hin
  refine ⟨m', h1, ?_⟩
  rw [h2]
  simp only [Mon.pre, Mon.post]
  apply ord_open h
  unfold registerStream
  split
  · rename_i hk; exact Or.inl ⟨hk, rfl⟩
  · rename_i hk; exact Or.inr ⟨hk, rfl⟩


@[simp] theorem frames_cb (m : Mon) (op : Op) (k : Cb) (i : Nat) (os : List Out) :
    m.frames op (.cb k i :: os) = m.frames op os := by
  simp [Mon.frames, Mon.frame]

/-- the monitor with `justTrailers` cleared -/
def clr (m : Mon) : Mon := { str := m.str, justTrailers := none }

@[simp] theorem clr_str (m : Mon) : (clr m).str = m.str := rfl

theorem mstep_unfold (m : Mon) {op : Op} (outs : List Out) (hout : op.outside = false) :
    mstep m op outs = match (clr (m.pre op outs)).frames op outs with
      | (m1, some e) => (m1, some e)
      | (m1, none) => (m1.post op, none) := by
  simp only [mstep, hout, Bool.false_eq_true, if_false]; rfl

theorem frames_cons_ok {m m1 : Mon} {op : Op} {o : Out} (os : List Out) (h : m.frame op o = (m1, none)) :
    m.frames op (o :: os) = m1.frames op os := by
  simp only [Mon.frames, h]

theorem frame_headers_false {m : Mon} (op : Op) {id : Nat} (fr : List Nat)
    (hx : (m.str id).wild = true ∨ (m.str id).phase = .open) :
    m.frame op (.headers id false fr) = (clr m, none) := by
  simp only [Mon.frame, clr]
  rcases hx with hx | hx
  · simp [hx]
  · by_cases hw : (m.str id).wild = true
    · simp [hw]
    · simp [hw, hx]

theorem ord_phase_open {s : St} {ms : Nat → SS} (h : OrdS s ms) {id : Nat} (hk : id ∈ s.keys) :
    (ms id).wild = true ∨ (ms id).phase = .open := by
  rcases h id with hw | ⟨h1, _⟩
  · exact Or.inl hw
  · exact Or.inr (h1.mpr hk)

theorem hasHeadersFor_writeHeader (id : Nat) (es : Bool) (hb : Nat) (ow : Bool) (pre : List Out) :
    hasHeadersFor id (pre ++ writeHeader id es hb ow) = true := by
  simp [hasHeadersFor, writeHeader]

theorem clientHeader_ord {s : St} {m : Mon} (h : OrdS s m.str) (id hb : Nat) (ie : Bool)
    (hout : (Op.clientHeaders id hb ie).outside = false) :
    ∃ m', mstep m (.clientHeaders id hb ie) (clientHeader s id hb ie).outs = (m', none) ∧
      OrdS (clientHeader s id hb ie).st m'.str := by
  unfold clientHeader
  split
  · obtain ⟨m', h1, h2⟩ := mstep_inert m hout (outs := [.cb .orphaned id]) (by simp [Inert2])
    exact ⟨m', h1, by rw [h2]; simpa [Mon.pre, Mon.post, hasHeadersFor] using h⟩
  split
  · obtain ⟨m', h1, h2⟩ := mstep_inert m hout (outs := [.cb .initStream id]) (by simp [Inert2])
    exact ⟨m', h1, by rw [h2]; simpa [Mon.pre, Mon.post, hasHeadersFor] using h⟩
  split
  · obtain ⟨m', h1, h2⟩ := mstep_inert m hout (outs := [.unmodelled]) (by simp [Inert2])
    exact ⟨m', h1, by rw [h2]; simpa [Mon.pre, Mon.post, hasHeadersFor] using h⟩
  · rename_i hk
    have hh := hasHeadersFor_writeHeader id false hb true [.cb .initStream id]
    simp only [List.singleton_append] at hh
    have ho := ord_open (m := m) h id ({ s with keys := s.keys ++ [id] }.setStr id {}) (Or.inr ⟨hk, rfl⟩)
    have hopen := ord_phase_open ho (id := id) (by simp)
    have hpre : m.pre (.clientHeaders id hb ie) (.cb .initStream id :: writeHeader id false hb true) = openStream m id := by
      simp only [Mon.pre, hh, if_true]
    refine ⟨clr (clr (openStream m id)), ?_, ho⟩
    rw [mstep_unfold _ _ hout, hpre]
    simp only [writeHeader, if_true, List.singleton_append, frames_cb]
    rw [frames_cons_ok _ (frame_headers_false _ _ (by simpa using hopen))]
    simp [Mon.frames, Mon.post]


/-! ### data -/

theorem preprocessData_frame (s : St) (id hl d : Nat) (es : Bool) :
    (preprocessData s id hl d es).st.keys = s.keys ∧ (preprocessData s id hl d es).outs = [] ∧
    (∀ i, i ≠ id → (preprocessData s id hl d es).st.str i = s.str i) ∧
    (id ∉ s.keys → (preprocessData s id hl d es).st.str id = s.str id) ∧
    (id ∈ s.keys → ((preprocessData s id hl d es).st.str id).items = (s.str id).items ++ [.data (s.str id).wr hl d es] ∧
      ((preprocessData s id hl d es).st.str id).wr = (s.str id).wr + hl + d) := by
  unfold preprocessData
  split
  · rename_i hk; exact ⟨rfl, rfl, fun _ _ => rfl, fun _ => rfl, fun h => absurd h hk⟩
  · rename_i hk
    simp only [Decidable.not_not] at hk
    simp only
    split
    · exact ⟨rfl, rfl, fun i hi => by simp [St.setStr, hi], fun h => absurd hk h, fun _ => by simp⟩
    · exact ⟨rfl, rfl, fun i hi => by simp [St.setStr, hi], fun h => absurd hk h, fun _ => by simp⟩

theorem preprocessData_ord {s : St} {m : Mon} (h : OrdS s m.str) (id hl d : Nat) (es : Bool)
    (hout : (Op.data id hl d es).outside = false) :
    ∃ m', mstep m (.data id hl d es) (preprocessData s id hl d es).outs = (m', none) ∧
      OrdS (preprocessData s id hl d es).st m'.str := by
  obtain ⟨hkeys, houts, hne, hnk, hik⟩ := preprocessData_frame s id hl d es
  obtain ⟨m', h1, h2⟩ := mstep_inert m hout (outs := (preprocessData s id hl d es).outs) (by simp [houts])
  refine ⟨m', h1, ?_⟩
  rw [h2, houts]
  have hms : ∀ i, i ≠ id → ((m.pre (.data id hl d es) []).post (.data id hl d es)).str i = m.str i := by
    intro i hi
    simp only [Mon.pre, Mon.post]
    split
    · split <;> exact set_str_ne _ _ hi
    · rfl
  refine h.update id (fun i _ => by rw [hkeys]) hne hms ?_
  simp only [Mon.pre, Mon.post]
  rcases h id with hw | ⟨h1', h2'⟩
  · left
    split
    · split <;> simp [set_str_same, hw]
    · exact hw
  · by_cases hk : id ∈ s.keys
    · have hopen := h1'.mpr hk
      have q := h2' hk
      obtain ⟨hit, hwr⟩ := hik hk
      simp only [hopen, if_true]
      by_cases hes : (m.str id).esAt.isSome = true
      · left; simp [hes, set_str_same]
      · right
        simp only [hes, Bool.false_eq_true, if_false, set_str_same]
        have hnone : (m.str id).esAt = none := by simpa using hes
        have hq := q.es
        rw [hnone] at hq
        have hsent : (m.str id).esSent = false := by
          cases hb : (m.str id).esSent
          · rfl
          · rw [hb] at hq; simp at hq
        rw [hsent] at hq
        simp only [Bool.false_eq_true, if_false] at hq
        refine ⟨by rw [hkeys]; simp only [hk], fun _ => ?_⟩
        have hlen := q.len
        have hwr' := q.wr
        refine ⟨?_, ?_, ?_, ?_, ?_, ?_, ?_⟩
        · simp only; rw [hwr, hwr']
        · simp only; rw [hit, offsOk_append_data]; exact ⟨q.offs, by omega⟩
        · simp only; rw [hit, pend_append, hwr]; simp only [pend]; omega
        · simp only; rw [hit, tPos_append_data]; exact q.tr
        · simp only [hsent, Bool.false_eq_true, if_false]
          rw [hit, ePos_append_data, ← hq]
          cases es <;> simp
          omega
        · rw [hit]; exact esLast_append_data _ q.last hq.symm _ _ _ _
        · simp only [hsent]; intro hh; cases hh
    · have hnopen : (m.str id).phase ≠ .open := fun e => hk (h1'.mp e)
      right
      simp only [hnopen, if_false]
      rw [hnk hk, hkeys]
      exact ⟨h1', h2'⟩


/-! ### cleanup -/

theorem removeStream_frame (s : St) (id : Nat) :
    (∀ i, i ≠ id → (i ∈ (removeStream s id).keys ↔ i ∈ s.keys)) ∧ id ∉ (removeStream s id).keys ∧
    (removeStream s id).str = s.str := by
  unfold removeStream
  split
  · refine ⟨fun i hi => by simp [hi], by simp, rfl⟩
  · rename_i hk; exact ⟨fun _ _ => Iff.rfl, hk, rfl⟩

theorem post_clr (m : Mon) (op : Op) : ((clr m).post op).str = (m.post op).str := by
  cases op <;> simp only [Mon.post] <;> try rfl
  rename_i id _ _
  by_cases hp : (m.str id).phase = .open
  · simp only [clr_str, hp, if_true]; rfl
  · simp only [clr_str, hp, if_false]

theorem frame_rst_cleanup (m : Mon) (id : Nat) (r : Bool) (c c' : Nat) :
    m.frame (.cleanup id r c) (.rst id c') = (clr m, none) := by
  simp only [Mon.frame, clr, isCleanupOf, beq_self_eq_true, true_or, if_true]
  split <;> rfl

theorem frame_rst_jt {m : Mon} (op : Op) {id : Nat} (c : Nat) (h : m.justTrailers = some id) :
    m.frame op (.rst id c) = (clr m, none) := by
  simp only [Mon.frame, clr, h, or_true, if_true]
  split <;> rfl

theorem cleanup_ord {s : St} {m : Mon} (h : OrdS s m.str) (id : Nat) (rst : Bool) (code : Nat)
    (hout : (Op.cleanup id rst code).outside = false) :
    ∃ m', mstep m (.cleanup id rst code) (cleanupStream s id rst code).outs = (m', none) ∧
      OrdS (cleanupStream s id rst code).st m'.str := by
  obtain ⟨hk', hnk', hstr'⟩ := removeStream_frame s id
  -- the monitor's result
  have hm : ∃ m', mstep m (.cleanup id rst code) (cleanupStream s id rst code).outs = (m', none) ∧
      m'.str = ((m.pre (.cleanup id rst code) []).post (.cleanup id rst code)).str := by
    rw [mstep_unfold _ _ hout]
    simp only [cleanupStream, frames_cb]
    have hpre : ∀ outs, m.pre (.cleanup id rst code) outs = m.pre (.cleanup id rst code) [] := fun _ => rfl
    rw [hpre]
    cases rst with
    | false => simp only [Bool.false_eq_true, if_false, Mon.frames]; exact ⟨_, rfl, by rw [post_clr]⟩
    | true =>
      simp only [if_true]
      rw [frames_cons_ok _ (frame_rst_cleanup _ id true code code)]
      simp only [Mon.frames]
      exact ⟨_, rfl, by rw [post_clr, post_clr]⟩
  obtain ⟨m', h1, h2⟩ := hm
  refine ⟨m', h1, ?_⟩
  rw [h2]
  have hms : ∀ i, i ≠ id → ((m.pre (.cleanup id rst code) []).post (.cleanup id rst code)).str i = m.str i := by
    intro i hi
    simp only [Mon.pre, Mon.post]
    by_cases hp : (m.str id).phase = .open
    · simp [hp, set_str_ne _ _ hi]
    · simp only [hp, if_false]
      cases rst
      · simp [hp]
      · simp only [if_true, set_str_same, hp, if_false]; exact set_str_ne _ _ hi
  refine h.update id hk' (fun i _ => by simp only [cleanupStream, hstr']) hms ?_
  simp only [Mon.pre, Mon.post, cleanupStream, hstr']
  rcases h id with hw | ⟨h1', h2'⟩
  · left
    by_cases hp : (m.str id).phase = .open
    · simp [hp, set_str_same, hw]
    · cases rst <;> simp [hp, set_str_same, hw]
  · by_cases hp : (m.str id).phase = .open
    · right
      simp only [hp, if_true, set_str_same]
      exact ⟨by simp [hnk'], fun hh => absurd hh hnk'⟩
    · have hk : id ∉ s.keys := fun e => hp (h1'.mpr e)
      have hrm : removeStream s id = s := by simp [removeStream, hk]
      cases rst
      · right
        simp only [hp, if_false, Bool.false_eq_true]
        rw [hrm]; exact ⟨h1', h2'⟩
      · left; simp [hp, set_str_same]


/-! ### trailers -/

/-- The spec's stream record after its trailers went out. -/
def closeSS (x : SS) : SS := if x.wild then x else { x with phase := .closed }

theorem frame_trailers {m : Mon} {op : Op} {id : Nat} (fr : List Nat) (hop : isEarlyAbortOf op id = false)
    (hx : (m.str id).wild = true ∨ ((m.str id).phase = .open ∧ (m.str id).trailersAt = some (m.str id).sent)) :
    ∃ m1, m.frame op (.headers id true fr) = (m1, none) ∧ m1.str = (m.set id (closeSS (m.str id))).str ∧
      ((m.str id).wild = false → m1.justTrailers = some id) := by
  simp only [Mon.frame, hop, closeSS]
  by_cases hw : (m.str id).wild = true
  · refine ⟨_, by simp only [hw, if_true]; rfl, ?_, by simp [hw]⟩
    funext i; by_cases hi : i = id
    · subst hi; simp [Mon.set, hw]
    · simp [Mon.set, hi]
  · rcases hx with hx | ⟨h1, h2⟩
    · exact absurd hx hw
    · simp only [hw, Bool.false_eq_true, if_false, h1, h2, ne_eq, not_true_eq_false, Bool.not_true]
      exact ⟨_, rfl, rfl, fun _ => rfl⟩

/-- The frames of a trailers emission: `writeHeader id true …` followed by the outputs of the attached `cleanupStream`. -/
theorem frames_trailers {m : Mon} {op : Op} {id : Nat} (s : St) (hb : Nat) (rst : Bool) (code : Nat)
    (hop : isEarlyAbortOf op id = false)
    (hx : (m.str id).wild = true ∨ ((m.str id).phase = .open ∧ (m.str id).trailersAt = some (m.str id).sent)) :
    ∃ m1, m.frames op (writeHeader id true hb true ++ (cleanupStream s id rst code).outs) = (m1, none) ∧
      m1.str = (m.set id (closeSS (m.str id))).str := by
  obtain ⟨m1, hf, hs, hj⟩ := frame_trailers (headerFrags maxFrameLen hb) hop hx
  simp only [writeHeader, if_true, List.cons_append, List.nil_append, frames_cb, cleanupStream]
  rw [frames_cons_ok _ hf]
  simp only [frames_cb]
  cases rst with
  | false => simp only [Bool.false_eq_true, if_false, Mon.frames]; exact ⟨m1, rfl, hs⟩
  | true =>
    simp only [if_true]
    by_cases hw : (m.str id).wild = true
    · have hw1 : (m1.str id).wild = true := by rw [hs]; simp [Mon.set, closeSS, hw]
      have : m1.frame op (.rst id code) = (clr m1, none) := by
        simp only [Mon.frame, clr, hw1, if_true]
      rw [frames_cons_ok _ this]
      exact ⟨clr m1, rfl, hs⟩
    · have := frame_rst_jt (m := m1) op code (hj (by simpa using hw))
      rw [frames_cons_ok _ this]
      exact ⟨clr m1, rfl, hs⟩


/-- after its trailers went out the stream is gone from the writer and closed in the spec -/
theorem ord_closed {s : St} {ms ms' : Nat → SS} (h : OrdS s ms) (id : Nat) (hm : ∀ i, i ≠ id → ms' i = ms i)
    (hy : (ms' id).wild = true ∨ (ms' id).phase ≠ .open) : OrdS (removeStream s id) ms' := by
  obtain ⟨hk', hnk', hstr'⟩ := removeStream_frame s id
  refine h.update id hk' (fun i _ => by rw [hstr']) hm ?_
  rcases hy with hy | hy
  · exact Or.inl hy
  · exact Or.inr ⟨by simp [hy, hnk'], fun hh => absurd hh hnk'⟩

theorem closeSS_closed (x : SS) : (closeSS x).wild = true ∨ (closeSS x).phase ≠ .open := by
  unfold closeSS
  by_cases hw : x.wild = true
  · simp [hw]
  · right; simp [hw]

theorem serverHeader_ord {s : St} {m : Mon} (hwf : Wf s) (h : OrdS s m.str) (id : Nat) (es : Bool) (hb : Nat) (rst : Bool)
    (code : Nat) (hout : (Op.serverHeaders id es hb rst code).outside = false) :
    ∃ m', mstep m (.serverHeaders id es hb rst code) (serverHeader s id es hb rst code).outs = (m', none) ∧
      OrdS (serverHeader s id es hb rst code).st m'.str := by
  unfold serverHeader
  split
  · -- the stream is not established: nothing happens
    rename_i hk
    obtain ⟨m', h1, h2⟩ := mstep_inert m hout (outs := []) (by simp)
    refine ⟨m', h1, ?_⟩
    rw [h2]
    cases es with
    | false => simpa [Mon.pre, Mon.post] using h
    | true =>
      simp only [Mon.pre, Mon.post]
      rcases h id with hw | ⟨h1', _⟩
      · refine h.update id (fun _ _ => Iff.rfl) (fun _ _ => rfl) ?_ ?_
        · intro i hi; split
          · split <;> exact set_str_ne _ _ hi
          · rfl
        · left; split
          · split <;> simp [set_str_same, hw]
          · exact hw
      · have : (m.str id).phase ≠ .open := fun e => hk (h1'.mp e)
        simpa [this] using h
  rename_i hk
  simp only [Decidable.not_not] at hk
  split
  · -- response headers
    rename_i hes
    have hes' : es = false := by simpa using hes
    subst hes'
    have hopen := ord_phase_open h hk
    refine ⟨clr (clr m), ?_, h⟩
    rw [mstep_unfold _ _ hout]
    simp only [Mon.pre, writeHeader, if_true, List.cons_append, List.nil_append, frames_cb]
    rw [frames_cons_ok _ (frame_headers_false _ _ (by simpa using hopen))]
    simp [Mon.frames, Mon.post]
  rename_i hes
  have hes' : es = true := by simpa using hes
  subst hes'
  simp only
  split
  · -- trailers queued behind data
    rename_i hne
    obtain ⟨m', h1, h2⟩ := mstep_inert m hout (outs := []) (by simp)
    refine ⟨m', h1, ?_⟩
    rw [h2]
    simp only [Mon.pre, Mon.post]
    refine h.update id (fun _ _ => Iff.rfl) (fun i hi => setStr_str_ne _ _ hi) ?_ ?_
    · intro i hi; split
      · split <;> exact set_str_ne _ _ hi
      · rfl
    · rcases h id with hw | ⟨h1', h2'⟩
      · left; split
        · split <;> simp [set_str_same, hw]
        · exact hw
      · have hopen := h1'.mpr hk
        have q := h2' hk
        simp only [hopen, if_true]
        by_cases hts : (m.str id).trailersAt.isSome = true
        · left; simp [hts, set_str_same]
        · right
          have htn : (m.str id).trailersAt = none := by simpa using hts
          simp only [hts, Bool.false_eq_true, if_false, set_str_same, setStr_keys, setStr_str_same]
          refine ⟨by simp [hk], fun _ => ?_⟩
          have htr := q.tr
          rw [htn] at htr
          refine ⟨q.wr, ?_, ?_, ?_, ?_, ?_, ?_⟩
          · simp only; rw [offsOk_append_trailers]; exact q.offs
          · simp only; rw [pend_append]; simp only [pend]; exact q.len
          · simp only; rw [tPos_append_trailers, ← htr]; simp only [Option.or]; congr 1; have := q.len; have := q.wr; omega
          · simp only; rw [ePos_append_trailers]; exact q.es
          · simp only; rw [esLast_append_trailers]; exact q.last
          · simp only; rw [noData_append_trailers]; exact q.done
  · -- trailers at once (trailers-only response, or everything has been sent)
    rename_i hemp
    simp only [Decidable.not_not] at hemp
    have hnil := (hwf.emptyIff id hk).mp hemp
    obtain ⟨mp, hmp⟩ : ∃ mp, mp = m.pre (.serverHeaders id true hb rst code)
      (writeHeader id true hb true ++ (cleanupStream s id rst code).outs) := ⟨_, rfl⟩
    have hx : ((clr mp).str id).wild = true ∨
        (((clr mp).str id).phase = .open ∧ ((clr mp).str id).trailersAt = some ((clr mp).str id).sent) := by
      simp only [clr_str, hmp, Mon.pre]
      rcases h id with hw | ⟨h1', h2'⟩
      · left; split
        · split <;> simp [set_str_same, hw]
        · exact hw
      · have hopen := h1'.mpr hk
        have q := h2' hk
        have htr := q.tr
        rw [hnil] at htr
        simp only [tPos] at htr
        have hlen := q.len
        rw [hnil] at hlen
        simp only [pend] at hlen
        right
        simp [hopen, htr, set_str_same, q.wr]
        omega
    obtain ⟨m1, hf, hs⟩ := frames_trailers (op := .serverHeaders id true hb rst code) s hb rst code (by simp [isEarlyAbortOf]) hx
    refine ⟨m1.post (.serverHeaders id true hb rst code), ?_, ?_⟩
    · rw [mstep_unfold _ _ hout, ← hmp, hf]
    · simp only [Mon.post, hs, cleanupStream]
      refine ord_closed h id ?_ ?_
      · intro i hi
        rw [set_str_ne _ _ hi, clr_str, hmp]
        simp only [Mon.pre]
        split
        · split <;> exact set_str_ne _ _ hi
        · rfl
      · rw [set_str_same]; exact closeSS_closed _


/-! ### earlyAbort -/

theorem earlyAbort_ord {s : St} {m : Mon} (h : OrdS s m.str) (id : Nat) (rst : Bool) (hb : Nat)
    (hout : (Op.earlyAbort id rst hb).outside = false) :
    ∃ m', mstep m (.earlyAbort id rst hb) (earlyAbort s id rst hb).outs = (m', none) ∧
      OrdS (earlyAbort s id rst hb).st m'.str := by
  have hpre_ne : ∀ outs i, i ≠ id → ((m.pre (.earlyAbort id rst hb) outs).str i) = m.str i := by
    intro outs i hi; simp only [Mon.pre]; split
    · rfl
    · exact set_str_ne _ _ hi
  have hpre_id : ∀ outs, ((m.pre (.earlyAbort id rst hb) outs).str id).wild = true ∨
      (((m.pre (.earlyAbort id rst hb) outs).str id).phase = .idle ∧ id ∉ s.keys) := by
    intro outs; simp only [Mon.pre]
    by_cases hp : (m.str id).phase = .idle
    · simp only [hp, if_true]
      rcases h id with hw | ⟨h1, _⟩
      · exact Or.inl hw
      · exact Or.inr ⟨trivial, fun hk => by have := h1.mpr hk; rw [hp] at this; cases this⟩
    · left; simp [hp, set_str_same]
  unfold earlyAbort
  split
  · obtain ⟨m', h1, h2⟩ := mstep_inert m hout (outs := []) (by simp)
    refine ⟨m', h1, ?_⟩
    rw [h2]
    simp only [Mon.post]
    refine h.update id (fun _ _ => Iff.rfl) (fun _ _ => rfl) (hpre_ne []) ?_
    rcases hpre_id [] with hw | ⟨hp, hk⟩
    · exact Or.inl hw
    · exact Or.inr ⟨by simp [hp, hk], fun hh => absurd hh hk⟩
  · obtain ⟨mp, hmp⟩ : ∃ mp, mp = m.pre (.earlyAbort id rst hb)
      (writeHeader id true hb false ++ (if rst = true then [Out.rst id 0] else [])) := ⟨_, rfl⟩
    have hfr : ∃ m1, (clr mp).frame (.earlyAbort id rst hb) (.headers id true (headerFrags maxFrameLen hb)) = (m1, none) ∧
        (∀ i, i ≠ id → m1.str i = mp.str i) ∧ ((m1.str id).wild = true ∨ ((m1.str id).phase = .closed ∧ id ∉ s.keys ∧
          m1.justTrailers = some id)) := by
      simp only [Mon.frame, clr_str, isEarlyAbortOf, beq_self_eq_true, if_true]
      rcases (hmp ▸ hpre_id _ : (mp.str id).wild = true ∨ _) with hw | ⟨hp, hk⟩
      · refine ⟨clr mp, by simp only [hw, if_true]; rfl, fun _ _ => rfl, Or.inl hw⟩
      · by_cases hw : (mp.str id).wild = true
        · refine ⟨clr mp, by simp only [hw, if_true]; rfl, fun _ _ => rfl, Or.inl hw⟩
        · simp only [hw, Bool.false_eq_true, if_false, Bool.not_true]
          refine ⟨_, rfl, fun i hi => by simp [Mon.set, clr, hi], Or.inr ⟨by simp [Mon.set], hk, rfl⟩⟩
    obtain ⟨m1, hf, hne1, hid1⟩ := hfr
    have hfin : ∃ m2, (clr mp).frames (.earlyAbort id rst hb)
        (writeHeader id true hb false ++ (if rst = true then [Out.rst id 0] else [])) = (m2, none) ∧ m2.str = m1.str := by
      simp only [writeHeader, Bool.false_eq_true, if_false, List.nil_append, List.cons_append]
      rw [frames_cons_ok _ hf]
      cases rst with
      | false => simp only [Bool.false_eq_true, if_false, Mon.frames]; exact ⟨m1, rfl, rfl⟩
      | true =>
        simp only [if_true]
        have : m1.frame (.earlyAbort id true hb) (.rst id 0) = (clr m1, none) := by
          rcases hid1 with hw | ⟨_, _, hj⟩
          · simp only [Mon.frame, clr, hw, if_true]
          · exact frame_rst_jt _ _ hj
        rw [frames_cons_ok _ this]
        exact ⟨clr m1, rfl, rfl⟩
    obtain ⟨m2, hf2, hs2⟩ := hfin
    refine ⟨m2.post (.earlyAbort id rst hb), ?_, ?_⟩
    · rw [mstep_unfold _ _ hout, ← hmp, hf2]
    · simp only [Mon.post, hs2]
      refine h.update id (fun _ _ => Iff.rfl) (fun _ _ => rfl) ?_ ?_
      · intro i hi; rw [hne1 i hi, hmp]; exact hpre_ne _ i hi
      · rcases hid1 with hw | ⟨hp, hk, _⟩
        · exact Or.inl hw
        · exact Or.inr ⟨by simp [hp, hk], fun hh => absurd hh hk⟩


/-! ### processData -/

theorem frames_append {m m1 : Mon} {op : Op} {a : List Out} (b : List Out) (h : m.frames op a = (m1, none)) :
    m.frames op (a ++ b) = m1.frames op b := by
  induction a generalizing m with
  | nil => simp only [Mon.frames] at h; cases h; rfl
  | cons o os ih =>
    simp only [List.cons_append, Mon.frames] at h ⊢
    rcases hf : m.frame op o with ⟨m2, _ | e⟩
    · rw [hf] at h; simp only at h ⊢; exact ih h
    · rw [hf] at h; simp at h

theorem usaw_ord {s : St} {m0 m1 : Mon} {op : Op} (h : OrdS s m1.str) {id : Nat} (hk : id ∈ s.keys) (hb : Nat)
    (pre : List Out) (hpre : m0.frames op pre = (m1, none)) (hop : isEarlyAbortOf op id = false) :
    ∃ m2, m0.frames op (updateStreamAfterWrite s id hb pre).outs = (m2, none) ∧
      OrdS (updateStreamAfterWrite s id hb pre).st m2.str := by
  unfold updateStreamAfterWrite
  simp only
  split
  · exact ⟨m1, hpre, h.congr (fun _ => Iff.rfl) (fun i => by by_cases hi : i = id <;> simp [St.setStr, hi])⟩
  · rename_i rst code tl hit
    have hx : (m1.str id).wild = true ∨ ((m1.str id).phase = .open ∧ (m1.str id).trailersAt = some (m1.str id).sent) := by
      rcases h id with hw | ⟨h1, h2⟩
      · exact Or.inl hw
      · have q := h2 hk
        have := q.tr
        rw [hit] at this
        exact Or.inr ⟨h1.mpr hk, this⟩
    obtain ⟨m2, hf, hs⟩ := frames_trailers (op := op) s hb rst code hop hx
    refine ⟨m2, ?_, ?_⟩
    · rw [List.append_assoc, frames_append _ hpre]; exact hf
    · simp only [cleanupStream, hs]
      refine ord_closed h id (fun i hi => set_str_ne _ _ hi) ?_
      rw [set_str_same]; exact closeSS_closed _
  · split
    · exact ⟨m1, hpre, h.congr (fun _ => Iff.rfl) (fun i => by by_cases hi : i = id <;> simp [St.setStr, hi])⟩
    · exact ⟨m1, hpre, h.congr (fun _ => Iff.rfl) (fun _ => ⟨rfl, rfl⟩)⟩

/-- The spec's stream record after a DATA frame of `size` bytes with END_STREAM flag `es`. -/
def sendSS (y : SS) (size : Nat) (es : Bool) : SS := if y.wild then y else { y with sent := y.sent + size, esSent := es }

theorem frame_data {s : St} {m : Mon} (h : OrdS s m.str) {id off hl d : Nat} {es : Bool} {tl : List Item} (hk : id ∈ s.keys)
    (hitems : (s.str id).items = .data off hl d es :: tl) (hSize dSize : Nat) (hh : hSize ≤ hl) (hd : dSize ≤ d) (op : Op) :
    m.frame op (.data id off (hSize + dSize) (es && (hl + d - hSize - dSize == 0))) =
      (clr (m.set id (sendSS (m.str id) (hSize + dSize) (es && (hl + d - hSize - dSize == 0)))), none) := by
  simp only [Mon.frame, sendSS]
  rcases h id with hw | ⟨h1, h2⟩
  · simp only [hw, if_true]
    congr 1
    simp only [clr, Mon.set]
    congr 1; funext i; by_cases hi : i = id
    · subst hi; simp
    · simp [hi]
  · by_cases hw : (m.str id).wild = true
    · simp only [hw, if_true]
      congr 1
      simp only [clr, Mon.set]
      congr 1; funext i; by_cases hi : i = id
      · subst hi; simp
      · simp [hi]
    · have q := h2 hk
      have hopen := h1.mpr hk
      have hoffs := q.offs
      rw [hitems] at hoffs
      simp only [offsOk] at hoffs
      have hlen := q.len
      rw [hitems] at hlen
      simp only [pend] at hlen
      have hsent : (m.str id).esSent = false := by
        cases hb : (m.str id).esSent
        · rfl
        · have := q.done hb; rw [hitems] at this; simp [noData] at this
      have hes := q.es
      rw [hsent, hitems] at hes
      simp only [Bool.false_eq_true, if_false, ePos] at hes
      have hwr := q.wr
      simp only [hw, Bool.false_eq_true, if_false, hopen, ne_eq, not_true_eq_false, hsent]
      have c1 : ¬ (off ≠ (m.str id).sent) := by simp [hoffs.1]
      have c2 : ¬ ((m.str id).sent + (hSize + dSize) > (m.str id).written) := by omega
      have c3 : ¬ ((es && (hl + d - hSize - dSize == 0)) = true ∧ (m.str id).esAt ≠ some ((m.str id).sent + (hSize + dSize))) := by
        intro ⟨hc1, hc2⟩
        simp only [Bool.and_eq_true, beq_iff_eq] at hc1
        apply hc2
        rw [hes, hc1.1]
        simp only [if_true]
        congr 1; omega
      simp only [c1, c2, c3, if_false]
      rfl

theorem sendSS_good {x x' : OutStream} {y : SS} {off hl d : Nat} {es : Bool} {tl : List Item} (q : QInv x y)
    (hw : y.wild = false) (hitems : x.items = .data off hl d es :: tl) (hSize dSize : Nat) (hh : hSize ≤ hl) (hd : dSize ≤ d)
    (hx'i : x'.items = if hl + d - hSize - dSize = 0 then tl else .data (off + (hSize + dSize)) (hl - hSize) (d - dSize) es :: tl)
    (hx'w : x'.wr = x.wr) :
    QInv x' (sendSS y (hSize + dSize) (es && (hl + d - hSize - dSize == 0))) := by
  have hoffs := q.offs
  rw [hitems] at hoffs
  simp only [offsOk] at hoffs
  have hlen := q.len
  rw [hitems] at hlen
  simp only [pend] at hlen
  have hsent : y.esSent = false := by
    cases hb : y.esSent
    · rfl
    · have := q.done hb; rw [hitems] at this; simp [noData] at this
  have hes := q.es
  rw [hsent, hitems] at hes
  simp only [Bool.false_eq_true, if_false, ePos] at hes
  have htr := q.tr
  rw [hitems] at htr
  simp only [tPos] at htr
  have hlast := q.last
  rw [hitems] at hlast
  simp only [esLast] at hlast
  simp only [sendSS, hw, Bool.false_eq_true, if_false]
  by_cases hrem : hl + d - hSize - dSize = 0
  · have hsz : hSize + dSize = hl + d := by omega
    simp only [hrem, if_true] at hx'i
    simp only [hrem, beq_self_eq_true, Bool.and_true]
    refine ⟨by rw [hx'w]; exact q.wr, ?_, ?_, ?_, ?_, ?_, ?_⟩
    · simp only; rw [hx'i, hsz, ← Nat.add_assoc]; exact hoffs.2
    · simp only; rw [hx'i, hx'w]; omega
    · simp only; rw [hx'i, hsz, ← Nat.add_assoc]; exact htr
    · simp only; rw [hx'i, hes]
      cases es with
      | true => simp only [if_true]; congr 1; omega
      | false => simp only [Bool.false_eq_true, if_false, hsz, ← Nat.add_assoc]
    · rw [hx'i]; exact hlast.2
    · simp only; intro he; rw [hx'i]; exact hlast.1 he
  · have hb : (hl + d - hSize - dSize == 0) = false := by simpa using hrem
    simp only [hrem, if_false] at hx'i
    simp only [hb, Bool.and_false]
    have e1 : y.sent + (hSize + dSize) + (hl - hSize) + (d - dSize) = y.sent + hl + d := by omega
    refine ⟨by rw [hx'w]; exact q.wr, ?_, ?_, ?_, ?_, ?_, ?_⟩
    · simp only; rw [hx'i]; simp only [offsOk, e1]; exact ⟨by omega, hoffs.2⟩
    · simp only; rw [hx'i, hx'w]; simp only [pend]; omega
    · simp only; rw [hx'i]; simp only [tPos, e1]; exact htr
    · simp only [Bool.false_eq_true, if_false]; rw [hx'i, hes]; simp only [ePos, e1]
    · rw [hx'i]; simp only [esLast]; exact hlast
    · simp only; intro he; cases he


theorem writeChunk_ord {s : St} {m : Mon} (h : OrdS s m.str) {id off hl d : Nat} {es : Bool} {tl : List Item}
    (hk : id ∈ s.keys) (hitems : (s.str id).items = .data off hl d es :: tl) (hb hSize dSize : Nat)
    (hh : hSize ≤ hl) (hd : dSize ≤ d) :
    ∃ m2, m.frames (.tick hb) (writeChunk s id hb off hl d es tl hSize dSize).outs = (m2, none) ∧
      OrdS (writeChunk s id hb off hl d es tl hSize dSize).st m2.str := by
  unfold writeChunk
  simp only
  obtain ⟨m1, hm1⟩ : ∃ m1, m1 = clr (m.set id (sendSS (m.str id) (hSize + dSize) (es && (hl + d - hSize - dSize == 0)))) := ⟨_, rfl⟩
  have hpre : m.frames (.tick hb) [.cb .onEachWrite id, .data id off (hSize + dSize) (es && (hl + d - hSize - dSize == 0))] =
      (m1, none) := by
    rw [frames_cb, frames_cons_ok _ (frame_data h hk hitems hSize dSize hh hd _), hm1]; rfl
  refine usaw_ord (m1 := m1) ?_ (by simpa using hk) hb _ hpre (by simp [isEarlyAbortOf])
  rw [hm1, clr_str]
  refine h.update id (fun _ _ => Iff.rfl) (fun i hi => by simp [St.setStr, hi]) (fun i hi => set_str_ne _ _ hi) ?_
  rw [set_str_same]
  rcases h id with hw | ⟨h1, h2⟩
  · left; simp [sendSS, hw]
  · by_cases hw : (m.str id).wild = true
    · left; simp [sendSS, hw]
    · right
      have hwf : (m.str id).wild = false := by simpa using hw
      refine ⟨?_, fun _ => ?_⟩
      · simp only [sendSS, hwf, Bool.false_eq_true, if_false, setStr_keys]; exact h1
      · simp only [setStr_str_same]
        exact sendSS_good (h2 hk) hwf hitems hSize dSize hh hd rfl rfl

theorem processData_ord {s : St} {m : Mon} (hwf : Wf s) (h : OrdS s m.str) (hb : Nat) :
    ∃ m', mstep m (.tick hb) (processData s hb).outs = (m', none) ∧ OrdS (processData s hb).st m'.str := by
  have hsimple : ∀ (outs : List Out) (st : St), (∀ o ∈ outs, Inert2 o) → OrdS st m.str →
      ∃ m', mstep m (.tick hb) outs = (m', none) ∧ OrdS st m'.str := by
    intro outs st hin hst
    obtain ⟨m', h1, h2⟩ := mstep_inert m (op := .tick hb) (by simp [Op.outside]) hin
    exact ⟨m', h1, by rw [h2]; simpa [Mon.pre, Mon.post] using hst⟩
  unfold processData
  split
  · exact hsimple _ _ (by simp) h
  split
  · exact hsimple _ _ (by simp) h
  rename_i id rest hact
  simp only
  split
  · exact hsimple _ _ (by simp [Inert2]) (h.congr (fun _ => Iff.rfl) (fun _ => ⟨rfl, rfl⟩))
  · exact hsimple _ _ (by simp [Inert2]) (h.congr (fun _ => Iff.rfl) (fun _ => ⟨rfl, rfl⟩))
  rename_i off hl d es tl hitems
  split
  · exact hsimple _ _ (by simp) (h.congr (fun _ => Iff.rfl) (fun i => by by_cases hi : i = id <;> simp [St.setStr, hi]))
  · -- the write
    have hk : id ∈ s.keys := (hwf.actKeys id (by simp [hact])).1
    have h1 : OrdS { s with active := rest } (clr m).str := h.congr (fun _ => Iff.rfl) (fun _ => ⟨rfl, rfl⟩)
    obtain ⟨m2, hf, ho⟩ := writeChunk_ord (m := clr m) h1 (id := id) hk hitems hb
      (min (min (min maxFrameLen (max (s.quota id) 0).toNat) s.sendQuota) hl)
      (min (min (min maxFrameLen (max (s.quota id) 0).toNat) s.sendQuota -
        min (min (min maxFrameLen (max (s.quota id) 0).toNat) s.sendQuota) hl) d)
      (Nat.min_le_right _ _) (Nat.min_le_right _ _)
    refine ⟨m2, ?_, ho⟩
    rw [mstep_unfold _ _ (by simp [Op.outside])]
    simp only [Mon.pre]
    rw [hf]
    simp [Mon.post]


/-! ### all ops -/

theorem applySettings_ord {s : St} {ms : Nat → SS} (h : OrdS s ms) (ss : List (Nat × Nat)) (order : List Nat) :
    OrdS (applySettings s ss order) ms := by
  unfold applySettings
  induction ss generalizing s with
  | nil => exact h
  | cons kv ss ih =>
    simp only [List.foldl_cons]
    apply ih
    split
    · unfold applyIWS; split
      · exact h.congr (fun _ => Iff.rfl) (fun i => by simp only; split <;> exact ⟨rfl, rfl⟩)
      · exact h.congr (fun _ => Iff.rfl) (fun _ => ⟨rfl, rfl⟩)
    · exact h

theorem handleItem_ord {s : St} {m : Mon} (hwf : Wf s) (h : OrdS s m.str) (o : Op) (hout : o.outside = false) :
    ∃ m', mstep m o (handleItem s o).outs = (m', none) ∧ OrdS (handleItem s o).st m'.str := by
  have hsimple : ∀ (outs : List Out) (st : St), (∀ x ∈ outs, Inert2 x) → (m.pre o outs).post o = m → OrdS st m.str →
      ∃ m', mstep m o outs = (m', none) ∧ OrdS st m'.str := by
    intro outs st hin hpp hst
    obtain ⟨m', h1, h2⟩ := mstep_inert m hout hin
    exact ⟨m', h1, by rw [h2, hpp]; exact hst⟩
  cases o with
  | winUpdate id inc =>
    refine hsimple _ _ ?_ rfl ?_
    · simp only [handleItem, incomingWindowUpdate]; split
      · simp
      · split
        · split <;> simp
        · simp
    · simp only [handleItem, incomingWindowUpdate]; split
      · exact h.congr (fun _ => Iff.rfl) (fun _ => ⟨rfl, rfl⟩)
      · split
        · split
          · exact h.congr (fun _ => Iff.rfl) (fun i => by by_cases hi : i = id <;> simp [St.setStr, hi])
          · exact h.congr (fun _ => Iff.rfl) (fun i => by by_cases hi : i = id <;> simp [St.setStr, hi])
        · exact h
  | outWinUpdate id inc => exact hsimple _ _ (by simp [handleItem, Inert2]) rfl h
  | settings ss order =>
    refine hsimple _ _ (by simp [handleItem, Inert2]) rfl ?_
    simp only [handleItem]
    exact applySettings_ord h ss order
  | outSettings ss => exact hsimple _ _ (by simp [handleItem, Inert2]) rfl h
  | register id => exact registerStream_ord h id hout
  | clientHeaders id hb ie => exact clientHeader_ord h id hb ie hout
  | serverHeaders id es hb rst code => exact serverHeader_ord hwf h id es hb rst code hout
  | data id hl d es => exact preprocessData_ord h id hl d es hout
  | cleanup id rst code => exact cleanup_ord h id rst code hout
  | earlyAbort id rst hb => exact earlyAbort_ord h id rst hb hout
  | incomingGoAway =>
    refine hsimple _ _ ?_ rfl ?_
    · simp only [handleItem, incomingGoAway]; split
      · split <;> simp
      · simp
    · simp only [handleItem, incomingGoAway]; split
      · split <;> exact h.congr (fun _ => Iff.rfl) (fun _ => ⟨rfl, rfl⟩)
      · exact h
  | goAway hu code rd re =>
    refine hsimple _ _ ?_ rfl ?_
    · simp only [handleItem, goAway]; split <;> simp [Inert2]
    · simp only [handleItem, goAway]; split
      · exact h
      · exact h.congr (fun _ => Iff.rfl) (fun _ => ⟨rfl, rfl⟩)
  | ping ack data => exact hsimple _ _ (by simp [handleItem, Inert2]) rfl h
  | closeConn => exact hsimple _ _ (by simp [handleItem]) rfl h
  | outFlowReq => exact hsimple _ _ (by simp [handleItem]) rfl h
  | unknown => exact hsimple _ _ (by simp [handleItem]) rfl h
  | tick hb => exact processData_ord hwf h hb

theorem handle_ord {s : St} {m : Mon} (hwf : Wf s) (h : OrdS s m.str) (o : Op) :
    ∃ m', mstep m o (handle s o).outs = (m', none) ∧ OrdS (handle s o).st m'.str := by
  unfold handle
  by_cases ho : o.outside = true
  · simp only [ho, if_true]
    exact ⟨m, by simp [mstep, ho], h⟩
  · have ho' : o.outside = false := by simpa using ho
    simp only [ho', Bool.false_eq_true, if_false]
    exact handleItem_ord hwf h o ho'

/-- The refinement invariant of a writer state: once `run()` has returned nothing is written any more. -/
def Ord (s : St) (m : Mon) : Prop := s.closed = true ∨ OrdS s m.str

theorem step_ord {s : St} {m : Mon} (hwf : Wf s) (h : Ord s m) (o : Op) :
    ∃ m', mstep m o (step s o).outs = (m', none) ∧ Ord (step s o).st m' := by
  unfold step
  by_cases hc : s.closed = true
  · simp only [hc, if_true]
    by_cases ho : o.outside = true
    · exact ⟨m, by simp [mstep, ho], Or.inl hc⟩
    · have ho' : o.outside = false := by simpa using ho
      obtain ⟨m', h1, _⟩ := mstep_inert m ho' (outs := []) (by simp)
      exact ⟨m', h1, Or.inl hc⟩
  · simp only [hc]
    rcases h with h | h
    · exact absurd h hc
    obtain ⟨m', hm, hl⟩ := handle_ord hwf h o
    simp only [Bool.false_eq_true, if_false]
    split
    · exact ⟨m', hm, Or.inl rfl⟩
    · exact ⟨m', hm, Or.inr hl⟩

theorem ord_init (side : Side) : Ord (init side) Mon.init := by
  refine Or.inr (fun i => Or.inr ⟨?_, ?_⟩)
  · simp [init, Mon.init]
  · intro hi; simp [init] at hi

theorem runFrom_ord {s : St} {m : Mon} (hwf : Wf s) (h : Ord s m) (ops : List Op) :
    (runMon m (runFrom s ops).2).2 = none ∧ Ord (runFrom s ops).1 (runMon m (runFrom s ops).2).1 := by
  induction ops generalizing s m with
  | nil => exact ⟨rfl, h⟩
  | cons o os ih =>
    obtain ⟨m', hm, hl⟩ := step_ord hwf h o
    simp only [runFrom, runMon, hm]
    exact ih (step_wf hwf o) hl

end GrpcProofs.Loopy
