import GrpcModel.Model.TimeoutCache
namespace GrpcProofs.Lemmas.TimeoutCache
open GrpcModel.TimeoutCache

def b2n (p : Prop) [Decidable p] : Nat := if p then 1 else 0

/-- the timer func of the entry got past its `deleted` check -/
def evicted (e : Entry) : Prop := (e.tm = .cb ∨ e.tm = .done) ∧ e.deleted = false

instance (e : Entry) : Decidable (evicted e) := by unfold evicted; infer_instance

structure EntOK (s : St) (id : Nat) : Prop where
  inMap   : s.cache (s.ent id).key = some id ↔
              (id < s.n ∧ ((s.ent id).tm = .armed ∨ (s.ent id).tm = .fired) ∧ (s.ent id).deleted = false)
  taken   : id < s.n → (s.ent id).removed + (s.ent id).cleared =
              b2n ((s.ent id).tm = .stopped ∨ (s.ent id).deleted = true)
  shape   : ((s.ent id).deleted = true → (s.ent id).tm = .fired ∨ (s.ent id).tm = .done)
  ledger  : id < s.n → (s.ent id).cbRuns + (s.ent id).owed + b2n ((s.ent id).tm = .cb) =
              b2n (evicted (s.ent id)) + (s.ent id).clearedCb
  clr     : (s.ent id).clearedCb ≤ (s.ent id).cleared ∧ (s.ent id).owed ≤ (s.ent id).clearedCb

structure Inv (s : St) : Prop where
  keyOf : ∀ k id, s.cache k = some id → id < s.n ∧ (s.ent id).key = k
  ent   : ∀ id, EntOK s id

theorem inv_init : Inv init := by
  constructor
  · intro k id h; simp [init] at h
  · intro id; constructor <;> simp [init, b2n, evicted] <;> decide

macro "tc_rule" : tactic => `(tactic|
  (intro s t h st
   obtain ⟨hk, he⟩ := h
   have i1 := fun id => (he id).inMap
   have i2 := fun id => (he id).taken
   have i3 := fun id => (he id).shape
   have i4 := fun id => (he id).ledger
   have i5 := fun id => (he id).clr
   clear he
   simp only [apply] at st
   repeat' split at st
   all_goals simp at st
   all_goals subst st
   all_goals constructor
   all_goals first
     | (intro k id hc
        grind [setEnt, setKey, stopTimer, b2n, evicted])
     | (intro id
        constructor <;> grind [setEnt, setKey, stopTimer, b2n, evicted])))

theorem step_timerFire (id : Nat) : ∀ (s t : St), Inv s → apply s (.timerFire id) = some t → Inv t := by tc_rule

theorem step_timerLock (id : Nat) : ∀ (s t : St), Inv s → apply s (.timerLock id) = some t → Inv t := by tc_rule
theorem step_timerCall (id : Nat) : ∀ (s t : St), Inv s → apply s (.timerCall id) = some t → Inv t := by tc_rule
theorem step_clearCall (id : Nat) : ∀ (s t : St), Inv s → apply s (.clearCall id) = some t → Inv t := by tc_rule

theorem step_add (k item : Nat) : ∀ (s t : St), Inv s → apply s (.add k item) = some t → Inv t := by tc_rule
theorem step_remove (k : Nat) : ∀ (s t : St), Inv s → apply s (.remove k) = some t → Inv t := by tc_rule
theorem step_clear (b : Bool) : ∀ (s t : St), Inv s → apply s (.clear b) = some t → Inv t := by tc_rule

theorem step_inv {s t : St} (r : Rule) (h : Inv s) (st : apply s r = some t) : Inv t := by
  cases r with
  | add k item => exact step_add k item s t h st
  | remove k => exact step_remove k s t h st
  | clear b => exact step_clear b s t h st
  | clearCall id => exact step_clearCall id s t h st
  | timerFire id => exact step_timerFire id s t h st
  | timerLock id => exact step_timerLock id s t h st
  | timerCall id => exact step_timerCall id s t h st

theorem reach_inv {s : St} (h : Reach s) : Inv s := by
  induction h with
  | init => exact inv_init
  | step r _ st ih => exact step_inv r ih st

/-- ghost counters and results never decrease / created entries keep their identity -/
theorem step_mono {s t : St} (r : Rule) (st : apply s r = some t) (id : Nat) (hid : id < s.n) :
    id < t.n ∧ (t.ent id).key = (s.ent id).key ∧ (t.ent id).item = (s.ent id).item ∧
    (s.ent id).cbRuns ≤ (t.ent id).cbRuns ∧ (s.ent id).removed ≤ (t.ent id).removed ∧
    (s.ent id).cleared ≤ (t.ent id).cleared := by
  cases r <;> simp only [apply] at st <;> (repeat' split at st) <;> simp at st <;> subst st <;>
    grind [setEnt, setKey, stopTimer]

end GrpcProofs.Lemmas.TimeoutCache
