/-
Helper lemmas for C35 (weighted_target aggregator): its evaluator's counters track the multiset of
the children's counted states (`stateToAggregate`) along every history.
-/
import GrpcModel.Model.WAgg
import GrpcProofs.Lemmas.LbConnState
namespace GrpcProofs.Lemmas.WAgg
open GrpcModel.WAgg GrpcProofs.Lemmas.LbConnState
open GrpcModel.LbConnState (ConnState CSE prec)

def aggs (s : St) : List ConnState := s.entries.map (·.agg)

/-- counters = counts of the counted states (mod 2^64), as long as the aggregator was not stopped -/
def TracksW (s : St) : Prop :=
  s.stopped = false → ∀ st, st ≠ .shutdown → LbConnState.get s.cse st = BitVec.ofNat 64 ((aggs s).count st)

theorem map_eraseIdx {α β : Type} (f : α → β) (l : List α) (i : Nat) : (l.eraseIdx i).map f = (l.map f).eraseIdx i := by
  induction l generalizing i with
  | nil => simp
  | cons x t ih => cases i <;> simp [ih]

theorem buildAndUpdate_frame (s : St) :
    (buildAndUpdate s).1.entries = s.entries ∧ (buildAndUpdate s).1.cse = s.cse ∧ (buildAndUpdate s).1.stopped = s.stopped := by
  unfold buildAndUpdate; split
  · simp
  · split <;> simp

theorem tracksW_congr (s s' : St) (h : TracksW s) (e1 : s'.entries.map (·.agg) = s.entries.map (·.agg)) (e2 : s'.cse = s.cse)
    (e3 : s'.stopped = s.stopped) : TracksW s' := by
  intro hs st hst
  have := h (e3 ▸ hs) st hst
  simp only [aggs] at this ⊢
  rw [e1, e2]; exact this

theorem tracksW_bau (s : St) (h : TracksW s) : TracksW (buildAndUpdate s).1 := by
  obtain ⟨b1, b2, b3⟩ := buildAndUpdate_frame s
  exact tracksW_congr s _ h (by rw [b1]) b2 b3

theorem idx_lt (s : St) (id i : Nat) (h : idxOf s id = some i) : i < s.entries.length := by
  unfold idxOf at h
  exact (List.findIdx?_eq_some_iff_getElem.mp h).1

theorem tracksW_step (s : St) (op : Op) (h : TracksW s) (hok : opOk s op = true) : TracksW (step s op).1 := by
  cases op with
  | start => exact tracksW_congr s _ h rfl rfl rfl
  | stop => intro hs; simp [step] at hs
  | pause => exact tracksW_congr s _ h rfl rfl rfl
  | needUpd => exact tracksW_congr s _ h rfl rfl rfl
  | resume =>
    simp only [step]
    split <;> exact tracksW_congr s _ h rfl rfl rfl
  | weight id w =>
    simp only [step]
    cases hi : idxOf s id with
    | none => exact h
    | some i =>
      refine tracksW_congr s _ h ?_ rfl rfl
      simp only
      apply List.ext_getElem?
      intro j
      simp only [List.getElem?_map, List.getElem?_modify]
      by_cases e : i = j
      · subst e; cases s.entries[i]? <;> simp
      · simp [e]
  | add id w =>
    simp only [step]
    have hnone : idxOf s id = none := by
      simp only [opOk, Bool.and_eq_true, Option.isNone_iff_eq_none] at hok; exact hok.2
    have hns : s.stopped = false := by
      simp only [opOk, Bool.and_eq_true, Bool.not_eq_true'] at hok; exact hok.1
    simp only [hnone]
    apply tracksW_bau
    intro _ st hst
    show LbConnState.get (s.cse.recordTransition .shutdown .connecting).1 st
      = BitVec.ofNat 64 (((s.entries ++ [({ id := id, weight := w } : Entry)]).map (·.agg)).count st)
    rw [get_rt _ _ _ _ hst, h hns st hst]
    simp only [List.map_append, List.map_cons, List.map_nil, List.count_append, aggs]
    have : ConnState.shutdown ≠ st := fun e => hst e.symm
    by_cases hc : ConnState.connecting = st
    · subst hc; simp [bv_succ]
    · simp [this, hc]
  | remove id =>
    simp only [step]
    have hns : s.stopped = false := by simpa [opOk] using hok
    cases hi : idxOf s id with
    | none => exact h
    | some i =>
      have hlt := idx_lt s id i hi
      simp only [List.getElem?_eq_getElem hlt]
      apply tracksW_bau
      intro _ st hst
      show LbConnState.get (s.cse.recordTransition s.entries[i].agg .shutdown).1 st
        = BitVec.ofNat 64 (((s.entries.eraseIdx i).map (·.agg)).count st)
      have hlt' : i < (s.entries.map (·.agg)).length := by simpa using hlt
      have hel : (s.entries.map (·.agg))[i] = s.entries[i].agg := by simp
      have hpos := getElem_count_pos (s.entries.map (·.agg)) i hlt'
      rw [hel] at hpos
      rw [map_eraseIdx, count_eraseIdx _ i hlt', hel, get_rt _ _ _ _ hst, h hns st hst]
      have : ConnState.shutdown ≠ st := fun e => hst e.symm
      by_cases h1 : s.entries[i].agg = st
      · rw [h1] at hpos
        simp [h1, this, aggs]
        rw [bv_pred _ hpos]
      · simp [h1, this, aggs]
  | upd id x =>
    simp only [step]
    have hns : s.stopped = false := by simpa [opOk] using hok
    cases hi : idxOf s id with
    | none => exact h
    | some i =>
      have hlt := idx_lt s id i hi
      simp only [List.getElem?_eq_getElem hlt]
      have hlt' : i < (s.entries.map (·.agg)).length := by simpa using hlt
      have hel : (s.entries.map (·.agg))[i] = s.entries[i].agg := by simp
      have hpos := getElem_count_pos (s.entries.map (·.agg)) i hlt'
      rw [hel] at hpos
      apply tracksW_bau
      intro _ st hne
      by_cases hst : (s.entries[i].reported = .tf ∧ x = .connecting)
      · -- sticky: neither the counted state nor the counters change
        simp only [hst, and_self, decide_true, if_true, aggs, List.map_set, List.count_set hlt', hel, beq_iff_eq]
        rw [h hns st hne]
        by_cases h1 : s.entries[i].agg = st
        · simp only [h1, if_true, aggs]; rw [h1] at hpos
          congr 1; omega
        · simp [h1, aggs]
      · simp only [hst, decide_false, Bool.false_eq_true, if_false, aggs, List.map_set, List.count_set hlt', hel, beq_iff_eq]
        rw [get_rt _ _ _ _ hne, h hns st hne]
        by_cases h1 : s.entries[i].agg = st <;> by_cases h2 : x = st <;> simp [h1, h2, aggs]
        · rw [h1] at hpos; rw [bv_pred _ hpos, bv_succ]
        · rw [h1] at hpos; rw [bv_pred _ hpos]
        · rw [bv_succ]

theorem tracksW_init : TracksW {} := by
  intro _ st _; cases st <;> simp [LbConnState.get, aggs]

theorem tracksW_run (s : St) (ops : List Op) (h : TracksW s) (hok : RunOk s ops) : TracksW (run s ops) := by
  induction ops generalizing s with
  | nil => exact h
  | cons op t ih => exact ih _ (tracksW_step s op h hok.1) hok.2

theorem current_of_counts (c : CSE) (l : List ConnState)
    (hc : ∀ st, st ≠ .shutdown → LbConnState.get c st = BitVec.ofNat 64 (l.count st)) (hl : l.length < 2 ^ 64) :
    c.currentState = prec l := by
  have hr := hc .ready (by decide)
  have hcn := hc .connecting (by decide)
  have hi := hc .idle (by decide)
  simp only [LbConnState.get] at hr hcn hi
  simp only [CSE.currentState, prec, hr, hcn, hi, pos_iff_mem l _ hl]

theorem build_state (s : St) : (build s).state = if s.entries.isEmpty then .tf else s.cse.currentState := by
  unfold build
  split
  · rfl
  · split <;> simp_all

/-- every push of a step is `build` of the post-state -/
theorem push_ok (s : St) (op : Op) (p : Push) (hp : (step s op).2 = some p)
    (hc : ∀ st, st ≠ .shutdown → LbConnState.get (step s op).1.cse st = BitVec.ofNat 64 (((step s op).1.entries.map (·.agg)).count st))
    (hl : (step s op).1.entries.length < 2 ^ 64) :
    pushOk ((step s op).1.entries.map (·.agg)) p = true := by
  have hb : p = build (step s op).1 := by
    have bau : ∀ t : St, ∀ q, (buildAndUpdate t).2 = some q → q = build (buildAndUpdate t).1 := by
      intro t q hq
      unfold buildAndUpdate at hq ⊢
      split at hq
      · cases hq
      · split at hq
        · cases hq
        · simp only [Option.some.injEq] at hq; simp_all
    cases op with
    | start => simp [step] at hp
    | stop => simp [step] at hp
    | pause => simp [step] at hp
    | needUpd => simp [step] at hp
    | weight id w => simp only [step] at hp; split at hp <;> simp at hp
    | resume =>
      simp only [step] at hp ⊢
      split at hp
      · simp only [Option.some.injEq] at hp; simp_all
      · cases hp
    | add id w => simp only [step] at hp ⊢; exact bau _ p hp
    | remove id =>
      simp only [step] at hp ⊢
      cases hi : idxOf s id with
      | none => simp [hi] at hp
      | some i =>
        cases he : s.entries[i]? with
        | none => simp [hi, he] at hp
        | some e => simp only [hi, he] at hp ⊢; exact bau _ p hp
    | upd id x =>
      simp only [step] at hp ⊢
      cases hi : idxOf s id with
      | none => simp [hi] at hp
      | some i =>
        cases he : s.entries[i]? with
        | none => simp [hi, he] at hp
        | some e => simp only [hi, he] at hp ⊢; exact bau _ p hp
  have hl' : ((step s op).1.entries.map (·.agg)).length < 2 ^ 64 := by simpa using hl
  have hcur := current_of_counts _ _ hc hl'
  rw [hb]
  simp only [pushOk, build_state, beq_iff_eq, List.isEmpty_map]
  split
  · rfl
  · exact hcur

end GrpcProofs.Lemmas.WAgg
