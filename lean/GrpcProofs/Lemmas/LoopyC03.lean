import GrpcProofs.Lemmas.LoopyWf
/-! C03: the observable predicates `stateOk`, `tickOk`, `orderOk` hold on every step of the model. -/
namespace GrpcProofs.Loopy
open GrpcModel.Loopy GrpcModel.Loopy.C03

/-! ### stateOk from Wf -/

theorem svOf_id (s : St) (id : Nat) : (svOf s id).id = id := rfl

theorem find_svOf (s : St) {id : Nat} {keys : List Nat} (hk : id ∈ keys) :
    (keys.map (svOf s)).find? (·.id == id) = some (svOf s id) := by
  induction keys with
  | nil => simp at hk
  | cons a t ih =>
    simp only [List.map_cons, List.find?_cons, svOf_id]
    by_cases ha : a = id
    · subst ha; simp
    · have : (a == id) = false := by simpa using ha
      simp only [this]
      rcases List.mem_cons.mp hk with e | hm
      · exact absurd e.symm ha
      · exact ih hm

theorem streamOk_of_wf {s : St} (h : Wf s) {id : Nat} (hk : id ∈ s.keys) : streamOk (view s) (svOf s id) = true := by
  simp only [streamOk, view, svOf, Bool.and_eq_true, Bool.or_eq_true, bne_iff_ne, ne_eq, beq_iff_eq,
    List.contains_eq_mem, decide_eq_true_eq, List.length_eq_zero_iff]
  have he := h.emptyIff id hk
  have hhd := h.headData id hk
  refine ⟨⟨⟨⟨?_, ?_⟩, ?_⟩, ?_⟩, ?_⟩
  · by_cases ha : (s.str id).state = .active
    · exact Or.inr (h.actAll id hk ha)
    · exact Or.inl ha
  · by_cases hs : (s.str id).state = .empty
    · simp [hs, he.mp hs]
    · have hne : (s.str id).items ≠ [] := fun e => hs (he.mpr e)
      have h1 : ((s.str id).state == SState.empty) = false := by simpa using hs
      have h2 : ((s.str id).items.length == 0) = false := by simpa using hne
      rw [h1, h2]
  · by_cases hw : (s.str id).state = .waiting
    · exact Or.inr (decide_eq_true (h.waitQuota id hk hw))
    · exact Or.inl hw
  · cases hit : (s.str id).items with
    | nil => exact Or.inl rfl
    | cons a t =>
      cases a with
      | data => exact Or.inr rfl
      | trailers r c => rw [hit] at hhd; exact absurd trivial hhd
  · by_cases hnil : (s.str id).items = []
    · exact Or.inl (Or.inl hnil)
    · by_cases hq : s.quota id ≤ 0
      · exact Or.inl (Or.inr (decide_eq_true hq))
      · right
        have hne : (s.str id).state ≠ .empty := fun e => hnil (he.mp e)
        have hnw : (s.str id).state ≠ .waiting := fun e => hq (h.waitQuota id hk e)
        apply h.actAll id hk
        cases hst : (s.str id).state <;> simp_all

theorem stateOk_of_wf {s : St} (h : Wf s) : stateOk (view s) = true := by
  simp only [stateOk, Bool.and_eq_true, decide_eq_true_eq, List.all_eq_true]
  refine ⟨⟨h.actNodup, ?_⟩, ?_⟩
  · intro id hi
    have := h.actKeys id hi
    simp only [view, List.any_map, List.any_eq_true, Function.comp]
    exact ⟨id, this.1, by simp [svOf, this.2]⟩
  · intro x hx
    simp only [view, List.mem_map] at hx
    obtain ⟨id, hk, rfl⟩ := hx
    exact streamOk_of_wf h hk


/-! ### the shape of one `processData` call -/

def isData : Out → Prop
  | .data .. => True
  | _ => False

theorem anyData_false {os : List Out} (h : ∀ o ∈ os, ¬ isData o) : anyData os = false := by
  induction os with
  | nil => rfl
  | cons o t ih =>
    have ho := h o List.mem_cons_self
    have ht := ih (fun o' ho' => h o' (List.mem_cons_of_mem _ ho'))
    cases o <;> simp only [anyData, ht] <;> exact absurd trivial ho

theorem dataFor_nil {id : Nat} {os : List Out} (h : ∀ o ∈ os, ¬ isData o) : dataFor id os = [] := by
  induction os with
  | nil => rfl
  | cons o t ih =>
    have ho := h o List.mem_cons_self
    have ht := ih (fun o' ho' => h o' (List.mem_cons_of_mem _ ho'))
    cases o <;> simp only [dataFor, ht] <;> exact absurd trivial ho

theorem noData_writeHeader (id : Nat) (es : Bool) (hb : Nat) (ow : Bool) : ∀ o ∈ writeHeader id es hb ow, ¬ isData o := by
  intro o ho
  simp only [writeHeader, List.mem_append, List.mem_singleton] at ho
  rcases ho with ho | rfl
  · split at ho
    · simp only [List.mem_singleton] at ho; subst ho; exact fun h => h
    · simp at ho
  · exact fun h => h

theorem noData_cleanup (s : St) (id : Nat) (rst : Bool) (code : Nat) : ∀ o ∈ (cleanupStream s id rst code).outs, ¬ isData o := by
  intro o ho
  simp only [cleanupStream, List.mem_cons] at ho
  rcases ho with rfl | ho
  · exact fun h => h
  · split at ho
    · simp only [List.mem_singleton] at ho; subst ho; exact fun h => h
    · simp at ho

/-- What `updateStreamAfterWrite` does to the active list and to the other streams. -/
theorem usaw_shape (t : St) (id hb : Nat) (pre : List Out) {rest : List Nat} (ha : t.active = rest) (hnr : id ∉ rest) :
    let r := updateStreamAfterWrite t id hb pre
    (∃ extra, r.outs = pre ++ extra ∧ ∀ o ∈ extra, ¬ isData o) ∧
    (r.st.active = rest ∨ r.st.active = rest ++ [id]) ∧
    (∀ i, i ≠ id → r.st.str i = t.str i) ∧ r.st.oiws = t.oiws ∧ r.st.sendQuota = t.sendQuota ∧
    (∀ i, i ≠ id → (i ∈ r.st.keys ↔ i ∈ t.keys)) := by
  unfold updateStreamAfterWrite
  simp only
  split
  · exact ⟨⟨[], by simp, by simp⟩, Or.inl ha, fun i hi => by simp [St.setStr, hi], rfl, rfl, fun _ _ => Iff.rfl⟩
  · rename_i rst code tl hit
    refine ⟨⟨writeHeader id true hb true ++ (cleanupStream t id rst code).outs, by simp, ?_⟩, ?_, ?_, ?_, ?_, ?_⟩
    · intro o ho
      rcases List.mem_append.mp ho with ho | ho
      · exact noData_writeHeader _ _ _ _ o ho
      · exact noData_cleanup _ _ _ _ o ho
    · left
      simp only [cleanupStream, removeStream]
      split
      · simp only [ha]; exact List.filter_eq_self.mpr (fun a haa => by simpa using fun (e : a = id) => hnr (e ▸ haa))
      · exact ha
    · intro i _; simp only [cleanupStream, removeStream]; split <;> rfl
    · simp only [cleanupStream, removeStream]; split <;> rfl
    · simp only [cleanupStream, removeStream]; split <;> rfl
    · intro i hi; simp only [cleanupStream, removeStream]; split
      · simp [hi]
      · rfl
  · split
    · exact ⟨⟨[], by simp, by simp⟩, Or.inl ha, fun i hi => by simp [St.setStr, hi], rfl, rfl, fun _ _ => Iff.rfl⟩
    · exact ⟨⟨[], by simp, by simp⟩, Or.inr (by simp [ha]), fun _ _ => rfl, rfl, rfl, fun _ _ => Iff.rfl⟩

theorem writeChunk_shape (s : St) (id hb off hl d : Nat) (es : Bool) (tl : List Item) (hSize dSize : Nat) {rest : List Nat}
    (ha : s.active = rest) (hnr : id ∉ rest) :
    let r := writeChunk s id hb off hl d es tl hSize dSize
    (∃ es' extra, r.outs = [.cb .onEachWrite id, .data id off (hSize + dSize) es'] ++ extra ∧ ∀ o ∈ extra, ¬ isData o) ∧
    (r.st.active = rest ∨ r.st.active = rest ++ [id]) ∧
    (∀ i, i ≠ id → r.st.str i = s.str i) ∧ r.st.oiws = s.oiws ∧ (∀ i, i ≠ id → (i ∈ r.st.keys ↔ i ∈ s.keys)) := by
  unfold writeChunk
  simp only
  have := usaw_shape ({ s with sendQuota := s.sendQuota - (hSize + dSize) }.setStr id
      { s.str id with items := (if hl + d - hSize - dSize = 0 then tl else .data (off + (hSize + dSize)) (hl - hSize) (d - dSize) es :: tl),
                      bytesOut := (s.str id).bytesOut + ((hSize + dSize : Nat) : Int), repl := (s.str id).repl + (hSize + dSize) })
      id hb [.cb .onEachWrite id, .data id off (hSize + dSize) (es && (hl + d - hSize - dSize == 0))] (rest := rest) (by simpa using ha) hnr
  obtain ⟨⟨extra, ho, hex⟩, hact', hstr, hoi, _, hkeys⟩ := this
  refine ⟨⟨_, extra, ho, hex⟩, hact', ?_, hoi, ?_⟩
  · intro i hi; rw [hstr i hi]; simp [St.setStr, hi]
  · intro i hi; rw [hkeys i hi]; rfl

/-- One `processData` call with connection quota left serves (or parks) the head of the active list, leaves every other stream
untouched and moves the rest of the list one place forward. -/
theorem processData_head {s : St} (h : Wf s) (hq : s.sendQuota ≠ 0) {id : Nat} {rest : List Nat}
    (hact : s.active = id :: rest) (hb : Nat) :
    let r := processData s hb
    ∃ off hl d es tl, (s.str id).items = .data off hl d es :: tl ∧
      (if s.quota id ≤ 0 ∧ ¬ (hl = 0 ∧ d = 0) then r.outs = [] ∧ r.st.active = rest
       else (∃ es' extra, r.outs = [.cb .onEachWrite id, .data id off (min (min (min 16384 (s.quota id).toNat) s.sendQuota) (hl + d)) es'] ++ extra ∧
              ∀ o ∈ extra, ¬ isData o) ∧ (r.st.active = rest ∨ r.st.active = rest ++ [id])) ∧
      (∀ i, i ≠ id → r.st.str i = s.str i) ∧ r.st.oiws = s.oiws ∧ (∀ i, i ≠ id → (i ∈ r.st.keys ↔ i ∈ s.keys)) := by
  obtain ⟨hidk, hida, hnr, hnd, hne⟩ := h.head_facts hact
  have hhd := h.headData id hidk
  unfold processData
  simp only [hq, if_false, hact]
  split
  · rename_i hnil; exact absurd hnil hne
  · rename_i hit; rw [hit] at hhd; exact absurd trivial hhd
  rename_i off hl d es tl hitems
  refine ⟨off, hl, d, es, tl, hitems, ?_⟩
  by_cases hc : s.quota id ≤ 0 ∧ ¬ (hl = 0 ∧ d = 0)
  · rw [if_pos hc, if_pos hc]
    exact ⟨⟨rfl, rfl⟩, fun i hi => by simp [St.setStr, hi], rfl, fun _ _ => Iff.rfl⟩
  · rw [if_neg hc, if_neg hc]
    generalize hms : min (min maxFrameLen (max (s.quota id) 0).toNat) s.sendQuota = maxSize
    generalize hhs : min maxSize hl = hSize
    generalize hds : min (maxSize - hSize) d = dSize
    have hsz : min (min (min 16384 (s.quota id).toNat) s.sendQuota) (hl + d) = hSize + dSize := by
      have := maxFrameLen_eq; omega
    rw [hsz]
    obtain ⟨h1, h2, h3, h4, h5⟩ := writeChunk_shape { s with active := rest } id hb off hl d es tl hSize dSize rfl hnr
    exact ⟨⟨h1, h2⟩, h3, h4, h5⟩


theorem usaw_ret_ne (s : St) (id hb : Nat) (pre : List Out) : (updateStreamAfterWrite s id hb pre).ret ≠ .tick true := by
  unfold updateStreamAfterWrite
  simp only
  split
  · simp
  · simp only [cleanupStream]
    split
    · simp
    · split <;> simp
  · split <;> simp

theorem writeChunk_ret_ne (s : St) (id hb off hl d : Nat) (es : Bool) (tl : List Item) (hSize dSize : Nat) :
    (writeChunk s id hb off hl d es tl hSize dSize).ret ≠ .tick true := by
  unfold writeChunk; exact usaw_ret_ne _ _ _ _

/-! ### the step predicates -/

theorem step_open {s : St} (hc : s.closed = false) (o : Op) :
    (step s o).outs = (handle s o).outs ∧ (step s o).st.active = (handle s o).st.active ∧
    (step s o).st.keys = (handle s o).st.keys ∧ (step s o).st.str = (handle s o).st.str ∧
    (step s o).st.oiws = (handle s o).st.oiws ∧ (step s o).st.sendQuota = (handle s o).st.sendQuota := by
  unfold step
  simp only [hc, Bool.false_eq_true, if_false]
  split <;> exact ⟨rfl, rfl, rfl, rfl, rfl, rfl⟩

theorem step_closed {s : St} (hc : s.closed = true) (o : Op) : (step s o).st = s ∧ (step s o).outs = [] := by
  unfold step; simp [hc]

theorem view_active (s : St) : (view s).active = s.active := rfl

theorem tickOk_step {s : St} (h : Wf s) (hb : Nat) :
    tickOk (view s) (view (step s (.tick hb)).st) (step s (.tick hb)).outs = true := by
  unfold tickOk
  by_cases hc : s.closed = true
  · simp [view, hc]
  · have hc' : s.closed = false := by simpa using hc
    obtain ⟨ho, ha, _, _, _, _⟩ := step_open hc' (.tick hb)
    have hh : handle s (.tick hb) = processData s hb := by simp [handle, Op.outside, handleItem]
    rw [hh] at ho ha
    have hvc : (view s).closed = false := hc'
    simp only [hvc, Bool.false_eq_true, if_false, view_active, ho, ha]
    cases hact : s.active with
    | nil =>
      have : processData s hb = ⟨s, [], .tick true⟩ := by
        unfold processData; split
        · rfl
        · simp [hact]
      simp [this, hact, anyData]
    | cons id rest =>
      simp only
      by_cases hq : s.sendQuota = 0
      · have : processData s hb = ⟨s, [], .tick true⟩ := by unfold processData; simp [hq]
        simp [this, hact, anyData, view, hq]
      · have hvq : (view s).sendQuota = s.sendQuota := rfl
        simp only [hvq, hq, if_false]
        obtain ⟨hidk, _, _, _, _⟩ := h.head_facts hact
        have hfind : (view s).streams.find? (·.id == id) = some (svOf s id) := find_svOf s hidk
        rw [hfind]
        obtain ⟨off, hl, d, es, tl, hitems, hcase, _⟩ := processData_head h hq hact hb
        have hquota : (svOf s id).quota = s.quota id := rfl
        have hlen : (svOf s id).headLen = hl + d := by simp [svOf, hitems]
        simp only [hquota, hlen]
        by_cases hcnd : s.quota id ≤ 0 ∧ ¬ (hl = 0 ∧ d = 0)
        · have hcnd' : s.quota id ≤ 0 ∧ hl + d ≠ 0 := ⟨hcnd.1, by omega⟩
          rw [if_pos hcnd] at hcase
          rw [if_pos hcnd', hcase.1, hcase.2]
          simp [anyData]
        · have hcnd' : ¬ (s.quota id ≤ 0 ∧ hl + d ≠ 0) := fun hh => hcnd ⟨hh.1, by omega⟩
          rw [if_neg hcnd] at hcase
          obtain ⟨⟨es', extra, houts, hex⟩, hact'⟩ := hcase
          rw [if_neg hcnd', houts]
          simp only [List.cons_append, List.nil_append, dataFor, if_true, dataFor_nil hex]
          rcases hact' with e | e <;> simp [e]


theorem applyIWS_active (s : St) (v : Nat) (order : List Nat) : ∃ e, (applyIWS s v order).active = s.active ++ e := by
  unfold applyIWS; split
  · exact ⟨_, rfl⟩
  · exact ⟨[], by simp⟩

theorem applySettings_active (s : St) (ss : List (Nat × Nat)) (order : List Nat) :
    ∃ e, (applySettings s ss order).active = s.active ++ e := by
  unfold applySettings
  induction ss generalizing s with
  | nil => exact ⟨[], by simp⟩
  | cons kv ss ih =>
    simp only [List.foldl_cons]
    split
    · obtain ⟨e, he⟩ := ih (applyIWS s kv.2 order)
      obtain ⟨e1, he1⟩ := applyIWS_active s kv.2 order
      exact ⟨e1 ++ e, by rw [he, he1]; simp⟩
    · exact ih s

theorem removeStream_active (s : St) (id : Nat) :
    (removeStream s id).active = s.active ∨ (removeStream s id).active = s.active.filter (· ≠ id) := by
  unfold removeStream; split
  · exact Or.inr rfl
  · exact Or.inl rfl

/-- Every control item other than `tick` appends to the active list or deletes one stream from it. -/
theorem handle_active_shape (s : St) (o : Op) (hnt : ∀ hb, o ≠ .tick hb) :
    (∃ e, (handle s o).st.active = s.active ++ e) ∨ (∃ id, (handle s o).st.active = s.active.filter (· ≠ id)) := by
  have same : ∀ {t : St}, t.active = s.active → (∃ e, t.active = s.active ++ e) ∨ (∃ id, t.active = s.active.filter (· ≠ id)) :=
    fun h => Or.inl ⟨[], by simp [h]⟩
  have rm : ∀ id, (∃ e, (removeStream s id).active = s.active ++ e) ∨ (∃ i, (removeStream s id).active = s.active.filter (· ≠ i)) := by
    intro id
    rcases removeStream_active s id with h | h
    · exact same h
    · exact Or.inr ⟨id, h⟩
  unfold handle
  split
  · exact same rfl
  cases o with
  | tick hb => exact absurd rfl (hnt hb)
  | winUpdate id inc =>
    simp only [handleItem, incomingWindowUpdate]
    split
    · exact same rfl
    · split
      · split
        · exact Or.inl ⟨[id], rfl⟩
        · exact same rfl
      · exact same rfl
  | settings ss order => exact Or.inl (applySettings_active s ss order)
  | register id => simp only [handleItem, registerStream]; split <;> exact same rfl
  | clientHeaders id hb ie =>
    simp only [handleItem, clientHeader]
    split
    · exact same rfl
    · split
      · exact same rfl
      · split <;> exact same rfl
  | serverHeaders id es hb rst code =>
    simp only [handleItem, serverHeader]
    split
    · exact same rfl
    · split
      · exact same rfl
      · split
        · exact same rfl
        · exact rm id
  | data id hl d es =>
    simp only [handleItem, preprocessData]
    split
    · exact same rfl
    · split
      · exact Or.inl ⟨[id], rfl⟩
      · exact same rfl
  | cleanup id rst code => exact rm id
  | earlyAbort id rst hb => simp only [handleItem, earlyAbort]; split <;> exact same rfl
  | incomingGoAway =>
    simp only [handleItem, incomingGoAway]
    split
    · split <;> exact same rfl
    · exact same rfl
  | goAway hu code rd re => simp only [handleItem, goAway]; split <;> exact same rfl
  | _ => exact same rfl

theorem filter_contains_append (l e : List Nat) : (l.filter ((l ++ e).contains ·)) = l := by
  apply List.filter_eq_self.mpr
  intro a ha; simp [ha]

theorem filter_contains_filter (l : List Nat) (p : Nat → Bool) : (l.filter ((l.filter p).contains ·)) = l.filter p := by
  apply List.filter_congr
  intro a ha; simp [ha]

theorem orderOk_step {s : St} (o : Op) (hnt : ∀ hb, o ≠ .tick hb) : orderOk (view s) (view (step s o).st) = true := by
  unfold orderOk
  simp only [view_active]
  by_cases hc : s.closed = true
  · rw [(step_closed hc o).1]
    have := filter_contains_append s.active []
    simp only [List.append_nil] at this
    rw [this]; simp
  · have hc' : s.closed = false := by simpa using hc
    rw [(step_open hc' o).2.1]
    rcases handle_active_shape s o hnt with ⟨e, he⟩ | ⟨id, he⟩
    · rw [he, filter_contains_append]; simp
    · rw [he, filter_contains_filter]; simp


/-! ### every step of every history -/

theorem vrunFrom_holds {s : St} (h : Wf s) (ops : List Op) : C03.holds (vrunFrom s ops) = true := by
  induction ops generalizing s with
  | nil => rfl
  | cons o os ih =>
    simp only [vrunFrom, holds, List.all_cons, Bool.and_eq_true]
    refine ⟨?_, ih (step_wf h o)⟩
    simp only [C03.mstep, stateOk_of_wf (step_wf h o), Bool.not_true, Bool.false_eq_true, if_false]
    cases o with
    | tick hb => simp [tickOk_step h hb]
    | winUpdate a b => rw [orderOk_step (s := s) (.winUpdate a b) (fun _ => Op.noConfusion)]; rfl
    | outWinUpdate a b => rw [orderOk_step (s := s) (.outWinUpdate a b) (fun _ => Op.noConfusion)]; rfl
    | settings a b => rw [orderOk_step (s := s) (.settings a b) (fun _ => Op.noConfusion)]; rfl
    | outSettings a => rw [orderOk_step (s := s) (.outSettings a) (fun _ => Op.noConfusion)]; rfl
    | register a => rw [orderOk_step (s := s) (.register a) (fun _ => Op.noConfusion)]; rfl
    | clientHeaders a b c => rw [orderOk_step (s := s) (.clientHeaders a b c) (fun _ => Op.noConfusion)]; rfl
    | serverHeaders a b c d e => rw [orderOk_step (s := s) (.serverHeaders a b c d e) (fun _ => Op.noConfusion)]; rfl
    | data a b c d => rw [orderOk_step (s := s) (.data a b c d) (fun _ => Op.noConfusion)]; rfl
    | cleanup a b c => rw [orderOk_step (s := s) (.cleanup a b c) (fun _ => Op.noConfusion)]; rfl
    | earlyAbort a b c => rw [orderOk_step (s := s) (.earlyAbort a b c) (fun _ => Op.noConfusion)]; rfl
    | incomingGoAway => rw [orderOk_step (s := s) .incomingGoAway (fun _ => Op.noConfusion)]; rfl
    | goAway a b c d => rw [orderOk_step (s := s) (.goAway a b c d) (fun _ => Op.noConfusion)]; rfl
    | ping a b => rw [orderOk_step (s := s) (.ping a b) (fun _ => Op.noConfusion)]; rfl
    | closeConn => rw [orderOk_step (s := s) .closeConn (fun _ => Op.noConfusion)]; rfl
    | outFlowReq => rw [orderOk_step (s := s) .outFlowReq (fun _ => Op.noConfusion)]; rfl
    | unknown => rw [orderOk_step (s := s) .unknown (fun _ => Op.noConfusion)]; rfl

/-! ### round robin: positions on the active list -/

theorem idxOf_append_mem {l : List Nat} {a : Nat} (e : List Nat) (h : a ∈ l) : (l ++ e).idxOf a = l.idxOf a := by
  induction l with
  | nil => simp at h
  | cons b t ih =>
    simp only [List.cons_append, List.idxOf_cons]
    by_cases hb : b = a
    · simp [hb]
    · have : (b == a) = false := by simpa using hb
      simp only [this, cond_false]
      rcases List.mem_cons.mp h with e' | hm
      · exact absurd e'.symm hb
      · rw [ih hm]

/-- One `processData` call that finds connection quota moves every stream behind the head one place forward and does not touch it. -/
theorem tick_position {s : St} (h : Wf s) (hc : s.closed = false) (hq : s.sendQuota ≠ 0) {hd : Nat} {rest : List Nat}
    (hact : s.active = hd :: rest) {id : Nat} (hid : id ∈ rest) (hb : Nat) :
    id ∈ (step s (.tick hb)).st.active ∧ (step s (.tick hb)).st.active.idxOf id + 1 = s.active.idxOf id ∧
    (step s (.tick hb)).st.str id = s.str id ∧ (step s (.tick hb)).st.quota id = s.quota id := by
  obtain ⟨_, _, hnr, _, _⟩ := h.head_facts hact
  have hne : id ≠ hd := fun e => hnr (e ▸ hid)
  obtain ⟨_, ha, _, hs, ho, _⟩ := step_open hc (.tick hb)
  have hh : handle s (.tick hb) = processData s hb := by simp [handle, Op.outside, handleItem]
  rw [hh] at ha hs ho
  obtain ⟨off, hl, d, es, tl, _, hcase, hstr, hoiws, _⟩ := processData_head h hq hact hb
  have hact' : (processData s hb).st.active = rest ∨ (processData s hb).st.active = rest ++ [hd] := by
    split at hcase
    · exact Or.inl hcase.2
    · exact hcase.2
  have hidx : s.active.idxOf id = rest.idxOf id + 1 := by
    rw [hact, List.idxOf_cons]
    have : (hd == id) = false := by simpa using fun e => hne e.symm
    simp [this]
  refine ⟨?_, ?_, ?_, ?_⟩
  · rw [ha]; rcases hact' with e | e <;> simp [e, hid]
  · rw [ha, hidx]; rcases hact' with e | e
    · rw [e]
    · rw [e, idxOf_append_mem _ hid]
  · rw [hs]; exact hstr id hne
  · simp only [St.quota, ho, hs, hoiws, hstr id hne]

def ticks (hbs : List Nat) : List Op := hbs.map Op.tick

/-- **Bounded liveness / fairness.** A stream at position `k` of the active list is served by the `(k+1)`-th `processData` call,
provided the writer is still running and has connection quota at each of those calls: it gets
`min(16384, its stream quota, sendQuota, head item)` bytes (or, if it has no stream quota — which by `no_lost_wakeup` means it was
put on the list by a SETTINGS change that did not help it — it is parked without loss). Nothing but connection quota is assumed of
the other streams: none of them can delay it by more than one frame each. -/
theorem served_within {s : St} (h : Wf s) (id : Nat) (k : Nat) (hbs : List Nat) (hlen : hbs.length = k + 1)
    (hmem : id ∈ s.active) (hk : s.active.idxOf id = k)
    (hlive : ∀ j, j ≤ k → (runFrom s (ticks (hbs.take j))).1.closed = false ∧ (runFrom s (ticks (hbs.take j))).1.sendQuota ≠ 0) :
    ∃ off hl d es tl, (s.str id).items = .data off hl d es :: tl ∧
      let sk := (runFrom s (ticks (hbs.take k))).1
      let r := step sk (.tick (hbs.getD k 0))
      if s.quota id ≤ 0 ∧ ¬ (hl = 0 ∧ d = 0) then r.outs = []
      else ∃ es' extra, r.outs = [.cb .onEachWrite id, .data id off (min (min (min 16384 (s.quota id).toNat) sk.sendQuota) (hl + d)) es'] ++ extra ∧
        ∀ o ∈ extra, ¬ isData o := by
  induction k generalizing s hbs with
  | zero =>
    obtain ⟨hc, hq⟩ := hlive 0 (Nat.le_refl 0)
    simp only [List.take_zero, ticks, List.map_nil, runFrom] at hc hq ⊢
    cases hact : s.active with
    | nil => rw [hact] at hmem; simp at hmem
    | cons hd rest =>
      have : hd = id := by
        rw [hact, List.idxOf_cons] at hk
        by_cases e : hd = id
        · exact e
        · have : (hd == id) = false := by simpa using e
          simp [this] at hk
      subst this
      obtain ⟨off, hl, d, es, tl, hitems, hcase, _⟩ := processData_head h hq hact (hbs.getD 0 0)
      refine ⟨off, hl, d, es, tl, hitems, ?_⟩
      have ho := (step_open hc (.tick (hbs.getD 0 0))).1
      have hh : handle s (.tick (hbs.getD 0 0)) = processData s (hbs.getD 0 0) := by simp [handle, Op.outside, handleItem]
      rw [hh] at ho
      simp only [ho]
      split at hcase
      · rename_i hc1; rw [if_pos hc1]; exact hcase.1
      · rename_i hc1; rw [if_neg hc1]; exact hcase.1
  | succ k ih =>
    cases hbs with
    | nil => simp at hlen
    | cons hb0 hbt =>
      obtain ⟨hc, hq⟩ := hlive 0 (Nat.zero_le _)
      simp only [List.take_zero, ticks, List.map_nil, runFrom] at hc hq
      cases hact : s.active with
      | nil => rw [hact] at hmem; simp at hmem
      | cons hd rest =>
        have hne : hd ≠ id := by
          intro e; rw [hact, e] at hk; simp at hk
        have hid : id ∈ rest := by
          rw [hact] at hmem
          rcases List.mem_cons.mp hmem with e | hm
          · exact absurd e.symm hne
          · exact hm
        obtain ⟨hmem1, hidx1, hstr1, hquota1⟩ := tick_position h hc hq hact hid hb0
        have hk1 : (step s (.tick hb0)).st.active.idxOf id = k := by omega
        have hlive1 : ∀ j, j ≤ k → (runFrom (step s (.tick hb0)).st (ticks (hbt.take j))).1.closed = false ∧
            (runFrom (step s (.tick hb0)).st (ticks (hbt.take j))).1.sendQuota ≠ 0 := by
          intro j hj
          have := hlive (j + 1) (by omega)
          simpa [ticks, runFrom] using this
        obtain ⟨off, hl, d, es, tl, hitems, hres⟩ := ih (step_wf h (.tick hb0)) hbt (by simpa using hlen) hmem1 hk1 hlive1
        refine ⟨off, hl, d, es, tl, by rw [← hstr1]; exact hitems, ?_⟩
        simp only [List.take_succ_cons, ticks, List.map_cons, runFrom, List.getD_cons_succ]
        rw [hquota1] at hres
        exact hres

end GrpcProofs.Loopy
