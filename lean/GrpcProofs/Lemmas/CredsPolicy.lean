/-
Helper lemmas for C58 (model: GrpcModel/Model/CredsPolicy.lean).
-/
import GrpcModel.Model.CredsPolicy
namespace GrpcProofs.Lemmas.CredsPolicy
open GrpcModel.CredsPolicy GrpcModel.Generated

/-! ### numeric levels (through the T4-generated iota order) -/

theorem num_invalid : Level.num .invalid = 0 := by decide
theorem num_none : Level.num .none = 1 := by decide
theorem num_integrityOnly : Level.num .integrityOnly = 2 := by decide
theorem num_privacyAndIntegrity : Level.num .privacyAndIntegrity = 3 := by decide

/-- the handshake-time test of NewHTTP2Client rejects a credential iff it requires security and
    the level is known and below PrivacyAndIntegrity -/
theorem handshakeRejects_eq (ai : Auth) (cd : Cred) : handshakeRejects ai cd = (cd.require && ai.weak) := by
  cases hr : cd.require <;> cases ai <;> simp [handshakeRejects, hr, Auth.common?, Auth.weak]
  rename_i l
  cases l <;> decide

/-- CheckSecurityLevel(ai, PrivacyAndIntegrity) fails iff the level is known-below or AuthInfo is nil -/
theorem checkSecurityLevel_pi (ai : Auth) :
    checkSecurityLevel ai .privacyAndIntegrity = !(ai.weak || ai == .nilInfo) := by
  cases ai
  · decide
  · decide
  · rename_i l; cases l <;> decide

/-! ### lists of named credentials -/

theorem any_nameDial (f : Cred → Bool) (l : List Cred) (i : Nat) :
    (nameDial i l).any (fun nc => f nc.2) = l.any f := by
  induction l generalizing i with
  | nil => rfl
  | cons a t ih => simp [nameDial, ih]

theorem mem_nameDial {nc : Name × Cred} {l : List Cred} {i : Nat} (h : nc ∈ nameDial i l) : nc.2 ∈ l := by
  induction l generalizing i with
  | nil => simp [nameDial] at h
  | cons a t ih =>
    simp only [nameDial, List.mem_cons] at h
    rcases h with h | h
    · subst h; simp
    · exact List.mem_cons_of_mem _ (ih h)

/-- requirement carried by the bundle's credential when a bundle is in use -/
def bundleReq (c : Config) : Bool :=
  c.via.hasBundle && match c.bundle with | some b => b.require | none => false

def callReq (c : Config) : Bool := match c.call with | some cr => cr.require | none => false

theorem anyRequire_eq (c : Config) : c.anyRequire = (c.dial.any (·.require) || bundleReq c || callReq c) := rfl

theorem any_connCreds_require (c : Config) :
    (connCreds c).any (fun nc => nc.2.require) = (c.dial.any (·.require) || bundleReq c) := by
  unfold connCreds bundleReq
  rw [List.any_append, any_nameDial (fun cd => cd.require)]
  cases c.via.hasBundle <;> cases c.bundle <;> simp

theorem any_and_const {α} (l : List α) (p : α → Bool) (b : Bool) :
    l.any (fun x => p x && b) = (l.any p && b) := by
  induction l with
  | nil => simp
  | cons a t ih => simp only [List.any_cons, ih]; cases p a <;> cases b <;> simp

theorem any_connCreds_rejects (c : Config) (ai : Auth) :
    (connCreds c).any (fun nc => handshakeRejects ai nc.2) = ((c.dial.any (·.require) || bundleReq c) && ai.weak) := by
  have : (fun nc : Name × Cred => handshakeRejects ai nc.2) = (fun nc => nc.2.require && ai.weak) := by
    funext nc; exact handshakeRejects_eq ai nc.2
  rw [this, any_and_const (connCreds c) (fun nc => nc.2.require), any_connCreds_require]

theorem connCreds_sub_allCreds (c : Config) {nc : Name × Cred} (h : nc ∈ connCreds c) : nc.2 ∈ c.allCreds := by
  unfold connCreds at h
  unfold Config.allCreds
  rw [List.mem_append] at h
  rcases h with h | h
  · exact List.mem_append_left _ (List.mem_append_left _ (mem_nameDial h))
  · apply List.mem_append_left; apply List.mem_append_right
    cases hb : c.via.hasBundle <;> cases hc : c.bundle <;> simp [hb, hc] at h ⊢
    subst h; rfl

/-! ### well-formed metadata never fails -/

theorem addPairs_some (md : List (Key × Bytes)) (m : AuthMap)
    (h : ∀ kv ∈ md, validatePair (lowerKey kv.1) kv.2 = true) : ∃ m', addPairs m md = some m' := by
  induction md generalizing m with
  | nil => exact ⟨m, rfl⟩
  | cons kv t ih =>
    obtain ⟨k, v⟩ := kv
    have hk := h (k, v) (by simp)
    simp only [addPairs, hk, if_true]
    exact ih _ (fun x hx => h x (List.mem_cons_of_mem _ hx))

theorem Cred.valid_iff (cr : Cred) : cr.valid = true ↔ ∀ kv ∈ cr.md, validatePair (lowerKey kv.1) kv.2 = true := by
  simp [Cred.valid, List.all_eq_true]

theorem getTrAuthData_ok (l : List (Name × Cred)) (m : AuthMap) (h : ∀ nc ∈ l, nc.2.valid = true) :
    ∃ tr, getTrAuthData m l = (l.map (·.1), .ok tr) := by
  induction l generalizing m with
  | nil => exact ⟨m, rfl⟩
  | cons nc t ih =>
    obtain ⟨n, cr⟩ := nc
    have hv := (Cred.valid_iff cr).1 (h (n, cr) (by simp))
    obtain ⟨m', hm'⟩ := addPairs_some cr.md m hv
    obtain ⟨tr, htr⟩ := ih m' (fun x hx => h x (List.mem_cons_of_mem _ hx))
    exact ⟨tr, by simp [getTrAuthData, hm', htr]⟩

/-! ### the decision in spec form -/

inductive Class
  | dialErr (e : DialErr) | connErr (e : ConnErr) | unauth | otherErr | sent
deriving DecidableEq, Repr

def classOf : Outcome → Class
  | .dialErr e => .dialErr e
  | .connErr e => .connErr e
  | .rpcErr .unauthenticated _ => .unauth
  | .rpcErr _ _ => .otherErr
  | .sent .. => .sent

/-- The decision, written in the property's vocabulary (`Auth.weak` = level known and below
    PrivacyAndIntegrity), as a function of: transport kind, how configured, and whether a
    dial-level / bundle / call-level credential requires transport security. -/
def specCore (tk : TKind) (via : Via) (dialReq bundleReq callReq : Bool) : Class :=
  if !via.hasTC && !via.hasBundle then .dialErr .nosec
  else if via.hasTC && via.hasBundle then .dialErr .both
  else if via.hasBundle && !via.bundleHasTC then .dialErr .nobundletc
  else if tk.protoInsecure && dialReq then .dialErr .missing
  else match tk.handshake with
    | none => .connErr .handshake
    | some a =>
      if (dialReq || bundleReq) && a.weak then .connErr .insecureCreds
      else if callReq && (a.weak || a == .nilInfo) then .unauth
      else .sent

theorem rpc_class (c : Config) (hv : c.validMD = true) :
    classOf (rpc c) = specCore c.tkind c.via (c.dial.any (·.require)) (bundleReq c) (callReq c) := by
  have hvalid : ∀ nc ∈ connCreds c, nc.2.valid = true := by
    intro nc hnc
    have := connCreds_sub_allCreds c hnc
    simp only [Config.validMD, List.all_eq_true] at hv
    exact hv _ this
  unfold rpc validateTransportCredentials specCore
  by_cases h1 : (!c.via.hasTC && !c.via.hasBundle) = true
  · simp [h1, classOf]
  by_cases h2 : (c.via.hasTC && c.via.hasBundle) = true
  · simp [h1, h2, classOf]
  by_cases h3 : (c.via.hasBundle && !c.via.bundleHasTC) = true
  · simp [h1, h2, h3, classOf]
  by_cases h4 : (c.tkind.protoInsecure && c.dial.any (·.require)) = true
  · simp only [h1, h2, h3, h4, if_true, classOf]; simp
  simp only [h1, h2, h3, h4]
  simp only [Bool.false_eq_true, if_false]
  unfold newHTTP2Client
  cases hh : c.tkind.handshake with
  | none => simp [classOf]
  | some ai =>
    simp only [any_connCreds_rejects]
    by_cases h5 : ((c.dial.any (·.require) || bundleReq c) && ai.weak) = true
    · simp only [h5, if_true, classOf]
    simp only [h5, Bool.false_eq_true, if_false]
    obtain ⟨tr, htr⟩ := getTrAuthData_ok (connCreds c) [] hvalid
    simp only [htr]
    cases hc : c.call with
    | none => simp [getCallAuthData, callReq, hc, classOf]
    | some cr =>
      have hcv : cr.valid = true := by
        simp only [Config.validMD, List.all_eq_true] at hv
        apply hv
        simp [Config.allCreds, hc]
      obtain ⟨m, hm⟩ := addPairs_some cr.md [] ((Cred.valid_iff cr).1 hcv)
      simp only [getCallAuthData, callReq, hc, checkSecurityLevel_pi, hm]
      cases cr.require <;> cases hw : (ai.weak || ai == .nilInfo) <;> simp [classOf]

/-! ### what is in the header map: exactly the credentials' pairs, later overriding earlier -/

/-- `m[k]` -/
def get? : AuthMap → Key → Option Bytes
  | [], _ => none
  | (k', v) :: rest, k => if k = k' then some v else get? rest k

theorem get?_set (m : AuthMap) (k k' : Key) (v : Bytes) :
    get? (m.set k v) k' = if k' = k then some v else get? m k' := by
  induction m with
  | nil => simp [AuthMap.set, get?]
  | cons a t ih =>
    obtain ⟨ka, va⟩ := a
    simp only [AuthMap.set]
    by_cases h1 : k = ka
    · subst h1; simp only [if_true, get?]; by_cases h : k' = k <;> simp [h]
    · simp only [h1, if_false]
      by_cases h2 : keyLt k ka = true
      · simp only [h2, if_true, get?]
      · simp only [h2, Bool.false_eq_true, if_false, get?, ih]
        by_cases h3 : k' = ka
        · subst h3; simp [Ne.symm h1]
        · simp [h3]

/-- value of key `k` after assigning the (lower-cased) pairs in order on top of `init` -/
def overlay (init : Option Bytes) (md : List (Key × Bytes)) (k : Key) : Option Bytes :=
  md.foldl (fun acc kv => if k = lowerKey kv.1 then some kv.2 else acc) init

theorem addPairs_get? (md : List (Key × Bytes)) (m m' : AuthMap) (h : addPairs m md = some m') (k : Key) :
    get? m' k = overlay (get? m k) md k := by
  induction md generalizing m with
  | nil => simp only [addPairs, Option.some.injEq] at h; subst h; rfl
  | cons kv t ih =>
    obtain ⟨k0, v0⟩ := kv
    simp only [addPairs] at h
    split at h
    · rw [ih _ h, get?_set]; rfl
    · cases h

theorem getTrAuthData_get? (l : List (Name × Cred)) (m tr : AuthMap) (inv : List Name)
    (h : getTrAuthData m l = (inv, .ok tr)) (k : Key) :
    get? tr k = overlay (get? m k) (l.flatMap (·.2.md)) k := by
  induction l generalizing m inv with
  | nil => simp only [getTrAuthData, Prod.mk.injEq, Except.ok.injEq] at h; rw [← h.2]; rfl
  | cons nc t ih =>
    obtain ⟨n, cr⟩ := nc
    simp only [getTrAuthData] at h
    split at h
    · simp at h
    · rename_i m1 hm1
      simp only [Prod.mk.injEq] at h
      have := ih m1 (getTrAuthData m1 t).1 (Prod.ext rfl h.2)
      rw [this, addPairs_get? _ _ _ hm1]
      simp [overlay, List.foldl_append]

/-- membership: a map only ever contains pairs that were put into it -/
theorem mem_set {m : AuthMap} {k : Key} {v : Bytes} {x : Key × Bytes} (h : x ∈ m.set k v) : x = (k, v) ∨ x ∈ m := by
  induction m with
  | nil => simp [AuthMap.set] at h; exact Or.inl h
  | cons a t ih =>
    obtain ⟨ka, va⟩ := a
    simp only [AuthMap.set] at h
    split at h
    · simp only [List.mem_cons] at h ⊢; rcases h with h | h
      · exact Or.inl h
      · exact Or.inr (Or.inr h)
    · split at h
      · simp only [List.mem_cons] at h ⊢; exact h
      · simp only [List.mem_cons] at h ⊢; rcases h with h | h
        · exact Or.inr (Or.inl h)
        · rcases ih h with h | h
          · exact Or.inl h
          · exact Or.inr (Or.inr h)

theorem mem_addPairs {md : List (Key × Bytes)} {m m' : AuthMap} (h : addPairs m md = some m') {x : Key × Bytes}
    (hx : x ∈ m') : x ∈ m ∨ ∃ kv ∈ md, x = (lowerKey kv.1, kv.2) ∧ validatePair (lowerKey kv.1) kv.2 = true := by
  induction md generalizing m with
  | nil => simp only [addPairs, Option.some.injEq] at h; subst h; exact Or.inl hx
  | cons kv t ih =>
    obtain ⟨k0, v0⟩ := kv
    simp only [addPairs] at h
    split at h
    · rename_i hv
      rcases ih h with h1 | ⟨kv, hkv, he⟩
      · rcases mem_set h1 with h2 | h2
        · exact Or.inr ⟨(k0, v0), by simp, h2, hv⟩
        · exact Or.inl h2
      · exact Or.inr ⟨kv, List.mem_cons_of_mem _ hkv, he⟩
    · cases h

theorem mem_getTrAuthData {l : List (Name × Cred)} {m tr : AuthMap} {inv : List Name}
    (h : getTrAuthData m l = (inv, .ok tr)) {x : Key × Bytes} (hx : x ∈ tr) :
    x ∈ m ∨ ∃ nc ∈ l, ∃ kv ∈ nc.2.md, x = (lowerKey kv.1, kv.2) ∧ validatePair (lowerKey kv.1) kv.2 = true := by
  induction l generalizing m inv with
  | nil => simp only [getTrAuthData, Prod.mk.injEq, Except.ok.injEq] at h; rw [← h.2] at hx; exact Or.inl hx
  | cons nc t ih =>
    obtain ⟨n, cr⟩ := nc
    simp only [getTrAuthData] at h
    split at h
    · simp at h
    · rename_i m1 hm1
      simp only [Prod.mk.injEq] at h
      rcases ih (m := m1) (inv := (getTrAuthData m1 t).1) (Prod.ext rfl h.2) with h1 | ⟨nc, hnc, kv, hkv, he⟩
      · rcases mem_addPairs hm1 h1 with h2 | ⟨kv, hkv, he⟩
        · exact Or.inl h2
        · exact Or.inr ⟨(n, cr), by simp, kv, hkv, he⟩
      · exact Or.inr ⟨nc, List.mem_cons_of_mem _ hnc, kv, hkv, he⟩

/-- who was invoked by getTrAuthData is a prefix of the credential names -/
theorem getTrAuthData_inv (l : List (Name × Cred)) (m : AuthMap) :
    ∀ n ∈ (getTrAuthData m l).1, n ∈ l.map (·.1) := by
  induction l generalizing m with
  | nil => simp [getTrAuthData]
  | cons nc t ih =>
    obtain ⟨n0, cr⟩ := nc
    intro n hn
    simp only [getTrAuthData] at hn
    split at hn
    · simp at hn; simp [hn]
    · rename_i m1 _
      simp only [List.mem_cons] at hn
      rcases hn with hn | hn
      · simp [hn]
      · have := ih m1 n hn
        simp only [List.map_cons, List.mem_cons]; exact Or.inr this

theorem c_not_in_nameDial (l : List Cred) (i : Nat) : Name.c ∉ (nameDial i l).map (·.1) := by
  induction l generalizing i with
  | nil => simp [nameDial]
  | cons a t ih => simp [nameDial, ih]

theorem c_not_in_connCreds (c : Config) : Name.c ∉ (connCreds c).map (·.1) := by
  unfold connCreds
  rw [List.map_append, List.mem_append]
  have h1 := c_not_in_nameDial c.dial 0
  cases c.via.hasBundle <;> cases c.bundle <;> simp [h1]

/-! ### inversion of a successful send -/

/-- metadata of the call-level credential (none configured = empty) -/
def callMD (c : Config) : List (Key × Bytes) := match c.call with | some cr => cr.md | none => []

theorem sent_inv (c : Config) (tr call : AuthMap) (inv : List Name) (h : rpc c = .sent tr call inv) :
    validateTransportCredentials c = none ∧
    ∃ ai, c.tkind.handshake = some ai ∧
      ((c.dial.any (·.require) || bundleReq c) && ai.weak) = false ∧
      (callReq c && (ai.weak || ai == .nilInfo)) = false ∧
      (∃ inv1, getTrAuthData [] (connCreds c) = (inv1, .ok tr)) ∧
      addPairs [] (callMD c) = some call := by
  unfold rpc at h
  split at h
  · cases h
  · rename_i hval
    refine ⟨hval, ?_⟩
    unfold newHTTP2Client at h
    cases hh : c.tkind.handshake with
    | none => simp [hh] at h
    | some ai =>
      simp only [hh, any_connCreds_rejects] at h
      refine ⟨ai, rfl, ?_⟩
      by_cases h5 : ((c.dial.any (·.require) || bundleReq c) && ai.weak) = true
      · simp [h5] at h
      · have h5' : ((c.dial.any (·.require) || bundleReq c) && ai.weak) = false := by simpa using h5
        refine ⟨h5', ?_⟩
        simp only [h5'] at h
        simp only [Bool.false_eq_true, if_false] at h
        split at h
        · cases h
        · rename_i inv1 tr1 htr
          split at h
          · cases h
          · rename_i inv2 call1 hcall
            simp only [Outcome.sent.injEq] at h
            obtain ⟨h1, h2, _⟩ := h
            subst h1; subst h2
            cases hc : c.call with
            | none =>
              simp only [hc, getCallAuthData, Prod.mk.injEq, Except.ok.injEq] at hcall
              refine ⟨by simp [callReq, hc], ⟨inv1, htr⟩, ?_⟩
              have h2 := hcall.2
              subst h2
              simp [callMD, hc, addPairs]
            | some cr =>
              simp only [hc, getCallAuthData, checkSecurityLevel_pi] at hcall
              split at hcall
              · simp at hcall
              · rename_i hnot
                split at hcall
                · simp at hcall
                · rename_i m hm
                  simp only [Prod.mk.injEq, Except.ok.injEq] at hcall
                  refine ⟨?_, ⟨inv1, htr⟩, ?_⟩
                  · simp only [callReq, hc]
                    cases hr : cr.require <;> cases hw : (ai.weak || ai == .nilInfo) <;> simp_all
                  · simp [callMD, hc, hm, hcall.2]

theorem weak_call_not_invoked (c : Config) (hw : c.weak = true) (hr : callReq c = true) :
    Name.c ∉ (rpc c).inv := by
  unfold rpc
  split
  · simp [Outcome.inv]
  · unfold newHTTP2Client
    cases hh : c.tkind.handshake with
    | none => simp [Outcome.inv]
    | some ai =>
      have haw : ai.weak = true := by simpa [Config.weak, hh] using hw
      by_cases hrej : ((connCreds c).any fun nc => handshakeRejects ai nc.2) = true
      · simp [hrej, Outcome.inv]
      · have hnot : Name.c ∉ (getTrAuthData [] (connCreds c)).1 :=
          fun hm => c_not_in_connCreds c (getTrAuthData_inv _ _ _ hm)
        simp only [hrej, Bool.false_eq_true, if_false]
        cases hc : c.call with
        | none => simp [callReq, hc] at hr
        | some cr =>
          have hreq : cr.require = true := by simpa [callReq, hc] using hr
          have hcall : getCallAuthData { authInfo := ai, isSecure := true, perRPC := connCreds c } (some cr)
              = ([], .error .unauthenticated) := by
            simp [getCallAuthData, hreq, checkSecurityLevel_pi, haw]
          simp only [hcall]
          split
          · rename_i inv1 code heq
            simp only [Outcome.inv]; rw [← show (getTrAuthData [] (connCreds c)).1 = inv1 from by rw [heq]]; exact hnot
          · rename_i inv1 tr heq
            simp only [Outcome.inv, List.append_nil]
            rw [← show (getTrAuthData [] (connCreds c)).1 = inv1 from by rw [heq]]; exact hnot

end GrpcProofs.Lemmas.CredsPolicy
