import GrpcModel.Model.Health
namespace GrpcProofs.Lemmas.Health
open GrpcModel.Health

/-- no two adjacent equal elements -/
def noDup2 : List Int → Prop
  | a :: b :: t => a ≠ b ∧ noDup2 (b :: t)
  | _ => True

theorem noDup2_append_singleton (l : List Int) (v : Int) :
    noDup2 (l ++ [v]) ↔ noDup2 l ∧ l.getLast? ≠ some v := by
  induction l with
  | nil => simp [noDup2]
  | cons a t ih =>
    cases t with
    | nil => simp [noDup2]
    | cons b t' =>
      have : (a :: b :: t') ++ [v] = a :: b :: (t' ++ [v]) := rfl
      rw [this]
      simp only [noDup2]
      have ih' : noDup2 (b :: (t' ++ [v])) ↔ noDup2 (b :: t') ∧ (b :: t').getLast? ≠ some v := ih
      rw [ih']
      simp [List.getLast?_cons_cons, and_assoc]

/-- what the stream has been given so far: delivered messages plus the one Send is working on -/
def out (x : Watcher) : List Int := x.log ++ x.sending.toList

/-- rules whose arguments are in the domain of the statement: statuses are enum values (>= 0) -/
def Rule.valid : Rule → Prop
  | .set _ v => 0 ≤ v
  | _ => True

inductive ReachV : St → Prop
  | init : ReachV init
  | step {s t : St} (r : Rule) : ReachV s → Rule.valid r → apply s r = some t → ReachV t

theorem ReachV.reach {s : St} (h : ReachV s) : Reach s := by
  induction h with
  | init => exact .init
  | step r _ _ st ih => exact .step r ih st

structure WOK (s : St) (i : Nat) : Prop where
  chain   : noDup2 (out (s.w i))
  sub     : (out (s.w i) ++ (s.w i).slot.toList).Sublist (s.w i).hist
  nn      : ∀ v ∈ (s.w i).hist, 0 ≤ v
  lastE   : (s.w i).alive = true → out (s.w i) = [] → (s.w i).lastSent = -1
  lastN   : (s.w i).alive = true → ∀ v, (out (s.w i)).getLast? = some v → (s.w i).lastSent = v
  slotCur : (s.w i).alive = true → ∀ v, (s.w i).slot = some v → v = cur s (s.w i).svc
  idleCur : (s.w i).alive = true → (s.w i).slot = none → (s.w i).lastSent = cur s (s.w i).svc
  histCur : (s.w i).alive = true → (s.w i).hist.getLast? = some (cur s (s.w i).svc)

structure Inv (s : St) : Prop where
  nnMap : ∀ k v, s.statusMap k = some v → 0 ≤ v
  down  : s.shutdown = true → ∀ k v, s.statusMap k = some v → v = NOT_SERVING
  fresh : ∀ i, s.nw ≤ i → (s.w i).alive = false
  wok   : ∀ i, i < s.nw → WOK s i

theorem cur_nonneg {s : St} (h : ∀ k v, s.statusMap k = some v → 0 ≤ v) (svc : Nat) : 0 ≤ cur s svc := by
  unfold cur
  cases hm : s.statusMap svc with
  | none => simp [SERVICE_UNKNOWN]
  | some v => simpa using h svc v hm

theorem inv_init : Inv init := by
  constructor
  · intro k v h; simp only [init] at h; split at h <;> simp [SERVING] at h; omega
  · intro h; simp [init] at h
  · intro i _; rfl
  · intro i h; simp [init] at h

/-- `put` on a watcher that satisfies the per-stream invariants (new current value `v`) -/
theorem put_ok {x : Watcher} {v : Int} (hv : 0 ≤ v)
    (chain : noDup2 (out x)) (sub : (out x ++ x.slot.toList).Sublist x.hist) (nn : ∀ u ∈ x.hist, 0 ≤ u) :
    noDup2 (out (put x v)) ∧ (out (put x v) ++ (put x v).slot.toList).Sublist (put x v).hist ∧
    (∀ u ∈ (put x v).hist, 0 ≤ u) ∧ (put x v).hist.getLast? = some v := by
  refine ⟨by simpa [put, out] using chain, ?_, ?_, by simp [put]⟩
  · have h1 : (out x).Sublist x.hist := (List.sublist_append_left _ _).trans sub
    simpa [put, out] using List.Sublist.append h1 (List.Sublist.refl [v])
  · intro u hu
    simp only [put, List.mem_append, List.mem_singleton] at hu
    rcases hu with hu | rfl
    · exact nn u hu
    · exact hv

theorem put_fields (x : Watcher) (v : Int) :
    (put x v).svc = x.svc ∧ (put x v).alive = x.alive ∧ (put x v).lastSent = x.lastSent ∧
    out (put x v) = out x ∧ (put x v).slot = some v ∧ (put x v).log = x.log ∧ (put x v).sending = x.sending := by
  simp [put, out]

theorem wok_put {s t : St} {i : Nat} {v : Int} (hv : 0 ≤ v) (h : WOK s i)
    (hw : t.w i = put (s.w i) v) (hc : cur t (s.w i).svc = v) : WOK t i := by
  obtain ⟨c1, c2, c3, c4, c5, c6, c7, c8⟩ := h
  have P := put_ok hv c1 c2 c3
  have F := put_fields (s.w i) v
  constructor <;> rw [hw] <;> grind

theorem wok_same {s t : St} {i : Nat} (h : WOK s i)
    (hw : t.w i = s.w i) (hc : (s.w i).alive = true → cur t (s.w i).svc = cur s (s.w i).svc) : WOK t i := by
  obtain ⟨c1, c2, c3, c4, c5, c6, c7, c8⟩ := h
  constructor <;> rw [hw] <;> grind

theorem step_set (svc : Nat) (v : Int) (hv : 0 ≤ v) {s t : St} (h : Inv s) (st : apply s (.set svc v) = some t) :
    Inv t := by
  obtain ⟨h1, h2, h3, h4⟩ := h
  simp only [apply] at st
  split at st <;> simp at st <;> subst st
  · exact ⟨h1, h2, h3, h4⟩
  · rename_i hs
    refine ⟨?_, ?_, ?_, ?_⟩
    · intro k u hk; simp only at hk; split at hk
      · simp at hk; omega
      · exact h1 k u hk
    · intro hd; simp_all
    · intro i hi; have := h3 i hi; simp only; split <;> simp_all
    · intro i hi
      by_cases hc : (s.w i).alive = true ∧ (s.w i).svc = svc
      · exact wok_put hv (h4 i hi) (by simp [hc]) (by simp [cur, hc])
      · apply wok_same (h4 i hi) (by simp [hc])
        intro ha
        have : (s.w i).svc ≠ svc := fun e => hc ⟨ha, e⟩
        simp [cur, this]

/-- Shutdown / Resume: every registered service gets `v`, every stream of a registered service is told -/
theorem setAll_inv (v : Int) (hv : 0 ≤ v) (b : Bool) (hb : b = true → v = NOT_SERVING) {s : St} (h : Inv s) :
    Inv { setAll s v with shutdown := b } := by
  obtain ⟨h1, h2, h3, h4⟩ := h
  refine ⟨?_, ?_, ?_, ?_⟩
  · intro k u hk
    simp only [setAll] at hk
    cases hm : s.statusMap k <;> simp [hm] at hk
    omega
  · intro hd k u hk
    simp only [setAll] at hk
    cases hm : s.statusMap k <;> simp [hm] at hk
    rw [← hk]; exact hb hd
  · intro i hi; have := h3 i hi; simp only [setAll]; split <;> simp_all
  · intro i hi
    by_cases hc : (s.w i).alive = true ∧ (s.statusMap (s.w i).svc).isSome = true
    · apply wok_put hv (h4 i hi) (by simp [setAll, hc])
      obtain ⟨u, hu⟩ := Option.isSome_iff_exists.mp hc.2
      simp [cur, setAll, hu]
    · apply wok_same (h4 i hi) (by simp only [setAll]; rw [if_neg hc])
      intro ha
      have : s.statusMap (s.w i).svc = none := by
        cases hm : s.statusMap (s.w i).svc with
        | none => rfl
        | some u => exact absurd ⟨ha, by simp [hm]⟩ hc
      simp [cur, setAll, this]

theorem step_shutdown {s t : St} (h : Inv s) (st : apply s .shutdown = some t) : Inv t := by
  simp only [apply] at st; simp at st; subst st
  exact setAll_inv NOT_SERVING (by decide) true (fun _ => rfl) h

theorem step_resume {s t : St} (h : Inv s) (st : apply s .resume = some t) : Inv t := by
  simp only [apply] at st; simp at st; subst st
  exact setAll_inv SERVING (by decide) false (by simp) h

theorem wok_frame {s t : St} {j : Nat} (h : WOK s j) (hw : t.w j = s.w j) (hm : t.statusMap = s.statusMap) :
    WOK t j := wok_same h hw (fun _ => by simp [cur, hm])

theorem step_watch (svc : Nat) {s t : St} (h : Inv s) (st : apply s (.watch svc) = some t) : Inv t := by
  obtain ⟨h1, h2, h3, h4⟩ := h
  simp only [apply] at st; simp at st; subst st
  refine ⟨h1, h2, ?_, ?_⟩
  · intro i hi; simp only [setW] at hi ⊢; rw [if_neg (by omega)]; exact h3 i (by omega)
  · intro i hi
    simp only at hi
    by_cases e : i = s.nw
    · subst e
      have c0 := cur_nonneg h1 svc
      constructor <;> simp [setW, out, noDup2, cur] <;> (try simpa [cur] using c0)
    · exact wok_frame (h4 i (by omega)) (by simp [setW, e]) rfl

theorem step_recv (i : Nat) {s t : St} (h : Inv s) (st : apply s (.recv i) = some t) : Inv t := by
  obtain ⟨h1, h2, h3, h4⟩ := h
  simp only [apply] at st
  split at st
  · rename_i hg
    obtain ⟨c1, c2, c3, c4, c5, c6, c7, c8⟩ := h4 i hg.1
    have hout : out (s.w i) = (s.w i).log := by simp [out, hg.2.2]
    split at st
    · simp at st
    · rename_i v hv
      split at st <;> simp at st <;> subst st
      · -- lastSent = v: skipped
        rename_i heq
        refine ⟨h1, h2, ?_, ?_⟩
        · intro j hj; have := h3 j hj; simp only [setW]; split <;> simp_all
        · intro j hj
          by_cases e : j = i
          · subst e
            have hsub : (out (s.w j)).Sublist (s.w j).hist := (List.sublist_append_left _ _).trans c2
            constructor <;> simp only [setW, if_true, cur] <;> (try simp [out, hg.2.2]) <;> grind [cur, out]
          · exact wok_frame (h4 j hj) (by simp [setW, e]) rfl
      · rename_i hne
        refine ⟨h1, h2, ?_, ?_⟩
        · intro j hj; have := h3 j hj; simp only [setW]; split <;> simp_all
        · intro j hj
          by_cases e : j = i
          · subst e
            have hch : noDup2 ((s.w j).log ++ [v]) := by
              rw [noDup2_append_singleton]
              refine ⟨by simpa [hout] using c1, ?_⟩
              intro hl
              exact hne (c5 hg.2.1 v (by simpa [hout] using hl))
            have hsub : ((s.w j).log ++ [v]).Sublist (s.w j).hist := by simpa [hout, hv] using c2
            have hcur := c6 hg.2.1 v hv
            constructor <;> simp only [setW, if_true, cur] <;> (try simp [out]) <;> grind [cur, out]
          · exact wok_frame (h4 j hj) (by simp [setW, e]) rfl
  · simp at st

theorem noDup2_prefix (l : List Int) (v : Int) (h : noDup2 (l ++ [v])) : noDup2 l :=
  ((noDup2_append_singleton l v).mp h).1

theorem step_sendOk (i : Nat) {s t : St} (h : Inv s) (st : apply s (.sendOk i) = some t) : Inv t := by
  obtain ⟨h1, h2, h3, h4⟩ := h
  simp only [apply] at st
  split at st
  · rename_i hg
    obtain ⟨c1, c2, c3, c4, c5, c6, c7, c8⟩ := h4 i hg.1
    split at st <;> simp at st; subst st
    rename_i v hv
    have hout : out (s.w i) = (s.w i).log ++ [v] := by simp [out, hv]
    refine ⟨h1, h2, ?_, ?_⟩
    · intro j hj; have := h3 j hj; simp only [setW]; split <;> simp_all
    · intro j hj
      by_cases e : j = i
      · subst e
        constructor <;> simp only [setW, if_true, cur] <;> (try simp [out]) <;> grind [cur, out]
      · exact wok_frame (h4 j hj) (by simp [setW, e]) rfl
  · simp at st

theorem step_leave (i : Nat) {s t : St} (h : Inv s) (st : apply s (.leave i) = some t) : Inv t := by
  obtain ⟨h1, h2, h3, h4⟩ := h
  simp only [apply] at st
  split at st <;> simp at st; subst st
  rename_i hg
  obtain ⟨c1, c2, c3, c4, c5, c6, c7, c8⟩ := h4 i hg.1
  refine ⟨h1, h2, ?_, ?_⟩
  · intro j hj; have := h3 j hj; simp only [setW]; split <;> simp_all
  · intro j hj
    by_cases e : j = i
    · subst e
      have hl : noDup2 (s.w j).log := by
        cases hs : (s.w j).sending with
        | none => simpa [out, hs] using c1
        | some v => exact noDup2_prefix _ v (by simpa [out, hs] using c1)
      have hsub : ((s.w j).log ++ (s.w j).slot.toList).Sublist (s.w j).hist := by
        refine List.Sublist.trans ?_ c2
        simp only [out, List.append_assoc]
        exact List.Sublist.append (List.Sublist.refl _) (List.sublist_append_right _ _)
      constructor <;> simp only [setW, if_true] <;> (try simp [out]) <;> grind [out]
    · exact wok_frame (h4 j hj) (by simp [setW, e]) rfl

theorem step_inv {s t : St} (r : Rule) (hv : Rule.valid r) (h : Inv s) (st : apply s r = some t) : Inv t := by
  cases r with
  | set svc v => exact step_set svc v hv h st
  | shutdown => exact step_shutdown h st
  | resume => exact step_resume h st
  | watch svc => exact step_watch svc h st
  | recv i => exact step_recv i h st
  | sendOk i => exact step_sendOk i h st
  | leave i => exact step_leave i h st

theorem reach_inv {s : St} (h : ReachV s) : Inv s := by
  induction h with
  | init => exact inv_init
  | step r _ hv st ih => exact step_inv r hv ih st

end GrpcProofs.Lemmas.Health
