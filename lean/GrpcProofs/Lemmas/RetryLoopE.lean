/-
Helper lemmas about GrpcModel.RetryLoop, part E (see RetryLoopA.lean).
-/
import GrpcProofs.Lemmas.RetryLoopD
namespace GrpcProofs.Lemmas.RetryLoop
open GrpcModel.Retry GrpcModel.RetryLoop GrpcProofs.Lemmas.Retry

/-! ### csAttempt.finish exactly once (C23) -/

/-- Done bookkeeping: every attempt but the current one has been finished exactly once, no attempt
    more than once, and after `clientStream.finish` every attempt exactly once. -/
structure FInv (st : St) : Prop where
  older : ∀ a ∈ st.atts.dropLast, a.finishCalls = 1
  most : ∀ a ∈ st.atts, a.finishCalls ≤ 1
  fin : st.cs.finished = true → (∀ a ∈ st.atts, a.finishCalls = 1) ∧ st.cs.committed = true

theorem updCur_dropLast (st : St) (f : Att → Att) : (st.updCur f).atts.dropLast = st.atts.dropLast := by
  cases h : st.cur with
  | none => rw [updCur_none st f h]
  | some a => rw [updCur_some st f a h]; simp

/-- updating the current attempt without touching its finish count -/
theorem updCur_finv (st : St) (f : Att → Att) (hf : ∀ a, (f a).finishCalls = a.finishCalls) (h : FInv st) :
    FInv (st.updCur f) := by
  have hcs := (updCur_same st f).cs
  refine ⟨?_, ?_, ?_⟩
  · rw [updCur_dropLast]; exact h.older
  · intro x hx
    rcases mem_updCur st f x hx with hx | ⟨a, hc, rfl⟩
    · exact h.most x hx
    · rw [hf]; exact h.most a (cur_mem st a hc)
  · intro hfin
    rw [hcs] at hfin ⊢
    refine ⟨?_, (h.fin hfin).2⟩
    intro x hx
    rcases mem_updCur st f x hx with hx | ⟨a, hc, rfl⟩
    · exact (h.fin hfin).1 x hx
    · rw [hf]; exact (h.fin hfin).1 a (cur_mem st a hc)

theorem write_finv (st : St) (w : Wire) (h : FInv st) : FInv (st.write w).1 := by
  unfold St.write
  split_ifs
  · exact h
  · exact updCur_finv st _ (fun _ => rfl) h

theorem react_finv (st : St) (h : FInv st) : FInv { st with atts := react st.atts } := by
  have key : ∀ a : Att, (if (!a.answered && !a.reset && a.beh.kind != .never && a.due) = true then { a with answered := true } else a).finishCalls = a.finishCalls := by
    intro a; split_ifs <;> rfl
  refine ⟨?_, ?_, ?_⟩
  · intro x hx
    simp only [react, ← List.map_dropLast, List.mem_map] at hx
    obtain ⟨a, ha, rfl⟩ := hx
    rw [key]; exact h.older a ha
  · intro x hx
    simp only [react, List.mem_map] at hx
    obtain ⟨a, ha, rfl⟩ := hx
    rw [key]; exact h.most a ha
  · intro hfin
    refine ⟨?_, (h.fin hfin).2⟩
    intro x hx
    simp only [react, List.mem_map] at hx
    obtain ⟨a, ha, rfl⟩ := hx
    rw [key]; exact (h.fin hfin).1 a ha

theorem applyOp_finv (st : St) (op : COp) (h : FInv st) : FInv (st.applyOp op).1 := by
  cases op with
  | send size =>
    simp only [St.applyOp]
    repeat' split_ifs
    all_goals first
      | exact write_finv st _ h
      | exact write_finv _ _ (write_finv st _ h)
  | half => exact write_finv st _ h
  | recv =>
    have h1 := react_finv st h
    have h2 := updCur_finv _ (fun a => { a with respRead := 1 }) (fun _ => rfl) h1
    have h3 : FInv { ({ st with atts := react st.atts } : St).updCur (fun a => { a with respRead := 1 }) with recvFirst := true } :=
      ⟨h2.older, h2.most, h2.fin⟩
    simp only [St.applyOp]
    repeat' (first | split_ifs | split)
    all_goals first
      | exact h1
      | exact h3
  | header =>
    have h1 := react_finv st h
    simp only [St.applyOp]
    repeat' (first | split_ifs | split)
    all_goals exact h1

/-- `csAttempt.finish` on the current attempt: afterwards every attempt has been finished exactly once -/
theorem finishAttempt_all (st : St) (code : Nat) (ho : ∀ a ∈ st.atts.dropLast, a.finishCalls = 1)
    (hm : ∀ a ∈ st.atts, a.finishCalls ≤ 1) : ∀ x ∈ (st.finishAttempt code).atts, x.finishCalls = 1 := by
  intro x hx
  unfold St.finishAttempt at hx
  cases hc : st.cur with
  | none =>
    rw [updCur_none st _ hc] at hx
    have : st.atts = [] := List.getLast?_eq_none_iff.mp hc
    rw [this] at hx; cases hx
  | some a =>
    rw [updCur_some st _ a hc] at hx
    simp only [List.mem_append, List.mem_singleton] at hx
    rcases hx with hx | hx
    · exact ho x hx
    · subst hx
      by_cases hpos : a.finishCalls > 0
      · simp only [hpos, if_true]
        have := hm a (cur_mem st a hc); omega
      · simp only [hpos, if_false]

theorem finishAttempt_finv (st : St) (code : Nat) (h : FInv st) :
    FInv (st.finishAttempt code) ∧ (∀ a ∈ (st.finishAttempt code).atts, a.finishCalls = 1) := by
  have hcs := (finishAttempt_same st code).cs
  have hmem := finishAttempt_all st code h.older h.most
  refine ⟨⟨?_, ?_, ?_⟩, hmem⟩
  · intro x hx; exact hmem x (List.mem_of_mem_dropLast hx)
  · intro x hx; rw [hmem x hx]
  · intro hfin; rw [hcs] at hfin ⊢; exact ⟨hmem, (h.fin hfin).2⟩

theorem commit_finv (st : St) (h : FInv st) : FInv st.commit :=
  ⟨h.older, h.most, fun hf => ⟨(h.fin hf).1, rfl⟩⟩

theorem buffer_finv (st : St) (sz : Int) (op : ROp) (h : FInv st) : FInv (st.buffer sz op) := by
  simp only [St.buffer]
  split_ifs
  · exact h
  · exact commit_finv _ ⟨h.older, h.most, h.fin⟩
  · exact ⟨h.older, h.most, h.fin⟩

theorem sr_finished (dis : Bool) (pol : Option Policy) (cs : CS) (a : Attempt) (r : ℚ) (h : cs.finished = true) :
    (shouldRetry dis pol cs a r).2 = .noRetry := by
  unfold shouldRetry; simp [h]

theorem decideRetry_finv (st : St) (raw : Raw) (h : FInv st) :
    FInv (st.decideRetry raw).1 ∧ (∀ a ∈ (st.decideRetry raw).1.atts, a.finishCalls = 1) ∧
    (st.cs.finished = true → (st.decideRetry raw).2 = .noRetry) := by
  obtain ⟨h2, hall⟩ := finishAttempt_finv st raw.code h
  have hs := finishAttempt_same st raw.code
  simp only [St.decideRetry]
  split
  · exact ⟨h2, hall, fun _ => rfl⟩
  next a _ =>
    have hf := sr_other_fields (st.finishAttempt raw.code).disableRetry (st.finishAttempt raw.code).pol
      (st.finishAttempt raw.code).cs (attemptView a) 0
    refine ⟨⟨h2.older, h2.most, ?_⟩, hall, ?_⟩
    · intro hfin
      simp only at hfin ⊢
      rw [hf.2.1] at hfin
      rw [hf.2.2.1]
      exact h2.fin hfin
    · intro hfin
      apply sr_finished
      rw [hs.cs]; exact hfin


/-- the buffer of a started, uncommitted RPC begins with its only stream-creating op -/
def OnceInv (st : St) : Prop := st.cs.committed = false → st.atts.length ≠ 0 → startsOnce st.replay = true

theorem write_replay (st : St) (w : Wire) : (st.write w).1.replay = st.replay := by
  unfold St.write
  split_ifs
  · rfl
  · exact (updCur_same st _).replay

theorem applyOp_replay (st : St) (op : COp) : (st.applyOp op).1.replay = st.replay := by
  cases op with
  | send size =>
    simp only [St.applyOp]
    repeat' split_ifs
    all_goals first
      | exact write_replay st _
      | exact (write_replay _ _).trans (write_replay st _)
  | half => exact write_replay st _
  | recv =>
    have h2 := (updCur_same ({ st with atts := react st.atts } : St) (fun a => { a with respRead := 1 })).replay
    simp only [St.applyOp]
    repeat' (first | split_ifs | split)
    all_goals first
      | rfl
      | exact h2
  | header =>
    simp only [St.applyOp]
    repeat' (first | split_ifs | split)
    all_goals rfl

theorem replayAll_replay (st : St) : st.replayAll.1.replay = st.replay := by
  unfold St.replayAll
  generalize hr : st.replay = r
  have key : ∀ (r : List ROp) (s : St) (evs : List Ev),
      (r.foldl (fun (acc : St × List Ev) op =>
        let (s, evs) := acc
        match op with
        | .start => let (s', e) := s.newAttempt; (s', evs ++ e)
        | .msg q z =>
          let (s', _, e) := s.write (.msg q z)
          if s.clientStreams then (s', evs ++ e)
          else let (s'', _, e2) := s'.write .half; (s'', evs ++ e ++ e2)
        | .half => let (s', _, e) := s.write .half; (s', evs ++ e)) (s, evs)).1.replay = s.replay := by
    intro r
    induction r with
    | nil => intro s evs; rfl
    | cons o r ih =>
      intro s evs
      simp only [List.foldl_cons]
      cases o with
      | start => exact (ih _ _).trans rfl
      | msg q z =>
        simp only
        split_ifs
        · exact (ih _ _).trans (write_replay s _)
        · exact (ih _ _).trans ((write_replay _ _).trans (write_replay s _))
      | half => exact (ih _ _).trans (write_replay s _)
  exact (key r st []).trans hr

theorem buffer_once (st : St) (sz : Int) (op : ROp) (hop : op ≠ .start) (h : OnceInv st) : OnceInv (st.buffer sz op) := by
  simp only [St.buffer, OnceInv]
  split_ifs with hc
  · exact h
  · intro hf; simp [St.commit] at hf
  · intro _ hs
    exact startsOnce_append _ _ (h (by simpa using hc) hs) hop

/-- FInv together with OnceInv is kept by `withRetry` -/
def FO (st : St) : Prop := FInv st ∧ OnceInv st

/-- what is known, for the Done bookkeeping, about a positive decision: every existing attempt has
    been finished, the RPC is neither finished nor committed, and there is an attempt -/
def JF (st : St) (_d : Decision) : Prop :=
  (∀ a ∈ st.atts, a.finishCalls = 1) ∧ st.cs.finished = false ∧ st.cs.committed = false ∧ st.atts.length ≠ 0

theorem decideRetry_replay (st : St) (raw : Raw) : (st.decideRetry raw).1.replay = st.replay := by
  have := (finishAttempt_same st raw.code).replay
  simp only [St.decideRetry]; split <;> exact this

theorem decideRetry_jf (st : St) (raw : Raw) (h : FO st)
    (hn : (st.decideRetry raw).2 ≠ .noRetry) (he : (st.decideRetry raw).2 ≠ .exhausted) :
    JF (st.decideRetry raw).1 (st.decideRetry raw).2 := by
  obtain ⟨h3, hall, hfin⟩ := decideRetry_finv st raw h.1
  -- a positive decision is only taken while uncommitted and not finished
  have hunf : st.cs.finished = false ∧ st.cs.committed = false := by
    rcases decideRetry_spec st raw with ⟨h1, _⟩ | ⟨a, h1, _, _⟩
    · exact absurd h1 hn
    · cases hd : (st.decideRetry raw).2 with
      | noRetry => exact absurd hd hn
      | exhausted => exact absurd hd he
      | transparent =>
        obtain ⟨hf, hc, _⟩ := sr_transparent_conditions st.disableRetry st.pol st.cs (attemptView a) 0 (by rw [← h1, hd])
        exact ⟨hf, hc⟩
      | backoff dur fp =>
        obtain ⟨pb, rp, hs, _⟩ := sr_backoff_conditions st.disableRetry st.pol st.cs (attemptView a) 0 dur fp (by rw [← h1, hd])
        obtain ⟨_, _, _, _, _, hf, hc, _⟩ := stage_charged_pol st.disableRetry st.pol st.cs (attemptView a) pb hs
        exact ⟨hf, hc⟩
  have hu3 : (st.decideRetry raw).1.cs.committed = false := by rw [(decideRetry_keep st raw).1]; exact hunf.2
  have hne3 : (st.decideRetry raw).1.atts.length ≠ 0 := by
    rw [(decideRetry_keep st raw).2.2]
    rcases decideRetry_spec st raw with ⟨h1, _⟩ | ⟨a, _, _, _⟩
    · exact absurd h1 hn
    · intro h0
      have hcur : (st.finishAttempt raw.code).cur = none := by
        have hl := (finishAttempt_same st raw.code).len
        rw [h0] at hl
        simp [St.cur, List.length_eq_zero_iff.mp hl]
      have : (st.decideRetry raw).2 = .noRetry := by simp only [St.decideRetry, hcur]
      exact hn this
  have hfin3 : (st.decideRetry raw).1.cs.finished = false := by
    cases hff : (st.decideRetry raw).1.cs.finished with
    | false => rfl
    | true =>
      have := (h3.fin hff).2
      rw [hu3] at this; cases this
  exact ⟨hall, hfin3, hu3, hne3⟩

theorem startRetry_fo (st : St) (d : Decision) (h : FO st) (hj : JF st d) : FO (st.startRetry d).1 := by
  obtain ⟨hall, hfin, hu, hne⟩ := hj
  have hso : startsOnce st.replay = true := h.2 hu hne
  obtain ⟨rest, hr, hns⟩ := startsOnce_split _ hso
  have hspec := replayAll_spec { st with cs := afterDecision st.cs d } rest hr hns
  have hfin3 : (afterDecision st.cs d).finished = false := by rw [afterDecision_finished]; exact hfin
  unfold St.startRetry
  rw [hspec]
  refine ⟨⟨?_, ?_, ?_⟩, ?_⟩
  · intro x hx
    simp only [List.dropLast_concat] at hx
    exact hall x hx
  · intro x hx
    simp only [List.mem_append, List.mem_singleton] at hx
    rcases hx with hx | hx
    · rw [hall x hx]
    · subst hx; simp [freshAtt]
  · intro hf; simp only at hf; rw [hfin3] at hf; cases hf
  · intro _ _
    simp only
    exact hso

theorem failStep_fo (st : St) (d : Decision) (c : Nat) (h : FO st) (hj : JF st d) :
    FO (st.failStep d c).1 ∧
    ((st.failStep d c).2 ≠ .noRetry → (st.failStep d c).2 ≠ .exhausted → JF (st.failStep d c).1 (st.failStep d c).2) := by
  have hc := failStep_core st d c
  obtain ⟨hall, hfin, hu, hne⟩ := hj
  refine ⟨⟨⟨?_, ?_, ?_⟩, ?_⟩, ?_⟩
  · intro x hx; rw [hc.atts] at hx; exact h.1.older x hx
  · intro x hx; rw [hc.atts] at hx; exact h.1.most x hx
  · intro hf; rw [hc.finished, hfin] at hf; cases hf
  · intro hcm hl
    rw [hc.committed] at hcm; rw [hc.atts] at hl; rw [hc.replay]
    exact h.2 hcm hl
  · intro _ _
    refine ⟨?_, ?_, ?_, ?_⟩
    · intro x hx; rw [hc.atts] at hx; exact hall x hx
    · rw [hc.finished]; exact hfin
    · rw [hc.committed]; exact hu
    · rw [hc.atts]; exact hne

theorem withRetry_fo (fuel : Nat) (st : St) (op : COp) (h : FO st) : FO (St.withRetry fuel st op).1 := by
  apply withRetry_preserves FO JF _ _ _ _ _ _ _ _ fuel st op h
  · intro st op h
    refine ⟨applyOp_finv st op h.1, ?_⟩
    intro hc hs
    rw [applyOp_cs] at hc; rw [(applyOp_rsize st op).2] at hs; rw [applyOp_replay]
    exact h.2 hc hs
  · intro st op h
    cases op <;> simp only [St.onSuccess]
    · exact ⟨buffer_finv _ _ _ h.1, buffer_once _ _ _ (by simp) h.2⟩
    · exact ⟨buffer_finv _ _ _ h.1, buffer_once _ _ _ (by simp) h.2⟩
    · exact ⟨commit_finv _ h.1, fun hf => by simp [St.commit] at hf⟩
    · exact ⟨commit_finv _ h.1, fun hf => by simp [St.commit] at hf⟩
  · intro st raw h
    refine ⟨(decideRetry_finv st raw h.1).1, ?_⟩
    intro hc hs
    rw [(decideRetry_keep st raw).1] at hc
    rw [(decideRetry_keep st raw).2.2] at hs
    rw [decideRetry_replay]; exact h.2 hc hs
  · intro st raw h hn he; exact decideRetry_jf st raw h hn he
  · intro st h; exact ⟨commit_finv _ h.1, fun hf => by simp [St.commit] at hf⟩
  · intro st d rest h hj
    exact ⟨⟨⟨h.1.older, h.1.most, h.1.fin⟩, h.2⟩, hj⟩
  · exact failStep_fo
  · exact startRetry_fo

theorem settle_fo (st : St) (h : FO st) : FO st.settle :=
  ⟨react_finv st h.1, fun hc hl => h.2 hc (by simpa [St.settle, react] using hl)⟩

theorem finish_fo (st : St) (code : Nat) (h : FO st) : FO (st.finish code) ∧
    (∀ a ∈ (st.finish code).atts, a.finishCalls = 1) ∧ (st.finish code).cs.finished = true := by
  by_cases hf : st.cs.finished = true
  · have : st.finish code = st := by simp [St.finish, hf]
    rw [this]; exact ⟨h, (h.1.fin hf).1, hf⟩
  · set s1 : St := ({ st with cs := { st.cs with finished := true } } : St).commit with hs1
    have hall := finishAttempt_all s1 code h.1.older h.1.most
    have hsame := finishAttempt_same s1 code
    have hcs : (s1.finishAttempt code).cs.finished = true ∧ (s1.finishAttempt code).cs.committed = true := by
      rw [hsame.cs]; exact ⟨rfl, rfl⟩
    have hfo : FO (s1.finishAttempt code) := by
      refine ⟨⟨?_, ?_, ?_⟩, ?_⟩
      · intro x hx; exact hall x (List.mem_of_mem_dropLast hx)
      · intro x hx; rw [hall x hx]
      · intro _; exact ⟨hall, hcs.2⟩
      · intro hc; rw [hcs.2] at hc; cases hc
    have hform : st.finish code = s1.finishAttempt code ∨
        st.finish code = { s1.finishAttempt code with cs := { (s1.finishAttempt code).cs with throttler := successOpt (s1.finishAttempt code).cs.throttler } } := by
      simp only [St.finish, hf, Bool.false_eq_true, if_false]
      split_ifs
      · right; rfl
      · left; rfl
    rcases hform with e | e
    · rw [e]; exact ⟨hfo, hall, hcs.1⟩
    · rw [e]
      exact ⟨⟨⟨hfo.1.older, hfo.1.most, fun _ => ⟨hall, hcs.2⟩⟩, fun hc => by simp only at hc; rw [hcs.2] at hc; cases hc⟩, hall, hcs.1⟩

theorem end_fo (st : St) (res : Res) (h : FO st) : FO (st.endSend res) ∧ FO (st.endRecv res) ∧ FO (st.endHeader res) := by
  refine ⟨?_, ?_, ?_⟩
  · unfold St.endSend
    split <;> first
      | exact settle_fo _ (finish_fo _ _ h).1
      | exact settle_fo _ h
  · unfold St.endRecv
    split <;> first
      | exact settle_fo _ (finish_fo _ _ h).1
      | exact settle_fo _ h
  · unfold St.endHeader
    split <;> first
      | exact settle_fo _ (finish_fo _ _ h).1
      | exact settle_fo _ h

theorem opRecv_fo (fuel : Nat) (st : St) (h : FO st) : FO (st.opRecv fuel).1 := by
  unfold St.opRecv
  exact (end_fo _ _ (withRetry_fo fuel st .recv h)).2.1

theorem step_fo (fuel : Nat) (st : St) (op : AppOp) (hop : op ≠ .new) (h : FO st) : FO (st.step fuel op).1 := by
  cases op with
  | new => exact absurd rfl hop
  | cancel => simp only [St.step, St.opCancel]; exact settle_fo _ (finish_fo _ _ h).1
  | send size =>
    simp only [St.step]
    rw [(opSendW_fst fuel st size).1]
    unfold St.opSend
    split_ifs
    · exact settle_fo _ (finish_fo ({ st with seq := st.seq + 1 } : St) 13 ⟨⟨h.1.older, h.1.most, h.1.fin⟩, h.2⟩).1
    · exact (end_fo _ _ (withRetry_fo fuel (st.beginSend size) _ ⟨⟨h.1.older, h.1.most, h.1.fin⟩, h.2⟩)).1
  | close =>
    simp only [St.step]
    unfold St.opClose
    split_ifs
    · exact settle_fo _ h
    · exact settle_fo _ (withRetry_fo fuel st.beginClose _ ⟨⟨h.1.older, h.1.most, h.1.fin⟩, h.2⟩)
  | recv =>
    simp only [St.step, St.opRecvW]
    split_ifs
    · exact opRecv_fo fuel st h
    · split
      · exact opRecv_fo fuel _ (opRecv_fo fuel st h)
      · exact opRecv_fo fuel st h
  | header =>
    simp only [St.step]
    unfold St.opHeader
    exact (end_fo _ _ (withRetry_fo fuel st .header h)).2.2

theorem opNewOk_fo (st : St) (ha : st.atts = []) (hr : st.replay = []) (hc : st.cs.committed = false)
    (hf : st.cs.finished = false) : FO st.opNewOk.1 := by
  unfold St.opNewOk
  apply settle_fo
  simp only [St.newAttempt, St.buffer, hc, Bool.false_eq_true, if_false, ha, hr]
  split_ifs
  · refine ⟨⟨by simp [St.commit], by simp [St.commit], ?_⟩, ?_⟩
    · intro hff; simp [St.commit, hf] at hff
    · intro hcc; simp [St.commit] at hcc
  · refine ⟨⟨by simp, by simp, ?_⟩, ?_⟩
    · intro hff; simp [hf] at hff
    · intro _ _; simp [startsOnce]

/-- a state without attempts satisfies the Done bookkeeping trivially -/
theorem fo_of_no_atts (st : St) (ha : st.atts = []) (hf : st.cs.finished = false) : FO st := by
  refine ⟨⟨by simp [ha], by simp [ha], ?_⟩, ?_⟩
  · intro hff; rw [hf] at hff; cases hff
  · intro _ hl; simp [ha] at hl

theorem opNew_fo (fuel : Nat) (st : St) (ha : st.atts = []) (hr : st.replay = []) (hc : st.cs.committed = false)
    (hf : st.cs.finished = false) : FO (st.opNew fuel).1 := by
  induction fuel generalizing st with
  | zero =>
    rw [St.opNew]
    cases hns : st.nsScript with
    | nil => exact opNewOk_fo st ha hr hc hf
    | cons o rest =>
      cases o with
      | none => exact opNewOk_fo { st with nsScript := rest } ha hr hc hf
      | some c =>
        simp only
        have hsf := sr_other_fields st.disableRetry st.pol st.cs (noStreamView c) 0
        split
        · exact fo_of_no_atts _ ha (by show (shouldRetry _ _ _ _ _).1.finished = false; rw [hsf.2.1]; exact hf)
        · exact fo_of_no_atts _ ha (by show (shouldRetry _ _ _ _ _).1.finished = false; rw [hsf.2.1]; exact hf)
        · exact fo_of_no_atts _ ha (by show (shouldRetry _ _ _ _ _).1.finished = false; rw [hsf.2.1]; exact hf)
  | succ n ih =>
    rw [St.opNew]
    cases hns : st.nsScript with
    | nil => exact opNewOk_fo st ha hr hc hf
    | cons o rest =>
      cases o with
      | none => exact opNewOk_fo { st with nsScript := rest } ha hr hc hf
      | some c =>
        simp only
        have hsf := sr_other_fields st.disableRetry st.pol st.cs (noStreamView c) 0
        split
        · exact fo_of_no_atts _ ha (by show (shouldRetry _ _ _ _ _).1.finished = false; rw [hsf.2.1]; exact hf)
        · exact fo_of_no_atts _ ha (by show (shouldRetry _ _ _ _ _).1.finished = false; rw [hsf.2.1]; exact hf)
        · apply ih
          · exact ha
          · exact hr
          · show (afterDecision _ _).committed = false
            rw [afterDecision_committed, hsf.2.2.1]; exact hc
          · show (afterDecision _ _).finished = false
            rw [afterDecision_finished, hsf.2.1]; exact hf

theorem run_fo (fuel : Nat) (ops : List AppOp) (st : St) (hops : ∀ o ∈ ops, o ≠ .new) (h : FO st) :
    FO (St.run fuel st ops).1 := by
  induction ops generalizing st with
  | nil => exact h
  | cons o os ih =>
    simp only [St.run]
    exact ih _ (fun x hx => hops x (by simp [hx])) (step_fo fuel st o (hops o (by simp)) h)



end GrpcProofs.Lemmas.RetryLoop
