import GrpcModel.Model.LoadStore
/-! Helper lemmas for C50 (model: GrpcModel/Model/LoadStore.lean). -/
namespace GrpcProofs.Lemmas.LoadStore
open GrpcModel.LoadStore

/-! ### lists, thread table -/

@[simp] theorem sumBy_nil (f : α → Nat) : sumBy f [] = 0 := rfl
@[simp] theorem sumBy_cons (f : α → Nat) (a : α) (l : List α) : sumBy f (a :: l) = f a + sumBy f l := by
  simp [sumBy]
@[simp] theorem sumBy_append (f : α → Nat) (l₁ l₂ : List α) : sumBy f (l₁ ++ l₂) = sumBy f l₁ + sumBy f l₂ := by
  simp [sumBy]

theorem sumBy_eq_zero (f : α → Nat) (l : List α) (h : ∀ a ∈ l, f a = 0) : sumBy f l = 0 := by
  induction l with
  | nil => rfl
  | cons a l ih =>
    simp only [sumBy_cons]
    rw [h a (by simp), ih (fun b hb => h b (by simp [hb]))]

theorem sumBy_congr (f g : α → Nat) (l : List α) (h : ∀ a ∈ l, f a = g a) : sumBy f l = sumBy g l := by
  induction l with
  | nil => rfl
  | cons a l ih =>
    simp only [sumBy_cons]
    rw [h a (by simp), ih (fun b hb => h b (by simp [hb]))]

theorem findT_some {ts : List Thread} {tid : Nat} {t : Thread} (h : findT ts tid = some t) : t ∈ ts ∧ t.tid = tid := by
  unfold findT at h
  have h1 := List.mem_of_find?_eq_some h
  have h2 := List.find?_some h
  exact ⟨h1, by simpa using h2⟩

theorem findT_cons (a : Thread) (ts : List Thread) (tid : Nat) :
    findT (a :: ts) tid = if a.tid = tid then some a else findT ts tid := by
  unfold findT
  rw [List.find?_cons]
  by_cases h : a.tid = tid
  · have hb : (a.tid == tid) = true := by simp [h]
    rw [hb]; simp [h]
  · have hb : (a.tid == tid) = false := by simp [h]
    rw [hb]; simp [h]

theorem replaceT_cons (a : Thread) (ts : List Thread) (t' : Thread) :
    replaceT (a :: ts) t' = if a.tid = t'.tid then t' :: ts else a :: replaceT ts t' := by
  by_cases h : a.tid = t'.tid <;> simp [replaceT, h]

theorem sumBy_replaceT (f : Thread → Nat) {ts : List Thread} {t t' : Thread}
    (h : findT ts t'.tid = some t) : sumBy f (replaceT ts t') + f t = sumBy f ts + f t' := by
  induction ts with
  | nil => simp [findT] at h
  | cons a ts ih =>
    rw [findT_cons] at h
    rw [replaceT_cons]
    by_cases ha : a.tid = t'.tid
    · simp only [ha, if_true, Option.some.injEq] at h
      subst h
      simp only [ha, if_true, sumBy_cons]
      omega
    · simp only [ha, if_false] at h
      have := ih h
      simp only [ha, if_false, sumBy_cons]
      omega

theorem mem_replaceT {ts : List Thread} {t' x : Thread} (h : x ∈ replaceT ts t') : x = t' ∨ x ∈ ts := by
  induction ts with
  | nil => simp [replaceT] at h
  | cons a ts ih =>
    rw [replaceT_cons] at h
    split at h
    · simp at h
      rcases h with h | h
      · exact Or.inl h
      · exact Or.inr (by simp [h])
    · simp at h
      rcases h with h | h
      · exact Or.inr (by simp [h])
      · rcases ih h with h | h
        · exact Or.inl h
        · exact Or.inr (by simp [h])

theorem findT_replaceT_self {ts : List Thread} {t t' : Thread} (h : findT ts t'.tid = some t) :
    findT (replaceT ts t') t'.tid = some t' := by
  induction ts with
  | nil => simp [findT] at h
  | cons a ts ih =>
    rw [findT_cons] at h
    rw [replaceT_cons]
    by_cases ha : a.tid = t'.tid
    · simp only [ha, if_true, findT_cons]
    · simp only [ha, if_false] at h
      simp only [ha, if_false, findT_cons]
      exact ih h

theorem findT_replaceT_other {ts : List Thread} {t' : Thread} {tid : Nat} (hne : tid ≠ t'.tid) :
    findT (replaceT ts t') tid = findT ts tid := by
  induction ts with
  | nil => simp [findT, replaceT]
  | cons a ts ih =>
    rw [replaceT_cons]
    have h1 : ¬ t'.tid = tid := fun h => hne h.symm
    by_cases ha : a.tid = t'.tid
    · have h2 : ¬ a.tid = tid := by rw [ha]; exact h1
      simp only [ha, if_true, findT_cons, h1, if_false]
    · simp only [ha, if_false, findT_cons, ih]

theorem findT_append_new {ts : List Thread} {t : Thread} {tid : Nat} (h : findT ts t.tid = none) :
    findT (ts ++ [t]) tid = if tid = t.tid then some t else findT ts tid := by
  unfold findT at *
  rw [List.find?_append]
  by_cases ht : tid = t.tid
  · subst ht
    simp [h]
  · have h1 : ¬ t.tid = tid := fun h => ht h.symm
    simp [ht, h1]

/-! ### case analysis of one action -/

/-- case analysis of `h : act sh t ch = some (sh', t', r)`: one goal per enabled rule instance,
    with sh', t', r substituted -/
macro "act_cases" h:ident : tactic => `(tactic| (
  unfold act at $h:ident
  split at $h:ident
  all_goals (try dsimp only at $h:ident)
  all_goals (try split at $h:ident)
  all_goals (try split at $h:ident)
  all_goals (simp only [Option.some.injEq, Prod.mk.injEq, reduceCtorEq] at $h:ident)
  all_goals (obtain ⟨h1, h2, h3⟩ := $h:ident; subst h1; subst h2; subst h3)))

theorem act_tid {sh t ch sh' t' r} (h : act sh t ch = some (sh', t', r)) : t'.tid = t.tid := by
  act_cases h <;> rfl

def repOpt (r : Option Report) (k : Key) : Nat := match r with | some r => r.val k | none => 0

macro "ledger_tac" : tactic => `(tactic| (
  simp_all [Thread.held, Pc.val, Report.val, LocRep.val, Shared.add1, Shared.clear, upd, addU, u64, repOpt, Report.empty,
    Key.harvested]
  all_goals (try split)
  all_goals (try split)
  all_goals (try subst_vars)
  all_goals (try simp_all)
  all_goals (try omega)))

/-- what one action does to the ledger of a counter emptied with SwapUint64 -/
theorem act_ledger {sh t ch sh' t' r} (k : Key) (hk : k.harvested = true) (hns : ∀ l n, k ≠ .ldSum l n)
    (h : act sh t ch = some (sh', t', r))
    (hw : sh'.applied k < u64) (hm : sh.mem k ≤ sh.applied k) :
    sh'.mem k + t'.held k + repOpt r k + sh.applied k = sh.mem k + t.held k + sh'.applied k := by
  cases k with
  | drop c => act_cases h <;> ledger_tac
  | succ l => act_cases h <;> ledger_tac
  | err l => act_cases h <;> ledger_tac
  | issued l => act_cases h <;> ledger_tac
  | inprog l => simp [Key.harvested] at hk
  | ldCount l n => act_cases h <;> ledger_tac
  | ldSum l n => exact absurd rfl (hns l n)


theorem act_ledger_sum {sh t ch sh' t' r} (l n : Nat) (h : act sh t ch = some (sh', t', r))
    (hw : sh'.applied (.ldCount l n) < u64) (hm : sh.mem (.ldCount l n) ≤ sh.applied (.ldCount l n))
    (hz : sh.mem (.ldCount l n) = 0 → sh.mem (.ldSum l n) = 0) :
    (sh'.mem (.ldSum l n) + t'.held (.ldSum l n) + repOpt r (.ldSum l n) + sh.applied (.ldSum l n)
      = sh.mem (.ldSum l n) + t.held (.ldSum l n) + sh'.applied (.ldSum l n)) ∧
    (sh'.mem (.ldCount l n) = 0 → sh'.mem (.ldSum l n) = 0) := by
  act_cases h <;> ledger_tac <;> (refine ⟨?_, ?_⟩ <;> intros <;> subst_vars <;> simp_all)

theorem act_applied_mono {sh t ch sh' t' r} (k : Key) (h : act sh t ch = some (sh', t', r)) :
    sh.applied k ≤ sh'.applied k := by
  act_cases h <;> simp [Shared.add1, Shared.clear, upd] <;> (try split) <;> (try split) <;> (try subst_vars) <;>
    (try simp_all) <;> (try omega)

/-! ### the ledger invariant -/

def ledger (s : State) (k : Key) : Nat := reported s k + inflight s k + s.sh.mem k

structure LedgerInv (s : State) : Prop where
  main : ∀ k, k.harvested = true → (∀ l n, k ≠ .ldSum l n) → s.sh.applied k < u64 → ledger s k = s.sh.applied k
  sum : ∀ l n, s.sh.applied (.ldCount l n) < u64 →
    ledger s (.ldSum l n) = s.sh.applied (.ldSum l n) ∧ (s.sh.mem (.ldCount l n) = 0 → s.sh.mem (.ldSum l n) = 0)

@[simp] theorem invoke_mem (c : Call) (sh : Shared) : (c.invoke sh).mem = sh.mem := by cases c <;> rfl
@[simp] theorem invoke_applied (c : Call) (sh : Shared) : (c.invoke sh).applied = sh.applied := by cases c <;> rfl
@[simp] theorem invoke_locs (c : Call) (sh : Shared) : (c.invoke sh).locs = sh.locs := by cases c <;> rfl
@[simp] theorem invoke_cats (c : Call) (sh : Shared) : (c.invoke sh).cats = sh.cats := by cases c <;> rfl
@[simp] theorem invoke_decs (c : Call) (sh : Shared) : (c.invoke sh).decs = sh.decs := by cases c <;> rfl
@[simp] theorem invoke_abandoned (c : Call) (sh : Shared) : (c.invoke sh).abandoned = sh.abandoned := by cases c <;> rfl
@[simp] theorem invoke_dropsApplied (c : Call) (sh : Shared) : (c.invoke sh).dropsApplied = sh.dropsApplied := by cases c <;> rfl

theorem entry_val (c : Call) (k : Key) : c.entry.val k = 0 := by cases c <;> cases k <;> rfl
theorem empty_val (tid : Nat) (k : Key) : (Report.empty tid).val k = 0 := by cases k <;> rfl

/-- shape of an enabled `spawn` -/
theorem step?_spawn {s s' : State} {tid : Nat} {c : Call} (h : step? s (.spawn tid c) = some s') :
    findT s.threads tid = none ∧
    s' = { s with sh := c.invoke s.sh,
                  threads := s.threads ++ [{ tid := tid, pc := c.entry, rep := Report.empty tid, vis := [],
                                             need := if c = .stats then s.sh.cats else [], nvis := [], nneed := [] }] } := by
  cases hf : findT s.threads tid with
  | some t => simp [step?, hf] at h
  | none =>
    simp [step?, hf] at h
    exact ⟨rfl, h.symm⟩

/-- shape of an enabled `step` -/
theorem step?_step {s s' : State} {tid : Nat} {ch : Option Nat} (h : step? s (.step tid ch) = some s') :
    ∃ t sh' t' r, findT s.threads tid = some t ∧ act s.sh t ch = some (sh', t', r) ∧
      s' = { sh := sh', threads := replaceT s.threads t', reports := s.reports ++ r.toList } := by
  cases hf : findT s.threads tid with
  | none => simp [step?, hf] at h
  | some t =>
    cases ha : act s.sh t ch with
    | none => simp [step?, hf, ha] at h
    | some x =>
      obtain ⟨sh', t', r⟩ := x
      simp [step?, hf, ha] at h
      exact ⟨t, sh', t', r, rfl, ha, h.symm⟩

theorem reported_append (s : State) (r : Option Report) (k : Key) :
    sumBy (fun r => r.val k) (s.reports ++ r.toList) = reported s k + repOpt r k := by
  cases r <;> simp [reported, repOpt]

theorem ledger_le {s : State} (hi : LedgerInv s) (k : Key) (hk : k.harvested = true) (hns : ∀ l n, k ≠ .ldSum l n)
    (hw : s.sh.applied k < u64) : s.sh.mem k ≤ s.sh.applied k := by
  have := hi.main k hk hns hw
  unfold ledger at this
  omega

theorem step_ledger {s s' : State} {o : Op} (hi : LedgerInv s) (h : step? s o = some s') : LedgerInv s' := by
  cases o with
  | spawn tid c =>
    obtain ⟨_, rfl⟩ := step?_spawn h
    constructor
    · intro k hk hns hw
      have := hi.main k hk hns (by simpa using hw)
      simp only [ledger, reported, inflight, sumBy_append, sumBy_cons, sumBy_nil, Thread.held, entry_val, empty_val,
        invoke_mem, invoke_applied] at *
      omega
    · intro l n hw
      have := hi.sum l n (by simpa using hw)
      simp only [ledger, reported, inflight, sumBy_append, sumBy_cons, sumBy_nil, Thread.held, entry_val, empty_val,
        invoke_mem, invoke_applied] at *
      omega
  | step tid ch =>
    obtain ⟨t, sh', t', r, hf, ha, rfl⟩ := step?_step h
    have htid := act_tid ha
    have hf' : findT s.threads t'.tid = some t := by rw [htid, (findT_some hf).2]; exact hf
    constructor
    · intro k hk hns hw
      simp only at hw
      have hmono := act_applied_mono k ha
      have hw0 : s.sh.applied k < u64 := Nat.lt_of_le_of_lt hmono hw
      have h0 := hi.main k hk hns hw0
      have hl := act_ledger k hk hns ha hw (ledger_le hi k hk hns hw0)
      have hs := sumBy_replaceT (fun t => t.held k) hf'
      have hr := reported_append s r k
      simp only [ledger, reported, inflight] at *
      omega
    · intro l n hw
      simp only at hw
      have hmono := act_applied_mono (.ldCount l n) ha
      have hw0 : s.sh.applied (.ldCount l n) < u64 := Nat.lt_of_le_of_lt hmono hw
      have h0 := hi.sum l n hw0
      have hl := act_ledger_sum l n ha hw
        (ledger_le hi (.ldCount l n) rfl (by intro _ _ h; cases h) hw0) h0.2
      have hs := sumBy_replaceT (fun t => t.held (.ldSum l n)) hf'
      have hr := reported_append s r (.ldSum l n)
      refine ⟨?_, hl.2⟩
      have h1 := h0.1
      have h2 := hl.1
      simp only [ledger, reported, inflight] at *
      omega

theorem ledger_init : LedgerInv init := by
  constructor <;> intros <;> simp [ledger, reported, inflight, init, Shared.init]

theorem step_inv {P : State → Prop} (hstep : ∀ s s' o, P s → step? s o = some s' → P s') (s : State) (o : Op)
    (h : P s) : P (step s o) := by
  unfold step
  cases hs : step? s o with
  | none => simpa using h
  | some s' => simpa using hstep s s' o h hs

theorem run_inv {P : State → Prop} (hinit : P init) (hstep : ∀ s s' o, P s → step? s o = some s' → P s')
    (ops : List Op) : P (run ops) := by
  unfold run
  suffices ∀ s, P s → P (ops.foldl step s) from this init hinit
  induction ops with
  | nil => intro s h; exact h
  | cons o ops ih => intro s h; exact ih _ (step_inv hstep s o h)

theorem ledger_run (ops : List Op) : LedgerInv (run ops) :=
  run_inv ledger_init (fun _ _ _ hi h => step_ledger hi h) ops


/-! ### stats() builds its report only while it runs -/

def RepInv (s : State) : Prop := ∀ t ∈ s.threads, t.pc.isSnap = false → t.rep = Report.empty t.tid

theorem act_rep {sh t ch sh' t' r} (h : act sh t ch = some (sh', t', r))
    (h0 : t.pc.isSnap = false → t.rep = Report.empty t.tid) : t'.pc.isSnap = false → t'.rep = Report.empty t'.tid := by
  act_cases h <;> simp_all [Pc.isSnap]

theorem step_rep {s s' : State} {o : Op} (hi : RepInv s) (h : step? s o = some s') : RepInv s' := by
  cases o with
  | spawn tid c =>
    obtain ⟨_, rfl⟩ := step?_spawn h
    intro t ht
    simp only [List.mem_append, List.mem_singleton] at ht
    rcases ht with ht | rfl
    · exact hi t ht
    · intro _; rfl
  | step tid ch =>
    obtain ⟨t, sh', t', r, hf, ha, rfl⟩ := step?_step h
    intro x hx
    rcases mem_replaceT hx with rfl | hx
    · exact act_rep ha (hi t (findT_some hf).1)
    · exact hi x hx

theorem rep_run (ops : List Op) : RepInv (run ops) :=
  run_inv (by intro t ht; simp [init] at ht) (fun _ _ _ hi h => step_rep hi h) ops

theorem held_done {t : Thread} (k : Key) (hr : t.pc.isSnap = false → t.rep = Report.empty t.tid) (hd : t.pc = .done) :
    t.held k = 0 := by
  have := hr (by rw [hd]; rfl)
  unfold Thread.held
  rw [this, hd, empty_val]
  cases k <;> rfl

theorem inflight_quiescent {s : State} (hr : RepInv s) (hq : quiescent s) (k : Key) : inflight s k = 0 :=
  sumBy_eq_zero _ _ (fun t ht => held_done k (hr t ht) (hq t ht))

theorem inflightTotal_quiescent {s : State} (hr : RepInv s) (hq : quiescent s) : inflightTotal s = 0 :=
  sumBy_eq_zero _ _ (fun t ht => by
    have := hr t ht (by rw [hq t ht]; rfl)
    rw [this]; rfl)

/-! ### every invoked call adds its amount (or is abandoned) -/

/-- amount a call that has not returned will still add to counter `k` -/
def pending (p : Pc) (k : Key) : Nat :=
  match p with
  | .startE l | .startA l | .startB l => if k = .issued l then 1 else 0
  | .finE l ok | .finA l ok | .finB l ok => if k = (if ok then Key.succ l else Key.err l) then 1 else 0
  | .dropE c | .dropA c => if k = .drop c then 1 else 0
  | .loadE l n v | .loadA l n v => if k = .ldCount l n then 1 else if k = .ldSum l n then v else 0
  | _ => 0

def EventInv (s : State) : Prop :=
  ∀ k, (∀ l, k ≠ .inprog l) →
    s.sh.applied k + sumBy (fun t => pending t.pc k) s.threads + s.sh.abandoned k = s.sh.invoked k

theorem act_invoked {sh t ch sh' t' r} (h : act sh t ch = some (sh', t', r)) : sh'.invoked = sh.invoked := by
  act_cases h <;> rfl

theorem act_event {sh t ch sh' t' r} (k : Key) (hk : ∀ l, k ≠ .inprog l) (h : act sh t ch = some (sh', t', r)) :
    sh'.applied k + pending t'.pc k + sh'.abandoned k = sh.applied k + pending t.pc k + sh.abandoned k := by
  act_cases h <;> simp_all [pending, Shared.add1, Shared.clear, upd] <;>
    (try split) <;> (try split) <;> (try split) <;> (try subst_vars) <;> (try simp_all) <;> (try omega)

theorem invoke_event (c : Call) (sh : Shared) (k : Key) (hk : ∀ l, k ≠ .inprog l) :
    (c.invoke sh).invoked k = sh.invoked k + pending c.entry k := by
  cases c <;> simp [Call.invoke, Call.entry, pending, upd] <;> (try split) <;> (try split) <;>
    (try subst_vars) <;> (try simp_all) <;> (try omega)

theorem step_event {s s' : State} {o : Op} (hi : EventInv s) (h : step? s o = some s') : EventInv s' := by
  cases o with
  | spawn tid c =>
    obtain ⟨_, rfl⟩ := step?_spawn h
    intro k hk
    have := hi k hk
    have hv := invoke_event c s.sh k hk
    simp only [sumBy_append, sumBy_cons, sumBy_nil, invoke_applied, invoke_abandoned] at *
    omega
  | step tid ch =>
    obtain ⟨t, sh', t', r, hf, ha, rfl⟩ := step?_step h
    have htid := act_tid ha
    have hf' : findT s.threads t'.tid = some t := by rw [htid, (findT_some hf).2]; exact hf
    intro k hk
    have h0 := hi k hk
    have hl := act_event k hk ha
    have hs := sumBy_replaceT (fun t => pending t.pc k) hf'
    have hv := act_invoked ha
    simp only [hv] at *
    omega

theorem event_run (ops : List Op) : EventInv (run ops) :=
  run_inv (by intro k _; simp [init, Shared.init]) (fun _ _ _ hi h => step_event hi h) ops

theorem pending_done (k : Key) : pending .done k = 0 := rfl

/-! ### the in-progress counter -/

def InprogInv (s : State) : Prop :=
  ∀ l, (s.sh.mem (.inprog l) + s.sh.decs l) % u64 = s.sh.applied (.inprog l) % u64 ∧ s.sh.mem (.inprog l) < u64

theorem act_inprog {sh t ch sh' t' r} (l : Nat) (h : act sh t ch = some (sh', t', r))
    (h0 : (sh.mem (.inprog l) + sh.decs l) % u64 = sh.applied (.inprog l) % u64 ∧ sh.mem (.inprog l) < u64) :
    (sh'.mem (.inprog l) + sh'.decs l) % u64 = sh'.applied (.inprog l) % u64 ∧ sh'.mem (.inprog l) < u64 := by
  act_cases h <;> simp_all [Shared.add1, Shared.clear, upd, updN, addU, decU, u64] <;> (try split) <;> (try subst_vars) <;>
    (try simp_all) <;> (try omega)

theorem step_inprog {s s' : State} {o : Op} (hi : InprogInv s) (h : step? s o = some s') : InprogInv s' := by
  cases o with
  | spawn tid c =>
    obtain ⟨_, rfl⟩ := step?_spawn h
    intro l
    simpa using hi l
  | step tid ch =>
    obtain ⟨t, sh', t', r, hf, ha, rfl⟩ := step?_step h
    intro l
    exact act_inprog l ha (hi l)

theorem inprog_run (ops : List Op) : InprogInv (run ops) :=
  run_inv (by intro l; simp [init, Shared.init, u64]) (fun _ _ _ hi h => step_inprog hi h) ops


/-! ### total drops -/

def resid (sh : Shared) : Nat := sumBy (fun c => sh.mem (.drop c)) sh.cats
def optTotal (r : Option Report) : Nat := match r with | some r => r.total | none => 0

theorem resid_congr {sh' sh : Shared} (hc : sh'.cats = sh.cats) (hm : ∀ c, sh'.mem (.drop c) = sh.mem (.drop c)) :
    resid sh' = resid sh := by
  unfold resid
  rw [hc]
  exact sumBy_congr _ _ _ (fun c _ => hm c)

theorem sum_upd_notin (m : Key → Nat) (c v : Nat) (cats : List Nat) (h : c ∉ cats) :
    sumBy (fun x => upd m (.drop c) v (.drop x)) cats = sumBy (fun x => m (.drop x)) cats := by
  apply sumBy_congr
  intro x hx
  have : x ≠ c := fun e => h (e ▸ hx)
  simp [upd, this]

theorem sum_upd_mem (m : Key → Nat) (c v : Nat) (cats : List Nat) (hnd : cats.Nodup) (h : c ∈ cats) :
    sumBy (fun x => upd m (.drop c) v (.drop x)) cats + m (.drop c) = sumBy (fun x => m (.drop x)) cats + v := by
  induction cats with
  | nil => simp at h
  | cons a cats ih =>
    rw [List.nodup_cons] at hnd
    simp only [sumBy_cons]
    by_cases hac : a = c
    · subst hac
      rw [sum_upd_notin m a v cats hnd.1]
      simp only [upd, if_true]
      omega
    · have hc : c ∈ cats := by
        rcases List.mem_cons.mp h with h | h
        · exact absurd h.symm hac
        · exact h
      have := ih hnd.2 hc
      have e : upd m (.drop c) v (.drop a) = m (.drop a) := by simp [upd, hac]
      rw [e]
      omega

theorem le_sumBy (f : α → Nat) {ts : List α} {t : α} (h : t ∈ ts) : f t ≤ sumBy f ts := by
  induction ts with
  | nil => simp at h
  | cons a ts ih =>
    simp only [sumBy_cons]
    rcases List.mem_cons.mp h with h | h
    · subst h; omega
    · have := ih h; omega

theorem mem_le_resid (sh : Shared) (c : Nat) (h : c ∈ sh.cats) : sh.mem (.drop c) ≤ resid sh :=
  le_sumBy (fun c => sh.mem (.drop c)) h

theorem nodup_insertNew [DecidableEq α] (l : List α) (a : α) (h : l.Nodup) : (insertNew l a).Nodup := by
  unfold insertNew
  split
  · exact h
  · rename_i hn
    rw [List.nodup_append]
    refine ⟨h, by simp, ?_⟩
    intro x hx y hy
    simp at hy
    subst hy
    exact fun e => hn (e ▸ hx)

theorem mem_insertNew [DecidableEq α] (l : List α) (a x : α) : x ∈ insertNew l a ↔ x ∈ l ∨ x = a := by
  unfold insertNew
  split
  · rename_i h
    constructor
    · exact Or.inl
    · rintro (h1 | rfl)
      · exact h1
      · exact h
  · simp

/-- the tail of `act_cases` once `t.pc` is known -/
macro "act_rest" h:ident : tactic => `(tactic| (
  all_goals (try dsimp only at $h:ident)
  all_goals (try split at $h:ident)
  all_goals (try split at $h:ident)
  all_goals (simp only [Option.some.injEq, Prod.mk.injEq, reduceCtorEq] at $h:ident)
  all_goals (obtain ⟨h1, h2, h3⟩ := $h:ident; subst h1; subst h2; subst h3)))

theorem act_cats {sh t ch sh' t' r} (h : act sh t ch = some (sh', t', r)) :
    (∀ c, c ∈ sh.cats → c ∈ sh'.cats) ∧ (sh.cats.Nodup → sh'.cats.Nodup) ∧
    (∀ c, (t'.pc = .dropA c ∨ t'.pc = .sDrop c) → c ∈ sh'.cats ∨ (t.pc = .dropA c ∨ t.pc = .sDrop c)) := by
  act_cases h <;> simp_all [Shared.add1, Shared.clear, mem_insertNew, nodup_insertNew]

theorem act_zero {sh t ch sh' t' r} (h : act sh t ch = some (sh', t', r))
    (hz : ∀ c, c ∉ sh.cats → sh.mem (.drop c) = 0)
    (hp : ∀ c, (t.pc = .dropA c ∨ t.pc = .sDrop c) → c ∈ sh.cats) :
    ∀ c, c ∉ sh'.cats → sh'.mem (.drop c) = 0 := by
  act_cases h <;> intro c hc <;> simp_all [Shared.add1, Shared.clear, upd, mem_insertNew] <;>
    (try (intro e; subst e; simp_all))

theorem act_total {sh t ch sh' t' r} (h : act sh t ch = some (sh', t', r))
    (hnd : sh.cats.Nodup) (hz : ∀ c, c ∉ sh.cats → sh.mem (.drop c) = 0)
    (hp : ∀ c, (t.pc = .dropA c ∨ t.pc = .sDrop c) → c ∈ sh.cats)
    (hw : sh'.dropsApplied < u64) (hle : resid sh + t.rep.total ≤ sh.dropsApplied) :
    resid sh' + t'.rep.total + optTotal r + sh.dropsApplied = resid sh + t.rep.total + sh'.dropsApplied := by
  unfold act at h
  cases hpc : t.pc with
  | dropE c =>
    simp only [hpc] at h
    act_rest h
    simp only [resid, insertNew, optTotal]
    split
    · omega
    · rename_i hn
      simp only [sumBy_append, sumBy_cons, sumBy_nil, hz c hn]
      omega
  | dropA c =>
    simp only [hpc] at h
    act_rest h
    have hc := hp c (Or.inl hpc)
    have h1 := sum_upd_mem sh.mem c (addU (sh.mem (.drop c))) sh.cats hnd hc
    have h2 := mem_le_resid sh c hc
    simp only [resid, Shared.add1, optTotal, addU, u64] at *
    omega
  | sDrop c =>
    simp only [hpc] at h
    act_rest h
    all_goals (
      have hc := hp c (Or.inr hpc)
      have h1 := sum_upd_mem sh.mem c 0 sh.cats hnd hc
      have h2 := mem_le_resid sh c hc
      simp only [resid, Shared.clear, optTotal, u64] at *
      omega)
  | _ =>
    simp only [hpc] at h
    act_rest h
    all_goals first
      | (rw [resid_congr (sh := sh) (by rfl) (by intro c; simp [Shared.add1, Shared.clear, upd])]
         simp [optTotal, Report.empty, Shared.add1, Shared.clear])

structure TotalInv (s : State) : Prop where
  nodup : s.sh.cats.Nodup
  zero : ∀ c, c ∉ s.sh.cats → s.sh.mem (.drop c) = 0
  pcs : ∀ t ∈ s.threads, ∀ c, (t.pc = .dropA c ∨ t.pc = .sDrop c) → c ∈ s.sh.cats
  led : s.sh.dropsApplied < u64 → reportedTotal s + inflightTotal s + residualDrops s = s.sh.dropsApplied

theorem act_dropsApplied_mono {sh t ch sh' t' r} (h : act sh t ch = some (sh', t', r)) :
    sh.dropsApplied ≤ sh'.dropsApplied := by
  act_cases h <;> simp [Shared.add1, Shared.clear]

theorem step_total {s s' : State} {o : Op} (hi : TotalInv s) (h : step? s o = some s') : TotalInv s' := by
  cases o with
  | spawn tid c =>
    obtain ⟨_, rfl⟩ := step?_spawn h
    refine ⟨by simpa using hi.nodup, by simpa using hi.zero, ?_, ?_⟩
    · intro t ht c' hc'
      simp only [List.mem_append, List.mem_singleton] at ht
      rcases ht with ht | rfl
      · simpa using hi.pcs t ht c' hc'
      · cases c <;> simp [Call.entry] at hc'
    · intro hw
      have := hi.led (by simpa using hw)
      simp only [reportedTotal, inflightTotal, residualDrops, sumBy_append, sumBy_cons, sumBy_nil, Report.empty,
        invoke_mem, invoke_cats, invoke_dropsApplied] at *
      omega
  | step tid ch =>
    obtain ⟨t, sh', t', r, hf, ha, rfl⟩ := step?_step h
    have htid := act_tid ha
    have hf' : findT s.threads t'.tid = some t := by rw [htid, (findT_some hf).2]; exact hf
    have htm := (findT_some hf).1
    obtain ⟨hc1, hc2, hc3⟩ := act_cats ha
    refine ⟨hc2 hi.nodup, act_zero ha hi.zero (hi.pcs t htm), ?_, ?_⟩
    · intro x hx c hc
      rcases mem_replaceT hx with rfl | hx
      · rcases hc3 c hc with h | h
        · exact h
        · exact hc1 c (hi.pcs t htm c h)
      · exact hc1 c (hi.pcs x hx c hc)
    · intro hw
      simp only at hw
      have hw0 : s.sh.dropsApplied < u64 := Nat.lt_of_le_of_lt (act_dropsApplied_mono ha) hw
      have h0 := hi.led hw0
      have hle : resid s.sh + t.rep.total ≤ s.sh.dropsApplied := by
        have := le_sumBy (fun t => t.rep.total) htm
        simp only [reportedTotal, inflightTotal, residualDrops, resid] at *
        omega
      have hl := act_total ha hi.nodup hi.zero (hi.pcs t htm) hw hle
      have hs := sumBy_replaceT (fun t => t.rep.total) hf'
      have hr : sumBy (·.total) (s.reports ++ r.toList) = reportedTotal s + optTotal r := by
        cases r <;> simp [reportedTotal, optTotal]
      simp only [reportedTotal, inflightTotal, residualDrops, resid] at *
      omega

theorem total_run (ops : List Op) : TotalInv (run ops) :=
  run_inv (by constructor <;> simp [init, Shared.init, reportedTotal, inflightTotal, residualDrops])
    (fun _ _ _ hi h => step_total hi h) ops


/-! ### in-progress values are read inside the snapshot -/

theorem snoc_ind {P : List α → Prop} (h0 : P []) (h1 : ∀ l a, P l → P (l ++ [a])) (l : List α) : P l := by
  rw [← List.reverse_reverse l]
  induction l.reverse with
  | nil => exact h0
  | cons a r ih => rw [List.reverse_cons]; exact h1 _ _ ih

theorem run_snoc (ops : List Op) (o : Op) : run (ops ++ [o]) = step (run ops) o := by
  simp [run, List.foldl_append]

/-- `v` is the value of the in-progress counter of `l` in a state of the run in which thread `tid`
    is a stats() call that has been invoked and has not returned -/
def Wit (ops : List Op) (tid l v : Nat) : Prop :=
  ∃ ops₁ ops₂, ops = ops₁ ++ ops₂ ∧ liveSnap (run ops₁) tid ∧ v = (run ops₁).sh.mem (.inprog l)

theorem Wit.snoc {ops : List Op} {tid l v : Nat} (o : Op) (h : Wit ops tid l v) : Wit (ops ++ [o]) tid l v := by
  obtain ⟨a, b, rfl, h1, h2⟩ := h
  exact ⟨a, b ++ [o], by simp, h1, h2⟩

/-- in-progress values a running stats() holds in local variables -/
def pcInp : Pc → List (Nat × Nat)
  | .lErr l _ i => [(l, i)]
  | .lIss l _ i _ => [(l, i)]
  | .lLoads lr => [(lr.loc, lr.inprog)]
  | .lLoad lr _ => [(lr.loc, lr.inprog)]
  | _ => []

theorem act_wit {sh t ch sh' t' r} (Q : Nat → Nat → Prop) (h : act sh t ch = some (sh', t', r))
    (h1 : ∀ e ∈ pcInp t.pc, Q e.1 e.2) (h2 : ∀ lr ∈ t.rep.locs, Q lr.loc lr.inprog)
    (h3 : t.pc.isSnap = true → ∀ l, Q l (sh.mem (.inprog l))) (h4 : t.rep.tid = t.tid) :
    (∀ e ∈ pcInp t'.pc, Q e.1 e.2) ∧ (∀ lr ∈ t'.rep.locs, Q lr.loc lr.inprog) ∧ t'.rep.tid = t'.tid ∧
    (∀ r', r = some r' → r'.tid = t.tid ∧ ∀ lr ∈ r'.locs, Q lr.loc lr.inprog) := by
  act_cases h <;> simp_all [pcInp, Pc.isSnap, Report.empty] <;> (try split) <;> (try simp_all) <;>
    (try (rintro lr (hl | rfl) <;> first | exact h2 lr hl | exact h1))

structure WitInv (ops : List Op) (s : State) : Prop where
  pc : ∀ t ∈ s.threads, ∀ e ∈ pcInp t.pc, Wit ops t.tid e.1 e.2
  rep : ∀ t ∈ s.threads, ∀ lr ∈ t.rep.locs, Wit ops t.tid lr.loc lr.inprog
  reps : ∀ r ∈ s.reports, ∀ lr ∈ r.locs, Wit ops r.tid lr.loc lr.inprog
  tid : ∀ t ∈ s.threads, t.rep.tid = t.tid

theorem WitInv.snoc {ops : List Op} {s : State} (o : Op) (h : WitInv ops s) : WitInv (ops ++ [o]) s :=
  ⟨fun t ht e he => (h.pc t ht e he).snoc o, fun t ht lr hl => (h.rep t ht lr hl).snoc o,
   fun r hr lr hl => (h.reps r hr lr hl).snoc o, h.tid⟩

theorem wit_run (ops : List Op) : WitInv ops (run ops) := by
  induction ops using snoc_ind with
  | h0 => constructor <;> simp [run, init]
  | h1 ops o ih =>
    rw [run_snoc]
    have ih' := ih.snoc o
    unfold step
    cases hs : step? (run ops) o with
    | none => simpa using ih'
    | some s' =>
      simp only [Option.getD_some]
      cases o with
      | spawn tid c =>
        obtain ⟨_, rfl⟩ := step?_spawn hs
        constructor
        · intro t ht
          simp only [List.mem_append, List.mem_singleton] at ht
          rcases ht with ht | rfl
          · exact ih'.pc t ht
          · cases c <;> simp [Call.entry, pcInp]
        · intro t ht
          simp only [List.mem_append, List.mem_singleton] at ht
          rcases ht with ht | rfl
          · exact ih'.rep t ht
          · simp [Report.empty]
        · exact ih'.reps
        · intro t ht
          simp only [List.mem_append, List.mem_singleton] at ht
          rcases ht with ht | rfl
          · exact ih'.tid t ht
          · rfl
      | step tid ch =>
        obtain ⟨t, sh', t', r, hf, ha, rfl⟩ := step?_step hs
        have htm := (findT_some hf).1
        have htid : t.tid = tid := (findT_some hf).2
        have hnew : t.pc.isSnap = true → ∀ l, Wit (ops ++ [.step tid ch]) t.tid l ((run ops).sh.mem (.inprog l)) := by
          intro hsnap l
          exact ⟨ops, [.step tid ch], rfl, ⟨t, by rw [htid]; exact hf, hsnap⟩, rfl⟩
        have hw := act_wit (fun l v => Wit (ops ++ [.step tid ch]) t.tid l v) ha
          (ih'.pc t htm) (ih'.rep t htm) hnew (ih'.tid t htm)
        have htid' := act_tid ha
        constructor
        · intro x hx
          rcases mem_replaceT hx with rfl | hx
          · rw [htid']; exact hw.1
          · exact ih'.pc x hx
        · intro x hx
          rcases mem_replaceT hx with rfl | hx
          · rw [htid']; exact hw.2.1
          · exact ih'.rep x hx
        · intro r' hr'
          simp only [List.mem_append] at hr'
          rcases hr' with hr' | hr'
          · exact ih'.reps r' hr'
          · cases r with
            | none => simp at hr'
            | some r0 =>
              simp at hr'
              subst hr'
              obtain ⟨e1, e2⟩ := hw.2.2.2 r' rfl
              rw [e1]; exact e2
        · intro x hx
          rcases mem_replaceT hx with rfl | hx
          · exact hw.2.2.1
          · exact ih'.tid x hx

/-! ### calls on unknown localities -/

/-- CallFinished / CallServerLoad are only invoked for a locality that has an entry (i.e. after a
    CallStarted for it has begun) -/
def wfOp (s : State) : Op → Prop
  | .spawn _ (.finish l _) => l ∈ s.sh.locs
  | .spawn _ (.load l _ _) => l ∈ s.sh.locs
  | _ => True

def WellFormed (ops : List Op) : Prop := ∀ ops₁ o ops₂, ops = ops₁ ++ o :: ops₂ → wfOp (run ops₁) o

structure AbInv (s : State) : Prop where
  zero : ∀ k, s.sh.abandoned k = 0
  pcs : ∀ t ∈ s.threads, ∀ l, ((∃ ok, t.pc = .finE l ok) ∨ (∃ n v, t.pc = .loadE l n v)) → l ∈ s.sh.locs

theorem act_ab {sh t ch sh' t' r} (h : act sh t ch = some (sh', t', r))
    (hp : ∀ l, ((∃ ok, t.pc = .finE l ok) ∨ (∃ n v, t.pc = .loadE l n v)) → l ∈ sh.locs) :
    sh'.abandoned = sh.abandoned ∧ (∀ l, l ∈ sh.locs → l ∈ sh'.locs) ∧
    (∀ l, ((∃ ok, t'.pc = .finE l ok) ∨ (∃ n v, t'.pc = .loadE l n v)) → l ∈ sh'.locs) := by
  act_cases h <;> simp_all [Shared.add1, Shared.clear, mem_insertNew]

theorem ab_run (ops : List Op) (hwf : WellFormed ops) : AbInv (run ops) := by
  induction ops using snoc_ind with
  | h0 => constructor <;> simp [run, init, Shared.init]
  | h1 ops o ih =>
    have hwf0 : WellFormed ops := by
      intro a x b e
      exact hwf a x (b ++ [o]) (by simp [e])
    have hwo : wfOp (run ops) o := hwf ops o [] (by simp)
    have ih := ih hwf0
    rw [run_snoc]
    unfold step
    cases hs : step? (run ops) o with
    | none => simpa using ih
    | some s' =>
      simp only [Option.getD_some]
      cases o with
      | spawn tid c =>
        obtain ⟨_, rfl⟩ := step?_spawn hs
        constructor
        · simpa using ih.zero
        · intro t ht l hl
          simp only [List.mem_append, List.mem_singleton] at ht
          rcases ht with ht | rfl
          · simpa using ih.pcs t ht l hl
          · cases c <;> simp_all [Call.entry, wfOp]
      | step tid ch =>
        obtain ⟨t, sh', t', r, hf, ha, rfl⟩ := step?_step hs
        have htm := (findT_some hf).1
        obtain ⟨e1, e2, e3⟩ := act_ab ha (ih.pcs t htm)
        constructor
        · intro k; simp only [e1]; exact ih.zero k
        · intro x hx l hl
          rcases mem_replaceT hx with rfl | hx
          · exact e3 l hl
          · exact e2 l (ih.pcs x hx l hl)


/-! ### increments / decrements of the in-progress counter versus calls -/

def pendingInc (p : Pc) (l : Nat) : Nat :=
  match p with
  | .startE l' | .startA l' => if l' = l then 1 else 0
  | _ => 0

def pendingDec (p : Pc) (l : Nat) : Nat :=
  match p with
  | .finE l' _ | .finA l' _ => if l' = l then 1 else 0
  | _ => 0

def CountInv (s : State) : Prop :=
  ∀ l, s.sh.applied (.inprog l) + sumBy (fun t => pendingInc t.pc l) s.threads = s.sh.invoked (.issued l) ∧
    s.sh.decs l + sumBy (fun t => pendingDec t.pc l) s.threads + s.sh.abandoned (.succ l) + s.sh.abandoned (.err l)
      = s.sh.invoked (.succ l) + s.sh.invoked (.err l)

theorem act_count {sh t ch sh' t' r} (l : Nat) (h : act sh t ch = some (sh', t', r)) :
    sh'.applied (.inprog l) + pendingInc t'.pc l = sh.applied (.inprog l) + pendingInc t.pc l ∧
    sh'.decs l + pendingDec t'.pc l + sh'.abandoned (.succ l) + sh'.abandoned (.err l)
      = sh.decs l + pendingDec t.pc l + sh.abandoned (.succ l) + sh.abandoned (.err l) := by
  act_cases h <;> simp_all [pendingInc, pendingDec, Shared.add1, Shared.clear, upd, updN] <;>
    (try split) <;> (try split) <;> (try subst_vars) <;> (try simp_all) <;> (try omega)

theorem invoke_count (c : Call) (sh : Shared) (l : Nat) :
    (c.invoke sh).invoked (.issued l) = sh.invoked (.issued l) + pendingInc c.entry l ∧
    (c.invoke sh).invoked (.succ l) + (c.invoke sh).invoked (.err l)
      = sh.invoked (.succ l) + sh.invoked (.err l) + pendingDec c.entry l := by
  cases c <;> simp [Call.invoke, Call.entry, pendingInc, pendingDec, upd] <;> (try split) <;> (try split) <;>
    (try split) <;> (try subst_vars) <;> (try simp_all) <;> (try omega)

theorem step_count {s s' : State} {o : Op} (hi : CountInv s) (h : step? s o = some s') : CountInv s' := by
  cases o with
  | spawn tid c =>
    obtain ⟨_, rfl⟩ := step?_spawn h
    intro l
    have := hi l
    have hv := invoke_count c s.sh l
    simp only [sumBy_append, sumBy_cons, sumBy_nil, invoke_applied, invoke_abandoned, invoke_decs] at *
    omega
  | step tid ch =>
    obtain ⟨t, sh', t', r, hf, ha, rfl⟩ := step?_step h
    have htid := act_tid ha
    have hf' : findT s.threads t'.tid = some t := by rw [htid, (findT_some hf).2]; exact hf
    intro l
    have h0 := hi l
    have hl := act_count l ha
    have hs1 := sumBy_replaceT (fun t => pendingInc t.pc l) hf'
    have hs2 := sumBy_replaceT (fun t => pendingDec t.pc l) hf'
    have hv := act_invoked ha
    simp only [hv] at *
    omega

theorem count_run (ops : List Op) : CountInv (run ops) :=
  run_inv (by intro l; simp [init, Shared.init]) (fun _ _ _ hi h => step_count hi h) ops

theorem pendingInc_le (p : Pc) (l : Nat) : pendingInc p l ≤ pending p (.issued l) := by
  cases p <;> simp [pendingInc, pending] <;> split <;> simp_all

theorem pendingDec_le (p : Pc) (l : Nat) : pendingDec p l ≤ pending p (.succ l) + pending p (.err l) := by
  cases p <;> simp [pendingDec, pending] <;> (try split) <;> (try split) <;> simp_all

theorem sumBy_le (f g : α → Nat) (l : List α) (h : ∀ a, f a ≤ g a) : sumBy f l ≤ sumBy g l := by
  induction l with
  | nil => simp
  | cons a l ih => simp only [sumBy_cons]; have := h a; omega

end GrpcProofs.Lemmas.LoadStore
