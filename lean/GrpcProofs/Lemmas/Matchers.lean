import Mathlib.Data.List.Forall2
import GrpcModel.Model.Matchers
/-! Helper definitions and lemmas for C47 (header / string / path matchers). -/
namespace GrpcProofs.Lemmas.Matchers
open GrpcModel.Matchers

/-! ### `Prop`-level vocabulary of the property -/

/-- Two bytes are equal up to ASCII case: equal, or an upper-case ASCII letter (65..90) and its lower-case
    counterpart (+32), in either order. -/
def CaseEq (x y : Nat) : Prop := x = y ∨ (65 ≤ x ∧ x ≤ 90 ∧ y = x + 32) ∨ (65 ≤ y ∧ y ≤ 90 ∧ x = y + 32)

/-- Two byte strings are equal up to ASCII case: same length, position-wise `CaseEq`. -/
def FoldEq (a b : Str) : Prop := List.Forall₂ CaseEq a b

/-- `v` is the base-10 notation of the integer `n`: optional sign, at least one ASCII digit, nothing else. -/
def Decimal (v : Str) (n : Int) : Prop :=
  ∃ sign ds, v = sign ++ ds ∧ (sign = [] ∨ sign = [43] ∨ sign = [45]) ∧ ds ≠ [] ∧ (∀ d ∈ ds, 48 ≤ d ∧ d ≤ 57) ∧
    n = if sign = [45] then -(digitsVal ds : Int) else (digitsVal ds : Int)

/-- Meaning of a header matcher with an invert flag: the header is present, and the predicate on the comma-joined
    value holds exactly when invert is off. -/
def HeaderSem (md : MD) (key : Str) (invert : Bool) (P : Str → Prop) : Prop :=
  ∃ vs, lookupMD md key = some vs ∧ (P (joinComma vs) ↔ invert = false)

/-- Meaning of a string matcher with configured pattern. -/
def SMSem (kind : SMKind) (pat : Str) (re : Re) (ignoreCase : Bool) (input : Str) : Prop :=
  match kind, ignoreCase with
  | .exact, false => input = pat
  | .exact, true => FoldEq input pat
  | .prefix, false => pat <+: input
  | .prefix, true => ∃ p r, input = p ++ r ∧ FoldEq p pat
  | .suffix, false => pat <:+ input
  | .suffix, true => ∃ r p, input = r ++ p ∧ FoldEq p pat
  | .contains, false => pat <:+: input
  | .contains, true => ∃ a p b, input = a ++ p ++ b ∧ FoldEq p pat
  | .regex, _ => re.matches input = true

/-- key / invert accessors of the model's header matchers. -/
def key : HeaderMatcher → Str
  | .exact k _ _ | .regex k _ _ | .range k _ _ _ | .present k _ | .prefix k _ _ | .suffix k _ _
  | .contains k _ _ | .string k _ _ => k

def isPresentKind : HeaderMatcher → Bool
  | .present _ _ => true
  | _ => false

def setInvert (i : Bool) : HeaderMatcher → HeaderMatcher
  | .exact k p _ => .exact k p i
  | .regex k r _ => .regex k r i
  | .range k a b _ => .range k a b i
  | .present k p => .present k p
  | .prefix k p _ => .prefix k p i
  | .suffix k p _ => .suffix k p i
  | .contains k p _ => .contains k p i
  | .string k s _ => .string k s i

/-! ### bytes -/

theorem caseEq_symm {x y : Nat} (h : CaseEq x y) : CaseEq y x := by
  unfold CaseEq at *; omega

theorem caseEqB_iff (x y : Nat) : Spec.caseEqB x y = true ↔ CaseEq x y := by
  simp only [Spec.caseEqB, Spec.isUpperB, CaseEq, Bool.or_eq_true, Bool.and_eq_true, beq_iff_eq, decide_eq_true_eq]
  omega

theorem lower_beq (x y : Nat) : (lowerB x == lowerB y) = Spec.caseEqB x y := by
  rw [Bool.eq_iff_iff, caseEqB_iff]
  simp only [beq_iff_eq, lowerB, CaseEq]
  split <;> split <;> omega

theorem upper_beq (x y : Nat) : (upperB x == upperB y) = Spec.caseEqB x y := by
  rw [Bool.eq_iff_iff, caseEqB_iff]
  simp only [beq_iff_eq, upperB, CaseEq]
  split <;> split <;> omega

theorem caseEqB_comm (x y : Nat) : Spec.caseEqB x y = Spec.caseEqB y x := by
  rw [Bool.eq_iff_iff, caseEqB_iff, caseEqB_iff]; exact ⟨caseEq_symm, caseEq_symm⟩

/-! ### folded comparisons: model computations = executable spec -/

theorem map_beq_eq_eqFold (f : Nat → Nat) (hf : ∀ x y, (f x == f y) = Spec.caseEqB x y) :
    ∀ a b : Str, (a.map f == b.map f) = Spec.eqFold a b
  | [], [] => by simp [Spec.eqFold]
  | [], _ :: _ => by simp [Spec.eqFold]
  | _ :: _, [] => by simp [Spec.eqFold]
  | x :: s, y :: t => by
    have ih := map_beq_eq_eqFold f hf s t
    have h1 := hf x y
    simp only [List.map_cons, Spec.eqFold, ← ih, ← h1]
    rw [Bool.eq_iff_iff]; simp

theorem map_isPrefixOf_eq_prefixFold (f : Nat → Nat) (hf : ∀ x y, (f x == f y) = Spec.caseEqB x y) :
    ∀ pat s : Str, (pat.map f).isPrefixOf (s.map f) = Spec.prefixFold pat s
  | [], _ => by simp [Spec.prefixFold]
  | _ :: _, [] => by simp [Spec.prefixFold]
  | p :: ps, c :: cs => by
    have ih := map_isPrefixOf_eq_prefixFold f hf ps cs
    simp only [List.map_cons, List.isPrefixOf, Spec.prefixFold, ih, hf]

theorem map_isSuffixOf_eq_suffixFold (f : Nat → Nat) (hf : ∀ x y, (f x == f y) = Spec.caseEqB x y)
    (pat s : Str) : (pat.map f).isSuffixOf (s.map f) = Spec.suffixFold pat s := by
  simp only [List.isSuffixOf, Spec.suffixFold, ← List.map_reverse, map_isPrefixOf_eq_prefixFold f hf]

theorem map_hasInfix_eq_infixFold (f : Nat → Nat) (hf : ∀ x y, (f x == f y) = Spec.caseEqB x y) (pat : Str) :
    ∀ s : Str, hasInfix (pat.map f) (s.map f) = Spec.infixFold pat s
  | [] => by simp [hasInfix, Spec.infixFold]
  | c :: t => by
    have ih := map_hasInfix_eq_infixFold f hf pat t
    have hp := map_isPrefixOf_eq_prefixFold f hf pat (c :: t)
    simp only [List.map_cons] at hp
    simp only [List.map_cons, hasInfix, Spec.infixFold, ih, hp]

/-! ### executable spec ↔ `Prop` vocabulary -/

theorem eqFold_iff : ∀ a b : Str, Spec.eqFold a b = true ↔ FoldEq a b
  | [], [] => by simp [Spec.eqFold, FoldEq]
  | [], _ :: _ => by simp [Spec.eqFold, FoldEq]
  | _ :: _, [] => by simp [Spec.eqFold, FoldEq]
  | x :: s, y :: t => by
    have ih := eqFold_iff s t
    simp only [Spec.eqFold, Bool.and_eq_true, caseEqB_iff, ih, FoldEq, List.forall₂_cons]

theorem foldEq_symm {a b : Str} (h : FoldEq a b) : FoldEq b a := by
  unfold FoldEq at *
  exact List.Forall₂.flip (h.imp fun _ _ h => caseEq_symm h)

theorem prefixFold_iff : ∀ pat s : Str, Spec.prefixFold pat s = true ↔ ∃ p r, s = p ++ r ∧ FoldEq p pat
  | [], s => by
    simp only [Spec.prefixFold, true_iff]
    exact ⟨[], s, rfl, List.Forall₂.nil⟩
  | p :: ps, [] => by
    simp only [Spec.prefixFold, Bool.false_eq_true, false_iff]
    rintro ⟨q, r, h, hq⟩
    have : q = [] := by
      cases q with
      | nil => rfl
      | cons a q => simp at h
    subst this
    cases hq
  | p :: ps, c :: cs => by
    have ih := prefixFold_iff ps cs
    simp only [Spec.prefixFold, Bool.and_eq_true, caseEqB_iff, ih]
    constructor
    · rintro ⟨h1, q, r, h2, h3⟩
      exact ⟨c :: q, r, by simp [h2], List.Forall₂.cons (caseEq_symm h1) h3⟩
    · rintro ⟨q, r, h2, h3⟩
      cases h3 with
      | cons hh ht =>
        simp only [List.cons_append, List.cons.injEq] at h2
        obtain ⟨rfl, rfl⟩ := h2
        exact ⟨caseEq_symm hh, _, r, rfl, ht⟩

theorem suffixFold_iff (pat s : Str) : Spec.suffixFold pat s = true ↔ ∃ r p, s = r ++ p ∧ FoldEq p pat := by
  simp only [Spec.suffixFold, prefixFold_iff]
  constructor
  · rintro ⟨p, r, h, hp⟩
    refine ⟨r.reverse, p.reverse, ?_, ?_⟩
    · have := congrArg List.reverse h
      simpa using this
    · unfold FoldEq at *
      have := List.forall₂_reverse_iff.mpr hp
      simpa using this
  · rintro ⟨r, p, h, hp⟩
    refine ⟨p.reverse, r.reverse, by simp [h], ?_⟩
    unfold FoldEq at *
    exact List.forall₂_reverse_iff.mpr hp

theorem infixFold_iff (pat : Str) : ∀ s : Str, Spec.infixFold pat s = true ↔ ∃ a p b, s = a ++ p ++ b ∧ FoldEq p pat
  | [] => by
    simp only [Spec.infixFold, List.isEmpty_iff]
    constructor
    · rintro rfl; exact ⟨[], [], [], rfl, List.Forall₂.nil⟩
    · rintro ⟨a, p, b, h, hp⟩
      have hp0 : p = [] := by
        cases p with
        | nil => rfl
        | cons x p => cases a <;> simp at h
      subst hp0
      cases hp; rfl
  | c :: t => by
    have ih := infixFold_iff pat t
    simp only [Spec.infixFold, Bool.or_eq_true, prefixFold_iff, ih]
    constructor
    · rintro (⟨p, r, h, hp⟩ | ⟨a, p, b, h, hp⟩)
      · exact ⟨[], p, r, by simpa using h, hp⟩
      · exact ⟨c :: a, p, b, by simp [h], hp⟩
    · rintro ⟨a, p, b, h, hp⟩
      cases a with
      | nil => exact Or.inl ⟨p, b, by simpa using h, hp⟩
      | cons x a =>
        simp only [List.cons_append, List.cons.injEq] at h
        exact Or.inr ⟨a, p, b, h.2, hp⟩

theorem hasInfix_iff (pat : Str) : ∀ s : Str, hasInfix pat s = true ↔ pat <:+: s
  | [] => by simp [hasInfix, List.isEmpty_iff]
  | c :: t => by
    have ih := hasInfix_iff pat t
    simp only [hasInfix, Bool.or_eq_true, List.isPrefixOf_iff_prefix, ih]
    rw [List.infix_cons_iff]

/-! ### join, decimal -/

theorem joinComma_eq_intercalate : ∀ vs : List Str, joinComma vs = List.intercalate [44] vs
  | [] => by simp [joinComma, List.intercalate]
  | [a] => by simp [joinComma, List.intercalate]
  | a :: b :: t => by
    have ih := joinComma_eq_intercalate (b :: t)
    simp only [joinComma, List.intercalate] at ih ⊢
    simp [ih, List.intersperse]

theorem all_isDigit_iff (ds : Str) : ds.all isDigit = true ↔ ∀ d ∈ ds, 48 ≤ d ∧ d ≤ 57 := by
  simp [List.all_eq_true, isDigit]

theorem decMag_iff (neg : Bool) (ds : Str) (n : Int) :
    Spec.decMag neg ds = some n ↔ ds ≠ [] ∧ (∀ d ∈ ds, 48 ≤ d ∧ d ≤ 57) ∧
      n = if neg then -(digitsVal ds : Int) else (digitsVal ds : Int) := by
  unfold Spec.decMag
  by_cases hc : (!ds.isEmpty && ds.all isDigit) = true
  · have hc2 := hc
    simp only [Bool.and_eq_true, Bool.not_eq_true', List.isEmpty_eq_false_iff, all_isDigit_iff] at hc2
    simp only [hc, if_true, Option.some.injEq]
    constructor
    · intro h; exact ⟨hc2.1, hc2.2, h.symm⟩
    · intro h; exact h.2.2.symm
  · have hc2 := hc
    simp only [Bool.and_eq_true, Bool.not_eq_true', List.isEmpty_eq_false_iff, all_isDigit_iff] at hc2
    simp only [hc]
    constructor
    · intro h; cases h
    · intro h; exact absurd ⟨h.1, h.2.1⟩ hc2

theorem decimal_iff (v : Str) (n : Int) : Spec.decimal v = some n ↔ Decimal v n := by
  unfold Decimal
  constructor
  · intro h
    unfold Spec.decimal at h
    split at h
    · rename_i t
      obtain ⟨h1, h2, h3⟩ := (decMag_iff _ _ _).mp h
      exact ⟨[43], t, rfl, by simp, h1, h2, by simpa using h3⟩
    · rename_i t
      obtain ⟨h1, h2, h3⟩ := (decMag_iff _ _ _).mp h
      exact ⟨[45], t, rfl, by simp, h1, h2, by simpa using h3⟩
    · obtain ⟨h1, h2, h3⟩ := (decMag_iff _ _ _).mp h
      exact ⟨[], v, rfl, by simp, h1, h2, by simpa using h3⟩
  · rintro ⟨sign, ds, rfl, hs, hne, hd, rfl⟩
    rcases hs with rfl | rfl | rfl
    · cases ds with
      | nil => exact absurd rfl hne
      | cons c t =>
        have hc := hd c (by simp)
        have h43 : c ≠ 43 := by omega
        have h45 : c ≠ 45 := by omega
        unfold Spec.decimal
        split
        · rename_i heq; simp at heq; exact absurd heq.1 h43
        · rename_i heq; simp at heq; exact absurd heq.1 h45
        · exact (decMag_iff _ _ _).mpr ⟨hne, hd, by simp⟩
    · exact (decMag_iff _ _ _).mpr ⟨hne, hd, by simp⟩
    · exact (decMag_iff _ _ _).mpr ⟨hne, hd, by simp⟩

def clamp64 (n : Int) : Option Int :=
  if -9223372036854775808 ≤ n ∧ n ≤ 9223372036854775807 then some n else none

theorem parseMag_eq (neg : Bool) (ds : Str) : parseMag neg ds = (Spec.decMag neg ds).bind clamp64 := by
  unfold parseMag Spec.decMag clamp64
  by_cases hc : (!ds.isEmpty && ds.all isDigit) = true
  · have hc' : (ds.isEmpty || !ds.all isDigit) = false := by
      simp only [Bool.and_eq_true, Bool.not_eq_true'] at hc
      simp [hc.1, hc.2]
    simp only [hc, hc', if_true, Bool.false_eq_true, if_false, Option.bind_some]
    cases neg
    · simp only [Bool.false_eq_true, if_false]
      split <;> split <;> first | rfl | omega
    · simp only [if_true]
      split <;> split <;> first | rfl | omega
  · have hc' : (ds.isEmpty || !ds.all isDigit) = true := by
      cases h1 : ds.isEmpty <;> cases h2 : ds.all isDigit <;> simp_all
    simp [hc, hc']

/-- `strconv.ParseInt(…, 10, 64)` = unbounded decimal restricted to int64. -/
theorem parseInt64_eq (s : Str) : parseInt64 s = (Spec.decimal s).bind clamp64 := by
  unfold parseInt64 Spec.decimal
  split <;> exact parseMag_eq _ _

/-! ### string matcher: model = spec = meaning -/

theorem string_matcher_eq_spec (kind : SMKind) (pat : Str) (ic : Bool) (input : Str) (hk : kind ≠ .regex) :
    (newSM kind pat ic).match input = Spec.sm kind pat .eps ic input := by
  cases kind <;> cases ic <;>
    simp only [newSM, newStr, StringMatcher.match, Spec.sm, asciiLower, if_true, Bool.false_eq_true, if_false]
  · exact map_beq_eq_eqFold lowerB lower_beq input pat
  · exact map_isPrefixOf_eq_prefixFold lowerB lower_beq pat input
  · exact map_isSuffixOf_eq_suffixFold lowerB lower_beq pat input
  · exact map_hasInfix_eq_infixFold lowerB lower_beq pat input

theorem spec_sm_iff (kind : SMKind) (pat : Str) (re : Re) (ic : Bool) (input : Str) :
    Spec.sm kind pat re ic input = true ↔ SMSem kind pat re ic input := by
  cases kind <;> cases ic <;> simp only [Spec.sm, SMSem, if_true, Bool.false_eq_true, if_false]
  · simp
  · exact eqFold_iff _ _
  · exact List.isPrefixOf_iff_prefix
  · exact prefixFold_iff _ _
  · exact List.isSuffixOf_iff_suffix
  · exact suffixFold_iff _ _
  · exact hasInfix_iff _ _
  · exact infixFold_iff _ _

theorem string_matcher_sem (kind : SMKind) (pat : Str) (ic : Bool) (input : Str) (hk : kind ≠ .regex) :
    (newSM kind pat ic).match input = true ↔ SMSem kind pat .eps ic input := by
  rw [string_matcher_eq_spec kind pat ic input hk, spec_sm_iff]

/-! ### header matchers: model = `Spec.withInvert` = `HeaderSem` -/

theorem match_eq_withInvert (md : MD) (k : Str) (inv : Bool) (f : Str → Bool) :
    onValue md k (fun v => f v != inv) = Spec.withInvert md k inv f := by
  unfold onValue valueFromMD Spec.withInvert
  cases h : lookupMD md k <;> simp

theorem withInvert_iff (md : MD) (k : Str) (inv : Bool) (f : Str → Bool) (P : Str → Prop)
    (hf : ∀ v, f v = true ↔ P v) : Spec.withInvert md k inv f = true ↔ HeaderSem md k inv P := by
  unfold Spec.withInvert HeaderSem
  cases h : lookupMD md k with
  | none => simp
  | some vs =>
    simp only [Option.some.injEq, exists_eq_left', ← hf]
    cases inv <;> simp

theorem range_branch (v : Str) (start stop : Int) (inv : Bool)
    (hs : -9223372036854775808 ≤ start) (he : stop ≤ 9223372036854775807) :
    rangeResult v start stop inv = (Spec.inRange v start stop != inv) := by
  unfold rangeResult
  rw [parseInt64_eq]; unfold Spec.inRange
  cases Spec.decimal v with
  | none => cases inv <;> simp
  | some n =>
    simp only [Option.bind_some, clamp64]
    by_cases hin : start ≤ n ∧ n < stop
    · have hc : -9223372036854775808 ≤ n ∧ n ≤ 9223372036854775807 := by omega
      have hin' : n ≥ start ∧ n < stop := ⟨hin.1, hin.2⟩
      cases inv <;> simp [hc, hin']
    · have hin' : ¬ (n ≥ start ∧ n < stop) := fun h => hin ⟨h.1, h.2⟩
      have hb : (decide (start ≤ n) && decide (n < stop)) = false := by
        simp only [Bool.and_eq_false_imp, decide_eq_true_eq, decide_eq_false_iff_not]
        intro h1 h2; exact hin ⟨h1, h2⟩
      by_cases hc : -9223372036854775808 ≤ n ∧ n ≤ 9223372036854775807
      · cases inv <;> simp [hb, hc, hin']
      · cases inv <;> simp [hb, hc]

theorem inRange_iff (v : Str) (start stop : Int) :
    Spec.inRange v start stop = true ↔ ∃ n : Int, Decimal v n ∧ start ≤ n ∧ n < stop := by
  unfold Spec.inRange
  cases hd : Spec.decimal v with
  | none =>
    simp only [Bool.false_eq_true, false_iff]
    rintro ⟨n, h, _⟩; rw [← decimal_iff, hd] at h; cases h
  | some n =>
    simp only [Bool.and_eq_true, decide_eq_true_eq]
    constructor
    · intro h; exact ⟨n, (decimal_iff _ _).mp hd, h⟩
    · rintro ⟨m, hm, h⟩
      rw [← decimal_iff, hd] at hm; cases hm; exact h

theorem rangeResult_inv (v : Str) (start stop : Int) (inv : Bool) :
    rangeResult v start stop inv = (rangeResult v start stop false != inv) := by
  unfold rangeResult
  cases parseInt64 v with
  | none => cases inv <;> rfl
  | some i => cases inv <;> simp

theorem onValue_invert (md : MD) (k : Str) (f : Str → Bool) :
    onValue md k (fun v => f v != true) = ((lookupMD md k).isSome && !onValue md k (fun v => f v != false)) := by
  unfold onValue valueFromMD
  cases h : lookupMD md k <;> simp

theorem onValue_absent (md : MD) (k : Str) (f : Str → Bool) (h : lookupMD md k = none) : onValue md k f = false := by
  unfold onValue valueFromMD; simp [h]

end GrpcProofs.Lemmas.Matchers
