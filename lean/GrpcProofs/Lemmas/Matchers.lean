import Mathlib.Data.List.Forall2
import GrpcModel.Model.Matchers
/-! Helper definitions and lemmas for C47 (header / string / path matchers). -/
namespace GrpcProofs.Lemmas.Matchers
open GrpcModel.Matchers

/-! ### `Prop`-level vocabulary of the property -/

/-- Two bytes are equal up to ASCII case: equal, or an upper-case ASCII letter (65..90) and its lower-case
    counterpart (+32), in either order. -/
def CaseEq (x y : Nat) : Prop := x = y ∨ (65 ≤ x ∧ x ≤ 90 ∧ y = x + 32) ∨ (65 ≤ y ∧ y ≤ 90 ∧ x = y + 32)

/-- Two byte strings are equal up to ASCII case: same length, position-wise `CaseEq`. -/
def FoldEq (a b : Str) : Prop := List.Forall₂ CaseEq a b

/-- `v` is the base-10 notation of the integer `n`: optional sign, at least one ASCII digit, nothing else. -/
def Decimal (v : Str) (n : Int) : Prop :=
  ∃ sign ds, v = sign ++ ds ∧ (sign = [] ∨ sign = [43] ∨ sign = [45]) ∧ ds ≠ [] ∧ (∀ d ∈ ds, 48 ≤ d ∧ d ≤ 57) ∧
    n = if sign = [45] then -(digitsVal ds : Int) else (digitsVal ds : Int)

/-- Meaning of a header matcher with an invert flag: the header is present, and the predicate on the comma-joined
    value holds exactly when invert is off. -/
def HeaderSem (md : MD) (key : Str) (invert : Bool) (P : Str → Prop) : Prop :=
  ∃ vs, lookupMD md key = some vs ∧ (P (joinComma vs) ↔ invert = false)

/-- Meaning of a string matcher with configured pattern. -/
def SMSem (kind : SMKind) (pat : Str) (re : Re) (ignoreCase : Bool) (input : Str) : Prop :=
  match kind, ignoreCase with
  | .exact, false => input = pat
  | .exact, true => FoldEq input pat
  | .prefix, false => pat <+: input
  | .prefix, true => ∃ p r, input = p ++ r ∧ FoldEq p pat
  | .suffix, false => pat <:+ input
  | .suffix, true => ∃ r p, input = r ++ p ∧ FoldEq p pat
  | .contains, false => pat <:+: input
  | .contains, true => ∃ a p b, input = a ++ p ++ b ∧ FoldEq p pat
  | .regex, _ => re.matches input = true

/-- key / invert accessors of the model's header matchers. -/
def key : HeaderMatcher → Str
  | .exact k _ _ | .regex k _ _ | .range k _ _ _ | .present k _ | .prefix k _ _ | .suffix k _ _
  | .contains k _ _ | .string k _ _ => k

def isPresentKind : HeaderMatcher → Bool
  | .present _ _ => true
  | _ => false

def setInvert (i : Bool) : HeaderMatcher → HeaderMatcher
  | .exact k p _ => .exact k p i
  | .regex k r _ => .regex k r i
  | .range k a b _ => .range k a b i
  | .present k p => .present k p
  | .prefix k p _ => .prefix k p i
  | .suffix k p _ => .suffix k p i
  | .contains k p _ => .contains k p i
  | .string k s _ => .string k s i

/-! ### bytes -/

theorem caseEq_symm {x y : Nat} (h : CaseEq x y) : CaseEq y x := by
  unfold CaseEq at *; omega

theorem caseEqB_iff (x y : Nat) : Spec.caseEqB x y = true ↔ CaseEq x y := by
  simp only [Spec.caseEqB, Spec.isUpperB, CaseEq, Bool.or_eq_true, Bool.and_eq_true, beq_iff_eq, decide_eq_true_eq]
  omega

theorem lower_beq (x y : Nat) : (lowerB x == lowerB y) = Spec.caseEqB x y := by
  rw [Bool.eq_iff_iff, caseEqB_iff]
  simp only [beq_iff_eq, lowerB, CaseEq]
  split <;> split <;> omega

theorem upper_beq (x y : Nat) : (upperB x == upperB y) = Spec.caseEqB x y := by
  rw [Bool.eq_iff_iff, caseEqB_iff]
  simp only [beq_iff_eq, upperB, CaseEq]
  split <;> split <;> omega

theorem caseEqB_comm (x y : Nat) : Spec.caseEqB x y = Spec.caseEqB y x := by
  rw [Bool.eq_iff_iff, caseEqB_iff, caseEqB_iff]; exact ⟨caseEq_symm, caseEq_symm⟩

/-! ### folded comparisons: model computations = executable spec -/

theorem map_beq_eq_eqFold (f : Nat → Nat) (hf : ∀ x y, (f x == f y) = Spec.caseEqB x y) :
    ∀ a b : Str, (a.map f == b.map f) = Spec.eqFold a b
  | [], [] => by simp [Spec.eqFold]
  | [], _ :: _ => by simp [Spec.eqFold]
  | _ :: _, [] => by simp [Spec.eqFold]
  | x :: s, y :: t => by
    have ih := map_beq_eq_eqFold f hf s t
    have h1 := hf x y
    simp only [List.map_cons, Spec.eqFold, ← ih, ← h1]
    rw [Bool.eq_iff_iff]; simp

theorem map_isPrefixOf_eq_prefixFold (f : Nat → Nat) (hf : ∀ x y, (f x == f y) = Spec.caseEqB x y) :
    ∀ pat s : Str, (pat.map f).isPrefixOf (s.map f) = Spec.prefixFold pat s
  | [], _ => by simp [Spec.prefixFold]
  | _ :: _, [] => by simp [Spec.prefixFold]
  | p :: ps, c :: cs => by
    have ih := map_isPrefixOf_eq_prefixFold f hf ps cs
    simp only [List.map_cons, List.isPrefixOf, Spec.prefixFold, ih, hf]

theorem map_isSuffixOf_eq_suffixFold (f : Nat → Nat) (hf : ∀ x y, (f x == f y) = Spec.caseEqB x y)
    (pat s : Str) : (pat.map f).isSuffixOf (s.map f) = Spec.suffixFold pat s := by
  simp only [List.isSuffixOf, Spec.suffixFold, ← List.map_reverse, map_isPrefixOf_eq_prefixFold f hf]

theorem map_hasInfix_eq_infixFold (f : Nat → Nat) (hf : ∀ x y, (f x == f y) = Spec.caseEqB x y) (pat : Str) :
    ∀ s : Str, hasInfix (pat.map f) (s.map f) = Spec.infixFold pat s
  | [] => by simp [hasInfix, Spec.infixFold]
  | c :: t => by
    have ih := map_hasInfix_eq_infixFold f hf pat t
    have hp := map_isPrefixOf_eq_prefixFold f hf pat (c :: t)
    simp only [List.map_cons] at hp
    simp only [List.map_cons, hasInfix, Spec.infixFold, ih, hp]

/-! ### executable spec ↔ `Prop` vocabulary -/

theorem eqFold_iff : ∀ a b : Str, Spec.eqFold a b = true ↔ FoldEq a b
  | [], [] => by simp [Spec.eqFold, FoldEq]
  | [], _ :: _ => by simp [Spec.eqFold, FoldEq]
  | _ :: _, [] => by simp [Spec.eqFold, FoldEq]
  | x :: s, y :: t => by
    have ih := eqFold_iff s t
    simp only [Spec.eqFold, Bool.and_eq_true, caseEqB_iff, ih, FoldEq, List.forall₂_cons]

theorem foldEq_symm {a b : Str} (h : FoldEq a b) : FoldEq b a := by
  unfold FoldEq at *
  exact List.Forall₂.flip (h.imp fun _ _ h => caseEq_symm h)

theorem prefixFold_iff : ∀ pat s : Str, Spec.prefixFold pat s = true ↔ ∃ p r, s = p ++ r ∧ FoldEq p pat
  | [], s => by
    simp only [Spec.prefixFold, true_iff]
    exact ⟨[], s, rfl, List.Forall₂.nil⟩
  | p :: ps, [] => by
    simp only [Spec.prefixFold, Bool.false_eq_true, false_iff]
    rintro ⟨q, r, h, hq⟩
    have : q = [] := by
      cases q with
      | nil => rfl
      | cons a q => simp at h
    subst this
    cases hq
  | p :: ps, c :: cs => by
    have ih := prefixFold_iff ps cs
    simp only [Spec.prefixFold, Bool.and_eq_true, caseEqB_iff, ih]
    constructor
    · rintro ⟨h1, q, r, h2, h3⟩
      exact ⟨c :: q, r, by simp [h2], List.Forall₂.cons (caseEq_symm h1) h3⟩
    · rintro ⟨q, r, h2, h3⟩
      cases h3 with
      | cons hh ht =>
        simp only [List.cons_append, List.cons.injEq] at h2
        obtain ⟨rfl, rfl⟩ := h2
        exact ⟨caseEq_symm hh, _, r, rfl, ht⟩

theorem suffixFold_iff (pat s : Str) : Spec.suffixFold pat s = true ↔ ∃ r p, s = r ++ p ∧ FoldEq p pat := by
  simp only [Spec.suffixFold, prefixFold_iff]
  constructor
  · rintro ⟨p, r, h, hp⟩
    refine ⟨r.reverse, p.reverse, ?_, ?_⟩
    · have := congrArg List.reverse h
      simpa using this
    · unfold FoldEq at *
      have := List.forall₂_reverse_iff.mpr hp
      simpa using this
  · rintro ⟨r, p, h, hp⟩
    refine ⟨p.reverse, r.reverse, by simp [h], ?_⟩
    unfold FoldEq at *
    exact List.forall₂_reverse_iff.mpr hp

theorem infixFold_iff (pat : Str) : ∀ s : Str, Spec.infixFold pat s = true ↔ ∃ a p b, s = a ++ p ++ b ∧ FoldEq p pat
  | [] => by
    simp only [Spec.infixFold, List.isEmpty_iff]
    constructor
    · rintro rfl; exact ⟨[], [], [], rfl, List.Forall₂.nil⟩
    · rintro ⟨a, p, b, h, hp⟩
      have hp0 : p = [] := by
        cases p with
        | nil => rfl
        | cons x p => cases a <;> simp at h
      subst hp0
      cases hp; rfl
  | c :: t => by
    have ih := infixFold_iff pat t
    simp only [Spec.infixFold, Bool.or_eq_true, prefixFold_iff, ih]
    constructor
    · rintro (⟨p, r, h, hp⟩ | ⟨a, p, b, h, hp⟩)
      · exact ⟨[], p, r, by simpa using h, hp⟩
      · exact ⟨c :: a, p, b, by simp [h], hp⟩
    · rintro ⟨a, p, b, h, hp⟩
      cases a with
      | nil => exact Or.inl ⟨p, b, by simpa using h, hp⟩
      | cons x a =>
        simp only [List.cons_append, List.cons.injEq] at h
        exact Or.inr ⟨a, p, b, h.2, hp⟩

theorem hasInfix_iff (pat : Str) : ∀ s : Str, hasInfix pat s = true ↔ pat <:+: s
  | [] => by simp [hasInfix, List.isEmpty_iff]
  | c :: t => by
    have ih := hasInfix_iff pat t
    simp only [hasInfix, Bool.or_eq_true, List.isPrefixOf_iff_prefix, ih]
    rw [List.infix_cons_iff]

/-! ### join, decimal -/

theorem joinComma_eq_intercalate : ∀ vs : List Str, joinComma vs = List.intercalate [44] vs
  | [] => by simp [joinComma, List.intercalate]
  | [a] => by simp [joinComma, List.intercalate]
  | a :: b :: t => by
    have ih := joinComma_eq_intercalate (b :: t)
    simp only [joinComma, List.intercalate] at ih ⊢
    simp [ih, List.intersperse]

theorem all_isDigit_iff (ds : Str) : ds.all isDigit = true ↔ ∀ d ∈ ds, 48 ≤ d ∧ d ≤ 57 := by
  simp [List.all_eq_true, isDigit]

theorem decMag_iff (neg : Bool) (ds : Str) (n : Int) :
    Spec.decMag neg ds = some n ↔ ds ≠ [] ∧ (∀ d ∈ ds, 48 ≤ d ∧ d ≤ 57) ∧
      n = if neg then -(digitsVal ds : Int) else (digitsVal ds : Int) := by
  unfold Spec.decMag
  by_cases hc : (!ds.isEmpty && ds.all isDigit) = true
  · have hc2 := hc
    simp only [Bool.and_eq_true, Bool.not_eq_true', List.isEmpty_eq_false_iff, all_isDigit_iff] at hc2
    simp only [hc, if_true, Option.some.injEq]
    constructor
    · intro h; exact ⟨hc2.1, hc2.2, h.symm⟩
    · intro h; exact h.2.2.symm
  · have hc2 := hc
    simp only [Bool.and_eq_true, Bool.not_eq_true', List.isEmpty_eq_false_iff, all_isDigit_iff] at hc2
    simp only [hc]
    constructor
    · intro h; cases h
    · intro h; exact absurd ⟨h.1, h.2.1⟩ hc2

theorem decimal_iff (v : Str) (n : Int) : Spec.decimal v = some n ↔ Decimal v n := by
  unfold Decimal
  constructor
  · intro h
    unfold Spec.decimal at h
    split at h
    · rename_i t
      obtain ⟨h1, h2, h3⟩ := (decMag_iff _ _ _).mp h
      exact ⟨[43], t, rfl, by simp, h1, h2, by simpa using h3⟩
    · rename_i t
      obtain ⟨h1, h2, h3⟩ := (decMag_iff _ _ _).mp h
      exact ⟨[45], t, rfl, by simp, h1, h2, by simpa using h3⟩
    · obtain ⟨h1, h2, h3⟩ := (decMag_iff _ _ _).mp h
      exact ⟨[], v, rfl, by simp, h1, h2, by simpa using h3⟩
  · rintro ⟨sign, ds, rfl, hs, hne, hd, rfl⟩
    rcases hs with rfl | rfl | rfl
    · cases ds with
      | nil => exact absurd rfl hne
      | cons c t =>
        have hc := hd c (by simp)
        have h43 : c ≠ 43 := by omega
        have h45 : c ≠ 45 := by omega
        unfold Spec.decimal
        split
        · rename_i heq; simp at heq; exact absurd heq.1 h43
        · rename_i heq; simp at heq; exact absurd heq.1 h45
        · exact (decMag_iff _ _ _).mpr ⟨hne, hd, by simp⟩
    · exact (decMag_iff _ _ _).mpr ⟨hne, hd, by simp⟩
    · exact (decMag_iff _ _ _).mpr ⟨hne, hd, by simp⟩

def clamp64 (n : Int) : Option Int :=
  if -9223372036854775808 ≤ n ∧ n ≤ 9223372036854775807 then some n else none

theorem parseMag_eq (neg : Bool) (ds : Str) : parseMag neg ds = (Spec.decMag neg ds).bind clamp64 := by
  unfold parseMag Spec.decMag clamp64
  by_cases hc : (!ds.isEmpty && ds.all isDigit) = true
  · have hc' : (ds.isEmpty || !ds.all isDigit) = false := by
      simp only [Bool.and_eq_true, Bool.not_eq_true'] at hc
      simp [hc.1, hc.2]
    simp only [hc, hc', if_true, Bool.false_eq_true, if_false, Option.bind_some]
    cases neg
    · simp only [Bool.false_eq_true, if_false]
      split <;> split <;> first | rfl | omega
    · simp only [if_true]
      split <;> split <;> first | rfl | omega
  · have hc' : (ds.isEmpty || !ds.all isDigit) = true := by
      cases h1 : ds.isEmpty <;> cases h2 : ds.all isDigit <;> simp_all
    simp [hc, hc']

/-- `strconv.ParseInt(…, 10, 64)` = unbounded decimal restricted to int64. -/
theorem parseInt64_eq (s : Str) : parseInt64 s = (Spec.decimal s).bind clamp64 := by
  unfold parseInt64 Spec.decimal
  split <;> exact parseMag_eq _ _

/-! ### string matcher: model = spec = meaning -/

theorem string_matcher_eq_spec (kind : SMKind) (pat : Str) (ic : Bool) (input : Str) (hk : kind ≠ .regex) :
    (newSM kind pat ic).match input = Spec.sm kind pat .eps ic input := by
  cases kind <;> cases ic <;>
    simp only [newSM, newStr, StringMatcher.match, Spec.sm, asciiLower, if_true, Bool.false_eq_true, if_false]
  · exact map_beq_eq_eqFold lowerB lower_beq input pat
  · exact map_isPrefixOf_eq_prefixFold lowerB lower_beq pat input
  · exact map_isSuffixOf_eq_suffixFold lowerB lower_beq pat input
  · exact map_hasInfix_eq_infixFold lowerB lower_beq pat input

theorem spec_sm_iff (kind : SMKind) (pat : Str) (re : Re) (ic : Bool) (input : Str) :
    Spec.sm kind pat re ic input = true ↔ SMSem kind pat re ic input := by
  cases kind <;> cases ic <;> simp only [Spec.sm, SMSem, if_true, Bool.false_eq_true, if_false]
  · simp
  · exact eqFold_iff _ _
  · exact List.isPrefixOf_iff_prefix
  · exact prefixFold_iff _ _
  · exact List.isSuffixOf_iff_suffix
  · exact suffixFold_iff _ _
  · exact hasInfix_iff _ _
  · exact infixFold_iff _ _

theorem string_matcher_sem (kind : SMKind) (pat : Str) (ic : Bool) (input : Str) (hk : kind ≠ .regex) :
    (newSM kind pat ic).match input = true ↔ SMSem kind pat .eps ic input := by
  rw [string_matcher_eq_spec kind pat ic input hk, spec_sm_iff]

/-! ### header matchers: model = `Spec.withInvert` = `HeaderSem` -/

theorem match_eq_withInvert (md : MD) (k : Str) (inv : Bool) (f : Str → Bool) :
    onValue md k (fun v => f v != inv) = Spec.withInvert md k inv f := by
  unfold onValue valueFromMD Spec.withInvert
  cases h : lookupMD md k <;> simp

theorem withInvert_iff (md : MD) (k : Str) (inv : Bool) (f : Str → Bool) (P : Str → Prop)
    (hf : ∀ v, f v = true ↔ P v) : Spec.withInvert md k inv f = true ↔ HeaderSem md k inv P := by
  unfold Spec.withInvert HeaderSem
  cases h : lookupMD md k with
  | none => simp
  | some vs =>
    simp only [Option.some.injEq, exists_eq_left', ← hf]
    cases inv <;> simp

theorem range_branch (v : Str) (start stop : Int) (inv : Bool)
    (hs : -9223372036854775808 ≤ start) (he : stop ≤ 9223372036854775807) :
    rangeResult v start stop inv = (Spec.inRange v start stop != inv) := by
  unfold rangeResult
  rw [parseInt64_eq]; unfold Spec.inRange
  cases Spec.decimal v with
  | none => cases inv <;> simp
  | some n =>
    simp only [Option.bind_some, clamp64]
    by_cases hin : start ≤ n ∧ n < stop
    · have hc : -9223372036854775808 ≤ n ∧ n ≤ 9223372036854775807 := by omega
      have hin' : n ≥ start ∧ n < stop := ⟨hin.1, hin.2⟩
      cases inv <;> simp [hc, hin']
    · have hin' : ¬ (n ≥ start ∧ n < stop) := fun h => hin ⟨h.1, h.2⟩
      have hb : (decide (start ≤ n) && decide (n < stop)) = false := by
        simp only [Bool.and_eq_false_imp, decide_eq_true_eq, decide_eq_false_iff_not]
        intro h1 h2; exact hin ⟨h1, h2⟩
      by_cases hc : -9223372036854775808 ≤ n ∧ n ≤ 9223372036854775807
      · cases inv <;> simp [hb, hc, hin']
      · cases inv <;> simp [hb, hc]

theorem inRange_iff (v : Str) (start stop : Int) :
    Spec.inRange v start stop = true ↔ ∃ n : Int, Decimal v n ∧ start ≤ n ∧ n < stop := by
  unfold Spec.inRange
  cases hd : Spec.decimal v with
  | none =>
    simp only [Bool.false_eq_true, false_iff]
    rintro ⟨n, h, _⟩; rw [← decimal_iff, hd] at h; cases h
  | some n =>
    simp only [Bool.and_eq_true, decide_eq_true_eq]
    constructor
    · intro h; exact ⟨n, (decimal_iff _ _).mp hd, h⟩
    · rintro ⟨m, hm, h⟩
      rw [← decimal_iff, hd] at hm; cases hm; exact h

theorem rangeResult_inv (v : Str) (start stop : Int) (inv : Bool) :
    rangeResult v start stop inv = (rangeResult v start stop false != inv) := by
  unfold rangeResult
  cases parseInt64 v with
  | none => cases inv <;> rfl
  | some i => cases inv <;> simp

theorem onValue_invert (md : MD) (k : Str) (f : Str → Bool) :
    onValue md k (fun v => f v != true) = ((lookupMD md k).isSome && !onValue md k (fun v => f v != false)) := by
  unfold onValue valueFromMD
  cases h : lookupMD md k <;> simp

theorem onValue_absent (md : MD) (k : Str) (f : Str → Bool) (h : lookupMD md k = none) : onValue md k f = false := by
  unfold onValue valueFromMD; simp [h]

/-! ### regular expressions: the derivative matcher decides full-string membership -/

/-- The language of a regular expression (what `regexp` means by a FULL match of the string). `none` and `invalid`
    have no words. -/
inductive Lang : Re → Str → Prop
  | eps : Lang .eps []
  | char (c : Nat) : Lang (.char c) [c]
  | dot (c : Nat) : c ≠ 10 → Lang .dot [c]
  | range (lo hi c : Nat) : lo ≤ c → c ≤ hi → Lang (.range lo hi) [c]
  | seq {a b : Re} {s t : Str} : Lang a s → Lang b t → Lang (.seq a b) (s ++ t)
  | altL {a b : Re} {s : Str} : Lang a s → Lang (.alt a b) s
  | altR {a b : Re} {s : Str} : Lang b s → Lang (.alt a b) s
  | starNil {a : Re} : Lang (.star a) []
  | starCons {a : Re} {s t : Str} : Lang a s → Lang (.star a) t → Lang (.star a) (s ++ t)

theorem lang_none (s : Str) : ¬ Lang .none s := by intro h; cases h
theorem lang_invalid (s : Str) : ¬ Lang .invalid s := by intro h; cases h

theorem lang_eps_iff (s : Str) : Lang .eps s ↔ s = [] := by
  constructor
  · intro h; cases h; rfl
  · rintro rfl; exact .eps

theorem lang_seq_iff (a b : Re) (w : Str) : Lang (.seq a b) w ↔ ∃ s t, w = s ++ t ∧ Lang a s ∧ Lang b t := by
  constructor
  · intro h; cases h with | seq h1 h2 => exact ⟨_, _, rfl, h1, h2⟩
  · rintro ⟨s, t, rfl, h1, h2⟩; exact .seq h1 h2

theorem lang_alt_iff (a b : Re) (w : Str) : Lang (.alt a b) w ↔ Lang a w ∨ Lang b w := by
  constructor
  · intro h; cases h with
    | altL h => exact Or.inl h
    | altR h => exact Or.inr h
  · rintro (h | h)
    · exact .altL h
    · exact .altR h

theorem lang_mkSeq (a b : Re) (w : Str) : Lang (mkSeq a b) w ↔ Lang (.seq a b) w := by
  unfold mkSeq
  split
  · -- a = none
    constructor
    · intro h; exact absurd h (lang_none _)
    · intro h; rw [lang_seq_iff] at h; obtain ⟨_, _, _, h1, _⟩ := h; exact absurd h1 (lang_none _)
  · constructor
    · intro h; exact absurd h (lang_none _)
    · intro h; rw [lang_seq_iff] at h; obtain ⟨_, _, _, _, h2⟩ := h; exact absurd h2 (lang_none _)
  · -- a = eps
    rw [lang_seq_iff]
    constructor
    · intro h; exact ⟨[], w, rfl, .eps, h⟩
    · rintro ⟨s, t, rfl, h1, h2⟩
      rw [lang_eps_iff] at h1; subst h1; simpa using h2
  · rfl

theorem lang_mkAlt (a b : Re) (w : Str) : Lang (mkAlt a b) w ↔ Lang (.alt a b) w := by
  unfold mkAlt
  split
  · rw [lang_alt_iff]
    constructor
    · intro h; exact Or.inr h
    · rintro (h | h)
      · exact absurd h (lang_none _)
      · exact h
  · rw [lang_alt_iff]
    constructor
    · intro h; exact Or.inl h
    · rintro (h | h)
      · exact h
      · exact absurd h (lang_none _)
  · rfl

theorem nullable_iff : ∀ r : Re, r.nullable = true ↔ Lang r []
  | .none => by simp [Re.nullable, lang_none]
  | .invalid => by simp [Re.nullable, lang_invalid]
  | .eps => by simp [Re.nullable, lang_eps_iff]
  | .char c => by
    simp only [Re.nullable, Bool.false_eq_true, false_iff]; intro h; cases h
  | .dot => by
    simp only [Re.nullable, Bool.false_eq_true, false_iff]; intro h; cases h
  | .range lo hi => by
    simp only [Re.nullable, Bool.false_eq_true, false_iff]; intro h; cases h
  | .seq a b => by
    have iha := nullable_iff a
    have ihb := nullable_iff b
    simp only [Re.nullable, Bool.and_eq_true, iha, ihb, lang_seq_iff]
    constructor
    · rintro ⟨h1, h2⟩; exact ⟨[], [], rfl, h1, h2⟩
    · rintro ⟨s, t, h, h1, h2⟩
      have hs : s = [] := by cases s <;> simp at h ⊢
      have ht : t = [] := by cases t <;> simp [hs] at h ⊢
      subst hs ht; exact ⟨h1, h2⟩
  | .alt a b => by
    have iha := nullable_iff a
    have ihb := nullable_iff b
    simp only [Re.nullable, Bool.or_eq_true, iha, ihb, lang_alt_iff]
  | .star a => by
    simp only [Re.nullable, true_iff]; exact .starNil

/-- a non-empty word of `a*` starts with a non-empty word of `a`. -/
theorem star_cons_inv {a : Re} {c : Nat} {s : Str} (h : Lang (.star a) (c :: s)) :
    ∃ s1 s2, s = s1 ++ s2 ∧ Lang a (c :: s1) ∧ Lang (.star a) s2 := by
  generalize hr : Re.star a = r at h
  generalize hw : c :: s = w at h
  induction h generalizing s with
  | eps => cases hr
  | char => cases hr
  | dot => cases hr
  | range => cases hr
  | seq => cases hr
  | altL => cases hr
  | altR => cases hr
  | starNil => cases hw
  | @starCons a' s' t hs ht _ iht =>
    cases hr
    cases s' with
    | nil =>
      simp only [List.nil_append] at hw
      exact iht rfl hw
    | cons x s1 =>
      simp only [List.cons_append, List.cons.injEq] at hw
      obtain ⟨rfl, rfl⟩ := hw
      exact ⟨s1, t, rfl, hs, ht⟩

theorem deriv_iff (c : Nat) : ∀ (r : Re) (s : Str), Lang (r.deriv c) s ↔ Lang r (c :: s)
  | .none, s => by simp [Re.deriv, lang_none]
  | .invalid, s => by simp [Re.deriv, lang_none, lang_invalid]
  | .eps, s => by
    simp only [Re.deriv, lang_none, false_iff]; intro h; cases h
  | .char d, s => by
    simp only [Re.deriv]
    split
    · rename_i h; subst h
      rw [lang_eps_iff]
      constructor
      · rintro rfl; exact .char c
      · intro h; cases h; rfl
    · rename_i h
      simp only [lang_none, false_iff]
      intro h'; cases h'; exact h rfl
  | .dot, s => by
    simp only [Re.deriv]
    split
    · rename_i h; subst h
      simp only [lang_none, false_iff]
      intro h'; cases h' with | dot _ hne => exact hne rfl
    · rename_i h
      rw [lang_eps_iff]
      constructor
      · rintro rfl; exact .dot c h
      · intro h'; cases h'; rfl
  | .range lo hi, s => by
    simp only [Re.deriv]
    split
    · rename_i h
      rw [lang_eps_iff]
      constructor
      · rintro rfl; exact .range lo hi c h.1 h.2
      · intro h'; cases h'; rfl
    · rename_i h
      simp only [lang_none, false_iff]
      intro h'; cases h' with | range _ _ _ h1 h2 => exact h ⟨h1, h2⟩
  | .seq a b, s => by
    have iha := deriv_iff c a
    have ihb := deriv_iff c b
    simp only [Re.deriv]
    have hseq : Lang (mkSeq (a.deriv c) b) s ↔ ∃ s1 t, s = s1 ++ t ∧ Lang a (c :: s1) ∧ Lang b t := by
      rw [lang_mkSeq, lang_seq_iff]
      constructor
      · rintro ⟨s1, t, h, h1, h2⟩; exact ⟨s1, t, h, (iha s1).mp h1, h2⟩
      · rintro ⟨s1, t, h, h1, h2⟩; exact ⟨s1, t, h, (iha s1).mpr h1, h2⟩
    have hsplit : Lang (.seq a b) (c :: s) ↔
        (∃ s1 t, s = s1 ++ t ∧ Lang a (c :: s1) ∧ Lang b t) ∨ (Lang a [] ∧ Lang b (c :: s)) := by
      rw [lang_seq_iff]
      constructor
      · rintro ⟨u, t, h, h1, h2⟩
        cases u with
        | nil => simp only [List.nil_append] at h; subst h; exact Or.inr ⟨h1, h2⟩
        | cons x u =>
          simp only [List.cons_append, List.cons.injEq] at h
          obtain ⟨rfl, rfl⟩ := h
          exact Or.inl ⟨u, t, rfl, h1, h2⟩
      · rintro (⟨s1, t, rfl, h1, h2⟩ | ⟨h1, h2⟩)
        · exact ⟨c :: s1, t, rfl, h1, h2⟩
        · exact ⟨[], c :: s, rfl, h1, h2⟩
    split
    · rename_i hn
      rw [lang_mkAlt, lang_alt_iff, hseq, ihb s, hsplit]
      have := (nullable_iff a).mp hn
      constructor
      · rintro (h | h)
        · exact Or.inl h
        · exact Or.inr ⟨this, h⟩
      · rintro (h | ⟨_, h⟩)
        · exact Or.inl h
        · exact Or.inr h
    · rename_i hn
      rw [hseq, hsplit]
      have : ¬ Lang a [] := fun h => hn ((nullable_iff a).mpr h)
      constructor
      · intro h; exact Or.inl h
      · rintro (h | ⟨h, _⟩)
        · exact h
        · exact absurd h this
  | .alt a b, s => by
    have iha := deriv_iff c a s
    have ihb := deriv_iff c b s
    simp only [Re.deriv]
    rw [lang_mkAlt, lang_alt_iff, lang_alt_iff, iha, ihb]
  | .star a, s => by
    have iha := deriv_iff c a
    simp only [Re.deriv]
    rw [lang_mkSeq, lang_seq_iff]
    constructor
    · rintro ⟨s1, t, rfl, h1, h2⟩
      exact .starCons ((iha s1).mp h1) h2
    · intro h
      obtain ⟨s1, s2, rfl, h1, h2⟩ := star_cons_inv h
      exact ⟨s1, s2, rfl, (iha s1).mpr h1, h2⟩

/-- the derivative matcher decides FULL-string membership in the regex's language. -/
theorem matches_iff : ∀ (s : Str) (r : Re), r.matches s = true ↔ Lang r s
  | [], r => by simp [Re.matches, nullable_iff]
  | c :: s, r => by
    have ih := matches_iff s (r.deriv c)
    simp only [Re.matches, List.foldl_cons] at ih ⊢
    rw [ih, deriv_iff]

end GrpcProofs.Lemmas.Matchers
