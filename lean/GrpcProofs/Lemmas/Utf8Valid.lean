/-
Helper lemmas about `valid`, `sanitize` and the Unicode Table 3-7 specification `WellFormed`
(lean/GrpcModel/Prim/Utf8.lean): fuel irrelevance, unfolding equations, valid ↔ WellFormed.
-/
import GrpcProofs.Lemmas.Utf8
namespace GrpcProofs.Lemmas.Utf8
open GrpcModel.Utf8

/-! ### fuel irrelevance and the unfolding equations of `sanitize` / `valid` -/

theorem sanitizeAux_nil (f : Nat) : sanitizeAux f [] = [] := by cases f <;> rfl
theorem validAux_nil (f : Nat) : validAux f [] = true := by cases f <;> rfl

theorem drop_len (s : List UInt8) (n f : Nat) (h1 : 1 ≤ n) (h : s.length ≤ f + 1) : (s.drop n).length ≤ f := by
  rw [List.length_drop]; omega

theorem sanitizeAux_fuel (f1 f2 : Nat) (s : List UInt8) (h1 : s.length ≤ f1) (h2 : s.length ≤ f2) :
    sanitizeAux f1 s = sanitizeAux f2 s := by
  induction f1 generalizing f2 s with
  | zero =>
    have : s = [] := List.eq_nil_of_length_eq_zero (by omega)
    subst this; rw [sanitizeAux_nil, sanitizeAux_nil]
  | succ f1 ih =>
    match f2 with
    | 0 =>
      have : s = [] := List.eq_nil_of_length_eq_zero (by omega)
      subst this; rw [sanitizeAux_nil, sanitizeAux_nil]
    | f2 + 1 =>
      unfold sanitizeAux
      by_cases he : s.isEmpty
      · simp [he]
      · have hne : s ≠ [] := by simpa using he
        have hs := decodeRune_size s hne
        simp only [he, Bool.false_eq_true, if_false]
        rw [ih f2 (s.drop 1) (drop_len s 1 f1 (by omega) h1) (drop_len s 1 f2 (by omega) h2),
          ih f2 (s.drop (decodeRune s).2) (drop_len s _ f1 hs.1 h1) (drop_len s _ f2 hs.1 h2)]

theorem validAux_fuel (f1 f2 : Nat) (s : List UInt8) (h1 : s.length ≤ f1) (h2 : s.length ≤ f2) :
    validAux f1 s = validAux f2 s := by
  induction f1 generalizing f2 s with
  | zero =>
    have : s = [] := List.eq_nil_of_length_eq_zero (by omega)
    subst this; rw [validAux_nil, validAux_nil]
  | succ f1 ih =>
    match f2 with
    | 0 =>
      have : s = [] := List.eq_nil_of_length_eq_zero (by omega)
      subst this; rw [validAux_nil, validAux_nil]
    | f2 + 1 =>
      unfold validAux
      by_cases he : s.isEmpty
      · simp [he]
      · have hne : s ≠ [] := by simpa using he
        have hs := decodeRune_size s hne
        simp only [he, Bool.false_eq_true, if_false]
        rw [ih f2 (s.drop (decodeRune s).2) (drop_len s _ f1 hs.1 h1) (drop_len s _ f2 hs.1 h2)]

theorem sanitize_nil : sanitize [] = [] := rfl
theorem valid_nil : valid [] = true := rfl

theorem sanitize_unfold (s : List UInt8) (hne : s ≠ []) :
    sanitize s = if isInvalid (decodeRune s) then replacement ++ sanitize (s.drop 1)
                 else s.take (decodeRune s).2 ++ sanitize (s.drop (decodeRune s).2) := by
  have hs := decodeRune_size s hne
  have hl : 0 < s.length := List.length_pos_iff.mpr hne
  unfold sanitize
  obtain ⟨n, hn⟩ : ∃ n, s.length = n + 1 := ⟨s.length - 1, by omega⟩
  rw [hn]
  simp only [sanitizeAux, show s.isEmpty = false by simpa using hne, Bool.false_eq_true, if_false]
  rw [sanitizeAux_fuel n (s.drop 1).length (s.drop 1) (drop_len s 1 n (by omega) (by omega)) (Nat.le_refl _),
    sanitizeAux_fuel n (s.drop (decodeRune s).2).length (s.drop (decodeRune s).2)
      (drop_len s _ n hs.1 (by omega)) (Nat.le_refl _)]

theorem valid_unfold (s : List UInt8) (hne : s ≠ []) :
    valid s = (!isInvalid (decodeRune s) && valid (s.drop (decodeRune s).2)) := by
  have hs := decodeRune_size s hne
  have hl : 0 < s.length := List.length_pos_iff.mpr hne
  unfold valid
  obtain ⟨n, hn⟩ : ∃ n, s.length = n + 1 := ⟨s.length - 1, by omega⟩
  rw [hn]
  simp only [validAux, show s.isEmpty = false by simpa using hne, Bool.false_eq_true, if_false]
  rw [validAux_fuel n (s.drop (decodeRune s).2).length (s.drop (decodeRune s).2)
      (drop_len s _ n hs.1 (by omega)) (Nat.le_refl _)]
  cases isInvalid (decodeRune s) <;> simp


/-! ### `Scalar` (Table 3-7) versus the decoder -/

theorem decodeSpec_1 (b0 : UInt8) (t : List UInt8) (h : b0.toNat < 0x80) :
    decodeSpec (b0 :: t) = (b0.toNat, 1) := by simp [decodeSpec, h]

theorem decodeSpec_2 (b0 b1 : UInt8) (t : List UInt8) (h0 : 0xC2 ≤ b0.toNat ∧ b0.toNat ≤ 0xDF)
    (h1 : 0x80 ≤ b1.toNat ∧ b1.toNat ≤ 0xBF) :
    decodeSpec (b0 :: b1 :: t) = (b0.toNat % 32 * 64 + b1.toNat % 64, 2) := by
  have a : ¬ b0.toNat < 0x80 := by omega
  simp [decodeSpec, a, h0, h1]

theorem decodeSpec_3 (b0 b1 b2 : UInt8) (t : List UInt8) (h0 : 0xE0 ≤ b0.toNat ∧ b0.toNat ≤ 0xEF)
    (h1 : lo2 b0.toNat ≤ b1.toNat ∧ b1.toNat ≤ hi2 b0.toNat) (h2 : 0x80 ≤ b2.toNat ∧ b2.toNat ≤ 0xBF) :
    decodeSpec (b0 :: b1 :: b2 :: t) = (b0.toNat % 16 * 4096 + b1.toNat % 64 * 64 + b2.toNat % 64, 3) := by
  have a : ¬ b0.toNat < 0x80 := by omega
  have b : ¬ (0xC2 ≤ b0.toNat ∧ b0.toNat ≤ 0xDF) := by omega
  simp [decodeSpec, a, b, h0, h1, h2]

theorem decodeSpec_4 (b0 b1 b2 b3 : UInt8) (t : List UInt8) (h0 : 0xF0 ≤ b0.toNat ∧ b0.toNat ≤ 0xF4)
    (h1 : lo2 b0.toNat ≤ b1.toNat ∧ b1.toNat ≤ hi2 b0.toNat) (h2 : 0x80 ≤ b2.toNat ∧ b2.toNat ≤ 0xBF)
    (h3 : 0x80 ≤ b3.toNat ∧ b3.toNat ≤ 0xBF) :
    decodeSpec (b0 :: b1 :: b2 :: b3 :: t) =
      (b0.toNat % 8 * 262144 + b1.toNat % 64 * 4096 + b2.toNat % 64 * 64 + b3.toNat % 64, 4) := by
  have a : ¬ b0.toNat < 0x80 := by omega
  have b : ¬ (0xC2 ≤ b0.toNat ∧ b0.toNat ≤ 0xDF) := by omega
  have c : ¬ (0xE0 ≤ b0.toNat ∧ b0.toNat ≤ 0xEF) := by omega
  simp [decodeSpec, a, b, c, h0, h1, h2, h3]

theorem lo2_hi2 (b0 lo hi : Nat) (b1 : Nat)
    (h : (b0 = 0xE0 → lo = 0xA0) ∧ (b0 = 0xF0 → lo = 0x90) ∧ (b0 ≠ 0xE0 → b0 ≠ 0xF0 → lo = 0x80) ∧
         (b0 = 0xED → hi = 0x9F) ∧ (b0 = 0xF4 → hi = 0x8F) ∧ (b0 ≠ 0xED → b0 ≠ 0xF4 → hi = 0xBF))
    (h1 : lo ≤ b1 ∧ b1 ≤ hi) : lo2 b0 ≤ b1 ∧ b1 ≤ hi2 b0 := by
  unfold lo2 hi2
  repeat' split
  all_goals omega

/-- A table row decodes with its own length (whatever follows), and is never reported as invalid. -/
theorem scalar_decode {pre : List UInt8} (h : Scalar pre) (t : List UInt8) :
    (decodeSpec (pre ++ t)).2 = pre.length ∧ isInvalid (decodeSpec (pre ++ t)) = false := by
  cases h with
  | r00_7F b0 h0 =>
    simp only [inRange] at h0
    rw [List.singleton_append, decodeSpec_1 b0 t (by omega)]
    refine ⟨rfl, ?_⟩
    simp only [isInvalid, Bool.and_eq_false_iff, beq_eq_false_iff_ne]; left
    have : runeError = 0xFFFD := rfl
    omega
  | rC2_DF b0 b1 h0 h1 =>
    simp only [inRange] at h0 h1
    rw [show [b0, b1] ++ t = b0 :: b1 :: t from rfl, decodeSpec_2 b0 b1 t h0 h1]; exact ⟨rfl, by simp [isInvalid]⟩
  | rE0 b0 b1 b2 h0 h1 h2 | rE1_EC b0 b1 b2 h0 h1 h2 | rED b0 b1 b2 h0 h1 h2 | rEE_EF b0 b1 b2 h0 h1 h2 =>
    simp only [inRange] at h0 h1 h2
    rw [show [b0, b1, b2] ++ t = b0 :: b1 :: b2 :: t from rfl,
      decodeSpec_3 b0 b1 b2 t (by omega) (lo2_hi2 _ _ _ _ (by omega) h1) h2]
    exact ⟨rfl, by simp [isInvalid]⟩
  | rF0 b0 b1 b2 b3 h0 h1 h2 h3 | rF1_F3 b0 b1 b2 b3 h0 h1 h2 h3 | rF4 b0 b1 b2 b3 h0 h1 h2 h3 =>
    simp only [inRange] at h0 h1 h2 h3
    rw [show [b0, b1, b2, b3] ++ t = b0 :: b1 :: b2 :: b3 :: t from rfl,
      decodeSpec_4 b0 b1 b2 b3 t (by omega) (lo2_hi2 _ _ _ _ (by omega) h1) h2 h3]
    exact ⟨rfl, by simp [isInvalid]⟩


/-- Whatever the decoder does not report as (RuneError, 1) is a row of Table 3-7. -/
theorem decodeSpec_scalar (s : List UInt8) (hne : s ≠ []) (hv : isInvalid (decodeSpec s) = false) :
    Scalar (s.take (decodeSpec s).2) := by
  match s with
  | [] => exact absurd rfl hne
  | b0 :: t =>
    have hb0 := b0.toNat_lt
    by_cases h1 : b0.toNat < 0x80
    · rw [decodeSpec_1 b0 t h1]; exact Scalar.r00_7F b0 ⟨by omega, by omega⟩
    by_cases h3 : 0xC2 ≤ b0.toNat ∧ b0.toNat ≤ 0xDF
    · match t with
      | [] => simp [decodeSpec, h1, h3, isInvalid] at hv
      | b1 :: t1 =>
        by_cases hc : 0x80 ≤ b1.toNat ∧ b1.toNat ≤ 0xBF
        · rw [decodeSpec_2 b0 b1 t1 h3 hc]; exact Scalar.rC2_DF b0 b1 h3 hc
        · simp [decodeSpec, h1, h3, hc, isInvalid] at hv
    by_cases h4 : 0xE0 ≤ b0.toNat ∧ b0.toNat ≤ 0xEF
    · match t with
      | [] => simp [decodeSpec, h1, h3, h4, isInvalid] at hv
      | [b1] => simp [decodeSpec, h1, h3, h4, isInvalid] at hv
      | b1 :: b2 :: t2 =>
        by_cases hc : lo2 b0.toNat ≤ b1.toNat ∧ b1.toNat ≤ hi2 b0.toNat ∧ 0x80 ≤ b2.toNat ∧ b2.toNat ≤ 0xBF
        · rw [decodeSpec_3 b0 b1 b2 t2 h4 ⟨hc.1, hc.2.1⟩ hc.2.2]
          simp only [List.take_succ_cons, List.take_zero]
          have hl := hc.1; have hh := hc.2.1
          unfold lo2 at hl; unfold hi2 at hh
          by_cases e1 : b0.toNat = 0xE0
          · simp only [e1, if_true] at hl; simp [e1] at hh
            exact Scalar.rE0 b0 b1 b2 ⟨by omega, by omega⟩ ⟨hl, hh⟩ hc.2.2
          by_cases e2 : b0.toNat = 0xED
          · simp [e2] at hl; simp only [e2, if_true] at hh
            exact Scalar.rED b0 b1 b2 ⟨by omega, by omega⟩ ⟨hl, hh⟩ hc.2.2
          have e3 : ¬ b0.toNat = 0xF0 := by omega
          have e4 : ¬ b0.toNat = 0xF4 := by omega
          simp only [e1, e2, e3, e4, if_false] at hl hh
          by_cases e5 : b0.toNat ≤ 0xEC
          · exact Scalar.rE1_EC b0 b1 b2 ⟨by omega, by omega⟩ ⟨hl, hh⟩ hc.2.2
          · exact Scalar.rEE_EF b0 b1 b2 ⟨by omega, by omega⟩ ⟨hl, hh⟩ hc.2.2
        · simp [decodeSpec, h1, h3, h4, hc, isInvalid] at hv
    by_cases h5 : 0xF0 ≤ b0.toNat ∧ b0.toNat ≤ 0xF4
    · match t with
      | [] => simp [decodeSpec, h1, h3, h4, h5, isInvalid] at hv
      | [b1] => simp [decodeSpec, h1, h3, h4, h5, isInvalid] at hv
      | [b1, b2] => simp [decodeSpec, h1, h3, h4, h5, isInvalid] at hv
      | b1 :: b2 :: b3 :: t3 =>
        by_cases hc : lo2 b0.toNat ≤ b1.toNat ∧ b1.toNat ≤ hi2 b0.toNat ∧ (0x80 ≤ b2.toNat ∧ b2.toNat ≤ 0xBF) ∧
            0x80 ≤ b3.toNat ∧ b3.toNat ≤ 0xBF
        · rw [decodeSpec_4 b0 b1 b2 b3 t3 h5 ⟨hc.1, hc.2.1⟩ hc.2.2.1 hc.2.2.2]
          simp only [List.take_succ_cons, List.take_zero]
          have hl := hc.1; have hh := hc.2.1
          unfold lo2 at hl; unfold hi2 at hh
          by_cases e1 : b0.toNat = 0xF0
          · simp [e1] at hl; simp [e1] at hh
            exact Scalar.rF0 b0 b1 b2 b3 ⟨by omega, by omega⟩ ⟨hl, hh⟩ hc.2.2.1 hc.2.2.2
          by_cases e2 : b0.toNat = 0xF4
          · simp [e2] at hl; simp [e2] at hh
            exact Scalar.rF4 b0 b1 b2 b3 ⟨by omega, by omega⟩ ⟨hl, hh⟩ hc.2.2.1 hc.2.2.2
          have e3 : ¬ b0.toNat = 0xE0 := by omega
          have e4 : ¬ b0.toNat = 0xED := by omega
          simp only [e1, e2, e3, e4, if_false] at hl hh
          exact Scalar.rF1_F3 b0 b1 b2 b3 ⟨by omega, by omega⟩ ⟨hl, hh⟩ hc.2.2.1 hc.2.2.2
        · simp [decodeSpec, h1, h3, h4, h5, hc, isInvalid] at hv
    · simp [decodeSpec, h1, h3, h4, h5, isInvalid] at hv


theorem scalar_ne_nil {pre : List UInt8} (h : Scalar pre) : pre ≠ [] := by cases h <;> simp

theorem scalar_replacement : Scalar replacement :=
  Scalar.rEE_EF 0xEF 0xBF 0xBD (by decide) (by decide) (by decide)

/-- Go's `utf8.ValidString` accepts exactly the well-formed strings of the Unicode standard. -/
theorem valid_iff_wellFormed (s : List UInt8) : valid s = true ↔ WellFormed s := by
  constructor
  · intro h
    induction hn : s.length using Nat.strongRecOn generalizing s with
    | _ n ih =>
      by_cases hne : s = []
      · subst hne; exact WellFormed.nil
      · rw [valid_unfold s hne] at h
        simp only [Bool.and_eq_true, Bool.not_eq_true'] at h
        have hs := decodeRune_size s hne
        have hsc := decodeSpec_scalar s hne (by rw [← decodeRune_eq_spec]; exact h.1)
        rw [← decodeRune_eq_spec] at hsc
        have := ih (s.drop (decodeRune s).2).length (by rw [List.length_drop]; omega) _ h.2 rfl
        rw [← List.take_append_drop (decodeRune s).2 s]
        exact WellFormed.cons _ _ hsc this
  · intro h
    induction h with
    | nil => rfl
    | cons pre t hp _ ih =>
      have hne : pre ++ t ≠ [] := by simp [scalar_ne_nil hp]
      have hd := scalar_decode hp t
      rw [← decodeRune_eq_spec] at hd
      rw [valid_unfold _ hne, hd.2, hd.1]
      simpa using ih

theorem valid_sanitize (s : List UInt8) (h : valid s = true) : sanitize s = s := by
  induction hn : s.length using Nat.strongRecOn generalizing s with
  | _ n ih =>
    by_cases hne : s = []
    · subst hne; rfl
    · rw [valid_unfold s hne] at h
      simp only [Bool.and_eq_true, Bool.not_eq_true'] at h
      have hs := decodeRune_size s hne
      rw [sanitize_unfold s hne, h.1]
      simp only [Bool.false_eq_true, if_false]
      rw [ih (s.drop (decodeRune s).2).length (by rw [List.length_drop]; omega) _ h.2 rfl, List.take_append_drop]

theorem sanitize_fixed_valid (s : List UInt8) (h : sanitize s = s) : valid s = true := by
  induction hn : s.length using Nat.strongRecOn generalizing s with
  | _ n ih =>
    by_cases hne : s = []
    · subst hne; rfl
    · have hs := decodeRune_size s hne
      rw [sanitize_unfold s hne] at h
      by_cases hv : isInvalid (decodeRune s) = true
      · exfalso
        simp only [hv, if_true] at h
        have hd := scalar_decode scalar_replacement (sanitize (s.drop 1))
        rw [h, ← decodeRune_eq_spec] at hd
        rw [hd.2] at hv; exact Bool.false_ne_true hv
      · have hv' : isInvalid (decodeRune s) = false := by simpa using hv
        simp only [hv', Bool.false_eq_true, if_false] at h
        have h2 : s.take (decodeRune s).2 ++ sanitize (s.drop (decodeRune s).2)
            = s.take (decodeRune s).2 ++ s.drop (decodeRune s).2 := by rw [h, List.take_append_drop]
        have h3 := List.append_cancel_left h2
        rw [valid_unfold s hne, hv', ih (s.drop (decodeRune s).2).length (by rw [List.length_drop]; omega) _ h3 rfl]
        rfl

/-- What the receiver gets is always well-formed UTF-8. -/
theorem wellFormed_sanitize (s : List UInt8) : WellFormed (sanitize s) := by
  induction hn : s.length using Nat.strongRecOn generalizing s with
  | _ n ih =>
    by_cases hne : s = []
    · subst hne; exact WellFormed.nil
    · have hs := decodeRune_size s hne
      rw [sanitize_unfold s hne]
      by_cases hv : isInvalid (decodeRune s) = true
      · simp only [hv, if_true]
        exact WellFormed.cons _ _ scalar_replacement (ih (s.drop 1).length (by rw [List.length_drop]; omega) _ rfl)
      · have hv' : isInvalid (decodeRune s) = false := by simpa using hv
        simp only [hv', Bool.false_eq_true, if_false]
        have hsc := decodeSpec_scalar s hne (by rw [← decodeRune_eq_spec]; exact hv')
        rw [← decodeRune_eq_spec] at hsc
        exact WellFormed.cons _ _ hsc (ih (s.drop (decodeRune s).2).length (by rw [List.length_drop]; omega) _ rfl)

end GrpcProofs.Lemmas.Utf8
