import Lean.Elab.Tactic
import GrpcProofs.Lemmas.ClientConnGoAway
/-!
The inductive invariant behind C11's "every opened stream gets exactly one terminal status":
a stream without outcome is still in `activeStreams` (or, once `Close` has started, in the snapshot
`Close` will notify), `cleanupStream` items only refer to streams that already have their outcome,
and every outcome is a legal one.
-/
namespace GrpcProofs.Lemmas.ClientConn
open GrpcModel.ClientConn

/-- status codes the client itself may assign: 0…16 (codes.OK … codes.Unauthenticated) -/
def LegalTerm (t : Term) : Prop := (∀ c, t.err = some c → c ≤ 16) ∧ (t.err = none → t.status.isSome = true)

structure Inv (s : State) : Prop where
  cp : s.tstate = .closing ↔ s.closeP ≠ .none
  rd : s.readerDone = true → s.tstate = .closing
  cd : s.closeP = .waitReader ∨ s.closeP = .done → s.ctxDone = true
  tm : ∀ t, s.closeP = .waitWriter t → t ≤ s.now + 5000
  live : ∀ (i : Nat) (x : Strm), s.streams[i]? = some x → x.term = none →
      (s.tstate ≠ .closing → x.inActive = true) ∧ (s.tstate = .closing → x.inSnapshot = true ∧ s.closeP ≠ .done)
  cl : ∀ (i id : Nat) (r : Bool) (c : Nat), Item.cleanup i id r c ∈ s.cbuf →
      ∃ x : Strm, s.streams[i]? = some x ∧ x.term.isSome = true
  lg : ∀ (i : Nat) (x : Strm) (t : Term), s.streams[i]? = some x → x.term = some t → LegalTerm t
  ng : ∀ (i : Nat) (x : Strm) (c l : Nat), s.streams[i]? = some x → x.nonGRPC = some (c, l) → c ≤ 16

theorem inv_init (ec : Bool) (a : Nat) (b' c : Option Nat) : Inv (init ec a b' c) := by
  constructor <;> simp [init]

/-- a state that differs only in fields the invariant does not mention -/
theorem Inv.aux {s s' : State} (h : Inv s) (h1 : s'.streams = s.streams) (h2 : s'.tstate = s.tstate)
    (h3 : s'.closeP = s.closeP) (h4 : s'.readerDone = s.readerDone) (h5 : s'.cbuf = s.cbuf)
    (h6 : s'.now = s.now) (h7 : s'.ctxDone = s.ctxDone) : Inv s' := by
  obtain ⟨a, b', c, d, e, f, g, k⟩ := h
  constructor
  · rw [h2, h3]; exact a
  · rw [h4, h2]; exact b'
  · rw [h3, h7]; exact c
  · rw [h3, h6]; exact d
  · rw [h1, h2, h3]; exact e
  · rw [h5, h1]; exact f
  · rw [h1]; exact g
  · rw [h1]; exact k

/-- an in-place update that keeps membership, outcome and the non-gRPC code -/
def ISafe (f : Strm → Strm) : Prop :=
  ∀ x, (f x).inActive = x.inActive ∧ (f x).inSnapshot = x.inSnapshot ∧ (f x).term = x.term ∧
    ((f x).nonGRPC = x.nonGRPC ∨ ∃ c l, (f x).nonGRPC = some (c, l) ∧ c ≤ 16)

theorem getElem?_modify_cases {α} (l : List α) (i j : Nat) (f : α → α) (y : α) (h : (l.modify i f)[j]? = some y) :
    (i = j ∧ ∃ x, l[j]? = some x ∧ y = f x) ∨ (i ≠ j ∧ l[j]? = some y) := by
  rw [List.getElem?_modify] at h
  by_cases hij : i = j
  · left
    cases hx : l[j]? with
    | none => simp [hx] at h
    | some x => simp [hx, hij] at h; exact ⟨hij, x, rfl, h.symm⟩
  · right
    cases hx : l[j]? with
    | none => simp [hx] at h
    | some x => simp [hx, hij] at h; exact ⟨hij, by rw [h]⟩

/-- general in-place update of stream `i`: the new record satisfies the stream-wise obligations -/
theorem Inv.modify {s : State} (h : Inv s) (i : Nat) (f : Strm → Strm)
    (hlive : ∀ x, s.streams[i]? = some x → (f x).term = none →
      x.term = none ∧ (s.tstate ≠ .closing → (f x).inActive = true) ∧ (s.tstate = .closing → (f x).inSnapshot = true))
    (hsome : ∀ x, s.streams[i]? = some x → x.term.isSome = true → (f x).term.isSome = true)
    (hlg : ∀ x t, s.streams[i]? = some x → (f x).term = some t → LegalTerm t)
    (hng : ∀ x c l, s.streams[i]? = some x → (f x).nonGRPC = some (c, l) → c ≤ 16) :
    Inv (s.updStream i f) := by
  obtain ⟨a, b', c, d, e, f', g, k⟩ := h
  constructor
  · exact a
  · exact b'
  · exact c
  · exact d
  · intro j y hy hterm
    rcases getElem?_modify_cases _ _ _ _ _ hy with ⟨rfl, x, hx, rfl⟩ | ⟨_, hx⟩
    · obtain ⟨h1, h2, h3⟩ := hlive x hx hterm
      have := e _ x hx h1
      exact ⟨h2, fun hc => ⟨h3 hc, (this.2 hc).2⟩⟩
    · exact e j y hx hterm
  · intro j id r cc hm
    obtain ⟨x, hx, hxs⟩ := f' j id r cc hm
    show ∃ y, (s.streams.modify i f)[j]? = some y ∧ _
    rw [List.getElem?_modify, hx]
    by_cases hij : i = j
    · subst hij; exact ⟨f x, by simp, hsome x hx hxs⟩
    · exact ⟨x, by simp [hij], hxs⟩
  · intro j y t hy ht
    rcases getElem?_modify_cases _ _ _ _ _ hy with ⟨rfl, x, hx, rfl⟩ | ⟨_, hx⟩
    · exact hlg x t hx ht
    · exact g j y t hx ht
  · intro j y cc l hy hn
    rcases getElem?_modify_cases _ _ _ _ _ hy with ⟨rfl, x, hx, rfl⟩ | ⟨_, hx⟩
    · exact hng x cc l hx hn
    · exact k j y cc l hx hn

theorem Inv.updStream {s : State} (h : Inv s) (i : Nat) {f : Strm → Strm} (hf : ISafe f) : Inv (s.updStream i f) := by
  refine h.modify i f ?_ ?_ ?_ ?_
  · intro x hx ht
    obtain ⟨h1, h2, h3, _⟩ := hf x
    rw [h3] at ht
    have := h.live i x hx ht
    exact ⟨ht, fun hc => by rw [h1]; exact this.1 hc, fun hc => by rw [h2]; exact (this.2 hc).1⟩
  · intro x _ hs; rw [(hf x).2.2.1]; exact hs
  · intro x t hx ht; rw [(hf x).2.2.1] at ht; exact h.lg i x t hx ht
  · intro x c l hx hn
    rcases (hf x).2.2.2 with he | ⟨c', l', he, hle⟩
    · rw [he] at hn; exact h.ng i x c l hx hn
    · rw [he] at hn; injection hn with hn; injection hn with h1 h2; omega

/-- appending a control-buffer item that is not a cleanupStream -/
theorem Inv.putOther {s : State} (h : Inv s) (it : Item) (hit : ∀ i id r c, it ≠ Item.cleanup i id r c) : Inv (s.put it) := by
  unfold State.put
  split
  · exact h
  · obtain ⟨a, b', c, d, e, f, g, k⟩ := h
    refine ⟨a, b', c, d, e, ?_, g, k⟩
    intro i id r cc hm
    simp only [List.mem_append, List.mem_singleton] at hm
    rcases hm with hm | hm
    · exact f i id r cc hm
    · exact absurd hm.symm (hit i id r cc)

theorem Inv.notify {s : State} (h : Inv s) (a b' : Nat) (c : Bool) : Inv (s.notify a b' c) :=
  h.aux rfl rfl rfl rfl rfl rfl rfl

theorem Inv.sendToken {s : State} (h : Inv s) : Inv s.sendToken := by
  unfold State.sendToken; split
  · exact h.aux rfl rfl rfl rfl rfl rfl rfl
  · exact h

theorem Inv.closeStream {s : State} (h : Inv s) (i : Nat) (e : Option Nat) (st : Nat) (r : Bool) (c : Nat)
    (he : ∀ k, e = some k → k ≤ 16) : Inv (s.closeStream i e st r c) := by
  unfold State.closeStream
  split
  · exact h
  · rename_i str hstr
    split
    · exact h
    · rename_i hnone
      have h1 : Inv (s.updStream i (closeF e st)) := by
        refine h.modify i _ ?_ ?_ ?_ ?_
        · intro x hx ht
          have hx' : x = str := by rw [hstr] at hx; exact (Option.some.inj hx).symm
          subst hx'
          simp [closeF, hnone] at ht
        · intro x hx hs; simp [closeF, hs]
        · intro x t hx ht
          have hx' : x = str := by rw [hstr] at hx; exact (Option.some.inj hx).symm
          subst hx'
          simp [closeF, hnone] at ht
          subst ht
          exact ⟨fun k hk => he k hk, fun _ => rfl⟩
        · intro x cc l hx hn
          have : (closeF e st x).nonGRPC = x.nonGRPC := by unfold closeF; split <;> rfl
          rw [this] at hn; exact h.ng i x cc l hx hn
      simp only []
      split
      · exact h1
      · apply Inv.sendToken
        obtain ⟨a, b', cc, d, e', f, g, k⟩ := h1
        refine ⟨a, b', cc, d, e', ?_, g, k⟩
        intro j id r' c' hm
        simp only [List.mem_append, List.mem_singleton] at hm
        rcases hm with hm | hm
        · exact f j id r' c' hm
        · injection hm with hj _ _ _
          subst hj
          refine ⟨closeF e st str, ?_, ?_⟩
          · show (s.streams.modify j (closeF e st))[j]? = _
            rw [List.getElem?_modify, hstr]; simp
          · simp [closeF, hnone]

theorem Inv.orphan {s : State} (h : Inv s) (i e : Nat) (he : e ≤ 16) : Inv (s.orphan i e) := by
  unfold State.orphan
  refine h.modify i _ ?_ ?_ ?_ ?_
  · intro x hx ht
    unfold orphanF at ht
    split at ht
    · rename_i hs; rw [ht] at hs; simp at hs
    · simp at ht
  · intro x _ hs; simp [orphanF, hs]
  · intro x t hx ht
    unfold orphanF at ht
    split at ht
    · exact h.lg i x t hx ht
    · simp at ht; subst ht; exact ⟨fun k hk => by simp at hk; omega, fun hn => by simp at hn⟩
  · intro x cc l hx hn
    have : (orphanF e x).nonGRPC = x.nonGRPC := by unfold orphanF; split <;> rfl
    rw [this] at hn; exact h.ng i x cc l hx hn

theorem cInternal_le : cInternal ≤ 16 := by decide
theorem cUnknown_le : cUnknown ≤ 16 := by decide
theorem cUnavailable_le : cUnavailable ≤ 16 := by decide
theorem cCanceled_le : cCanceled ≤ 16 := by decide
theorem cDeadline_le : cDeadline ≤ 16 := by decide

theorem codeOf_tab_le : ∀ p ∈ GrpcModel.Generated.http2ErrConvTab, codeOf p.2 ≤ 16 := by decide
theorem codeOf_http_le : ∀ p ∈ GrpcModel.Generated.httpStatusConvTab, codeOf p.2 ≤ 16 := by decide

theorem lookup_mem {α β} [BEq α] [LawfulBEq α] (l : List (α × β)) (k : α) (v : β) (h : l.lookup k = some v) : (k, v) ∈ l := by
  induction l with
  | nil => simp at h
  | cons p rest ih =>
    obtain ⟨a, b'⟩ := p
    simp only [List.lookup] at h
    split at h
    · rename_i hk; simp at hk; simp at h; subst h; simp [hk]
    · exact List.mem_cons_of_mem _ (ih h)

theorem rstToCode_le (h2 : Nat) (d : Nat) (hd : d ≤ 16) : (rstToCode h2).getD d ≤ 16 := by
  unfold rstToCode
  split
  · simpa using hd
  · rename_i n _
    cases hl : GrpcModel.Generated.http2ErrConvTab.lookup n with
    | none => simpa using hd
    | some v => simp; exact codeOf_tab_le (n, v) (lookup_mem _ _ _ hl)

theorem httpToCode_le (st : Int) (d : Nat) (hd : d ≤ 16) : (httpToCode st).getD d ≤ 16 := by
  unfold httpToCode
  cases hf : GrpcModel.Generated.httpStatusConvTab.find? (fun (x : String × String) => httpStatusNames.lookup x.1 == some st) with
  | none => simpa using hd
  | some p => simp; exact codeOf_http_le p (List.mem_of_find?_eq_some hf)

/-- `ISafe (fun x => { x with … })` for updates that leave membership and outcome alone -/
macro "isafe" : tactic => `(tactic|
  (intro x
   refine ⟨rfl, rfl, rfl, ?_⟩
   first
   | exact Or.inl rfl
   | with_reducible exact Or.inr ⟨_, _, rfl, cInternal_le⟩
   | with_reducible exact Or.inr ⟨_, _, rfl, httpToCode_le _ _ cUnknown_le⟩
   | (refine Or.inr ⟨_, _, rfl, ?_⟩; first | assumption | exact Inv.ng (by assumption) _ _ _ _ (by assumption) (by assumption))))

theorem isafe_hdrF : ISafe hdrF := by
  intro x; unfold hdrF; split
  · exact ⟨rfl, rfl, rfl, Or.inl rfl⟩
  · exact ⟨rfl, rfl, rfl, Or.inl rfl⟩

theorem isafe_msgF (m : Bytes) : ISafe (msgF m) := by
  intro x; unfold msgF; split
  · exact ⟨rfl, rfl, rfl, Or.inl rfl⟩
  · exact ⟨rfl, rfl, rfl, Or.inl rfl⟩

theorem Inv.setMsg {s : State} (h : Inv s) (i : Nat) (x : Strm) (m : Bytes) : Inv (s.setMsg i x m) := h.updStream i (isafe_msgF m)

theorem isafe_markF : ISafe markF := by intro x; exact ⟨rfl, rfl, rfl, Or.inl rfl⟩

/-- side goal of `Inv.closeStream`: the error handed to the RPC is a legal code -/
macro "legal" : tactic => `(tactic|
  (intro k hk
   first
   | exact absurd hk (by simp only [reduceCtorEq, not_false_eq_true])
   | (have hk' := Option.some.inj hk; subst hk'
      first
      | with_reducible exact cInternal_le | with_reducible exact cUnknown_le | with_reducible exact cUnavailable_le
      | with_reducible exact cCanceled_le | with_reducible exact cDeadline_le
      | assumption
      | with_reducible exact Inv.ng (by assumption) _ _ _ _ (by assumption) (by assumption)
      | with_reducible exact rstToCode_le _ _ cUnknown_le | with_reducible exact rstToCode_le _ _ (Nat.zero_le _)
      | with_reducible exact httpToCode_le _ _ cUnknown_le)))

open Lean Elab Tactic Meta in
/-- goal `Inv { X with … }` where the update touches none of the fields `Inv` mentions: reduce to `Inv X`
(`X` is read off the never-updated configuration field `errCloses`; the `rfl`s re-check every field). -/
elab "inv_record" : tactic => withMainContext do
  let g ← getMainGoal
  let t ← instantiateMVars (← g.getType)
  unless t.isApp do throwError "inv_record: goal is not `Inv _`"
  let e ← whnfR t.appArg!
  unless e.getAppFn.isConstOf ``GrpcModel.ClientConn.State.mk do throwError "inv_record: not a structure instance"
  let a0 ← whnfR (e.getAppArgs[0]!)
  let x ← match a0 with
    | .proj _ _ x => pure x
    | _ => if a0.isAppOf ``GrpcModel.ClientConn.State.errCloses then pure a0.appArg! else throwError "inv_record: no base state"
  let xs ← Term.exprToSyntax x
  evalTactic (← `(tactic| refine Inv.aux (s := $xs) ?_ rfl rfl rfl rfl rfl rfl rfl))

/-- one backward step of an invariant proof for a composition of primitives -/
macro "inv_step" : tactic => `(tactic|
  first
  | (with_reducible assumption)
  | ((with_reducible apply Inv.closeStream); case he => legal)
  | (with_reducible apply Inv.orphan (he := cUnavailable_le))
  | (with_reducible apply Inv.updStream (hf := isafe_hdrF))
  | (with_reducible apply Inv.setMsg)
  | ((with_reducible apply Inv.updStream); case hf => isafe)
  | ((with_reducible apply Inv.putOther); case hit => (intros; simp))
  | (with_reducible apply Inv.sendToken)
  | inv_record)

macro "inv_leaf" : tactic => `(tactic| repeat (first | inv_step | simp only []))

theorem inv_operateHeaders {s : State} (h : Inv s) (sid : Nat) (es tr : Bool) (fs : List (Bytes × Bytes)) :
    Inv (s.operateHeaders sid es tr fs) := by
  unfold State.operateHeaders
  splits
  all_goals inv_leaf

end GrpcProofs.Lemmas.ClientConn
