import GrpcModel.Model.PubSub
import GrpcProofs.Lemmas.Serializer
/-! Helper lemmas for C31 (PubSub): how the serializer's pending queue evolves under the PubSub
actions, and the coupling between the model and the per-subscriber trace monitor. -/
set_option linter.unusedSimpArgs false
namespace GrpcProofs.Lemmas.PubSub
open GrpcModel GrpcModel.PubSub
open GrpcProofs.Lemmas.Serializer (SInv)

/-! #### serializer facts used below -/

theorem sched_facts {α : Type} (s : Serializer.St α) (cb : α) (h : SInv s) :
    (s.fired = true → Serializer.pending (Serializer.step s (.sched cb)).1 = Serializer.pending s) ∧
    (s.fired = false → Serializer.pending (Serializer.step s (.sched cb)).1 = Serializer.pending s ++ [cb]) ∧
    (Serializer.step s (.sched cb)).1.fired = s.fired := by
  obtain ⟨⟨chan, chanClosed, backlog, closing, closed⟩, cancelled, registered, fired, pc, done⟩ := s
  obtain ⟨⟨h1, h2⟩, h3, h4, h5, h6, h7, h8⟩ := h
  simp only at h1 h2 h3 h4 h5 h6 h7 h8
  subst h1 h3
  ucases chan backlog closed closing <;>
    simp [Serializer.step, Unbounded.step, Serializer.pending, Unbounded.abs] at * <;> simp_all

theorem other_facts {α : Type} (s : Serializer.St α) (a : Serializer.Act α) (h : SInv s)
    (ha : a = .cancel ∨ a = .ret ∨ a = .fire) :
    Serializer.pending (Serializer.step s a).1 = Serializer.pending s ∧
    ((Serializer.step s a).2 = .closed → s.fired = false ∧ (Serializer.step s a).1.fired = true) ∧
    ((Serializer.step s a).2 ≠ .closed → (Serializer.step s a).1.fired = s.fired) := by
  obtain ⟨⟨chan, chanClosed, backlog, closing, closed⟩, cancelled, registered, fired, pc, done⟩ := s
  obtain ⟨⟨h1, h2⟩, h3, h4, h5, h6, h7, h8⟩ := h
  simp only at h1 h2 h3 h4 h5 h6 h7 h8
  subst h1 h3
  rcases ha with rfl | rfl | rfl
  · simp [Serializer.step, Serializer.pending]
  · cases pc <;> simp [Serializer.step, Serializer.pending, Serializer.inflight]
  · cases cancelled <;> cases registered <;> ucases chan backlog closed closing <;>
      simp [Serializer.step, Unbounded.step, Serializer.pending, Unbounded.abs] at * <;> simp_all

theorem run_facts {α : Type} (s : Serializer.St α) (h : SInv s) :
    (Serializer.step s .run).1.fired = s.fired ∧
    (∀ cb, (Serializer.step s .run).2 = .started cb →
        Serializer.pending s = cb :: Serializer.pending (Serializer.step s .run).1) ∧
    ((∀ cb, (Serializer.step s .run).2 ≠ .started cb) →
        Serializer.pending (Serializer.step s .run).1 = Serializer.pending s) := by
  obtain ⟨⟨chan, chanClosed, backlog, closing, closed⟩, cancelled, registered, fired, pc, done⟩ := s
  obtain ⟨⟨h1, h2⟩, h3, h4, h5, h6, h7, h8⟩ := h
  simp only at h1 h2 h3 h4 h5 h6 h7 h8
  subst h1 h3
  cases pc <;> ucases chan backlog closed closing <;>
    simp [Serializer.step, Unbounded.step, Serializer.pending, Unbounded.abs, Serializer.inflight] at * <;>
    simp_all

theorem fold_facts (subs : List Nat) (v : Nat) (s : Serializer.St Cb) (h : SInv s) :
    SInv (subs.foldl (fun ser x => trySchedule ser (x, v)) s) ∧
    (s.fired = true → Serializer.pending (subs.foldl (fun ser x => trySchedule ser (x, v)) s) = Serializer.pending s) ∧
    (s.fired = false → Serializer.pending (subs.foldl (fun ser x => trySchedule ser (x, v)) s) =
        Serializer.pending s ++ subs.map (·, v)) ∧
    (subs.foldl (fun ser x => trySchedule ser (x, v)) s).fired = s.fired := by
  induction subs generalizing s with
  | nil => simp [h]
  | cons x t ih =>
    have hs := Serializer.step_sinv s (.sched (x, v)) h
    obtain ⟨hf1, hf2, hf3⟩ := sched_facts s (x, v) h
    obtain ⟨t1, t2, t3, t4⟩ := ih (trySchedule s (x, v)) hs
    simp only [trySchedule] at *
    simp only [List.foldl_cons]
    refine ⟨t1, ?_, ?_, ?_⟩
    · intro hfd; rw [t2 (by rw [hf3]; exact hfd), hf1 hfd]
    · intro hfd; rw [t3 (by rw [hf3]; exact hfd), hf2 hfd]; simp
    · rw [t4, hf3]

/-! #### invariant and coupling -/

def PInv (st : St) : Prop :=
  SInv st.ser ∧ st.subs.Nodup ∧ (∀ p ∈ Serializer.pending st.ser, p.1 ∈ st.ever) ∧ (∀ s ∈ st.subs, s ∈ st.ever)

def owed (st : St) : List Cb := (Serializer.pending st.ser).filter (fun p => st.subs.contains p.1)

def PC (st : St) (m : Mon) : Prop :=
  m.subs = st.subs ∧ m.msg = st.msg ∧ m.stopped = st.ser.fired ∧ m.pend = owed st

theorem pinv_init : PInv init := by
  refine ⟨Serializer.sinv_init, ?_, ?_, ?_⟩ <;>
  simp [init, Serializer.pending, Serializer.init, Serializer.inflight, Unbounded.abs, Unbounded.init]

theorem pc_init : PC init Mon.init := by
  simp [PC, init, Mon.init, owed, Serializer.pending, Serializer.init, Serializer.inflight,
    Unbounded.abs, Unbounded.init]

theorem firstFor_head (s v : Nat) (t : List Cb) : firstFor s ((s, v) :: t) = some v := by
  simp [firstFor]

theorem dropFirst_head (s v : Nat) (t : List Cb) : dropFirst s ((s, v) :: t) = t := by
  simp [dropFirst]

theorem filter_ne_nodup (l : List Nat) (s : Nat) (h : l.Nodup) : (l.filter (· ≠ s)).Nodup :=
  h.sublist List.filter_sublist


def FreshAct (st : St) : Act → Prop
  | .subscribe s => s ∉ st.ever
  | _ => True

/-- The statement of one coupled step, for a state given by its fields and the monitor state the
    coupling determines. -/
def Good (st : St) (a : Act) : Prop :=
  PInv (step st a).1 ∧
  PC (step st a).1 (Mon.step ⟨st.subs, st.msg, owed st, st.ser.fired⟩ (step st a).2).1 ∧
  ∀ c, (Mon.step ⟨st.subs, st.msg, owed st, st.ser.fired⟩ (step st a).2).2 ≠ .viol c

theorem good_subscribe (st : St) (s : Nat) (hi : PInv st) (hf : s ∉ st.ever) : Good st (.subscribe s) := by
  obtain ⟨ser, msg, subs, ever⟩ := st
  obtain ⟨i1, i2, i3, i4⟩ := hi
  simp only at i1 i2 i3 i4 hf
  have hns : s ∉ subs := fun hc => hf (i4 s hc)
  have hcs : subs.contains s = false := by simpa using hns
  have hcongr : ∀ l : List Cb, (∀ p ∈ l, p.1 ∈ ever) →
      l.filter (fun p => decide (p.1 ∈ subs) || decide (p.1 = s)) = l.filter (fun p => decide (p.1 ∈ subs)) := by
    intro l hl
    apply List.filter_congr
    intro p hp
    have : p.1 ≠ s := fun hc => hf (hc ▸ hl p hp)
    simp [this]
  have hnd : (subs ++ [s]).Nodup := by
    simp [List.nodup_append, i2]; exact fun a ha hb => hns (hb ▸ ha)
  have hev : ∀ x ∈ subs ++ [s], x ∈ s :: ever := by
    intro x hx; simp at hx; rcases hx with hx | hx
    · exact List.mem_cons_of_mem _ (i4 x hx)
    · simp [hx]
  cases msg with
  | none =>
    refine ⟨⟨?_, ?_, ?_, ?_⟩, ⟨?_, ?_, ?_, ?_⟩, ?_⟩ <;> simp only [step, Mon.step, hcs, owed] <;> try simp
    · exact i1
    · exact hnd
    · intro a b hab; exact Or.inr (i3 _ hab)
    · simpa using hev
    · exact (hcongr _ i3).symm
  | some mv =>
    have hs := Serializer.step_sinv ser (.sched (s, mv)) i1
    obtain ⟨f1, f2, f3⟩ := sched_facts ser (s, mv) i1
    refine ⟨⟨?_, ?_, ?_, ?_⟩, ⟨?_, ?_, ?_, ?_⟩, ?_⟩ <;>
      simp only [step, Mon.step, hcs, owed, trySchedule] <;> try simp
    · exact hs
    · exact hnd
    · intro a b hab
      cases hfd : ser.fired
      · rw [f2 hfd] at hab; simp at hab
        rcases hab with hab | ⟨rfl, rfl⟩
        · exact Or.inr (i3 _ hab)
        · exact Or.inl rfl
      · rw [f1 hfd] at hab; exact Or.inr (i3 _ hab)
    · simpa using hev
    · exact f3.symm
    · cases hfd : ser.fired
      · rw [f2 hfd]; simp [List.filter_append, hcongr _ i3]
      · rw [f1 hfd]; simp [hcongr _ i3]

theorem good_unsubscribe (st : St) (s : Nat) (hi : PInv st) : Good st (.unsubscribe s) := by
  obtain ⟨ser, msg, subs, ever⟩ := st
  obtain ⟨i1, i2, i3, i4⟩ := hi
  simp only at i1 i2 i3 i4
  refine ⟨⟨?_, ?_, ?_, ?_⟩, ⟨?_, ?_, ?_, ?_⟩, ?_⟩ <;> simp only [step, Mon.step, owed] <;> try simp
  · exact i1
  · exact i2.sublist List.filter_sublist
  · intro a b hab; exact i3 _ hab
  · intro x hx _; exact i4 x hx
  · apply List.filter_congr
    intro p _
    simp [Bool.and_comm]

theorem good_publish (st : St) (v : Nat) (hi : PInv st) : Good st (.publish v) := by
  obtain ⟨ser, msg, subs, ever⟩ := st
  obtain ⟨i1, i2, i3, i4⟩ := hi
  simp only at i1 i2 i3 i4
  obtain ⟨f0, f1, f2, f3⟩ := fold_facts subs v ser i1
  refine ⟨⟨?_, ?_, ?_, ?_⟩, ⟨?_, ?_, ?_, ?_⟩, ?_⟩ <;> simp only [step, Mon.step, owed] <;> try simp
  · exact f0
  · exact i2
  · intro a b hab
    cases hfd : ser.fired
    · rw [f2 hfd] at hab; simp at hab
      rcases hab with hab | ⟨x, hx, rfl, rfl⟩
      · exact i3 _ hab
      · exact i4 _ hx
    · rw [f1 hfd] at hab; exact i3 _ hab
  · exact i4
  · exact f3.symm
  · cases hfd : ser.fired
    · rw [f2 hfd]; simp [List.filter_append]
      symm
      apply List.filter_eq_self.mpr
      intro p hp
      simp only [List.mem_map] at hp
      obtain ⟨x, hx, rfl⟩ := hp
      simpa using hx
    · rw [f1 hfd]; simp

theorem good_cancel (st : St) (hi : PInv st) : Good st .cancel := by
  obtain ⟨ser, msg, subs, ever⟩ := st
  obtain ⟨i1, i2, i3, i4⟩ := hi
  simp only at i1 i2 i3 i4
  have hs := Serializer.step_sinv ser .cancel i1
  obtain ⟨f1, f2, f3⟩ := other_facts ser .cancel i1 (Or.inl rfl)
  have f3' := f3 (by simp [Serializer.step])
  refine ⟨⟨?_, ?_, ?_, ?_⟩, ⟨?_, ?_, ?_, ?_⟩, ?_⟩ <;> simp only [step, Mon.step, owed] <;> try simp
  · exact hs
  · exact i2
  · rw [f1]; intro a b hab; exact i3 _ hab
  · exact i4
  · exact f3'.symm
  · rw [f1]

theorem good_ret (st : St) (hi : PInv st) : Good st .ret := by
  obtain ⟨ser, msg, subs, ever⟩ := st
  obtain ⟨i1, i2, i3, i4⟩ := hi
  simp only at i1 i2 i3 i4
  have hs := Serializer.step_sinv ser .ret i1
  obtain ⟨f1, f2, f3⟩ := other_facts ser .ret i1 (Or.inr (Or.inl rfl))
  have f3' := f3 (by cases hpc : ser.pc <;> simp [Serializer.step, hpc])
  refine ⟨⟨?_, ?_, ?_, ?_⟩, ⟨?_, ?_, ?_, ?_⟩, ?_⟩ <;> simp only [step, Mon.step, owed] <;> try simp
  · exact hs
  · exact i2
  · rw [f1]; intro a b hab; exact i3 _ hab
  · exact i4
  · exact f3'.symm
  · rw [f1]

theorem good_fire (st : St) (hi : PInv st) : Good st .fire := by
  obtain ⟨ser, msg, subs, ever⟩ := st
  obtain ⟨i1, i2, i3, i4⟩ := hi
  simp only at i1 i2 i3 i4
  have hs := Serializer.step_sinv ser .fire i1
  obtain ⟨f1, f2, f3⟩ := other_facts ser .fire i1 (Or.inr (Or.inr rfl))
  simp only [Good, step, owed, PInv, PC]
  generalize Serializer.step ser .fire = r at hs f1 f2 f3 ⊢
  obtain ⟨r1, ev⟩ := r
  simp only at hs f1 f2 f3
  have i3' : ∀ p ∈ Serializer.pending r1, p.1 ∈ ever := by rw [f1]; exact i3
  cases ev <;> simp_all [Mon.step] <;> assumption

theorem good_run (st : St) (hi : PInv st) : Good st .run := by
  obtain ⟨ser, msg, subs, ever⟩ := st
  obtain ⟨i1, i2, i3, i4⟩ := hi
  simp only at i1 i2 i3 i4
  have hs := Serializer.step_sinv ser .run i1
  obtain ⟨f1, f2, f3⟩ := run_facts ser i1
  simp only [Good, step, owed]
  split
  · rename_i s v heq
    have hp := f2 (s, v) heq
    have i3' : ∀ p ∈ Serializer.pending (Serializer.step ser .run).1, p.1 ∈ ever := by
      intro p hpm; exact i3 p (by rw [hp]; exact List.mem_cons_of_mem _ hpm)
    by_cases hsub : subs.contains s = true
    · have hmem : s ∈ subs := by simpa using hsub
      simp only [hsub, if_true]
      refine ⟨⟨hs, i2, i3', i4⟩, ⟨?_, ?_, ?_, ?_⟩, ?_⟩ <;>
        simp [Mon.step, hp, List.filter_cons, hmem, firstFor, dropFirst, f1, owed, PC]
    · have hmem : s ∉ subs := by simpa using hsub
      simp only [hsub]
      refine ⟨⟨hs, i2, i3', i4⟩, ⟨?_, ?_, ?_, ?_⟩, ?_⟩ <;>
        simp [Mon.step, hp, List.filter_cons, hmem, f1, owed, PC]
  · rename_i hne
    have hp := f3 (by intro cb hcb; exact hne cb.1 cb.2 hcb)
    have i3' : ∀ p ∈ Serializer.pending (Serializer.step ser .run).1, p.1 ∈ ever := by
      rw [hp]; exact i3
    refine ⟨⟨hs, i2, i3', i4⟩, ⟨?_, ?_, ?_, ?_⟩, ?_⟩ <;> simp [Mon.step, hp, f1, owed, PC]


theorem step_pc (st : St) (m : Mon) (a : Act) (hi : PInv st) (h : PC st m) (hf : FreshAct st a) :
    PInv (step st a).1 ∧ PC (step st a).1 (Mon.step m (step st a).2).1 ∧
    ∀ c, (Mon.step m (step st a).2).2 ≠ .viol c := by
  have hm : m = ⟨st.subs, st.msg, owed st, st.ser.fired⟩ := by
    obtain ⟨c1, c2, c3, c4⟩ := h
    obtain ⟨ms, mm, mp, mst⟩ := m
    simp_all
  subst hm
  cases a
  case subscribe s => exact good_subscribe st s hi hf
  case unsubscribe s => exact good_unsubscribe st s hi
  case publish v => exact good_publish st v hi
  case cancel => exact good_cancel st hi
  case fire => exact good_fire st hi
  case run => exact good_run st hi
  case ret => exact good_ret st hi

theorem ever_step (st : St) (a : Act) :
    (step st a).1.ever = match a with | .subscribe s => s :: st.ever | _ => st.ever := by
  cases a <;> simp only [step]
  case run => split <;> (try split) <;> rfl

theorem monitor_ok (as : List Act) (st : St) (m : Mon) (hi : PInv st) (h : PC st m)
    (hf : Fresh st.ever as) :
    (∀ v ∈ (Mon.run m (run st as).2).2, ∀ c, v ≠ .viol c) ∧
    PC (run st as).1 (Mon.run m (run st as).2).1 ∧ PInv (run st as).1 := by
  induction as generalizing st m with
  | nil => simp [run, Mon.run, hi, h]
  | cons a as ih =>
    have hfa : FreshAct st a := by cases a <;> simp_all [Fresh, FreshAct]
    have hft : Fresh (step st a).1.ever as := by
      rw [ever_step]; cases a <;> simp_all [Fresh]
    obtain ⟨s1, s2, s3⟩ := step_pc st m a hi h hfa
    obtain ⟨r1, r2, r3⟩ := ih _ _ s1 s2 hft
    refine ⟨?_, ?_, ?_⟩
    · intro v hv
      simp only [run, Mon.run, List.mem_cons] at hv
      rcases hv with rfl | hv
      · exact s3
      · exact r1 v hv
    · simpa [run, Mon.run] using r2
    · simpa [run] using r3

end GrpcProofs.Lemmas.PubSub
