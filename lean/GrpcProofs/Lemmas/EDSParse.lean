import GrpcModel.Model.EDSParse
import GrpcModel.Model.XdsInv
import Mathlib.Data.List.Perm.Subperm
/-! Helper lemmas for C45 (model: GrpcModel/Model/EDSParse.lean, GrpcModel/Model/XdsInv.lean). -/
namespace GrpcProofs.Lemmas.EDSParse
open GrpcModel.EDSParse

/-! ### Go maps -/

theorem mapGet_mapSet [DecidableEq κ] (m : List (κ × ν)) (k k' : κ) (v : ν) :
    mapGet (mapSet m k v) k' = if k' = k then some v else mapGet m k' := by
  induction m with
  | nil =>
    simp only [mapSet, mapGet]
    by_cases h : k' = k
    · simp [h]
    · have : ¬ k = k' := fun e => h e.symm
      simp [h, this]
  | cons a m ih =>
    obtain ⟨ka, va⟩ := a
    simp only [mapSet]
    by_cases h1 : ka = k
    · subst h1
      simp only [if_true, mapGet]
      by_cases h2 : ka = k'
      · subst h2; simp
      · have : ¬ k' = ka := fun e => h2 e.symm
        simp [h2, this]
    · simp only [h1, if_false, mapGet, ih]
      by_cases h2 : ka = k'
      · subst h2
        have : ¬ ka = k := h1
        simp [this]
      · simp [h2]

theorem keys_mapSet [DecidableEq κ] (m : List (κ × ν)) (k : κ) (v : ν) :
    (mapSet m k v).map Prod.fst = if k ∈ m.map Prod.fst then m.map Prod.fst else m.map Prod.fst ++ [k] := by
  induction m with
  | nil => simp [mapSet]
  | cons a m ih =>
    obtain ⟨ka, va⟩ := a
    simp only [mapSet]
    by_cases h1 : ka = k
    · subst h1; simp
    · have : ¬ k = ka := fun e => h1 e.symm
      simp only [h1, if_false, List.map_cons, ih, List.mem_cons, this, false_or]
      split <;> simp

theorem mapGet_isSome [DecidableEq κ] (m : List (κ × ν)) (k : κ) :
    (mapGet m k).isSome = true ↔ k ∈ m.map Prod.fst := by
  induction m with
  | nil => simp [mapGet]
  | cons a m ih =>
    obtain ⟨ka, va⟩ := a
    simp only [mapGet, List.map_cons, List.mem_cons]
    by_cases h : ka = k
    · subst h; simp
    · have : ¬ k = ka := fun e => h e.symm
      simp [h, this, ih]

theorem nodup_keys_mapSet [DecidableEq κ] (m : List (κ × ν)) (k : κ) (v : ν) (h : (m.map Prod.fst).Nodup) :
    ((mapSet m k v).map Prod.fst).Nodup := by
  rw [keys_mapSet]
  split
  · exact h
  · rename_i hn
    rw [List.nodup_append]
    refine ⟨h, by simp, ?_⟩
    intro a ha b hb
    simp at hb
    subst hb
    exact fun e => hn (e ▸ ha)

/-! ### arithmetic -/

theorem u64add_eq (a b : Nat) (ha : a ≤ maxUint32) (hb : b ≤ maxUint32) : u64add a b = a + b := by
  unfold u64add maxUint32 at *
  omega

/-! ### addresses -/

theorem addAddrs_ok (uniq addrs uniq' : List String) (h : addAddrs uniq addrs = .ok uniq') :
    uniq' = uniq ++ addrs ∧ (uniq.Nodup → uniq'.Nodup) := by
  induction addrs generalizing uniq with
  | nil =>
    simp [addAddrs] at h
    subst h
    simp
  | cons a rest ih =>
    simp only [addAddrs] at h
    split at h
    · simp at h
    · rename_i hn
      obtain ⟨e, hnd⟩ := ih _ h
      refine ⟨by simp [e], fun hu => hnd ?_⟩
      rw [List.nodup_append]
      refine ⟨hu, by simp, ?_⟩
      intro x hx y hy
      simp at hy
      subst hy
      exact fun e => hn (e ▸ hx)

/-! ### parseEndpoints -/

def epsOk (eps : List Endpoint) : Prop :=
  (eps.map (·.weight)).sum ≤ maxUint32 ∧ ∀ e ∈ eps, e.weight ≠ 0

theorem parseEndpointsAux_ok (env : Env) (es : List LbEndpoint) (acc : List Endpoint) (total : Nat) (u0 uniq : List String)
    (hty : ∀ e ∈ es, e.typed)
    (htot : total = (acc.map (·.weight)).sum) (hacc : epsOk acc)
    (hu : uniq = u0 ++ acc.flatMap (·.addresses)) (hnd : uniq.Nodup)
    (eps : List Endpoint) (uniq' : List String)
    (h : parseEndpointsAux env es acc total uniq = .ok (eps, uniq')) :
    epsOk eps ∧ uniq' = u0 ++ eps.flatMap (·.addresses) ∧ uniq'.Nodup := by
  induction es generalizing acc total uniq with
  | nil =>
    simp [parseEndpointsAux] at h
    obtain ⟨rfl, rfl⟩ := h
    exact ⟨hacc, hu, hnd⟩
  | cons e rest ih =>
    unfold parseEndpointsAux at h
    have hte : e.typed := hty e (by simp)
    -- the weight
    cases hw : endpointWeight e with
    | error er => simp [hw] at h
    | ok weight =>
      simp only [hw] at h
      have hwpos : weight ≠ 0 ∧ weight ≤ maxUint32 := by
        unfold endpointWeight at hw
        cases hew : e.weight with
        | none => simp [hew] at hw; subst hw; simp [maxUint32]
        | some w =>
          simp [hew] at hw
          split at hw
          · simp at hw
          · rename_i hne
            simp at hw
            subst hw
            exact ⟨hne, hte w hew⟩
      have hsum : u64add total weight = total + weight := u64add_eq _ _ (by rw [htot]; exact hacc.1) hwpos.2
      rw [hsum] at h
      split at h
      · simp at h
      · rename_i hle
        cases ha : addAddrs uniq (endpointAddrs env e) with
        | error er => simp [ha] at h
        | ok uniq2 =>
          simp only [ha] at h
          obtain ⟨e2, hnd2⟩ := addAddrs_ok _ _ _ ha
          split at h
          · simp at h
          · refine ih (acc ++ [{ addresses := endpointAddrs env e, health := e.health, weight := weight, hostname := e.hostname }])
              (total + weight) uniq2 (fun x hx => hty x (by simp [hx])) ?_ ?_ ?_ (hnd2 hnd) h
            · simp [htot]
            · constructor
              · simp only [List.map_append, List.sum_append, List.map_cons, List.map_nil, List.sum_cons, List.sum_nil]
                rw [← htot]
                omega
              · intro x hx
                simp only [List.mem_append, List.mem_singleton] at hx
                rcases hx with hx | rfl
                · exact hacc.2 x hx
                · exact hwpos.1
            · simp [e2, hu, List.flatMap_append]

theorem parseEndpoints_ok (env : Env) (es : List LbEndpoint) (u0 : List String) (hty : ∀ e ∈ es, e.typed) (hnd : u0.Nodup)
    (eps : List Endpoint) (uniq' : List String) (h : parseEndpoints env es u0 = .ok (eps, uniq')) :
    epsOk eps ∧ uniq' = u0 ++ eps.flatMap (·.addresses) ∧ uniq'.Nodup :=
  parseEndpointsAux_ok env es [] 0 u0 u0 hty (by simp) ⟨by simp, by simp⟩ (by simp) hnd eps uniq' h


/-! ### the locality loop -/

def lidOf (l : Locality) : LidStr := (l.region, l.zone, l.subZone)

def atPrio (ls : List Locality) (p : Nat) : List Locality := ls.filter (fun l => l.priority = p)

theorem atPrio_append (ls : List Locality) (x : Locality) (p : Nat) :
    atPrio (ls ++ [x]) p = if x.priority = p then atPrio ls p ++ [x] else atPrio ls p := by
  unfold atPrio
  rw [List.filter_append]
  by_cases h : x.priority = p <;> simp [List.filter, h]

structure AccInv (acc : Acc) : Prop where
  keysP : (acc.priorities.map Prod.fst).Nodup
  keysMem : ∀ p, p ∈ acc.priorities.map Prod.fst ↔ ∃ l ∈ acc.localities, l.priority = p
  prios : ∀ p, (mapGet acc.priorities p).getD [] = (atPrio acc.localities p).map lidOf
  sums : ∀ p, (mapGet acc.sumOfWeights p).getD 0 = ((atPrio acc.localities p).map (·.weight)).sum
  sumsLe : ∀ p, ((atPrio acc.localities p).map (·.weight)).sum ≤ maxUint32
  uniq : acc.uniq = acc.localities.flatMap (fun l => l.endpoints.flatMap (·.addresses))
  nodupAddr : acc.uniq.Nodup
  locOk : ∀ l ∈ acc.localities, l.weight ≠ 0 ∧ epsOk l.endpoints
  nodupLoc : (acc.localities.map (fun l => (l.region, l.zone, l.subZone, l.priority))).Nodup

theorem accInv_init : AccInv { priorities := [], sumOfWeights := [], uniq := [], localities := [] } := by
  constructor <;> simp [mapGet, atPrio]

theorem localityStep_inv (env : Env) (acc acc' : Acc) (l : LocalityLbEndpoints) (hi : AccInv acc) (hty : l.typed)
    (h : localityStep env acc l = .ok acc') : AccInv acc' := by
  unfold localityStep at h
  by_cases h1 : l.hasLocality = true
  swap
  · simp [h1] at h
  simp only [h1, Bool.not_true, Bool.false_eq_true, if_false] at h
  by_cases h2 : l.weight = 0
  · simp [h2] at h
    subst h
    exact hi
  simp only [h2, if_false] at h
  have hsum : u64add ((mapGet acc.sumOfWeights l.priority).getD 0) l.weight
      = ((atPrio acc.localities l.priority).map (·.weight)).sum + l.weight := by
    rw [hi.sums]
    exact u64add_eq _ _ (hi.sumsLe _) hty.1
  rw [hsum] at h
  split at h
  · simp at h
  rename_i hle
  split at h
  · simp at h
  rename_i hlid
  cases hp : parseEndpoints env l.endpoints acc.uniq with
  | error er => simp [hp] at h
  | ok res =>
    obtain ⟨eps, uniq2⟩ := res
    simp only [hp] at h
    split at h
    · simp at h
    simp only [Except.ok.injEq] at h
    subst h
    obtain ⟨he1, he2, he3⟩ := parseEndpoints_ok env l.endpoints acc.uniq hty.2.2 hi.nodupAddr eps uniq2 hp
    -- the new locality
    generalize hx : ({ region := l.region, zone := l.zone, subZone := l.subZone, endpoints := eps, weight := l.weight,
                       priority := l.priority } : Locality) = x
    have hxp : x.priority = l.priority := by subst hx; rfl
    have hxw : x.weight = l.weight := by subst hx; rfl
    have hxl : lidOf x = (l.region, l.zone, l.subZone) := by subst hx; rfl
    have hxe : x.endpoints = eps := by subst hx; rfl
    constructor
    · exact nodup_keys_mapSet _ _ _ hi.keysP
    · intro p
      simp only [keys_mapSet]
      constructor
      · intro hm
        have : p ∈ acc.priorities.map Prod.fst ∨ p = l.priority := by
          split at hm
          · exact Or.inl hm
          · simpa using hm
        rcases this with hm | rfl
        · obtain ⟨y, hy, hyp⟩ := (hi.keysMem p).mp hm
          exact ⟨y, by simp [hy], hyp⟩
        · exact ⟨x, by simp, hxp⟩
      · rintro ⟨y, hy, hyp⟩
        simp only [List.mem_append, List.mem_singleton] at hy
        rcases hy with hy | rfl
        · have := (hi.keysMem p).mpr ⟨y, hy, hyp⟩
          split
          · exact this
          · simp [this]
        · rw [hxp] at hyp
          subst hyp
          split
          · assumption
          · simp
    · intro p
      simp only [mapGet_mapSet, atPrio_append, hxp]
      by_cases hpp : p = l.priority
      · subst hpp
        simp [hi.prios, hxl]
      · have : ¬ l.priority = p := fun e => hpp e.symm
        simp [hpp, this, hi.prios]
    · intro p
      simp only [mapGet_mapSet, atPrio_append, hxp]
      by_cases hpp : p = l.priority
      · subst hpp
        simp [hxw]
      · have : ¬ l.priority = p := fun e => hpp e.symm
        simp [hpp, this, hi.sums]
    · intro p
      simp only [atPrio_append, hxp]
      by_cases hpp : l.priority = p
      · subst hpp
        simp only [if_true, List.map_append, List.sum_append, List.map_cons, List.map_nil, List.sum_cons, List.sum_nil, hxw]
        omega
      · simp only [hpp, if_false]
        exact hi.sumsLe p
    · simp only [List.flatMap_append, List.flatMap_cons, List.flatMap_nil, List.append_nil, hxe]
      rw [he2, hi.uniq]
    · exact he3
    · intro y hy
      simp only [List.mem_append, List.mem_singleton] at hy
      rcases hy with hy | rfl
      · exact hi.locOk y hy
      · rw [hxw, hxe]; exact ⟨h2, he1⟩
    · simp only [List.map_append, List.map_cons, List.map_nil]
      rw [List.nodup_append]
      refine ⟨hi.nodupLoc, by simp, ?_⟩
      intro a ha b hb
      simp only [List.mem_singleton] at hb
      subst hb
      intro e
      subst e
      apply hlid
      rw [hi.prios]
      simp only [List.mem_map] at ha ⊢
      obtain ⟨y, hy, hye⟩ := ha
      subst hx
      simp only [Prod.mk.injEq] at hye
      refine ⟨y, ?_, ?_⟩
      · simp [atPrio, hy, hye.2.2.2]
      · simp [lidOf, hye.1, hye.2.1, hye.2.2.1]

theorem localitiesLoop_inv (env : Env) (ls : List LocalityLbEndpoints) (acc acc' : Acc) (hi : AccInv acc)
    (hty : ∀ l ∈ ls, l.typed) (h : localitiesLoop env acc ls = .ok acc') : AccInv acc' := by
  induction ls generalizing acc with
  | nil => simp [localitiesLoop] at h; subst h; exact hi
  | cons l rest ih =>
    simp only [localitiesLoop] at h
    cases hs : localityStep env acc l with
    | error er => simp [hs] at h
    | ok acc1 =>
      simp only [hs] at h
      exact ih acc1 (localityStep_inv env acc acc1 l hi (hty l (by simp)) hs) (fun x hx => hty x (by simp [hx])) h


/-! ### priorities contiguous from 0 -/

theorem mem_distinct (l : List Nat) (x : Nat) : x ∈ distinct l ↔ x ∈ l := by
  induction l with
  | nil => simp [distinct]
  | cons a l ih =>
    simp only [distinct]
    split
    · rename_i h
      rw [ih]
      constructor
      · intro hx; exact List.mem_cons_of_mem _ hx
      · intro hx
        rcases List.mem_cons.mp hx with rfl | hx
        · exact h
        · exact hx
    · simp [ih]

theorem nodup_distinct (l : List Nat) : (distinct l).Nodup := by
  induction l with
  | nil => simp [distinct]
  | cons a l ih =>
    simp only [distinct]
    split
    · exact ih
    · rename_i h
      rw [List.nodup_cons]
      exact ⟨fun hm => h ((mem_distinct l a).mp hm), ih⟩

/-- pigeonhole: a duplicate-free list of length n that contains 0 … n-1 contains nothing else -/
theorem nodup_range_subset (keys : List Nat) (_hnd : keys.Nodup) (h : ∀ i, i < keys.length → i ∈ keys) :
    ∀ k ∈ keys, k < keys.length := by
  have hsub : List.range keys.length ⊆ keys := fun i hi => h i (List.mem_range.mp hi)
  have hsp := List.subperm_of_subset List.nodup_range hsub
  have hperm := hsp.perm_of_length_le (by simp)
  intro k hk
  exact List.mem_range.mp ((hperm.mem_iff).mpr hk)

theorem contiguous_of_check (prios : List (Nat × List LidStr)) (ps : List Nat)
    (hk : (prios.map Prod.fst).Nodup) (hps : ps.Nodup) (hm : ∀ p, p ∈ ps ↔ p ∈ prios.map Prod.fst)
    (hc : prioritiesContiguous prios = true) :
    (∀ p ∈ ps, p < ps.length) ∧ (∀ i, i < ps.length → i ∈ ps) := by
  have hlen : ps.length = prios.length := by
    have := ((List.perm_ext_iff_of_nodup hps hk).mpr hm).length_eq
    simpa using this
  unfold prioritiesContiguous at hc
  rw [List.all_eq_true] at hc
  have hall : ∀ i, i < (prios.map Prod.fst).length → i ∈ prios.map Prod.fst := by
    intro i hi
    have := hc i (List.mem_range.mpr (by simpa using hi))
    exact (mapGet_isSome prios i).mp this
  have hlt := nodup_range_subset _ hk hall
  constructor
  · intro p hp
    have := hlt p ((hm p).mp hp)
    simp at this
    omega
  · intro i hi
    exact (hm i).mpr (hall i (by simp; omega))

theorem dropsLoop_ok (ds : List DropOverload) (cs : List OverloadDropConfig) (h : dropsLoop ds = .ok cs) :
    ∀ c ∈ cs, c.denominator = 100 ∨ c.denominator = 10000 ∨ c.denominator = 1000000 := by
  induction ds generalizing cs with
  | nil => simp [dropsLoop] at h; subst h; simp
  | cons d rest ih =>
    simp only [dropsLoop] at h
    cases hp : parseDropPolicy d with
    | error e => simp [hp] at h
    | ok c =>
      simp only [hp] at h
      cases hr : dropsLoop rest with
      | error e => simp [hr] at h
      | ok cs' =>
        simp only [hr, Except.ok.injEq] at h
        subst h
        intro x hx
        rcases List.mem_cons.mp hx with rfl | hx
        · unfold parseDropPolicy at hp
          split at hp <;> simp at hp <;> subst hp <;> simp
        · exact ih cs' hr x hx

theorem inv_of_accInv (acc : Acc) (drops : List OverloadDropConfig) (hi : AccInv acc)
    (hd : ∀ c ∈ drops, c.denominator = 100 ∨ c.denominator = 10000 ∨ c.denominator = 1000000)
    (hc : prioritiesContiguous acc.priorities = true) :
    GrpcModel.EDSParse.Inv { drops := drops, localities := acc.localities } = true := by
  have hps := nodup_distinct (acc.localities.map (·.priority))
  have hm : ∀ p, p ∈ distinct (acc.localities.map (·.priority)) ↔ p ∈ acc.priorities.map Prod.fst := by
    intro p
    rw [mem_distinct, hi.keysMem]
    simp
  obtain ⟨c1, c2⟩ := contiguous_of_check acc.priorities _ hi.keysP hps hm hc
  simp only [GrpcModel.EDSParse.Inv, prioritiesOf, Bool.and_eq_true, List.all_eq_true, decide_eq_true_eq, Bool.or_eq_true, sumNat]
  refine ⟨⟨⟨⟨⟨⟨⟨?_, ?_⟩, ?_⟩, ?_⟩, ?_⟩, ?_⟩, ?_⟩, ?_⟩
  · intro p hp; exact decide_eq_true (c1 p hp)
  · intro i hi'
    simp only [List.contains_eq_mem, decide_eq_true_eq]
    exact c2 i (List.mem_range.mp hi')
  · rw [← hi.uniq]; exact hi.nodupAddr
  · exact hi.nodupLoc
  · intro p _
    exact decide_eq_true (hi.sumsLe p)
  · intro l hl
    exact (hi.locOk l hl).1
  · intro l hl
    exact ⟨decide_eq_true (hi.locOk l hl).2.1, fun e he => (hi.locOk l hl).2.2 e he⟩
  · intro c hc'
    rcases hd c hc' with h | h | h <;> simp [h]


/-! ### the update reflects the input -/

def outKey (l : Locality) : String × String × String × Nat × Nat := (l.region, l.zone, l.subZone, l.weight, l.priority)
def inKey (l : LocalityLbEndpoints) : String × String × String × Nat × Nat := (l.region, l.zone, l.subZone, l.weight, l.priority)

theorem localityStep_keys (env : Env) (acc acc' : Acc) (l : LocalityLbEndpoints) (h : localityStep env acc l = .ok acc') :
    acc'.localities.map outKey = acc.localities.map outKey ++ (if l.weight = 0 then [] else [inKey l]) := by
  unfold localityStep at h
  split at h
  · simp at h
  split at h
  · rename_i h2
    simp at h; subst h; simp [h2]
  rename_i h2
  dsimp only at h
  split at h
  · simp at h
  split at h
  · simp at h
  split at h
  · simp at h
  · split at h
    · simp at h
    · simp only [Except.ok.injEq] at h
      subst h
      simp [h2, outKey, inKey]

theorem localitiesLoop_keys (env : Env) (ls : List LocalityLbEndpoints) (acc acc' : Acc)
    (h : localitiesLoop env acc ls = .ok acc') :
    acc'.localities.map outKey = acc.localities.map outKey ++ (ls.filter (fun l => l.weight ≠ 0)).map inKey := by
  induction ls generalizing acc with
  | nil => simp [localitiesLoop] at h; subst h; simp
  | cons l rest ih =>
    simp only [localitiesLoop] at h
    cases hs : localityStep env acc l with
    | error er => simp [hs] at h
    | ok acc1 =>
      simp only [hs] at h
      rw [ih acc1 h, localityStep_keys env acc acc1 l hs]
      by_cases hw : l.weight = 0 <;> simp [List.filter, hw]

/-! ### RDS weighted clusters -/

open GrpcModel.XdsInv in
theorem wcLoop_ok (ws : List Nat) (total : Nat) (acc : List Nat) (hty : ∀ w ∈ ws, w ≤ maxUint32)
    (ht : total = acc.sum) (hle : acc.sum ≤ maxUint32) (hpos : ∀ w ∈ acc, w > 0)
    (t' : Nat) (acc' : List Nat) (h : wcLoop ws total acc = .ok (t', acc')) :
    t' = acc'.sum ∧ acc'.sum ≤ maxUint32 ∧ (∀ w ∈ acc', w > 0) ∧ acc' = acc ++ ws.filter (· ≠ 0) := by
  induction ws generalizing total acc with
  | nil =>
    simp [wcLoop] at h
    obtain ⟨rfl, rfl⟩ := h
    exact ⟨ht, hle, hpos, by simp⟩
  | cons w rest ih =>
    simp only [wcLoop] at h
    have hw : w ≤ maxUint32 := hty w (by simp)
    split at h
    · rename_i h0
      obtain ⟨a, b, c, d⟩ := ih total acc (fun x hx => hty x (by simp [hx])) ht hle hpos h
      exact ⟨a, b, c, by simp [d, List.filter, h0]⟩
    · rename_i h0
      rw [u64add_eq _ _ (by rw [ht]; exact hle) hw] at h
      split at h
      · simp at h
      · rename_i hs
        obtain ⟨a, b, c, d⟩ := ih (total + w) (acc ++ [w]) (fun x hx => hty x (by simp [hx])) (by simp [ht])
          (by simp; omega) (by
            intro x hx
            simp only [List.mem_append, List.mem_singleton] at hx
            rcases hx with hx | rfl
            · exact hpos x hx
            · omega) h
        exact ⟨a, b, c, by simp [d, List.filter, h0]⟩

end GrpcProofs.Lemmas.EDSParse
