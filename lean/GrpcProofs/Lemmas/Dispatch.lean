/-
Helper lemmas for C26 (GrpcModel/Model/Dispatch.lean).
-/
import GrpcModel.Model.Dispatch
namespace GrpcProofs.Lemmas.Dispatch
open GrpcModel.Dispatch

theorem splitLastSlash_none : ∀ (l : Bytes), splitLastSlash l = none ↔ slash ∉ l := by
  intro l
  induction l with
  | nil => simp [splitLastSlash]
  | cons b rest ih =>
    unfold splitLastSlash
    cases h : splitLastSlash rest with
    | some sm =>
      have : ¬ (slash ∉ rest) := fun hn => by rw [ih.mpr hn] at h; cases h
      simp only [reduceCtorEq, false_iff, List.mem_cons]
      intro hn
      exact this (fun hm => hn (Or.inr hm))
    | none =>
      have hr := ih.mp h
      by_cases hb : b = slash
      · simp [hb]
      · simp only [hb, if_false, true_iff, List.mem_cons, not_or]
        exact ⟨fun h' => hb h'.symm, hr⟩

theorem splitLastSlash_some : ∀ (l s m : Bytes),
    splitLastSlash l = some (s, m) ↔ l = s ++ slash :: m ∧ slash ∉ m := by
  intro l
  induction l with
  | nil => intro s m; simp [splitLastSlash]
  | cons b rest ih =>
    intro s m
    unfold splitLastSlash
    cases h : splitLastSlash rest with
    | some sm =>
      obtain ⟨s', m'⟩ := sm
      have hr := (ih s' m').mp h
      constructor
      · intro heq
        simp only [Option.some.injEq, Prod.mk.injEq] at heq
        obtain ⟨rfl, rfl⟩ := heq
        exact ⟨by rw [hr.1]; rfl, hr.2⟩
      · rintro ⟨heq, hm⟩
        cases s with
        | nil =>
          simp only [List.nil_append, List.cons.injEq] at heq
          obtain ⟨_, rfl⟩ := heq
          have := (splitLastSlash_none rest).mpr hm
          rw [this] at h; cases h
        | cons c s'' =>
          simp only [List.cons_append, List.cons.injEq] at heq
          obtain ⟨rfl, hrest⟩ := heq
          have := (ih s'' m).mpr ⟨hrest, hm⟩
          rw [this] at h
          simp only [Option.some.injEq, Prod.mk.injEq] at h
          obtain ⟨rfl, rfl⟩ := h
          rfl
    | none =>
      have hr := (splitLastSlash_none rest).mp h
      by_cases hb : b = slash
      · simp only [hb, if_true, Option.some.injEq, Prod.mk.injEq]
        constructor
        · rintro ⟨rfl, rfl⟩; exact ⟨rfl, hr⟩
        · rintro ⟨heq, hm⟩
          cases s with
          | nil => simp only [List.nil_append, List.cons.injEq, true_and] at heq; exact ⟨rfl, heq⟩
          | cons c s'' =>
            simp only [List.cons_append, List.cons.injEq] at heq
            exfalso; apply hr; rw [heq.2]; simp
      · simp only [hb, if_false, reduceCtorEq, false_iff, not_and]
        intro heq
        cases s with
        | nil => simp only [List.nil_append, List.cons.injEq] at heq; exact absurd heq.1 hb
        | cons c s'' =>
          simp only [List.cons_append, List.cons.injEq] at heq
          exfalso; apply hr; rw [heq.2]; simp

theorem parse_some (p s m : Bytes) :
    parse p = some (s, m) ↔ p = slash :: (s ++ slash :: m) ∧ slash ∉ m := by
  cases p with
  | nil => simp [parse]
  | cons b sm =>
    unfold parse
    by_cases hb : b = slash
    · simp only [hb, if_true, List.cons.injEq, true_and]
      exact splitLastSlash_some sm s m
    · simp only [hb, if_false, reduceCtorEq, List.cons.injEq, false_and]

theorem wellFormed_iff_parse (p : Bytes) : wellFormed p ↔ (parse p).isSome = true := by
  constructor
  · rintro ⟨s, m, rfl⟩
    unfold parse
    simp only [if_true]
    cases h : splitLastSlash (s ++ slash :: m) with
    | some _ => rfl
    | none =>
      have := (splitLastSlash_none _).mp h
      exact absurd (by simp) this
  · intro h
    cases hp : parse p with
    | none => rw [hp] at h; cases h
    | some sm =>
      obtain ⟨s, m⟩ := sm
      exact ⟨s, m, ((parse_some p s m).mp hp).1⟩

theorem lastIndexOf_some (m : Bytes) : ∀ (l : List Bytes) (i : Nat), lastIndexOf m l = some i → l[i]? = some m := by
  intro l
  induction l with
  | nil => intro i h; simp [lastIndexOf] at h
  | cons x xs ih =>
    intro i h
    unfold lastIndexOf at h
    cases hx : lastIndexOf m xs with
    | some j =>
      rw [hx] at h
      simp only [Option.some.injEq] at h
      subst h
      simpa using ih j hx
    | none =>
      rw [hx] at h
      by_cases hxm : x = m
      · simp only [hxm, if_true, Option.some.injEq] at h
        subst h; simp [hxm]
      · simp [hxm] at h

theorem lastIndexOf_none (m : Bytes) : ∀ (l : List Bytes), lastIndexOf m l = none ↔ m ∉ l := by
  intro l
  induction l with
  | nil => simp [lastIndexOf]
  | cons x xs ih =>
    unfold lastIndexOf
    cases hx : lastIndexOf m xs with
    | some j =>
      have : m ∈ xs := by
        have := lastIndexOf_some m xs j hx
        exact List.mem_of_getElem? this
      simp [this]
    | none =>
      have hn := ih.mp hx
      by_cases hxm : x = m
      · simp [hxm]
      · simp only [hxm, if_false, true_iff, List.mem_cons, not_or]
        exact ⟨fun h => hxm h.symm, hn⟩

theorem lookupMethod_some (svc : Service) (m : Bytes) (e : Entry) (h : lookupMethod svc m = some e) :
    entryName svc e = some m := by
  unfold lookupMethod at h
  cases hm : lastIndexOf m svc.methods with
  | some i =>
    rw [hm] at h; simp only [Option.some.injEq] at h; subst h
    exact lastIndexOf_some m _ i hm
  | none =>
    rw [hm] at h
    cases hs : lastIndexOf m svc.streams with
    | some i =>
      rw [hs] at h; simp only [Option.some.injEq] at h; subst h
      exact lastIndexOf_some m _ i hs
    | none => rw [hs] at h; cases h

theorem lookupMethod_none (svc : Service) (m : Bytes) :
    lookupMethod svc m = none ↔ m ∉ svc.methods ++ svc.streams := by
  unfold lookupMethod
  cases hm : lastIndexOf m svc.methods with
  | some i =>
    have : m ∈ svc.methods := List.mem_of_getElem? (lastIndexOf_some m _ i hm)
    simp [this]
  | none =>
    have h1 := (lastIndexOf_none m _).mp hm
    cases hs : lastIndexOf m svc.streams with
    | some i =>
      have : m ∈ svc.streams := List.mem_of_getElem? (lastIndexOf_some m _ i hs)
      simp [this]
    | none =>
      have h2 := (lastIndexOf_none m _).mp hs
      simp [h1, h2]

theorem findService_go_some (s : Bytes) : ∀ (reg : List Service) (k i : Nat) (svc : Service),
    findService.go s reg k = some (i, svc) → k ≤ i ∧ reg[i - k]? = some svc ∧ svc.name = s := by
  intro reg
  induction reg with
  | nil => intro k i svc h; simp [findService.go] at h
  | cons x xs ih =>
    intro k i svc h
    unfold findService.go at h
    by_cases hx : x.name = s
    · simp only [hx, if_true, Option.some.injEq, Prod.mk.injEq] at h
      obtain ⟨rfl, rfl⟩ := h
      simp [hx]
    · simp only [hx, if_false] at h
      obtain ⟨h1, h2, h3⟩ := ih (k + 1) i svc h
      refine ⟨by omega, ?_, h3⟩
      have : i - k = (i - (k + 1)) + 1 := by omega
      rw [this]; simpa using h2

theorem findService_some (reg : List Service) (s : Bytes) (i : Nat) (svc : Service)
    (h : findService reg s = some (i, svc)) : reg[i]? = some svc ∧ svc.name = s := by
  have := findService_go_some s reg 0 i svc h
  simpa using this.2

theorem findService_go_none (s : Bytes) : ∀ (reg : List Service) (k : Nat),
    findService.go s reg k = none ↔ ∀ svc ∈ reg, svc.name ≠ s := by
  intro reg
  induction reg with
  | nil => intro k; simp [findService.go]
  | cons x xs ih =>
    intro k
    unfold findService.go
    by_cases hx : x.name = s
    · simp [hx]
    · simp only [hx, if_false, List.mem_cons, forall_eq_or_imp, ne_eq, not_false_eq_true, true_and]
      exact ih (k + 1)

theorem findService_none (reg : List Service) (s : Bytes) :
    findService reg s = none ↔ ∀ svc ∈ reg, svc.name ≠ s := findService_go_none s reg 0

theorem findService_go_of_mem (s : Bytes) : ∀ (reg : List Service) (k j : Nat) (svc : Service),
    (reg.map (·.name)).Nodup → reg[j]? = some svc → svc.name = s → findService.go s reg k = some (k + j, svc) := by
  intro reg
  induction reg with
  | nil => intro k j svc _ h; simp at h
  | cons x xs ih =>
    intro k j svc hnd hj hs
    unfold findService.go
    cases j with
    | zero =>
      simp only [List.getElem?_cons_zero, Option.some.injEq] at hj
      subst hj; simp [hs]
    | succ j' =>
      simp only [List.getElem?_cons_succ] at hj
      simp only [List.map_cons, List.nodup_cons, List.mem_map, not_exists, not_and] at hnd
      have hx : x.name ≠ s := by
        intro hx
        exact hnd.1 svc (List.mem_of_getElem? hj) (by rw [hs, hx])
      simp only [hx, if_false]
      have := ih (k + 1) j' svc hnd.2 hj hs
      rw [this]; congr 2; omega

theorem findService_of_mem (reg : List Service) (j : Nat) (svc : Service) (hnd : NoDupNames reg)
    (hj : reg[j]? = some svc) : findService reg svc.name = some (j, svc) := by
  have := findService_go_of_mem svc.name reg 0 j svc hnd hj rfl
  simpa [findService] using this

end GrpcProofs.Lemmas.Dispatch

