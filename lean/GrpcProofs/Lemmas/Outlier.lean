/-
Helper lemmas for C40 (outlier detection): counting under ejections, the loop specification
(which endpoints a run of an algorithm loop ejected), operations that keep the ejection state,
the endpoint bookkeeping of UpdateClientConnState, the un-ejection pass, reachability and the
first invariant (distinct ids, counter ≥ number of ejected endpoints).
-/
import GrpcModel.Model.Outlier
namespace GrpcProofs.Lemmas.Outlier
open GrpcModel.Outlier

abbrev idsOf (eps : List Ep) : List Nat := eps.map (·.id)

theorem trueCount_eq_countP (eps : List Ep) : trueCount eps = eps.countP Ep.ejected := by
  simp [trueCount, List.countP_eq_length_filter]

theorem trueCount_map_same {f : Ep → Ep} (h : ∀ x, (f x).ej = x.ej) (eps : List Ep) :
    trueCount (eps.map f) = trueCount eps := by
  simp only [trueCount_eq_countP, List.countP_map]
  congr 1
  funext x
  simp [Ep.ejected, h]

/-- the map performed by ejectEndpoint -/
def setEj (ts : Int) (id : Nat) (x : Ep) : Ep :=
  if x.id = id then { x with ej := some ts, mult := x.mult + 1 } else x

theorem setEj_id (ts : Int) (id : Nat) (x : Ep) : (setEj ts id x).id = x.id := by
  unfold setEj; split <;> rfl

theorem idsOf_map_setEj (ts : Int) (id : Nat) (eps : List Ep) : idsOf (eps.map (setEj ts id)) = idsOf eps := by
  simp [idsOf, List.map_map, Function.comp_def, setEj_id]

theorem map_setEj_of_not_mem (ts : Int) (id : Nat) (xs : List Ep) (h : id ∉ idsOf xs) :
    xs.map (setEj ts id) = xs := by
  induction xs with
  | nil => rfl
  | cons x xs ih =>
    simp only [idsOf, List.map_cons, List.mem_cons, not_or] at h
    simp only [List.map_cons]
    rw [ih h.2]
    have : x.id ≠ id := fun hh => h.1 hh.symm
    simp [setEj, this]

theorem trueCount_setEj (ts : Int) (id : Nat) (eps : List Ep) (hn : (idsOf eps).Nodup) (e : Ep)
    (he : e ∈ eps) (hid : e.id = id) :
    trueCount (eps.map (setEj ts id)) = trueCount eps + (if e.ejected then 0 else 1) := by
  induction eps with
  | nil => cases he
  | cons x xs ih =>
    simp only [idsOf, List.map_cons, List.nodup_cons] at hn
    rcases List.mem_cons.mp he with rfl | hmem
    · have hrest := map_setEj_of_not_mem ts id xs (by rw [← hid]; exact hn.1)
      simp only [List.map_cons, hrest, trueCount_eq_countP, List.countP_cons]
      simp only [setEj, hid, if_true, Ep.ejected]
      by_cases h : e.ej.isSome = true <;> simp [h]
    · have hx : x.id ≠ id := by
        intro h; apply hn.1; rw [h, ← hid]; exact List.mem_map_of_mem hmem
      have := ih hn.2 hmem
      simp only [trueCount_eq_countP] at this ⊢
      simp only [List.map_cons, List.countP_cons, this, setEj, hx, if_false]
      omega

/-! ### `ejectEndpoint` applied for a list of ids -/

def applyEj (ts : Int) (js : List Nat) (x : Ep) : Ep := js.foldl (fun x j => setEj ts j x) x

theorem applyEj_nil (ts : Int) (x : Ep) : applyEj ts [] x = x := rfl

theorem applyEj_append (ts : Int) (js ks : List Nat) (x : Ep) :
    applyEj ts (js ++ ks) x = applyEj ts ks (applyEj ts js x) := by
  simp [applyEj, List.foldl_append]

/-- what `ejectEndpoint`s never touch -/
structure SameRest (x y : Ep) : Prop where
  id : y.id = x.id
  gen : y.gen = x.gen
  actS : y.actS = x.actS
  actF : y.actF = x.actF
  inS : y.inS = x.inS
  inF : y.inF = x.inF
  sws : y.sws = x.sws

theorem SameRest.refl (x : Ep) : SameRest x x := ⟨rfl, rfl, rfl, rfl, rfl, rfl, rfl⟩

theorem SameRest.trans {x y z : Ep} (h1 : SameRest x y) (h2 : SameRest y z) : SameRest x z :=
  ⟨h2.id.trans h1.id, h2.gen.trans h1.gen, h2.actS.trans h1.actS, h2.actF.trans h1.actF,
   h2.inS.trans h1.inS, h2.inF.trans h1.inF, h2.sws.trans h1.sws⟩

theorem setEj_sameRest (ts : Int) (id : Nat) (x : Ep) : SameRest x (setEj ts id x) := by
  unfold setEj; split <;> exact ⟨rfl, rfl, rfl, rfl, rfl, rfl, rfl⟩

theorem applyEj_sameRest (ts : Int) (js : List Nat) (x : Ep) : SameRest x (applyEj ts js x) := by
  induction js generalizing x with
  | nil => exact SameRest.refl x
  | cons j js ih =>
    have h1 := setEj_sameRest ts j x
    have h2 := ih (setEj ts j x)
    exact h1.trans h2

theorem applyEj_not_mem (ts : Int) (js : List Nat) (x : Ep) (h : x.id ∉ js) : applyEj ts js x = x := by
  induction js generalizing x with
  | nil => rfl
  | cons j js ih =>
    simp only [List.mem_cons, not_or] at h
    have : setEj ts j x = x := by simp [setEj, h.1]
    show applyEj ts js (setEj ts j x) = x
    rw [this]; exact ih x h.2

theorem setEj_ej_of_some (ts : Int) (j : Nat) (x : Ep) (h : x.ej = some ts) : (setEj ts j x).ej = some ts := by
  unfold setEj; split <;> simp [h]

theorem applyEj_mem (ts : Int) (js : List Nat) (x : Ep) (h : x.id ∈ js) : (applyEj ts js x).ej = some ts := by
  induction js generalizing x with
  | nil => cases h
  | cons j js ih =>
    show (applyEj ts js (setEj ts j x)).ej = some ts
    by_cases hj : x.id = j
    · have h1 : (setEj ts j x).ej = some ts := by simp [setEj, hj]
      clear ih h
      generalize setEj ts j x = y at h1
      induction js generalizing y with
      | nil => exact h1
      | cons k ks ih2 => exact ih2 _ (setEj_ej_of_some ts k y h1)
    · have : x.id ∈ js := by
        rcases List.mem_cons.mp h with h | h
        · exact absurd h hj
        · exact h
      have h2 : setEj ts j x = x := by simp [setEj, hj]
      rw [h2]; exact ih x this

theorem applyEj_ej (ts : Int) (js : List Nat) (x : Ep) :
    (applyEj ts js x).ej = if x.id ∈ js then some ts else x.ej := by
  split
  · next h => exact applyEj_mem ts js x h
  · next h => rw [applyEj_not_mem ts js x h]

theorem idsOf_map_applyEj (ts : Int) (js : List Nat) (eps : List Ep) :
    idsOf (eps.map (applyEj ts js)) = idsOf eps := by
  simp only [idsOf, List.map_map]
  apply List.map_congr_left
  intro x _
  exact (applyEj_sameRest ts js x).id

theorem findEp_some {eps : List Ep} {id : Nat} {e : Ep} (h : findEp eps id = some e) : e ∈ eps ∧ e.id = id := by
  unfold findEp at h
  have h1 := List.mem_of_find?_eq_some h
  have h2 := List.find?_some h
  exact ⟨h1, by simpa using h2⟩

theorem findEp_isSome_of_mem {eps : List Ep} {id : Nat} (h : id ∈ idsOf eps) : (findEp eps id).isSome := by
  unfold findEp
  rw [List.find?_isSome]
  simp only [idsOf, List.mem_map] at h
  obtain ⟨x, hx, hid⟩ := h
  exact ⟨x, hx, by simp [hid]⟩

theorem mem_ids_of_findEp {eps : List Ep} {id : Nat} {e : Ep} (h : findEp eps id = some e) : id ∈ idsOf eps := by
  obtain ⟨h1, h2⟩ := findEp_some h
  simp only [idsOf, List.mem_map]
  exact ⟨e, h1, h2⟩

/-! ### the algorithm loops -/

def ejIds (evs : List Ev) : List Nat :=
  evs.filterMap fun e => match e with | .eject _ id => some id | _ => none

theorem ejIds_append (a b : List Ev) : ejIds (a ++ b) = ejIds a ++ ejIds b := by
  simp [ejIds, List.filterMap_append]

theorem findEp_map {f : Ep → Ep} (hf : ∀ x, (f x).id = x.id) (eps : List Ep) (j : Nat) :
    findEp (eps.map f) j = (findEp eps j).map f := by
  unfold findEp
  rw [List.find?_map]
  have : ((fun x : Ep => decide (x.id = j)) ∘ f) = (fun x => decide (x.id = j)) := by
    funext x; simp [Function.comp, hf x]
  rw [this]

/-- the sub-connection wrappers of the endpoint with this id -/
def swsOf (eps : List Ep) (j : Nat) : List Nat := match findEp eps j with | some e => e.sws | none => []

/-- the ejection updates queued by ejecting the endpoints `js` -/
def ejCmds (eps : List Ep) (js : List Nat) : List Cmd := js.flatMap fun j => (swsOf eps j).map fun x => (x, true)

structure LoopRel (ts : Int) (out : Nat → Bool) (l r : Loop) (js : List Nat) : Prop where
  eps : r.eps = l.eps.map (applyEj ts js)
  cmds : r.cmds = l.cmds ++ ejCmds l.eps js
  nEj : r.nEj = l.nEj + (js.length : Int)
  outs : ∀ j ∈ js, out j = true ∧ j ∈ idsOf l.eps
  evs : ejIds r.evs = ejIds l.evs ++ js

theorem map_applyEj_nil (ts : Int) (eps : List Ep) : eps.map (applyEj ts []) = eps := by
  have : applyEj ts [] = id := by funext x; rfl
  rw [this, List.map_id]

theorem LoopRel.refl (ts : Int) (out : Nat → Bool) (l : Loop) : LoopRel ts out l l [] :=
  ⟨(map_applyEj_nil ts l.eps).symm, by simp [ejCmds], by simp, by simp, by simp⟩

theorem ejectEp_spec (ts : Int) (id : Nat) (l : Loop) (h : id ∈ idsOf l.eps) :
    (ejectEp ts id l).eps = l.eps.map (applyEj ts [id]) ∧ (ejectEp ts id l).nEj = l.nEj + 1
    ∧ (ejectEp ts id l).evs = l.evs ∧ (ejectEp ts id l).draws = l.draws
    ∧ (ejectEp ts id l).cmds = l.cmds ++ ejCmds l.eps [id] := by
  have hs := findEp_isSome_of_mem h
  unfold ejectEp
  cases hf : findEp l.eps id with
  | none => simp [hf] at hs
  | some e =>
    refine ⟨?_, ?_, ?_, ?_, ?_⟩
    · show List.map _ l.eps = _
      apply List.map_congr_left
      intro x _
      simp [applyEj, setEj]
    · rfl
    · rfl
    · rfl
    · simp [ejCmds, swsOf, hf]

theorem algStep_spec (k : AlgK) (a : Alg) (maxPct : Nat) (ts : Int) (out : Nat → Bool) (l : Loop) (id : Nat)
    (hout : ∀ j, out j = true → j ∈ idsOf l.eps) :
    ∃ js, LoopRel ts out l (algStep k a maxPct ts out l id) js ∧
      (js = [] ∨ (js = [id] ∧ (∃ e, findEp l.eps id = some e ∧ e.ejected = false) ∧
        ¬ ((maxPct : Int) * (l.eps.length : Int) ≤ l.nEj * 100))) := by
  unfold algStep
  by_cases ho : out id = true
  · simp only [ho, Bool.not_true, Bool.false_eq_true, if_false]
    have hmem := hout id ho
    have hsome := findEp_isSome_of_mem hmem
    cases hf : findEp l.eps id with
    | none => simp [hf] at hsome
    | some e =>
      simp only [Option.map_some, Option.getD_some]
      by_cases hej : e.ejected = true
      · simp only [hej, if_true]
        exact ⟨[], LoopRel.refl ts out l, Or.inl rfl⟩
      · have hej' : e.ejected = false := by simpa using hej
        simp only [hej', Bool.false_eq_true, if_false]
        by_cases hp : (maxPct : Int) * (l.eps.length : Int) ≤ l.nEj * 100
        · simp only [hp, decide_true, if_true]
          exact ⟨[], ⟨(map_applyEj_nil ts l.eps).symm, by simp [ejCmds], by simp, by simp, by simp [ejIds_append, ejIds]⟩, Or.inl rfl⟩
        · simp only [hp, decide_false, Bool.false_eq_true, if_false]
          split
          · have hs := ejectEp_spec ts id { l with draws := l.draws.tail } hmem
            refine ⟨[id], ⟨?_, ?_, ?_, ?_, ?_⟩, Or.inr ⟨rfl, ⟨e, rfl, hej'⟩, by first | exact hp | exact not_false⟩⟩
            · simpa using hs.1
            · simpa using hs.2.2.2.2
            · simpa using hs.2.1
            · intro j hj; simp at hj; subst hj; exact ⟨ho, hmem⟩
            · simp [ejIds_append, hs.2.2.1, ejIds]
          · exact ⟨[], ⟨(map_applyEj_nil ts l.eps).symm, by simp [ejCmds], by simp, by simp, by simp [ejIds_append, ejIds]⟩, Or.inl rfl⟩
  · simp only [ho, Bool.not_false, if_true]
    exact ⟨[], LoopRel.refl ts out l, Or.inl rfl⟩

theorem LoopRel.trans {ts : Int} {out : Nat → Bool} {l m r : Loop} {js ks : List Nat}
    (h1 : LoopRel ts out l m js) (h2 : LoopRel ts out m r ks) : LoopRel ts out l r (js ++ ks) := by
  refine ⟨?_, ?_, ?_, ?_, ?_⟩
  · rw [h2.eps, h1.eps, List.map_map]
    apply List.map_congr_left
    intro x _
    simp [applyEj_append]
  · rw [h2.cmds, h1.cmds, h1.eps, List.append_assoc]
    congr 1
    simp only [ejCmds, List.flatMap_append]
    congr 1
    have hsw : ∀ j, swsOf (List.map (applyEj ts js) l.eps) j = swsOf l.eps j := by
      intro j
      simp only [swsOf]
      rw [findEp_map (fun x => (applyEj_sameRest ts js x).id)]
      cases findEp l.eps j with
      | none => rfl
      | some e => simp [(applyEj_sameRest ts js e).sws]
    simp only [hsw]
  · rw [h2.nEj, h1.nEj]; simp; omega
  · intro j hj
    rcases List.mem_append.mp hj with h | h
    · exact h1.outs j h
    · have := h2.outs j h
      rw [h1.eps, idsOf_map_applyEj] at this
      exact this
  · rw [h2.evs, h1.evs, List.append_assoc]

theorem swsOf_map_applyEj (ts : Int) (js : List Nat) (eps : List Ep) (j : Nat) :
    swsOf (eps.map (applyEj ts js)) j = swsOf eps j := by
  simp only [swsOf]
  rw [findEp_map (fun x => (applyEj_sameRest ts js x).id)]
  cases findEp eps j with
  | none => rfl
  | some e => simp [(applyEj_sameRest ts js e).sws]

theorem ejCmds_map_applyEj (ts : Int) (js ks : List Nat) (eps : List Ep) :
    ejCmds (eps.map (applyEj ts js)) ks = ejCmds eps ks := by
  simp only [ejCmds, swsOf_map_applyEj]

theorem ejCmds_append (eps : List Ep) (js ks : List Nat) : ejCmds eps (js ++ ks) = ejCmds eps js ++ ejCmds eps ks := by
  simp [ejCmds, List.flatMap_append]

theorem foldl_algStep_spec (k : AlgK) (a : Alg) (maxPct : Nat) (ts : Int) (out : Nat → Bool) (order : List Nat) (l : Loop)
    (hout : ∀ j, out j = true → j ∈ idsOf l.eps) :
    ∃ js, LoopRel ts out l (order.foldl (algStep k a maxPct ts out) l) js := by
  induction order generalizing l with
  | nil => exact ⟨[], LoopRel.refl ts out l⟩
  | cons id rest ih =>
    obtain ⟨js, h1, _⟩ := algStep_spec k a maxPct ts out l id hout
    have hout' : ∀ j, out j = true → j ∈ idsOf (algStep k a maxPct ts out l id).eps := by
      intro j hj; rw [h1.eps, idsOf_map_applyEj]; exact hout j hj
    obtain ⟨ks, h2⟩ := ih (algStep k a maxPct ts out l id) hout'
    exact ⟨js ++ ks, h1.trans h2⟩

theorem outSet_mem {k : AlgK} {eps : List Ep} {a : Alg} {j : Nat} (h : outSet k eps a j = true) : j ∈ idsOf eps := by
  unfold outSet at h
  cases hf : findEp eps j with
  | none => simp [hf] at h
  | some e => exact mem_ids_of_findEp hf

theorem runAlg_spec (k : AlgK) (a : Alg) (maxPct : Nat) (ts : Int) (order : List Nat) (l : Loop) :
    ∃ js, LoopRel ts (outSet k l.eps a) l (runAlg k a maxPct ts order l) js :=
  foldl_algStep_spec k a maxPct ts (outSet k l.eps a) order l (fun _ h => outSet_mem h)

/-! ### counting under ejections -/

theorem map_applyEj_cons (ts : Int) (j : Nat) (js : List Nat) (eps : List Ep) :
    eps.map (applyEj ts (j :: js)) = (eps.map (setEj ts j)).map (applyEj ts js) := by
  rw [List.map_map]; rfl

theorem map_applyEj_single (ts : Int) (j : Nat) (eps : List Ep) :
    eps.map (applyEj ts [j]) = eps.map (setEj ts j) := by
  apply List.map_congr_left; intro x _; rfl

theorem mem_of_mem_idsOf {eps : List Ep} {j : Nat} (h : j ∈ idsOf eps) : ∃ e ∈ eps, e.id = j := by
  simpa [idsOf] using h

theorem trueCount_setEj_le (ts : Int) (j : Nat) (eps : List Ep) (hn : (idsOf eps).Nodup) (hj : j ∈ idsOf eps) :
    trueCount (eps.map (setEj ts j)) ≤ trueCount eps + 1 := by
  obtain ⟨e, he, hid⟩ := mem_of_mem_idsOf hj
  rw [trueCount_setEj ts j eps hn e he hid]
  split <;> omega

theorem trueCount_applyEj_le (ts : Int) (js : List Nat) (eps : List Ep) (hn : (idsOf eps).Nodup)
    (hj : ∀ j ∈ js, j ∈ idsOf eps) : trueCount (eps.map (applyEj ts js)) ≤ trueCount eps + js.length := by
  induction js generalizing eps with
  | nil => simp [map_applyEj_nil]
  | cons j js ih =>
    rw [map_applyEj_cons]
    have h1 := trueCount_setEj_le ts j eps hn (hj j (by simp))
    have hn' : (idsOf (eps.map (setEj ts j))).Nodup := by rw [idsOf_map_setEj]; exact hn
    have h2 := ih (eps.map (setEj ts j)) hn' (by
      intro k hk; rw [idsOf_map_setEj]; exact hj k (by simp [hk]))
    simp only [List.length_cons]
    omega

/-- loop invariant: ids distinct, the counter is exactly the number of ejected endpoints -/
structure LoopInv (l : Loop) : Prop where
  nodup : (idsOf l.eps).Nodup
  cnt : (trueCount l.eps : Int) = l.nEj

theorem algStep_inv (k : AlgK) (a : Alg) (maxPct : Nat) (ts : Int) (out : Nat → Bool) (l : Loop) (id : Nat)
    (hout : ∀ j, out j = true → j ∈ idsOf l.eps) (hi : LoopInv l) : LoopInv (algStep k a maxPct ts out l id) := by
  obtain ⟨js, hr, hor⟩ := algStep_spec k a maxPct ts out l id hout
  constructor
  · rw [hr.eps, idsOf_map_applyEj]; exact hi.nodup
  · rcases hor with rfl | ⟨rfl, ⟨e, hf, hej⟩, _⟩
    · rw [hr.eps, hr.nEj, map_applyEj_nil]; simp [hi.cnt]
    · obtain ⟨hem, hid⟩ := findEp_some hf
      rw [hr.eps, hr.nEj, map_applyEj_single, trueCount_setEj ts id l.eps hi.nodup e hem hid]
      simp [hej, ← hi.cnt]

theorem foldl_algStep_inv (k : AlgK) (a : Alg) (maxPct : Nat) (ts : Int) (out : Nat → Bool) (order : List Nat) (l : Loop)
    (hout : ∀ j, out j = true → j ∈ idsOf l.eps) (hi : LoopInv l) : LoopInv (order.foldl (algStep k a maxPct ts out) l) := by
  induction order generalizing l with
  | nil => exact hi
  | cons id rest ih =>
    simp only [List.foldl_cons]
    apply ih _ _ (algStep_inv k a maxPct ts out l id hout hi)
    intro j hj
    obtain ⟨js, hr, _⟩ := algStep_spec k a maxPct ts out l id hout
    rw [hr.eps, idsOf_map_applyEj]; exact hout j hj

theorem runAlg_inv (k : AlgK) (a : Alg) (maxPct : Nat) (ts : Int) (order : List Nat) (l : Loop) (hi : LoopInv l) :
    LoopInv (runAlg k a maxPct ts order l) :=
  foldl_algStep_inv k a maxPct ts (outSet k l.eps a) order l (fun _ h => outSet_mem h) hi

/-! ### the criteria only look at ids and buckets -/

theorem SameRest.rv {x y : Ep} (h : SameRest x y) : y.rv = x.rv := by simp [Ep.rv, h.inS, h.inF]

theorem SameRest.rate {x y : Ep} (h : SameRest x y) : rate y = rate x := by
  simp [GrpcModel.Outlier.rate, h.rv, h.inS]

theorem considered_map {f : Ep → Ep} (hf : ∀ x, SameRest x (f x)) (eps : List Ep) (vol : Nat) :
    considered (eps.map f) vol = (considered eps vol).map f := by
  unfold considered
  rw [List.filter_map]
  congr 1
  apply List.filter_congr
  intro x _
  simp [Function.comp, (hf x).rv]

theorem map_rate_map {f : Ep → Ep} (hf : ∀ x, SameRest x (f x)) (l : List Ep) :
    (l.map f).map rate = l.map rate := by
  rw [List.map_map]; apply List.map_congr_left; intro x _; exact (hf x).rate

theorem mean_map {f : Ep → Ep} (hf : ∀ x, SameRest x (f x)) (l : List Ep) : mean (l.map f) = mean l := by
  unfold mean; rw [map_rate_map hf, List.length_map]

theorem variance_map {f : Ep → Ep} (hf : ∀ x, SameRest x (f x)) (l : List Ep) : variance (l.map f) = variance l := by
  unfold variance
  rw [mean_map hf, List.length_map, List.map_map]
  congr 2
  apply List.map_congr_left; intro x _
  simp [Function.comp, (hf x).rate]

theorem belowMean_map {f : Ep → Ep} (hf : ∀ x, SameRest x (f x)) (l : List Ep) (factor : Nat) (e : Ep) :
    belowMean (l.map f) factor (f e) = belowMean l factor e := by
  unfold belowMean; rw [mean_map hf, variance_map hf, (hf e).rate]

theorem isOut_map {f : Ep → Ep} (hf : ∀ x, SameRest x (f x)) (k : AlgK) (eps : List Ep) (a : Alg) (e : Ep) :
    isOut k (eps.map f) a (f e) = isOut k eps a e := by
  cases k with
  | sr =>
    simp only [isOut, srOut, considered_map hf, List.length_map, belowMean_map hf, (hf e).rv, List.all_map]
    have : ((fun x : Ep => decide (0 < x.rv)) ∘ f) = (fun x => decide (0 < x.rv)) := by
      funext x; simp [Function.comp, (hf x).rv]
    rw [this]
  | fp =>
    simp only [isOut, fpOut, considered_map hf, List.length_map, (hf e).rv, (hf e).inF]

theorem outSet_map {f : Ep → Ep} (hf : ∀ x, SameRest x (f x)) (k : AlgK) (eps : List Ep) (a : Alg) (j : Nat) :
    outSet k (eps.map f) a j = outSet k eps a j := by
  unfold outSet
  rw [findEp_map (fun x => (hf x).id)]
  cases findEp eps j with
  | none => rfl
  | some e => simp [isOut_map hf]

/-! ### one run of intervalTimerAlgorithm -/

def swapped (s : St) : List Ep := s.eps.map Ep.swap

/-- the state of the loops after the success-rate algorithm -/
def srLoop (c : Cfg) (s : St) (oS d : List Nat) : Loop :=
  match c.sr with
  | some a => runAlg .sr a c.maxPct s.now oS { eps := swapped s, nEj := s.nEj, draws := d }
  | none => { eps := swapped s, nEj := s.nEj, draws := d }

/-- the state of the loops after both algorithms -/
def algsLoop (c : Cfg) (s : St) (oS oF d : List Nat) : Loop :=
  match c.fp with
  | some a => runAlg .fp a c.maxPct s.now oF (srLoop c s oS d)
  | none => srLoop c s oS d

theorem fireCore_eq (c : Cfg) (s : St) (oS oF d : List Nat) :
    fireCore c s oS oF d =
      let l2 := algsLoop c s oS oF d
      let u := unejPass c s.now l2.eps
      ({ s with timerStart := some s.now, eps := u.1, nEj := l2.nEj - u.2.1, timer := some (s.now + c.interval) },
       l2.evs, l2.cmds ++ u.2.2) := rfl

structure AlgsSpec (c : Cfg) (s : St) (l2 : Loop) (js1 js2 : List Nat) : Prop where
  sr : ∀ j ∈ js1, ∃ a, c.sr = some a ∧ outSet .sr (swapped s) a j = true
  fp : ∀ j ∈ js2, ∃ a, c.fp = some a ∧ outSet .fp (swapped s) a j = true
  eps : l2.eps = (swapped s).map (applyEj s.now (js1 ++ js2))
  nEj : l2.nEj = s.nEj + ((js1 ++ js2).length : Int)
  evs : ejIds l2.evs = js1 ++ js2
  cmds : l2.cmds = ejCmds (swapped s) (js1 ++ js2)

theorem algsLoop_spec (c : Cfg) (s : St) (oS oF d : List Nat) :
    ∃ js1 js2, AlgsSpec c s (algsLoop c s oS oF d) js1 js2 := by
  have h1 : ∃ js1, LoopRel s.now (fun j => match c.sr with | some a => outSet .sr (swapped s) a j | none => false)
        { eps := swapped s, nEj := s.nEj, draws := d } (srLoop c s oS d) js1 := by
    unfold srLoop
    cases hsr : c.sr with
    | none => exact ⟨[], LoopRel.refl _ _ _⟩
    | some a => exact runAlg_spec .sr a c.maxPct s.now oS { eps := swapped s, nEj := s.nEj, draws := d }
  obtain ⟨js1, r1⟩ := h1
  have h2 : ∃ js2, LoopRel s.now (fun j => match c.fp with | some a => outSet .fp (srLoop c s oS d).eps a j | none => false)
        (srLoop c s oS d) (algsLoop c s oS oF d) js2 := by
    unfold algsLoop
    cases hfp : c.fp with
    | none => exact ⟨[], LoopRel.refl _ _ _⟩
    | some a => exact runAlg_spec .fp a c.maxPct s.now oF (srLoop c s oS d)
  obtain ⟨js2, r2⟩ := h2
  refine ⟨js1, js2, ?_, ?_, ?_, ?_, ?_, ?_⟩
  · intro j hj
    have := (r1.outs j hj).1
    cases hsr : c.sr with
    | none => simp [hsr] at this
    | some a => exact ⟨a, rfl, by simpa [hsr] using this⟩
  · intro j hj
    have := (r2.outs j hj).1
    cases hfp : c.fp with
    | none => simp [hfp] at this
    | some a =>
      refine ⟨a, rfl, ?_⟩
      simp only [hfp] at this
      rw [r1.eps] at this
      rwa [outSet_map (fun x => applyEj_sameRest s.now js1 x)] at this
  · rw [r2.eps, r1.eps, List.map_map]
    apply List.map_congr_left; intro x _
    simp [applyEj_append]
  · rw [r2.nEj, r1.nEj]; simp; omega
  · rw [r2.evs, r1.evs]; simp [ejIds]
  · rw [r2.cmds, r1.cmds, r1.eps, ejCmds_map_applyEj, ejCmds_append]; simp

/-! ### operations that do not touch the ejection state -/

/-- identity, ejection timestamp and multiplier are kept -/
structure KeepEj (x y : Ep) : Prop where
  id : y.id = x.id
  gen : y.gen = x.gen
  ej : y.ej = x.ej
  mult : y.mult = x.mult

theorem KeepEj.refl (x : Ep) : KeepEj x x := ⟨rfl, rfl, rfl, rfl⟩
theorem KeepEj.trans {x y z : Ep} (a : KeepEj x y) (b : KeepEj y z) : KeepEj x z :=
  ⟨b.id.trans a.id, b.gen.trans a.gen, b.ej.trans a.ej, b.mult.trans a.mult⟩

/-- `eps'` is `eps` with every entry's ejection state kept -/
def EjKept (eps eps' : List Ep) : Prop := ∃ g : Ep → Ep, (∀ x, KeepEj x (g x)) ∧ eps' = eps.map g

theorem EjKept.refl (eps : List Ep) : EjKept eps eps := ⟨id, fun x => KeepEj.refl x, by simp⟩

theorem EjKept.trans {a b c : List Ep} (h1 : EjKept a b) (h2 : EjKept b c) : EjKept a c := by
  obtain ⟨g1, k1, e1⟩ := h1
  obtain ⟨g2, k2, e2⟩ := h2
  exact ⟨g2 ∘ g1, fun x => (k1 x).trans (k2 (g1 x)), by rw [e2, e1, List.map_map]⟩

theorem EjKept.map (eps : List Ep) (g : Ep → Ep) (h : ∀ x, KeepEj x (g x)) : EjKept eps (eps.map g) := ⟨g, h, rfl⟩

theorem EjKept.ids {eps eps' : List Ep} (h : EjKept eps eps') : idsOf eps' = idsOf eps := by
  obtain ⟨g, k, e⟩ := h
  rw [e]; simp only [idsOf, List.map_map]
  apply List.map_congr_left; intro x _; exact (k x).id

theorem EjKept.trueCount {eps eps' : List Ep} (h : EjKept eps eps') : trueCount eps' = trueCount eps := by
  obtain ⟨g, k, e⟩ := h
  rw [e]; exact trueCount_map_same (fun x => (k x).ej) eps

theorem EjKept.length {eps eps' : List Ep} (h : EjKept eps eps') : eps'.length = eps.length := by
  obtain ⟨g, k, e⟩ := h; rw [e, List.length_map]

/-- every entry of the new list comes from an entry with the same ejection state, and back -/
theorem EjKept.mem {eps eps' : List Ep} (h : EjKept eps eps') {y : Ep} (hy : y ∈ eps') : ∃ x ∈ eps, KeepEj x y := by
  obtain ⟨g, k, e⟩ := h
  rw [e] at hy
  obtain ⟨x, hx, rfl⟩ := List.mem_map.mp hy
  exact ⟨x, hx, k x⟩

theorem EjKept.mem' {eps eps' : List Ep} (h : EjKept eps eps') {x : Ep} (hx : x ∈ eps) : ∃ y ∈ eps', KeepEj x y := by
  obtain ⟨g, k, e⟩ := h
  exact ⟨g x, by rw [e]; exact List.mem_map_of_mem hx, k x⟩

theorem newScw_eps (s : St) (id : Nat) : EjKept s.eps (newScw s id).eps ∧ (newScw s id).nEj = s.nEj
    ∧ (newScw s id).cfg = s.cfg := by
  refine ⟨?_, rfl, rfl⟩
  unfold newScw
  apply EjKept.map
  intro x; split <;> exact ⟨rfl, rfl, rfl, rfl⟩

theorem shutScw_eps (s : St) (serial : Nat) : EjKept s.eps (shutScw s serial).1.eps ∧ (shutScw s serial).1.nEj = s.nEj
    ∧ (shutScw s serial).1.cfg = s.cfg := by
  unfold shutScw
  split
  · exact ⟨EjKept.refl _, rfl, rfl⟩
  · split
    · exact ⟨EjKept.refl _, rfl, rfl⟩
    · refine ⟨?_, rfl, rfl⟩
      apply EjKept.map
      intro x; split <;> exact ⟨rfl, rfl, rfl, rfl⟩

/-- what `childUpdate` and friends keep of a state -/
structure CoreKept (s t : St) : Prop where
  eps : EjKept s.eps t.eps
  nEj : t.nEj = s.nEj
  cfg : t.cfg = s.cfg

theorem CoreKept.refl (s : St) : CoreKept s s := ⟨EjKept.refl _, rfl, rfl⟩
theorem CoreKept.trans {a b c : St} (h1 : CoreKept a b) (h2 : CoreKept b c) : CoreKept a c :=
  ⟨h1.eps.trans h2.eps, h2.nEj.trans h1.nEj, h2.cfg.trans h1.cfg⟩

theorem newScw_kept (s : St) (id : Nat) : CoreKept s (newScw s id) :=
  let h := newScw_eps s id; ⟨h.1, h.2.1, h.2.2⟩
theorem shutScw_kept (s : St) (serial : Nat) : CoreKept s (shutScw s serial).1 :=
  let h := shutScw_eps s serial; ⟨h.1, h.2.1, h.2.2⟩

theorem childUpdate_kept (s : St) (ids : List Nat) : CoreKept s (childUpdate s ids).1 := by
  unfold childUpdate
  -- first fold: shutdowns
  have h1 : ∀ (ws : List Scw) (acc : St × List Dl), CoreKept s acc.1 →
      CoreKept s (ws.foldl (fun (acc : St × List Dl) w => let (s', d) := shutScw acc.1 w.serial; (s', acc.2 ++ d)) acc).1 := by
    intro ws
    induction ws with
    | nil => intro acc h; exact h
    | cons w ws ih =>
      intro acc h
      simp only [List.foldl_cons]
      apply ih
      exact h.trans (shutScw_kept acc.1 w.serial)
  have h2 : ∀ (l : List Nat) (acc : St), CoreKept s acc →
      CoreKept s (l.foldl (fun (acc : St) id => if acc.scws.any (fun w => !w.dead && w.addr = id) then acc else newScw acc id) acc) := by
    intro l
    induction l with
    | nil => intro acc h; exact h
    | cons id l ih =>
      intro acc h
      simp only [List.foldl_cons]
      apply ih
      split
      · exact h
      · exact h.trans (newScw_kept acc id)
  simp only
  apply h2
  apply h1
  exact CoreKept.refl s

theorem calls_kept (s : St) (a b c : Nat) : CoreKept s (calls s a b c).1 := by
  unfold calls
  repeat' split
  all_goals first
    | exact CoreKept.refl s
    | (refine ⟨?_, rfl, rfl⟩
       apply EjKept.map
       intro x; split <;> exact ⟨rfl, rfl, rfl, rfl⟩)

theorem scUpdate_kept (s : St) (a b : Nat) : CoreKept s (scUpdate s a b).1 := by
  unfold scUpdate
  repeat' split
  all_goals first
    | exact CoreKept.refl s
    | exact ⟨EjKept.refl _, rfl, rfl⟩

theorem healthUpdate_kept (s : St) (a b : Nat) : CoreKept s (healthUpdate s a b).1 := by
  unfold healthUpdate
  repeat' split
  all_goals first
    | exact CoreKept.refl s
    | exact ⟨EjKept.refl _, rfl, rfl⟩

theorem childNewSc_kept (s : St) (a : Nat) : CoreKept s (childNewSc s a).1 := by
  unfold childNewSc
  split
  · exact CoreKept.refl s
  · exact newScw_kept s a

theorem childRmSc_kept (s : St) (a : Nat) : CoreKept s (childRmSc s a).1 := by
  unfold childRmSc
  split
  · exact CoreKept.refl s
  · exact shutScw_kept s a

theorem childState_kept (s : St) (a : Nat) : CoreKept s (childState s a).1 := by
  unfold childState
  split
  · exact CoreKept.refl s
  · exact ⟨EjKept.refl _, rfl, rfl⟩

/-- the operations other than a config/resolver update and a run of the interval timer -/
def plainOp : Op → Bool
  | .update _ _ => false
  | .fire _ _ _ => false
  | _ => true

theorem plain_kept (s : St) (op : Op) (h : plainOp op = true) : CoreKept s (step s op) := by
  cases op with
  | update c ids => simp [plainOp] at h
  | fire a b c => simp [plainOp] at h
  | calls a b c => exact calls_kept s a b c
  | sc a b => exact scUpdate_kept s a b
  | health a b => exact healthUpdate_kept s a b
  | newsc a => exact childNewSc_kept s a
  | rmsc a => exact childRmSc_kept s a
  | childstate a => exact childState_kept s a
  | quiet b => exact ⟨EjKept.refl _, rfl, rfl⟩
  | advance d => exact ⟨EjKept.refl _, rfl, rfl⟩

/-! ### UpdateClientConnState: the endpoint bookkeeping -/

theorem insertEp_perm (e : Ep) (l : List Ep) : (insertEp e l).Perm (e :: l) := by
  induction l with
  | nil => exact List.Perm.refl _
  | cons x xs ih =>
    unfold insertEp
    split
    · exact List.Perm.refl _
    · exact (List.Perm.cons x ih).trans (List.Perm.swap e x xs)

/-- entries created by `newEndpointInfo()` -/
def Fresh (x : Ep) : Prop := x.ej = none ∧ x.mult = 0 ∧ x.sws = []

structure AddInv (eps0 acc : List Ep) : Prop where
  ex : ∃ news : List Ep, acc.Perm (news ++ eps0) ∧ (∀ x ∈ news, Fresh x)
  nodup : (idsOf eps0).Nodup → (idsOf acc).Nodup

theorem findEp_none_not_mem {eps : List Ep} {id : Nat} (h : (findEp eps id).isSome = false) : id ∉ idsOf eps := by
  intro hm
  have := findEp_isSome_of_mem hm
  simp [this] at h

theorem addEps_inv (ids : List Nat) (eps0 : List Ep) (acc : List Ep × Nat) (h : AddInv eps0 acc.1) :
    AddInv eps0 (ids.foldl (fun (acc : List Ep × Nat) id =>
      if (findEp acc.1 id).isSome then acc else (insertEp (newEp id acc.2) acc.1, acc.2 + 1)) acc).1 := by
  induction ids generalizing acc with
  | nil => exact h
  | cons id ids ih =>
    simp only [List.foldl_cons]
    apply ih
    split
    · exact h
    · next hf =>
      have hf' : (findEp acc.1 id).isSome = false := by simpa using hf
      obtain ⟨news, hp, hfresh⟩ := h.ex
      have hperm := insertEp_perm (newEp id acc.2) acc.1
      constructor
      · refine ⟨newEp id acc.2 :: news, ?_, ?_⟩
        · exact hperm.trans (List.Perm.cons _ hp)
        · intro x hx
          rcases List.mem_cons.mp hx with rfl | hx
          · exact ⟨rfl, rfl, rfl⟩
          · exact hfresh x hx
      · intro hn
        have h1 := h.nodup hn
        have : (idsOf (insertEp (newEp id acc.2) acc.1)).Perm (id :: idsOf acc.1) := by
          have := hperm.map (·.id)
          simpa [idsOf, newEp] using this
        rw [this.nodup_iff]
        exact List.nodup_cons.mpr ⟨findEp_none_not_mem hf', h1⟩

theorem addEps_spec (ids : List Nat) (eps : List Ep) (gen : Nat) : AddInv eps (addEps ids eps gen).1 := by
  unfold addEps
  exact addEps_inv ids eps (eps, gen) ⟨⟨[], by simp, by simp⟩, fun h => h⟩

/-- the endpoint list after the add/remove loops of UpdateClientConnState -/
def updEps (s : St) (ids : List Nat) : List Ep :=
  (addEps ids s.eps s.nextGen).1.filter fun e => ids.contains e.id

theorem updEps_nodup (s : St) (ids : List Nat) (h : (idsOf s.eps).Nodup) : (idsOf (updEps s ids)).Nodup := by
  have h1 := (addEps_spec ids s.eps s.nextGen).nodup h
  unfold updEps
  exact List.Nodup.sublist (List.Sublist.map _ List.filter_sublist) h1

theorem updEps_mem (s : St) (ids : List Nat) {y : Ep} (hy : y ∈ updEps s ids) :
    ids.contains y.id = true ∧ (y ∈ s.eps ∨ Fresh y) := by
  unfold updEps at hy
  rw [List.mem_filter] at hy
  obtain ⟨news, hp, hfresh⟩ := (addEps_spec ids s.eps s.nextGen).ex
  have := hp.mem_iff.mp hy.1
  rcases List.mem_append.mp this with h | h
  · exact ⟨hy.2, Or.inr (hfresh y h)⟩
  · exact ⟨hy.2, Or.inl h⟩

theorem updEps_keep (s : St) (ids : List Nat) {x : Ep} (hx : x ∈ s.eps) (hc : ids.contains x.id = true) : x ∈ updEps s ids := by
  unfold updEps
  rw [List.mem_filter]
  obtain ⟨news, hp, _⟩ := (addEps_spec ids s.eps s.nextGen).ex
  exact ⟨hp.mem_iff.mpr (List.mem_append.mpr (Or.inr hx)), hc⟩

theorem countP_fresh (news : List Ep) (h : ∀ x ∈ news, Fresh x) (p : Ep → Bool) :
    (news.filter p).countP Ep.ejected = 0 := by
  rw [List.countP_eq_zero]
  intro x hx
  have := h x (List.mem_filter.mp hx).1
  simp [Ep.ejected, this.1]

theorem updEps_count_le (s : St) (ids : List Nat) : trueCount (updEps s ids) ≤ trueCount s.eps := by
  obtain ⟨news, hp, hfresh⟩ := (addEps_spec ids s.eps s.nextGen).ex
  unfold updEps
  simp only [trueCount_eq_countP]
  have h1 := (hp.filter (fun e => ids.contains e.id)).countP_eq Ep.ejected
  rw [h1, List.filter_append, List.countP_append, countP_fresh news hfresh]
  simp only [Nat.zero_add]
  exact List.Sublist.countP_le List.filter_sublist

theorem updEps_count_eq (s : St) (ids : List Nat) (h : ∀ x ∈ s.eps, x.ejected = true → ids.contains x.id = true) :
    trueCount (updEps s ids) = trueCount s.eps := by
  obtain ⟨news, hp, hfresh⟩ := (addEps_spec ids s.eps s.nextGen).ex
  unfold updEps
  simp only [trueCount_eq_countP]
  have h1 := (hp.filter (fun e => ids.contains e.id)).countP_eq Ep.ejected
  rw [h1, List.filter_append, List.countP_append, countP_fresh news hfresh]
  simp only [Nat.zero_add, List.countP_filter]
  apply List.countP_congr
  intro x hx
  constructor
  · intro hh; simp at hh; simpa using hh.1
  · intro hh; simp; exact ⟨hh, by simpa using h x hx hh⟩

theorem updateCore_eps (s : St) (c : Cfg) (ids : List Nat) :
    (updateCore s c ids).1.eps =
      (if c.noop then (updEps s ids).map (fun e => { e with ej := none, mult := 0 })
       else match s.timerStart with
         | none => (updEps s ids).map Ep.clear
         | some _ => updEps s ids) := by
  unfold updateCore updEps
  simp only [onNoop]
  split
  · rfl
  · split <;> simp only [*]

/-- the endpoints dropped by the update -/
def remEps (s : St) (ids : List Nat) : List Ep :=
  (addEps ids s.eps s.nextGen).1.filter fun e => !ids.contains e.id

theorem updEps_count_split (s : St) (ids : List Nat) :
    trueCount (updEps s ids) + trueCount (remEps s ids) = trueCount s.eps := by
  obtain ⟨news, hp, hfresh⟩ := (addEps_spec ids s.eps s.nextGen).ex
  unfold updEps remEps
  simp only [trueCount_eq_countP, List.countP_filter]
  have h1 := hp.countP_eq (fun a => Ep.ejected a && ids.contains a.id)
  have h2 := hp.countP_eq (fun a => Ep.ejected a && !ids.contains a.id)
  have h3 := hp.countP_eq Ep.ejected
  have hsum : ∀ l : List Ep, List.countP (fun a => Ep.ejected a && ids.contains a.id) l +
      List.countP (fun a => Ep.ejected a && !ids.contains a.id) l = List.countP Ep.ejected l := by
    intro l
    induction l with
    | nil => rfl
    | cons x xs ih =>
      simp only [List.countP_cons]
      cases h1 : Ep.ejected x <;> cases h2 : ids.contains x.id <;>
        simp only [Bool.and_true, Bool.and_false, Bool.not_true, Bool.not_false, Bool.true_and, Bool.false_and,
          if_true, if_false, Bool.false_eq_true] <;> omega
  have hnews : List.countP Ep.ejected (news ++ s.eps) = List.countP Ep.ejected s.eps := by
    rw [List.countP_append]
    have : List.countP Ep.ejected news = 0 := by
      rw [List.countP_eq_zero]; intro x hx; simp [Ep.ejected, (hfresh x hx).1]
    omega
  have := hsum (addEps ids s.eps s.nextGen).1
  omega

theorem updateCore_nEj (s : St) (c : Cfg) (ids : List Nat) :
    (updateCore s c ids).1.nEj =
      (if c.noop then s.nEj - (trueCount (remEps s ids) : Int) - (trueCount (updEps s ids) : Int)
       else s.nEj - (trueCount (remEps s ids) : Int)) := by
  unfold updateCore updEps remEps
  simp only [onNoop]
  split
  · rfl
  · split <;> rfl

theorem updateCore_cfg (s : St) (c : Cfg) (ids : List Nat) : (updateCore s c ids).1.cfg = some c := by
  unfold updateCore
  simp only [onNoop]
  split
  · rfl
  · split <;> rfl

theorem update_kept (s : St) (c : Cfg) (ids : List Nat) : CoreKept (updateCore s c ids).1 (update s c ids).1 := by
  unfold update
  simp only
  have hk := childUpdate_kept
    { (updateCore s c ids).1 with scws := (applyCmds (updateCore s c ids).1.scws (updateCore s c ids).2).1 } ids
  have h0 : CoreKept (updateCore s c ids).1
      { (updateCore s c ids).1 with scws := (applyCmds (updateCore s c ids).1.scws (updateCore s c ids).2).1 } :=
    ⟨EjKept.refl _, rfl, rfl⟩
  have h := h0.trans hk
  refine ⟨?_, ?_, ?_⟩
  · repeat' split
    all_goals exact h.eps
  · repeat' split
    all_goals exact h.nEj
  · repeat' split
    all_goals exact h.cfg

/-! ### the un-ejection pass -/

theorem unejStep_id (c : Cfg) (now : Int) (e : Ep) : (unejStep c now e).1.id = e.id := by
  unfold unejStep; split <;> split <;> rfl

theorem unejPass_eps (c : Cfg) (now : Int) (eps : List Ep) :
    (unejPass c now eps).1 = eps.map fun e => (unejStep c now e).1 := by
  simp [unejPass, List.map_map, Function.comp_def]

theorem unejPass_k (c : Cfg) (now : Int) (eps : List Ep) :
    (unejPass c now eps).2.1 = ((eps.filter fun e => (unejStep c now e).2).length : Int) := by
  simp only [unejPass]
  congr 1
  rw [List.filter_map, List.length_map]
  rfl

theorem idsOf_unejPass (c : Cfg) (now : Int) (eps : List Ep) : idsOf (unejPass c now eps).1 = idsOf eps := by
  rw [unejPass_eps]; simp only [idsOf, List.map_map]
  apply List.map_congr_left; intro x _; exact unejStep_id c now x

theorem unejStep_count (c : Cfg) (now : Int) (e : Ep) :
    (if (unejStep c now e).1.ejected then 1 else 0) + (if (unejStep c now e).2 then 1 else 0)
      = (if e.ejected then 1 else 0) := by
  unfold unejStep Ep.ejected
  split <;> split <;> simp_all

theorem trueCount_unejPass (c : Cfg) (now : Int) (eps : List Ep) :
    trueCount (unejPass c now eps).1 + (eps.filter fun e => (unejStep c now e).2).length = trueCount eps := by
  rw [unejPass_eps]
  simp only [trueCount_eq_countP]
  induction eps with
  | nil => rfl
  | cons x xs ih =>
    have hx := unejStep_count c now x
    have hf : (List.filter (fun e => (unejStep c now e).2) (x :: xs)).length
        = (List.filter (fun e => (unejStep c now e).2) xs).length + (if (unejStep c now x).2 then 1 else 0) := by
      by_cases h2 : (unejStep c now x).2 = true <;> simp [List.filter_cons, h2]
    rw [hf]
    simp only [List.map_cons, List.countP_cons]
    omega

/-! ### reachable states and the first invariant -/

inductive Reach : St → Prop
  | init : Reach GrpcModel.Outlier.init
  | step {s : St} (op : Op) : Reach s → Reach (step s op)

theorem reach_run (ops : List Op) : Reach (run ops) := by
  unfold run
  suffices h : ∀ s, Reach s → Reach (ops.foldl step s) from h _ Reach.init
  induction ops with
  | nil => intro s h; exact h
  | cons o os ih => intro s h; exact ih _ (Reach.step o h)

/-- endpoint ids are distinct and the counter never under-counts -/
structure Inv (s : St) : Prop where
  nodup : (idsOf s.eps).Nodup
  cnt : (trueCount s.eps : Int) = s.nEj

theorem idsOf_swapped (s : St) : idsOf (swapped s) = idsOf s.eps := by
  simp only [swapped, idsOf, List.map_map]; apply List.map_congr_left; intro x _; rfl

theorem trueCount_swapped (s : St) : trueCount (swapped s) = trueCount s.eps :=
  trueCount_map_same (f := Ep.swap) (fun _ => rfl) s.eps

theorem fire_state (s : St) (c : Cfg) (hc : s.cfg = some c) (oS oF d : List Nat) :
    (fire s oS oF d).1.eps = (unejPass c s.now (algsLoop c s oS oF d).eps).1 ∧
    (fire s oS oF d).1.nEj = (algsLoop c s oS oF d).nEj - (unejPass c s.now (algsLoop c s oS oF d).eps).2.1 ∧
    (fire s oS oF d).1.cfg = some c := by
  unfold fire
  rw [hc]
  simp only [fireCore_eq]
  exact ⟨trivial, trivial, hc⟩

theorem fire_nocfg (s : St) (hc : s.cfg = none) (oS oF d : List Nat) : (fire s oS oF d).1 = s := by
  unfold fire; simp [hc]

theorem algsLoop_inv (c : Cfg) (s : St) (h : Inv s) (oS oF d : List Nat) : LoopInv (algsLoop c s oS oF d) := by
  have h0 : LoopInv { eps := swapped s, nEj := s.nEj, draws := d } :=
    ⟨by rw [idsOf_swapped]; exact h.nodup, by rw [trueCount_swapped]; exact h.cnt⟩
  have h1 : LoopInv (srLoop c s oS d) := by
    unfold srLoop
    cases c.sr with
    | none => exact h0
    | some a => exact runAlg_inv .sr a c.maxPct s.now oS _ h0
  unfold algsLoop
  cases c.fp with
  | none => exact h1
  | some a => exact runAlg_inv .fp a c.maxPct s.now oF _ h1

theorem inv_fire (s : St) (h : Inv s) (oS oF d : List Nat) : Inv (fire s oS oF d).1 := by
  cases hc : s.cfg with
  | none => rw [fire_nocfg s hc]; exact h
  | some c =>
    obtain ⟨he, hn, _⟩ := fire_state s c hc oS oF d
    have hl := algsLoop_inv c s h oS oF d
    constructor
    · rw [he, idsOf_unejPass]; exact hl.nodup
    · rw [he, hn, unejPass_k]
      have h3 := trueCount_unejPass c s.now (algsLoop c s oS oF d).eps
      have := hl.cnt
      omega

theorem inv_plain (s : St) (h : Inv s) (op : Op) (hp : plainOp op = true) : Inv (step s op) := by
  have k := plain_kept s op hp
  exact ⟨by rw [k.eps.ids]; exact h.nodup, by rw [k.eps.trueCount, k.nEj]; exact h.cnt⟩

theorem trueCount_unej_all (eps : List Ep) : trueCount (eps.map fun e => { e with ej := none, mult := 0 }) = 0 := by
  simp [trueCount_eq_countP, List.countP_eq_zero, Ep.ejected]

theorem inv_update (s : St) (h : Inv s) (c : Cfg) (ids : List Nat) : Inv (update s c ids).1 := by
  have k := update_kept s c ids
  have hnd := updEps_nodup s ids h.nodup
  have hsplit := updEps_count_split s ids
  have hcnt := h.cnt
  constructor
  · rw [k.eps.ids, updateCore_eps]
    split
    · simpa [idsOf, List.map_map, Function.comp_def] using hnd
    · split
      · simpa [idsOf, List.map_map, Function.comp_def, Ep.clear] using hnd
      · exact hnd
  · rw [k.eps.trueCount, k.nEj, updateCore_eps, updateCore_nEj]
    split
    · rw [trueCount_unej_all]; omega
    · split
      · rw [trueCount_map_same (f := Ep.clear) (fun _ => rfl)]; omega
      · omega

theorem inv_step (s : St) (h : Inv s) (op : Op) : Inv (step s op) := by
  cases hop : plainOp op with
  | true => exact inv_plain s h op hop
  | false =>
    cases op with
    | update c ids => exact inv_update s h c ids
    | fire a b c => exact inv_fire s h a b c
    | _ => simp [plainOp] at hop

theorem reach_inv {s : St} (h : Reach s) : Inv s := by
  induction h with
  | init => exact ⟨by simp [idsOf, GrpcModel.Outlier.init], by simp [trueCount, GrpcModel.Outlier.init]⟩
  | step op _ ih => exact inv_step _ ih op

end GrpcProofs.Lemmas.Outlier
