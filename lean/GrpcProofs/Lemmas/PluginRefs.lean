import GrpcModel.Model.PluginRefs
/-! Helper lemmas for the plugin clause of C51 (model: GrpcModel/Model/PluginRefs.lean). -/
namespace GrpcProofs.Lemmas.PluginRefs
open GrpcModel.PluginRefs

theorem release_sel (s : State) (p : Name) : (release s p).pushedSel = s.pushedSel ∧ (release s p).curSel = s.curSel := by
  unfold release
  split <;> exact ⟨rfl, rfl⟩

theorem foldl_release_sel (l : List Name) (s : State) :
    (l.foldl release s).pushedSel = s.pushedSel ∧ (l.foldl release s).curSel = s.curSel := by
  induction l generalizing s with
  | nil => exact ⟨rfl, rfl⟩
  | cons p l ih =>
    obtain ⟨a, b⟩ := ih (release s p)
    obtain ⟨c, d⟩ := release_sel s p
    exact ⟨a.trans c, b.trans d⟩

theorem step_sel (s : State) (o : Op) (h : s.pushedSel = s.curSel) : (step s o).pushedSel = (step s o).curSel := by
  cases o with
  | update ps =>
    simp only [step]
    obtain ⟨a, b⟩ := foldl_release_sel s.cur
      (prunePush { s with active := (dedup ps).foldl bump s.active, curSel := s.curSel + 1 } (s.curSel + 1))
    show (List.foldl release _ s.cur).pushedSel = (List.foldl release _ s.cur).curSel
    rw [a, b]; rfl
  | regen => simp only [step, prunePush]
  | select id p =>
    simp only [step]
    split
    · exact h
    · split <;> exact h
  | commit id =>
    simp only [step]
    split
    · exact h
    · split
      · exact h
      · obtain ⟨a, b⟩ := release_sel _ _
        rw [a, b]; exact h

theorem run_sel (ops : List Op) : (run ops).pushedSel = (run ops).curSel := by
  unfold run
  suffices ∀ s : State, s.pushedSel = s.curSel → (ops.foldl step s).pushedSel = (ops.foldl step s).curSel from this init rfl
  induction ops with
  | nil => intro s h; exact h
  | cons o ops ih => intro s h; exact ih _ (step_sel s o h)

end GrpcProofs.Lemmas.PluginRefs
