import GrpcProofs.Lemmas.Loopy
/-! Structural invariant `Wf` of the loopy writer's state (shared by C02 and C03). -/
namespace GrpcProofs.Loopy
open GrpcModel.Loopy

def headIsTrailers : List Item → Prop
  | .trailers .. :: _ => True
  | _ => False

/-- Well-formedness of the writer's state.
* `activeStreams` has no duplicates, contains exactly the established streams in state `active`;
* a stream is `empty` iff its item queue is empty; a `waitingOnStreamQuota` stream has no stream quota left;
* the queue of an established stream is never headed by trailers (this is what makes the unchecked
  `str.itl.peek().(*dataFrame)` in `processData` safe). -/
structure Wf (s : St) : Prop where
  keysNodup : s.keys.Nodup
  actNodup : s.active.Nodup
  actKeys : ∀ id ∈ s.active, id ∈ s.keys ∧ (s.str id).state = .active
  actAll : ∀ id ∈ s.keys, (s.str id).state = .active → id ∈ s.active
  emptyIff : ∀ id ∈ s.keys, ((s.str id).state = .empty ↔ (s.str id).items = [])
  waitQuota : ∀ id ∈ s.keys, (s.str id).state = .waiting → s.quota id ≤ 0
  headData : ∀ id ∈ s.keys, ¬ headIsTrailers (s.str id).items

theorem wf_init (side : Side) : Wf (init side) := by
  refine ⟨?_, ?_, ?_, ?_, ?_, ?_, ?_⟩ <;> simp [init]

/-- Changing fields that `Wf` does not read. -/
theorem Wf.congr {s t : St} (h : Wf s) (hk : t.keys = s.keys) (ha : t.active = s.active) (hs : t.str = s.str)
    (ho : t.oiws = s.oiws) : Wf t := by
  refine ⟨hk ▸ h.keysNodup, ha ▸ h.actNodup, ?_, ?_, ?_, ?_, ?_⟩
  · intro id hi; rw [ha] at hi; rw [hk, hs]; exact h.actKeys id hi
  · intro id hi hst; rw [hk] at hi; rw [hs] at hst; rw [ha]; exact h.actAll id hi hst
  · intro id hi; rw [hk] at hi; rw [hs]; exact h.emptyIff id hi
  · intro id hi hst; rw [hk] at hi; rw [hs] at hst; simp only [St.quota, ho, hs]; exact h.waitQuota id hi hst
  · intro id hi; rw [hk] at hi; rw [hs]; exact h.headData id hi

theorem headIsTrailers_append {l : List Item} (hl : l ≠ []) (x : Item) : headIsTrailers (l ++ [x]) ↔ headIsTrailers l := by
  cases l with
  | nil => exact absurd rfl hl
  | cons a t => cases a <;> simp [headIsTrailers]

/-- Replacing the stream `id` (which keeps its place on/off the active list). -/
theorem Wf.setStr_same {s : St} (h : Wf s) {id : Nat} (hk : id ∈ s.keys) (x : OutStream)
    (hst : x.state = (s.str id).state) (hq : x.state = .waiting → (s.oiws : Int) - x.bytesOut ≤ 0)
    (hemp : x.state = .empty ↔ x.items = []) (hhd : ¬ headIsTrailers x.items) : Wf (s.setStr id x) := by
  refine ⟨h.keysNodup, h.actNodup, ?_, ?_, ?_, ?_, ?_⟩
  · intro i hi
    by_cases hid : i = id
    · subst hid; simp only [setStr_keys, setStr_str_same]; exact ⟨hk, hst ▸ (h.actKeys i hi).2⟩
    · simp only [setStr_keys, setStr_str_ne _ _ hid]; exact h.actKeys i hi
  · intro i hi hs
    by_cases hid : i = id
    · subst hid; simp only [setStr_str_same] at hs; exact h.actAll i hk (hst ▸ hs)
    · simp only [setStr_str_ne _ _ hid] at hs; exact h.actAll i hi hs
  · intro i hi
    by_cases hid : i = id
    · subst hid; simp only [setStr_str_same]; exact hemp
    · simp only [setStr_str_ne _ _ hid]; exact h.emptyIff i hi
  · intro i hi hs
    by_cases hid : i = id
    · subst hid
      simp only [setStr_str_same] at hs
      simp only [St.quota, setStr_oiws, setStr_str_same]; exact hq hs
    · simp only [setStr_str_ne _ _ hid] at hs
      have := h.waitQuota i hi hs
      simp only [St.quota, setStr_oiws, setStr_str_ne _ _ hid] at this ⊢; exact this
  · intro i hi
    by_cases hid : i = id
    · subst hid; simp only [setStr_str_same]; exact hhd
    · simp only [setStr_str_ne _ _ hid]; exact h.headData i hi

/-- A stream that is not on the active list becomes active and is appended. -/
theorem Wf.activate {s : St} (h : Wf s) {id : Nat} (hk : id ∈ s.keys) (x : OutStream)
    (hold : (s.str id).state ≠ .active) (hst : x.state = .active) (hne : x.items ≠ [])
    (hhd : ¬ headIsTrailers x.items) : Wf { s.setStr id x with active := s.active ++ [id] } := by
  have hnot : id ∉ s.active := fun hi => hold (h.actKeys id hi).2
  refine ⟨h.keysNodup, ?_, ?_, ?_, ?_, ?_, ?_⟩
  · simp only [List.nodup_append, List.mem_singleton]
    refine ⟨h.actNodup, by simp, ?_⟩
    intro a ha b hb; subst hb; exact fun e => hnot (e ▸ ha)
  · intro i hi
    simp only [List.mem_append, List.mem_singleton] at hi
    by_cases hid : i = id
    · subst hid; simp only [setStr_keys, setStr_str_same]; exact ⟨hk, hst⟩
    · rcases hi with hi | hi
      · simp only [setStr_keys, setStr_str_ne _ _ hid]; exact h.actKeys i hi
      · exact absurd hi hid
  · intro i hi hs
    simp only [List.mem_append, List.mem_singleton]
    by_cases hid : i = id
    · exact Or.inr hid
    · simp only [setStr_str_ne _ _ hid] at hs; exact Or.inl (h.actAll i hi hs)
  · intro i hi
    by_cases hid : i = id
    · subst hid; simp only [setStr_str_same, hst, hne]; simp
    · simp only [setStr_str_ne _ _ hid]; exact h.emptyIff i hi
  · intro i hi hs
    by_cases hid : i = id
    · subst hid; simp only [setStr_str_same, hst] at hs; cases hs
    · simp only [setStr_str_ne _ _ hid] at hs
      have := h.waitQuota i hi hs
      simp only [St.quota, setStr_oiws, setStr_str_ne _ _ hid] at this ⊢; exact this
  · intro i hi
    by_cases hid : i = id
    · subst hid; simp only [setStr_str_same]; exact hhd
    · simp only [setStr_str_ne _ _ hid]; exact h.headData i hi

theorem removeStream_wf {s : St} (h : Wf s) (id : Nat) : Wf (removeStream s id) := by
  unfold removeStream
  split
  · refine ⟨h.keysNodup.filter _, h.actNodup.filter _, ?_, ?_, ?_, ?_, ?_⟩
    · intro i hi
      simp only [List.mem_filter] at hi ⊢
      exact ⟨⟨(h.actKeys i hi.1).1, hi.2⟩, (h.actKeys i hi.1).2⟩
    · intro i hi hs
      simp only [List.mem_filter] at hi ⊢
      exact ⟨h.actAll i hi.1 hs, hi.2⟩
    · intro i hi; simp only [List.mem_filter] at hi; exact h.emptyIff i hi.1
    · intro i hi hs; simp only [List.mem_filter] at hi; exact h.waitQuota i hi.1 hs
    · intro i hi; simp only [List.mem_filter] at hi; exact h.headData i hi.1
  · exact h

theorem newStream_wf {s : St} (h : Wf s) {id : Nat} (hk : id ∉ s.keys) :
    Wf ({ s with keys := s.keys ++ [id] }.setStr id {}) := by
  have hna : id ∉ s.active := fun hi => hk (h.actKeys id hi).1
  refine ⟨?_, h.actNodup, ?_, ?_, ?_, ?_, ?_⟩
  · simp only [setStr_keys, List.nodup_append, List.mem_singleton]
    refine ⟨h.keysNodup, by simp, ?_⟩
    intro a ha b hb; subst hb; exact fun e => hk (e ▸ ha)
  · intro i hi
    have hid : i ≠ id := fun e => hna (e ▸ hi)
    simp only [setStr_keys, List.mem_append, setStr_str_ne _ _ hid]
    exact ⟨Or.inl (h.actKeys i hi).1, (h.actKeys i hi).2⟩
  · intro i hi hs
    simp only [setStr_keys, List.mem_append, List.mem_singleton] at hi
    by_cases hid : i = id
    · subst hid; simp at hs
    · simp only [setStr_str_ne _ _ hid] at hs
      rcases hi with hi | hi
      · exact h.actAll i hi hs
      · exact absurd hi hid
  · intro i hi
    simp only [setStr_keys, List.mem_append, List.mem_singleton] at hi
    by_cases hid : i = id
    · subst hid; simp
    · simp only [setStr_str_ne _ _ hid]
      rcases hi with hi | hi
      · exact h.emptyIff i hi
      · exact absurd hi hid
  · intro i hi hs
    simp only [setStr_keys, List.mem_append, List.mem_singleton] at hi
    by_cases hid : i = id
    · subst hid; simp at hs
    · simp only [setStr_str_ne _ _ hid] at hs
      rcases hi with hi | hi
      · have := h.waitQuota i hi hs
        simp only [St.quota, setStr_oiws, setStr_str_ne _ _ hid] at this ⊢; exact this
      · exact absurd hi hid
  · intro i hi
    simp only [setStr_keys, List.mem_append, List.mem_singleton] at hi
    by_cases hid : i = id
    · subst hid; simp [headIsTrailers]
    · simp only [setStr_str_ne _ _ hid]
      rcases hi with hi | hi
      · exact h.headData i hi
      · exact absurd hi hid


theorem Wf.quota_of_bytes {s : St} (h : Wf s) {id : Nat} (hk : id ∈ s.keys) {x : OutStream}
    (hst : x.state = (s.str id).state) (hb : x.bytesOut = (s.str id).bytesOut) :
    x.state = .waiting → (s.oiws : Int) - x.bytesOut ≤ 0 := by
  intro hw
  have := h.waitQuota id hk (hst ▸ hw)
  simp only [St.quota] at this; rw [hb]; exact this

theorem Wf.items_ne_nil {s : St} (h : Wf s) {id : Nat} (hk : id ∈ s.keys) (hne : (s.str id).state ≠ .empty) :
    (s.str id).items ≠ [] := fun e => hne ((h.emptyIff id hk).mpr e)

theorem incomingWindowUpdate_wf {s : St} (h : Wf s) (id inc : Nat) : Wf (incomingWindowUpdate s id inc).st := by
  unfold incomingWindowUpdate
  split
  · exact h.congr rfl rfl rfl rfl
  split
  · rename_i h0 hk
    simp only
    split
    · rename_i hc
      have hne := h.items_ne_nil hk (by rw [hc.2]; decide)
      refine Wf.activate h hk _ (by rw [hc.2]; decide) rfl hne (h.headData id hk)
    · rename_i hc
      refine Wf.setStr_same h hk _ rfl ?_ (h.emptyIff id hk) (h.headData id hk)
      intro hw
      simp only at hw
      simp only [hw, and_true] at hc
      simp only; omega
  · exact h

theorem preprocessData_wf {s : St} (h : Wf s) (id hl d : Nat) (es : Bool) : Wf (preprocessData s id hl d es).st := by
  unfold preprocessData
  split
  · exact h
  rename_i hk
  simp only [Decidable.not_not] at hk
  simp only
  split
  · rename_i he
    have hnil := (h.emptyIff id hk).mp he
    refine Wf.activate h hk _ (by rw [he]; decide) rfl (by simp) ?_
    simp [hnil, headIsTrailers]
  · rename_i he
    have hne := h.items_ne_nil hk he
    refine Wf.setStr_same h hk _ rfl (h.quota_of_bytes hk rfl rfl) ?_ ?_
    · simp [he]
    · simp only [headIsTrailers_append hne]; exact h.headData id hk

theorem registerStream_wf {s : St} (h : Wf s) (id : Nat) : Wf (registerStream s id).st := by
  unfold registerStream
  split
  · exact h
  · rename_i hk; exact newStream_wf h hk

theorem clientHeader_wf {s : St} (h : Wf s) (id hb : Nat) (ie : Bool) : Wf (clientHeader s id hb ie).st := by
  unfold clientHeader
  split
  · exact h
  split
  · exact h
  split
  · exact h
  · rename_i hk; exact newStream_wf h hk

theorem cleanupStream_wf {s : St} (h : Wf s) (id : Nat) (rst : Bool) (code : Nat) : Wf (cleanupStream s id rst code).st :=
  removeStream_wf h id

theorem serverHeader_wf {s : St} (h : Wf s) (id : Nat) (es : Bool) (hb : Nat) (rst : Bool) (code : Nat) :
    Wf (serverHeader s id es hb rst code).st := by
  unfold serverHeader
  split
  · exact h
  rename_i hk
  simp only [Decidable.not_not] at hk
  split
  · exact h
  simp only
  split
  · rename_i he
    have hne := h.items_ne_nil hk he
    refine Wf.setStr_same h hk _ rfl (h.quota_of_bytes hk rfl rfl) ?_ ?_
    · simp [he]
    · simp only [headIsTrailers_append hne]; exact h.headData id hk
  · exact cleanupStream_wf h id rst code


theorem applyIWS_wf {s : St} (h : Wf s) (v : Nat) (order : List Nat) : Wf (applyIWS s v order) := by
  unfold applyIWS
  split
  · have hst : ∀ i, ((if (s.str i).state = SState.waiting then { s.str i with state := .active } else s.str i) : OutStream).state =
        (if (s.str i).state = .waiting then .active else (s.str i).state) := by intro i; split <;> rfl
    have hit : ∀ i, ((if (s.str i).state = SState.waiting then { s.str i with state := .active } else s.str i) : OutStream).items =
        (s.str i).items := by intro i; split <;> rfl
    have hby : ∀ i, ((if (s.str i).state = SState.waiting then { s.str i with state := .active } else s.str i) : OutStream).bytesOut =
        (s.str i).bytesOut := by intro i; split <;> rfl
    refine ⟨h.keysNodup, ?_, ?_, ?_, ?_, ?_, ?_⟩
    · simp only [List.nodup_append]
      refine ⟨h.actNodup, ((wakeOrder_perm s order).nodup_iff).mpr (h.keysNodup.filter _), ?_⟩
      intro a ha b hb e
      subst e
      have h1 := (h.actKeys a ha).2
      have h2 := (mem_wakeOrder.mp hb).2
      rw [h1] at h2; cases h2
    · intro i hi
      simp only [List.mem_append] at hi
      simp only [hst]
      rcases hi with hi | hi
      · exact ⟨(h.actKeys i hi).1, by simp [(h.actKeys i hi).2]⟩
      · exact ⟨(mem_wakeOrder.mp hi).1, by simp [(mem_wakeOrder.mp hi).2]⟩
    · intro i hi hs
      simp only [hst] at hs
      simp only [List.mem_append]
      by_cases hw : (s.str i).state = .waiting
      · exact Or.inr (mem_wakeOrder.mpr ⟨hi, hw⟩)
      · simp only [hw, if_false] at hs; exact Or.inl (h.actAll i hi hs)
    · intro i hi
      simp only [hst, hit]
      by_cases hw : (s.str i).state = .waiting
      · simp only [hw, if_true]
        have := h.items_ne_nil hi (by rw [hw]; decide)
        simp [this]
      · simp only [hw, if_false]; exact h.emptyIff i hi
    · intro i hi hs
      simp only [hst] at hs
      by_cases hw : (s.str i).state = .waiting
      · simp [hw] at hs
      · simp only [hw, if_false] at hs
    · intro i hi; simp only [hit]; exact h.headData i hi
  · rename_i hv
    refine ⟨h.keysNodup, h.actNodup, h.actKeys, h.actAll, h.emptyIff, ?_, h.headData⟩
    intro i hi hs
    have := h.waitQuota i hi hs
    simp only [St.quota] at this ⊢
    omega

theorem applySettings_wf {s : St} (h : Wf s) (ss : List (Nat × Nat)) (order : List Nat) : Wf (applySettings s ss order) := by
  unfold applySettings
  induction ss generalizing s with
  | nil => exact h
  | cons kv ss ih =>
    simp only [List.foldl_cons]
    apply ih
    split
    · exact applyIWS_wf h _ _
    · exact h


/-! ### processData -/

theorem Wf.head_facts {s : St} (h : Wf s) {id : Nat} {rest : List Nat} (hact : s.active = id :: rest) :
    id ∈ s.keys ∧ (s.str id).state = .active ∧ id ∉ rest ∧ rest.Nodup ∧ (s.str id).items ≠ [] := by
  have hid := h.actKeys id (by simp [hact])
  have hn := h.actNodup
  rw [hact, List.nodup_cons] at hn
  exact ⟨hid.1, hid.2, hn.1, hn.2, h.items_ne_nil hid.1 (by rw [hid.2]; decide)⟩

/-- The head of the active list is taken off the list and left in a non-active state. -/
theorem Wf.popHead {s t : St} (h : Wf s) {id : Nat} {rest : List Nat} (hact : s.active = id :: rest)
    (hk : t.keys = s.keys) (ha : t.active = rest) (ho : t.oiws = s.oiws) (hs : ∀ i, i ≠ id → t.str i = s.str i)
    (hst : (t.str id).state ≠ .active) (hemp : (t.str id).state = .empty ↔ (t.str id).items = [])
    (hq : (t.str id).state = .waiting → t.quota id ≤ 0) (hhd : ¬ headIsTrailers (t.str id).items) : Wf t := by
  obtain ⟨hidk, hida, hnr, hnd, _⟩ := h.head_facts hact
  refine ⟨hk ▸ h.keysNodup, ha ▸ hnd, ?_, ?_, ?_, ?_, ?_⟩
  · intro i hi
    rw [ha] at hi
    have hne : i ≠ id := fun e => hnr (e ▸ hi)
    rw [hk, hs i hne]
    exact h.actKeys i (by rw [hact]; exact List.mem_cons_of_mem _ hi)
  · intro i hi hsa
    rw [hk] at hi
    by_cases hne : i = id
    · subst hne; exact absurd hsa hst
    · rw [hs i hne] at hsa
      have := h.actAll i hi hsa
      rw [hact] at this
      rw [ha]
      rcases List.mem_cons.mp this with e | hm
      · exact absurd e hne
      · exact hm
  · intro i hi
    rw [hk] at hi
    by_cases hne : i = id
    · subst hne; exact hemp
    · rw [hs i hne]; exact h.emptyIff i hi
  · intro i hi hw
    rw [hk] at hi
    by_cases hne : i = id
    · subst hne; exact hq hw
    · rw [hs i hne] at hw
      have := h.waitQuota i hi hw
      simp only [St.quota, ho, hs i hne] at this ⊢; exact this
  · intro i hi
    rw [hk] at hi
    by_cases hne : i = id
    · subst hne; exact hhd
    · rw [hs i hne]; exact h.headData i hi

/-- The head of the active list is moved to the tail, still active. -/
theorem Wf.rotate {s t : St} (h : Wf s) {id : Nat} {rest : List Nat} (hact : s.active = id :: rest)
    (hk : t.keys = s.keys) (ha : t.active = rest ++ [id]) (ho : t.oiws = s.oiws) (hs : ∀ i, i ≠ id → t.str i = s.str i)
    (hst : (t.str id).state = .active) (hne : (t.str id).items ≠ []) (hhd : ¬ headIsTrailers (t.str id).items) : Wf t := by
  obtain ⟨hidk, hida, hnr, hnd, _⟩ := h.head_facts hact
  refine ⟨hk ▸ h.keysNodup, ?_, ?_, ?_, ?_, ?_, ?_⟩
  · rw [ha, List.nodup_append]
    refine ⟨hnd, by simp, ?_⟩
    intro a haa b hb; simp only [List.mem_singleton] at hb; subst hb; exact fun e => hnr (e ▸ haa)
  · intro i hi
    rw [ha] at hi
    simp only [List.mem_append, List.mem_singleton] at hi
    by_cases hne' : i = id
    · subst hne'; rw [hk]; exact ⟨hidk, hst⟩
    · rcases hi with hi | hi
      · rw [hk, hs i hne']
        exact h.actKeys i (by rw [hact]; exact List.mem_cons_of_mem _ hi)
      · exact absurd hi hne'
  · intro i hi hsa
    rw [hk] at hi
    rw [ha]
    simp only [List.mem_append, List.mem_singleton]
    by_cases hne' : i = id
    · exact Or.inr hne'
    · rw [hs i hne'] at hsa
      have := h.actAll i hi hsa
      rw [hact] at this
      rcases List.mem_cons.mp this with e | hm
      · exact absurd e hne'
      · exact Or.inl hm
  · intro i hi
    rw [hk] at hi
    by_cases hne' : i = id
    · subst hne'; simp [hst, hne]
    · rw [hs i hne']; exact h.emptyIff i hi
  · intro i hi hw
    rw [hk] at hi
    by_cases hne' : i = id
    · subst hne'; rw [hst] at hw; cases hw
    · rw [hs i hne'] at hw
      have := h.waitQuota i hi hw
      simp only [St.quota, ho, hs i hne'] at this ⊢; exact this
  · intro i hi
    rw [hk] at hi
    by_cases hne' : i = id
    · subst hne'; exact hhd
    · rw [hs i hne']; exact h.headData i hi

/-- The head of the active list is removed from the writer altogether. -/
theorem Wf.dropHead {s t : St} (h : Wf s) {id : Nat} {rest : List Nat} (hact : s.active = id :: rest)
    (hk : t.keys = s.keys.filter (· ≠ id)) (ha : t.active = rest.filter (· ≠ id)) (ho : t.oiws = s.oiws)
    (hs : ∀ i, i ≠ id → t.str i = s.str i) : Wf t := by
  obtain ⟨hidk, hida, hnr, hnd, _⟩ := h.head_facts hact
  refine ⟨hk ▸ h.keysNodup.filter _, ha ▸ hnd.filter _, ?_, ?_, ?_, ?_, ?_⟩
  · intro i hi
    rw [ha] at hi
    simp only [List.mem_filter, decide_eq_true_eq] at hi
    rw [hk, hs i hi.2]
    simp only [List.mem_filter, decide_eq_true_eq]
    have := h.actKeys i (by rw [hact]; exact List.mem_cons_of_mem _ hi.1)
    exact ⟨⟨this.1, hi.2⟩, this.2⟩
  · intro i hi hsa
    rw [hk] at hi
    simp only [List.mem_filter, decide_eq_true_eq] at hi
    rw [hs i hi.2] at hsa
    have := h.actAll i hi.1 hsa
    rw [hact] at this
    rw [ha]
    simp only [List.mem_filter, decide_eq_true_eq]
    rcases List.mem_cons.mp this with e | hm
    · exact absurd e hi.2
    · exact ⟨hm, hi.2⟩
  · intro i hi
    rw [hk] at hi
    simp only [List.mem_filter, decide_eq_true_eq] at hi
    rw [hs i hi.2]; exact h.emptyIff i hi.1
  · intro i hi hw
    rw [hk] at hi
    simp only [List.mem_filter, decide_eq_true_eq] at hi
    rw [hs i hi.2] at hw
    have := h.waitQuota i hi.1 hw
    simp only [St.quota, ho, hs i hi.2] at this ⊢; exact this
  · intro i hi
    rw [hk] at hi
    simp only [List.mem_filter, decide_eq_true_eq] at hi
    rw [hs i hi.2]; exact h.headData i hi.1

/-- `updateStreamAfterWrite` on a state `t` in which the head `id` of `s`'s active list has been taken off the list (and its
stream and `sendQuota` possibly changed, everything else as in `s`). -/
theorem usaw_wf {s t : St} (h : Wf s) {id : Nat} {rest : List Nat} (hact : s.active = id :: rest)
    (hk : t.keys = s.keys) (ha : t.active = rest) (ho : t.oiws = s.oiws) (hs : ∀ i, i ≠ id → t.str i = s.str i)
    (hst : (t.str id).state = .active) (hb : Nat) (pre : List Out) :
    Wf (updateStreamAfterWrite t id hb pre).st := by
  obtain ⟨hidk, hida, hnr, hnd, hne⟩ := h.head_facts hact
  unfold updateStreamAfterWrite
  simp only
  split
  · rename_i hnil
    refine h.popHead hact hk ha ho (fun i hi => by simp [St.setStr, hi, hs i hi]) ?_ ?_ ?_ ?_
    · simp
    · simp [hnil]
    · simp
    · simp [hnil, headIsTrailers]
  · have hidk' : id ∈ t.keys := hk ▸ hidk
    refine h.dropHead hact ?_ ?_ ?_ ?_
    · simp [cleanupStream, removeStream, hidk, hk]
    · simp [cleanupStream, removeStream, hidk, hk, ha]
    · simp [cleanupStream, removeStream, hidk, hk, ho]
    · intro i hi; simp [cleanupStream, removeStream, hidk, hk, hs i hi]
  · rename_i off' hl' d' es' tl' hit
    split
    · rename_i hq
      refine h.popHead hact hk ha ho (fun i hi => by simp [St.setStr, hi, hs i hi]) ?_ ?_ ?_ ?_
      · simp
      · simp [hit]
      · intro _; simpa [St.quota] using hq
      · simp [hit, headIsTrailers]
    · refine h.rotate hact hk (by simp [ha]) ho hs hst ?_ ?_
      · simp [hit]
      · simp [hit, headIsTrailers]

/-- `writeChunk` applied to the state from which the head `id` of the active list has just been taken. -/
theorem writeChunk_wf {s : St} (h : Wf s) {id : Nat} {rest : List Nat} (hact : s.active = id :: rest)
    (hb off hl d : Nat) (es : Bool) (tl : List Item) (hSize dSize : Nat) :
    Wf (writeChunk { s with active := rest } id hb off hl d es tl hSize dSize).st := by
  obtain ⟨hidk, hida, hnr, hnd, hne⟩ := h.head_facts hact
  unfold writeChunk
  apply usaw_wf h hact
  · rfl
  · rfl
  · rfl
  · intro i hi; simp [St.setStr, hi]
  · simp [hida]

theorem processData_wf {s : St} (h : Wf s) (hb : Nat) : Wf (processData s hb).st := by
  unfold processData
  split
  · exact h
  split
  · exact h
  rename_i id rest hact
  obtain ⟨hidk, hida, hnr, hnd, hne⟩ := h.head_facts hact
  have hhd := h.headData id hidk
  simp only
  split
  · rename_i hnil; exact absurd hnil hne
  · rename_i hit; rw [hit] at hhd; exact absurd trivial hhd
  rename_i off hl d es tl hitems
  split
  · rename_i hq
    refine h.popHead hact rfl rfl rfl (fun i hi => by simp [St.setStr, hi]) ?_ ?_ ?_ ?_
    · simp
    · simp [hitems]
    · intro _; simp only [St.quota, setStr_oiws, setStr_str_same]; exact hq.1
    · simp [hitems, headIsTrailers]
  · exact writeChunk_wf h hact hb off hl d es tl _ _


theorem handleItem_wf {s : St} (h : Wf s) (o : Op) : Wf (handleItem s o).st := by
  cases o with
  | winUpdate id inc => exact incomingWindowUpdate_wf h id inc
  | outWinUpdate id inc => exact h
  | settings ss order => exact applySettings_wf h ss order
  | outSettings ss => exact h
  | register id => exact registerStream_wf h id
  | clientHeaders id hb ie => exact clientHeader_wf h id hb ie
  | serverHeaders id es hb rst code => exact serverHeader_wf h id es hb rst code
  | data id hl d es => exact preprocessData_wf h id hl d es
  | cleanup id rst code => exact cleanupStream_wf h id rst code
  | earlyAbort id rst hb => simp only [handleItem, earlyAbort]; split <;> exact h
  | incomingGoAway =>
    simp only [handleItem, incomingGoAway]
    split
    · split <;> exact h.congr rfl rfl rfl rfl
    · exact h
  | goAway hu code rd re =>
    simp only [handleItem, goAway]
    split
    · exact h
    · exact h.congr rfl rfl rfl rfl
  | ping ack data => exact h
  | closeConn => exact h
  | outFlowReq => exact h
  | unknown => exact h
  | tick hb => exact processData_wf h hb

theorem handle_wf {s : St} (h : Wf s) (o : Op) : Wf (handle s o).st := by
  unfold handle
  split
  · exact h
  · exact handleItem_wf h o

theorem step_wf {s : St} (h : Wf s) (o : Op) : Wf (step s o).st := by
  unfold step
  split
  · exact h
  · simp only
    split
    · exact (handle_wf h o).congr rfl rfl rfl rfl
    · exact handle_wf h o

theorem runFrom_wf {s : St} (h : Wf s) (ops : List Op) : Wf (runFrom s ops).1 := by
  induction ops generalizing s with
  | nil => exact h
  | cons o os ih => exact ih (step_wf h o)

/-- Every reachable state of the writer is well-formed. -/
theorem wf_reachable (side : Side) (ops : List Op) : Wf (final side ops) := runFrom_wf (wf_init side) ops

end GrpcProofs.Loopy
