/-
Helper lemmas for C27 (model: GrpcModel/Model/Compression.lean).
-/
import GrpcModel.Model.Compression
namespace GrpcProofs.Lemmas.Compression
open GrpcModel.Compression GrpcModel.Generated

theorem cNone : compressionNone = 0 := rfl
theorem cMade : compressionMade = 1 := rfl

/-! ### sending -/

theorem prepareMsg_flag (k : Codec) (cp comp : Option String) (d : Bytes) :
    (prepareMsg k cp comp d).flag = if (comp.isSome || cp.isSome) && d != [] then 1 else 0 := by
  cases comp <;> cases cp <;> cases d <;> simp [prepareMsg, cNone, cMade]

theorem prepareMsg_flag_le (k : Codec) (cp comp : Option String) (d : Bytes) :
    (prepareMsg k cp comp d).flag = 0 ∨ (prepareMsg k cp comp d).flag = 1 := by
  rw [prepareMsg_flag]; split <;> simp

/-- the name of the compressor prepareMsg uses: the registered one has priority -/
def usedComp (cp comp : Option String) : Option String := match comp with | some n => some n | none => cp

theorem prepareMsg_data (k : Codec) (cp comp : Option String) (d : Bytes) :
    (prepareMsg k cp comp d).data =
      match usedComp cp comp with
      | some n => if d = [] then d else k.comp n d
      | none => d := by
  cases comp <;> cases cp <;> cases d <;> simp [prepareMsg, usedComp]

/-! ### receiving -/

theorem recvMsg_flag0 (k : Codec) (rc : String) (dc comp : Option String) (srv : Bool) (w : Bytes) :
    recvMsg k rc dc comp srv ⟨0, w⟩ = .ok w := by
  simp [recvMsg, checkRecvPayload, cNone, cMade]

theorem recvMsg_ok (k : Codec) (rc : String) (dc comp : Option String) (srv : Bool) (f : Frame) (m : Bytes)
    (h : recvMsg k rc dc comp srv f = .ok m) :
    (f.flag = 0 ∧ m = f.data) ∨
    (f.flag = 1 ∧ nonIdentity rc = true ∧
      ∃ n, (dc = some n ∨ (dc = none ∧ comp = some n)) ∧ k.decomp n f.data = some m) := by
  obtain ⟨fl, w⟩ := f
  unfold recvMsg checkRecvPayload at h
  simp only [cNone, cMade] at h
  by_cases h0 : fl = 0
  · subst h0; simp at h; exact Or.inl ⟨rfl, h.symm⟩
  · by_cases h1 : fl = 1
    · subst h1
      right
      simp only [Nat.one_ne_zero, if_false, if_true] at h
      by_cases hrc : rc = "" ∨ rc = identity
      · simp [hrc] at h
      · simp only [hrc, if_false] at h
        have hni : nonIdentity rc = true := by
          simp only [not_or] at hrc
          simp [nonIdentity, hrc.1, hrc.2]
        refine ⟨rfl, hni, ?_⟩
        cases dc with
        | some n =>
          simp [decompress] at h
          cases hd : k.decomp n w with
          | none => simp [hd] at h
          | some d => simp [hd] at h; exact ⟨n, Or.inl rfl, by rw [hd, h]⟩
        | none =>
          cases comp with
          | none => cases srv <;> simp at h
          | some n =>
            simp [decompress] at h
            cases hd : k.decomp n w with
            | none => simp [hd] at h
            | some d => simp [hd] at h; exact ⟨n, Or.inr ⟨rfl, rfl⟩, by rw [hd, h]⟩
    · simp [h0, h1] at h

theorem recvMsg_flagged_identity (k : Codec) (rc : String) (dc comp : Option String) (srv : Bool) (w : Bytes)
    (h : rc = "" ∨ rc = identity) : recvMsg k rc dc comp srv ⟨1, w⟩ = .error .internal := by
  simp [recvMsg, checkRecvPayload, cNone, cMade, h]

theorem recvMsg_bad_flag (k : Codec) (rc : String) (dc comp : Option String) (srv : Bool) (fl : Nat) (w : Bytes)
    (h : 2 ≤ fl) : recvMsg k rc dc comp srv ⟨fl, w⟩ = .error .internal := by
  have h0 : fl ≠ 0 := by omega
  have h1 : fl ≠ 1 := by omega
  simp [recvMsg, checkRecvPayload, cNone, cMade, h0, h1]

/-- flag 1, a real encoding name, but no decompressor at all -/
theorem recvMsg_no_decompressor (k : Codec) (rc : String) (srv : Bool) (w : Bytes) (h : nonIdentity rc = true) :
    recvMsg k rc none none srv ⟨1, w⟩ = .error (if srv then .unimplemented else .internal) := by
  have : ¬ (rc = "" ∨ rc = identity) := by
    simp [nonIdentity] at h; simp [h.1, h.2]
  cases srv <;> simp [recvMsg, checkRecvPayload, cNone, cMade, this]


/-- the four ways a client stream can be opened -/
inductive ClientChoice (reg : List String) (c : Client) (cs : ClientStream) : Prop
  | registered (n : String) (hn : nonIdentity n = true) (hu : c.use = some n) (hr : reg.contains n = true)
      (he : cs.hdr.enc = some n) (hcp : cs.cp = none) (hcomp : cs.comp = some n)
  | identity (hu : c.use = some identity) (he : cs.hdr.enc = some identity) (hcp : cs.cp = none) (hcomp : cs.comp = none)
  | legacy (t : String) (hu : c.use = none ∨ c.use = some "") (hl : c.legacyComp = some t)
      (he : cs.hdr.enc = if t ≠ "" then some t else none) (hcp : cs.cp = some t) (hcomp : cs.comp = none)
  | plain (hu : c.use = none ∨ c.use = some "") (hl : c.legacyComp = none)
      (he : cs.hdr.enc = none) (hcp : cs.cp = none) (hcomp : cs.comp = none)

theorem clientOpen_cases (reg : List String) (c : Client) (cs : ClientStream) (h : clientOpen reg c = .ok cs) :
    ClientChoice reg c cs := by
  unfold clientOpen at h
  split at h
  · cases h
  · rename_i accepted _
    simp only [] at h
    cases hu : c.use with
    | none =>
      simp only [hu] at h
      cases hl : c.legacyComp with
      | none =>
        simp [hl] at h
        subst h
        exact .plain (Or.inl hu) hl rfl rfl rfl
      | some t =>
        simp [hl] at h
        subst h
        exact .legacy t (Or.inl hu) hl (by by_cases ht : t = "" <;> simp [ht]) rfl rfl
    | some ct =>
      simp only [hu] at h
      by_cases h0 : ct = ""
      · subst h0
        cases hl : c.legacyComp with
        | none =>
          simp [hl] at h
          subst h
          exact .plain (Or.inr hu) hl rfl rfl rfl
        | some t =>
          simp [hl] at h
          subst h
          exact .legacy t (Or.inr hu) hl (by by_cases ht : t = "" <;> simp [ht]) rfl rfl
      · by_cases h1 : ct = identity
        · subst h1
          simp [identity] at h
          subst h
          exact .identity hu rfl rfl rfl
        · by_cases h2 : ct ∈ reg
          · simp [h0, h1, h2] at h
            subst h
            exact .registered ct (by simp [nonIdentity, h0, h1]) hu (by simpa using h2) (by simp) rfl rfl
          · simp [h0, h1, h2] at h


theorem nonIdentity_iff (x : String) : nonIdentity x = true ↔ (x ≠ "" ∧ x ≠ identity) := by
  simp [nonIdentity]

theorem nonIdentity_false_iff (x : String) : nonIdentity x = false ↔ (x = "" ∨ x = identity) := by
  by_cases h1 : x = "" <;> by_cases h2 : x = identity <;> simp [nonIdentity, h1, h2]

theorem selectDecomp_ok (reg : List String) (ld : Option String) (rc : String) (d0 d1 : Option String)
    (h : selectDecomp reg ld rc = .ok (d0, d1)) :
    (∀ n, d0 = some n → n = rc) ∧ (∀ n, d1 = some n → n = rc) ∧
    (d0 = none → d1 = none → nonIdentity rc = false) ∧
    (d0 = some rc ↔ ld = some rc) := by
  unfold selectDecomp at h
  by_cases h1 : ld = some rc
  · simp [h1] at h; obtain ⟨rfl, rfl⟩ := h; simp [h1]
  · rw [if_neg h1] at h
    by_cases h2 : rc ≠ "" ∧ rc ≠ identity
    · rw [if_pos h2] at h
      by_cases h3 : rc ∈ reg
      · simp [h3] at h; obtain ⟨rfl, rfl⟩ := h; simp [h1]
      · simp [h3] at h
    · rw [if_neg h2] at h
      simp at h; obtain ⟨rfl, rfl⟩ := h
      have := (nonIdentity_false_iff rc).2 (by
        by_cases a : rc = ""
        · exact Or.inl a
        · by_cases b : rc = identity
          · exact Or.inr b
          · exact absurd ⟨a, b⟩ h2)
      simp [h1, this]

theorem selectDecomp_unsupported (reg : List String) (ld : Option String) (rc : String)
    (hn : nonIdentity rc = true) (hr : reg.contains rc = false) (hl : ld ≠ some rc) :
    selectDecomp reg ld rc = .error .unimplemented := by
  have := (nonIdentity_iff rc).1 hn
  have hr' : rc ∉ reg := by simpa using hr
  simp [selectDecomp, hl, this, hr']

theorem selectComp_cases (reg : List String) (lc : Option String) (rc : String) :
    (∃ t, lc = some t ∧ selectComp reg lc rc = (some t, none, t))
    ∨ (lc = none ∧ nonIdentity rc = true ∧ reg.contains rc = true ∧ selectComp reg lc rc = (none, some rc, rc))
    ∨ (lc = none ∧ selectComp reg lc rc = (none, none, "")) := by
  cases lc with
  | some t => exact Or.inl ⟨t, rfl, rfl⟩
  | none =>
    right
    unfold selectComp
    by_cases h2 : rc ≠ "" ∧ rc ≠ identity
    · by_cases h3 : rc ∈ reg
      · exact Or.inl ⟨rfl, (nonIdentity_iff rc).2 h2, by simpa using h3, by simp [h2, h3]⟩
      · exact Or.inr ⟨rfl, by simp [h2, h3]⟩
    · exact Or.inr ⟨rfl, by simp [h2]⟩

theorem serverOpen_eq (reg : List String) (s : Server) (h : ReqHdr) (ss : SrvStream)
    (ho : serverOpen reg s h = .ok ss) :
    ∃ d0 d1, selectDecomp reg s.legacyDecomp (h.enc.getD "") = .ok (d0, d1) ∧
      ss = { rc := h.enc.getD "", decompV0 := d0, decompV1 := d1,
             compV0 := (selectComp reg s.legacyComp (h.enc.getD "")).1,
             compV1 := (selectComp reg s.legacyComp (h.enc.getD "")).2.1,
             sendName := (selectComp reg s.legacyComp (h.enc.getD "")).2.2,
             sendCompress := (selectComp reg s.legacyComp (h.enc.getD "")).2.2,
             advertised := h.acc.getD "", headerSent := false } := by
  unfold serverOpen at ho
  simp only [] at ho
  split at ho
  · cases ho
  · rename_i d0 d1 hsel
    simp only [Except.ok.injEq] at ho
    exact ⟨d0, d1, hsel, ho.symm⟩


/-- the registered compressor SendMsg will use (after re-resolving a changed name) -/
def effV1 (reg : List String) (ss : SrvStream) : Option String :=
  if ss.sendCompress ≠ ss.sendName then (if reg.contains ss.sendCompress then some ss.sendCompress else none)
  else ss.compV1

/-- the legacy compressor SendMsg will use: dropped when the handler changed the name -/
def effV0 (ss : SrvStream) : Option String :=
  if ss.sendCompress ≠ ss.sendName then none else ss.compV0

theorem send_frame (k : Codec) (reg : List String) (ss : SrvStream) (d : Bytes) :
    (ss.send k reg d).2 = prepareMsg k (effV0 ss) (effV1 reg ss) d := by
  unfold SrvStream.send effV0 effV1
  by_cases h : ss.sendCompress ≠ ss.sendName <;> simp [h]

theorem send_state (k : Codec) (reg : List String) (ss : SrvStream) (d : Bytes) :
    effV0 (ss.send k reg d).1 = effV0 ss ∧ (ss.send k reg d).1.sendCompress = ss.sendCompress ∧
    effV1 reg (ss.send k reg d).1 = effV1 reg ss := by
  unfold SrvStream.send effV0 effV1
  by_cases h : ss.sendCompress ≠ ss.sendName <;> simp [h]

theorem sendAll_frames (k : Codec) (reg : List String) (ss : SrvStream) (ds : List Bytes) :
    (sendAll k reg ss ds).2 = ds.map (prepareMsg k (effV0 ss) (effV1 reg ss)) := by
  induction ds generalizing ss with
  | nil => rfl
  | cons d t ih =>
    simp only [sendAll, List.map_cons]
    obtain ⟨h0, _, h2⟩ := send_state k reg ss d
    rw [ih, h0, h2, send_frame]

def applySetSend (reg : List String) (ss : SrvStream) : Option String → SrvStream
  | some n => (ss.setSend reg n).1
  | none => ss

theorem setSend_cases (reg : List String) (ss : SrvStream) (n : String) (hs : ss.headerSent = false) :
    ((ss.setSend reg n).1 = { ss with sendCompress := n } ∧
        (n = identity ∨ (n ∈ reg ∧ n ∈ advertisedList ss.advertised)))
    ∨ (ss.setSend reg n).1 = ss := by
  unfold SrvStream.setSend
  by_cases h1 : n = identity
  · left; simp [h1, hs]
  · by_cases h2 : n ∈ reg
    · by_cases h3 : n ∈ advertisedList ss.advertised
      · left; simp [h1, h2, h3, hs]
      · right; simp [h1, h2, h3]
    · right; simp [h1, h2]



/-- "the compressor that will be used is the one named `nm`, and there is one iff `nm` is a real encoding" -/
def Consistent (c0 c1 : Option String) (nm : String) : Prop :=
  (usedComp c0 c1).isSome = nonIdentity nm ∧ ∀ n, usedComp c0 c1 = some n → n = nm

theorem setSend_consistent (reg : List String) (ss : SrvStream) (o : Option String)
    (hs : ss.headerSent = false) (hsame : ss.sendCompress = ss.sendName)
    (hI : Consistent ss.compV0 ss.compV1 ss.sendName)
    (hreg : identity ∉ reg ∧ "" ∉ reg) :
    Consistent (effV0 (applySetSend reg ss o)) (effV1 reg (applySetSend reg ss o)) (applySetSend reg ss o).sendCompress := by
  have keep : Consistent (effV0 ss) (effV1 reg ss) ss.sendCompress := by
    have h1 : effV1 reg ss = ss.compV1 := by simp [effV1, hsame]
    have h0 : effV0 ss = ss.compV0 := by simp [effV0, hsame]
    rw [h1, h0, hsame]; exact hI
  cases o with
  | none => exact keep
  | some n =>
    simp only [applySetSend]
    rcases setSend_cases reg ss n hs with ⟨he, hn⟩ | he
    · rw [he]
      by_cases hnm : n = ss.sendName
      · have h1 : effV1 reg { ss with sendCompress := n } = ss.compV1 := by simp [effV1, hnm]
        have h0 : effV0 { ss with sendCompress := n } = ss.compV0 := by simp [effV0, hnm]
        rw [h1, h0]; simp only; rw [hnm]; exact hI
      · have heff : effV1 reg { ss with sendCompress := n } = if n ∈ reg then some n else none := by
          simp [effV1, hnm]
        have heff0 : effV0 { ss with sendCompress := n } = none := by simp [effV0, hnm]
        rw [heff, heff0]
        simp only
        rcases hn with hn | ⟨hn1, _⟩
        · subst hn
          rw [if_neg hreg.1]
          constructor
          · decide
          · intro n hn; simp [usedComp] at hn
        · rw [if_pos hn1]
          have hni : nonIdentity n = true := by
            rw [nonIdentity_iff]
            exact ⟨fun e => hreg.2 (e ▸ hn1), fun e => hreg.1 (e ▸ hn1)⟩
          constructor
          · simp [usedComp, hni]
          · intro m hm; simp [usedComp] at hm; exact hm.symm
    · rw [he]; exact keep

theorem serverOpen_consistent (reg : List String) (s : Server) (h : ReqHdr) (ss : SrvStream)
    (ho : serverOpen reg s h = .ok ss)
    (hleg : ∀ t, s.legacyComp = some t → nonIdentity t = true) :
    ss.headerSent = false ∧ ss.sendCompress = ss.sendName ∧ ss.compV0 = s.legacyComp ∧
    Consistent ss.compV0 ss.compV1 ss.sendName := by
  obtain ⟨d0, d1, _, hss⟩ := serverOpen_eq reg s h ss ho
  rcases selectComp_cases reg s.legacyComp (h.enc.getD "") with ⟨t, hl, hsel⟩ | ⟨hl, hni, hr, hsel⟩ | ⟨hl, hsel⟩
  · rw [hsel] at hss; subst hss
    refine ⟨rfl, rfl, hl.symm, ?_, ?_⟩
    · simp [usedComp, hleg t hl]
    · intro n hn; simp [usedComp] at hn; exact hn.symm
  · rw [hsel] at hss; subst hss
    refine ⟨rfl, rfl, hl.symm, ?_, ?_⟩
    · simp [usedComp, hni]
    · intro n hn; simp [usedComp] at hn; exact hn.symm
  · rw [hsel] at hss; subst hss
    refine ⟨rfl, rfl, hl.symm, ?_, ?_⟩
    · simp [usedComp]; decide
    · intro n hn; simp [usedComp] at hn


theorem respEnc_eq (ss : SrvStream) (n : String) (h : ss.respEnc = some n) : ss.sendCompress = n ∧ n ≠ "" := by
  unfold SrvStream.respEnc at h
  by_cases h0 : ss.sendCompress ≠ ""
  · simp [h0] at h; exact ⟨h, h ▸ h0⟩
  · simp [h0] at h

theorem getD_eq_some {o : Option String} {n : String} (h : o.getD "" = n) (hn : n ≠ "") : o = some n := by
  cases o with
  | none => simp at h; exact absurd h hn
  | some x => simp at h; rw [h]

theorem server_advertised_or_used (reg : List String) (s : Server) (h : ReqHdr) (ss : SrvStream) (o : Option String)
    (ho : serverOpen reg s h = .ok ss) (hl : s.legacyComp = none) (n : String)
    (he : (applySetSend reg ss o).respEnc = some n) (hn : nonIdentity n = true) :
    n ∈ advertisedList (h.acc.getD "") ∨ h.enc = some n := by
  obtain ⟨d0, d1, _, hss⟩ := serverOpen_eq reg s h ss ho
  have hhs : ss.headerSent = false := by rw [hss]
  have hadv : ss.advertised = h.acc.getD "" := by rw [hss]
  obtain ⟨hsc, hne⟩ := respEnc_eq _ _ he
  have base : ss.sendCompress = n → h.enc = some n := by
    intro hb
    rcases selectComp_cases reg s.legacyComp (h.enc.getD "") with ⟨t, hl', _⟩ | ⟨_, _, _, hsel⟩ | ⟨_, hsel⟩
    · rw [hl] at hl'; cases hl'
    · rw [hsel] at hss; rw [hss] at hb; simp only at hb; exact getD_eq_some hb hne
    · rw [hsel] at hss; rw [hss] at hb; simp only at hb; exact absurd hb.symm hne
  cases o with
  | none => exact Or.inr (base hsc)
  | some m =>
    simp only [applySetSend] at hsc
    rcases setSend_cases reg ss m hhs with ⟨hes, hm⟩ | hes
    · rw [hes] at hsc
      simp only at hsc
      subst hsc
      rcases hm with hm | ⟨_, hm2⟩
      · subst hm; exact absurd hn (by decide)
      · rw [hadv] at hm2; exact Or.inl hm2
    · rw [hes] at hsc; exact Or.inr (base hsc)

/-! ### client receive -/

theorem clientRecvInit_ok (reg : List String) (c : Client) (accepted : List String) (e : Option String) (r : CliRecv)
    (h : clientRecvInit reg c accepted e = .ok r) :
    r.ct = e.getD "" ∧ (∀ n, r.dcV0 = some n → n = r.ct) ∧ (∀ n, r.dcV1 = some n → n = r.ct) ∧
    (nonIdentity r.ct = true → (r.dcV0.isSome || r.dcV1.isSome) = (decide (r.ct ∈ reg) || decide (c.legacyDecomp = some r.ct))) := by
  unfold clientRecvInit at h
  simp only [] at h
  by_cases h1 : e.getD "" ≠ "" ∧ e.getD "" ≠ identity
  · rw [if_pos h1] at h
    by_cases h2 : c.legacyDecomp = some (e.getD "")
    · simp only [h2, if_true] at h
      split at h
      · cases h
      · simp only [Except.ok.injEq] at h; subst h; simp [h2]
    · simp only [h2, if_false] at h
      split at h
      · cases h
      · simp only [Except.ok.injEq] at h; subst h
        by_cases h3 : e.getD "" ∈ reg <;> simp [h2, h3]
  · rw [if_neg h1] at h
    simp only [Except.ok.injEq] at h; subst h
    refine ⟨rfl, by simp, by simp, ?_⟩
    intro hn; exact absurd ((nonIdentity_iff _).1 hn) h1

theorem recvMsg_roundtrip (k : Codec) (hk : ∀ n d, k.decomp n (k.comp n d) = some d)
    (rc : String) (d0 d1 : Option String) (srv : Bool) (d : Bytes)
    (hd0 : ∀ n, d0 = some n → n = rc) (hd1 : ∀ n, d1 = some n → n = rc)
    (hsome : (d1.isSome || d0.isSome) = true) (hni : nonIdentity rc = true) :
    recvMsg k rc d0 d1 srv ⟨1, k.comp rc d⟩ = .ok d := by
  have hrc : ¬ (rc = "" ∨ rc = identity) := by
    have := (nonIdentity_iff rc).1 hni; simp [this.1, this.2]
  unfold recvMsg checkRecvPayload
  simp only [cNone, cMade, Nat.one_ne_zero, if_false, if_true, hrc, hsome, Bool.not_true, Bool.false_eq_true]
  cases d0 with
  | some n => have := hd0 n rfl; subst this; simp [decompress, hk]
  | none =>
    cases d1 with
    | some n => have := hd1 n rfl; subst this; simp [decompress, hk]
    | none => simp at hsome


theorem stripPrefix_append (p x : Bytes) : stripPrefix p (p ++ x) = some x := by
  induction p with
  | nil => rfl
  | cons a t ih => simp [stripPrefix, ih]

theorem xor_invol (l : Bytes) : (l.map (· ^^^ 0x5a)).map (· ^^^ 0x5a) = l := by
  induction l with
  | nil => rfl
  | cons a t ih =>
    simp only [List.map_cons, ih]
    congr 1
    rw [UInt8.xor_assoc]; simp

theorem toy_roundtrip (n : String) (d : Bytes) : toy.decomp n (toy.comp n d) = some d := by
  simp only [toy, stripPrefix_append, Option.map_some, xor_invol]

/-! ### structure of the exchange functions -/

theorem recvAll_flag0 (recv : Frame → Except Code Bytes) (pre : List Frame)
    (h0 : ∀ f ∈ pre, recv f = .ok f.data) (rest : List Frame) :
    recvAll recv (pre ++ rest) = ((pre.map (·.data)) ++ (recvAll recv rest).1, (recvAll recv rest).2) := by
  induction pre with
  | nil => simp
  | cons f t ih =>
    have hf := h0 f (by simp)
    have := ih (fun g hg => h0 g (List.mem_cons_of_mem _ hg))
    simp [recvAll, hf, this]

theorem serverSide_rejected (k : Codec) (reg : List String) (s : Server) (o : Option String) (h : ReqHdr)
    (frames : List Frame) (resps : List Bytes) (c : Code) (ho : serverOpen reg s h = .error c) :
    serverSide k reg s o h frames resps = ⟨.norun, [], none, none, [], c⟩ := by
  simp [serverSide, ho]

theorem serverSide_ok (k : Codec) (reg : List String) (s : Server) (o : Option String) (h : ReqHdr)
    (frames : List Frame) (resps : List Bytes) (ss : SrvStream) (got : List Bytes)
    (ho : serverOpen reg s h = .ok ss) (hr : recvAll (ss.recv k) frames = (got, none)) :
    (serverSide k reg s o h frames resps).result = .ok ∧
    (serverSide k reg s o h frames resps).got = got ∧
    (serverSide k reg s o h frames resps).resps = (sendAll k reg (applySetSend reg ss o) resps).2 ∧
    (serverSide k reg s o h frames resps).respHdr =
      (if resps.isEmpty then none else some (applySetSend reg ss o).respEnc) := by
  cases o <;> simp [serverSide, ho, hr, applySetSend]

theorem serverSide_recv_error (k : Codec) (reg : List String) (s : Server) (o : Option String) (h : ReqHdr)
    (frames : List Frame) (resps : List Bytes) (ss : SrvStream) (got : List Bytes) (c : Code)
    (ho : serverOpen reg s h = .ok ss) (hr : recvAll (ss.recv k) frames = (got, some c)) :
    serverSide k reg s o h frames resps = ⟨.err c, got, none, none, [], c⟩ := by
  simp [serverSide, ho, hr]

/-- names of the decompressors of an opened server stream are the request's grpc-encoding -/
theorem serverOpen_decomp (reg : List String) (s : Server) (h : ReqHdr) (ss : SrvStream)
    (ho : serverOpen reg s h = .ok ss) :
    ss.rc = h.enc.getD "" ∧ (∀ n, ss.decompV0 = some n → n = ss.rc) ∧ (∀ n, ss.decompV1 = some n → n = ss.rc) ∧
    (nonIdentity ss.rc = true → (ss.decompV1.isSome || ss.decompV0.isSome) = true) := by
  obtain ⟨d0, d1, hsel, hss⟩ := serverOpen_eq reg s h ss ho
  obtain ⟨a, b, c, _⟩ := selectDecomp_ok _ _ _ _ _ hsel
  subst hss
  refine ⟨rfl, a, b, ?_⟩
  intro hn
  simp only
  cases d0 with
  | some x => simp
  | none =>
    cases d1 with
    | some y => simp
    | none => rw [c rfl rfl] at hn; cases hn

end GrpcProofs.Lemmas.Compression
