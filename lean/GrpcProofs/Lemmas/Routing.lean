import GrpcModel.Model.Routing
/-! Helper lemmas for C46 (xDS routing). -/
namespace GrpcProofs.Lemmas.Routing
open GrpcModel.Matchers GrpcModel.Routing

/-! ### counting draws -/

theorem countP_le (n f : Nat) : (List.range n).countP (fun t => decide (t ≤ f)) = min (f + 1) n := by
  induction n with
  | zero => simp
  | succ n ih =>
    rw [List.range_succ, List.countP_append, ih]
    by_cases h : n ≤ f <;> simp [h] <;> omega

theorem countP_lt (n f : Nat) : (List.range n).countP (fun t => decide (t < f)) = min f n := by
  induction n with
  | zero => simp
  | succ n ih =>
    rw [List.range_succ, List.countP_append, ih]
    by_cases h : n < f <;> simp [h] <;> omega

/-- the number of draws in `[0, n)` that fall in `[a, b)`. -/
theorem countP_interval (n a b : Nat) (hb : b ≤ n) :
    (List.range n).countP (fun r => decide (a ≤ r ∧ r < b)) = b - a := by
  induction n generalizing b with
  | zero => simp; omega
  | succ n ih =>
    rw [List.range_succ, List.countP_append]
    by_cases h : b ≤ n
    · rw [ih b h]
      have : ¬ (a ≤ n ∧ n < b) := by omega
      simp [this]
    · have hbn : b = n + 1 := by omega
      subst hbn
      have h1 : (List.range n).countP (fun r => decide (a ≤ r ∧ r < n + 1)) =
          (List.range n).countP (fun r => decide (a ≤ r ∧ r < n)) := by
        apply List.countP_congr
        intro r hr
        have := List.mem_range.mp hr
        simp only [decide_eq_true_eq]; omega
      rw [h1, ih n (Nat.le_refl n)]
      by_cases ha : a ≤ n <;> simp [ha] <;> omega

theorem countP_eq_index (n i : Nat) (hi : i < n) :
    (List.range n).countP (fun r => decide (r = i)) = 1 := by
  have h := countP_interval n i (i + 1) (by omega)
  have : (List.range n).countP (fun r => decide (r = i)) =
      (List.range n).countP (fun r => decide (i ≤ r ∧ r < i + 1)) := by
    apply List.countP_congr
    intro r _; simp only [decide_eq_true_eq]; omega
  rw [this, h]; omega

/-! ### randomWRR -/

theorem accWeights_length (s : Nat) (ws : List Nat) : (accWeights s ws).length = ws.length := by
  induction ws generalizing s with
  | nil => rfl
  | cons w ws ih => simp [accWeights, ih]

/-- for a draw `r ≥ s`, the search over the accumulated weights (starting at `s`) lands on index `i` exactly
    when `r` lies in the i-th weight interval. -/
theorem count_search (ws : List Nat) : ∀ (s i n : Nat), i < ws.length → s + ws.sum ≤ n →
    (List.range n).countP (fun r => decide (s ≤ r ∧ searchAcc r (accWeights s ws) = i)) = ws[i]! := by
  induction ws with
  | nil => intro s i n hi; simp at hi
  | cons w ws ih =>
    intro s i n hi hn
    simp only [List.sum_cons] at hn
    cases i with
    | zero =>
      have : (List.range n).countP (fun r => decide (s ≤ r ∧ searchAcc r (accWeights s (w :: ws)) = 0)) =
          (List.range n).countP (fun r => decide (s ≤ r ∧ r < s + w)) := by
        apply List.countP_congr
        intro r _
        simp only [accWeights, searchAcc, decide_eq_true_eq]
        by_cases h : s + w > r <;> simp [h] <;> omega
      rw [this, countP_interval n s (s + w) (by omega)]
      simp
    | succ j =>
      have hj : j < ws.length := by simpa using hi
      have : (List.range n).countP (fun r => decide (s ≤ r ∧ searchAcc r (accWeights s (w :: ws)) = j + 1)) =
          (List.range n).countP (fun r => decide (s + w ≤ r ∧ searchAcc r (accWeights (s + w) ws) = j)) := by
        apply List.countP_congr
        intro r _
        simp only [accWeights, searchAcc, decide_eq_true_eq]
        by_cases h : s + w > r <;> simp [h] <;> omega
      rw [this, ih (s + w) j n hj (by omega)]
      simp

theorem sum_of_equal (w : Nat) : ∀ ws : List Nat, ws.all (· == w) = true → ws.sum = ws.length * w
  | [], _ => by simp
  | x :: xs, h => by
    simp only [List.all_cons, Bool.and_eq_true, beq_iff_eq] at h
    have ih := sum_of_equal w xs h.2
    simp only [List.sum_cons, List.length_cons, ih, h.1]
    rw [Nat.add_mul]; omega

theorem getElem_of_equal (w : Nat) : ∀ (ws : List Nat) (i : Nat), ws.all (· == w) = true → i < ws.length → ws[i]! = w
  | [], i, _, hi => by simp at hi
  | x :: xs, 0, h, _ => by
    simp only [List.all_cons, Bool.and_eq_true, beq_iff_eq] at h
    simp [h.1]
  | x :: xs, i + 1, h, hi => by
    simp only [List.all_cons, Bool.and_eq_true] at h
    have := getElem_of_equal w xs i h.2 (by simpa using hi)
    simpa using this

/-! ### virtual host selection -/

theorem rank_eq (t : DomainMatchType) : t.rank = Spec.rank t := by
  cases t <;> decide

theorem rank_inj {a b : DomainMatchType} (h : Spec.rank a = Spec.rank b) : a = b := by
  cases a <;> cases b <;> simp [Spec.rank] at h <;> rfl

theorem rank_pos {t : DomainMatchType} (h : t ≠ .invalid) : 1 ≤ Spec.rank t := by
  cases t <;> simp [Spec.rank] at * 

/-- the loop state summarises the pairs processed so far: the first pair among the matching ones that no matching
    pair beats. -/
def Inv (host : Str) (done : List (Nat × Str)) (st : Best) : Prop :=
  match st.vh with
  | none => st.typ = .invalid ∧ st.len = 0 ∧ ∀ q ∈ done, domainMatches q.2 host = false
  | some i => ∃ pre p post, done = pre ++ p :: post ∧ p.1 = i ∧ st.typ = matchTypeForDomain p.2 ∧
      st.len = p.2.length ∧ domainMatches p.2 host = true ∧
      (∀ q ∈ pre, domainMatches q.2 host = true → Spec.better p.2 q.2 = true) ∧
      (∀ q ∈ post, domainMatches q.2 host = true → Spec.better q.2 p.2 = false)

theorem matches_valid {d host : Str} (h : domainMatches d host = true) : matchTypeForDomain d ≠ .invalid := by
  intro hi; simp [domainMatches, hi] at h

theorem better_def (q p : Str) : Spec.better q p = true ↔
    Spec.rank (matchTypeForDomain q) > Spec.rank (matchTypeForDomain p) ∨
    (Spec.rank (matchTypeForDomain q) = Spec.rank (matchTypeForDomain p) ∧ q.length > p.length) := by
  simp [Spec.better]

theorem better_false (q p : Str) : Spec.better q p = false ↔
    ¬ (Spec.rank (matchTypeForDomain q) > Spec.rank (matchTypeForDomain p) ∨
    (Spec.rank (matchTypeForDomain q) = Spec.rank (matchTypeForDomain p) ∧ q.length > p.length)) := by
  rw [← better_def]; simp

theorem stepDomain_none (host : Str) (st : Best) (vh : Nat) (d : Str) :
    stepDomain host st vh d = none ↔ matchTypeForDomain d = .invalid := by
  unfold stepDomain
  by_cases h : matchTypeForDomain d = .invalid
  · simp [h]
  · simp only [h, if_false, iff_false]
    split <;> simp

theorem stepDomain_inv (host : Str) (done : List (Nat × Str)) (st st' : Best) (vh : Nat) (d : Str)
    (hinv : Inv host done st) (hs : stepDomain host st vh d = some st') : Inv host (done ++ [(vh, d)]) st' := by
  have hvalid : matchTypeForDomain d ≠ .invalid := by
    intro h; rw [(stepDomain_none host st vh d).mpr h] at hs; cases hs
  unfold stepDomain at hs
  simp only [hvalid, if_false] at hs
  by_cases hm : domainMatches d host = true
  · -- the new domain matches
    cases hvh : st.vh with
    | none =>
      simp only [Inv, hvh] at hinv
      obtain ⟨ht, hl, hnone⟩ := hinv
      have hr := rank_pos hvalid
      have hc : (st.typ.betterThan (matchTypeForDomain d) || (decide (st.typ = matchTypeForDomain d) && decide (st.len ≥ d.length)) || !domainMatches d host) = false := by
        simp only [DomainMatchType.betterThan, rank_eq, ht, hm]
        have : ¬ (DomainMatchType.invalid = matchTypeForDomain d) := fun h => hvalid h.symm
        simp [Spec.rank, this]
      rw [hc] at hs
      simp only [Bool.false_eq_true, if_false, Option.some.injEq] at hs
      subst hs
      simp only [Inv]
      refine ⟨done, (vh, d), [], by simp, rfl, rfl, rfl, hm, ?_, by simp⟩
      intro q hq hqm; rw [hnone q hq] at hqm; cases hqm
    | some i =>
      simp only [Inv, hvh] at hinv
      obtain ⟨pre, p, post, hdone, hp1, htyp, hlen, hpm, hpre, hpost⟩ := hinv
      by_cases hc : (st.typ.betterThan (matchTypeForDomain d) || (decide (st.typ = matchTypeForDomain d) && decide (st.len ≥ d.length)) || !domainMatches d host) = true
      · -- kept
        rw [hc] at hs
        simp only [if_true, Option.some.injEq] at hs
        subst hs
        simp only [Inv, hvh]
        refine ⟨pre, p, post ++ [(vh, d)], by simp [hdone], hp1, htyp, hlen, hpm, hpre, ?_⟩
        intro q hq hqm
        rcases List.mem_append.mp hq with hq | hq
        · exact hpost q hq hqm
        · simp only [List.mem_singleton] at hq; subst hq
          simp only [DomainMatchType.betterThan, rank_eq, htyp, hlen, hm, Bool.not_true, Bool.or_false,
            Bool.or_eq_true, Bool.and_eq_true, decide_eq_true_eq] at hc
          show Spec.better d p.2 = false
          rw [better_false]
          rcases hc with hc | ⟨h1, h2⟩
          · omega
          · rw [h1]; omega
      · -- replaced
        have hc' := Bool.not_eq_true _ |>.mp hc
        rw [hc'] at hs
        simp only [Bool.false_eq_true, if_false, Option.some.injEq] at hs
        subst hs
        simp only [DomainMatchType.betterThan, rank_eq, htyp, hlen, hm, Bool.not_true, Bool.or_false,
          Bool.or_eq_false_iff, Bool.and_eq_false_imp, decide_eq_false_iff_not, decide_eq_true_eq] at hc'
        obtain ⟨h1, h2⟩ := hc'
        have hbetter : Spec.better d p.2 = true := by
          rw [better_def]
          by_cases hr : Spec.rank (matchTypeForDomain d) = Spec.rank (matchTypeForDomain p.2)
          · right; refine ⟨hr, ?_⟩
            have := h2 (rank_inj hr).symm; omega
          · left; omega
        simp only [Inv]
        refine ⟨done, (vh, d), [], by simp, rfl, rfl, rfl, hm, ?_, by simp⟩
        intro q hq hqm
        rw [hdone] at hq
        show Spec.better d q.2 = true
        have hb := (better_def d p.2).mp hbetter
        rcases List.mem_append.mp hq with hq | hq
        · have := (better_def p.2 q.2).mp (hpre q hq hqm)
          rw [better_def]; omega
        · rcases List.mem_cons.mp hq with hq | hq
          · subst hq; exact hbetter
          · have := (better_false q.2 p.2).mp (hpost q hq hqm)
            rw [better_def]; omega
  · -- the new domain does not match: state kept
    have hm' : domainMatches d host = false := by simpa using hm
    simp only [hm', Bool.not_false, Bool.or_true, if_true, Option.some.injEq] at hs
    subst hs
    cases hvh : st.vh with
    | none =>
      simp only [Inv, hvh] at hinv ⊢
      obtain ⟨ht, hl, hnone⟩ := hinv
      refine ⟨ht, hl, ?_⟩
      intro q hq
      rcases List.mem_append.mp hq with hq | hq
      · exact hnone q hq
      · simp only [List.mem_singleton] at hq; subst hq; exact hm'
    | some i =>
      simp only [Inv, hvh] at hinv ⊢
      obtain ⟨pre, p, post, hdone, hp1, htyp, hlen, hpm, hpre, hpost⟩ := hinv
      refine ⟨pre, p, post ++ [(vh, d)], by simp [hdone], hp1, htyp, hlen, hpm, hpre, ?_⟩
      intro q hq hqm
      rcases List.mem_append.mp hq with hq | hq
      · exact hpost q hq hqm
      · simp only [List.mem_singleton] at hq; subst hq; rw [hm'] at hqm; cases hqm

theorem loop_inv (host : Str) : ∀ (rest done : List (Nat × Str)) (st st' : Best),
    Inv host done st → loopDomains host st rest = some st' → Inv host (done ++ rest) st'
  | [], done, st, st', hinv, h => by
    simp only [loopDomains, Option.some.injEq] at h; subst h; simpa using hinv
  | (vh, d) :: rest, done, st, st', hinv, h => by
    simp only [loopDomains] at h
    cases hs : stepDomain host st vh d with
    | none => rw [hs] at h; cases h
    | some st1 =>
      rw [hs] at h
      have := loop_inv host rest (done ++ [(vh, d)]) st1 st' (stepDomain_inv host done st st1 vh d hinv hs) h
      simpa using this

theorem loop_none (host : Str) : ∀ (rest : List (Nat × Str)) (st : Best),
    loopDomains host st rest = none ↔ ∃ p ∈ rest, matchTypeForDomain p.2 = .invalid
  | [], st => by simp [loopDomains]
  | (vh, d) :: rest, st => by
    simp only [loopDomains]
    cases hs : stepDomain host st vh d with
    | none =>
      have := (stepDomain_none host st vh d).mp hs
      simp only [true_iff]
      exact ⟨(vh, d), by simp, this⟩
    | some st1 =>
      have hv : matchTypeForDomain d ≠ .invalid := by
        intro h; rw [(stepDomain_none host st vh d).mpr h] at hs; cases hs
      simp only [loop_none host rest st1, List.mem_cons]
      constructor
      · rintro ⟨p, hp, hi⟩; exact ⟨p, Or.inr hp, hi⟩
      · rintro ⟨p, hp | hp, hi⟩
        · subst hp; exact absurd hi hv
        · exact ⟨p, hp, hi⟩

/-- `p` is the first pair of `l` among the matching ones that no matching pair beats. -/
def FirstBest (host : Str) (l : List (Nat × Str)) (p : Nat × Str) : Prop :=
  ∃ pre post, l = pre ++ p :: post ∧ domainMatches p.2 host = true ∧
    (∀ q ∈ pre, domainMatches q.2 host = true → Spec.better p.2 q.2 = true) ∧
    (∀ q ∈ post, domainMatches q.2 host = true → Spec.better q.2 p.2 = false)

theorem better_asymm {a b : Str} (h : Spec.better a b = true) : Spec.better b a = false := by
  rw [better_false]; have := (better_def a b).mp h; omega

theorem better_irrefl (a : Str) : Spec.better a a = false := by
  rw [better_false]; omega

theorem firstBest_unique {host : Str} {l : List (Nat × Str)} {p p' : Nat × Str}
    (h : FirstBest host l p) (h' : FirstBest host l p') : p = p' := by
  obtain ⟨pre, post, hl, hm, hpre, hpost⟩ := h
  obtain ⟨pre', post', hl', hm', hpre', hpost'⟩ := h'
  rw [hl] at hl'
  rcases List.append_eq_append_iff.mp hl' with ⟨a, ha1, ha2⟩ | ⟨c, hc1, hc2⟩
  · cases a with
    | nil => simp at ha2; exact ha2.1
    | cons x a =>
      simp only [List.cons_append, List.cons.injEq] at ha2
      obtain ⟨rfl, ha2⟩ := ha2
      have h1 : Spec.better p'.2 p.2 = true := hpre' p (by rw [ha1]; simp) hm
      have h2 : Spec.better p'.2 p.2 = false := hpost p' (by rw [ha2]; simp) hm'
      rw [h1] at h2; cases h2
  · cases c with
    | nil => simp at hc2; exact hc2.1.symm
    | cons x c =>
      simp only [List.cons_append, List.cons.injEq] at hc2
      obtain ⟨rfl, hc2⟩ := hc2
      have h1 : Spec.better p.2 p'.2 = true := hpre p' (by rw [hc1]; simp) hm'
      have h2 : Spec.better p.2 p'.2 = false := hpost' p (by rw [hc2]; simp) hm
      rw [h1] at h2; cases h2

theorem inv_init (host : Str) : Inv host [] Best.init := by
  simp [Inv, Best.init]

theorem find_none_iff (host : Str) (vhs : List (List Str)) :
    (∃ p ∈ domainPairs vhs, matchTypeForDomain p.2 = .invalid) → findBestVHost host vhs = none := by
  intro h
  unfold findBestVHost
  rw [(loop_none host (domainPairs vhs) Best.init).mpr h]

theorem find_spec (host : Str) (vhs : List (List Str))
    (hvalid : ∀ p ∈ domainPairs vhs, matchTypeForDomain p.2 ≠ .invalid) :
    (findBestVHost host vhs = none ↔ ∀ p ∈ domainPairs vhs, domainMatches p.2 host = false) ∧
    (∀ i, findBestVHost host vhs = some i ↔ ∃ p, p.1 = i ∧ FirstBest host (domainPairs vhs) p) := by
  cases hl : loopDomains host Best.init (domainPairs vhs) with
  | none =>
    obtain ⟨p, hp, hi⟩ := (loop_none host _ _).mp hl
    exact absurd hi (hvalid p hp)
  | some st =>
    have hres : findBestVHost host vhs = st.vh := by unfold findBestVHost; rw [hl]
    rw [hres]
    have hinv := loop_inv host (domainPairs vhs) [] Best.init st (inv_init host) hl
    simp only [List.nil_append] at hinv
    cases hvh : st.vh with
    | none =>
      simp only [Inv, hvh] at hinv
      refine ⟨by simpa using hinv.2.2, ?_⟩
      intro i
      constructor
      · intro h; cases h
      · rintro ⟨p, _, pre, post, hl, hm, _⟩
        have := hinv.2.2 p (by rw [hl]; simp)
        rw [this] at hm; cases hm
    | some j =>
      simp only [Inv, hvh] at hinv
      obtain ⟨pre, p, post, hdone, hp1, _, _, hpm, hpre, hpost⟩ := hinv
      have hfb : FirstBest host (domainPairs vhs) p := ⟨pre, post, hdone, hpm, hpre, hpost⟩
      constructor
      · constructor
        · intro h; cases h
        · intro hall
          have := hall p (by rw [hdone]; simp)
          rw [this] at hpm; cases hpm
      · intro i
        simp only [Option.some.injEq]
        constructor
        · rintro rfl; exact ⟨p, hp1, hfb⟩
        · rintro ⟨p', hp', hfb'⟩
          have := firstBest_unique hfb hfb'
          subst this; rw [← hp1, hp']

/-- the executable specification (monitor) computes the same answer as the ported loop. -/
theorem find_eq_spec (host : Str) (vhs : List (List Str)) : findBestVHost host vhs = Spec.bestVHost host vhs := by
  unfold Spec.bestVHost
  by_cases hinv : ∃ p ∈ domainPairs vhs, matchTypeForDomain p.2 = .invalid
  · rw [find_none_iff host vhs hinv]
    have : (domainPairs vhs).any (fun p => matchTypeForDomain p.2 == .invalid) = true := by
      obtain ⟨p, hp, hi⟩ := hinv
      exact List.any_eq_true.mpr ⟨p, hp, by simp [hi]⟩
    simp [this]
  · have hvalid : ∀ p ∈ domainPairs vhs, matchTypeForDomain p.2 ≠ .invalid := by
      intro p hp hi; exact hinv ⟨p, hp, hi⟩
    have hany : (domainPairs vhs).any (fun p => matchTypeForDomain p.2 == .invalid) = false := by
      rw [Bool.eq_false_iff]; intro h
      obtain ⟨p, hp, hi⟩ := List.any_eq_true.mp h
      exact hvalid p hp (by simpa using hi)
    simp only [hany, Bool.false_eq_true, if_false]
    obtain ⟨hnone, hsome⟩ := find_spec host vhs hvalid
    cases hf : findBestVHost host vhs with
    | none =>
      have hall := hnone.mp hf
      have : (domainPairs vhs).filter (fun p => domainMatches p.2 host) = [] := by
        rw [List.filter_eq_nil_iff]; intro p hp; simp [hall p hp]
      simp [this]
    | some i =>
      obtain ⟨p, hp1, pre, post, hl, hm, hpre, hpost⟩ := (hsome i).mp hf
      rw [hl, List.filter_append, List.filter_cons]
      simp only [hm, if_true]
      have hmem : ∀ r, r ∈ pre.filter (fun p => domainMatches p.2 host) ++ p :: post.filter (fun p => domainMatches p.2 host) →
          (r ∈ pre ∧ domainMatches r.2 host = true) ∨ r = p ∨ (r ∈ post ∧ domainMatches r.2 host = true) := by
        intro r hr
        rcases List.mem_append.mp hr with h | h
        · exact Or.inl (by simpa using h)
        · rcases List.mem_cons.mp h with h | h
          · exact Or.inr (Or.inl h)
          · exact Or.inr (Or.inr (by simpa using h))
      rw [List.find?_append]
      have h1 : (pre.filter (fun p => domainMatches p.2 host)).find?
          (fun q => (pre.filter (fun p => domainMatches p.2 host) ++ p :: post.filter (fun p => domainMatches p.2 host)).all
            (fun r => !Spec.better r.2 q.2)) = none := by
        rw [List.find?_eq_none]
        intro q hq
        have hq' : q ∈ pre ∧ domainMatches q.2 host = true := by simpa using hq
        simp only [List.all_eq_true, Bool.not_eq_eq_eq_not, Bool.not_true]
        intro hall
        have := hall p (by simp)
        rw [hpre q hq'.1 hq'.2] at this; cases this
      rw [h1]
      simp only [Option.none_or, List.find?_cons]
      have h2 : (pre.filter (fun p => domainMatches p.2 host) ++ p :: post.filter (fun p => domainMatches p.2 host)).all
            (fun r => !Spec.better r.2 p.2) = true := by
        rw [List.all_eq_true]
        intro r hr
        rcases hmem r hr with ⟨h, hm'⟩ | rfl | ⟨h, hm'⟩
        · simp [better_asymm (hpre r h hm')]
        · simp [better_irrefl]
        · simp [hpost r h hm']
      simp [h2, hp1]

/-! ### first matching route -/

/-- give every route its own draw `τ[j]`; the code consumes, in order, the draws of the routes that reach their
    fraction matcher. -/
def drawsUsed (method : Str) (md : MD) : List Route → List Nat → List Nat
  | [], _ => []
  | _ :: _, [] => []
  | r :: rs, t :: τ => if r.needsDraw method md then t :: drawsUsed method md rs τ else drawsUsed method md rs τ

theorem matchWith_of_not_needsDraw (strict : Bool) (r : Route) (method : Str) (md : MD) (t : Nat)
    (h : r.needsDraw method md = false) : r.matchWith strict method md t = r.staticMatch method md := by
  unfold Route.needsDraw at h
  unfold Route.matchWith
  cases hs : r.staticMatch method md
  · simp
  · cases hf : r.fraction with
    | none => simp
    | some f => simp [hs, hf] at h

theorem firstMatch_eq_findIdx (strict : Bool) (method : Str) (md : MD) :
    ∀ (routes : List Route) (τ : List Nat), τ.length = routes.length →
      firstMatch strict method md routes (drawsUsed method md routes τ) =
        (List.zip routes τ).findIdx? (fun rt => rt.1.matchWith strict method md rt.2)
  | [], _, _ => by simp [firstMatch]
  | r :: rs, [], h => by simp at h
  | r :: rs, t :: τ, h => by
    have ih := firstMatch_eq_findIdx strict method md rs τ (by simpa using h)
    simp only [List.zip_cons_cons, List.findIdx?_cons, drawsUsed]
    by_cases hn : r.needsDraw method md = true
    · simp only [hn, if_true, firstMatch]
      by_cases hm : r.matchWith strict method md t = true
      · simp [hm]
      · simp only [hm, Bool.false_eq_true, if_false, ih]
    · have hn' : r.needsDraw method md = false := by simpa using hn
      have hmw := matchWith_of_not_needsDraw strict r method md t hn'
      simp only [hn', Bool.false_eq_true, if_false, firstMatch, hmw]
      by_cases hs : r.staticMatch method md = true
      · simp [hs]
      · simp only [hs, Bool.false_eq_true, if_false, ih]

/-! ### request hash -/

theorem hashLoop_congr (hashFn : Str → UInt64) (c : UInt64) (v v' : Str → List Str) :
    ∀ (ps : List HashPolicy) (h : UInt64) (g : Bool),
      (∀ n t, HashPolicy.header n t ∈ ps → hasSuffixBin n = false → v n = v' n) →
      hashLoop hashFn c v ps h g = hashLoop hashFn c v' ps h g
  | [], _, _, _ => rfl
  | .header name terminal :: rest, h, g, hv => by
    have ih := fun h g => hashLoop_congr hashFn c v v' rest h g (fun n t hm => hv n t (List.mem_cons_of_mem _ hm))
    simp only [hashLoop]
    by_cases hb : hasSuffixBin name = true
    · simp [hb, ih]
    · have hb' : hasSuffixBin name = false := by simpa using hb
      have := hv name terminal (by simp) hb'
      simp only [hb', Bool.false_eq_true, if_false, ← this]
      split
      · exact ih _ _
      · split
        · rfl
        · exact ih _ _
  | .channelID terminal :: rest, h, g, hv => by
    have ih := fun h g => hashLoop_congr hashFn c v v' rest h g (fun n t hm => hv n t (List.mem_cons_of_mem _ hm))
    simp only [hashLoop]
    split
    · rfl
    · exact ih _ _

theorem lookup_filter (g : Str → Bool) (k : Str) (hk : g k = true) :
    ∀ md : MD, lookupMD (md.filter fun (kv : Str × List Str) => g kv.1) k = lookupMD md k
  | [] => rfl
  | (a, b) :: es => by
    have ih := lookup_filter g k hk es
    unfold lookupMD at ih ⊢
    by_cases hka : k = a
    · subst hka
      simp [hk]
    · by_cases hga : g a = true
      · simp only [List.filter_cons, hga, if_true, List.lookup_cons]
        have : (k == a) = false := by simpa using hka
        simp only [this]; exact ih
      · simp only [List.filter_cons, hga, Bool.false_eq_true, if_false, List.lookup_cons]
        have : (k == a) = false := by simpa using hka
        simp only [this]; exact ih

/-- a policy that produces a hash for this RPC: channel id, or a non "-bin" header that is present. -/
def applies (v : Str → List Str) : HashPolicy → Bool
  | .channelID _ => true
  | .header n _ => !hasSuffixBin n && !(v n).isEmpty

def isTerminal : HashPolicy → Bool
  | .channelID t => t
  | .header _ t => t

theorem hashLoop_terminal_cuts (hashFn : Str → UInt64) (c : UInt64) (v : Str → List Str) (p : HashPolicy)
    (hp : applies v p = true) (ht : isTerminal p = true) (ps2 ps2' : List HashPolicy) :
    ∀ (ps1 : List HashPolicy) (h : UInt64) (g : Bool),
      hashLoop hashFn c v (ps1 ++ p :: ps2) h g = hashLoop hashFn c v (ps1 ++ p :: ps2') h g
  | [], h, g => by
    cases p with
    | channelID t =>
      simp only [isTerminal] at ht; subst ht
      simp [hashLoop]
    | header n t =>
      simp only [isTerminal] at ht; subst ht
      simp only [applies, Bool.and_eq_true, Bool.not_eq_true'] at hp
      simp [hashLoop, hp.1, hp.2]
  | q :: ps1, h, g => by
    have ih := hashLoop_terminal_cuts hashFn c v p hp ht ps2 ps2' ps1
    cases q with
    | channelID t =>
      simp only [List.cons_append, hashLoop]
      split
      · rfl
      · exact ih _ _
    | header n t =>
      simp only [List.cons_append, hashLoop]
      split
      · exact ih _ _
      · split
        · exact ih _ _
        · split
          · rfl
          · exact ih _ _

end GrpcProofs.Lemmas.Routing
