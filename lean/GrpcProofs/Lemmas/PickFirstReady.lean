/-
Helper lemmas for C34: a SubConn whose raw state is READY is alone in the map, and the channel's
picker returns a SubConn only while that SubConn's raw state is READY.
-/
import GrpcProofs.Lemmas.PickFirst
namespace GrpcProofs.Lemmas.PickFirstReady
open GrpcModel.PickFirst GrpcProofs.Lemmas.PickFirst
open GrpcModel.LbConnState (ConnState)

/-- no SubConn of the map is READY -/
def NoReady (s : St) : Prop := ∀ sc ∈ s.subConns, sc.raw ≠ .ready

/-- every SubConn of the map is for an address of the list -/
def InList (s : St) : Prop := ∀ sc ∈ s.subConns, sc.addr ∈ s.addrs

/-- the picker is not a SubConn picker and the reported state is not READY -/
def Unready (s : St) : Prop := (∀ X, s.picker ≠ .ready X) ∧ s.state ≠ .ready

/-- regime N: nothing is READY -/
structure RN (s : St) : Prop where
  inList : InList s
  noReady : NoReady s
  unready : s.state ≠ .shutdown → Unready s

/-- regime R: SubConn `x` is READY and alone; if READY was reported it is with `x` -/
structure RR (s : St) (x : SC) : Prop where
  inList : InList s
  only : s.subConns = [x]
  raw : x.raw = .ready
  timer : s.timer = false
  cur : currentAddress s = some x.addr
  notIdle : s.state ≠ .idle
  picker : s.state ≠ .shutdown → (∀ X, s.picker = .ready X → X = x.id) ∧ (s.state = .ready → s.picker = .ready x.id)

def Reg (s : St) : Prop := RN s ∨ ∃ x, RR s x

/-! ### frames for regime N -/

theorem pushState_state (s : St) (st : ConnState) (p : Picker) : (pushState s st p).1.state = st := by
  simp only [pushState, forcePush]; split
  · next h => exact h.1.symm
  · rfl

theorem pushState_picker (s : St) (st : ConnState) (p : Picker) :
    (pushState s st p).1.picker = p ∨ ((pushState s st p).1.picker = s.picker ∧ st = s.state) := by
  simp only [pushState, forcePush]; split
  · next h => exact Or.inr ⟨rfl, h.1⟩
  · exact Or.inl rfl



theorem pushState_unready (s : St) (st : ConnState) (p : Picker) (h : s.state ≠ .shutdown → Unready s)
    (h1 : st ≠ .ready) (h2 : ∀ X, p ≠ .ready X) (h3 : st ≠ .shutdown) :
    ((pushState s st p).1.state ≠ .shutdown → Unready (pushState s st p).1) ∧
    ((pushState s st p).1.state = .shutdown → s.state = .shutdown) := by
  simp only [pushState, forcePush]
  split
  · exact ⟨h, fun e => e⟩
  · exact ⟨fun _ => ⟨h2, h1⟩, fun e => absurd e h3⟩

theorem noReady_setSC (s : St) (old new : SC) (hw : WF s) (hm : old ∈ s.subConns) (ha : new.addr = old.addr)
    (hi : new.id = old.id) (hn : NoReady s) (hr : new.raw ≠ .ready) : NoReady (setSC s new) := by
  intro sc hsc
  rcases (mem_setSC_replace s old new hw hm ha hi sc).mp hsc with rfl | ⟨h, _⟩
  · exact hr
  · exact hn sc h

theorem inList_setSC (s : St) (old new : SC) (hw : WF s) (hm : old ∈ s.subConns) (ha : new.addr = old.addr)
    (hi : new.id = old.id) (hn : InList s) : InList (setSC s new) := by
  intro sc hsc
  rw [(setSC_frame s new).1]
  rcases (mem_setSC_replace s old new hw hm ha hi sc).mp hsc with rfl | ⟨h, _⟩
  · rw [ha]; exact hn old hm
  · exact hn sc h

/-- what a connection request does to the map: entries keep their raw state, new entries are IDLE and
    for addresses of the list -/
structure MapPost (s s' : St) : Prop where
  raws : ∀ sc ∈ s'.subConns, sc.raw = .ready → ∃ sc0 ∈ s.subConns, sc0.raw = .ready
  inList : InList s → InList s'
  shutdown : s'.state = .shutdown → s.state = .shutdown

theorem mapPost_refl (s : St) : MapPost s s := ⟨fun sc h r => ⟨sc, h, r⟩, fun h => h, fun h => h⟩

theorem mapPost_trans {a b c : St} (h1 : MapPost a b) (h2 : MapPost b c) : MapPost a c :=
  ⟨fun sc h r => by obtain ⟨x, hx, rx⟩ := h2.raws sc h r; exact h1.raws x hx rx,
   fun h => h2.inList (h1.inList h), fun h => h1.shutdown (h2.shutdown h)⟩

theorem mapPost_of_same (s s' : St) (e1 : s'.subConns = s.subConns) (e2 : s'.addrs = s.addrs)
    (e3 : s'.state = .shutdown → s.state = .shutdown) : MapPost s s' :=
  ⟨fun sc h r => ⟨sc, e1 ▸ h, r⟩, fun h sc hsc => by rw [e2]; exact h sc (e1 ▸ hsc), e3⟩

theorem endFirstPass_mapPost (s : St) (e : Nat) : MapPost s (endFirstPass s e).1 := by
  obtain ⟨a, _, c, _⟩ := endFirstPass_frame s e
  refine mapPost_of_same s _ a c ?_
  unfold endFirstPass
  split
  · exact fun h => h
  · split
    · exact fun h => h
    · simp only [pushState, forcePush]; split
      · exact fun h => h
      · intro h; cases h

theorem requestLoop_mapPost (fuel : Nat) (s : St) (ev : List Ev) (hw : WF s) :
    MapPost s (requestLoop fuel s ev).1 := by
  induction fuel generalizing s ev with
  | zero => exact mapPost_refl s
  | succ fuel ih =>
    simp only [requestLoop]
    cases hcur : currentAddress s with
    | none => exact mapPost_refl s
    | some cur =>
      simp only
      have hcurmem : cur ∈ s.addrs := by
        unfold currentAddress at hcur; split at hcur
        · exact List.mem_of_getElem? hcur
        · cases hcur
      obtain ⟨hw1, hmem, haddr, fa, _, _, _, fs, _, _⟩ := ensureSC_post s cur hw
      have hens : MapPost s (ensureSC s cur).1 := by
        unfold ensureSC
        cases hg : getSC s cur with
        | some sd0 => exact mapPost_refl s
        | none =>
          have hnone : ∀ y ∈ s.subConns, ¬ y.addr = cur := by
            intro y hy; have := List.find?_eq_none.mp hg y hy; simpa using this
          have hany : s.subConns.any (fun y => decide (y.addr = cur)) = false := by
            simp only [List.any_eq_false, decide_eq_true_eq]; exact hnone
          have e : (setSC { s with scSerial := s.scSerial + 1 } { id := s.scSerial + 1, addr := cur }).subConns
              = s.subConns ++ [{ id := s.scSerial + 1, addr := cur }] := by simp [setSC, hany]
          refine ⟨?_, ?_, fun h => h⟩
          · intro sc hsc hr
            rw [e] at hsc
            rcases List.mem_append.mp hsc with h | h
            · exact ⟨sc, h, hr⟩
            · simp only [List.mem_singleton] at h; rw [h] at hr; cases hr
          · intro hin sc hsc
            rw [e] at hsc
            show sc.addr ∈ s.addrs
            rcases List.mem_append.mp hsc with h | h
            · exact hin sc h
            · simp only [List.mem_singleton] at h; rw [h]; exact hcurmem
      generalize ensureSC s cur = r at hw1 hmem haddr fa fs hens ⊢
      cases hraw : r.2.1.raw with
      | idle =>
        simp only
        refine mapPost_trans hens (mapPost_of_same _ _ ?_ ?_ ?_)
        · rw [schedule_eq]; rfl
        · rw [schedule_eq]; rfl
        · rw [schedule_eq]; exact fun h => h
      | connecting =>
        simp only
        refine mapPost_trans hens (mapPost_of_same _ _ ?_ ?_ ?_)
        · rw [schedule_eq]; rfl
        · rw [schedule_eq]; rfl
        · rw [schedule_eq]; exact fun h => h
      | ready => exact hens
      | shutdown => exact hens
      | tf =>
        simp only
        have hw2 : WF (setSC r.1 r.2.1.markFailed) := wf_setSC_replace r.1 r.2.1 _ hw1 hmem rfl rfl
        obtain ⟨i1, i2, i3, _, i5, _⟩ := increment_frame (setSC r.1 r.2.1.markFailed)
        have hmark : MapPost r.1 (increment (setSC r.1 r.2.1.markFailed)).1 := by
          refine ⟨?_, ?_, ?_⟩
          · intro sc hsc hr
            rw [i1] at hsc
            rcases (mem_setSC_replace r.1 r.2.1 r.2.1.markFailed hw1 hmem rfl rfl sc).mp hsc with rfl | ⟨h, _⟩
            · exact ⟨r.2.1, hmem, hr⟩
            · exact ⟨sc, h, hr⟩
          · intro hin sc hsc
            rw [i1] at hsc
            rw [i3]
            exact inList_setSC r.1 r.2.1 r.2.1.markFailed hw1 hmem rfl rfl hin sc hsc
          · rw [i5, (setSC_frame _ _).2.2.2.2.1]; exact fun h => h
        split
        · exact mapPost_trans hens (mapPost_trans hmark (ih _ _ (wf_congr _ _ hw2 i1 i2)))
        · exact mapPost_trans hens (mapPost_trans hmark (endFirstPass_mapPost _ _))

theorem requestConnection_mapPost (s : St) (hw : WF s) : MapPost s (requestConnection s).1 := by
  unfold requestConnection
  split
  · exact mapPost_refl s
  · exact requestLoop_mapPost _ s [] hw

/-! ### regime N is kept by everything except a SubConn becoming READY -/

theorem rn_of_posts (s s' : St) (h : RN s) (hr : ReqPost s s') (hm : MapPost s s') : RN s' := by
  refine ⟨hm.inList h.inList, ?_, ?_⟩
  · intro sc hsc hrd
    obtain ⟨sc0, h0, r0⟩ := hm.raws sc hsc hrd
    exact h.noReady sc0 h0 r0
  · intro hns
    rcases hr.ps with ⟨e1, e2⟩ | ⟨e, e1, e2⟩
    · have := h.unready (by rw [← e2]; exact hns)
      exact ⟨by rw [e1]; exact this.1, by rw [e2]; exact this.2⟩
    · refine ⟨?_, ?_⟩
      · rw [e1]; intro X hX; cases hX
      · rw [e2]; decide

theorem rn_of_eq (s s' : St) (h : RN s) (e1 : s'.subConns = s.subConns) (e2 : s'.addrs = s.addrs)
    (e3 : s'.state = s.state) (e4 : s'.picker = s.picker) : RN s' :=
  ⟨fun sc hsc => by rw [e2]; exact h.inList sc (e1 ▸ hsc), fun sc hsc => h.noReady sc (e1 ▸ hsc),
   fun hns => by have := h.unready (e3 ▸ hns); exact ⟨by rw [e4]; exact this.1, by rw [e3]; exact this.2⟩⟩

theorem rn_requestConnection (s : St) (hw : WF s) (h : RN s) : RN (requestConnection s).1 :=
  rn_of_posts s _ h (requestConnection_post s hw).1 (requestConnection_mapPost s hw)

theorem rn_endFirstPass (s : St) (e : Nat) (hw : WF s) (h : RN s) : RN (endFirstPass s e).1 :=
  rn_of_posts s _ h (endFirstPass_post s e hw).1 (endFirstPass_mapPost s e)

theorem rn_pushState (s : St) (st : ConnState) (p : Picker) (h : RN s) (h1 : st ≠ .ready) (h2 : ∀ X, p ≠ .ready X)
    (h3 : st ≠ .shutdown) : RN (pushState s st p).1 := by
  obtain ⟨a, _, c, _⟩ := pushState_frame s st p
  exact ⟨fun sc hsc => by rw [c]; exact h.inList sc (a ▸ hsc), fun sc hsc => h.noReady sc (a ▸ hsc),
    (pushState_unready s st p h.unready h1 h2 h3).1⟩

theorem rn_forcePush (s : St) (st : ConnState) (p : Picker) (h : RN s) (h1 : st ≠ .ready) (h2 : ∀ X, p ≠ .ready X) :
    RN (forcePush s st p).1 :=
  ⟨fun sc hsc => h.inList sc hsc, fun sc hsc => h.noReady sc hsc, fun _ => ⟨h2, h1⟩⟩

theorem rn_setSC (s : St) (old new : SC) (hw : WF s) (hm : old ∈ s.subConns) (ha : new.addr = old.addr)
    (hi : new.id = old.id) (h : RN s) (hr : new.raw ≠ .ready) : RN (setSC s new) := by
  obtain ⟨_, _, _, f4, f5, _⟩ := setSC_frame s new
  exact ⟨inList_setSC s old new hw hm ha hi h.inList, noReady_setSC s old new hw hm ha hi h.noReady hr,
    fun hns => by have := h.unready (f5 ▸ hns); exact ⟨by rw [f4]; exact this.1, by rw [f5]; exact this.2⟩⟩

theorem rn_startFirstPass (s : St) (hw : WF s) (h : RN s) : RN (startFirstPass s).1 := by
  unfold startFirstPass
  apply rn_requestConnection
  · apply wf_of_keys s _ hw <;> simp [List.map_map, Function.comp_def]
  · refine ⟨?_, ?_, h.unready⟩
    · intro sc hsc
      simp only [List.mem_map] at hsc
      obtain ⟨x, hx, rfl⟩ := hsc
      exact h.inList x hx
    · intro sc hsc
      simp only [List.mem_map] at hsc
      obtain ⟨x, hx, rfl⟩ := hsc
      exact h.noReady x hx

theorem rn_empty (s : St) (he : s.subConns = []) (hu : s.state ≠ .shutdown → Unready s) : RN s :=
  ⟨fun sc hsc => (by rw [he] at hsc; simp at hsc), fun sc hsc => (by rw [he] at hsc; simp at hsc), hu⟩

theorem rn_resolverError (s : St) (h : RN s) : RN (resolverError s).1 := by
  unfold resolverError
  split
  · exact h
  · exact rn_pushState s _ _ h (by decide) (by intro X hX; cases hX) (by decide)

theorem rn_exitIdle (s : St) (hw : WF s) (h : RN s) : RN (exitIdle s).1 := by
  unfold exitIdle
  split
  · have h1 := rn_pushState s .connecting .queue h (by decide) (by intro X hX; cases hX) (by decide)
    obtain ⟨a, b, _⟩ := pushState_frame s .connecting .queue
    exact rn_startFirstPass _ (wf_congr s _ hw a b) h1
  · exact h

theorem rn_timerCallback (s : St) (c : Bool) (hw : WF s) (h : RN s) : RN (timerCallback s c).1 := by
  unfold timerCallback
  split
  · exact h
  · obtain ⟨i1, i2, i3, _, i5, i6, _⟩ := increment_frame s
    have h2 : RN (increment s).1 := rn_of_eq _ _ h i1 i3 i5 i6
    simp only
    split
    · exact rn_requestConnection _ (wf_congr _ _ hw i1 i2) h2
    · exact h2

theorem rn_timerFire (s : St) (hw : WF s) (h : RN s) : RN (timerFire s).1 := by
  unfold timerFire
  split
  · exact h
  · exact rn_timerCallback _ false (wf_congr s _ hw rfl rfl) (rn_of_eq s _ h rfl rfl rfl rfl)

/-- the callback of a cancelled timer does nothing -/
theorem lateFire_eq (s : St) : lateFire s = (if s.lateTimers = 0 then s else { s with lateTimers := s.lateTimers - 1 }, []) := by
  unfold lateFire timerCallback
  split <;> simp

theorem rn_close (s : St) : RN (close s).1 := by
  apply rn_empty
  · simp [close, closeSubConns, cancelTimer]
  · intro h; simp [close, closeSubConns, cancelTimer] at h

theorem resolverError_of_empty (s : St) (h : s.addrs = []) :
    (resolverError s).1.state = .tf ∧ (resolverError s).1.picker = .resErr ∧
    (resolverError s).1.subConns = s.subConns ∧ (resolverError s).1.addrs = s.addrs := by
  unfold resolverError
  have hc : ¬ (s.state ≠ .tf ∧ s.addrs.length > 0) := by rw [h]; simp
  rw [if_neg hc]
  obtain ⟨a, _, c, _⟩ := pushState_frame s .tf .resErr
  refine ⟨pushState_state _ _ _, ?_, a, c⟩
  rcases pushState_picker s .tf .resErr with e | ⟨_, e2⟩
  · exact e
  · simp only [pushState, forcePush]
    split
    · next h' => exact absurd h'.1.symm h'.2
    · rfl

theorem rn_updateEmpty (s : St) : RN (updateEmpty s).1 := by
  simp only [updateEmpty, closeSubConns]
  obtain ⟨e1, e2, e3, e4⟩ := resolverError_of_empty ({ s with subConns := [], addrs := [], idx := 0, sticky := false, passLog := [], passSerial := s.passSerial + 1 } : St) rfl
  exact rn_empty _ e3 (fun _ => ⟨fun X hX => (by rw [e2] at hX; cases hX), by rw [e1]; decide⟩)

theorem rn_updateTail (s : St) (b : Bool) (n : Nat) (hw : WF s) (h : RN s) : RN (updateTail s b n).1 := by
  simp only [updateTail]
  split
  · obtain ⟨a1, a2, _⟩ := forcePush_frame s .connecting .queue
    exact rn_startFirstPass _ (wf_congr s _ hw a1 a2) (rn_forcePush s _ _ h (by decide) (by intro X hX; cases hX))
  · split
    · exact rn_startFirstPass s hw h
    · exact h

theorem rn_reconcile (s : St) (l : List Addr) (h : s.state ≠ .shutdown → Unready s) (hn : NoReady s)
    (ha : s.addrs = l) : RN (reconcile s l).1 := by
  refine ⟨?_, ?_, h⟩
  · intro sc hsc
    simp only [reconcile, List.mem_filter] at hsc
    show sc.addr ∈ s.addrs
    rw [ha]; simpa using hsc.2
  · intro sc hsc
    simp only [reconcile, List.mem_filter] at hsc
    exact hn sc hsc.1

/-! ### SubConn state reports in regime N -/

theorem rn_scToIdle' (s : St) (sd : SC) (new : ConnState) (hw : WF s) (hm : sd ∈ s.subConns) (hin : InList s)
    (hnr : sd.raw ≠ .ready) (hu : (s.state ≠ .shutdown → Unready s) ∨ s.state ≠ .idle) :
    RN (scToIdle s sd new).1 := by
  obtain ⟨a1, a2, _, _, a5, _⟩ := shutdownRemaining_frame s sd
  have ast : (shutdownRemaining s sd).1.state = s.state := by simp [shutdownRemaining, cancelTimer]
  have apk : (shutdownRemaining s sd).1.picker = s.picker := by simp [shutdownRemaining, cancelTimer]
  have hw1 : WF (shutdownRemaining s sd).1 := wf_single _ sd a1 (by rw [a2]; exact hw.le sd hm)
  have hmem1 : sd ∈ (shutdownRemaining s sd).1.subConns := by rw [a1]; simp
  obtain ⟨e, _, _⟩ := setSC_replace (shutdownRemaining s sd).1 sd { sd with eff := new } hw1 hmem1 rfl rfl
  have hsub : (setSC (shutdownRemaining s sd).1 { sd with eff := new }).subConns = [{ sd with eff := new }] := by
    rw [e, a1]; simp
  obtain ⟨f1, _, _, f4, f5, _⟩ := setSC_frame (shutdownRemaining s sd).1 { sd with eff := new }
  simp only [scToIdle]
  generalize hs2 : ({ setSC (shutdownRemaining s sd).1 { sd with eff := new } with idx := 0, passLog := [], passSerial := (shutdownRemaining s sd).1.passSerial + 1, sticky := false } : St) = s2
  have g1 : s2.subConns = [{ sd with eff := new }] := by rw [← hs2]; exact hsub
  have g2 : s2.addrs = s.addrs := by rw [← hs2]; show (setSC (shutdownRemaining s sd).1 { sd with eff := new }).addrs = s.addrs; rw [f1, a5]
  have g3 : s2.state = s.state := by rw [← hs2]; show (setSC (shutdownRemaining s sd).1 { sd with eff := new }).state = s.state; rw [f5, ast]
  have g4 : s2.picker = s.picker := by rw [← hs2]; show (setSC (shutdownRemaining s sd).1 { sd with eff := new }).picker = s.picker; rw [f4, apk]
  obtain ⟨p1, _, p3, _⟩ := pushState_frame s2 .idle (.idle false)
  have hsub2 : (pushState s2 .idle (.idle false)).1.subConns = [{ sd with eff := new }] := by rw [p1, g1]
  have haddrs2 : (pushState s2 .idle (.idle false)).1.addrs = s.addrs := by rw [p3, g2]
  refine ⟨?_, ?_, ?_⟩
  · intro sc hsc
    rw [hsub2] at hsc; simp only [List.mem_singleton] at hsc
    rw [haddrs2]; subst hsc; exact hin sd hm
  · intro sc hsc
    rw [hsub2] at hsc; simp only [List.mem_singleton] at hsc
    subst hsc; exact hnr
  · intro hns
    refine ⟨?_, by rw [pushState_state]; decide⟩
    rcases pushState_picker s2 .idle (.idle false) with e1 | ⟨e1, e2⟩
    · rw [e1]; intro X hX; cases hX
    · rcases hu with hu | hu
      · have hs : s.state = .idle := by rw [← g3]; exact e2.symm
        have := hu (by rw [hs]; decide)
        rw [e1, g4]; exact this.1
      · exact absurd (by rw [← g3]; exact e2.symm) hu

theorem rn_scToIdle (s : St) (sd : SC) (new : ConnState) (hw : WF s) (hm : sd ∈ s.subConns) (h : RN s) :
    RN (scToIdle s sd new).1 :=
  rn_scToIdle' s sd new hw hm h.inList (h.noReady sd hm) (Or.inl h.unready)

theorem rn_scFirstPass (s : St) (sd : SC) (new : ConnState) (err : Nat) (hw : WF s) (hm : sd ∈ s.subConns)
    (h : RN s) : RN (scFirstPass s sd new err).1 := by
  have hnr := h.noReady sd hm
  cases new with
  | connecting =>
    simp only [scFirstPass]
    split
    · exact rn_pushState _ _ _ (rn_setSC s sd { sd with eff := .connecting } hw hm rfl rfl h hnr)
        (by decide) (by intro X hX; cases hX) (by decide)
    · exact h
  | tf =>
    simp only [scFirstPass]
    have hw1 := wf_setSC_replace s sd { sd with lastErr := err, eff := .tf } hw hm rfl rfl
    have hr1 := rn_setSC s sd { sd with lastErr := err, eff := .tf } hw hm rfl rfl h hnr
    split
    · have hr2 : RN (cancelTimer (setSC s { sd with lastErr := err, eff := .tf })) := rn_of_eq _ _ hr1 rfl rfl rfl rfl
      obtain ⟨i1, i2, i3, _, i5, i6, _⟩ := increment_frame (cancelTimer (setSC s { sd with lastErr := err, eff := .tf }))
      have hr3 := rn_of_eq _ _ hr2 i1 i3 i5 i6
      have hw3 : WF (increment (cancelTimer (setSC s { sd with lastErr := err, eff := .tf }))).1 :=
        wf_congr _ _ (wf_congr _ _ hw1 rfl rfl) i1 i2
      split
      · exact rn_requestConnection _ hw3 hr3
      · exact rn_endFirstPass _ err hw3 hr3
    · exact rn_endFirstPass _ err hw1 hr1
  | idle => exact h
  | ready => exact h
  | shutdown => exact h

theorem rn_scLater (s : St) (sd : SC) (new : ConnState) (err : Nat) (hw : WF s) (hm : sd ∈ s.subConns)
    (h : RN s) : RN (scLater s sd new err).1 := by
  have hnr := h.noReady sd hm
  cases new with
  | tf =>
    simp only [scLater]
    have h0 : RN { s with numTF := (s.numTF + 1) % s.subConns.length } := rn_of_eq s _ h rfl rfl rfl rfl
    have hr1 := rn_setSC { s with numTF := (s.numTF + 1) % s.subConns.length } sd { sd with lastErr := err } (wf_congr s _ hw rfl rfl) hm rfl rfl h0 hnr
    split
    · exact rn_pushState _ _ _ hr1 (by decide) (by intro X hX; cases hX) (by decide)
    · exact hr1
  | idle => exact h
  | connecting => exact h
  | ready => exact h
  | shutdown => exact h

/-! ### a SubConn becomes (or stays) READY -/

theorem seekTo_found (s : St) (a : Addr) (h : a ∈ s.addrs) :
    (seekTo s a).2 = true ∧ currentAddress (seekTo s a).1 = some a ∧ (seekTo s a).1.subConns = s.subConns ∧
    (seekTo s a).1.state = s.state ∧ (seekTo s a).1.picker = s.picker ∧ (seekTo s a).1.timer = s.timer ∧
    (seekTo s a).1.addrs = s.addrs ∧ (seekTo s a).1.health = s.health ∧ (seekTo s a).1.scSerial = s.scSerial := by
  unfold seekTo
  cases hf : s.addrs.findIdx? (· = a) with
  | none =>
    have := List.findIdx?_eq_none_iff.mp hf a h
    simp at this
  | some i =>
    obtain ⟨hi, hp, _⟩ := List.findIdx?_eq_some_iff_getElem.mp hf
    refine ⟨rfl, ?_, rfl, rfl, rfl, rfl, rfl, rfl, rfl⟩
    have hp' : s.addrs[i] = a := by simpa using hp
    simp [currentAddress, isValid, hi, hp']

theorem rr_scReady (s : St) (sd : SC) (hw : WF s) (hin : InList s) (hm : sd ∈ s.subConns) (hr : sd.raw = .ready)
    (hp : s.state ≠ .shutdown → (∀ X, s.picker = .ready X → X = sd.id) ∧ (s.state = .ready → s.picker = .ready sd.id)) :
    ∃ x, RR (scReady s sd).1 x := by
  obtain ⟨a1, a2, _, _, a5, a6, a7, _⟩ := shutdownRemaining_frame s sd
  have ast : (shutdownRemaining s sd).1.state = s.state := by simp [shutdownRemaining, cancelTimer]
  have apk : (shutdownRemaining s sd).1.picker = s.picker := by simp [shutdownRemaining, cancelTimer]
  have hw1 : WF { (shutdownRemaining s sd).1 with sticky := false } :=
    wf_single _ sd a1 (by show sd.id ≤ (shutdownRemaining s sd).1.scSerial; rw [a2]; exact hw.le sd hm)
  have haddr : sd.addr ∈ ({ (shutdownRemaining s sd).1 with sticky := false } : St).addrs := by
    show sd.addr ∈ (shutdownRemaining s sd).1.addrs; rw [a5]; exact hin sd hm
  obtain ⟨b0, b1, b2, b3, b4, b5, b6, b7, b8⟩ := seekTo_found { (shutdownRemaining s sd).1 with sticky := false } sd.addr haddr
  simp only [scReady]
  generalize seekTo { (shutdownRemaining s sd).1 with sticky := false } sd.addr = r2 at b0 b1 b2 b3 b4 b5 b6 b7 b8 ⊢
  have hw2 : WF r2.1 := wf_congr _ _ hw1 b2 b8
  have hsub : r2.1.subConns = [sd] := by rw [b2]; exact a1
  have hmem2 : sd ∈ r2.1.subConns := by rw [hsub]; simp
  have hst : r2.1.state = s.state := by rw [b3]; exact ast
  have hpk : r2.1.picker = s.picker := by rw [b4]; exact apk
  have htm : r2.1.timer = false := by rw [b5]; exact a6
  simp only [b0, Bool.not_true, Bool.false_eq_true, if_false]
  -- common frame for `pushState (setSC r2.1 sd') st p`
  have frame : ∀ (sd' : SC) (st : ConnState) (p : Picker), sd'.addr = sd.addr → sd'.id = sd.id →
      (pushState (setSC r2.1 sd') st p).1.subConns = [sd'] ∧ (pushState (setSC r2.1 sd') st p).1.timer = false ∧
      currentAddress (pushState (setSC r2.1 sd') st p).1 = some sd'.addr ∧
      InList (pushState (setSC r2.1 sd') st p).1 := by
    intro sd' st p ha hi
    obtain ⟨e, _, _⟩ := setSC_replace r2.1 sd sd' hw2 hmem2 ha hi
    obtain ⟨f1, f2, _, _, _, _, _, _, f9, _⟩ := setSC_frame r2.1 sd'
    obtain ⟨p1, _, p3, p4, _, p6, _⟩ := pushState_frame (setSC r2.1 sd') st p
    have hs' : (setSC r2.1 sd').subConns = [sd'] := by rw [e, hsub]; simp [ha]
    refine ⟨by rw [p1, hs'], by rw [p6, f9, htm], ?_, ?_⟩
    · rw [currentAddress_congr _ _ (p3.trans f1) (p4.trans f2), b1, ha]
    · intro sc hsc
      rw [p1, hs'] at hsc
      simp only [List.mem_singleton] at hsc
      rw [hsc, p3, f1, b6, ha]; exact haddr
  split
  · -- READY is reported (or already is) with this SubConn
    obtain ⟨f1, f2, f3, f4⟩ := frame { sd with eff := .ready } .ready (.ready sd.id) rfl rfl
    refine ⟨{ sd with eff := .ready }, ⟨f4, f1, hr, f2, f3, ?_, ?_⟩⟩
    · rw [pushState_state]; decide
    · intro _
      rw [pushState_state]
      rcases pushState_picker (setSC r2.1 { sd with eff := .ready }) .ready (.ready sd.id) with e | ⟨e, e2⟩
      · rw [e]; exact ⟨fun X hX => (by cases hX; rfl), fun _ => rfl⟩
      · have hs : s.state = .ready := by rw [← hst, ← (setSC_frame r2.1 { sd with eff := .ready }).2.2.2.2.1]; exact e2.symm
        have hp' := hp (by rw [hs]; decide)
        rw [e, (setSC_frame _ _).2.2.2.1, hpk]
        exact ⟨hp'.1, fun _ => hp'.2 hs⟩
  · -- health listener: CONNECTING for now
    obtain ⟨f1, f2, f3, f4⟩ := frame { sd with eff := .connecting, healthReg := true } .connecting .queue rfl rfl
    refine ⟨{ sd with eff := .connecting, healthReg := true }, ⟨f4, f1, hr, f2, f3, ?_, ?_⟩⟩
    · rw [pushState_state]; decide
    · intro _
      rw [pushState_state]
      rcases pushState_picker (setSC r2.1 { sd with eff := .connecting, healthReg := true }) .connecting .queue with e | ⟨e, e2⟩
      · rw [e]; exact ⟨fun X hX => (by cases hX), fun h' => (by cases h')⟩
      · have hs : s.state = .connecting := by
          rw [← hst, ← (setSC_frame r2.1 { sd with eff := .connecting, healthReg := true }).2.2.2.2.1]; exact e2.symm
        have hp' := hp (by rw [hs]; decide)
        rw [e, (setSC_frame _ _).2.2.2.1, hpk]
        exact ⟨hp'.1, fun h' => (by cases h')⟩

/-! ### every op keeps the regimes -/

theorem rr_active (s : St) (x : SC) (h : RR s x) (id : Nat) :
    activeSC s id = if x.id = id then some x else none := by
  simp only [activeSC, h.only, List.find?_cons, List.find?_nil]
  by_cases e : x.id = id <;> simp [e]

theorem rn_of_rr_setSC_nonready (s : St) (x new : SC) (hw : WF s) (h : RR s x) (ha : new.addr = x.addr)
    (hi : new.id = x.id) (hr : new.raw ≠ .ready) (hu : s.state ≠ .shutdown → Unready s) : RN (setSC s new) := by
  have hm : x ∈ s.subConns := by rw [h.only]; simp
  obtain ⟨e, _, _⟩ := setSC_replace s x new hw hm ha hi
  have hs : (setSC s new).subConns = [new] := by rw [e, h.only]; simp [ha]
  obtain ⟨f1, _, _, f4, f5, _⟩ := setSC_frame s new
  refine ⟨?_, ?_, ?_⟩
  · intro sc hsc; rw [hs] at hsc; simp only [List.mem_singleton] at hsc; rw [hsc, f1, ha]; exact h.inList x hm
  · intro sc hsc; rw [hs] at hsc; simp only [List.mem_singleton] at hsc; rw [hsc]; exact hr
  · intro hns; have := hu (f5 ▸ hns); exact ⟨by rw [f4]; exact this.1, by rw [f5]; exact this.2⟩

theorem reg_scState (s : St) (id : Nat) (new : ConnState) (err : Nat) (hw : WF s) (h : Reg s)
    (hok : new ≠ .shutdown ∨ (activeSC s id).isNone = true) : Reg (scState s id new err).1 := by
  simp only [scState]
  cases ha : activeSC s id with
  | none => exact h
  | some sd0 =>
    simp only
    obtain ⟨hm0, hid⟩ := activeSC_mem s id sd0 ha
    have hns : new ≠ .shutdown := by
      rcases hok with h1 | h1
      · exact h1
      · simp [ha] at h1
    simp only [hns, if_false]
    have hw1 := wf_setSC_replace s sd0 (sd0.withRaw new) hw hm0 rfl rfl
    have hm1 : sd0.withRaw new ∈ (setSC s (sd0.withRaw new)).subConns := by
      rw [mem_setSC_replace s sd0 (sd0.withRaw new) hw hm0 rfl rfl]; exact Or.inl rfl
    obtain ⟨f1, _, _, f4, f5, _, _, f8, _⟩ := setSC_frame s (sd0.withRaw new)
    rcases h with hn | ⟨x, hx⟩
    · -- regime N
      by_cases hr : new = .ready
      · simp only [hr, if_true]
        right
        apply rr_scReady _ _ (by rw [← hr]; exact hw1) (by rw [← hr]; exact inList_setSC s sd0 _ hw hm0 rfl rfl hn.inList)
          (by rw [← hr]; exact hm1) rfl
        intro hs
        have := hn.unready (by rw [← (setSC_frame s (sd0.withRaw .ready)).2.2.2.2.1]; exact hs)
        rw [(setSC_frame _ _).2.2.2.1, (setSC_frame _ _).2.2.2.2.1]
        exact ⟨fun X hX => absurd hX (this.1 X), fun h' => absurd h' this.2⟩
      · simp only [hr, if_false]
        have hrn := rn_setSC s sd0 (sd0.withRaw new) hw hm0 rfl rfl hn hr
        left
        split
        · exact rn_scToIdle _ _ new hw1 hm1 hrn
        · split
          · exact rn_scFirstPass _ _ new err hw1 hm1 hrn
          · exact rn_scLater _ _ new err hw1 hm1 hrn
    · -- regime R: the only SubConn is x
      have hx0 : sd0 = x := by
        have := rr_active s x hx id; rw [ha] at this
        by_cases e : x.id = id
        · simp [e] at this; exact this
        · simp [e] at this
      subst hx0
      by_cases hr : new = .ready
      · simp only [hr, if_true]
        right
        apply rr_scReady _ _ (by rw [← hr]; exact hw1) (by rw [← hr]; exact inList_setSC s sd0 _ hw hm0 rfl rfl hx.inList)
          (by rw [← hr]; exact hm1) rfl
        intro hs
        have := hx.picker (by rw [← (setSC_frame s (sd0.withRaw .ready)).2.2.2.2.1]; exact hs)
        rw [(setSC_frame _ _).2.2.2.1, (setSC_frame _ _).2.2.2.2.1]
        exact this
      · simp only [hr, if_false, hx.raw, true_or, if_true]
        left
        -- READY SubConn failed: the picker and the state are replaced by the IDLE report
        apply rn_scToIdle' _ _ new hw1 hm1 (inList_setSC s sd0 _ hw hm0 rfl rfl hx.inList) hr
        right; rw [f5]; exact hx.notIdle

theorem rr_setSC_eff (s : St) (x : SC) (st : ConnState) (hw : WF s) (h : RR s x) :
    RR (setSC s { x with eff := st }) { x with eff := st } := by
  have hm : x ∈ s.subConns := by rw [h.only]; simp
  obtain ⟨e, _, _⟩ := setSC_replace s x { x with eff := st } hw hm rfl rfl
  have hs : (setSC s { x with eff := st }).subConns = [{ x with eff := st }] := by rw [e, h.only]; simp
  obtain ⟨f1, f2, _, f4, f5, _, _, _, f9, _⟩ := setSC_frame s { x with eff := st }
  refine ⟨?_, hs, h.raw, by rw [f9]; exact h.timer, by rw [currentAddress_congr _ _ f1 f2]; exact h.cur,
    by rw [f5]; exact h.notIdle, by rw [f4, f5]; exact h.picker⟩
  intro sc hsc; rw [hs] at hsc; simp only [List.mem_singleton] at hsc; subst hsc; rw [f1]; exact h.inList x hm

/-- a state report that is not READY-with-a-SubConn, in regime R -/
theorem rr_pushState_other (s : St) (x : SC) (st : ConnState) (p : Picker) (h : RR s x) (h1 : st ≠ .ready)
    (h2 : ∀ X, p ≠ .ready X) (h3 : st ≠ .idle) : RR (pushState s st p).1 x := by
  obtain ⟨a, _, c, d, _, f, _⟩ := pushState_frame s st p
  refine ⟨fun sc hsc => by rw [c]; exact h.inList sc (a ▸ hsc), by rw [a]; exact h.only, h.raw, by rw [f]; exact h.timer,
    by rw [currentAddress_congr _ _ c d]; exact h.cur, by rw [pushState_state]; exact h3, ?_⟩
  intro hns
  rw [pushState_state] at hns ⊢
  rcases pushState_picker s st p with e | ⟨e, e2⟩
  · rw [e]; exact ⟨fun X hX => absurd hX (h2 X), fun h' => absurd h' h1⟩
  · have hp := h.picker (by rw [← e2]; exact hns)
    rw [e]; exact ⟨hp.1, fun h' => absurd h' h1⟩

theorem reg_healthState (s : St) (id : Nat) (st : ConnState) (err : Nat) (hw : WF s) (h : Reg s)
    (hok : ∀ sd, activeSC s id = some sd → sd.raw = .ready) : Reg (healthState s id st err).1 := by
  simp only [healthState]
  cases ha : activeSC s id with
  | none => exact h
  | some sd =>
    simp only
    obtain ⟨hm0, _⟩ := activeSC_mem s id sd ha
    rcases h with hn | ⟨x, hx⟩
    · exact absurd (hok sd ha) (hn.noReady sd hm0)
    · have hx0 : sd = x := by
        have := rr_active s x hx id; rw [ha] at this
        by_cases e : x.id = id
        · simp [e] at this; exact this
        · simp [e] at this
      subst hx0
      have hr1 := rr_setSC_eff s sd st hw hx
      right
      cases st with
      | ready =>
        refine ⟨{ sd with eff := .ready }, ?_⟩
        obtain ⟨a, _, c, d, _, f, _⟩ := pushState_frame (setSC s { sd with eff := .ready }) .ready (.ready sd.id)
        refine ⟨fun sc hsc => by rw [c]; exact hr1.inList sc (a ▸ hsc), by rw [a]; exact hr1.only, hr1.raw,
          by rw [f]; exact hr1.timer, by rw [currentAddress_congr _ _ c d]; exact hr1.cur,
          by rw [pushState_state]; decide, ?_⟩
        intro _
        rw [pushState_state]
        rcases pushState_picker (setSC s { sd with eff := .ready }) .ready (.ready sd.id) with e | ⟨e, e2⟩
        · rw [e]; exact ⟨fun X hX => (by cases hX; rfl), fun _ => rfl⟩
        · have hp := hr1.picker (by rw [← e2]; decide)
          rw [e]; exact ⟨hp.1, fun _ => hp.2 e2.symm⟩
      | tf => exact ⟨_, rr_pushState_other _ _ _ _ hr1 (by decide) (by intro X hX; cases hX) (by decide)⟩
      | connecting => exact ⟨_, rr_pushState_other _ _ _ _ hr1 (by decide) (by intro X hX; cases hX) (by decide)⟩
      | idle => exact ⟨_, hr1⟩
      | shutdown => exact ⟨_, hr1⟩

theorem reg_resolverError (s : St) (h : Reg s) : Reg (resolverError s).1 := by
  rcases h with hn | ⟨x, hx⟩
  · exact Or.inl (rn_resolverError s hn)
  · right
    unfold resolverError
    split
    · exact ⟨x, hx⟩
    · exact ⟨x, rr_pushState_other s x _ _ hx (by decide) (by intro X hX; cases hX) (by decide)⟩

theorem reg_exitIdle (s : St) (hw : WF s) (h : Reg s) : Reg (exitIdle s).1 := by
  rcases h with hn | ⟨x, hx⟩
  · exact Or.inl (rn_exitIdle s hw hn)
  · right
    unfold exitIdle
    rw [if_neg hx.notIdle]
    exact ⟨x, hx⟩

theorem reg_timerFire (s : St) (hw : WF s) (h : Reg s) : Reg (timerFire s).1 := by
  rcases h with hn | ⟨x, hx⟩
  · exact Or.inl (rn_timerFire s hw hn)
  · right
    unfold timerFire
    simp only [hx.timer, Bool.not_false, if_true]
    exact ⟨x, hx⟩

theorem reg_lateFire (s : St) (h : Reg s) : Reg (lateFire s).1 := by
  rw [lateFire_eq]
  simp only
  split
  · exact h
  · rcases h with hn | ⟨x, hx⟩
    · exact Or.inl (rn_of_eq s _ hn rfl rfl rfl rfl)
    · exact Or.inr ⟨x, ⟨hx.inList, hx.only, hx.raw, hx.timer, hx.cur, hx.notIdle, hx.picker⟩⟩

theorem reg_pick (s : St) (hw : WF s) (h : Reg s) : Reg (pick s).1 := by
  unfold pick
  split
  all_goals first
    | exact h
    | skip
  next used hpk =>
    split
    · exact h
    · rcases h with hn | ⟨x, hx⟩
      · left
        show RN (exitIdle { s with picker := .idle true }).1
        apply rn_exitIdle { s with picker := .idle true } (wf_congr s _ hw rfl rfl)
        refine ⟨hn.inList, hn.noReady, ?_⟩
        intro hns
        exact ⟨fun X hX => (by cases hX), (hn.unready hns).2⟩
      · right
        have hx' : RR { s with picker := .idle true } x := by
          refine ⟨hx.inList, hx.only, hx.raw, hx.timer, hx.cur, hx.notIdle, ?_⟩
          intro hns
          have hp := hx.picker hns
          refine ⟨fun X hX => (by cases hX), ?_⟩
          intro hr
          have := hp.2 hr
          rw [hpk] at this; cases this
        show ∃ x, RR (exitIdle { s with picker := .idle true }).1 x
        unfold exitIdle
        rw [if_neg hx'.notIdle]
        exact ⟨x, hx'⟩

theorem wf_reconcile (s : St) (l : List Addr) (hw : WF s) : WF (reconcile s l).1 :=
  wf_sublist s _ hw (by simp only [reconcile]; exact List.filter_sublist) rfl

theorem reg_updateNonEmpty (s : St) (hl : Bool) (raw : List Addr) (hw : WF s) (h : Reg s) (ht : s.timer = false) :
    Reg (updateNonEmpty s hl raw).1 := by
  simp only [updateNonEmpty]
  have hw2 : WF ({ s with health := hl, addrs := preprocess raw, idx := 0, passLog := [], passSerial := s.passSerial + 1 } : St) :=
    wf_congr s _ hw rfl rfl
  rcases h with hn | ⟨x, hx⟩
  · -- regime N: no previous READY SubConn
    have hp : prevReadyAddr { s with health := hl } = none := by
      unfold prevReadyAddr
      cases hc : currentAddress { s with health := hl } with
      | none => rfl
      | some a =>
        simp only
        cases hg : getSC { s with health := hl } a with
        | none => simp
        | some sc =>
          have hm := (getSC_mem _ a sc hg).1
          have : sc.raw ≠ .ready := hn.noReady sc hm
          simp [this]
    simp only [hp, Bool.false_eq_true, if_false, Option.isSome_none]
    left
    exact rn_updateTail _ false s.addrs.length (wf_reconcile _ _ hw2)
      (rn_reconcile _ _ hn.unready (fun sc hsc => hn.noReady sc hsc) rfl)
  · -- regime R: x is READY and is the SubConn of the current address
    have hm : x ∈ s.subConns := by rw [hx.only]; simp
    have hp : prevReadyAddr { s with health := hl } = some x.addr := by
      unfold prevReadyAddr
      have hc : currentAddress { s with health := hl } = some x.addr := hx.cur
      have hg : getSC { s with health := hl } x.addr = some x := by
        simp [getSC, hx.only]
      simp [hc, hg, hx.raw]
    simp only [hp, Option.isSome_some]
    by_cases hin : x.addr ∈ preprocess raw
    · -- kept
      obtain ⟨b0, b1, b2, b3, b4, b5, b6, _⟩ := seekTo_found ({ s with health := hl, addrs := preprocess raw, idx := 0, passLog := [], passSerial := s.passSerial + 1 } : St) x.addr hin
      simp only [b0, if_true]
      right
      refine ⟨x, ?_, by rw [b2]; exact hx.only, hx.raw, by rw [b5]; exact ht, b1, by rw [b3]; exact hx.notIdle,
        by rw [b3, b4]; exact hx.picker⟩
      intro sc hsc
      rw [b2] at hsc
      have : sc ∈ s.subConns := hsc
      rw [hx.only] at this; simp only [List.mem_singleton] at this
      rw [this, b6]; exact hin
    · -- the READY SubConn's address is gone: it is shut down and a new pass starts
      have hnf : (seekTo ({ s with health := hl, addrs := preprocess raw, idx := 0, passLog := [], passSerial := s.passSerial + 1 } : St) x.addr).2 = false := by
        unfold seekTo
        cases hf : (preprocess raw).findIdx? (· = x.addr) with
        | none => simp [hf]
        | some i =>
          obtain ⟨hi, hp', _⟩ := List.findIdx?_eq_some_iff_getElem.mp hf
          have : (preprocess raw)[i] = x.addr := by simpa using hp'
          exact absurd (this ▸ List.getElem_mem hi) hin
      simp only [hnf, Bool.false_eq_true, if_false]
      left
      -- after reconcile the map is empty
      have hempty : (reconcile ({ s with health := hl, addrs := preprocess raw, idx := 0, passLog := [], passSerial := s.passSerial + 1 } : St) (preprocess raw)).1.subConns = [] := by
        simp only [reconcile, hx.only, List.filter_cons, List.filter_nil]
        have : (preprocess raw).contains x.addr = false := by
          cases hc : (preprocess raw).contains x.addr with
          | false => rfl
          | true => exact absurd (List.contains_iff_mem.mp hc) hin
        simp [hin]
      -- updateTail with isPrevReady = true: CONNECTING is pushed, then a new pass
      simp only [updateTail, true_or, if_true]
      obtain ⟨a1, a2, _⟩ := forcePush_frame (reconcile ({ s with health := hl, addrs := preprocess raw, idx := 0, passLog := [], passSerial := s.passSerial + 1 } : St) (preprocess raw)).1 .connecting .queue
      apply rn_startFirstPass _ (wf_congr _ _ (wf_reconcile _ _ hw2) a1 a2)
      apply rn_empty _ (by rw [a1]; exact hempty)
      intro _; exact ⟨fun X hX => (by cases hX), fun h' => (by cases h')⟩

theorem reg_step (s : St) (op : Op) (hw : WF s) (h : Reg s) (hok : opOk s op = true) : Reg (step s op).1 := by
  cases op with
  | update hl raw =>
    simp only [step, updateCCS]
    split
    · exact Or.inl (rn_updateEmpty _)
    · have hreg : Reg (cancelTimer s) := by
        rcases h with hn | ⟨x, hx⟩
        · exact Or.inl (rn_of_eq s _ hn rfl rfl rfl rfl)
        · exact Or.inr ⟨x, ⟨hx.inList, hx.only, hx.raw, rfl, hx.cur, hx.notIdle, hx.picker⟩⟩
      exact reg_updateNonEmpty _ hl raw (wf_congr s _ hw rfl rfl) hreg rfl
  | resErr => exact reg_resolverError s h
  | sc id st err =>
    apply reg_scState s id st err hw h
    simp only [opOk, Bool.and_eq_true, Bool.or_eq_true, bne_iff_ne, ne_eq] at hok
    exact hok.2
  | health id st err =>
    apply reg_healthState s id st err hw h
    intro sd hsd
    simp only [opOk, hsd, Option.all_some, Bool.and_eq_true, beq_iff_eq] at hok
    exact hok.2
  | tick => exact reg_timerFire s hw h
  | late => exact reg_lateFire s h
  | exitIdle => exact reg_exitIdle s hw h
  | pick => exact reg_pick s hw h
  | close => exact Or.inl (rn_close s)

theorem reg_init : Reg {} :=
  Or.inl (rn_empty _ rfl (fun _ => ⟨fun X hX => (by cases hX), by decide⟩))

theorem reg_run (s : St) (ops : List Op) (hg : Good s) (h : Reg s) (hok : RunOk s ops) : Reg (run s ops) := by
  induction ops generalizing s with
  | nil => exact h
  | cons op t ih =>
    exact ih _ (step_post s op hg hok.1).1 (reg_step s op hg.wf h hok.1) hok.2

theorem pick_sc (s : St) (X : Nat) (h : (pick s).2.2 = .sc X) : s.picker = .ready X := by
  unfold pick at h
  split at h
  · cases h
  · cases h
  · next id hp => simp only [PickRes.sc.injEq] at h; rw [← h]; exact hp
  · split at h <;> cases h
  · cases h
  · cases h
  · split at h
    · cases h
    · cases h

theorem reg_ready (s : St) (h : Reg s) (hns : s.state ≠ .shutdown) :
    (∀ X, s.picker = .ready X → ∃ sc, s.subConns = [sc] ∧ sc.id = X ∧ sc.raw = .ready) ∧
    (s.state = .ready → ∃ sc, s.subConns = [sc] ∧ sc.raw = .ready ∧ s.picker = .ready sc.id) := by
  rcases h with hn | ⟨x, hx⟩
  · have := hn.unready hns
    exact ⟨fun X hX => absurd hX (this.1 X), fun h' => absurd h' this.2⟩
  · have hp := hx.picker hns
    exact ⟨fun X hX => ⟨x, hx.only, (hp.1 X hX).symm, hx.raw⟩, fun h' => ⟨x, hx.only, hx.raw, hp.2 h'⟩⟩

end GrpcProofs.Lemmas.PickFirstReady
