import GrpcProofs.Lemmas.ClientConnInv2
/-! `Inv` for the reader exit, loopy, application and Close events; `inv_step`, `inv_run`, `Reach.inv`. -/
namespace GrpcProofs.Lemmas.ClientConn
open GrpcModel.ClientConn

theorem inv_readerExit {s : State} (h : Inv s) : Inv s.readerExit := by
  unfold State.readerExit
  split
  · exact h
  · -- readerDone := true, then Close(errClose): the state is `closing` afterwards
    obtain ⟨a, b', c, d, e, f, g, k⟩ := h
    unfold State.closeP1
    split
    · rename_i hcl
      exact ⟨a, fun _ => hcl, c, d, e, f, g, k⟩
    · rename_i hc
      simp only []
      split
      · exact closeP1_core (({ s with readerDone := true } : State).notify 0 0 true) hc a e f g k
      · exact closeP1_core ({ s with readerDone := true } : State) hc a e f g k

theorem inv_onFrame {s : State} (h : Inv s) (f : Frame) : Inv (s.onFrame f) := by
  unfold State.onFrame
  split
  · exact h
  · cases f <;> simp only []
    · exact inv_operateHeaders h ..
    · exact inv_handleData h ..
    · exact inv_handleRST h ..
    · exact inv_handleSettings h ..
    · split
      · exact h
      · exact h.putOther _ (by intros; simp)
    · split
      · exact inv_readerExit (inv_handleGoAway h ..)
      · exact inv_handleGoAway h ..
    · exact h.putOther _ (by intros; simp)
    · exact h
    · split
      · exact h
      · apply Inv.closeStream h; legal
    · exact inv_readerExit h

/-- removing items from the control buffer -/
theorem Inv.subCbuf {s : State} (h : Inv s) (l : List Item) (hl : ∀ it, it ∈ l → it ∈ s.cbuf) : Inv { s with cbuf := l } := by
  obtain ⟨a, b', c, d, e, f, g, k⟩ := h
  exact ⟨a, b', c, d, e, fun i id r cc hm => f i id r cc (hl _ hm), g, k⟩

theorem Inv.write {s : State} (h : Inv s) (w : Wire) : Inv (s.write w) := Inv.aux h rfl rfl rfl rfl rfl rfl rfl

theorem inv_finish {s : State} (h : Inv s) : Inv s.finish := by
  unfold State.finish
  split
  · exact h
  · simp only []
    have h1 := inv_orphanQueued h s.cbuf
    have h2 := h1.subCbuf [] (by intro it hit; simp at hit)
    exact Inv.aux h2 rfl rfl rfl rfl rfl rfl rfl

theorem inv_loopyExit {s : State} (h : Inv s) (c : Bool) : Inv (s.loopyExit c).1 := by
  unfold State.loopyExit
  split
  · simp only []; inv_record; exact h
  · simp only []
    have h1 : Inv ({ s with wbuf := [], lBlocked := false, lExitPending := none } : State) := Inv.aux h rfl rfl rfl rfl rfl rfl rfl
    have h2 := inv_finish h1
    exact Inv.aux h2 rfl rfl rfl rfl rfl rfl rfl

/-- loopy's `cleanupStream.onWrite`: the stream leaves `activeStreams`; it has its outcome already -/
theorem Inv.deact {s : State} (h : Inv s) (i : Nat) (hterm : ∃ x : Strm, s.streams[i]? = some x ∧ x.term.isSome = true) :
    Inv (s.updStream i deactF) := by
  obtain ⟨x0, hx0, hs0⟩ := hterm
  refine h.modify i deactF ?_ ?_ ?_ ?_
  · intro x hx ht
    have : x = x0 := by rw [hx0] at hx; exact (Option.some.inj hx).symm
    subst this
    simp [deactF] at ht
    rw [ht] at hs0; simp at hs0
  · intro x _ hs; simpa [deactF] using hs
  · intro x t hx ht; exact h.lg i x t hx (by simpa [deactF] using ht)
  · intro x c l hx hn; exact h.ng i x c l hx (by simpa [deactF] using hn)

theorem inv_loopyStep {s : State} (h : Inv s) : Inv s.loopyStep.1 := by
  unfold State.loopyStep
  split
  · exact h
  · split
    · exact h
    · rename_i it rest hcb
      have h0 : Inv ({ s with cbuf := rest } : State) := h.subCbuf rest (by intro x hx; rw [hcb]; exact List.mem_cons_of_mem _ hx)
      simp only []
      cases it with
      | hdr i id =>
        simp only []
        splits
        all_goals first
          | exact h0.orphan _ _ cUnavailable_le
          | exact inv_loopyExit (h0.orphan _ _ cUnavailable_le) _
          | exact inv_loopyExit h0 _
          | exact Inv.aux h0 rfl rfl rfl rfl rfl rfl rfl
      | cleanup i id r c =>
        simp only []
        have hterm := h.cl i id r c (by rw [hcb]; exact List.mem_cons_self ..)
        have h1 : Inv (if ({ s with cbuf := rest } : State).tstate = TState.closing then ({ s with cbuf := rest } : State)
            else ({ s with cbuf := rest } : State).updStream i deactF) := by
          split
          · exact h0
          · exact h0.deact i hterm
        generalize (if ({ s with cbuf := rest } : State).tstate = TState.closing then ({ s with cbuf := rest } : State)
            else ({ s with cbuf := rest } : State).updStream i deactF) = t at h1 ⊢
        have h2 : Inv ({ t with estd := t.estd.filter (· ≠ id) } : State) := Inv.aux h1 rfl rfl rfl rfl rfl rfl rfl
        splits
        all_goals first
          | exact h2
          | exact inv_loopyExit h2 _
          | exact Inv.aux h2 rfl rfl rfl rfl rfl rfl rfl
          | exact inv_loopyExit (Inv.aux h2 rfl rfl rfl rfl rfl rfl rfl) _
          | exact inv_loopyExit (h2.write _) _
      | inGoAway =>
        simp only []
        have h2 : Inv ({ ({ s with cbuf := rest } : State) with lDraining := true } : State) := Inv.aux h0 rfl rfl rfl rfl rfl rfl rfl
        splits
        all_goals first
          | exact h2
          | exact inv_loopyExit h2 _
      | outGoAway =>
        simp only []
        splits
        all_goals first
          | exact inv_loopyExit h0 _
          | exact inv_loopyExit (Inv.aux h0 rfl rfl rfl rfl rfl rfl rfl) _
          | exact inv_loopyExit (h0.write _) _
      | settingsAck => simp only []; splits; all_goals first | exact inv_loopyExit h0 _ | exact Inv.aux h0 rfl rfl rfl rfl rfl rfl rfl
      | pingAck d => simp only []; splits; all_goals first | exact inv_loopyExit h0 _ | exact Inv.aux h0 rfl rfl rfl rfl rfl rfl rfl
      | outWU a n => simp only []; splits; all_goals first | exact inv_loopyExit h0 _ | exact Inv.aux h0 rfl rfl rfl rfl rfl rfl rfl
      | inWU => exact h0
      | data id => simp only []; splits; all_goals first | exact h0 | exact inv_loopyExit h0 _ | exact Inv.aux h0 rfl rfl rfl rfl rfl rfl rfl

end GrpcProofs.Lemmas.ClientConn
