import GrpcProofs.Lemmas.Connectivity
/-!
Helper lemmas for C30, parts A and C: connectivityStateManager + WaitForStateChange callers, and the
channel-level invariants (published states, the balancer wrapper's serializer queue).
-/
namespace GrpcProofs.Lemmas.Connectivity
open GrpcModel.Connectivity

/-! ### Part A -/

/-- the current notify channel has been allocated -/
def CI (c : Csm) : Prop := ∀ ch, c.notify = some ch → ch < c.nextChan

/-- What is known about a WaitForStateChange caller (claims are about the code's order only). -/
def WInv (c : Csm) (w : Waiter) : Prop :=
  match w.pc with
  | .init => True
  | .gotChan ch => ch < c.nextChan ∧ (c.chanClosed ch = false → w.sawDiff = decide (c.state ≠ w.src)) ∧
      (c.chanClosed ch = true → w.sawDiff = true)
  | .readSame => w.codeOrder = false
  | .sel ch => w.codeOrder = true → (ch < c.nextChan ∧ (c.chanClosed ch = false → c.state = w.src ∧ w.sawDiff = false) ∧
      (c.chanClosed ch = true → w.sawDiff = true))
  | .done true => w.codeOrder = true → w.sawDiff = true
  | .done false => w.ctxDone = true

theorem closed_after_update (c : Csm) (st : ConnState) (ch : Nat) (h : ch < c.nextChan) :
    ({ c with state := st, notify := none } : Csm).chanClosed ch = true := by
  simp [Csm.chanClosed, h]

theorem winv_update {c : Csm} {w : Waiter} {st : ConnState} (h : WInv c w) (hne : c.state ≠ st) :
    WInv { c with state := st, notify := none } (noteState st w) := by
  unfold WInv at h ⊢
  cases hp : w.pc with
  | init => simp [noteState, hp]
  | readSame => simp only [hp] at h; simp only [noteState, hp]; exact h
  | gotChan ch =>
    simp only [hp] at h
    simp only [noteState, hp]
    obtain ⟨h1, h2, h3⟩ := h
    refine ⟨h1, ?_, ?_⟩
    · intro hc; rw [closed_after_update c st ch h1] at hc; cases hc
    · intro _
      cases hcl : c.chanClosed ch with
      | true => simp [h3 hcl]
      | false =>
        have := h2 hcl
        by_cases hs : c.state = w.src
        · have : st ≠ w.src := by rw [← hs]; exact fun e => hne e.symm
          simp [this]
        · simp [hs] at this; simp [this]
  | sel ch =>
    simp only [hp] at h
    simp only [noteState, hp]
    intro ho
    obtain ⟨h1, h2, h3⟩ := h ho
    refine ⟨h1, ?_, ?_⟩
    · intro hc; rw [closed_after_update c st ch h1] at hc; cases hc
    · intro _
      cases hcl : c.chanClosed ch with
      | true => simp [h3 hcl]
      | false =>
        have := (h2 hcl).1
        have : st ≠ w.src := by rw [← this]; exact fun e => hne e.symm
        simp [this]
  | done r =>
    simp only [hp] at h
    cases r with
    | true => simp only [noteState, hp]; intro ho; simp [h ho]
    | false => simp only [noteState, hp]; exact h

theorem closed_alloc (c : Csm) (_hci : CI c) (hn : c.notify = none) (ch : Nat) (h : ch < c.nextChan) :
    ({ c with notify := some c.nextChan, nextChan := c.nextChan + 1 } : Csm).chanClosed ch = c.chanClosed ch := by
  have h1 : ch < c.nextChan + 1 := by omega
  have h2 : c.nextChan ≠ ch := by omega
  have e1 : (some c.nextChan != some ch) = true := by simp [bne, h2]
  have e2 : ((none : Option Nat) != some ch) = true := by simp [bne]
  simp only [Csm.chanClosed, hn, h, h1, e1, e2]

theorem winv_alloc {c : Csm} {w : Waiter} (hci : CI c) (h : WInv c w) (hn : c.notify = none) :
    WInv { c with notify := some c.nextChan, nextChan := c.nextChan + 1 } w := by
  unfold WInv at h ⊢
  cases hp : w.pc with
  | init => trivial
  | readSame => simp only [hp] at h ⊢; exact h
  | gotChan ch =>
    simp only [hp] at h ⊢
    obtain ⟨h1, h2, h3⟩ := h
    rw [closed_alloc c hci hn ch h1]
    exact ⟨by show ch < c.nextChan + 1; omega, h2, h3⟩
  | sel ch =>
    simp only [hp] at h ⊢
    intro ho
    obtain ⟨h1, h2, h3⟩ := h ho
    rw [closed_alloc c hci hn ch h1]
    exact ⟨by show ch < c.nextChan + 1; omega, h2, h3⟩
  | done r => cases r <;> (simp only [hp] at h ⊢; exact h)

theorem ci_update {c : Csm} (st : ConnState) : CI { c with state := st, notify := none } := by
  intro ch h; simp at h

theorem ci_alloc {c : Csm} : CI { c with notify := some c.nextChan, nextChan := c.nextChan + 1 } := by
  intro ch h; simp at h; subst h; show c.nextChan < c.nextChan + 1; omega

theorem getNotifyChan_cases (c : Csm) (hci : CI c) :
    (∃ ch, c.notify = some ch ∧ c.getNotifyChan = (c, ch) ∧ ch < c.nextChan ∧ c.chanClosed ch = false) ∨
    (c.notify = none ∧ c.getNotifyChan = ({ c with notify := some c.nextChan, nextChan := c.nextChan + 1 }, c.nextChan) ∧
      ({ c with notify := some c.nextChan, nextChan := c.nextChan + 1 } : Csm).chanClosed c.nextChan = false) := by
  cases hn : c.notify with
  | some ch =>
    left
    refine ⟨ch, rfl, by simp [Csm.getNotifyChan, hn], hci ch hn, by simp [Csm.chanClosed, hn]⟩
  | none =>
    right
    exact ⟨rfl, by simp [Csm.getNotifyChan, hn], by simp [Csm.chanClosed]⟩

/-- one step of a caller keeps its own invariant, the csm invariant, and changes the csm at most
    by allocating the notify channel -/
theorem winv_wstep {c c' : Csm} {w w' : Waiter} {p : Bool} (hci : CI c) (h : WInv c w) (hs : wstep c w p = some (c', w')) :
    WInv c' w' ∧ CI c' ∧
    (c' = c ∨ (c.notify = none ∧ c' = { c with notify := some c.nextChan, nextChan := c.nextChan + 1 })) := by
  unfold wstep at hs
  cases hp : w.pc with
  | init =>
    simp only [hp] at hs
    split at hs
    · -- code order: getNotifyChan
      rcases getNotifyChan_cases c hci with ⟨ch, hn, hg, hlt, hcl⟩ | ⟨hn, hg, hcl⟩
      · rw [hg] at hs; simp at hs; obtain ⟨e1, e2⟩ := hs; subst e1; subst e2
        refine ⟨?_, hci, Or.inl rfl⟩
        simp only [WInv]
        exact ⟨hlt, fun _ => by simp, fun hc => by rw [hcl] at hc; cases hc⟩
      · rw [hg] at hs; simp at hs; obtain ⟨e1, e2⟩ := hs; subst e1; subst e2
        refine ⟨?_, ci_alloc, Or.inr ⟨hn, rfl⟩⟩
        simp only [WInv]
        exact ⟨by show c.nextChan < c.nextChan + 1; omega, fun _ => by simp, fun hc => by rw [hcl] at hc; cases hc⟩
    · rename_i hord
      split at hs
      · simp at hs; obtain ⟨e1, e2⟩ := hs; subst e1; subst e2
        exact ⟨by simp only [WInv]; intro ho; exact absurd ho hord, hci, Or.inl rfl⟩
      · simp at hs; obtain ⟨e1, e2⟩ := hs; subst e1; subst e2
        exact ⟨by simp only [WInv]; simpa using hord, hci, Or.inl rfl⟩
  | gotChan ch =>
    simp only [hp] at hs
    unfold WInv at h
    simp only [hp] at h
    obtain ⟨h1, h2, h3⟩ := h
    split at hs
    · rename_i hne
      simp at hs; obtain ⟨e1, e2⟩ := hs; subst e1; subst e2
      refine ⟨?_, hci, Or.inl rfl⟩
      simp only [WInv]
      intro _
      cases hcl : c.chanClosed ch with
      | true => exact h3 hcl
      | false => rw [h2 hcl]; simp [hne]
    · rename_i heq
      simp at heq
      simp at hs; obtain ⟨e1, e2⟩ := hs; subst e1; subst e2
      refine ⟨?_, hci, Or.inl rfl⟩
      simp only [WInv]
      intro _
      refine ⟨h1, ?_, h3⟩
      intro hcl
      exact ⟨heq, by rw [h2 hcl]; simp [heq]⟩
  | readSame =>
    simp only [hp] at hs
    unfold WInv at h
    simp only [hp] at h
    rcases getNotifyChan_cases c hci with ⟨ch, hn, hg, hlt, hcl⟩ | ⟨hn, hg, hcl⟩
    · rw [hg] at hs; simp at hs; obtain ⟨e1, e2⟩ := hs; subst e1; subst e2
      refine ⟨?_, hci, Or.inl rfl⟩
      simp only [WInv]
      intro ho; rw [h] at ho; cases ho
    · rw [hg] at hs; simp at hs; obtain ⟨e1, e2⟩ := hs; subst e1; subst e2
      refine ⟨?_, ci_alloc, Or.inr ⟨hn, rfl⟩⟩
      simp only [WInv]
      intro ho; rw [h] at ho; cases ho
  | sel ch =>
    simp only [hp] at hs
    unfold WInv at h
    simp only [hp] at h
    split at hs
    · rename_i hc
      simp at hs; obtain ⟨e1, e2⟩ := hs; subst e1; subst e2
      exact ⟨by simp only [WInv]; exact hc.1, hci, Or.inl rfl⟩
    · split at hs
      · rename_i hcl
        simp at hs; obtain ⟨e1, e2⟩ := hs; subst e1; subst e2
        refine ⟨?_, hci, Or.inl rfl⟩
        simp only [WInv]
        intro ho
        exact (h ho).2.2 hcl
      · simp at hs
  | done r => simp [hp] at hs

/-! ### the channel -/

inductive SReach : Sys → Prop
  | init : SReach Sys.init
  | step {s : Sys} (a : Act) : SReach s → SReach (step s a)

theorem runFrom_reach (acts : List Act) : ∀ s, SReach s → SReach (runFrom s acts) := by
  induction acts with
  | nil => intro s h; exact h
  | cons a as ih => intro s h; exact ih _ (SReach.step a h)

theorem run_reach (acts : List Act) : SReach (run acts) := runFrom_reach acts _ SReach.init

/-- csMgr.updateState either does nothing or publishes -/
theorem csmUpdate_cases (s : Sys) (st : ConnState) :
    ((s.csm.state = .shutdown ∨ s.csm.state = st) ∧ s.csmUpdate st = s) ∨
    (s.csm.state ≠ .shutdown ∧ s.csm.state ≠ st ∧
      s.csmUpdate st = { s with csm := { s.csm with state := st, notify := none }, published := s.published ++ [st],
                                waiters := fun i => (s.waiters i).map (noteState st) }) := by
  unfold Sys.csmUpdate Csm.updateState
  by_cases h1 : s.csm.state = .shutdown
  · left; simp [h1]
  · by_cases h2 : s.csm.state = st
    · left; simp [h2]
    · right; simp [h1, h2]

structure SInvA (s : Sys) : Prop where
  ci : CI s.csm
  winv : ∀ id w, s.waiters id = some w → WInv s.csm w
  lastPub : s.csm.state = s.published.getLast?.getD .idle
  shutLast : ∀ l1 l2, s.published = l1 ++ ConnState.shutdown :: l2 → l2 = []

theorem invA_of_eq {s s' : Sys} (h : SInvA s) (h1 : s'.csm = s.csm) (h2 : s'.waiters = s.waiters)
    (h3 : s'.published = s.published) : SInvA s' :=
  ⟨by rw [h1]; exact h.ci, by rw [h1, h2]; exact h.winv, by rw [h1, h3]; exact h.lastPub, by rw [h3]; exact h.shutLast⟩

theorem invA_csmUpdate {s : Sys} (h : SInvA s) (st : ConnState) : SInvA (s.csmUpdate st) := by
  rcases csmUpdate_cases s st with ⟨_, he⟩ | ⟨hns, hne, he⟩
  · rw [he]; exact h
  · rw [he]
    refine ⟨ci_update st, ?_, by simp, ?_⟩
    · intro id w hw
      simp only at hw
      cases hw0 : s.waiters id with
      | none => simp [hw0] at hw
      | some w0 =>
        simp [hw0] at hw
        subst hw
        exact winv_update (h.winv id w0 hw0) hne
    · intro l1 l2 heq
      simp only at heq
      rcases List.eq_nil_or_concat l2 with hl2 | ⟨l2', b, hl2⟩
      · exact hl2
      · exfalso
        subst hl2
        have heq' : s.published ++ [st] = (l1 ++ ConnState.shutdown :: l2') ++ [b] := by rw [heq]; simp
        have hp := (List.append_inj' heq' rfl).1
        have hl := h.shutLast l1 l2' hp
        subst hl
        have : s.csm.state = .shutdown := by rw [h.lastPub, hp]; simp
        exact hns this

theorem invA_init : SInvA Sys.init := by
  refine ⟨by intro ch h; simp [Sys.init, Csm.init] at h, by intro id w h; simp [Sys.init] at h, rfl, ?_⟩
  intro l1 l2 h; simp [Sys.init] at h

theorem report_A (s : Sys) (k : Nat) (chs : List (ConnState × ConnState)) :
    (s.report k chs).csm = s.csm ∧ (s.report k chs).waiters = s.waiters ∧ (s.report k chs).published = s.published := by
  unfold Sys.report
  split <;> exact ⟨rfl, rfl, rfl⟩

theorem closeCcb_A (s : Sys) :
    s.closeCcb.csm = s.csm ∧ s.closeCcb.waiters = s.waiters ∧ s.closeCcb.published = s.published := ⟨rfl, rfl, rfl⟩

theorem invA_step {s : Sys} (a : Act) (h : SInvA s) : SInvA (step s a) := by
  cases a with
  | ac k x =>
    simp only [step]
    split
    · have := report_A ({ s with acs := fun i => if i = k then some (acStep ‹AC› x).1 else s.acs i }) k (acStep ‹AC› x).2
      exact invA_of_eq h this.1 this.2.1 this.2.2
    · exact h
  | newSubConn n hl =>
    simp only [step]
    split
    · exact h
    · exact invA_of_eq h rfl rfl rfl
  | deliver =>
    simp only [step]
    split
    · exact h
    · split
      · exact invA_of_eq h rfl rfl rfl
      · split
        · exact invA_of_eq h rfl rfl rfl
        · exact invA_of_eq h rfl rfl rfl
  | lbUpdateState st =>
    simp only [step]
    split
    · exact h
    · exact invA_csmUpdate h st
  | exitIdle =>
    simp only [step]
    split
    · exact h
    · exact invA_csmUpdate h _
  | resolverBuildFailed =>
    simp only [step]
    split
    · exact h
    · exact invA_csmUpdate h _
  | enterIdle =>
    simp only [step]
    split
    · exact h
    · have h1 : SInvA s.closeCcb := invA_of_eq h rfl rfl rfl
      exact invA_of_eq (invA_csmUpdate h1 .idle) rfl rfl rfl
  | close =>
    simp only [step]
    split
    · exact h
    · have h1 : SInvA { s with closed := true } := invA_of_eq h rfl rfl rfl
      exact invA_of_eq (invA_csmUpdate h1 .shutdown) rfl rfl rfl
  | startWait id src order =>
    simp only [step]
    split
    · exact h
    · refine ⟨h.ci, ?_, h.lastPub, h.shutLast⟩
      intro i w hw
      simp only at hw
      split at hw
      · simp at hw; subst hw; simp [WInv]
      · exact h.winv i w hw
  | wstep id p =>
    simp only [step]
    split
    · rename_i w hw
      split
      · rename_i c w' hs
        obtain ⟨hw', hci', hc⟩ := winv_wstep h.ci (h.winv id w hw) hs
        refine ⟨hci', ?_, ?_, h.shutLast⟩
        · intro i wi hwi
          simp only at hwi
          split at hwi
          · simp at hwi; subst hwi; exact hw'
          · rcases hc with hc | ⟨hn, hc⟩
            · rw [hc]; exact h.winv i wi hwi
            · rw [hc]; exact winv_alloc h.ci (h.winv i wi hwi) hn
        · rcases hc with hc | ⟨_, hc⟩ <;> (rw [hc]; exact h.lastPub)
      · exact h
    · exact h
  | wctx id =>
    simp only [step]
    split
    · rename_i w hw
      refine ⟨h.ci, ?_, h.lastPub, h.shutLast⟩
      intro i wi hwi
      simp only at hwi
      split at hwi
      · simp at hwi; subst hwi
        have := h.winv id w hw
        unfold WInv at this ⊢
        cases hp : w.pc with
        | done r => cases r <;> simp_all
        | _ => simp_all
      · exact h.winv i wi hwi
    · exact h

theorem reach_invA {s : Sys} (h : SReach s) : SInvA s := by
  induction h with
  | init => exact invA_init
  | step a _ ih => exact invA_step a ih

/-! ### Part C: the serializer queue -/

/-- the states of sub-channel k in a list of (sub-channel, state) events, in order -/
def proj (k : Nat) (l : List (Nat × ConnState)) : List ConnState := (l.filter (fun x => x.1 = k)).map (·.2)

theorem proj_append (k : Nat) (l m : List (Nat × ConnState)) : proj k (l ++ m) = proj k l ++ proj k m := by
  simp [proj]

theorem proj_items_self (k : Nat) (chs : List (ConnState × ConnState)) :
    proj k (chs.map fun c => (k, c.2)) = chs.map (·.2) := by
  induction chs with
  | nil => rfl
  | cons c cs ih => simp [proj] at ih ⊢; exact ih

theorem proj_items_other {k k' : Nat} (h : k' ≠ k) (chs : List (ConnState × ConnState)) :
    proj k' (chs.map fun c => (k, c.2)) = [] := by
  induction chs with
  | nil => rfl
  | cons c cs ih => simp [proj] at ih ⊢; exact ⟨fun e => h e.symm, ih⟩

theorem proj_nil_of_lt {k n : Nat} {l : List (Nat × ConnState)} (h : ∀ x ∈ l, x.1 < n) (hk : n ≤ k) : proj k l = [] := by
  induction l with
  | nil => rfl
  | cons x xs ih =>
    have hx := h x (by simp)
    have : ¬ x.1 = k := by omega
    simp [proj, this]
    intro a b hab hka
    have := h (a, b) (by simp [hab])
    simp at this; omega

/-- no state follows SHUTDOWN -/
def ShutLast (l : List ConnState) : Prop := ∀ l1 l2, l = l1 ++ ConnState.shutdown :: l2 → l2 = []

theorem shutLast_prefix {l m : List ConnState} (h : l <+: m) (hm : ShutLast m) : ShutLast l := by
  obtain ⟨t, ht⟩ := h
  intro l1 l2 heq
  have : m = l1 ++ ConnState.shutdown :: (l2 ++ t) := by rw [← ht, heq]; simp
  have := hm l1 (l2 ++ t) this
  simp at this
  exact this.1

theorem shutLast_append {L ns : List ConnState} (hL : ShutLast L) (hnot : ConnState.shutdown ∉ L ∨ ns = [])
    (hns : ∀ l1 l2, ns = l1 ++ ConnState.shutdown :: l2 → l2 = []) : ShutLast (L ++ ns) := by
  intro l1 l2 heq
  rcases hnot with hin | he
  · rw [List.append_eq_append_iff] at heq
    rcases heq with ⟨a', _, h2⟩ | ⟨c', h1, h2⟩
    · exact hns a' l2 h2
    · cases c' with
      | nil => simp at h2; exact hns [] l2 (by rw [← h2]; rfl)
      | cons y ys =>
        exfalso; apply hin
        simp at h2
        rw [h1, ← h2.1]; simp
  · subst he; simp at heq; exact hL l1 l2 heq

structure SInvC (s : Sys) : Prop where
  acReach : ∀ k a, s.acs k = some a → ∃ n h, AcReach n h a
  acLt : ∀ k a, s.acs k = some a → k < s.nextK
  histLt : ∀ x ∈ s.hist, x.1 < s.nextK
  accLt : ∀ x ∈ s.accepted, x.1 < s.nextK
  epochLe : ∀ k, s.epochOf k ≤ s.epoch
  queueEpoch : ∀ x ∈ s.ccb.queue, s.epochOf x.1 = s.epoch
  fifo : s.accepted = s.popped ++ s.ccb.queue
  accPrefix : ∀ k, proj k s.accepted <+: proj k s.hist
  accClosed : ∀ k, proj k s.accepted ≠ proj k s.hist → s.epochOf k < s.epoch ∨ s.ccb.ctxCancelled = true
  delPrefix : ∀ k, proj k s.delivered <+: proj k s.popped
  delClosed : ∀ k, proj k s.delivered ≠ proj k s.popped →
    s.epochOf k < s.epoch ∨ s.ccb.ctxCancelled = true ∨ s.ccb.balancerNil = true ∨ k ∈ s.ccb.removed
  histShut : ∀ k a, s.acs k = some a → ShutLast (proj k s.hist) ∧ (ConnState.shutdown ∈ proj k s.hist → a.state = .shutdown)
  histNone : ∀ k, s.acs k = none → proj k s.hist = []

theorem invC_init : SInvC Sys.init := by
  refine ⟨?_, ?_, ?_, ?_, ?_, ?_, rfl, ?_, ?_, ?_, ?_, ?_, ?_⟩ <;> simp [Sys.init, Ccb.fresh, proj]

theorem prefix_grow {l m : List ConnState} (h : l <+: m) (t : List ConnState) : l <+: m ++ t := by
  obtain ⟨u, hu⟩ := h
  exact ⟨u ++ t, by rw [← hu]; simp⟩

/-- nothing is reported by a sub-channel in SHUTDOWN, and SHUTDOWN is only ever the last reported state -/
theorem changes_shut {n : Nat} {hl : Bool} {a : AC} (hr : AcReach n hl a) (x : AcAct) :
    (a.state = .shutdown → (acStep a x).2 = []) ∧
    (∀ l1 l2, (acStep a x).2.map (·.2) = l1 ++ ConnState.shutdown :: l2 → l2 = [] ∧ (acStep a x).1.state = .shutdown) := by
  have t1 : ∀ o nw, (o, nw) ∈ (acStep a x).2 → o ≠ .shutdown := by
    intro o nw hm
    have hinv := reach_inv hr
    obtain ⟨_, site⟩ := change_site hm
    intro ho
    have torn : a.state = .shutdown → a.tornDown = true := hinv.shutTorn.mp
    cases site with
    | connect h1 h2 h3 => rw [h2] at ho; cases ho
    | created g x t tr hg hpc htr hl h5 h6 =>
      rw [h5] at ho; have := torn ho; rw [not_torn_of_live hl] at this; cases this
    | failed g x hg hpc hl h5 h6 =>
      rw [h5] at ho; have := torn ho; rw [not_torn_of_live hl] at this; cases this
    | afterBackoff g x hg hpc hl h5 h6 =>
      rw [h5] at ho; have := torn ho; rw [not_torn_of_live hl] at this; cases this
    | onClose t tr htr hc hl hne h5 h6 =>
      rw [h5] at ho; have := torn ho; rw [not_torn_of_live hl] at this; cases this
    | tearDown h1 h2 h3 => rw [h2] at ho; exact h1 ho
    | updateAddrs k still h1 h2 =>
      rcases h2 with ⟨h2, _⟩ | ⟨h2 | h2, _⟩
      · rw [h2] at ho; rcases h1 with h1 | h1 <;> rw [h1] at ho <;> cases ho
      · rw [h2] at ho; rcases h1 with h1 | h1 <;> rw [h1] at ho <;> cases ho
      · rw [h2] at ho; cases ho
    | health t s tr htr hh htt hs h5 h6 =>
      rw [h5] at ho
      have := hinv.tornTr (torn ho)
      rw [htt] at this; cases this
  rcases changes_shape a x with ⟨h1, h2⟩ | ⟨nw, h1, h2, h3⟩ | ⟨h1, h2, h3⟩
  · refine ⟨fun _ => h1, ?_⟩
    intro l1 l2 heq; rw [h1] at heq; simp at heq
  · refine ⟨fun hs => absurd hs (t1 a.state nw (by rw [h1]; simp)), ?_⟩
    intro l1 l2 heq
    rw [h1] at heq
    simp at heq
    cases l1 with
    | nil => simp at heq; exact ⟨heq.2, by rw [h2, heq.1]⟩
    | cons y ys => simp at heq
  · refine ⟨fun hs => absurd hs (t1 a.state .idle (by rw [h1]; simp)), ?_⟩
    intro l1 l2 heq
    rw [h1] at heq
    simp at heq
    cases l1 with
    | nil => simp at heq
    | cons y ys =>
      cases ys with
      | nil => simp at heq
      | cons z zs => simp at heq

theorem report_fields (s : Sys) (f : Nat → Option AC) (k : Nat) (chs : List (ConnState × ConnState)) :
    (({ s with acs := f } : Sys).report k chs).acs = f ∧
    (({ s with acs := f } : Sys).report k chs).nextK = s.nextK ∧
    (({ s with acs := f } : Sys).report k chs).epochOf = s.epochOf ∧
    (({ s with acs := f } : Sys).report k chs).epoch = s.epoch ∧
    (({ s with acs := f } : Sys).report k chs).popped = s.popped ∧
    (({ s with acs := f } : Sys).report k chs).delivered = s.delivered ∧
    (({ s with acs := f } : Sys).report k chs).hist = s.hist ++ chs.map (fun c => (k, c.2)) ∧
    (({ s with acs := f } : Sys).report k chs).ccb.ctxCancelled = s.ccb.ctxCancelled ∧
    (({ s with acs := f } : Sys).report k chs).ccb.balancerNil = s.ccb.balancerNil ∧
    (({ s with acs := f } : Sys).report k chs).ccb.removed = s.ccb.removed ∧
    ((s.epochOf k = s.epoch ∧ ¬ s.ccb.ctxCancelled = true) →
      (({ s with acs := f } : Sys).report k chs).ccb.queue = s.ccb.queue ++ chs.map (fun c => (k, c.2)) ∧
      (({ s with acs := f } : Sys).report k chs).accepted = s.accepted ++ chs.map (fun c => (k, c.2))) ∧
    (¬ (s.epochOf k = s.epoch ∧ ¬ s.ccb.ctxCancelled = true) →
      (({ s with acs := f } : Sys).report k chs).ccb.queue = s.ccb.queue ∧
      (({ s with acs := f } : Sys).report k chs).accepted = s.accepted) := by
  unfold Sys.report
  by_cases h : s.epochOf k = s.epoch ∧ ¬ s.ccb.ctxCancelled = true
  · simp [h]
  · simp only [h, if_false]
    simp

theorem invC_ac {s : Sys} (h : SInvC s) (k : Nat) (a : AC) (x : AcAct) (hk : s.acs k = some a) :
    SInvC (({ s with acs := fun i => if i = k then some (acStep a x).1 else s.acs i }).report k (acStep a x).2) := by
  obtain ⟨n0, hl0, hr⟩ := h.acReach k a hk
  have hkl := h.acLt k a hk
  have hsh := changes_shut hr x
  have hhs := h.histShut k a hk
  obtain ⟨f1, f2, f3, f4, f5, f6, f7, f8, f9, f10, fo, fc⟩ :=
    report_fields s (fun i => if i = k then some (acStep a x).1 else s.acs i) k (acStep a x).2
  have items_lt : ∀ y ∈ (acStep a x).2.map (fun c => (k, c.2)), y.1 < s.nextK := by
    intro y hy; simp at hy; obtain ⟨_, _, _, rfl⟩ := hy; exact hkl
  -- the per-k view of the new history
  have hist_k : proj k (({ s with acs := fun i => if i = k then some (acStep a x).1 else s.acs i } : Sys).report k (acStep a x).2).hist = proj k s.hist ++ (acStep a x).2.map (·.2) := by
    rw [f7, proj_append, proj_items_self]
  have hist_o : ∀ k', k' ≠ k → proj k' (({ s with acs := fun i => if i = k then some (acStep a x).1 else s.acs i } : Sys).report k (acStep a x).2).hist = proj k' s.hist := by
    intro k' hne; rw [f7, proj_append, proj_items_other hne]; simp
  by_cases hopen : s.epochOf k = s.epoch ∧ ¬ s.ccb.ctxCancelled = true
  · -- accepted by the serializer
    obtain ⟨hq, hacc⟩ := fo hopen
    have acc_eq : proj k s.accepted = proj k s.hist := by
      by_cases he : proj k s.accepted = proj k s.hist
      · exact he
      · rcases h.accClosed k he with h1 | h1
        · have : s.epochOf k = s.epoch := hopen.1
          omega
        · exact absurd h1 hopen.2
    refine ⟨?_, ?_, ?_, ?_, ?_, ?_, ?_, ?_, ?_, ?_, ?_, ?_, ?_⟩
    · intro i b hb
      rw [f1] at hb
      simp only at hb
      split at hb
      · simp at hb; subst hb; exact ⟨n0, hl0, AcReach.step x hr⟩
      · exact h.acReach i b hb
    · intro i b hb
      rw [f1] at hb; rw [f2]
      simp only at hb
      split at hb
      · rename_i e; subst e; exact hkl
      · exact h.acLt i b hb
    · intro y hy; rw [f7] at hy; rw [f2]
      rcases List.mem_append.mp hy with hy | hy
      · exact h.histLt y hy
      · exact items_lt y hy
    · intro y hy; rw [hacc] at hy; rw [f2]
      rcases List.mem_append.mp hy with hy | hy
      · exact h.accLt y hy
      · exact items_lt y hy
    · intro i; rw [f3, f4]; exact h.epochLe i
    · intro y hy; rw [hq] at hy; rw [f3, f4]
      rcases List.mem_append.mp hy with hy | hy
      · exact h.queueEpoch y hy
      · simp at hy; obtain ⟨_, _, _, rfl⟩ := hy; exact hopen.1
    · rw [hacc, f5, hq, h.fifo]; simp
    · intro i
      by_cases hi : i = k
      · subst hi
        rw [hist_k, hacc, proj_append, proj_items_self, acc_eq]
        exact List.prefix_refl _
      · rw [hist_o i hi, hacc, proj_append, proj_items_other hi]; simp; exact h.accPrefix i
    · intro i hne
      rw [f3, f4, f8]
      by_cases hi : i = k
      · subst hi
        exfalso; apply hne
        rw [hist_k, hacc, proj_append, proj_items_self, acc_eq]
      · rw [hist_o i hi, hacc, proj_append, proj_items_other hi] at hne
        simp at hne
        exact h.accClosed i hne
    · intro i; rw [f6, f5]; exact h.delPrefix i
    · intro i hne; rw [f6, f5] at hne; rw [f3, f4, f8, f9, f10]; exact h.delClosed i hne
    · intro i b hb
      rw [f1] at hb
      simp only at hb
      split at hb
      · rename_i e; subst e
        simp at hb; subst hb
        rw [hist_k]
        constructor
        · apply shutLast_append hhs.1
          · by_cases hin : ConnState.shutdown ∈ proj i s.hist
            · right; rw [hsh.1 (hhs.2 hin)]; rfl
            · left; exact hin
          · intro l1 l2 heq; exact (hsh.2 l1 l2 heq).1
        · intro hin
          rcases List.mem_append.mp hin with hin | hin
          · have := hsh.1 (hhs.2 hin)
            rcases changes_shape a x with ⟨_, h2⟩ | ⟨nw, h1, _, _⟩ | ⟨h1, _, _⟩
            · rw [h2]; exact hhs.2 hin
            · rw [this] at h1; simp at h1
            · rw [this] at h1; simp at h1
          · obtain ⟨l1, l2, hs⟩ := List.append_of_mem hin
            exact (hsh.2 l1 l2 hs).2
      · rename_i hne
        rw [hist_o i hne]; exact h.histShut i b hb
    · intro i hi
      rw [f1] at hi
      simp only at hi
      split at hi
      · simp at hi
      · rename_i hne; rw [hist_o i hne]; exact h.histNone i hi
  · -- dropped: the serializer is closed or belongs to an older balancer wrapper
    obtain ⟨hq, hacc⟩ := fc hopen
    have hclosed : s.epochOf k < s.epoch ∨ s.ccb.ctxCancelled = true := by
      by_cases he : s.epochOf k = s.epoch
      · right
        by_cases hc : s.ccb.ctxCancelled = true
        · exact hc
        · exact absurd ⟨he, hc⟩ hopen
      · left; have := h.epochLe k; omega
    refine ⟨?_, ?_, ?_, ?_, ?_, ?_, ?_, ?_, ?_, ?_, ?_, ?_, ?_⟩
    · intro i b hb
      rw [f1] at hb
      simp only at hb
      split at hb
      · simp at hb; subst hb; exact ⟨n0, hl0, AcReach.step x hr⟩
      · exact h.acReach i b hb
    · intro i b hb
      rw [f1] at hb; rw [f2]
      simp only at hb
      split at hb
      · rename_i e; subst e; exact hkl
      · exact h.acLt i b hb
    · intro y hy; rw [f7] at hy; rw [f2]
      rcases List.mem_append.mp hy with hy | hy
      · exact h.histLt y hy
      · exact items_lt y hy
    · intro y hy; rw [hacc] at hy; rw [f2]; exact h.accLt y hy
    · intro i; rw [f3, f4]; exact h.epochLe i
    · intro y hy; rw [hq] at hy; rw [f3, f4]; exact h.queueEpoch y hy
    · rw [hacc, f5, hq]; exact h.fifo
    · intro i
      rw [hacc]
      by_cases hi : i = k
      · subst hi; rw [hist_k]; exact prefix_grow (h.accPrefix i) _
      · rw [hist_o i hi]; exact h.accPrefix i
    · intro i hne
      rw [f3, f4, f8]
      by_cases hi : i = k
      · subst hi; exact hclosed
      · rw [hist_o i hi, hacc] at hne; exact h.accClosed i hne
    · intro i; rw [f6, f5]; exact h.delPrefix i
    · intro i hne; rw [f6, f5] at hne; rw [f3, f4, f8, f9, f10]; exact h.delClosed i hne
    · intro i b hb
      rw [f1] at hb
      simp only at hb
      split at hb
      · rename_i e; subst e
        simp at hb; subst hb
        rw [hist_k]
        constructor
        · apply shutLast_append hhs.1
          · by_cases hin : ConnState.shutdown ∈ proj i s.hist
            · right; rw [hsh.1 (hhs.2 hin)]; rfl
            · left; exact hin
          · intro l1 l2 heq; exact (hsh.2 l1 l2 heq).1
        · intro hin
          rcases List.mem_append.mp hin with hin | hin
          · have := hsh.1 (hhs.2 hin)
            rcases changes_shape a x with ⟨_, h2⟩ | ⟨nw, h1, _, _⟩ | ⟨h1, _, _⟩
            · rw [h2]; exact hhs.2 hin
            · rw [this] at h1; simp at h1
            · rw [this] at h1; simp at h1
          · obtain ⟨l1, l2, hs⟩ := List.append_of_mem hin
            exact (hsh.2 l1 l2 hs).2
      · rename_i hne
        rw [hist_o i hne]; exact h.histShut i b hb
    · intro i hi
      rw [f1] at hi
      simp only at hi
      split at hi
      · simp at hi
      · rename_i hne; rw [hist_o i hne]; exact h.histNone i hi

theorem invC_of_eq {s s' : Sys} (h : SInvC s) (e1 : s'.acs = s.acs) (e2 : s'.nextK = s.nextK) (e3 : s'.epochOf = s.epochOf)
    (e4 : s'.epoch = s.epoch) (e5 : s'.ccb = s.ccb) (e6 : s'.hist = s.hist) (e7 : s'.accepted = s.accepted)
    (e8 : s'.popped = s.popped) (e9 : s'.delivered = s.delivered) : SInvC s' := by
  refine ⟨?_, ?_, ?_, ?_, ?_, ?_, ?_, ?_, ?_, ?_, ?_, ?_, ?_⟩
  · rw [e1]; exact h.acReach
  · rw [e1, e2]; exact h.acLt
  · rw [e6, e2]; exact h.histLt
  · rw [e7, e2]; exact h.accLt
  · rw [e3, e4]; exact h.epochLe
  · rw [e5, e3, e4]; exact h.queueEpoch
  · rw [e7, e8, e5]; exact h.fifo
  · rw [e7, e6]; exact h.accPrefix
  · rw [e7, e6, e3, e4, e5]; exact h.accClosed
  · rw [e9, e8]; exact h.delPrefix
  · rw [e9, e8, e3, e4, e5]; exact h.delClosed
  · rw [e1, e6]; exact h.histShut
  · rw [e1, e6]; exact h.histNone

theorem csmUpdate_C (s : Sys) (st : ConnState) :
    (s.csmUpdate st).acs = s.acs ∧ (s.csmUpdate st).nextK = s.nextK ∧ (s.csmUpdate st).epochOf = s.epochOf ∧
    (s.csmUpdate st).epoch = s.epoch ∧ (s.csmUpdate st).ccb = s.ccb ∧ (s.csmUpdate st).hist = s.hist ∧
    (s.csmUpdate st).accepted = s.accepted ∧ (s.csmUpdate st).popped = s.popped ∧ (s.csmUpdate st).delivered = s.delivered ∧
    (s.csmUpdate st).closed = s.closed := by
  rcases csmUpdate_cases s st with ⟨_, he⟩ | ⟨_, _, he⟩ <;> rw [he] <;> simp

theorem invC_csmUpdate {s : Sys} (h : SInvC s) (st : ConnState) : SInvC (s.csmUpdate st) := by
  obtain ⟨e1, e2, e3, e4, e5, e6, e7, e8, e9, _⟩ := csmUpdate_C s st
  exact invC_of_eq h e1 e2 e3 e4 e5 e6 e7 e8 e9

/-- ccb.close(): whatever is still queued is run (and dropped) -/
theorem invC_closeCcb {s : Sys} (h : SInvC s) : SInvC s.closeCcb := by
  refine ⟨h.acReach, h.acLt, h.histLt, h.accLt, h.epochLe, ?_, ?_, h.accPrefix, ?_, ?_, ?_, h.histShut, h.histNone⟩
  · intro y hy; simp [Sys.closeCcb] at hy
  · simp [Sys.closeCcb]; exact h.fifo
  · intro k _; right; rfl
  · intro k
    simp only [Sys.closeCcb, proj_append]
    exact prefix_grow (h.delPrefix k) _
  · intro k _; right; left; rfl

theorem invC_step {s : Sys} (a : Act) (h : SInvC s) : SInvC (step s a) := by
  cases a with
  | ac k x =>
    simp only [step]
    split
    · rename_i a0 hk
      exact invC_ac h k a0 x hk
    · exact h
  | newSubConn n hl =>
    simp only [step]
    split
    · exact h
    · refine ⟨?_, ?_, ?_, ?_, ?_, ?_, h.fifo, ?_, ?_, h.delPrefix, ?_, ?_, ?_⟩
      · intro i b hb
        simp only at hb
        split at hb
        · simp at hb; subst hb; exact ⟨n, hl, AcReach.init⟩
        · exact h.acReach i b hb
      · intro i b hb
        simp only at hb ⊢
        split at hb
        · rename_i e; subst e; omega
        · have := h.acLt i b hb; omega
      · intro y hy; have := h.histLt y hy; simp only; omega
      · intro y hy; have := h.accLt y hy; simp only; omega
      · intro i
        simp only
        split
        · exact Nat.le_refl _
        · exact h.epochLe i
      · intro y hy
        simp only
        have hlt : y.1 < s.nextK := h.accLt y (by rw [h.fifo]; exact List.mem_append_right _ hy)
        have : ¬ y.1 = s.nextK := by omega
        simp only [this, if_false]
        exact h.queueEpoch y hy
      · exact h.accPrefix
      · intro i hne
        simp only
        by_cases hi : i = s.nextK
        · exfalso; apply hne
          rw [hi, proj_nil_of_lt h.accLt (Nat.le_refl _), proj_nil_of_lt h.histLt (Nat.le_refl _)]
        · simp only [hi, if_false]; exact h.accClosed i hne
      · intro i hne
        simp only
        by_cases hi : i = s.nextK
        · exfalso; apply hne
          have hp : ∀ y ∈ s.popped, y.1 < s.nextK := fun y hy => h.accLt y (by rw [h.fifo]; exact List.mem_append_left _ hy)
          have h0 : proj i s.popped = [] := by rw [hi]; exact proj_nil_of_lt hp (Nat.le_refl _)
          have := h.delPrefix i
          rw [h0] at this ⊢
          exact List.prefix_nil.mp this
        · simp only [hi, if_false]; exact h.delClosed i hne
      · intro i b hb
        simp only at hb
        split at hb
        · rename_i e
          simp at hb; subst hb
          rw [e, proj_nil_of_lt h.histLt (Nat.le_refl _)]
          exact ⟨by intro l1 l2 heq; simp at heq, by intro hm; simp at hm⟩
        · exact h.histShut i b hb
      · intro i hi
        simp only at hi
        split at hi
        · simp at hi
        · exact h.histNone i hi
  | deliver =>
    simp only [step]
    split
    · exact h
    · rename_i k st rest hq
      have hfifo : s.accepted = (s.popped ++ [(k, st)]) ++ rest := by rw [h.fifo, hq]; simp
      have hqe : ∀ x ∈ rest, s.epochOf x.1 = s.epoch := fun x hx => h.queueEpoch x (by rw [hq]; exact List.mem_cons_of_mem _ hx)
      have hke : s.epochOf k = s.epoch := h.queueEpoch (k, st) (by rw [hq]; simp)
      have pp : ∀ i, proj i (s.popped ++ [(k, st)]) = proj i s.popped ++ proj i [(k, st)] := fun i => proj_append i _ _
      have dropped : ∀ (rm : List Nat), (∀ i, i ∈ s.ccb.removed → i ∈ rm) →
          (s.ccb.ctxCancelled = true ∨ s.ccb.balancerNil = true ∨ k ∈ s.ccb.removed) →
          SInvC { s with ccb := { s.ccb with queue := rest, removed := rm }, popped := s.popped ++ [(k, st)] } := by
        intro rm hrm hdrop
        refine ⟨h.acReach, h.acLt, h.histLt, h.accLt, h.epochLe, hqe, hfifo, h.accPrefix, h.accClosed, ?_, ?_, h.histShut, h.histNone⟩
        · intro i; simp only [pp]; exact prefix_grow (h.delPrefix i) _
        · intro i hne
          simp only at hne ⊢
          by_cases hi : i = k
          · subst hi
            rcases hdrop with hd | hd | hd
            · exact Or.inr (Or.inl hd)
            · exact Or.inr (Or.inr (Or.inl hd))
            · exact Or.inr (Or.inr (Or.inr (hrm _ hd)))
          · have : proj i [(k, st)] = [] := by simp [proj]; exact fun e => hi e.symm
            rw [pp, this] at hne; simp at hne
            rcases h.delClosed i hne with h1 | h1 | h1 | h1
            · exact Or.inl h1
            · exact Or.inr (Or.inl h1)
            · exact Or.inr (Or.inr (Or.inl h1))
            · exact Or.inr (Or.inr (Or.inr (hrm _ h1)))
      split
      · rename_i hc
        have := dropped s.ccb.removed (fun _ hi => hi) (by rcases hc with hc | hc; exact Or.inl hc; exact Or.inr (Or.inl hc))
        exact this
      · rename_i hc
        split
        · rename_i hrem
          have := dropped s.ccb.removed (fun _ hi => hi) (Or.inr (Or.inr (by simpa using hrem)))
          exact this
        · rename_i hrem
          have hnc : ¬ s.ccb.ctxCancelled = true := fun e => hc (Or.inl e)
          have hnb : ¬ s.ccb.balancerNil = true := fun e => hc (Or.inr e)
          have hnr : ¬ k ∈ s.ccb.removed := by simpa using hrem
          have deq : proj k s.delivered = proj k s.popped := by
            by_cases he : proj k s.delivered = proj k s.popped
            · exact he
            · rcases h.delClosed k he with h1 | h1 | h1 | h1
              · omega
              · exact absurd h1 hnc
              · exact absurd h1 hnb
              · exact absurd h1 hnr
          refine ⟨h.acReach, h.acLt, h.histLt, h.accLt, h.epochLe, hqe, hfifo, h.accPrefix, h.accClosed, ?_, ?_, h.histShut, h.histNone⟩
          · intro i
            simp only [pp, proj_append]
            by_cases hi : i = k
            · subst hi; rw [deq]; exact List.prefix_refl _
            · have : proj i [(k, st)] = [] := by simp [proj]; exact fun e => hi e.symm
              rw [this]; simp; exact h.delPrefix i
          · intro i hne
            simp only [pp, proj_append] at hne
            simp only
            by_cases hi : i = k
            · subst hi; rw [deq] at hne; exact absurd rfl hne
            · have : proj i [(k, st)] = [] := by simp [proj]; exact fun e => hi e.symm
              rw [this] at hne; simp at hne
              rcases h.delClosed i hne with h1 | h1 | h1 | h1
              · exact Or.inl h1
              · exact Or.inr (Or.inl h1)
              · exact Or.inr (Or.inr (Or.inl h1))
              · refine Or.inr (Or.inr (Or.inr ?_))
                split
                · exact List.mem_cons_of_mem _ h1
                · exact h1
  | lbUpdateState st =>
    simp only [step]
    split
    · exact h
    · exact invC_csmUpdate h st
  | exitIdle =>
    simp only [step]
    split
    · exact h
    · exact invC_csmUpdate h _
  | resolverBuildFailed =>
    simp only [step]
    split
    · exact h
    · exact invC_csmUpdate h _
  | enterIdle =>
    simp only [step]
    split
    · exact h
    · have h1 : SInvC (s.closeCcb.csmUpdate .idle) := invC_csmUpdate (invC_closeCcb h) _
      obtain ⟨e1, e2, e3, e4, e5, e6, e7, e8, e9, _⟩ := csmUpdate_C s.closeCcb .idle
      refine ⟨h1.acReach, h1.acLt, h1.histLt, h1.accLt, ?_, ?_, ?_, h1.accPrefix, ?_, h1.delPrefix, ?_, h1.histShut, h1.histNone⟩
      · intro i; have := h1.epochLe i; simp only; omega
      · intro y hy; simp [Ccb.fresh] at hy
      · have hf := h1.fifo
        rw [e5] at hf
        have hq : s.closeCcb.ccb.queue = [] := rfl
        rw [hq] at hf
        simpa [Ccb.fresh] using hf
      · intro i _; left; have := h1.epochLe i; simp only; omega
      · intro i _; left; have := h1.epochLe i; simp only; omega
  | close =>
    simp only [step]
    split
    · exact h
    · have h0 : SInvC { s with closed := true } := invC_of_eq h rfl rfl rfl rfl rfl rfl rfl rfl rfl
      exact invC_closeCcb (invC_csmUpdate h0 _)
  | startWait id src order =>
    simp only [step]
    split
    · exact h
    · exact invC_of_eq h rfl rfl rfl rfl rfl rfl rfl rfl rfl
  | wstep id p =>
    simp only [step]
    split
    · split
      · exact invC_of_eq h rfl rfl rfl rfl rfl rfl rfl rfl rfl
      · exact h
    · exact h
  | wctx id =>
    simp only [step]
    split
    · exact invC_of_eq h rfl rfl rfl rfl rfl rfl rfl rfl rfl
    · exact h

theorem reach_invC {s : Sys} (h : SReach s) : SInvC s := by
  induction h with
  | init => exact invC_init
  | step a _ ih => exact invC_step a ih

theorem proj_prefix_of_fifo {s : Sys} (h : SInvC s) (k : Nat) : proj k s.popped <+: proj k s.accepted := by
  rw [h.fifo, proj_append]; exact List.prefix_append _ _

end GrpcProofs.Lemmas.Connectivity
