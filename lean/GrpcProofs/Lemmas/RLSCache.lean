import GrpcModel.Model.RLSCache
namespace GrpcProofs.Lemmas.RLSCache
open GrpcModel.RLSCache

def sizeAt (en : Nat → Option Entry) (k : Nat) : Int := ((en k).map (·.size)).getD 0

def sumOver (f : Nat → Int) (l : List Nat) : Int := (l.map f).sum

theorem sumSizes_eq (dc : DC) : sumSizes dc = sumOver (sizeAt dc.entries) dc.lru := rfl

theorem sumOver_cons (f : Nat → Int) (a : Nat) (l : List Nat) : sumOver f (a :: l) = f a + sumOver f l := by
  simp [sumOver]

theorem sumOver_append (f : Nat → Int) (l m : List Nat) : sumOver f (l ++ m) = sumOver f l + sumOver f m := by
  simp [sumOver]

theorem sumOver_congr (f g : Nat → Int) (l : List Nat) (h : ∀ k ∈ l, f k = g k) : sumOver f l = sumOver g l := by
  induction l with
  | nil => rfl
  | cons a t ih =>
    rw [sumOver_cons, sumOver_cons, h a (List.mem_cons_self), ih (fun k hk => h k (List.mem_cons_of_mem _ hk))]

theorem sumOver_erase (f : Nat → Int) (l : List Nat) (k : Nat) (hn : l.Nodup) (hk : k ∈ l) :
    sumOver f (l.erase k) = sumOver f l - f k := by
  induction l with
  | nil => cases hk
  | cons a t ih =>
    by_cases e : a = k
    · subst e; simp [sumOver_cons]; omega
    · have hk' : k ∈ t := by
        rcases List.mem_cons.mp hk with h | h
        · exact absurd h.symm e
        · exact h
      have : (a :: t).erase k = a :: t.erase k := by simp [e]
      rw [this, sumOver_cons, sumOver_cons, ih (List.nodup_cons.mp hn).2 hk']; omega

structure WF (dc : DC) : Prop where
  nodup : dc.lru.Nodup
  keys  : ∀ k, (dc.entries k).isSome ↔ k ∈ dc.lru
  size  : dc.currentSize = sumSizes dc

theorem wf_new (n : Int) : WF (newDataCache n) := by
  constructor <;> simp [newDataCache, sumSizes]

theorem delete_wf {dc : DC} {key : Nat} {e : Entry} (h : WF dc) (he : dc.entries key = some e) :
    WF (deleteAndCleanup dc key e) := by
  obtain ⟨h1, h2, h3⟩ := h
  have hk : key ∈ dc.lru := (h2 key).mp (by simp [he])
  refine ⟨h1.erase key, ?_, ?_⟩
  · intro k
    simp only [deleteAndCleanup, setE]
    rw [h1.mem_erase_iff]
    by_cases c : k = key
    · simp [c]
    · simp [c, h2 k]
  · simp only [deleteAndCleanup, sumSizes_eq]
    rw [h3, sumSizes_eq]
    have e1 : sumOver (sizeAt (setE dc.entries key none)) (dc.lru.erase key) =
        sumOver (sizeAt dc.entries) (dc.lru.erase key) := by
      apply sumOver_congr
      intro k hk'
      have : k ≠ key := (h1.mem_erase_iff.mp hk').1
      simp [sizeAt, setE, this]
    rw [e1, sumOver_erase _ _ _ h1 hk]
    simp [sizeAt, he]

/-- what one run of resize's loop does, in terms of the LRU order it started from -/
structure LoopSpec (now : Nat) (size : Int) (dc r : DC) (k : Nat) : Prop where
  wf      : WF r
  kle     : k ≤ dc.lru.length
  lru     : r.lru = dc.lru.drop k
  cur     : r.currentSize = dc.currentSize - sumOver (sizeAt dc.entries) (dc.lru.take k)
  gone    : ∀ x ∈ dc.lru.take k, (∃ e, dc.entries x = some e ∧ e.earliestEvict ≤ now) ∧ r.entries x = none
  kept    : ∀ x, x ∉ dc.lru.take k → r.entries x = dc.entries x
  stop    : r.currentSize ≤ size ∨ r.lru = [] ∨
              ∃ h e, r.lru.head? = some h ∧ r.entries h = some e ∧ e.earliestEvict > now
  minimal : ∀ j, j < k → dc.currentSize - sumOver (sizeAt dc.entries) (dc.lru.take j) > size
  same    : r.maxSize = dc.maxSize ∧ r.shutdown = dc.shutdown

theorem loopSpec_zero {now : Nat} {size : Int} {dc : DC} (h : WF dc)
    (hs : dc.currentSize ≤ size ∨ dc.lru = [] ∨
          ∃ h e, dc.lru.head? = some h ∧ dc.entries h = some e ∧ e.earliestEvict > now) :
    LoopSpec now size dc dc 0 :=
  { wf := h, kle := Nat.zero_le _, lru := by simp, cur := by simp [sumOver],
    gone := by intro x hx; simp at hx, kept := fun _ _ => rfl, stop := hs,
    minimal := by intro j hj; omega, same := ⟨rfl, rfl⟩ }

theorem resizeLoop_spec (now : Nat) (size : Int) :
    ∀ (fuel : Nat) (dc : DC) (bc : Bool), WF dc → dc.lru.length < fuel →
      ∃ k, LoopSpec now size dc (resizeLoop now size fuel dc bc).1 k := by
  intro fuel
  induction fuel with
  | zero => intro dc bc _ hl; omega
  | succ fuel ih =>
    intro dc bc h hl
    unfold resizeLoop
    by_cases hc : dc.currentSize > size
    · rw [if_pos hc]
      cases hlru : dc.lru with
      | nil => exact ⟨0, by simpa [hlru] using loopSpec_zero h (Or.inr (Or.inl hlru))⟩
      | cons key tl =>
        simp only [List.head?_cons]
        have hmem : key ∈ dc.lru := by rw [hlru]; exact List.mem_cons_self
        cases he : dc.entries key with
        | none =>
          have := (h.keys key).mpr hmem
          simp [he] at this
        | some e =>
          simp only []
          by_cases hev : e.earliestEvict > now
          · rw [if_pos hev]
            exact ⟨0, loopSpec_zero h (Or.inr (Or.inr ⟨key, e, by simp [hlru], he, hev⟩))⟩
          · rw [if_neg hev]
            have hwf' := delete_wf h he
            have hlru' : (deleteAndCleanup dc key e).lru = tl := by simp [deleteAndCleanup, hlru]
            have nd : (key :: tl).Nodup := by rw [← hlru]; exact h.nodup
            have hkt : key ∉ tl := (List.nodup_cons.mp nd).1
            suffices hsuf : ∀ b, ∃ k, LoopSpec now size dc (resizeLoop now size fuel (deleteAndCleanup dc key e) b).1 k from
              hsuf _
            intro b
            obtain ⟨k', sp⟩ := ih (deleteAndCleanup dc key e) b hwf' (by rw [hlru']; simp [hlru] at hl; omega)
            refine ⟨k' + 1, ?_⟩
            have ent' : ∀ x, x ≠ key → (deleteAndCleanup dc key e).entries x = dc.entries x := by
              intro x hx; simp [deleteAndCleanup, setE, hx]
            have sz' : sumOver (sizeAt (deleteAndCleanup dc key e).entries) (tl.take k') =
                sumOver (sizeAt dc.entries) (tl.take k') := by
              apply sumOver_congr
              intro x hx
              have : x ≠ key := fun e' => hkt (e' ▸ List.mem_of_mem_take hx)
              simp [sizeAt, ent' x this]
            constructor
            · exact sp.wf
            · have := sp.kle; rw [hlru'] at this; rw [hlru]; simp; omega
            · rw [sp.lru, hlru', hlru]; simp
            · rw [sp.cur, hlru', sz', hlru]
              simp only [List.take_succ_cons, sumOver_cons, deleteAndCleanup]
              simp [sizeAt, he]; omega
            · intro x hx
              rw [hlru] at hx
              simp only [List.take_succ_cons] at hx
              rcases List.mem_cons.mp hx with rfl | hx
              · refine ⟨⟨e, he, by omega⟩, ?_⟩
                have : x ∉ (deleteAndCleanup dc x e).lru.take k' := by
                  rw [hlru']; exact fun hm => hkt (List.mem_of_mem_take hm)
                rw [sp.kept x this]; simp [deleteAndCleanup, setE]
              · have hx' : x ∈ (deleteAndCleanup dc key e).lru.take k' := by rw [hlru']; exact hx
                have hne : x ≠ key := fun e' => hkt (e' ▸ List.mem_of_mem_take hx)
                obtain ⟨⟨e2, h2, h3⟩, h4⟩ := sp.gone x hx'
                exact ⟨⟨e2, by rw [← ent' x hne]; exact h2, h3⟩, h4⟩
            · intro x hx
              rw [hlru] at hx
              simp only [List.take_succ_cons, List.mem_cons, not_or] at hx
              have : x ∉ (deleteAndCleanup dc key e).lru.take k' := by rw [hlru']; exact hx.2
              rw [sp.kept x this, ent' x hx.1]
            · exact sp.stop
            · intro j hj
              rw [hlru]
              cases j with
              | zero => simpa [sumOver] using hc
              | succ j =>
                have := sp.minimal j (by omega)
                rw [hlru'] at this
                have sz'' : sumOver (sizeAt (deleteAndCleanup dc key e).entries) (tl.take j) =
                    sumOver (sizeAt dc.entries) (tl.take j) := by
                  apply sumOver_congr
                  intro x hx
                  have : x ≠ key := fun e' => hkt (e' ▸ List.mem_of_mem_take hx)
                  simp [sizeAt, ent' x this]
                rw [sz''] at this
                simp only [List.take_succ_cons, sumOver_cons]
                simp only [deleteAndCleanup] at this
                simp [sizeAt, he]; omega
            · exact ⟨sp.same.1, sp.same.2⟩
    · rw [if_neg hc]
      exact ⟨0, loopSpec_zero h (Or.inl (by omega))⟩

theorem resize_wf {dc : DC} (now : Nat) (n : Int) (h : WF dc) : WF (resize dc now n).1 := by
  unfold resize
  split
  · exact h
  · obtain ⟨k, sp⟩ := resizeLoop_spec now n (dc.lru.length + 1) dc false h (by omega)
    obtain ⟨w1, w2, w3⟩ := sp.wf
    exact ⟨w1, w2, w3⟩

theorem evict_fold_wf (now : Nat) (keys : List Nat) (acc : DC × Bool) (h : WF acc.1) :
    WF (keys.foldl (fun (acc : DC × Bool) key =>
      match acc.1.entries key with
      | some e => if expired now e then (deleteAndCleanup acc.1 key e, true) else acc
      | none => acc) acc).1 := by
  induction keys generalizing acc with
  | nil => exact h
  | cons k t ih =>
    simp only [List.foldl]
    apply ih
    cases he : acc.1.entries k with
    | none => exact h
    | some e =>
      simp only []
      split
      · exact delete_wf h he
      · exact h

theorem evictExpired_wf {dc : DC} (now : Nat) (h : WF dc) : WF (evictExpired dc now).1 := by
  unfold evictExpired
  split
  · exact h
  · exact evict_fold_wf now dc.lru (dc, false) h

theorem add_wf {dc : DC} (now key : Nat) (e : Entry) (h : WF dc) (hk : dc.entries key = none) :
    WF (addEntry dc now key e).1 := by
  unfold addEntry
  split
  · exact h
  · split
    · exact h
    · have hn : key ∉ dc.lru := fun hm => by have := (h.keys key).mpr hm; simp [hk] at this
      have w1 : WF { dc with entries := setE dc.entries key (some e), currentSize := dc.currentSize + e.size,
                             lru := dc.lru ++ [key] } := by
        refine ⟨?_, ?_, ?_⟩
        · exact List.nodup_append.mpr ⟨h.nodup, by simp, by intro a ha b hb; simp at hb; subst hb; exact fun e' => hn (e' ▸ ha)⟩
        · intro k
          simp only [setE, List.mem_append, List.mem_singleton]
          by_cases c : k = key
          · simp [c]
          · simp [c, h.keys k]
        · simp only [sumSizes_eq, sumOver_append]
          rw [h.size, sumSizes_eq]
          have : sumOver (sizeAt (setE dc.entries key (some e))) dc.lru = sumOver (sizeAt dc.entries) dc.lru := by
            apply sumOver_congr
            intro k hk'
            have : k ≠ key := fun e' => hn (e' ▸ hk')
            simp [sizeAt, setE, this]
          rw [this]
          simp [sumOver, sizeAt, setE]
      simp only []
      split
      · exact resize_wf now _ w1
      · exact w1

theorem get_wf {dc : DC} (key : Nat) (h : WF dc) : WF (getEntry dc key).1 := by
  unfold getEntry
  split
  · exact h
  · cases he : dc.entries key with
    | none => exact h
    | some e =>
      simp only []
      have hk : key ∈ dc.lru := (h.keys key).mp (by simp [he])
      refine ⟨?_, ?_, ?_⟩
      · refine List.nodup_append.mpr ⟨h.nodup.erase key, by simp, ?_⟩
        intro a ha b hb
        simp at hb; subst hb
        exact fun e' => (h.nodup.mem_erase_iff.mp (e' ▸ ha)).1 rfl
      · intro k
        simp only [List.mem_append, List.mem_singleton, h.nodup.mem_erase_iff]
        rw [h.keys k]
        by_cases c : k = key
        · simp [c, hk]
        · simp [c]
      · simp only [sumSizes_eq, sumOver_append]
        rw [h.size, sumSizes_eq, sumOver_erase _ _ _ h.nodup hk]
        simp [sumOver]

theorem upd_wf {dc : DC} (key : Nat) (n : Int) (h : WF dc) : WF (updateEntrySize dc key n) := by
  unfold updateEntrySize
  cases he : dc.entries key with
  | none => exact h
  | some e =>
    simp only []
    have hk : key ∈ dc.lru := (h.keys key).mp (by simp [he])
    refine ⟨h.nodup, ?_, ?_⟩
    · intro k
      simp only [setE]
      by_cases c : k = key
      · simp [c, hk]
      · simp [c, h.keys k]
    · simp only [sumSizes_eq]
      rw [h.size, sumSizes_eq]
      -- split both sums at `key`
      have s1 := sumOver_erase (sizeAt dc.entries) dc.lru key h.nodup hk
      have s2 := sumOver_erase (sizeAt (setE dc.entries key (some { e with size := n }))) dc.lru key h.nodup hk
      have s3 : sumOver (sizeAt (setE dc.entries key (some { e with size := n }))) (dc.lru.erase key) =
          sumOver (sizeAt dc.entries) (dc.lru.erase key) := by
        apply sumOver_congr
        intro k hk'
        have : k ≠ key := (h.nodup.mem_erase_iff.mp hk').1
        simp [sizeAt, setE, this]
      have a1 : sizeAt dc.entries key = e.size := by simp [sizeAt, he]
      have a2 : sizeAt (setE dc.entries key (some { e with size := n })) key = n := by simp [sizeAt, setE]
      omega

theorem rm_wf {dc : DC} (key : Nat) (h : WF dc) : WF (removeEntry dc key) := by
  unfold removeEntry
  cases he : dc.entries key with
  | none => exact h
  | some e => exact delete_wf h he

theorem rbo_wf {dc : DC} (h : WF dc) : WF (resetBackoff dc).1 := by
  unfold resetBackoff
  split
  · exact h
  · refine ⟨h.nodup, ?_, ?_⟩
    · intro k; simp only []; rw [← h.keys k]; cases dc.entries k <;> simp
    · simp only [sumSizes_eq]
      rw [h.size, sumSizes_eq]
      apply sumOver_congr
      intro k _
      simp only [sizeAt]
      cases dc.entries k with
      | none => rfl
      | some e => simp only [Option.map]; split <;> rfl

theorem stop_fold_wf (keys : List Nat) (acc : DC) (h : WF acc) :
    WF (keys.foldl (fun acc key => match acc.entries key with
      | some e => deleteAndCleanup acc key e
      | none => acc) acc) := by
  induction keys generalizing acc with
  | nil => exact h
  | cons k t ih =>
    simp only [List.foldl]
    apply ih
    cases he : acc.entries k with
    | none => exact h
    | some e => exact delete_wf h he

theorem stop_wf {dc : DC} (h : WF dc) : WF (stop dc) := by
  unfold stop
  have := stop_fold_wf dc.lru dc h
  exact ⟨this.nodup, this.keys, this.size⟩

/-- the operations of the cache, with the clock reading they see -/
inductive COp
  | add (now key : Nat) (e : Entry)
  | get (key : Nat)
  | resize (now : Nat) (n : Int)
  | evict (now : Nat)
  | upd (key : Nat) (n : Int)
  | rm (key : Nat)
  | rbo
  | stop

def cstep (dc : DC) : COp → DC
  | .add now key e => (addEntry dc now key e).1
  | .get key => (getEntry dc key).1
  | .resize now n => (resize dc now n).1
  | .evict now => (evictExpired dc now).1
  | .upd key n => updateEntrySize dc key n
  | .rm key => removeEntry dc key
  | .rbo => (resetBackoff dc).1
  | .stop => stop dc

/-- the caller contract: addEntry is only called for keys that are not in the cache -/
def okOp (dc : DC) : COp → Prop
  | .add _ key _ => dc.entries key = none
  | _ => True

def runOK : DC → List COp → Prop
  | _, [] => True
  | dc, o :: t => okOp dc o ∧ runOK (cstep dc o) t

theorem cstep_wf {dc : DC} (o : COp) (h : WF dc) (ok : okOp dc o) : WF (cstep dc o) := by
  cases o with
  | add now key e => exact add_wf now key e h ok
  | get key => exact get_wf key h
  | resize now n => exact resize_wf now n h
  | evict now => exact evictExpired_wf now h
  | upd key n => exact upd_wf key n h
  | rm key => exact rm_wf key h
  | rbo => exact rbo_wf h
  | stop => exact stop_wf h

theorem run_wf (ops : List COp) {dc : DC} (h : WF dc) (ok : runOK dc ops) : WF (ops.foldl cstep dc) := by
  induction ops generalizing dc with
  | nil => exact h
  | cons o t ih => exact ih (cstep_wf o h ok.1) ok.2

end GrpcProofs.Lemmas.RLSCache
