import GrpcModel.Model.ServerDrain
import GrpcProofs.Lemmas.ClientConn
/-! Lemmas about `GrpcModel.ServerDrain` (server half of C14). -/
namespace GrpcProofs.Lemmas.ServerDrain
open GrpcModel.ServerDrain

/-- case-split every `if`/`match` of the goal, inlining `let`s when they are in the way -/
macro "ssplits" : tactic => `(tactic| repeat' (first | split | (simp only []; split)))

def ids (s : State) : List Nat := s.streams.map (·.id)

@[simp] theorem put_streams (s : State) (it : Item) : (s.put it).streams = s.streams := by unfold State.put; split <;> rfl
@[simp] theorem put_tstate (s : State) (it : Item) : (s.put it).tstate = s.tstate := by unfold State.put; split <;> rfl
@[simp] theorem put_max (s : State) (it : Item) : (s.put it).maxStreamID = s.maxStreamID := by unfold State.put; split <;> rfl
@[simp] theorem put_final (s : State) (it : Item) : (s.put it).finalGoAway = s.finalGoAway := by unfold State.put; split <;> rfl

@[simp] theorem updStream_ids (s : State) (id : Nat) (f : SStrm → SStrm) (hf : ∀ x, (f x).id = x.id) :
    ids (s.updStream id f) = ids s := by
  simp only [ids, State.updStream, List.map_map]
  apply List.map_congr_left
  intro x _
  simp only [Function.comp]
  split <;> simp [hf]

/-- what one event can do to the fields the drain properties talk about -/
structure Eff (s s' : State) : Prop where
  max : s.maxStreamID ≤ s'.maxStreamID
  notReach : s.tstate ≠ .reachable → s'.tstate ≠ .reachable
  idsEq : ids s' = ids s ∨ (s.tstate = .reachable ∧ s.maxStreamID < s'.maxStreamID ∧ ids s' = ids s ++ [s'.maxStreamID])
  final : s'.finalGoAway = s.finalGoAway ∨ (s'.finalGoAway = some s.maxStreamID ∧ s'.maxStreamID = s.maxStreamID ∧ s'.tstate ≠ .reachable)

theorem Eff.refl (s : State) : Eff s s := ⟨Nat.le_refl _, id, Or.inl rfl, Or.inl rfl⟩

/-- states that differ only in fields `Eff` does not look at -/
theorem Eff.of_eq {s s' : State} (h1 : s'.streams = s.streams) (h2 : s'.tstate = s.tstate) (h3 : s'.maxStreamID = s.maxStreamID)
    (h4 : s'.finalGoAway = s.finalGoAway) : Eff s s' :=
  ⟨by rw [h3]; exact Nat.le_refl _, by rw [h2]; exact id, Or.inl (by simp [ids, h1]), Or.inl h4⟩

theorem Eff.trans_eq {s s1 s' : State} (h : Eff s s1) (h1 : s'.streams = s1.streams) (h2 : s'.tstate = s1.tstate)
    (h3 : s'.maxStreamID = s1.maxStreamID) (h4 : s'.finalGoAway = s1.finalGoAway) : Eff s s' := by
  obtain ⟨a, b, c, d⟩ := h
  refine ⟨by rw [h3]; exact a, by rw [h2]; exact b, ?_, ?_⟩
  · have : ids s' = ids s1 := by simp [ids, h1]
    rw [this, h3]; exact c
  · rw [h4, h3, h2]; exact d

theorem ids_map_id (l : List SStrm) (f : SStrm → SStrm) (hf : ∀ x, (f x).id = x.id) : (l.map f).map (·.id) = l.map (·.id) := by
  simp [List.map_map, Function.comp, hf]

/-- leaf: the new state's four fields are read off by `simp` -/
macro "eff_leaf" : tactic => `(tactic|
  (first
   | exact Eff.refl _
   | (refine ⟨?_, ?_, ?_, ?_⟩
      · simp
      · simp
      · left
        simp only [ids]
        first
          | rfl
          | (simp; done)
          | (apply ids_map_id; intro x; (repeat' split) <;> rfl)
          | (simp [State.updStream, State.finish]; apply List.map_congr_left; intro x _; (repeat' split) <;> simp)
      · left; simp)))

theorem eff_put (s : State) (it : Item) : Eff s (s.put it) := Eff.of_eq (by simp) (by simp) (by simp) (by simp)

theorem eff_close (s : State) : Eff s s.close := by
  unfold State.close
  split
  · exact Eff.refl _
  · refine ⟨by simp [State.finish], by simp [State.finish], Or.inl ?_, Or.inl (by simp [State.finish])⟩
    simp only [ids, State.finish]
    apply ids_map_id
    intro x; split <;> rfl

theorem eff_readerExit (s : State) : Eff s s.readerExit := by
  unfold State.readerExit
  split
  · exact Eff.refl _
  · exact (eff_close s).trans_eq rfl rfl rfl rfl

theorem eff_onHeaders (s : State) (sid : Nat) : Eff s (s.onHeaders sid) := by
  unfold State.onHeaders
  split
  · exact Eff.refl _
  · split
    · exact eff_put ..
    · rename_i hlegal
      have hlt : s.maxStreamID < sid := by
        simp at hlegal; omega
      simp only []
      split
      · rename_i hnr
        exact ⟨by simp; omega, by simp, Or.inl rfl, Or.inl rfl⟩
      · rename_i hr
        have hr' : s.tstate = .reachable := by simpa using hr
        refine ⟨by simp; omega, by simp [hr'], Or.inr ⟨hr', by simp; exact hlt, by simp [ids]⟩, Or.inl (by simp)⟩

theorem eff_drain (s : State) : Eff s s.drain := by
  unfold State.drain; split
  · exact Eff.refl _
  · exact Eff.of_eq (by simp) (by simp) (by simp) (by simp)

theorem eff_onPingAck (s : State) (d : Bytes) : Eff s (s.onPingAck d) := by
  unfold State.onPingAck; ssplits <;> first | exact Eff.refl _ | exact Eff.of_eq rfl rfl rfl rfl

theorem eff_onPing (s : State) (d : Bytes) : Eff s (s.onPing d) := by
  unfold State.onPing; split
  · exact Eff.refl _
  · exact eff_put ..

theorem eff_updStream (s : State) (sid : Nat) (f : SStrm → SStrm) (hf : ∀ x, (f x).id = x.id) : Eff s (s.updStream sid f) :=
  ⟨Nat.le_refl _, fun h => h, Or.inl (updStream_ids s sid f hf), Or.inl rfl⟩


/-- `f` leaves the four fields alone -/
def Keeps (f : State → State) : Prop :=
  ∀ s, (f s).streams = s.streams ∧ (f s).tstate = s.tstate ∧ (f s).maxStreamID = s.maxStreamID ∧ (f s).finalGoAway = s.finalGoAway

theorem keeps_loopyExit (c : Bool) : Keeps (fun s => (s.loopyExit c).1) := by
  intro s; unfold State.loopyExit; ssplits <;> simp [State.finish]

theorem keeps_afterCleanup (sid : Nat) (r : Bool) (c : Nat) : Keeps (fun s => (s.afterCleanup sid r c).1) := by
  intro s
  unfold State.afterCleanup
  simp only []
  have k1 : ∀ (t : State) (b : Bool), (t.streams = s.streams ∧ t.tstate = s.tstate ∧ t.maxStreamID = s.maxStreamID ∧ t.finalGoAway = s.finalGoAway) →
      ((t.loopyExit b).1.streams = s.streams ∧ (t.loopyExit b).1.tstate = s.tstate ∧ (t.loopyExit b).1.maxStreamID = s.maxStreamID ∧
        (t.loopyExit b).1.finalGoAway = s.finalGoAway) := by
    intro t b ht
    have := keeps_loopyExit b t
    simp only [] at this
    exact ⟨this.1.trans ht.1, this.2.1.trans ht.2.1, this.2.2.1.trans ht.2.2.1, this.2.2.2.trans ht.2.2.2⟩
  ssplits
  all_goals first
    | exact k1 _ _ ⟨rfl, rfl, rfl, rfl⟩
    | exact ⟨rfl, rfl, rfl, rfl⟩

theorem keeps_afterFinalFlush (r : Bool) : Keeps (fun s => (s.afterFinalFlush r).1) := by
  intro s; unfold State.afterFinalFlush; split
  · exact keeps_loopyExit true s
  · simp

theorem Eff.of_keeps {s : State} {f : State → State} (h : Keeps f) : Eff s (f s) :=
  Eff.of_eq (h s).1 (h s).2.1 (h s).2.2.1 (h s).2.2.2

theorem Eff.then_keeps {s s1 : State} (h0 : Eff s s1) {f : State → State} (h : Keeps f) : Eff s (f s1) :=
  h0.trans_eq (h s1).1 (h s1).2.1 (h s1).2.2.1 (h s1).2.2.2

theorem eff_upd_put (s : State) (sid : Nat) (f : SStrm → SStrm) (it : Item) (hf : ∀ x, (f x).id = x.id) :
    Eff s ((s.updStream sid f).put it) :=
  (eff_updStream s sid f hf).trans_eq (by simp) (by simp) (by simp) (by simp)

/-- `f` applied to a state that agrees with `s` on the four fields -/
theorem Eff.via {s : State} {f : State → State} (hk : Keeps f) (t : State) (h1 : t.streams = s.streams) (h2 : t.tstate = s.tstate)
    (h3 : t.maxStreamID = s.maxStreamID) (h4 : t.finalGoAway = s.finalGoAway) : Eff s (f t) :=
  (Eff.of_eq (s := s) (s' := t) h1 h2 h3 h4).then_keeps hk

theorem eff_onRST (s : State) (sid : Nat) : Eff s (s.onRST sid) := by
  unfold State.onRST
  ssplits
  all_goals first
    | exact Eff.refl _
    | exact eff_upd_put _ _ _ _ (fun _ => rfl)

theorem eff_finishStream (s : State) (sid : Nat) : Eff s (s.finishStream sid).1 := by
  unfold State.finishStream
  ssplits
  all_goals first
    | exact Eff.refl _
    | exact eff_upd_put _ _ _ _ (fun _ => rfl)

theorem eff_loopyFlush (s : State) : Eff s s.loopyFlush.1 := by
  unfold State.loopyFlush; ssplits <;> first | exact Eff.refl _ | exact Eff.of_eq rfl rfl rfl rfl

theorem eff_release (s : State) : Eff s s.release.1 := by
  unfold State.release
  simp only []
  ssplits
  all_goals first
    | exact Eff.of_eq rfl rfl rfl rfl
    | exact Eff.via (keeps_loopyExit true) _ rfl rfl rfl rfl
    | exact Eff.via (keeps_afterFinalFlush _) _ rfl rfl rfl rfl

theorem eff_loopyAbort (s : State) : Eff s s.loopyAbort.1 := by
  unfold State.loopyAbort
  ssplits
  all_goals first
    | exact Eff.refl _
    | exact Eff.via (keeps_loopyExit false) _ rfl rfl rfl rfl

theorem eff_waiterFire (s : State) : Eff s s.waiterFire := by
  unfold State.waiterFire
  ssplits
  all_goals first
    | exact Eff.refl _
    | exact Eff.of_eq rfl rfl rfl rfl
    | exact Eff.of_eq (by simp) (by simp) (by simp) (by simp)

theorem eff_closeTimerFire (s : State) : Eff s s.closeTimerFire := by
  unfold State.closeTimerFire; ssplits <;> first | exact Eff.refl _ | exact Eff.of_eq rfl rfl rfl rfl

/-- loopy exits right after the transport was put into `draining` -/
theorem eff_toDraining (s T : State) (c : Bool) (h1 : T.streams = s.streams) (h2 : T.tstate = .draining)
    (h3 : T.maxStreamID = s.maxStreamID) (h4 : T.finalGoAway = s.finalGoAway) : Eff s (T.loopyExit c).1 := by
  have k := keeps_loopyExit c T
  simp only [] at k
  exact ⟨by rw [k.2.2.1, h3]; exact Nat.le_refl _, fun _ => by rw [k.2.1, h2]; simp, Or.inl (by simp [ids, k.1, h1]),
    Or.inl (by rw [k.2.2.2, h4])⟩

/-- the final GOAWAY(maxStreamID) has been written and flushed -/
theorem eff_final (s T : State) (r : Bool) (h1 : T.streams = s.streams) (h2 : T.tstate = .draining)
    (h3 : T.maxStreamID = s.maxStreamID) (h4 : T.finalGoAway = some s.maxStreamID) : Eff s (T.afterFinalFlush r).1 := by
  have k := keeps_afterFinalFlush r T
  simp only [] at k
  exact ⟨by rw [k.2.2.1, h3]; exact Nat.le_refl _, fun _ => by rw [k.2.1, h2]; simp, Or.inl (by simp [ids, k.1, h1]),
    Or.inr ⟨by rw [k.2.2.2, h4], by rw [k.2.2.1, h3], by rw [k.2.1, h2]; simp⟩⟩

/-- the loopy step: the only place where the final GOAWAY is written -/
theorem eff_loopyStep (s : State) : Eff s s.loopyStep.1 := by
  unfold State.loopyStep
  split
  · exact Eff.refl _
  · split
    · exact Eff.refl _
    · rename_i it rest _
      have e0 : Eff s ({ s with cbuf := rest } : State) := Eff.of_eq rfl rfl rfl rfl
      simp only []
      cases it with
      | register id => exact Eff.of_eq rfl rfl rfl rfl
      | trailers id rst =>
        simp only []
        ssplits
        all_goals first
          | exact e0
          | exact Eff.via (keeps_loopyExit _) _ rfl rfl rfl rfl
          | exact Eff.via (keeps_afterCleanup _ _ _) _ rfl rfl rfl rfl
          | (refine Eff.then_keeps (s := s) (s1 := (({ s with cbuf := rest } : State).write (.H id)).updStream id (fun x => { x with active := false })) ?_ (keeps_afterCleanup _ _ _)
             refine ⟨Nat.le_refl _, fun h => h, Or.inl ?_, Or.inl rfl⟩
             exact updStream_ids _ _ _ (fun _ => rfl))
      | cleanup id rst code => exact Eff.via (keeps_afterCleanup _ _ _) _ rfl rfl rfl rfl
      | pingAck d =>
        simp only []
        ssplits
        all_goals first
          | exact Eff.via (keeps_loopyExit _) _ rfl rfl rfl rfl
          | exact Eff.of_eq rfl rfl rfl rfl
      | goAway headsUp code closeConn =>
        simp only []
        split
        · exact Eff.via (keeps_loopyExit _) _ rfl rfl rfl rfl
        · split
          · split
            · exact Eff.via (keeps_loopyExit _) _ rfl rfl rfl rfl
            · exact Eff.of_eq rfl rfl rfl rfl
          · (try simp only [])
            split
            · exact eff_toDraining s _ _ rfl rfl rfl rfl
            · split
              · exact ⟨Nat.le_refl _, fun _ => by simp [State.write], Or.inl rfl, Or.inr ⟨rfl, rfl, by simp [State.write]⟩⟩
              · exact eff_final s _ _ rfl rfl rfl rfl

theorem eff_step (s : State) (e : Ev) : Eff s (step s e).1 := by
  cases e <;> simp only [step]
  · exact eff_onHeaders ..
  · exact eff_drain ..
  · exact eff_onPingAck ..
  · exact eff_onPing ..
  · exact eff_onRST ..
  · exact eff_finishStream ..
  · exact eff_loopyStep ..
  · exact eff_loopyFlush ..
  · exact eff_loopyAbort ..
  · exact eff_waiterFire ..
  · exact eff_closeTimerFire ..
  · exact eff_readerExit ..
  · exact eff_close ..
  · exact Eff.of_eq rfl rfl rfl rfl
  · exact eff_release ..
  · exact Eff.of_eq rfl rfl rfl rfl
  · exact Eff.of_eq rfl rfl rfl rfl

/-- the invariant of the drain: accepted ids never exceed `maxStreamID`; once the final GOAWAY(n) is out the
transport is not `reachable` and every accepted id is ≤ n -/
structure DInv (s : State) : Prop where
  le : ∀ i ∈ ids s, i ≤ s.maxStreamID
  fin : ∀ n, s.finalGoAway = some n → s.tstate ≠ .reachable ∧ ∀ i ∈ ids s, i ≤ n

theorem dinv_init : DInv init := ⟨by simp [ids, init], by simp [init]⟩

theorem dinv_step {s : State} (h : DInv s) (e : Ev) : DInv (step s e).1 := by
  obtain ⟨a, b, c, d⟩ := eff_step s e
  generalize (step s e).1 = s' at a b c d
  constructor
  · intro i hi
    rcases c with c | ⟨_, hlt, c⟩
    · rw [c] at hi; exact Nat.le_trans (h.le i hi) a
    · rw [c] at hi
      simp at hi
      rcases hi with hi | hi
      · exact Nat.le_trans (h.le i hi) a
      · omega
  · intro n hn
    rcases d with d | ⟨d1, d2, d3⟩
    · rw [d] at hn
      have := h.fin n hn
      refine ⟨b this.1, fun i hi => ?_⟩
      rcases c with c | ⟨hr, _, _⟩
      · rw [c] at hi; exact this.2 i hi
      · exact absurd hr this.1
    · rw [d1] at hn
      have hn' : n = s.maxStreamID := (Option.some.inj hn).symm
      refine ⟨d3, fun i hi => ?_⟩
      rcases c with c | ⟨_, hlt, _⟩
      · rw [c] at hi; rw [hn']; exact h.le i hi
      · omega

theorem dinv_run {s : State} (h : DInv s) (es : List Ev) : DInv (run s es) := by
  induction es generalizing s with
  | nil => exact h
  | cons e es ih => exact ih (dinv_step h e)

end GrpcProofs.Lemmas.ServerDrain
