import GrpcModel.Model.ServerDrain
/-!
Lemmas about `GrpcModel.ServerDrain` (server half of C14).

`core s` is the part of the state the drain properties talk about; `CStep` lists everything a single
critical section can do to it; `core_step` shows that every event is a sequence of `CStep`s; the
invariants are then proved on `Core` alone.
-/
namespace GrpcProofs.Lemmas.ServerDrain
open GrpcModel.ServerDrain

/-- case-split every `if`/`match` of the goal, inlining `let`s when they are in the way -/
macro "ssplits" : tactic => `(tactic| repeat' (first | split | (simp only []; split)))

def ids (s : State) : List Nat := s.streams.map (·.id)

structure Core where
  max : Nat                 -- t.maxStreamID
  ts : TState
  fin : Option Nat          -- id chosen by the final GOAWAY of a graceful drain
  dr : List Nat             -- HEADERS silently dropped
  pend : Option Nat         -- reader inside operateHeaders (holds maxStreamMu)
  err : Bool                -- an error GOAWAY was handled
  ids : List Nat            -- streams handed to a handler
deriving DecidableEq

def core (s : State) : Core :=
  { max := s.maxStreamID, ts := s.tstate, fin := s.finalGoAway, dr := s.dropped, pend := s.hdrPending,
    err := s.errGoAway, ids := ids s }

/-- what one critical section can do to the core -/
inductive CStep : Core → Core → Prop
  | hdrA (c : Core) (p : Nat) : c.pend = none → c.max < p → CStep c { c with max := p, pend := some p }
  | accept (c : Core) (p : Nat) : c.pend = some p → c.ts = .reachable → CStep c { c with pend := none, ids := c.ids ++ [p] }
  | drop (c : Core) (p : Nat) : c.pend = some p → c.ts ≠ .reachable → CStep c { c with pend := none, dr := c.dr ++ [p] }
  | finalG (c : Core) : c.pend = none → c.ts ≠ .closing →
      CStep c { c with ts := .draining, fin := match c.fin with | some n => some n | none => some c.max }
  | finalE (c : Core) : c.pend = none → c.ts ≠ .closing → CStep c { c with ts := .draining, err := true }
  | closing (c : Core) : CStep c { c with ts := .closing }

inductive CSteps : Core → Core → Prop
  | refl (c : Core) : CSteps c c
  | tail {a b c : Core} : CSteps a b → CStep b c → CSteps a c

theorem CSteps.one {a b : Core} (h : CStep a b) : CSteps a b := .tail (.refl a) h

theorem CSteps.trans {a b c : Core} (h1 : CSteps a b) (h2 : CSteps b c) : CSteps a c := by
  induction h2 with
  | refl => exact h1
  | tail _ st ih => exact .tail ih st

theorem CSteps.of_eq {a b : Core} (h : b = a) : CSteps a b := by rw [h]; exact .refl a

/-! ### functions that leave the core alone -/

def KeepsC (f : State → State) : Prop := ∀ s, core (f s) = core s

theorem core_put (s : State) (it : Item) : core (s.put it) = core s := by
  unfold State.put; split <;> rfl

theorem ids_map_id (l : List SStrm) (f : SStrm → SStrm) (hf : ∀ x, (f x).id = x.id) : (l.map f).map (·.id) = l.map (·.id) := by
  simp [List.map_map, Function.comp, hf]

theorem core_updStream (s : State) (sid : Nat) (f : SStrm → SStrm) (hf : ∀ x, (f x).id = x.id) :
    core (s.updStream sid f) = core s := by
  simp only [core, State.updStream, ids]
  congr 1
  apply ids_map_id
  intro x; split <;> simp [hf]

theorem keepsC_loopyExit (c : Bool) : KeepsC (fun s => (s.loopyExit c).1) := by
  intro s; unfold State.loopyExit; ssplits <;> rfl

theorem keepsC_afterCleanup (sid : Nat) (r : Bool) (c : Nat) : KeepsC (fun s => (s.afterCleanup sid r c).1) := by
  intro s
  unfold State.afterCleanup
  simp only []
  have k1 : ∀ (t : State) (b : Bool), core t = core s → core (t.loopyExit b).1 = core s := by
    intro t b ht; exact (keepsC_loopyExit b t).trans ht
  ssplits
  all_goals first
    | exact k1 _ _ rfl
    | rfl

theorem keepsC_afterFinalFlush (r : Bool) : KeepsC (fun s => (s.afterFinalFlush r).1) := by
  intro s; unfold State.afterFinalFlush; split
  · exact keepsC_loopyExit true s
  · rfl

/-- `f` applied to a state with the same core as `s` -/
theorem core_via {s : State} {f : State → State} (hk : KeepsC f) (t : State) (h : core t = core s) : core (f t) = core s :=
  (hk t).trans h

/-! ### every event is a sequence of core steps -/

theorem core_close (s : State) (h : s.tstate ≠ .closing) : core s.close = { core s with ts := .closing } := by
  unfold State.close
  simp only [h, if_false]
  simp only [core, State.finish, ids]
  congr 1
  apply ids_map_id
  intro x; split <;> rfl

theorem cs_close (s : State) : CSteps (core s) (core s.close) := by
  by_cases h : s.tstate = .closing
  · unfold State.close; simp only [h, if_true]; exact .refl _
  · rw [core_close s h]; exact .one (.closing _)

theorem cs_readerExit (s : State) : CSteps (core s) (core s.readerExit) := by
  unfold State.readerExit
  split
  · exact .refl _
  · exact cs_close s

theorem cs_hdrA (s : State) (sid : Nat) : CSteps (core s) (core (s.hdrA sid)) := by
  unfold State.hdrA
  split
  · exact .refl _
  · rename_i h0
    have hp : s.hdrPending = none := by
      cases h : s.hdrPending <;> simp_all
    split
    · exact .of_eq (core_put ..)
    · rename_i hlegal
      have hlt : s.maxStreamID < sid := by simp at hlegal; omega
      exact .one (CStep.hdrA (core s) sid hp hlt)

theorem cs_hdrB (s : State) : CSteps (core s) (core s.hdrB) := by
  unfold State.hdrB
  split
  · exact .refl _
  · rename_i sid hp
    simp only []
    split
    · rename_i hn
      exact .one (CStep.drop (core s) sid hp hn)
    · rename_i hr
      have hr' : s.tstate = .reachable := by simpa using hr
      have : core (({ ({ s with hdrPending := none } : State) with
          streams := s.streams ++ [({ id := sid, active := true, done := false, cancelled := false } : SStrm)] } : State).put (.register sid))
          = { core s with pend := none, ids := (core s).ids ++ [sid] } := by
        rw [core_put]; simp [core, ids]
      rw [this]
      exact .one (CStep.accept (core s) sid hp hr')

theorem cs_onHeaders (s : State) (sid : Nat) : CSteps (core s) (core (s.onHeaders sid)) :=
  (cs_hdrA s sid).trans (cs_hdrB _)

theorem core_drain (s : State) : core s.drain = core s := by
  unfold State.drain; split
  · rfl
  · exact core_put ..

theorem core_onPingAck (s : State) (d : Bytes) : core (s.onPingAck d) = core s := by
  unfold State.onPingAck; ssplits <;> rfl

theorem core_onPing (s : State) (d : Bytes) : core (s.onPing d) = core s := by
  unfold State.onPing; split
  · rfl
  · exact core_put ..

theorem core_onRST (s : State) (sid : Nat) : core (s.onRST sid) = core s := by
  unfold State.onRST
  ssplits
  all_goals first
    | rfl
    | exact core_put ..
    | exact (core_put ..).trans (core_updStream _ _ _ (fun _ => rfl))

theorem core_finishStream (s : State) (sid : Nat) : core (s.finishStream sid).1 = core s := by
  unfold State.finishStream
  ssplits
  all_goals first
    | rfl
    | exact (core_put ..).trans (core_updStream _ _ _ (fun _ => rfl))

theorem core_loopyFlush (s : State) : core s.loopyFlush.1 = core s := by
  unfold State.loopyFlush; ssplits <;> rfl

theorem core_release (s : State) : core s.release.1 = core s := by
  unfold State.release
  simp only []
  ssplits
  all_goals first
    | rfl
    | exact core_via (keepsC_loopyExit true) _ rfl
    | exact core_via (keepsC_afterFinalFlush _) _ rfl

theorem core_loopyAbort (s : State) : core s.loopyAbort.1 = core s := by
  unfold State.loopyAbort
  ssplits
  all_goals first
    | rfl
    | exact core_via (keepsC_loopyExit false) _ rfl

theorem core_waiterFire (s : State) : core s.waiterFire = core s := by
  unfold State.waiterFire
  ssplits
  all_goals first
    | rfl
    | exact core_put ..

theorem core_closeTimerFire (s : State) : core s.closeTimerFire = core s := by
  unfold State.closeTimerFire; ssplits <;> rfl

theorem core_finalChosen (s : State) (cc : Bool) :
    core (s.finalChosen cc) = (if cc then { core s with ts := .draining, err := true }
      else { core s with ts := .draining, fin := match (core s).fin with | some n => some n | none => some (core s).max }) := by
  unfold State.finalChosen; split <;> rfl

/-- the loopy step: the only place where the final GOAWAY id is chosen -/
theorem cs_loopyStep (s : State) : CSteps (core s) (core s.loopyStep.1) := by
  unfold State.loopyStep
  split
  · exact .refl _
  · split
    · exact .refl _
    · rename_i it rest _
      cases it with
      | register id => simp only [Item.isGoAway, Bool.false_and, Bool.false_eq_true, if_false]; exact .of_eq rfl
      | trailers id rst =>
        simp only [Item.isGoAway, Bool.false_and, Bool.false_eq_true, if_false]
        ssplits
        all_goals first
          | exact .of_eq rfl
          | exact .of_eq (core_via (keepsC_loopyExit _) _ rfl)
          | exact .of_eq (core_via (keepsC_afterCleanup _ _ _) _ rfl)
          | exact .of_eq (core_via (keepsC_afterCleanup _ _ _) _ (core_updStream _ _ _ (fun _ => rfl)))
      | cleanup id rst code =>
        simp only [Item.isGoAway, Bool.false_and, Bool.false_eq_true, if_false]
        exact .of_eq (core_via (keepsC_afterCleanup _ _ _) _ rfl)
      | pingAck d =>
        simp only [Item.isGoAway, Bool.false_and, Bool.false_eq_true, if_false]
        ssplits
        all_goals first
          | exact .of_eq (core_via (keepsC_loopyExit _) _ rfl)
          | exact .of_eq rfl
      | goAway headsUp code closeConn =>
        simp only [Item.isGoAway, Bool.true_and]
        split
        · exact .refl _
        · rename_i hblk
          have hp : s.hdrPending = none := by
            cases h : s.hdrPending <;> simp_all
          (try simp only [])
          split
          · exact .of_eq (core_via (keepsC_loopyExit _) _ rfl)
          · rename_i hcl
            have hcl' : (core s).ts ≠ .closing := hcl
            split
            · split
              · exact .of_eq (core_via (keepsC_loopyExit _) _ rfl)
              · exact .of_eq rfl
            · -- the final GOAWAY handler
              have hstep : CSteps (core s) (core (({ s with cbuf := rest } : State).finalChosen closeConn)) := by
                rw [core_finalChosen]
                have hc : core ({ s with cbuf := rest } : State) = core s := rfl
                rw [hc]
                split
                · exact .one (CStep.finalE (core s) hp hcl')
                · exact .one (CStep.finalG (core s) hp hcl')
              generalize (({ s with cbuf := rest } : State).finalChosen closeConn) = T at hstep
              (try simp only [])
              ssplits
              all_goals first
                | exact hstep
                | exact hstep.trans (.of_eq (core_via (keepsC_loopyExit _) _ rfl))
                | exact hstep.trans (.of_eq (core_via (keepsC_afterFinalFlush _) _ rfl))

theorem core_step (s : State) (e : Ev) : CSteps (core s) (core (step s e).1) := by
  cases e <;> simp only [step]
  · exact cs_onHeaders ..
  · exact cs_hdrA ..
  · exact cs_hdrB ..
  · exact .of_eq (core_drain ..)
  · exact .of_eq (core_onPingAck ..)
  · exact .of_eq (core_onPing ..)
  · exact .of_eq (core_onRST ..)
  · exact .of_eq (core_finishStream ..)
  · exact cs_loopyStep ..
  · exact .of_eq (core_loopyFlush ..)
  · exact .of_eq (core_loopyAbort ..)
  · exact .of_eq (core_waiterFire ..)
  · exact .of_eq (core_closeTimerFire ..)
  · exact cs_readerExit ..
  · exact cs_close ..
  · exact .of_eq rfl
  · exact .of_eq (core_release ..)
  · exact .of_eq rfl
  · exact .of_eq rfl

theorem core_run (s : State) (es : List Ev) : CSteps (core s) (core (run s es)) := by
  induction es generalizing s with
  | nil => exact .refl _
  | cons e es ih => exact (core_step s e).trans (ih _)

/-! ### the invariant, on the core -/

structure CInv (c : Core) : Prop where
  /-- accepted ids never exceed `maxStreamID` -/
  le : ∀ i ∈ c.ids, i ≤ c.max
  /-- the final GOAWAY's id covers every accepted stream, and the transport is no longer `reachable` -/
  fin : ∀ n, c.fin = some n → c.ts ≠ .reachable ∧ n ≤ c.max ∧ ∀ i ∈ c.ids, i ≤ n
  /-- a HEADERS frame the reader is working on carries an id above the final GOAWAY's -/
  pend : ∀ p, c.pend = some p → p = c.max ∧ ∀ n, c.fin = some n → n < p
  /-- … and so does every stream that was dropped silently (unless an error GOAWAY tore the connection down) -/
  drop : c.err = false → ∀ n, c.fin = some n → ∀ d ∈ c.dr, n < d
  /-- nothing is dropped before the final GOAWAY id is chosen -/
  early : c.err = false → c.fin = none → c.ts ≠ .closing → c.dr = []
  /-- `draining` is entered only by a final-GOAWAY handler -/
  drn : c.err = false → c.ts = .draining → c.fin.isSome = true

theorem cinv_init : CInv (core init) := by
  constructor <;> simp [core, init, ids]

theorem cinv_cstep {a b : Core} (h : CInv a) (st : CStep a b) : CInv b := by
  obtain ⟨h1, h2, h3, h4, h5, h6⟩ := h
  cases st with
  | hdrA p hp hlt =>
    refine ⟨fun i hi => Nat.le_trans (h1 i hi) (Nat.le_of_lt hlt), fun n hn => ?_, fun q hq => ?_, h4, h5, h6⟩
    · have := h2 n hn
      exact ⟨this.1, Nat.le_trans this.2.1 (Nat.le_of_lt hlt), this.2.2⟩
    · simp at hq; subst hq
      exact ⟨rfl, fun n hn => Nat.lt_of_le_of_lt (h2 n hn).2.1 hlt⟩
  | accept p hp hr =>
    have hpm := (h3 p hp).1
    refine ⟨fun i hi => ?_, fun n hn => ?_, fun q hq => by simp at hq, h4, h5, h6⟩
    · simp at hi
      rcases hi with hi | hi
      · exact h1 i hi
      · subst hi; simp [hpm]
    · exact absurd hr (h2 n hn).1
  | drop p hp hn =>
    refine ⟨h1, h2, fun q hq => by simp at hq, fun he n hf d hd => ?_, fun he hf hc => ?_, h6⟩
    · simp at hd
      rcases hd with hd | hd
      · exact h4 he n hf d hd
      · subst hd; exact (h3 d hp).2 n hf
    · -- fin = none, not closing, not reachable: draining without a final GOAWAY is impossible
      exfalso
      cases hts : a.ts with
      | reachable => exact hn hts
      | closing => exact hc hts
      | draining =>
        have := h6 he hts
        rw [hf] at this
        exact absurd this (by simp)
  | finalG hp hc =>
    refine ⟨h1, fun n hn => ?_, fun q hq => by rw [hp] at hq; simp at hq, fun he n hf d hd => ?_, fun he hf => ?_, fun _ _ => ?_⟩
    · cases hf : a.fin with
      | some m =>
        simp [hf] at hn; subst hn
        have := h2 m hf
        exact ⟨by simp, this.2.1, this.2.2⟩
      | none =>
        simp [hf] at hn; subst hn
        exact ⟨by simp, Nat.le_refl _, h1⟩
    · cases hf0 : a.fin with
      | some m =>
        simp [hf0] at hf; subst hf
        exact h4 he m hf0 d hd
      | none =>
        have := h5 he hf0 hc
        simp [this] at hd
    · cases hf0 : a.fin <;> simp [hf0] at hf
    · cases hf0 : a.fin <;> simp
  | finalE hp hc =>
    refine ⟨h1, fun n hn => ?_, h3, fun he => by simp at he, fun he => by simp at he, fun he => by simp at he⟩
    have := h2 n hn
    exact ⟨by simp, this.2.1, this.2.2⟩
  | closing =>
    refine ⟨h1, fun n hn => ?_, h3, h4, fun _ _ hc => by simp at hc, fun _ hd => by simp at hd⟩
    have := h2 n hn
    exact ⟨by simp, this.2.1, this.2.2⟩

theorem cinv_csteps {a b : Core} (h : CInv a) (st : CSteps a b) : CInv b := by
  induction st with
  | refl => exact h
  | tail _ s1 ih => exact cinv_cstep ih s1

/-- once the transport has left `reachable` no stream is handed to a handler any more -/
theorem frozen_cstep {a b : Core} (hn : a.ts ≠ .reachable) (st : CStep a b) : b.ids = a.ids ∧ b.ts ≠ .reachable := by
  cases st with
  | hdrA => exact ⟨rfl, hn⟩
  | accept p hp hr => exact absurd hr hn
  | drop => exact ⟨rfl, hn⟩
  | finalG => exact ⟨rfl, by simp⟩
  | finalE => exact ⟨rfl, by simp⟩
  | closing => exact ⟨rfl, by simp⟩

theorem frozen_csteps {a b : Core} (hn : a.ts ≠ .reachable) (st : CSteps a b) : b.ids = a.ids ∧ b.ts ≠ .reachable := by
  induction st with
  | refl => exact ⟨rfl, hn⟩
  | tail _ s1 ih =>
    have := frozen_cstep ih.2 s1
    exact ⟨this.1.trans ih.1, this.2⟩

end GrpcProofs.Lemmas.ServerDrain
